import MsqProofs.Lemmas.ParseKCase0
import MsqProofs.Lemmas.ParseCase3b
/-!
# C09, parser half, SHARP form — part 1: token lists that differ only in the letter case of RESERVED WORDS

* `KE t t'` — the two tokens are the same, or both are single tokens WITHOUT the NAME and the LITERAL mark (what the lexer gives the
  entries of its keyword table, `C09.keyword_case`), with the same marks, both plain words with the same `str.upper()`, and that
  upper-case form is one of the reserved words (`reservedL`: the 24 unmarked entries of the keyword table).  Bracket groups: same kind,
  same marks, children related pointwise; a group that carries the NAME or LITERAL mark (the lexer never emits one) must be the same.
* `KEL` on token lists, `KELL` on segment lists.  `KE ⊆ CE`, `KEL ⊆ CEL` (`ke_ce`, `kel_cel`): everything the `≈` family knows about
  the parser's TESTS applies.
* `KER rv a b` / `KEX` / `keOpt` — the result relations, as `CER` / `CEX` / `ceOpt` with `KEL` on the remaining cursors.
* what is new for a token: with the NAME or the LITERAL mark the two tokens are EQUAL (`ke_eq_of_name`, `ke_eq_of_lit`), and the
  source a parser site stores WITHOUT such a check is the same up to `km` (`ke_km_src`, `ke_unifyName`).
-/
set_option linter.unusedSimpArgs false
set_option linter.unusedVariables false
open Lex Ast
namespace PM

mutual
/-- the two tokens differ at most in the letter case of reserved words -/
def KE : Tok → Tok → Prop
  | .single s m, .single s' m' => m = m' ∧ (s = s' ∨ (Tok.has (.single s m) NAME = false ∧ Tok.has (.single s m) LITERAL = false ∧
      caseWord s = true ∧ caseWord s' = true ∧ Gen.pyUpper s = Gen.pyUpper s' ∧ reservedL.contains (Gen.pyUpper s) = true))
  | .group k cs m, .group k' cs' m' => k = k' ∧ m = m' ∧ KEL cs cs' ∧ ((m &&& NAME = 0 ∧ m &&& LITERAL = 0) ∨ cs = cs')
  | .single _ _, .group _ _ _ => False
  | .group _ _ _, .single _ _ => False
def KEL : List Tok → List Tok → Prop
  | [], [] => True
  | t :: ts, t' :: ts' => KE t t' ∧ KEL ts ts'
  | [], _ :: _ => False
  | _ :: _, [] => False
end
/-- lists of segments -/
def KELL : List (List Tok) → List (List Tok) → Prop
  | [], [] => True
  | a :: as, b :: bs => KEL a b ∧ KELL as bs
  | [], _ :: _ => False
  | _ :: _, [] => False

@[simp, grind =] theorem kel_nil_nil : KEL [] [] = True := by simp [KEL]
@[simp, grind =] theorem kel_cons_cons (t t' : Tok) (ts ts' : List Tok) : KEL (t :: ts) (t' :: ts') = (KE t t' ∧ KEL ts ts') := by simp [KEL]
@[simp, grind =] theorem kel_nil_cons (t : Tok) (ts : List Tok) : KEL [] (t :: ts) = False := by simp [KEL]
@[simp, grind =] theorem kel_cons_nil (t : Tok) (ts : List Tok) : KEL (t :: ts) [] = False := by simp [KEL]
@[simp, grind =] theorem kell_nil_nil : KELL [] [] = True := by simp [KELL]
@[simp, grind =] theorem kell_cons_cons (a b : List Tok) (as bs : List (List Tok)) : KELL (a :: as) (b :: bs) = (KEL a b ∧ KELL as bs) := by simp [KELL]
@[simp, grind =] theorem kell_nil_cons (a : List Tok) (as : List (List Tok)) : KELL [] (a :: as) = False := by simp [KELL]
@[simp, grind =] theorem kell_cons_nil (a : List Tok) (as : List (List Tok)) : KELL (a :: as) [] = False := by simp [KELL]

mutual
theorem KE.refl : ∀ t : Tok, KE t t
  | .single s m => by simp [KE]
  | .group k cs m => by simp [KE]; exact KEL.refl cs
theorem KEL.refl : ∀ ts : List Tok, KEL ts ts
  | [] => by simp
  | t :: ts => by simp; exact ⟨KE.refl t, KEL.refl ts⟩
end
mutual
/-- reserved-word case variation is a special case of word case variation -/
theorem ke_ce : ∀ t t' : Tok, KE t t' → CE t t'
  | .single s m, .single s' m', h => by
    simp only [KE] at h; simp only [CE]
    refine ⟨h.1, ?_⟩
    rcases h.2 with e | ⟨_, _, h1, h2, h3, _⟩
    · exact .inl e
    · exact .inr ⟨h1, h2, h3⟩
  | .group k cs m, .group k' cs' m', h => by
    simp only [KE] at h; simp only [CE]
    refine ⟨h.1, h.2.1, kel_cel cs cs' h.2.2.1, ?_⟩
    rcases h.2.2.2 with e | e
    · exact .inl e.1
    · exact .inr e
  | .single _ _, .group _ _ _, h => by simp [KE] at h
  | .group _ _ _, .single _ _, h => by simp [KE] at h
theorem kel_cel : ∀ ts ts' : List Tok, KEL ts ts' → CEL ts ts'
  | [], [], _ => by simp
  | t :: ts, t' :: ts', h => by simp only [kel_cons_cons] at h; simp only [cel_cons_cons]; exact ⟨ke_ce t t' h.1, kel_cel ts ts' h.2⟩
  | [], _ :: _, h => by simp at h
  | _ :: _, [], h => by simp at h
end
theorem kell_cell : ∀ a b : List (List Tok), KELL a b → CELL a b
  | [], [], _ => by simp
  | x :: a, y :: b, h => by simp only [kell_cons_cons] at h; simp only [cell_cons_cons]; exact ⟨kel_cel x y h.1, kell_cell a b h.2⟩
  | [], _ :: _, h => by simp at h
  | _ :: _, [], h => by simp at h
theorem kel_cel' {ts ts' : List Tok} (h : KEL ts ts') : CEL ts ts' := kel_cel ts ts' h
theorem ke_ce' {t t' : Tok} (h : KE t t') : CE t t' := ke_ce t t' h

theorem kel_nil_left {ts : List Tok} (h : KEL [] ts) : ts = [] := by cases ts <;> simp_all
theorem kel_nil_right {ts : List Tok} (h : KEL ts []) : ts = [] := by cases ts <;> simp_all
theorem kel_cons_left {t : Tok} {ts r : List Tok} (h : KEL (t :: ts) r) : ∃ t' ts', r = t' :: ts' ∧ KE t t' ∧ KEL ts ts' := by
  cases r with | nil => simp at h | cons t' ts' => simp at h; exact ⟨t', ts', rfl, h⟩
theorem kel_cons_right {t : Tok} {ts r : List Tok} (h : KEL r (t :: ts)) : ∃ t' ts', r = t' :: ts' ∧ KE t' t ∧ KEL ts' ts := by
  cases r with | nil => simp at h | cons t' ts' => simp at h; exact ⟨t', ts', rfl, h⟩
grind_pattern kel_nil_left => KEL [] ts
grind_pattern kel_nil_right => KEL ts []
theorem kel_length {ts ts' : List Tok} (h : KEL ts ts') : ts.length = ts'.length := cel_length (kel_cel' h)
grind_pattern kel_length => KEL ts ts', ts.length
theorem kel_isEmpty {ts ts' : List Tok} (h : KEL ts ts') : ts.isEmpty = ts'.isEmpty := by
  cases ts <;> cases ts' <;> simp_all
grind_pattern kel_isEmpty => KEL ts ts', ts.isEmpty
theorem kel_drop {ts ts' : List Tok} (h : KEL ts ts') (n : Nat) : KEL (ts.drop n) (ts'.drop n) := by
  induction n generalizing ts ts' with
  | zero => simpa using h
  | succ n ih =>
    cases ts <;> cases ts' <;> simp_all
grind_pattern kel_drop => KEL ts ts', ts.drop n
theorem kel_append {a a' b b' : List Tok} (h1 : KEL a a') (h2 : KEL b b') : KEL (a ++ b) (a' ++ b') := by
  induction a generalizing a' with
  | nil => rw [kel_nil_left h1]; simpa using h2
  | cons t a ih => cases a' with | nil => simp at h1 | cons t' a' => simp at h1 ⊢; exact ⟨h1.1, ih h1.2⟩
grind_pattern kel_append => KEL a a', KEL b b', a ++ b
theorem kell_append {a a' b b' : List (List Tok)} (h1 : KELL a a') (h2 : KELL b b') : KELL (a ++ b) (a' ++ b') := by
  induction a generalizing a' with
  | nil => cases a' <;> simp_all
  | cons t a ih => cases a' with | nil => simp at h1 | cons t' a' => simp at h1 ⊢; exact ⟨h1.1, ih h1.2⟩

/-! ### the relation on runs -/
/-- both runs fail with the same error, or both succeed with related values and related remaining cursors -/
def KER {α : Type} (rv : α → α → Prop) (a b : R α) : Prop :=
  match a, b with
  | .ok (v, r), .ok (v', r') => rv v v' ∧ KEL r r'
  | .error e, .error e' => e = e'
  | _, _ => False
@[simp, grind =] theorem ker_ok_ok {α : Type} (rv : α → α → Prop) (v v' : α) (r r' : List Tok) :
    KER rv (.ok (v, r)) (.ok (v', r')) = (rv v v' ∧ KEL r r') := by simp [KER]
@[simp, grind =] theorem ker_err_err {α : Type} (rv : α → α → Prop) (e e' : Err) : KER rv (.error e) (.error e') = (e = e') := by simp [KER]
@[simp, grind =] theorem ker_ok_err {α : Type} (rv : α → α → Prop) (p : α × List Tok) (e : Err) : KER rv (.ok p) (.error e) = False := by
  obtain ⟨v, r⟩ := p; simp [KER]
@[simp, grind =] theorem ker_err_ok {α : Type} (rv : α → α → Prop) (p : α × List Tok) (e : Err) : KER rv (.error e) (.ok p) = False := by
  obtain ⟨v, r⟩ := p; simp [KER]
/-- the same for results without a cursor -/
def KEX {α : Type} (rv : α → α → Prop) (a b : Except Err α) : Prop :=
  match a, b with
  | .ok v, .ok v' => rv v v'
  | .error e, .error e' => e = e'
  | _, _ => False
@[simp, grind =] theorem kex_ok_ok {α : Type} (rv : α → α → Prop) (v v' : α) : KEX rv (.ok v) (.ok v') = rv v v' := by simp [KEX]
@[simp, grind =] theorem kex_err_err {α : Type} (rv : α → α → Prop) (e e' : Err) : KEX rv (.error e) (.error e') = (e = e') := by simp [KEX]
@[simp, grind =] theorem kex_ok_err {α : Type} (rv : α → α → Prop) (v : α) (e : Err) : KEX rv (.ok v) (.error e) = False := by simp [KEX]
@[simp, grind =] theorem kex_err_ok {α : Type} (rv : α → α → Prop) (v : α) (e : Err) : KEX rv (.error e) (.ok v) = False := by simp [KEX]
/-- related optional (value, cursor) pairs: `pKwBody`, `pBetween`, `pInBody` -/
def keOpt {α : Type} (rv : α → α → Prop) (a b : Option (α × List Tok)) : Prop :=
  match a, b with
  | some (v, r), some (v', r') => rv v v' ∧ KEL r r'
  | none, none => True
  | _, _ => False
@[simp, grind =] theorem keOpt_some_some {α : Type} (rv : α → α → Prop) (v v' : α) (r r' : List Tok) :
    keOpt rv (some (v, r)) (some (v', r')) = (rv v v' ∧ KEL r r') := by simp [keOpt]
@[simp, grind =] theorem keOpt_none_none {α : Type} (rv : α → α → Prop) : keOpt rv none none = True := by simp [keOpt]
@[simp, grind =] theorem keOpt_some_none {α : Type} (rv : α → α → Prop) (p : α × List Tok) : keOpt rv (some p) none = False := by
  obtain ⟨v, r⟩ := p; simp [keOpt]
@[simp, grind =] theorem keOpt_none_some {α : Type} (rv : α → α → Prop) (p : α × List Tok) : keOpt rv none (some p) = False := by
  obtain ⟨v, r⟩ := p; simp [keOpt]

/-! ### one token: the tests (through `CE`) -/
section tok
variable {t t' : Tok} (h : KE t t')
include h
theorem ke_marks : t.marks = t'.marks := ce_marks (ke_ce' h)
theorem ke_has (m : Nat) : t.has m = t'.has m := ce_has (ke_ce' h) m
theorem ke_up_src : up t.src = up t'.src := ce_up_src (ke_ce' h)
theorem ke_hasNonAscii : hasNonAscii t.src = hasNonAscii t'.src := ce_hasNonAscii (ke_ce' h)
theorem ke_srcEqUp (k : String) : t.srcEqUp k = t'.srcEqUp k := ce_srcEqUp (ke_ce' h) k
theorem ke_equalsStr (k : String) : t.equalsStr k = t'.equalsStr k := ce_equalsStr (ke_ce' h) k
theorem ke_children : KEL t.children t'.children := by
  cases t <;> cases t' <;> simp_all [KE, Tok.children]
theorem ke_notOp (k : String) (hk : isOpLit k = true) : (t.src == k) = (t'.src == k) := ce_notOp (ke_ce' h) k hk
theorem ke_srcEq (k : String) (hk : isOpLit k = true) : t.srcEq k = t'.srcEq k := ce_srcEq (ke_ce' h) k hk
theorem ke_contains (ks : List String) (hks : ks.all isOpLit = true) : ks.contains t.src = ks.contains t'.src := ce_contains (ke_ce' h) ks hks
theorem ke_unarySet (d : Gen.D) : (Gen.unarySet d).contains t.src = (Gen.unarySet d).contains t'.src := ce_unarySet (ke_ce' h) d
theorem ke_compareOp : compareOp? t.src = compareOp? t'.src := ce_compareOp (ke_ce' h)
theorem ke_pyInt : pyInt t.src = pyInt t'.src := ce_pyInt (ke_ce' h)
theorem ke_asInt : asInt t.src = asInt t'.src := ce_asInt (ke_ce' h)

/-! ### one token: what is stored -/
/-- a token with the NAME mark is the same on both sides -/
theorem ke_eq_of_name (hn : t.has NAME = true) : t = t' := by
  cases t with
  | single s m => cases t' with
    | single s' m' =>
      simp only [KE] at h
      rcases h.2 with e | ⟨h1, _⟩
      · rw [e, h.1]
      · rw [h1] at hn; cases hn
    | group _ _ _ => simp [KE] at h
  | group k cs m => cases t' with
    | single _ _ => simp [KE] at h
    | group k' cs' m' =>
      simp only [KE] at h
      rcases h.2.2.2 with e | e
      · simp [Tok.has, Tok.marks, e.1] at hn
      · rw [h.1, h.2.1, e]
/-- … and so is a token with the LITERAL mark -/
theorem ke_eq_of_lit (hn : t.has LITERAL = true) : t = t' := by
  cases t with
  | single s m => cases t' with
    | single s' m' =>
      simp only [KE] at h
      rcases h.2 with e | ⟨_, h1, _⟩
      · rw [e, h.1]
      · rw [h1] at hn; cases hn
    | group _ _ _ => simp [KE] at h
  | group k cs m => cases t' with
    | single _ _ => simp [KE] at h
    | group k' cs' m' =>
      simp only [KE] at h
      rcases h.2.2.2 with e | e
      · simp [Tok.has, Tok.marks, e.2] at hn
      · rw [h.1, h.2.1, e]
/-- the sources are the same, or both are reserved words (leaves), or both are bracket groups -/
theorem ke_src_cases : t.src = t'.src ∨
    (∃ s s', t.src = String.ofList s ∧ t'.src = String.ofList s' ∧ caseWord s = true ∧ caseWord s' = true ∧
      reservedL.contains (Gen.pyUpper s) = true ∧ reservedL.contains (Gen.pyUpper s') = true)
    ∨ (∃ l l', t.src = String.ofList ('(' :: (l ++ [')'])) ∧ t'.src = String.ofList ('(' :: (l' ++ [')']))) := by
  cases t with
  | single s m => cases t' with
    | single s' m' =>
      simp only [KE] at h
      rcases h.2 with rfl | ⟨_, _, h1, h2, h3, h4⟩
      · exact .inl rfl
      · exact .inr (.inl ⟨s, s', rfl, rfl, h1, h2, h4, h3 ▸ h4⟩)
    | group _ _ _ => simp [KE] at h
  | group k cs m => cases t' with
    | single _ _ => simp [KE] at h
    | group k' cs' m' => exact .inr (.inr ⟨_, _, rfl, rfl⟩)
/-- a source stored as it is: the same up to `km` -/
theorem ke_km_src : km t.src = km t'.src := by
  have hu := ke_up_src h
  rcases ke_src_cases h with e | ⟨s, s', e1, e2, _, _, h1, h2⟩ | ⟨l, l', e1, e2⟩
  · rw [e]
  · rw [e1, e2, km_word h1, km_word h2, ← e1, ← e2, hu]
  · rw [e1, e2, km_paren, km_paren, ← e1, ← e2, hu]
/-- a stored name (back-quotes stripped): the same up to `km` -/
theorem ke_unifyName : km (unifyName t.src) = km (unifyName t'.src) := by
  have hu := ke_up_src h
  rcases ke_src_cases h with e | ⟨s, s', e1, e2, c1, c2, h1, h2⟩ | ⟨l, l', e1, e2⟩
  · rw [e]
  · rw [e1, e2, caseWord_unifyName c1, caseWord_unifyName c2, km_word h1, km_word h2, ← e1, ← e2, hu]
  · rw [e1, e2, unifyName_paren, unifyName_paren, km_paren, km_paren, ← e1, ← e2, hu]
theorem ke_up_unifyName : up (unifyName t.src) = up (unifyName t'.src) := ce_unifyName (ke_ce' h)
end tok

end PM
