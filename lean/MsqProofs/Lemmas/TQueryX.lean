import MsqProofs.Lemmas.TQueryE4
/-!
# T-parse closed under nesting: the bracketed sub-query positions of expressions (C03 / C02)

`QT d ch q` — the query-level statement for `q` (what the mutual induction provides for the sub-queries of an expression):
`pSelectStmt … none` returns `q` from its rendering in front of every continuation with `stopsQ`, and the rendering starts with `SELECT`.
Node lemmas: scalar sub-query `(q)` (`full2_subq`: the child cursor is closed), `EXISTS (q)` (`cont9_exists`, tower `tower_exists`),
`[NOT] IN (q)` (`cont9_inq`).
-/
set_option linter.unusedVariables false
set_option linter.unusedSimpArgs false
set_option maxHeartbeats 1000000
open Lex PM Ast TP TP2
namespace TQ
variable {d : Gen.D} {ch : Expr → Bool}

structure QT (d : Gen.D) (ch : Expr → Bool) (q : Query) : Prop where
  parse : ∀ rest, stopsQ d rest = true → OkAt (fun f => pSelectStmt d f none (toksQ d ch q ++ rest)) (20 * sizeL (toksQ d ch q) + 9) (q, rest)
  head : ∃ x, toksQ d ch q = opTok "SELECT" :: x

theorem select_starts (x : List Tok) : startsSelect (opTok "SELECT" :: x) = true := by
  have : ["SELECT", "WITH"].contains (up (opTok "SELECT").src) = true := by decide
  simpa [startsSelect, searchSetUp] using this
/-- `pSubQuery` on a bracket group holding the rendering of `q`, whatever follows -/
theorem subq_ok (q : Query) (hq : QT d ch q) (rest : List Tok) :
    OkAt (fun f => pSubQuery d f (grp (toksQ d ch q) :: rest)) (20 * sizeL (toksQ d ch q) + 10) (.subQuery q, rest) := by
  intro f hf
  obtain ⟨g, rfl⟩ : ∃ g, f = g + 1 := ⟨f - 1, by omega⟩
  have h := hq.parse [] rfl g (by omega)
  simp only [List.append_nil] at h
  unfold pSubQuery
  simp only [children_grp, h, closed]

/-- `(q)` -/
theorem full2_subq (q : Query) (hq : QT d ch q) : Full2 d (P2 d) 2 0 [grp (toksQ d ch q)] (.subQuery q) := by
  intro rest hr f hf
  simp only [sizeL, size_grp] at hf
  obtain ⟨g, rfl⟩ : ∃ g, f = g + 3 := ⟨f - 3, by omega⟩
  have he := grp_elemTok d (toksQ d ch q)
  simp only [elemTok, Bool.and_eq_true, Bool.not_eq_true'] at he
  obtain ⟨x, hx⟩ := hq.head
  have hs : startsSelect (toksQ d ch q) = true := by rw [hx]; exact select_starts x
  have h1 := subq_ok q hq rest g (by omega)
  show pUnary d (g + 3) (grp (toksQ d ch q) :: rest) = _
  unfold pUnary
  simp only [he.2, Bool.false_eq_true, if_false]
  unfold pElement
  simp only [grp_literal, grp_paren, Bool.false_eq_true, if_false, if_true]
  unfold pParen
  simp only [children_grp, hs, if_true, h1]

/-! ### `EXISTS (q)` -/
theorem exists_words : (opTok "EXISTS").srcEqUp "EXISTS" = true ∧ (opTok "EXISTS").size = 1 ∧ hdTok (opTok "EXISTS") = true ∧
    (opTok "EXISTS").equalsStr "," = false := by decide
theorem exists_notSet : (Gen.notSet d).contains (up (opTok "EXISTS").src) = false := by cases d <;> decide
theorem cont9_exists (q : Query) (hq : QT d ch q) :
    Cont2 d (P9 d) (kwLoop d) 8 4 (opTok "EXISTS" :: [grp (toksQ d ch q)]) (.exists_ (.subQuery q)) := by
  obtain ⟨kE, _, _, _⟩ := exists_words
  intro rest h8 n res hloop f hf
  simp only [sizeL, size_grp, size_opTok] at hf
  obtain ⟨g, rfl⟩ : ∃ g, f = g + 1 := ⟨f - 1, by omega⟩
  have h1 := subq_ok q hq rest g (by omega)
  have ht := kw_tail (.exists_ (.subQuery q)) rest (sl h8) n res hloop g (by omega)
  have hs : searchStrUp (opTok "EXISTS" :: grp (toksQ d ch q) :: rest) "EXISTS" = true := by simpa [searchStrUp] using kE
  show pKeyword d (g + 1) none (opTok "EXISTS" :: [grp (toksQ d ch q)] ++ rest) = _
  unfold pKeyword
  simp only [List.cons_append, List.nil_append, Option.isNone_none, Bool.true_and, hs, if_true, List.drop_succ_cons, List.drop_zero, h1]
  simpa using ht
/-- `up11` with the weaker head condition it really needs: the first token is no `NOT` word -/
theorem up11w {ts x} (h : Full2 d (P10 d) 10 8 ts x) (hd : ∃ t ts', ts = t :: ts' ∧ (Gen.notSet d).contains (up t.src) = false) :
    Full2 d (P11 d) 11 9 ts x := by
  intro rest hr f hf
  obtain ⟨g, rfl⟩ : ∃ g, f = g + 1 := ⟨f - 1, by omega⟩
  obtain ⟨t, ts', rfl, hn⟩ := hd
  show pNot d (g + 1) (t :: ts' ++ rest) = _
  unfold pNot
  simp only [List.cons_append, hn, Bool.false_eq_true, if_false]
  exact h rest (stopLE2_mono hr (by omega)) g (by omega)
/-- every level from the keyword level on, from the continuation form at the keyword level and a first token that is no `NOT` word -/
theorem tower_of9w {ts x} (h : Cont2 d (P9 d) (kwLoop d) 8 4 ts x) (hd : ∃ t ts', ts = t :: ts' ∧ (Gen.notSet d).contains (up t.src) = false) :
    Tower2 d 9 ts x :=
  let s9 := s9_of_c9 h
  let c10 := c10_of_s9 s9
  let T := Tower2.of11 (up11w (s10_of_c10 c10) hd)
  ⟨fun h => absurd h (by omega), fun h => absurd h (by omega), fun _ => h, fun _ => s9,
   fun _ => c10, fun _ => s10_of_c10 c10, fun _ => T.s11 (by omega), fun _ => T.c12 (by omega), fun _ => T.s12 (by omega),
   fun _ => T.c13 (by omega), fun _ => T.s13 (by omega), T.c14, T.s14⟩
theorem tower_of10w {ts x} (h : Cont2 d (P10 d) (fun f => pCompareLoop d f) 9 7 ts x)
    (hd : ∃ t ts', ts = t :: ts' ∧ (Gen.notSet d).contains (up t.src) = false) : Tower2 d 10 ts x :=
  let T := Tower2.of11 (up11w (s10_of_c10 h) hd)
  ⟨fun h => absurd h (by omega), fun h => absurd h (by omega), fun h => absurd h (by omega), fun h => absurd h (by omega),
   fun _ => h, fun _ => s10_of_c10 h, fun _ => T.s11 (by omega), fun _ => T.c12 (by omega), fun _ => T.s12 (by omega),
   fun _ => T.c13 (by omega), fun _ => T.s13 (by omega), T.c14, T.s14⟩

/-! ### `[NOT] IN (q)` -/
theorem cont9_inq (n0 : Bool) (l : Expr) (q : Query) (hq : QT d ch q) (hl : Cont2 d (P9 d) (kwLoop d) 8 4 (W3 d ch l 9) l) :
    Cont2 d (P9 d) (kwLoop d) 8 4 (W3 d ch l 9 ++ (kwToks .in_ n0 ++ [grp (toksQ d ch q)])) (.kw .in_ n0 l (.subQuery q)) := by
  intro rest h8 n res hloop
  obtain ⟨hu, _, _⟩ := in_words
  obtain ⟨x, hx⟩ := hq.head
  have hss : startsSelect (toksQ d ch q) = true := by rw [hx]; exact select_starts x
  have body : ∀ isNot, OkAt (fun f => kwLoop d f (.kw .in_ isNot l (.subQuery q)) rest) n res →
      OkAt (fun f => pKwRest d f l isNot (opTok "IN" :: grp (toksQ d ch q) :: rest)) (n + 20 * sizeL (toksQ d ch q) + 14) res := by
    intro isNot hlp f hf
    obtain ⟨g, rfl⟩ : ∃ g, f = g + 3 := ⟨f - 3, by omega⟩
    have h1 := subq_ok q hq rest g (by omega)
    have ht := kw_tail (.kw .in_ isNot l (.subQuery q)) rest (sl h8) n res hlp (g + 2) (by omega)
    unfold pKwRest
    simp only []
    unfold pKwBody
    simp only [hu]
    unfold pInBody
    simp only [children_grp, hss, if_true, h1]
    simpa using ht
  have key : OkAt (fun f => kwLoop d f l (kwToks .in_ n0 ++ (grp (toksQ d ch q) :: rest))) (n + 20 * sizeL (toksQ d ch q) + 14) res := by
    unfold kwLoop
    cases n0 <;> simp only [kwToks, List.cons_append, List.nil_append, skipNot_of _ notSet_IN, skipNot_NOT, Bool.false_eq_true, if_false, if_true] <;>
      exact body _ hloop
  have hstop : stopLE2 d 8 (kwToks .in_ n0 ++ (grp (toksQ d ch q) :: rest)) = true := by
    cases n0
    · exact (stop2_kw _).2.2.2.2.2.2.2
    · exact (stop2_kw _).2.1
  have := hl _ hstop _ res key
  simp only [List.append_assoc, List.cons_append, List.nil_append, List.singleton_append]
  refine this.mono ?_
  cases n0 <;> simp only [kwToks, sizeL_append, sizeL_cons, size_grp, size_opTok, sizeL, Bool.false_eq_true, if_false, if_true] <;> omega

end TQ
