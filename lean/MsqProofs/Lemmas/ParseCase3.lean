import MsqProofs.Lemmas.ParseCase2
/-!
# C09, parser half — hand-written part 4: the look-aheads and pure helpers of the parser on two case-equivalent cursors

One lemma per primitive of `MsqModel/Parse/Prim.lean` / helper of `Expr.lean` that is not a run (`Bool`- or pair-valued), each with a
`grind_pattern` on the term for the FIRST cursor, so that it is instantiated once per test that occurs in an unfolded run.
-/
set_option linter.unusedSimpArgs false
set_option linter.unusedVariables false
set_option maxHeartbeats 1000000
open Lex Ast
namespace PM

/-- values are related through a function (`upAll` of their type): `ceq f a b ↔ f a = f b` -/
def ceq {α β : Type} (f : α → β) (a b : α) : Prop := f a = f b
@[simp, grind =] theorem ceq_def {α β : Type} (f : α → β) (a b : α) : ceq f a b = (f a = f b) := rfl
@[grind =] theorem prod_map_mk {α β γ δ : Type} (f : α → γ) (g : β → δ) (a : α) (b : β) : Prod.map f g (a, b) = (f a, g b) := rfl

/-- `close()` on two related runs -/
theorem closed_ce {α : Type} {rv : α → α → Prop} {a b : R α} (h : CER rv a b) : CEX rv (closed a) (closed b) := by
  match a, b, h with
  | .ok (v, r), .ok (v', r'), h =>
    simp at h
    cases r <;> cases r' <;> simp_all [closed]
  | .error e, .error e', h => simp at h; simp [closed, h]
  | .ok (_, _), .error _, h => simp at h
  | .error _, .ok (_, _), h => simp at h
grind_pattern closed_ce => CER rv a b, closed a

/-! ### token facts, as `grind` rules -/
theorem g_has {t t' : Tok} (h : CE t t') (m : Nat) : t.has m = t'.has m := ce_has h m
grind_pattern g_has => CE t t', Tok.has t m
theorem g_up_src {t t' : Tok} (h : CE t t') : up t.src = up t'.src := ce_up_src h
grind_pattern g_up_src => CE t t', Tok.src t
theorem g_srcEqUp {t t' : Tok} (h : CE t t') (k : String) : t.srcEqUp k = t'.srcEqUp k := ce_srcEqUp h k
grind_pattern g_srcEqUp => CE t t', Tok.srcEqUp t k
theorem g_equalsStr {t t' : Tok} (h : CE t t') (k : String) : t.equalsStr k = t'.equalsStr k := ce_equalsStr h k
grind_pattern g_equalsStr => CE t t', Tok.equalsStr t k
theorem g_children {t t' : Tok} (h : CE t t') : CEL t.children t'.children := ce_children h
grind_pattern g_children => CE t t', Tok.children t
theorem g_unarySet {t t' : Tok} (h : CE t t') (d : Gen.D) : (Gen.unarySet d).contains t.src = (Gen.unarySet d).contains t'.src := ce_unarySet h d
grind_pattern g_unarySet => CE t t', (Gen.unarySet d).contains (Tok.src t)
theorem g_compareOp {t t' : Tok} (h : CE t t') : compareOp? t.src = compareOp? t'.src := ce_compareOp h
grind_pattern g_compareOp => CE t t', compareOp? (Tok.src t)
theorem g_pyInt {t t' : Tok} (h : CE t t') : pyInt t.src = pyInt t'.src := ce_pyInt h
grind_pattern g_pyInt => CE t t', pyInt (Tok.src t)
theorem g_asInt {t t' : Tok} (h : CE t t') : asInt t.src = asInt t'.src := ce_asInt h
grind_pattern g_asInt => CE t t', asInt (Tok.src t)
theorem g_unifyName {t t' : Tok} (h : CE t t') : up (unifyName t.src) = up (unifyName t'.src) := ce_unifyName h
grind_pattern g_unifyName => CE t t', unifyName (Tok.src t)
/-- `_parse_function_name_expression` / `_parse_table_name_expression` on ONE token: only for NAME tokens -/
theorem g_splitName {t t' : Tok} (h : CE t t') (hn : t.has NAME = true) :
    CEX (ceq (Prod.map (Option.map up) up)) (splitName t.src) (splitName t'.src) := by
  rcases ce_src_cases h with e | ⟨s, s', e1, e2, h1, h2⟩ | ⟨l, l', e1, e2, h3, _⟩
  · rw [e]; cases splitName t'.src <;> simp
  · have := ce_up_src h
    rw [e1, e2] at this
    rw [e1, e2, caseWord_splitName h1, caseWord_splitName h2]; simp [this]
  · rw [h3] at hn; cases hn
grind_pattern g_splitName => CE t t', splitName (Tok.src t)
theorem g_srcEq_comma {t t' : Tok} (h : CE t t') : t.srcEq "," = t'.srcEq "," := ce_srcEq h _ (by decide)
grind_pattern g_srcEq_comma => CE t t', Tok.srcEq t ","
theorem g_srcEq_dot {t t' : Tok} (h : CE t t') : t.srcEq "." = t'.srcEq "." := ce_srcEq h _ (by decide)
grind_pattern g_srcEq_dot => CE t t', Tok.srcEq t "."
theorem g_srcEq_semi {t t' : Tok} (h : CE t t') : t.srcEq ";" = t'.srcEq ";" := ce_srcEq h _ (by decide)
grind_pattern g_srcEq_semi => CE t t', Tok.srcEq t ";"
theorem g_srcEq_star {t t' : Tok} (h : CE t t') : t.srcEq "*" = t'.srcEq "*" := ce_srcEq h _ (by decide)
grind_pattern g_srcEq_star => CE t t', Tok.srcEq t "*"
theorem g_srcEq_eq {t t' : Tok} (h : CE t t') : t.srcEq "=" = t'.srcEq "=" := ce_srcEq h _ (by decide)
grind_pattern g_srcEq_eq => CE t t', Tok.srcEq t "="
theorem g_srcEq_minus {t t' : Tok} (h : CE t t') : t.srcEq "-" = t'.srcEq "-" := ce_srcEq h _ (by decide)
grind_pattern g_srcEq_minus => CE t t', Tok.srcEq t "-"

/-! ### look-aheads on the head of the cursor -/
section cur
variable {ts ts' : List Tok} (h : CEL ts ts')
include h
theorem cel_searchStrUp (k : String) : searchStrUp ts k = searchStrUp ts' k := by
  cases ts <;> cases ts' <;> simp_all [searchStrUp]; exact ce_srcEqUp h.1 k
theorem cel_searchMark (m : Nat) : searchMark ts m = searchMark ts' m := by
  cases ts <;> cases ts' <;> simp_all [searchMark]; exact ce_has h.1 m
theorem cel_searchSetUp (ks : List String) : searchSetUp ts ks = searchSetUp ts' ks := by
  cases ts <;> cases ts' <;> simp_all [searchSetUp]; rw [ce_up_src h.1]
theorem cel_searchSet_compare : searchSet ts Gen.compareSet = searchSet ts' Gen.compareSet := by
  cases ts with
  | nil => rw [cel_nil_left h]
  | cons t r => cases ts' with
    | nil => simp at h
    | cons t' r' => simp at h; simp only [searchSet]; exact ce_contains h.1 Gen.compareSet (by decide)
theorem cel_searchTwoUp (a b : String) : searchTwoUp ts a b = searchTwoUp ts' a b := by
  unfold searchTwoUp
  match ts, ts', h with
  | [], [], _ => rfl
  | [_], [_], _ => rfl
  | x :: y :: _, x' :: y' :: _, h => simp at h; simp [ce_srcEqUp h.1, ce_srcEqUp h.2.1]
  | [], _ :: _, h => simp at h
  | _ :: _, [], h => simp at h
  | [_], _ :: _ :: _, h => simp at h
  | _ :: _ :: _, [_], h => simp at h
theorem cel_searchThreeUp (a b c : String) : searchThreeUp ts a b c = searchThreeUp ts' a b c := by
  unfold searchThreeUp
  match ts, ts', h with
  | [], [], _ => rfl
  | [_], [_], _ => rfl
  | [_, _], [_, _], _ => rfl
  | x :: y :: z :: _, x' :: y' :: z' :: _, h => simp at h; simp [ce_srcEqUp h.1, ce_srcEqUp h.2.1, ce_srcEqUp h.2.2.1]
  | [], _ :: _, h => simp at h
  | _ :: _, [], h => simp at h
  | [_], _ :: _ :: _, h => simp at h
  | _ :: _ :: _, [_], h => simp at h
  | [_, _], _ :: _ :: _ :: _, h => simp at h
  | _ :: _ :: _ :: _, [_, _], h => simp at h
theorem cel_searchSeq (ks : List String) : searchSeq ts ks = searchSeq ts' ks := by
  induction ks generalizing ts ts' with
  | nil => simp [searchSeq]
  | cons k ks ih =>
    cases ts <;> cases ts' <;> simp_all [searchSeq]
    rw [ce_equalsStr h.1, ih h.2]
theorem cel_startsSelect : startsSelect ts = startsSelect ts' := cel_searchSetUp h _
theorem cel_headIsOver : headIsOver ts = headIsOver ts' := by
  cases ts <;> cases ts' <;> simp_all [headIsOver]; exact ce_srcEqUp h.1 _
theorem cel_setOpHead : setOpHead ts = setOpHead ts' := by
  cases ts <;> cases ts' <;> simp_all [setOpHead]; rw [ce_up_src h.1]
theorem cel_joinHead : joinHead ts = joinHead ts' := by
  cases ts <;> cases ts' <;> simp_all [joinHead]; rw [ce_up_src h.1]
theorem cel_onUsingHead : onUsingHead ts = onUsingHead ts' := by
  cases ts <;> cases ts' <;> simp_all [onUsingHead]; rw [ce_up_src h.1]
theorem cel_chainsOn : chainsOn ts = chainsOn ts' := by
  cases ts <;> cases ts' <;> simp_all [chainsOn]; rw [ce_up_src h.1]
theorem cel_skipNot (d : Gen.D) : (skipNot d ts).1 = (skipNot d ts').1 ∧ CEL (skipNot d ts).2 (skipNot d ts').2 := by
  cases ts <;> cases ts' <;> simp_all [skipNot]
  rw [ce_up_src h.1]; split <;> simp_all
theorem cel_moveStrUp (k : String) : (moveStrUp ts k).1 = (moveStrUp ts' k).1 ∧ CEL (moveStrUp ts k).2 (moveStrUp ts' k).2 := by
  unfold moveStrUp; rw [cel_searchStrUp h k]; split <;> first | exact ⟨rfl, cel_drop h _⟩ | exact ⟨rfl, h⟩
theorem cel_moveSetUp (ks : List String) : (moveSetUp ts ks).1 = (moveSetUp ts' ks).1 ∧ CEL (moveSetUp ts ks).2 (moveSetUp ts' ks).2 := by
  unfold moveSetUp; rw [cel_searchSetUp h ks]; split <;> first | exact ⟨rfl, cel_drop h _⟩ | exact ⟨rfl, h⟩
theorem cel_moveSeq (ks : List String) : (moveSeq ts ks).1 = (moveSeq ts' ks).1 ∧ CEL (moveSeq ts ks).2 (moveSeq ts' ks).2 := by
  unfold moveSeq; rw [cel_searchSeq h ks]; split <;> first | exact ⟨rfl, cel_drop h _⟩ | exact ⟨rfl, h⟩
theorem cel_moveTwoUp (a b : String) : (moveTwoUp ts a b).1 = (moveTwoUp ts' a b).1 ∧ CEL (moveTwoUp ts a b).2 (moveTwoUp ts' a b).2 := by
  unfold moveTwoUp; rw [cel_searchTwoUp h a b]; split <;> first | exact ⟨rfl, cel_drop h _⟩ | exact ⟨rfl, h⟩
theorem cel_moveThreeUp (a b c : String) : (moveThreeUp ts a b c).1 = (moveThreeUp ts' a b c).1 ∧ CEL (moveThreeUp ts a b c).2 (moveThreeUp ts' a b c).2 := by
  unfold moveThreeUp; rw [cel_searchThreeUp h a b c]; split <;> first | exact ⟨rfl, cel_drop h _⟩ | exact ⟨rfl, h⟩
/-- `for m in Enum: if search_and_move(*m.value)`: the same member, related rests -/
theorem cel_firstEnum (tbl : List (String × List String)) :
    (firstEnum tbl ts = none ∧ firstEnum tbl ts' = none) ∨
    (∃ n r r', firstEnum tbl ts = some (n, r) ∧ firstEnum tbl ts' = some (n, r') ∧ CEL r r') := by
  induction tbl with
  | nil => simp [firstEnum]
  | cons e tbl ih =>
    obtain ⟨n, ks⟩ := e
    simp only [firstEnum, cel_searchSeq h ks]
    split
    · exact .inr ⟨n, _, _, rfl, rfl, cel_drop h _⟩
    · exact ih
theorem cel_substringRewrite (u : String) : CEL (substringRewrite u ts) (substringRewrite u ts') := by
  unfold substringRewrite
  split
  · induction ts generalizing ts' with
    | nil => rw [cel_nil_left h]; simp
    | cons t ts ih =>
      cases ts' with
      | nil => simp at h
      | cons t' ts' =>
        simp at h
        simp only [List.map_cons, cel_cons_cons, ce_up_src h.1]
        refine ⟨?_, ih h.2⟩
        split
        · exact CE.refl _
        · exact h.1
  · exact h
end cur
grind_pattern cel_searchStrUp => CEL ts ts', searchStrUp ts k
grind_pattern cel_searchMark => CEL ts ts', searchMark ts m
grind_pattern cel_searchSetUp => CEL ts ts', searchSetUp ts ks
grind_pattern cel_searchSet_compare => CEL ts ts', searchSet ts Gen.compareSet
grind_pattern cel_searchTwoUp => CEL ts ts', searchTwoUp ts a b
grind_pattern cel_searchThreeUp => CEL ts ts', searchThreeUp ts a b c
grind_pattern cel_searchSeq => CEL ts ts', searchSeq ts ks
grind_pattern cel_startsSelect => CEL ts ts', startsSelect ts
grind_pattern cel_headIsOver => CEL ts ts', headIsOver ts
grind_pattern cel_setOpHead => CEL ts ts', setOpHead ts
grind_pattern cel_joinHead => CEL ts ts', joinHead ts
grind_pattern cel_onUsingHead => CEL ts ts', onUsingHead ts
grind_pattern cel_chainsOn => CEL ts ts', chainsOn ts
grind_pattern cel_skipNot => CEL ts ts', skipNot d ts
grind_pattern cel_moveStrUp => CEL ts ts', moveStrUp ts k
grind_pattern cel_moveSetUp => CEL ts ts', moveSetUp ts ks
grind_pattern cel_moveSeq => CEL ts ts', moveSeq ts ks
grind_pattern cel_moveTwoUp => CEL ts ts', moveTwoUp ts a b
grind_pattern cel_moveThreeUp => CEL ts ts', moveThreeUp ts a b c
grind_pattern cel_firstEnum => CEL ts ts', firstEnum tbl ts
grind_pattern cel_substringRewrite => CEL ts ts', substringRewrite u ts
theorem cel_searchStr_comma {ts ts' : List Tok} (h : CEL ts ts') : searchStr ts "," = searchStr ts' "," := by
  cases ts <;> cases ts' <;> simp_all [searchStr]; exact ce_srcEq h.1 _ (by decide)
grind_pattern cel_searchStr_comma => CEL ts ts', searchStr ts ","
theorem cel_moveStr_comma {ts ts' : List Tok} (h : CEL ts ts') : (moveStr ts ",").1 = (moveStr ts' ",").1 ∧ CEL (moveStr ts ",").2 (moveStr ts' ",").2 := by
  unfold moveStr; rw [cel_searchStr_comma h]; split <;> first | exact ⟨rfl, cel_drop h _⟩ | exact ⟨rfl, h⟩
grind_pattern cel_moveStr_comma => CEL ts ts', moveStr ts ","
theorem cel_searchStr_dot {ts ts' : List Tok} (h : CEL ts ts') : searchStr ts "." = searchStr ts' "." := by
  cases ts <;> cases ts' <;> simp_all [searchStr]; exact ce_srcEq h.1 _ (by decide)
grind_pattern cel_searchStr_dot => CEL ts ts', searchStr ts "."
theorem cel_moveStr_dot {ts ts' : List Tok} (h : CEL ts ts') : (moveStr ts ".").1 = (moveStr ts' ".").1 ∧ CEL (moveStr ts ".").2 (moveStr ts' ".").2 := by
  unfold moveStr; rw [cel_searchStr_dot h]; split <;> first | exact ⟨rfl, cel_drop h _⟩ | exact ⟨rfl, h⟩
grind_pattern cel_moveStr_dot => CEL ts ts', moveStr ts "."
theorem cel_searchStr_semi {ts ts' : List Tok} (h : CEL ts ts') : searchStr ts ";" = searchStr ts' ";" := by
  cases ts <;> cases ts' <;> simp_all [searchStr]; exact ce_srcEq h.1 _ (by decide)
grind_pattern cel_searchStr_semi => CEL ts ts', searchStr ts ";"
theorem cel_moveStr_semi {ts ts' : List Tok} (h : CEL ts ts') : (moveStr ts ";").1 = (moveStr ts' ";").1 ∧ CEL (moveStr ts ";").2 (moveStr ts' ";").2 := by
  unfold moveStr; rw [cel_searchStr_semi h]; split <;> first | exact ⟨rfl, cel_drop h _⟩ | exact ⟨rfl, h⟩
grind_pattern cel_moveStr_semi => CEL ts ts', moveStr ts ";"
theorem cel_searchStr_star {ts ts' : List Tok} (h : CEL ts ts') : searchStr ts "*" = searchStr ts' "*" := by
  cases ts <;> cases ts' <;> simp_all [searchStr]; exact ce_srcEq h.1 _ (by decide)
grind_pattern cel_searchStr_star => CEL ts ts', searchStr ts "*"
theorem cel_moveStr_star {ts ts' : List Tok} (h : CEL ts ts') : (moveStr ts "*").1 = (moveStr ts' "*").1 ∧ CEL (moveStr ts "*").2 (moveStr ts' "*").2 := by
  unfold moveStr; rw [cel_searchStr_star h]; split <;> first | exact ⟨rfl, cel_drop h _⟩ | exact ⟨rfl, h⟩
grind_pattern cel_moveStr_star => CEL ts ts', moveStr ts "*"
theorem cel_searchStr_eq {ts ts' : List Tok} (h : CEL ts ts') : searchStr ts "=" = searchStr ts' "=" := by
  cases ts <;> cases ts' <;> simp_all [searchStr]; exact ce_srcEq h.1 _ (by decide)
grind_pattern cel_searchStr_eq => CEL ts ts', searchStr ts "="
theorem cel_moveStr_eq {ts ts' : List Tok} (h : CEL ts ts') : (moveStr ts "=").1 = (moveStr ts' "=").1 ∧ CEL (moveStr ts "=").2 (moveStr ts' "=").2 := by
  unfold moveStr; rw [cel_searchStr_eq h]; split <;> first | exact ⟨rfl, cel_drop h _⟩ | exact ⟨rfl, h⟩
grind_pattern cel_moveStr_eq => CEL ts ts', moveStr ts "="
theorem cel_searchStr_minus {ts ts' : List Tok} (h : CEL ts ts') : searchStr ts "-" = searchStr ts' "-" := by
  cases ts <;> cases ts' <;> simp_all [searchStr]; exact ce_srcEq h.1 _ (by decide)
grind_pattern cel_searchStr_minus => CEL ts ts', searchStr ts "-"
theorem cel_moveStr_minus {ts ts' : List Tok} (h : CEL ts ts') : (moveStr ts "-").1 = (moveStr ts' "-").1 ∧ CEL (moveStr ts "-").2 (moveStr ts' "-").2 := by
  unfold moveStr; rw [cel_searchStr_minus h]; split <;> first | exact ⟨rfl, cel_drop h _⟩ | exact ⟨rfl, h⟩
grind_pattern cel_moveStr_minus => CEL ts ts', moveStr ts "-"

/-- `pop_as_children_scanner_list_split_by(",")` -/
theorem cel_splitBy (sep : String) : ∀ (ts ts' cur cur' : List Tok) (acc acc' : List (List Tok)), CEL ts ts' → CEL cur cur' → CELL acc acc' →
    CELL (splitBy sep ts cur acc) (splitBy sep ts' cur' acc') := by
  intro ts
  induction ts with
  | nil =>
    intro ts' cur cur' acc acc' h hc ha
    rw [cel_nil_left h]
    simp only [splitBy, cel_isEmpty hc]
    split
    · exact ha
    · exact cell_append ha (by simp [hc])
  | cons t r ih =>
    intro ts' cur cur' acc acc' h hc ha
    cases ts' with
    | nil => simp at h
    | cons t' r' =>
      simp at h
      simp only [splitBy, ce_equalsStr h.1, cel_isEmpty hc]
      split
      · split
        · exact ih _ _ _ _ _ h.2 (by simp) ha
        · exact ih _ _ _ _ _ h.2 (by simp) (cell_append ha (by simp [hc]))
      · exact ih _ _ _ _ _ h.2 (cel_append hc (by simp [h.1])) ha
theorem cel_splitBy0 (sep : String) {ts ts' : List Tok} (h : CEL ts ts') : CELL (splitBy sep ts [] []) (splitBy sep ts' [] []) :=
  cel_splitBy sep ts ts' [] [] [] [] h (by simp) (by simp)
grind_pattern cel_splitBy0 => CEL ts ts', splitBy sep ts [] []

/-- `_parse_function_expression`, the pure part: aggregate?, DISTINCT seen?, argument tokens -/
theorem cel_callPrep {name name' : String} {g g' : Tok} (hn : up name = up name') (h : CE g g') :
    (callPrep name g).1 = (callPrep name' g').1 ∧ (callPrep name g).2.1 = (callPrep name' g').2.1 ∧ CEL (callPrep name g).2.2 (callPrep name' g').2.2 := by
  have hs := cel_substringRewrite (ce_children h) (up name)
  have hm := cel_moveStrUp hs "DISTINCT"
  unfold callPrep
  simp only [← hn]
  split <;> simp_all
grind_pattern cel_callPrep => CE g g', callPrep name g, callPrep name' g'
theorem callNode_ce {schema schema' : Option String} {name name' : String} {a d : Bool} {ps ps' : List Expr}
    (hs : schema.map up = schema'.map up) (hn : up name = up name') (hp : ps.map upE = ps'.map upE) :
    upE (callNode schema name a d ps) = upE (callNode schema' name' a d ps') := by
  have : schema.isNone = schema'.isNone := by cases schema <;> cases schema' <;> simp_all
  unfold callNode
  rw [this]
  split <;> simp [upE, upEs_eq, hs, hn, hp]
grind_pattern callNode_ce => callNode schema name a d ps, callNode schema' name' a d ps'

/-- the operator stack of the compute loop -/
theorem reduceWhile_ce (lvl : Nat) : ∀ (st st' : List (Expr × String × Nat)) (top top' : Expr), upSt st = upSt st' → upE top = upE top' →
    upSt (reduceWhile lvl st top).1 = upSt (reduceWhile lvl st' top').1 ∧ upE (reduceWhile lvl st top).2 = upE (reduceWhile lvl st' top').2 := by
  intro st
  induction st with
  | nil => intro st' top top' hs ht; cases st' <;> simp_all [upSt, reduceWhile]
  | cons p st ih =>
    intro st' top top' hs ht
    cases st' with
    | nil => simp [upSt] at hs
    | cons p' st' =>
      obtain ⟨l, o, k⟩ := p; obtain ⟨l', o', k'⟩ := p'
      simp [upSt] at hs
      obtain ⟨⟨h1, h2, rfl⟩, h3⟩ := hs
      simp only [reduceWhile]
      split
      · exact ih st' _ _ (by simpa [upSt] using h3) (by simp [upE, h1, h2, ht])
      · simp [upSt, h1, h2, h3, ht]
grind_pattern reduceWhile_ce => reduceWhile lvl st top, reduceWhile lvl st' top'
theorem collapse_ce : ∀ (st st' : List (Expr × String × Nat)) (top top' : Expr), upSt st = upSt st' → upE top = upE top' →
    upE (collapse st top) = upE (collapse st' top') := by
  intro st
  induction st with
  | nil => intro st' top top' hs ht; cases st' <;> simp_all [upSt, collapse]
  | cons p st ih =>
    intro st' top top' hs ht
    cases st' with
    | nil => simp [upSt] at hs
    | cons p' st' =>
      obtain ⟨l, o, k⟩ := p; obtain ⟨l', o', k'⟩ := p'
      simp [upSt] at hs
      obtain ⟨⟨h1, h2, rfl⟩, h3⟩ := hs
      simp only [collapse]
      exact ih st' _ _ (by simpa [upSt] using h3) (by simp [upE, h1, h2, ht])
grind_pattern collapse_ce => collapse st top, collapse st' top'
@[grind =] theorem upSt_cons (l : Expr) (o : String) (k : Nat) (st : List (Expr × String × Nat)) :
    upSt ((l, o, k) :: st) = (upE l, up o, k) :: upSt st := by simp [upSt]
@[grind =] theorem upSt_nil : upSt [] = [] := rfl
theorem setWiths_ce {s s' : Select} (h : upS s = upS s') : upS (setWiths s) = upS (setWiths s') := by
  cases s; cases s'
  simp only [upS_mk, Select.mk.injEq] at h
  simp only [setWiths, upS_mk, Select.mk.injEq]
  simp_all
grind_pattern setWiths_ce => setWiths s, setWiths s'

end PM
