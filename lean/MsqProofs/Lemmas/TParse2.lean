import MsqProofs.Lemmas.TParse2Compute
/-!
# T-parse, larger fragment: node lemmas and the induction (C02 / C01)

`RT2 d ch e` — as `TP.RT`, for `toksE2` and the towers with the stronger continuation condition, plus: the first token is not `WHEN` /
`DISTINCT` (`hdTok`), and no TOP-LEVEL token of the rendering is a comma (`nocomma`: what the comma splitter of `IN (…)` needs).
The node lemmas of the old productions are those of MsqProofs/Lemmas/TParse.lean re-derived by substitution (`toksE2`, `Full2`, `Cont2`);
new: qualified columns and wildcards (`full2_qcol`, `full2_star`, `full2_qstar`), function and aggregate calls (`full2_call`, argument
lists `args_ok`), `CASE` (`full2_case`), `IN (…)` (`cont9_in`, the splitter `split_ok`).
-/
set_option linter.unusedVariables false
set_option linter.unusedSimpArgs false
set_option maxHeartbeats 1000000
open Lex PM Ast TP
namespace TP2
variable (d : Gen.D) (ch : Expr → Bool)

/-- the first token of a rendering -/
def Head2 (e : Expr) (ts : List Tok) : Prop :=
  ∃ t ts', ts = t :: ts' ∧ hdTok t = true ∧ (PR.lvl e ≤ 10 → operandTok d t = true)
def NoComma (ts : List Tok) : Prop := ∀ t ∈ ts, t.equalsStr "," = false

structure RT2 (e : Expr) : Prop where
  own : Tower2 d (PR.lvl e) (toksE2 d ch e) e
  wrapped : Tower2 d 2 [grp (toksE2 d ch e)] e
  head : Head2 d e (toksE2 d ch e)
  nocomma : NoComma (toksE2 d ch e)
  len : (toksE2 d ch e).length ≤ tl e

variable {d} {ch}
theorem stop2_of {L : Nat} {t : Tok} (x : List Tok) (h : stopTok d L t = true) (ho : t.srcEqUp "OVER" = false) :
    stopLE2 d L (t :: x) = true := by
  simp only [stopLE2, stopLE, h, headIsOver, ho]; rfl
theorem stop2_AND (x : List Tok) : stopLE2 d 11 (opTok "AND" :: x) = true := stop2_of x TP.stop_AND (by decide)
theorem stop2_XOR (x : List Tok) : stopLE2 d 12 (opTok "XOR" :: x) = true := stop2_of x TP.stop_XOR (by decide)
theorem stop2_OR (x : List Tok) : stopLE2 d 13 (opTok "OR" :: x) = true := stop2_of x TP.stop_OR (by decide)
theorem grp_hdTok (cs : List Tok) : hdTok (grp cs) = true := by
  have h2 : (up (grp cs).src).toList.head? = some '(' := by simp [toList_up_grp]
  have a : ["WHEN", "DISTINCT"].contains (up (grp cs).src) = false := not_contains_of_head h2 (by decide)
  simp only [hdTok, grp_startTok, a]; rfl
theorem hd_start {t : Tok} (h : hdTok t = true) : startTok t = true := by
  simp only [hdTok, Bool.and_eq_true] at h; exact h.1
theorem grp_nocomma (cs : List Tok) : NoComma [grp cs] := by
  intro t ht; simp only [List.mem_singleton] at ht; subst ht; rfl
theorem NoComma.append {a b : List Tok} (ha : NoComma a) (hb : NoComma b) : NoComma (a ++ b) := by
  intro t ht; rcases List.mem_append.1 ht with h | h; exact ha t h; exact hb t h
theorem NoComma.cons {t : Tok} {b : List Tok} (ht : t.equalsStr "," = false) (hb : NoComma b) : NoComma (t :: b) := by
  intro x hx; rcases List.mem_cons.1 hx with h | h; subst h; exact ht; exact hb x h
theorem NoComma.nil : NoComma [] := fun t ht => by simp at ht

theorem Tower2.any_of2 {ts x} (T : Tower2 d 2 ts x) (L0 : Nat) : Tower2 d L0 ts x :=
  ⟨fun _ => T.s2 (by omega), fun _ => T.s8 (by omega), fun _ => T.c9 (by omega), fun _ => T.s9 (by omega),
   fun _ => T.c10 (by omega), fun _ => T.s10 (by omega), fun _ => T.s11 (by omega), fun _ => T.c12 (by omega), fun _ => T.s12 (by omega),
   fun _ => T.c13 (by omega), fun _ => T.s13 (by omega), T.c14, T.s14⟩

/-- the rendering of a child at a position with bound `L` has every level statement from `L` on -/
theorem RT2.at {e : Expr} (h : RT2 d ch e) (L : Nat) (hL : 2 ≤ L) : Tower2 d L (W2 d ch e L) e := by
  unfold W2 wrapT
  split
  · exact h.wrapped.weaken hL
  · rename_i hle
    have : ¬ PR.lvl e > L := fun h => hle (Or.inl h)
    exact h.own.weaken (by omega)

/-- first token of a child rendering: may start an operand if the child is below the `NOT` level or wrapped -/
theorem RT2.headW {e : Expr} (h : RT2 d ch e) (L : Nat) :
    ∃ t ts', W2 d ch e L = t :: ts' ∧ hdTok t = true ∧ ((PR.lvl e ≤ 10 ∨ L < PR.lvl e) → operandTok d t = true) := by
  unfold W2 wrapT
  split
  · refine ⟨grp _, [], rfl, grp_hdTok _, fun _ => ?_⟩
    obtain ⟨t, ts', h1, h2⟩ := grp_headOK (d := d) (toksE2 d ch e)
    simp only [List.cons.injEq] at h1
    rw [h1.1]; exact h2
  · rename_i hle
    have : ¬ PR.lvl e > L := fun h => hle (Or.inl h)
    obtain ⟨t, ts', h1, h2, h3⟩ := h.head
    exact ⟨t, ts', h1, h2, fun hh => h3 (by omega)⟩
theorem RT2.headOKW {e : Expr} (h : RT2 d ch e) (L : Nat) (hl : PR.lvl e ≤ 10 ∨ L < PR.lvl e) : HeadOK d (W2 d ch e L) := by
  obtain ⟨t, ts', h1, _, h3⟩ := h.headW L
  exact ⟨t, ts', h1, h3 hl⟩

theorem cmp_notOver {o : String} (h : compareOp? (opTok (cmpVal o)).src = some o) : (opTok (cmpVal o)).srcEqUp "OVER" = false := by
  have hall : Gen.compareHash.all (fun e => up e.1 != "OVER") = true := by decide
  unfold compareOp? at h
  simp only [Option.map_eq_some_iff] at h
  obtain ⟨p, hf, _⟩ := h
  have hm := List.mem_of_find?_eq_some hf
  have hk : p.1 = (opTok (cmpVal o)).src := by simpa using List.find?_some hf
  have := List.all_eq_true.1 hall p hm
  simp only [Tok.srcEqUp, ← hk]
  simpa using this
theorem stop2_kw (x : List Tok) : stopLE2 d 8 (opTok "IS" :: x) = true ∧ stopLE2 d 8 (opTok "NOT" :: x) = true ∧ stopLE2 d 8 (opTok "LIKE" :: x) = true ∧
    stopLE2 d 8 (opTok "RLIKE" :: x) = true ∧ stopLE2 d 8 (opTok "REGEXP" :: x) = true ∧ stopLE2 d 8 (opTok "BETWEEN" :: x) = true ∧
    stopLE2 d 8 (opTok "AND" :: x) = true ∧ stopLE2 d 8 (opTok "IN" :: x) = true := by
  obtain ⟨a, b, c, e, f, g, h⟩ := @TP.stop8_kw d
  have i : stopTok d 8 (opTok "IN") = true := by cases d <;> decide
  exact ⟨stop2_of x a (by decide), stop2_of x b (by decide), stop2_of x c (by decide), stop2_of x e (by decide), stop2_of x f (by decide),
    stop2_of x g (by decide), stop2_of x h (by decide), stop2_of x i (by decide)⟩

/-! ### atoms -/
/-! ### a bracket group: `pElement` runs `pOr` on the children and wants them consumed -/
theorem full2_group (e : Expr) (h14 : Full2 d (P14 d) 14 15 (toksE2 d ch e) e) (hd : Head2 d e (toksE2 d ch e)) :
    Full2 d (P2 d) 2 0 [grp (toksE2 d ch e)] e := by
  intro rest hr f hf
  simp only [sizeL, size_grp] at hf
  obtain ⟨g, rfl⟩ : ∃ g, f = g + 3 := ⟨f - 3, by omega⟩
  have he := grp_elemTok d (toksE2 d ch e)
  simp only [elemTok, Bool.and_eq_true, Bool.not_eq_true'] at he
  have hor : pOr d g (toksE2 d ch e) = .ok (e, []) := by
    have := h14 [] (stopLE2_nil d 14) g (by omega)
    simpa using this
  have hss : startsSelect (toksE2 d ch e) = false := by
    obtain ⟨t, ts', h1, h2, _⟩ := hd
    rw [h1]
    have h2 := hd_start h2
    simp only [startTok, Bool.not_eq_true'] at h2
    simpa [startsSelect, searchSetUp] using h2
  show pUnary d (g + 3) (grp (toksE2 d ch e) :: rest) = _
  unfold pUnary
  simp only [List.cons_append, List.nil_append, he.2, Bool.false_eq_true, if_false]
  unfold pElement
  simp only [grp_literal, grp_paren, Bool.false_eq_true, if_false, if_true]
  unfold pParen
  simp [children_grp, hss, hor]

/-! ### unary -/
theorem full2_unary (o : String) (x : Expr) (ho : unOK d o = true) (hx : Full2 d (P2 d) 2 0 (W2 d ch x 2) x) :
    Full2 d (P2 d) 2 0 (opTok (cval o) :: W2 d ch x 2) (.unary o x) := by
  intro rest hr f hf
  simp only [sizeL_cons, size_opTok] at hf
  obtain ⟨g, rfl⟩ : ∃ g, f = g + 1 := ⟨f - 1, by omega⟩
  simp only [unOK, Bool.and_eq_true] at ho
  obtain ⟨⟨⟨hu, hcomp⟩, _⟩, _⟩ := ho
  have h1 : pUnary d g (W2 d ch x 2 ++ rest) = .ok (x, rest) := hx rest hr g (by omega)
  show pUnary d (g + 1) (opTok (cval o) :: W2 d ch x 2 ++ rest) = _
  unfold pUnary
  simp only [List.cons_append, src_opTok, hu, if_true]
  split at hcomp
  · rename_i nm k hk
    simp only [beq_iff_eq] at hcomp
    subst hcomp
    simp [hk, h1]
  · simp at hcomp

/-! ### comparison, NOT, AND, XOR, OR -/
theorem cont10_compare (o : String) (l r : Expr) (ho : cmpOK d o = true)
    (hl : Cont2 d (P10 d) (fun f => pCompareLoop d f) 9 7 (W2 d ch l 10) l) (hr : Full2 d (P9 d) 9 6 (W2 d ch r 9) r) :
    Cont2 d (P10 d) (fun f => pCompareLoop d f) 9 7 (W2 d ch l 10 ++ opTok (cmpVal o) :: W2 d ch r 9) (.compare o l r) := by
  intro rest hrest n res hloop
  simp only [cmpOK, Bool.and_eq_true, beq_iff_eq] at ho
  obtain ⟨⟨hop, hstop0⟩, _⟩ := ho
  have hstop := stop2_of (W2 d ch r 9 ++ rest) hstop0 (cmp_notOver hop)
  have key : OkAt (fun f => pCompareLoop d f l (opTok (cmpVal o) :: (W2 d ch r 9 ++ rest))) (n + 20 * sizeL (W2 d ch r 9) + 7) res := by
    intro f hf
    obtain ⟨g, rfl⟩ : ∃ g, f = g + 1 := ⟨f - 1, by omega⟩
    have h1 : pKeyword d g none (W2 d ch r 9 ++ rest) = .ok (r, rest) := hr rest hrest g (by omega)
    show pCompareLoop d (g + 1) l _ = _
    unfold pCompareLoop
    simp only [hop, h1]
    exact hloop g (by omega)
  have := hl (opTok (cmpVal o) :: (W2 d ch r 9 ++ rest)) hstop _ res key
  simp only [List.append_assoc, List.cons_append]
  refine this.mono ?_
  simp only [sizeL_append, sizeL_cons, size_opTok]; omega

theorem full11_not (x : Expr) (hx : Full2 d (P11 d) 11 9 (W2 d ch x 11) x) :
    Full2 d (P11 d) 11 9 (opTok "NOT" :: W2 d ch x 11) (.not_ x) := by
  intro rest hr f hf
  simp only [sizeL_cons, size_opTok] at hf
  obtain ⟨g, rfl⟩ : ∃ g, f = g + 1 := ⟨f - 1, by omega⟩
  have h1 : pNot d g (W2 d ch x 11 ++ rest) = .ok (x, rest) := hx rest hr g (by omega)
  show pNot d (g + 1) (opTok "NOT" :: W2 d ch x 11 ++ rest) = _
  unfold pNot
  simp only [List.cons_append, notSet_NOT, if_true, h1]

theorem cont12_and (l r : Expr) (hl : Cont2 d (P12 d) (fun f => pAndLoop d f) 11 10 (W2 d ch l 12) l) (hr : Full2 d (P11 d) 11 9 (W2 d ch r 11) r) :
    Cont2 d (P12 d) (fun f => pAndLoop d f) 11 10 (W2 d ch l 12 ++ opTok "AND" :: W2 d ch r 11) (.and_ l r) := by
  intro rest hrest n res hloop
  have key : OkAt (fun f => pAndLoop d f l (opTok "AND" :: (W2 d ch r 11 ++ rest))) (n + 20 * sizeL (W2 d ch r 11) + 10) res := by
    intro f hf
    obtain ⟨g, rfl⟩ : ∃ g, f = g + 1 := ⟨f - 1, by omega⟩
    have h1 : pNot d g (W2 d ch r 11 ++ rest) = .ok (r, rest) := hr rest hrest g (by omega)
    have hand : (up (opTok "AND").src == "AND" || up (opTok "AND").src == "&&") = true := by decide
    show pAndLoop d (g + 1) l _ = _
    unfold pAndLoop
    simp only [hand, if_true, h1]
    exact hloop g (by omega)
  have := hl (opTok "AND" :: (W2 d ch r 11 ++ rest)) (stop2_AND _) _ res key
  simp only [List.append_assoc, List.cons_append]
  refine this.mono ?_
  simp only [sizeL_append, sizeL_cons, size_opTok]; omega

theorem cont13_xor (l r : Expr) (hl : Cont2 d (P13 d) (fun f => pXorLoop d f) 12 12 (W2 d ch l 13) l) (hr : Full2 d (P12 d) 12 11 (W2 d ch r 12) r) :
    Cont2 d (P13 d) (fun f => pXorLoop d f) 12 12 (W2 d ch l 13 ++ opTok "XOR" :: W2 d ch r 12) (.xor l r) := by
  intro rest hrest n res hloop
  have key : OkAt (fun f => pXorLoop d f l (opTok "XOR" :: (W2 d ch r 12 ++ rest))) (n + 20 * sizeL (W2 d ch r 12) + 12) res := by
    intro f hf
    obtain ⟨g, rfl⟩ : ∃ g, f = g + 1 := ⟨f - 1, by omega⟩
    have h1 : pAnd d g (W2 d ch r 12 ++ rest) = .ok (r, rest) := hr rest hrest g (by omega)
    have hx : searchStrUp (opTok "XOR" :: (W2 d ch r 12 ++ rest)) "XOR" = true := by
      have : (opTok "XOR").srcEqUp "XOR" = true := by decide
      simpa [searchStrUp] using this
    show pXorLoop d (g + 1) l _ = _
    unfold pXorLoop
    simp only [hx, if_true, List.drop_succ_cons, List.drop_zero, h1]
    exact hloop g (by omega)
  have := hl (opTok "XOR" :: (W2 d ch r 12 ++ rest)) (stop2_XOR _) _ res key
  simp only [List.append_assoc, List.cons_append]
  refine this.mono ?_
  simp only [sizeL_append, sizeL_cons, size_opTok]; omega

theorem cont14_or (l r : Expr) (hl : Cont2 d (P14 d) (fun f => pOrLoop d f) 13 14 (W2 d ch l 14) l) (hr : Full2 d (P13 d) 13 13 (W2 d ch r 13) r) :
    Cont2 d (P14 d) (fun f => pOrLoop d f) 13 14 (W2 d ch l 14 ++ opTok "OR" :: W2 d ch r 13) (.or_ l r) := by
  intro rest hrest n res hloop
  have key : OkAt (fun f => pOrLoop d f l (opTok "OR" :: (W2 d ch r 13 ++ rest))) (n + 20 * sizeL (W2 d ch r 13) + 14) res := by
    intro f hf
    obtain ⟨g, rfl⟩ : ∃ g, f = g + 1 := ⟨f - 1, by omega⟩
    have h1 : pXor d g (W2 d ch r 13 ++ rest) = .ok (r, rest) := hr rest hrest g (by omega)
    have hor : (up (opTok "OR").src == "OR" || up (opTok "OR").src == "||") = true := by decide
    show pOrLoop d (g + 1) l _ = _
    unfold pOrLoop
    simp only [hor, if_true, h1]
    exact hloop g (by omega)
  have := hl (opTok "OR" :: (W2 d ch r 13 ++ rest)) (stop2_OR _) _ res key
  simp only [List.append_assoc, List.cons_append]
  refine this.mono ?_
  simp only [sizeL_append, sizeL_cons, size_opTok]; omega


/-! ### keyword predicates: the chain in continuation form -/
/-- `LIKE` / `RLIKE` / `REGEXP` with the (already skipped) `NOT` flag -/
theorem kwRest_like (k : KwKind) (s : String) (hk : (k = .like ∧ s = "LIKE") ∨ (k = .rlike ∧ s = "RLIKE") ∨ (k = .regexp ∧ s = "REGEXP"))
    (isNot : Bool) (l r : Expr) (rest : List Tok) (h8 : stopLE2 d 8 rest = true) (hr : Full2 d (P8 d) 8 2 (W2 d ch r 8) r)
    (n : Nat) (res) (hl : OkAt (fun f => kwLoop d f (.kw k isNot l r) rest) n res) :
    OkAt (fun f => pKwRest d f l isNot (opTok s :: (W2 d ch r 8 ++ rest))) (n + 20 * sizeL (W2 d ch r 8) + 6) res := by
  intro f hf
  obtain ⟨g, rfl⟩ : ∃ g, f = g + 3 := ⟨f - 3, by omega⟩
  have h1 : pCompute d (g + 1) (W2 d ch r 8 ++ rest) = .ok (r, rest) := hr rest h8 (g + 1) (by omega)
  have ht := kw_tail (.kw k isNot l r) rest (sl h8) n res hl (g + 2) (by omega)
  unfold pKwRest
  simp only []
  unfold pKwBody
  rcases hk with ⟨rfl, rfl⟩ | ⟨rfl, rfl⟩ | ⟨rfl, rfl⟩
  · have hu : up (opTok "LIKE").src = "LIKE" := by decide
    simp only [hu, h1]
    simpa using ht
  · have hu : up (opTok "RLIKE").src = "RLIKE" := by decide
    simp only [hu, h1]
    simpa using ht
  · have hu : up (opTok "REGEXP").src = "REGEXP" := by decide
    simp only [hu, h1]
    simpa using ht

/-- `IS [NOT]` -/
theorem kwRest_is (n0 : Bool) (l r : Expr) (rest : List Tok) (h8 : stopLE2 d 8 rest = true) (hr : Full2 d (P8 d) 8 2 (W2 d ch r 8) r)
    (hh : HeadOK d (W2 d ch r 8)) (n : Nat) (res) (hl : OkAt (fun f => kwLoop d f (.kw .is n0 l r) rest) n res) :
    OkAt (fun f => pKwRest d f l false (opTok "IS" :: ((if n0 then [opTok "NOT"] else []) ++ (W2 d ch r 8 ++ rest)))) (n + 20 * sizeL (W2 d ch r 8) + 6) res := by
  intro f hf
  obtain ⟨g, rfl⟩ : ∃ g, f = g + 3 := ⟨f - 3, by omega⟩
  have h1 : pCompute d (g + 1) (W2 d ch r 8 ++ rest) = .ok (r, rest) := hr rest h8 (g + 1) (by omega)
  have ht := kw_tail (.kw .is n0 l r) rest (sl h8) n res hl (g + 2) (by omega)
  have hu : up (opTok "IS").src = "IS" := by decide
  have hm : moveStrUp ((if n0 then [opTok "NOT"] else []) ++ (W2 d ch r 8 ++ rest)) "NOT" = (n0, W2 d ch r 8 ++ rest) := by
    cases n0 with
    | true =>
      have : (opTok "NOT").srcEqUp "NOT" = true := by decide
      simp [moveStrUp, searchStrUp, this]
    | false =>
      obtain ⟨t, ts', h1, h2⟩ := hh
      simp only [operandTok, Bool.and_eq_true, Bool.not_eq_true'] at h2
      have hne : t.srcEqUp "NOT" = false := by
        cases hq : t.srcEqUp "NOT" with
        | false => rfl
        | true =>
          simp only [Tok.srcEqUp, beq_iff_eq] at hq
          have := h2.1.2
          rw [hq] at this
          have h3 : (Gen.notSet d).contains "NOT" = true := by cases d <;> decide
          rw [h3] at this; cases this
      simp [moveStrUp, searchStrUp, h1, hne]
  unfold pKwRest
  simp only []
  unfold pKwBody
  simp only [hu, Bool.false_eq_true, ↓reduceIte, hm, h1]
  simpa using ht

theorem cont9_kw (k : KwKind) (n0 : Bool) (l r : Expr) (hk : k ≠ .in_)
    (hl : Cont2 d (P9 d) (kwLoop d) 8 4 (W2 d ch l 9) l) (hr : Full2 d (P8 d) 8 2 (W2 d ch r 8) r) (hh : HeadOK d (W2 d ch r 8)) :
    Cont2 d (P9 d) (kwLoop d) 8 4 (W2 d ch l 9 ++ (kwToks k n0 ++ W2 d ch r 8)) (.kw k n0 l r) := by
  intro rest h8 n res hloop
  obtain ⟨sIS, sNOT, sLIKE, sRLIKE, sREGEXP, _, _⟩ := @stop8_kw d
  obtain ⟨nIS, nLIKE, nRLIKE, nREGEXP, _⟩ := @notSet_kw d
  have key : OkAt (fun f => kwLoop d f l (kwToks k n0 ++ (W2 d ch r 8 ++ rest))) (n + 20 * sizeL (W2 d ch r 8) + 6) res ∧
      stopLE2 d 8 (kwToks k n0 ++ (W2 d ch r 8 ++ rest)) = true ∧ 1 ≤ sizeL (kwToks k n0) := by
    cases k with
    | in_ => exact absurd rfl hk
    | is =>
      refine ⟨?_, ?_, ?_⟩
      · have := kwRest_is n0 l r rest h8 hr hh n res hloop
        unfold kwLoop
        cases n0 <;> simp only [kwToks, List.cons_append, List.nil_append, skipNot_of _ nIS, Bool.false_eq_true, if_false, if_true] <;>
          simpa using this
      · cases n0 <;> exact (stop2_kw _).1
      · cases n0 <;> simp [kwToks, sizeL, Tok.size, opTok]
    | like =>
      refine ⟨?_, ?_, ?_⟩
      · have := kwRest_like .like "LIKE" (Or.inl ⟨rfl, rfl⟩) n0 l r rest h8 hr n res hloop
        unfold kwLoop
        cases n0 <;> simp only [kwToks, List.cons_append, List.nil_append, skipNot_of _ nLIKE, skipNot_NOT, Bool.false_eq_true, if_false, if_true] <;>
          exact this
      · cases n0
        · exact (stop2_kw _).2.2.1
        · exact (stop2_kw _).2.1
      · cases n0 <;> simp [kwToks, sizeL, Tok.size, opTok]
    | rlike =>
      refine ⟨?_, ?_, ?_⟩
      · have := kwRest_like .rlike "RLIKE" (Or.inr (Or.inl ⟨rfl, rfl⟩)) n0 l r rest h8 hr n res hloop
        unfold kwLoop
        cases n0 <;> simp only [kwToks, List.cons_append, List.nil_append, skipNot_of _ nRLIKE, skipNot_NOT, Bool.false_eq_true, if_false, if_true] <;>
          exact this
      · cases n0
        · exact (stop2_kw _).2.2.2.1
        · exact (stop2_kw _).2.1
      · cases n0 <;> simp [kwToks, sizeL, Tok.size, opTok]
    | regexp =>
      refine ⟨?_, ?_, ?_⟩
      · have := kwRest_like .regexp "REGEXP" (Or.inr (Or.inr ⟨rfl, rfl⟩)) n0 l r rest h8 hr n res hloop
        unfold kwLoop
        cases n0 <;> simp only [kwToks, List.cons_append, List.nil_append, skipNot_of _ nREGEXP, skipNot_NOT, Bool.false_eq_true, if_false, if_true] <;>
          exact this
      · cases n0
        · exact (stop2_kw _).2.2.2.2.1
        · exact (stop2_kw _).2.1
      · cases n0 <;> simp [kwToks, sizeL, Tok.size, opTok]
  have := hl (kwToks k n0 ++ (W2 d ch r 8 ++ rest)) key.2.1 _ res key.1
  simp only [List.append_assoc]
  refine this.mono ?_
  have := key.2.2
  simp only [sizeL_append]; omega

theorem cont9_between (n0 : Bool) (b fr to : Expr)
    (hb : Cont2 d (P9 d) (kwLoop d) 8 4 (W2 d ch b 9) b) (hf : Full2 d (P8 d) 8 2 (W2 d ch fr 8) fr) (ht : Full2 d (P8 d) 8 2 (W2 d ch to 8) to) :
    Cont2 d (P9 d) (kwLoop d) 8 4
      (W2 d ch b 9 ++ ((if n0 then [opTok "NOT"] else []) ++ opTok "BETWEEN" :: (W2 d ch fr 8 ++ opTok "AND" :: W2 d ch to 8))) (.between n0 b fr to) := by
  intro rest h8 n res hloop
  obtain ⟨_, sNOT, _, _, _, sBETWEEN, sAND⟩ := @stop8_kw d
  obtain ⟨_, _, _, _, nBETWEEN⟩ := @notSet_kw d
  have body : OkAt (fun f => pKwRest d f b n0 (opTok "BETWEEN" :: (W2 d ch fr 8 ++ opTok "AND" :: (W2 d ch to 8 ++ rest))))
      (n + 20 * sizeL (W2 d ch fr 8) + 20 * sizeL (W2 d ch to 8) + 8) res := by
    intro f hf'
    obtain ⟨g, rfl⟩ : ∃ g, f = g + 4 := ⟨f - 4, by omega⟩
    have h1 : pCompute d (g + 1) (W2 d ch fr 8 ++ opTok "AND" :: (W2 d ch to 8 ++ rest)) = .ok (fr, opTok "AND" :: (W2 d ch to 8 ++ rest)) :=
      hf _ (stop2_kw _).2.2.2.2.2.2.1 (g + 1) (by omega)
    have h2 : pCompute d (g + 1) (W2 d ch to 8 ++ rest) = .ok (to, rest) := ht rest h8 (g + 1) (by omega)
    have htl := kw_tail (.between n0 b fr to) rest (sl h8) n res hloop (g + 3) (by omega)
    have hu : up (opTok "BETWEEN").src = "BETWEEN" := by decide
    have hm : (opTok "AND").equalsStr "AND" = true := by decide
    unfold pKwRest
    simp only []
    unfold pKwBody
    simp only [hu, beq_self_eq_true, if_true]
    unfold pBetween
    simp only [h1, matchKw, hm, if_true, h2]
    simpa using htl
  have key : OkAt (fun f => kwLoop d f b ((if n0 then [opTok "NOT"] else []) ++ opTok "BETWEEN" :: (W2 d ch fr 8 ++ opTok "AND" :: (W2 d ch to 8 ++ rest))))
      (n + 20 * sizeL (W2 d ch fr 8) + 20 * sizeL (W2 d ch to 8) + 8) res := by
    unfold kwLoop
    cases n0 <;> simp only [List.cons_append, List.nil_append, skipNot_of _ nBETWEEN, skipNot_NOT, Bool.false_eq_true, if_false, if_true] <;>
      exact body
  have hstop : stopLE2 d 8 ((if n0 then [opTok "NOT"] else []) ++ opTok "BETWEEN" :: (W2 d ch fr 8 ++ opTok "AND" :: (W2 d ch to 8 ++ rest))) = true := by
    cases n0
    · exact (stop2_kw _).2.2.2.2.2.1
    · exact (stop2_kw _).2.1
  have := hb _ hstop _ res key
  simp only [List.append_assoc, List.cons_append]
  refine this.mono ?_
  cases n0 <;> simp only [sizeL_append, sizeL_cons, size_opTok, sizeL, if_true, if_false, Bool.false_eq_true] <;> omega

/-! ### the induction -/
theorem Tower2.relevel {ts x} {L0 : Nat} (T : Tower2 d L0 ts x) (L1 : Nat)
    (h : (L1 ≤ 2 → L0 ≤ 2) ∧ (L1 ≤ 8 → L0 ≤ 8) ∧ (L1 ≤ 9 → L0 ≤ 9) ∧ (L1 ≤ 10 → L0 ≤ 10) ∧ (L1 ≤ 11 → L0 ≤ 11) ∧ (L1 ≤ 12 → L0 ≤ 12) ∧
      (L1 ≤ 13 → L0 ≤ 13)) : Tower2 d L1 ts x :=
  ⟨fun g => T.s2 (h.1 g), fun g => T.s8 (h.2.1 g), fun g => T.c9 (h.2.2.1 g), fun g => T.s9 (h.2.2.1 g),
   fun g => T.c10 (h.2.2.2.1 g), fun g => T.s10 (h.2.2.2.1 g), fun g => T.s11 (h.2.2.2.2.1 g), fun g => T.c12 (h.2.2.2.2.2.1 g),
   fun g => T.s12 (h.2.2.2.2.2.1 g), fun g => T.c13 (h.2.2.2.2.2.2 g), fun g => T.s13 (h.2.2.2.2.2.2 g), T.c14, T.s14⟩

theorem RT2.mk' {e : Expr} (own : Tower2 d (PR.lvl e) (toksE2 d ch e) e) (head : Head2 d e (toksE2 d ch e))
    (nc : NoComma (toksE2 d ch e)) (hl : (toksE2 d ch e).length ≤ tl e) : RT2 d ch e :=
  ⟨own, Tower2.of2 (full2_group e own.s14 head) (grp_headOK _), head, nc, hl⟩

/-- the head of a binary node's rendering is the head of its left child's rendering -/
theorem head_left {e l : Expr} (hl : RT2 d ch l) (L : Nat) (ys : List Tok) (hL : PR.lvl e ≤ 10 → L ≤ 10) :
    Head2 d e (W2 d ch l L ++ ys) := by
  obtain ⟨t, ts', h1, h2, h3⟩ := hl.headW L
  refine ⟨t, ts' ++ ys, by rw [h1]; rfl, h2, fun he => h3 ?_⟩
  have := hL he
  omega

end TP2
