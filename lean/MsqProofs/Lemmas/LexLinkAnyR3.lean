import MsqProofs.Lemmas.LexLinkAnyR2
/-!
# The lexer link for SET: configuration strings

`PR.prStmt` writes `SET name=value`, both strings verbatim.  The token-level printer `TR.toksCfg` splits a string at `.` and `-` when every
piece is a word (`hive.exec.dynamic-partition` : five tokens), and renders it as ONE token otherwise.  The lexer agrees in the first case
(`tk_plain` before `.`, `tk_plain_dash` before `-`, `tk_dot`, `tk_minus`), and in the second case exactly when the string IS one lexer token.
`cfgLex s` says which strings are covered at text level:

* every piece a plain word (`plainL`: a letter or `_`, then letters / digits / `_`), any number of `.` / `-` between them; or
* no separator-split and the string is a raw-source payload of the CREATE TABLE link (`LD.srcLex`: a digit string, a quoted string of the
  escape grammar, a back-quoted name, a plain word).

NOT covered at text level (token level: `C03.tset`): a decimal number (`0.5`: one float token for the lexer and for `toksCfg`, no lexer lemma
for floats here), and strings like `x-1.5`, which `toksCfg` renders as ONE token (the piece `1` is no word) but the lexer reads as `x`, `-`,
`1.5` — there the token rendering is not what the lexer makes of the printed text (the parser still rebuilds the same string from the
lexer's pieces; evaluated in Props/C03RL.lean).
-/
set_option linter.unusedVariables false
set_option linter.unusedSimpArgs false
namespace LL2.Any
open Lex Spec C05 C06 C09 Ast TP TS LexLink TQ2
open TQ (tblTok unionWords isExists)
open LD (tailL wordsP flagP bqL parenL PAll)

theorem bx_dash : tkIs ['b'] '-' (.single ['b'] Gen.mark_NAME) = true ∧ tkIs ['B'] '-' (.single ['B'] Gen.mark_NAME) = true ∧
    tkIs ['x'] '-' (.single ['x'] Gen.mark_NAME) = true ∧ tkIs ['X'] '-' (.single ['X'] Gen.mark_NAME) = true := by decide +kernel

/-- a plain name directly before `=` -/
theorem tk_plain_dash (a : List Char) (h : plainL a = true) : Tk a (.single a (wmL a)) '-' := by
  have hend : endsWord '-' = true := by decide +kernel
  cases a with
  | nil => cases h
  | cons c r =>
    simp only [plainL, Bool.and_eq_true, List.all_eq_true] at h
    have hhead : (c :: r).head?.any (fun c => c.isAlpha || c == '_') = true := by simpa using h.1
    have hwm := wordMark_alpha (c :: r) hhead
    by_cases hbx : c = 'b' ∨ c = 'B' ∨ c = 'x' ∨ c = 'X'
    · cases r with
      | nil =>
        rcases hbx with rfl | rfl | rfl | rfl
        · rw [wmL_bx.1]; exact tk_of_is bx_dash.1
        · rw [wmL_bx.2.1]; exact tk_of_is bx_dash.2.1
        · rw [wmL_bx.2.2.1]; exact tk_of_is bx_dash.2.2.1
        · rw [wmL_bx.2.2.2]; exact tk_of_is bx_dash.2.2.2
      | cons y r' =>
        rw [← hwm]
        refine tk_of_inword (c :: y :: r') (fun T n stk => ?_) '-' hend
        have hp : ∃ p, (p = S.AFTER_B ∨ p = S.AFTER_X) ∧ Gen.cfgS.lookup .WAIT (.ch c) = some (addTo p) := by
          rcases hbx with rfl | rfl | rfl | rfl
          · exact ⟨.AFTER_B, Or.inl rfl, look (by decide +kernel)⟩
          · exact ⟨.AFTER_B, Or.inl rfl, look (by decide +kernel)⟩
          · exact ⟨.AFTER_X, Or.inr rfl, look (by decide +kernel)⟩
          · exact ⟨.AFTER_X, Or.inr rfl, look (by decide +kernel)⟩
        obtain ⟨p, hpp, hl1⟩ := hp
        have hy := alnumU_code y (h.2 y (by simp))
        have hf := alnum_facts y.toNat hy.2 hy.1
        have hl2 : Gen.cfgS.lookup p (.ch y) = some (addTo .IN_WORD) := by
          rcases hpp with rfl | rfl
          · exact look hf.2.1
          · exact look hf.2.2
        have e1 := handle_addTo shipped_code (text := T) (m := ⟨n, n, .WAIT, stk⟩) hl1
        have e2 := handle_addTo shipped_code (text := T) (m := ⟨n, n + 1, p, stk⟩) hl2
        rw [feedAllWith_cons_adv e1, feedAllWith_cons_adv e2,
          feedAll_loop shipped_code (fun c => wordChar c = true) word_next r'
            (fun x hx => alnum_wordChar x (h.2 x (by simp [hx])))]
        simp only [List.length_cons]; congr 2; omega
    · have hsw : startsWord c = true := by
        have hc := alnumU_code c (plainL_head c h.1)
        have hwc := (alnum_facts c.toNat hc.2 hc.1).1
        have hnd : isDigit c.toNat = false := by
          have := LD.alpha_not_digit c h.1
          rwa [charIsDigit] at this
        have hnb : isBitPrefix c.toNat = false ∧ isHexPrefix c.toNat = false := by
          simp only [isBitPrefix, isHexPrefix, isCh_toNat, Bool.or_eq_false_iff, decide_eq_false_iff_not]
          exact ⟨⟨fun e => hbx (Or.inl e), fun e => hbx (Or.inr (Or.inl e))⟩,
            ⟨fun e => hbx (Or.inr (Or.inr (Or.inl e))), fun e => hbx (Or.inr (Or.inr (Or.inr e)))⟩⟩
        simp [startsWord, hwc, hnd, hnb.1, hnb.2]
      have hw : isWord (c :: r) = true := by
        simp only [isWord, Bool.and_eq_true, List.all_eq_true]
        exact ⟨hsw, fun x hx => alnum_wordChar x (h.2 x hx)⟩
      rw [← hwm]
      exact tk_of_inword (c :: r) (fun T n stk => word_run T (c :: r) hw n stk) '-' hend


/-! ## configuration strings -/

/-- the text of the pieces behind the first one -/
def tailTxt : List (Bool × String) → List Char
  | [] => []
  | (dot, p) :: r => (if dot then '.' else '-') :: (p.toList ++ tailTxt r)
/-- `TR.cfgTail` with the word tokens spelled out -/
def cfgTailW : List (Bool × String) → List Tok
  | [] => []
  | (dot, p) :: r => ctok [if dot then '.' else '-'] :: .single p.toList (wmL p.toList) :: cfgTailW r

/-- **what the text-level theorem needs of a configuration string** (see the header) -/
def cfgLex (s : String) : Prop :=
  (plainL (TR.cfgSplit s).1.toList = true ∧ ∀ x ∈ (TR.cfgSplit s).2, plainL x.2.toList = true) ∨
  ((TR.cfgSplit s).2 = [] ∧ LD.srcLex (TR.cfgSplit s).1 ∧ TR.isDecimal (TR.cfgSplit s).1 = false)

theorem isDecimal_plain (p : String) (h : plainL p.toList = true) : TR.isDecimal p = false := by
  cases hv : p.toList with
  | nil => rw [hv] at h; cases h
  | cons c r =>
    rw [hv] at h
    simp only [plainL, Bool.and_eq_true] at h
    have hnd := LD.alpha_not_digit c h.1
    simp only [TR.isDecimal, hv, List.span, List.span.loop, hnd]
    split
    · rename_i a b heq
      simp only [Prod.mk.injEq] at heq
      obtain ⟨rfl, _⟩ := heq
      rfl
    · rfl

theorem cfgTok_plain (p : String) (h : plainL p.toList = true) : TR.cfgTok p = .single p.toList (wmL p.toList) := by
  simp only [TR.cfgTok, isDecimal_plain p h, Bool.false_eq_true, if_false, LD.srcMark_plain p h]

theorem cfgTail_plain : ∀ (more : List (Bool × String)), (∀ x ∈ more, plainL x.2.toList = true) → TR.cfgTail more = cfgTailW more
  | [], _ => rfl
  | (dot, p) :: r, h => by
    have ih := cfgTail_plain r fun x hx => h x (by simp [hx])
    have e : opTok (if dot then "." else "-") = ctok [if dot then '.' else '-'] := by
      cases dot <;> simp [opTok_eq, ctok]
    simp only [TR.cfgTail, cfgTailW, ih, cfgTok_plain p (h (dot, p) (by simp)), e]

theorem cfgJoin_toList : ∀ (more : List (Bool × String)) (w : String), (TR.cfgJoin w more).toList = w.toList ++ tailTxt more
  | [], w => by simp [TR.cfgJoin, tailTxt]
  | (dot, p) :: r, w => by
    rw [TR.cfgJoin, cfgJoin_toList r]
    cases dot <;> simp [tailTxt, String.toList_append]

/-- the pieces, each a plain word, in front of a text `b` that a plain word may be followed by -/
theorem lx_cfgWords (b : List Char) (tb : List Tok) (H : ∀ p : List Char, plainL p = true → Lx (p ++ b) (.single p (wmL p) :: tb)) :
    ∀ (more : List (Bool × String)) (w : List Char), plainL w = true → (∀ x ∈ more, plainL x.2.toList = true) →
      Lx (w ++ (tailTxt more ++ b)) (.single w (wmL w) :: (cfgTailW more ++ tb))
  | [], w, hw, _ => by simpa [tailTxt, cfgTailW] using H w hw
  | (dot, p) :: r, w, hw, h => by
    have hp := h (dot, p) (by simp)
    have ih := lx_cfgWords b tb H r p.toList hp fun x hx => h x (by simp [hx])
    cases hv : p.toList with
    | nil => rw [hv] at hp; cases hp
    | cons c r' =>
      rw [hv] at ih hp
      simp only [plainL, Bool.and_eq_true] at hp
      have hc : c ≠ '-' := by
        intro e; subst e; exact absurd hp.1 (by decide)
      cases dot with
      | true =>
        have h1 := Lx.prefix ih rfl (tk_dot c)
        have h2 := Lx.prefix h1 rfl (tk_plain w hw '.' (Or.inr rfl))
        exact Lx.congr h2 (by simp [tailTxt, hv]) (by simp [cfgTailW, hv])
      | false =>
        have h1 := Lx.prefix ih rfl (tk_minus c hc)
        have h2 := Lx.prefix h1 rfl (tk_plain_dash w hw)
        exact Lx.congr h2 (by simp [tailTxt, hv]) (by simp [cfgTailW, hv])

/-- a configuration string in front of a text that a plain word and a raw-source token may be followed by -/
theorem lx_cfg (s : String) (hok : TR.cfgOK s = true) (hl : cfgLex s) (b : List Char) (tb : List Tok)
    (H : ∀ p : List Char, plainL p = true → Lx (p ++ b) (.single p (wmL p) :: tb))
    (Hs : ∀ x : String, LD.srcLex x → Lx (x.toList ++ b) (TD.srcTok x :: tb)) : Lx (s.toList ++ b) (TR.toksCfg s ++ tb) := by
  have hs : s.toList = (TR.cfgSplit s).1.toList ++ tailTxt (TR.cfgSplit s).2 := by
    have : TR.cfgJoin (TR.cfgSplit s).1 (TR.cfgSplit s).2 = s := by simpa [TR.cfgOK] using hok
    rw [← cfgJoin_toList, this]
  rcases hl with ⟨h1, h2⟩ | ⟨h1, h2, h3⟩
  · have := lx_cfgWords b tb H (TR.cfgSplit s).2 (TR.cfgSplit s).1.toList h1 h2
    rw [hs]
    exact Lx.congr this (by simp) (by simp [TR.toksCfg, cfgTok_plain _ h1, cfgTail_plain _ h2])
  · have := Hs (TR.cfgSplit s).1 h2
    rw [hs, h1]
    refine Lx.congr this (by simp [tailTxt]) ?_
    simp [TR.toksCfg, h1, TR.cfgTail, TR.cfgTok, h3, TD.srcTok]

theorem allP_plainL (p : String) (h : plainL p.toList = true) : allP p.toList = true := LD.allP_src p (Or.inr (Or.inr (Or.inr h)))

theorem allP_tailTxt : ∀ (more : List (Bool × String)), (∀ x ∈ more, plainL x.2.toList = true) → allP (tailTxt more) = true
  | [], _ => rfl
  | (dot, p) :: r, h => by
    have ih := allP_tailTxt r fun x hx => h x (by simp [hx])
    have hp := allP_plainL p (h (dot, p) (by simp))
    cases dot
    · exact LD.allP_cons (by decide) (LD.allP_app hp ih)
    · exact LD.allP_cons (by decide) (LD.allP_app hp ih)

theorem allP_cfg (s : String) (hok : TR.cfgOK s = true) (hl : cfgLex s) : allP s.toList = true := by
  have hs : s.toList = (TR.cfgSplit s).1.toList ++ tailTxt (TR.cfgSplit s).2 := by
    have : TR.cfgJoin (TR.cfgSplit s).1 (TR.cfgSplit s).2 = s := by simpa [TR.cfgOK] using hok
    rw [← cfgJoin_toList, this]
  rw [hs]
  rcases hl with ⟨h1, h2⟩ | ⟨h1, h2, _⟩
  · exact LD.allP_app (allP_plainL _ h1) (allP_tailTxt _ h2)
  · rw [h1]; simpa [tailTxt] using LD.allP_src _ h2

theorem cfg_ne_nil (s : String) (hok : TR.cfgOK s = true) (hl : cfgLex s) : s.toList ≠ [] := by
  have hs : s.toList = (TR.cfgSplit s).1.toList ++ tailTxt (TR.cfgSplit s).2 := by
    have : TR.cfgJoin (TR.cfgSplit s).1 (TR.cfgSplit s).2 = s := by simpa [TR.cfgOK] using hok
    rw [← cfgJoin_toList, this]
  rw [hs]
  rcases hl with ⟨h1, _⟩ | ⟨_, h2, _⟩
  · cases hv : (TR.cfgSplit s).1.toList with
    | nil => rw [hv] at h1; cases h1
    | cons c r => simp
  · have := LD.src_ne_nil _ h2
    cases hv : (TR.cfgSplit s).1.toList with
    | nil => exact absurd hv this
    | cons c r => simp

/-! ## the statement -/

def setStmtL (c : ConfigStr) : List Char := "SET".toList ++ ' ' :: (c.name.toList ++ '=' :: c.value.toList)

theorem set_good (d : Gen.D) (c : ConfigStr) (hk : TR.cfgOK c.name = true) (hv : TR.cfgOK c.value = true) (lk : cfgLex c.name) (lv : cfgLex c.value) :
    Pc (setStmtL c) (TR.toksSet c) ∧ PR.prStmt d (.set c) = .ok (String.ofList (setStmtL c)) := by
  have hV : Lx c.value.toList (TR.toksCfg c.value) := by
    have := lx_cfg c.value hv lv [] [] (fun p hp => by simpa using lx_plain p hp) (fun x hx => by simpa using LD.lx_src x hx)
    simpa using this
  have hE : Lx ('=' :: c.value.toList) (TD.eqTok :: TR.toksCfg c.value) :=
    LD.Lx.pre (u := ['=']) hV (cfg_ne_nil c.value hv lv) LD.tk_eq
  have hN := lx_cfg c.name hk lk ('=' :: c.value.toList) (TD.eqTok :: TR.toksCfg c.value)
    (fun p hp => Lx.prefix hE rfl (LD.tk_plain_eq p hp)) (fun x hx => Lx.prefix hE rfl (LD.tk_src_eq x hx))
  refine ⟨⟨?_, ?_⟩, ?_⟩
  · have := Lx.sep (pc_w "SET" (by simp [restWords])).lx hN
    delta setStmtL TR.toksSet
    exact Lx.congr this rfl (by simp)
  · delta setStmtL
    exact plainKit.sp (pc_w "SET" (by simp [restWords])).q (plainKit.sep _ _ '=' (show C05.plain '=' = true by decide) (allP_cfg c.name hk lk) (allP_cfg c.value hv lv))
  · simp only [PR.prStmt]
    refine congrArg Except.ok (ofList_eq ?_)
    have e1 : ("SET " : String).toList = "SET".toList ++ [' '] := by simp
    have e2 : ("=" : String).toList = ['='] := rfl
    delta setStmtL
    simp only [toString, String.toList_append, e1, e2]
    simp only [List.append_assoc, List.cons_append, List.nil_append]

end LL2.Any
