import MsqProofs.Lemmas.TDml1
/-!
# T-parse for data-change statements: INSERT (C03 / C01)

* `splitBy_joinC`: a bracket group holding comma-joined, comma-free, non-empty segments is split into exactly those segments
  (`pop_as_children_scanner_list_split_by(",")`); `eachClosed_map`: one parser per segment, each child cursor closed;
* `row_ok` / `valuesLoop_ok`: one VALUES row, the row loop (the comma after a row is optional for the parser);
* `partition_ok`: `PARTITION (k = v, …)` (static) and `PARTITION (k, …)` (dynamic);
* `columns_ok`: the explicit column list;
* `insertType_ok`: every kind of `_parse_insert_type`;
* `insert_values_ok`, `insert_query_ok`: `pInsert` (WITH slot already consumed) on the two renderings.
-/
set_option linter.unusedVariables false
set_option linter.unusedSimpArgs false
set_option maxHeartbeats 1000000
open Lex PM Ast TP TP2 TS TQ
namespace TDM
variable {d : Gen.D} {ch : Expr → Bool}

/-! ### bracket groups split at commas -/
theorem comma_equals : TS.commaTok.equalsStr "," = true := by decide
theorem splitBy_seg : ∀ (s r cur : List Tok) (acc : List (List Tok)), TQ.NoComma s → splitBy "," (s ++ r) cur acc = splitBy "," r (cur ++ s) acc := by
  intro s
  induction s with
  | nil => intro r cur acc _; simp
  | cons t s ih =>
    intro r cur acc hs
    have ht : t.equalsStr "," = false := hs t (by simp)
    have := ih r (cur ++ [t]) acc (fun u hu => hs u (by simp [hu]))
    simp only [List.cons_append, splitBy, ht, Bool.false_eq_true, if_false]
    simpa using this
theorem splitBy_joinC : ∀ (segs : List (List Tok)) (acc : List (List Tok)), (∀ s ∈ segs, s ≠ [] ∧ TQ.NoComma s) →
    splitBy "," (joinC segs) [] acc = acc ++ segs := by
  intro segs
  induction segs with
  | nil => intro acc _; simp [joinC, splitBy]
  | cons s rest ih =>
    intro acc h
    obtain ⟨hne, hnc⟩ := h s (by simp)
    have hemp : s.isEmpty = false := by cases s with | nil => exact absurd rfl hne | cons _ _ => rfl
    cases rest with
    | nil =>
      have := splitBy_seg s [] [] acc hnc
      simp only [List.append_nil, List.nil_append] at this
      simp [joinC, this, splitBy, hemp]
    | cons s2 r =>
      have h1 := splitBy_seg s (TS.commaTok :: joinC (s2 :: r)) [] acc hnc
      have h2 := ih (acc ++ [s]) (fun u hu => h u (by simp [hu]))
      simp only [joinC, h1, List.nil_append, splitBy, comma_equals, if_true, hemp, Bool.false_eq_true, if_false, h2]
      simp
theorem eachClosed_map {α β : Type} (p : List Tok → R α) (tk : β → List Tok) (vl : β → α) :
    ∀ xs : List β, (∀ x ∈ xs, p (tk x) = .ok (vl x, [])) → eachClosed p (xs.map tk) = .ok (xs.map vl) := by
  intro xs
  induction xs with
  | nil => intro _; rfl
  | cons x r ih =>
    intro h
    have h1 := h x (by simp)
    have h2 := ih (fun y hy => h y (by simp [hy]))
    simp only [List.map_cons, eachClosed, h1, closed, h2]
theorem sizeL_joinC_mem : ∀ (segs : List (List Tok)) (s : List Tok), s ∈ segs → sizeL s ≤ sizeL (joinC segs) := by
  intro segs
  induction segs with
  | nil => intro s h; simp at h
  | cons a rest ih =>
    intro s hs
    cases rest with
    | nil => simp at hs; subst hs; simp [joinC]
    | cons b r =>
      simp only [joinC, sizeL_append, sizeL_cons]
      rcases List.mem_cons.1 hs with rfl | hs
      · omega
      · have := ih s hs; omega

/-! ### VALUES -/
theorem W3_nocomma {e : Expr} (he : RT3 d ch e) (k : Nat) : TQ.NoComma (W3 d ch e k) := by
  unfold W3 wrapT
  split
  · intro t ht; simp at ht; subst ht; rfl
  · exact he.nocomma
theorem W3_ne {e : Expr} (he : RT3 d ch e) (k : Nat) : W3 d ch e k ≠ [] := by
  obtain ⟨t, ts', h, _⟩ := he.headW k
  rw [h]; simp
/-- one row: every value is read by the compute-level parser from its segment, and the segment is closed -/
theorem row_ok (vs : List Expr) (hvs : ∀ e ∈ vs, RT3 d ch e) (f : Nat) (hf : 20 * sizeL (joinC (vs.map (fun e => W3 d ch e 8))) + 2 ≤ f) :
    eachClosed (pCompute d f) (splitBy "," (toksRow d ch vs).children [] []) = .ok vs := by
  have hsp := splitBy_joinC (vs.map (fun e => W3 d ch e 8)) [] (by
    intro s hs
    obtain ⟨e, he, rfl⟩ := List.mem_map.1 hs
    exact ⟨W3_ne (hvs e he) 8, W3_nocomma (hvs e he) 8⟩)
  simp only [List.nil_append] at hsp
  have := eachClosed_map (pCompute d f) (fun e => W3 d ch e 8) (fun e => e) vs (by
    intro e he
    have hsz := sizeL_joinC_mem (vs.map (fun e => W3 d ch e 8)) (W3 d ch e 8) (List.mem_map.2 ⟨e, he, rfl⟩)
    have := key8 e (hvs e he) [] (TP2.stopLE2_nil d 8) f (by omega)
    simpa using this)
  simpa [toksRow, children_grp, hsp] using this
theorem grp_notComma (cs : List Tok) : (grp cs).srcEq "," = false := by
  simp only [Tok.srcEq, beq_eq_false_iff_ne, ne_eq]
  exact ne_of_head (c := '(') (by rw [toList_src_grp]; rfl) (by decide)
theorem moveStr_rowsTail (rs : List (List Expr)) (rest : List Tok) (hc : searchStr rest "," = false) :
    (moveStr (toksRowsTail d ch rs ++ rest) ",").2 = toksRows d ch rs ++ rest := by
  cases rs with
  | nil => simp [toksRowsTail, toksRows, moveStr, hc]
  | cons r rs => simp [toksRowsTail, toksRows, moveStr, TS.comma_search]
theorem sizeL_rows_split (r : List Expr) (rs : List (List Expr)) :
    sizeL (toksRows d ch (r :: rs)) = 1 + sizeL (joinC (r.map (fun e => W3 d ch e 8))) + sizeL (toksRowsTail d ch rs) := by
  simp only [toksRows, sizeL_cons, toksRow, size_grp]
theorem sizeL_rows_le (rs : List (List Expr)) : sizeL (toksRows d ch rs) ≤ sizeL (toksRowsTail d ch rs) := by
  cases rs with
  | nil => simp [toksRows, toksRowsTail]
  | cons r rs => simp only [toksRows, toksRowsTail, sizeL_cons]; omega
/-- the row loop: `g` counts the iterations -/
theorem valuesLoop_ok (rest : List Tok) (hb : Bd3 d 7 rest = true) :
    ∀ (rows : List (List Expr)), (∀ r ∈ rows, ∀ e ∈ r, RT3 d ch e) → ∀ acc f g, 20 * sizeL (toksRows d ch rows) + 2 ≤ f → rows.length + 1 ≤ g →
    valuesLoop d f g acc (toksRows d ch rows ++ rest) = .ok (acc ++ rows, rest) := by
  intro rows
  induction rows with
  | nil =>
    intro _ acc f g _ hg
    obtain ⟨g', rfl⟩ : ∃ g', g = g' + 1 := ⟨g - 1, by simp at hg; omega⟩
    cases rest with
    | nil => simp [toksRows, valuesLoop]
    | cons t r =>
      have hp : t.has PAREN = false := (TS.bd_parts (b3 hb)).2.2.1
      simp [toksRows, valuesLoop, hp]
  | cons r rs ih =>
    intro hrows acc f g hf' hg
    rw [sizeL_rows_split] at hf'
    obtain ⟨g', rfl⟩ : ∃ g', g = g' + 1 := ⟨g - 1, by simp at hg; omega⟩
    have h1 := row_ok r (hrows r (by simp)) f (by omega)
    have h2 := ih (fun q hq => hrows q (by simp [hq])) (acc ++ [r]) f g'
      (by have := sizeL_rows_le (d := d) (ch := ch) rs; omega) (by simp at hg ⊢; omega)
    have hm := moveStr_rowsTail (d := d) (ch := ch) rs rest (TS.bd_comma (b3 hb))
    have hp : (toksRow d ch r).has PAREN = true := grp_paren _
    have e0 : toksRows d ch (r :: rs) ++ rest = toksRow d ch r :: (toksRowsTail d ch rs ++ rest) := rfl
    rw [e0]
    unfold valuesLoop
    simp only [hp, if_true, h1, hm]
    simpa using h2
theorem length_rows (rs : List (List Expr)) : rs.length ≤ (toksRows d ch rs).length := by
  have : ∀ rs : List (List Expr), rs.length ≤ (toksRowsTail d ch rs).length := by
    intro rs
    induction rs with
    | nil => simp [toksRowsTail]
    | cons r rs ih => simp only [toksRowsTail, List.length_cons]; omega
  cases rs with
  | nil => simp [toksRows]
  | cons r rs => have := this rs; simp only [toksRows, List.length_cons]; omega

/-! ### PARTITION -/
/-- the record of a partition list: all items static (`k = v`) or all dynamic (`k`) -/
def StaticRec (d : Gen.D) (ch : Expr → Bool) (e : Expr) : Prop :=
  ∃ o l r, e = .compare o l r ∧ cmpOK d o = true ∧ RT3 d ch l ∧ RT3 d ch r ∧ PR.lvl l ≤ 8 ∧ PR.lvl r ≠ 9 ∧
    Gen.compareSet.contains (opTok (cmpVal o)).src = true
def DynRec (d : Gen.D) (ch : Expr → Bool) (e : Expr) : Prop := RT3 d ch e ∧ PR.lvl e ≤ 8
theorem staticRec (hch : ChOK d ch) (e : Expr) (h : staticOK d e = true) : StaticRec d ch e := by
  cases e with
  | compare o l r =>
    simp only [staticOK, Bool.and_eq_true, decide_eq_true_eq] at h
    obtain ⟨⟨⟨⟨⟨h1, h2⟩, h3⟩, h4⟩, h5⟩, h6⟩ := h
    exact ⟨o, l, r, rfl, h1, rt3 hch l h2, rt3 hch r h3, h4, h5, h6⟩
  | _ => simp [staticOK] at h
theorem dynRec (hch : ChOK d ch) (e : Expr) (h : dynOK d e = true) : DynRec d ch e := by
  simp only [dynOK, Bool.and_eq_true, decide_eq_true_eq] at h
  exact ⟨rt3 hch e h.1, h.2⟩
theorem W3_level {e : Expr} {k k' : Nat} (h : PR.lvl e > k ↔ PR.lvl e > k') : W3 d ch e k = W3 d ch e k' := by
  unfold W3 wrapT
  simp only [h]
theorem static_toks {o : String} {l r : Expr} (hl : PR.lvl l ≤ 8) (hr : PR.lvl r ≠ 9) :
    toksE3 d ch (.compare o l r) = W3 d ch l 8 ++ opTok (cmpVal o) :: W3 d ch r 8 := by
  have h1 : W3 d ch l 10 = W3 d ch l 8 := W3_level (by omega)
  have h2 : W3 d ch r 9 = W3 d ch r 8 := W3_level (by omega)
  simp only [toksE3]
  simp only [W3] at h1 h2
  rw [h1, h2]; rfl
theorem static_item (e : Expr) (he : StaticRec d ch e) :
    OkAt (fun f => pPartitionItem d f (toksE3 d ch e)) (20 * sizeL (toksE3 d ch e) + 2) ((e, true), []) ∧
    toksE3 d ch e ≠ [] ∧ TQ.NoComma (toksE3 d ch e) := by
  obtain ⟨o, l, r, rfl, ho, hl, hr, hll, hlr, hset⟩ := he
  have e1 := static_toks (d := d) (ch := ch) (o := o) hll hlr
  have ho' := ho
  simp only [cmpOK, Bool.and_eq_true, beq_iff_eq] at ho'
  obtain ⟨⟨hop, hstop0⟩, _⟩ := ho'
  refine ⟨?_, ?_, ?_⟩
  · intro f hf'
    rw [e1] at hf' ⊢
    simp only [sizeL_append, sizeL_cons, size_opTok] at hf'
    have hstop : TP2.stopLE2 d 8 (opTok (cmpVal o) :: (W3 d ch r 8 ++ [])) = true :=
      TQ.stop2_of _ (TP.stopTok_mono hstop0 (by omega)) (TQ.cmp_notOver hop)
    have h1 := key8 l hl _ hstop f (by omega)
    have h2 := key8 r hr [] (TP2.stopLE2_nil d 8) f (by omega)
    simp only [List.append_nil] at h1 h2
    have hs : searchSet (opTok (cmpVal o) :: W3 d ch r 8) Gen.compareSet = true := by simpa [searchSet] using hset
    unfold pPartitionItem
    simp only [List.append_assoc, List.cons_append, h1, hs, if_true, popSrc, hop, h2]
  · rw [e1]
    obtain ⟨t, ts', h, _⟩ := hl.headW 8
    rw [h]; simp
  · rw [e1]
    intro t ht
    rcases List.mem_append.1 ht with ht | ht
    · exact W3_nocomma hl 8 t ht
    · rcases List.mem_cons.1 ht with rfl | ht
      · exact TQ.cmp_nocomma o ho
      · exact W3_nocomma hr 8 t ht
theorem dyn_item (e : Expr) (he : DynRec d ch e) :
    OkAt (fun f => pPartitionItem d f (toksE3 d ch e)) (20 * sizeL (toksE3 d ch e) + 2) ((e, false), []) ∧
    toksE3 d ch e ≠ [] ∧ TQ.NoComma (toksE3 d ch e) := by
  obtain ⟨he, hl⟩ := he
  refine ⟨?_, ?_, he.nocomma⟩
  · intro f hf'
    have h1 := he.own.s8 hl [] (TP2.stopLE2_nil d 8) f (by omega)
    simp only [List.append_nil] at h1
    unfold pPartitionItem
    simp only [h1, searchSet, Bool.false_eq_true, if_false]
  · obtain ⟨t, ts', h, _⟩ := he.head
    rw [h]; simp
def PartRec (d : Gen.D) (ch : Expr → Bool) : Option (List Expr) → Prop
  | none => True
  | some es => (∀ e ∈ es, StaticRec d ch e) ∨ (∀ e ∈ es, DynRec d ch e)
theorem partRec (hch : ChOK d ch) (p : Option (List Expr)) (h : partOK d p = true) : PartRec d ch p := by
  cases p with
  | none => trivial
  | some es =>
    simp only [partOK, Bool.or_eq_true, List.all_eq_true] at h
    rcases h with h | h
    · exact Or.inl fun e he => staticRec hch e (h e he)
    · exact Or.inr fun e he => dynRec hch e (h e he)
theorem kw_partition : (opTok "PARTITION").equalsStr "PARTITION" = true ∧ (opTok "PARTITION").srcEqUp "PARTITION" = true ∧
    (opTok "PARTITION").size = 1 := by decide
/-- the items of a partition list, whatever their kind: every segment is parsed with the same flag -/
theorem items_ok (es : List Expr) (flag : Bool)
    (h : ∀ e ∈ es, OkAt (fun f => pPartitionItem d f (toksE3 d ch e)) (20 * sizeL (toksE3 d ch e) + 2) ((e, flag), []) ∧
      toksE3 d ch e ≠ [] ∧ TQ.NoComma (toksE3 d ch e)) (x : List Tok) :
    OkAt (fun f => pPartition d f false (opTok "PARTITION" :: grp (joinC (es.map (toksE3 d ch))) :: x))
      (20 * sizeL (joinC (es.map (toksE3 d ch))) + 2) (es, x) := by
  obtain ⟨k1, _, _⟩ := kw_partition
  intro f hf'
  have hsp := splitBy_joinC (es.map (toksE3 d ch)) [] (by
    intro s hs
    obtain ⟨e, he, rfl⟩ := List.mem_map.1 hs
    exact (h e he).2)
  simp only [List.nil_append] at hsp
  have hec := eachClosed_map (pPartitionItem d f) (toksE3 d ch) (fun e => (e, flag)) es (by
    intro e he
    have hsz := sizeL_joinC_mem (es.map (toksE3 d ch)) (toksE3 d ch e) (List.mem_map.2 ⟨e, he, rfl⟩)
    exact (h e he).1 f (by omega))
  have hany : ((es.map (fun e => (e, flag))).any (·.2) && (es.map (fun e => (e, flag))).any (fun i => !i.2)) = false := by
    cases flag
    · have : (es.map (fun e => (e, false))).any (·.2) = false := by simp
      simp [this]
    · have : (es.map (fun e => (e, true))).any (fun i => !i.2) = false := by simp
      simp [this]
  have hm : ∀ l : List Expr, (l.map (fun e => (e, flag))).map (·.1) = l := by
    intro l; induction l with
    | nil => rfl
    | cons a r ih => simp only [List.map_cons, ih]
  have hm := hm es
  unfold pPartition
  simp only [Bool.false_eq_true, if_false, matchKw, k1, if_true, popSplit, children_grp, hsp, hec, hany, hm]
theorem sizeL_part (p : Option (List Expr)) : sizeL (toksPart d ch p) = match p with | none => 0 | some es => 2 + sizeL (joinC (es.map (toksE3 d ch))) := by
  cases p with
  | none => rfl
  | some es => simp only [toksPart, sizeL_cons, size_opTok, size_grp, sizeL]; omega
theorem grp_srcEqUp (cs : List Tok) (k : String) (hk : (k.toList.head? != some '(') = true) : (grp cs).srcEqUp k = false := by
  simp only [Tok.srcEqUp, beq_eq_false_iff_ne, ne_eq]
  exact ne_of_head (c := '(') (by rw [toList_up_grp]; rfl) hk
/-- `PARTITION (…)` if present; `x` (the column list, VALUES or SELECT) does not start with the word PARTITION -/
theorem optPartition_ok (p : Option (List Expr)) (hp : PartRec d ch p) (x : List Tok) (hx : searchStrUp x "PARTITION" = false) :
    OkAt (fun f => pOptPartition d f (toksPart d ch p ++ x)) (20 * sizeL (toksPart d ch p) + 2) (p, x) := by
  obtain ⟨_, k2, _⟩ := kw_partition
  intro f hf'
  rw [sizeL_part] at hf'
  cases p with
  | none => simp [toksPart, pOptPartition, hx]
  | some es =>
    simp only at hf'
    have hs : searchStrUp (opTok "PARTITION" :: grp (joinC (es.map (toksE3 d ch))) :: x) "PARTITION" = true := by simpa [searchStrUp] using k2
    have h1 : pPartition d f false (opTok "PARTITION" :: grp (joinC (es.map (toksE3 d ch))) :: x) = .ok (es, x) := by
      rcases hp with hp | hp
      · exact items_ok es true (fun e he => static_item e (hp e he)) x f (by omega)
      · exact items_ok es false (fun e he => dyn_item e (hp e he)) x f (by omega)
    unfold pOptPartition
    simp only [toksPart, List.cons_append, List.nil_append, hs, if_true, h1]

/-! ### the explicit column list -/
theorem dot_facts : dotTok.equalsStr "," = false ∧ dotTok.srcEq "." = true := by decide
theorem colName_item (c : Option String × String) (hc : colNameOK c = true) :
    pColumnName (toksColName c) = .ok (c, []) ∧ toksColName c ≠ [] ∧ TQ.NoComma (toksColName c) := by
  obtain ⟨t, n⟩ := c
  simp only [colNameOK, Bool.and_eq_true] at hc
  obtain ⟨⟨h1, h2⟩, _⟩ := hc
  simp only [nm2OK, Bool.and_eq_true, beq_iff_eq, Bool.not_eq_true'] at h1
  obtain ⟨⟨n1, n2⟩, n3⟩ := h1
  cases t with
  | none =>
    refine ⟨?_, by simp [toksColName], ?_⟩
    · simp [toksColName, pColumnName, n1, n2, searchStr]
    · intro t ht; simp [toksColName] at ht; subst ht; exact n3
  | some t =>
    simp only [nm2OK, Bool.and_eq_true, beq_iff_eq, Bool.not_eq_true'] at h2
    obtain ⟨⟨t1, t2⟩, t3⟩ := h2
    refine ⟨?_, by simp [toksColName], ?_⟩
    · simp [toksColName, pColumnName, t1, t2, n1, n2, searchStr, dot_facts.2]
    · intro u hu
      simp [toksColName] at hu
      rcases hu with rfl | rfl | rfl
      · exact t3
      · exact dot_facts.1
      · exact n3
theorem kw_noParen : (opTok "VALUES").has PAREN = false ∧ (opTok "SELECT").has PAREN = false := by decide
theorem columns_ok (cs : Option (List (Option String × String))) (hcs : colNamesOK cs = true) (x : List Tok) (hx : searchMark x PAREN = false) :
    pOptColumns (toksColNames cs ++ x) = .ok (cs, x) := by
  cases cs with
  | none => simp [toksColNames, pOptColumns, hx]
  | some l =>
    simp only [colNamesOK, List.all_eq_true] at hcs
    have hsp := splitBy_joinC (l.map toksColName) [] (by
      intro s hs
      obtain ⟨c, hc, rfl⟩ := List.mem_map.1 hs
      exact (colName_item c (hcs c hc)).2)
    simp only [List.nil_append] at hsp
    have hec := eachClosed_map pColumnName toksColName (fun c => c) l (fun c hc => (colName_item c (hcs c hc)).1)
    simp only [List.map_id'] at hec
    unfold pOptColumns
    simp [toksColNames, searchMark, grp_paren, popSplit, children_grp, hsp, hec]

/-! ### the INSERT words -/
theorem kw_insert : (opTok "INSERT").srcEqUp "INSERT" = true ∧ (opTok "INTO").srcEqUp "INTO" = true ∧ (opTok "IGNORE").srcEqUp "IGNORE" = true ∧
    (opTok "OVERWRITE").srcEqUp "OVERWRITE" = true ∧ (opTok "IGNORE").srcEqUp "INTO" = false ∧ (opTok "OVERWRITE").srcEqUp "INTO" = false ∧
    (opTok "OVERWRITE").srcEqUp "IGNORE" = false ∧ (opTok "TABLE").srcEqUp "TABLE" = true := by decide
theorem insertWords_eq : insertWords "INSERT_INTO" = [opTok "INSERT", opTok "INTO"] ∧
    insertWords "INSERT_IGNORE_INTO" = [opTok "INSERT", opTok "IGNORE", opTok "INTO"] ∧
    insertWords "INSERT_OVERWRITE" = [opTok "INSERT", opTok "OVERWRITE"] := by
  refine ⟨?_, ?_, ?_⟩ <;> simp [insertWords, Gen.insertTypes]
theorem insertType_ok (ty : String) (hty : insertTyOK ty = true) (x : List Tok) : pInsertType (insertWords ty ++ x) = .ok (ty, x) := by
  obtain ⟨k1, k2, k3, k4, k5, k6, k7, _⟩ := kw_insert
  obtain ⟨w1, w2, w3⟩ := insertWords_eq
  simp only [insertTyOK, List.contains_cons, List.contains_nil, Bool.or_false, Bool.or_eq_true, beq_iff_eq] at hty
  unfold pInsertType
  rcases hty with rfl | rfl | rfl
  · simp [w1, searchTwoUp, k1, k2]
  · simp [w2, searchTwoUp, searchThreeUp, k1, k2, k3, k5]
  · cases x with
    | nil => simp [w3, searchTwoUp, searchThreeUp, k1, k4, k6]
    | cons y r => simp [w3, searchTwoUp, searchThreeUp, k1, k4, k6, k7]
theorem sizeL_insertWords (ty : String) (hty : insertTyOK ty = true) : 2 ≤ sizeL (insertWords ty) := by
  obtain ⟨w1, w2, w3⟩ := insertWords_eq
  simp only [insertTyOK, List.contains_cons, List.contains_nil, Bool.or_false, Bool.or_eq_true, beq_iff_eq] at hty
  rcases hty with rfl | rfl | rfl
  · simp [w1, sizeL_cons, size_opTok, sizeL]
  · simp [w2, sizeL_cons, size_opTok, sizeL]
  · simp [w3, sizeL_cons, size_opTok, sizeL]
theorem insertWords_head (ty : String) (hty : insertTyOK ty = true) : ∃ y, insertWords ty = opTok "INSERT" :: y := by
  obtain ⟨w1, w2, w3⟩ := insertWords_eq
  simp only [insertTyOK, List.contains_cons, List.contains_nil, Bool.or_false, Bool.or_eq_true, beq_iff_eq] at hty
  rcases hty with rfl | rfl | rfl
  · exact ⟨_, w1⟩
  · exact ⟨_, w2⟩
  · exact ⟨_, w3⟩

/-! ### the target: INSERT words, optional TABLE, table name, partition, column list -/
structure HeadRec (d : Gen.D) (ch : Expr → Bool) (h : InsertHead) : Prop where
  ty : insertTyOK h.type = true
  tbl : tblOKD h.table = true
  part : PartRec d ch h.partition
  cols : colNamesOK h.columns = true
theorem moveTable (tb : Bool) (t : TableName) (ht : tblOKD t = true) (x : List Tok) :
    (moveStrUp ((if tb then [opTok "TABLE"] else []) ++ (tblTok t.schema t.name :: x)) "TABLE").2 = tblTok t.schema t.name :: x := by
  cases tb
  · simp [moveStrUp, searchStrUp, tbl_notTable t ht]
  · simp [moveStrUp, searchStrUp, kw_insert.2.2.2.2.2.2.2]
theorem part_head (p : Option (List Expr)) (x : List Tok) (hx : searchStr x "." = false) : searchStr (toksPart d ch p ++ x) "." = false := by
  cases p with
  | none => simpa [toksPart] using hx
  | some es =>
    have : (opTok "PARTITION").srcEq "." = false := by decide
    simp [toksPart, searchStr, this]
theorem cols_head (cs : Option (List (Option String × String))) (x : List Tok) (k : String) (hk : (k.toList.head? != some '(') = true)
    (hx : searchStrUp x k = false) : searchStrUp (toksColNames cs ++ x) k = false := by
  cases cs with
  | none => simpa [toksColNames] using hx
  | some l => simp [toksColNames, searchStrUp, grp_srcEqUp _ k hk]
theorem grp_notDot (cs : List Tok) : (grp cs).srcEq "." = false := by
  simp only [Tok.srcEq, beq_eq_false_iff_ne, ne_eq]
  exact ne_of_head (c := '(') (by rw [toList_src_grp]; rfl) (by decide)
theorem cols_notDot (cs : Option (List (Option String × String))) (x : List Tok) (hx : searchStr x "." = false) :
    searchStr (toksColNames cs ++ x) "." = false := by
  cases cs with
  | none => simpa [toksColNames] using hx
  | some l => simp [toksColNames, searchStr, grp_notDot]

/-- `pInsert` up to the body: what the body parser is handed -/
def insertBody (d : Gen.D) (f : Nat) (h : InsertHead) (r4 : List Tok) : R Stmt :=
  if searchStrUp r4 "VALUES" then
    (match valuesLoop d f (r4.length + 1) [] (r4.drop 1) with
     | .ok (vs, r5) => .ok (.insertValues h vs, r5) | .error e => .error e)
  else if searchStrUp r4 "SELECT" then
    (match pSelectStmt d f (some []) r4 with
     | .ok (q, r5) => .ok (.insertSelect h q, r5) | .error e => .error e)
  else .error .parse
theorem insert_target (tb : Bool) (h : InsertHead) (ws : List WithTable) (hw : h.withs = some ws) (hh : HeadRec d ch h) (body : List Tok)
    (hb1 : searchStrUp body "PARTITION" = false) (hb2 : searchMark body PAREN = false) (hb3 : searchStr body "." = false) :
    ∀ f, 20 * sizeL (toksPart d ch h.partition) + 2 ≤ f →
    pInsert d f (some ws) (toksTarget d ch tb h ++ body) = insertBody d f h body := by
  intro f hf'
  obtain ⟨ws', ty, tbl, part, cols⟩ := h
  simp only at hw; subst hw
  have h1 := insertType_ok ty hh.ty ((if tb then [opTok "TABLE"] else []) ++ (tblTok tbl.schema tbl.name :: (toksPart d ch part ++ (toksColNames cols ++ body))))
  have h2 := moveTable tb tbl hh.tbl (toksPart d ch part ++ (toksColNames cols ++ body))
  have h3 := tblName_ok tbl hh.tbl (toksPart d ch part ++ (toksColNames cols ++ body)) (part_head part _ (cols_notDot cols body hb3))
  have h4 := optPartition_ok part hh.part (toksColNames cols ++ body) (cols_head cols body "PARTITION" (by decide) hb1) f hf'
  have h5 := columns_ok cols hh.cols body hb2
  simp only at h4
  unfold pInsert insertBody
  simp only [pWithOpt, toksTarget, List.append_assoc, List.cons_append, h1, h2, h3, h4, h5]
  rfl

end TDM
