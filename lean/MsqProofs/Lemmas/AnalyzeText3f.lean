import MsqProofs.Lemmas.AnalyzeText3e
import MsqProofs.Lemmas.TQueryM
/-!
# The column references of each clause of a fragment SELECT, read off its token segment (C15 on texts)

`CT.clause_cols : FragS3 d s → colsOf c s = clauseColumnTokens c (clauseSeg c (toksS3 d noX s))` for the six clauses and their union:
the references the specification `Spec.colsOf` lists for clause `c` (before the alias / position substitution) are what the scanner
`CT.colL` reads off the tokens of that clause, the clause being cut out of the branch's token list by the clause words at bracket depth 0.
-/
set_option linter.unusedVariables false
set_option linter.unusedSimpArgs false
open Lex PM Ast TP TP2 TS TQ Spec
open AN (QCol Clause)
namespace CT

/-! ### an alias is no `.` -/
theorem alpha_lt (c : Char) (h : (c.isAlpha || c == '_') = true) : c.toNat < 128 := by
  simp only [Char.isAlpha, Char.isUpper, Char.isLower, Bool.or_eq_true, Bool.and_eq_true, decide_eq_true_eq, beq_iff_eq] at h
  rcases h with (⟨_, h2⟩ | ⟨_, h2⟩) | rfl
  · have := UInt32.le_iff_toNat_le.1 h2
    have e : 'Z'.val.toNat = 90 := by decide
    simp only [Char.toNat]; omega
  · have := UInt32.le_iff_toNat_le.1 h2
    have e : 'z'.val.toNat = 122 := by decide
    simp only [Char.toNat]; omega
  · decide
theorem alpha_tab : ∀ n : Fin 128, ((Char.ofNat n.val).isAlpha || Char.ofNat n.val == '_') = true → Py.upperAsciiChar (Char.ofNat n.val) ≠ '.' := by
  decide
theorem alpha_up_nodot (c : Char) (h : (c.isAlpha || c == '_') = true) : Py.upperAsciiChar c ≠ '.' := by
  have hl := alpha_lt c h
  have := alpha_tab ⟨c.toNat, hl⟩
  simp only [Char.ofNat_toNat] at this
  exact this h
theorem named_nodot (a : String) (h : (opTok a).has NAME = true) : (opTok a).equalsStr "." = false := by
  rw [TQ.opTok_equals, beq_eq_false_iff_ne]
  intro he
  have e1 : up "." = "." := by decide
  rw [e1] at he
  have hf : Gen.wordMarks.find? (·.1 == ".") = none := by decide
  simp only [opTok, Tok.has, Tok.marks, wordMark, he, hf] at h
  by_cases hw : isWordS a = true
  · simp only [isWordS] at hw
    cases hc : a.toList with
    | nil => simp [hc] at hw
    | cons c r =>
      rw [hc] at hw
      simp only [List.head?_cons, Option.any_some] at hw
      have := TQ.up_head a c r hc (alpha_lt c hw)
      rw [he] at this
      have e2 : ".".toList.head? = some '.' := by decide
      rw [e2] at this
      injection this with this
      exact alpha_up_nodot c hw this.symm
  · simp only [hw, Bool.false_eq_true, if_false] at h
    exact absurd h (by decide)

theorem colL_alias (a : String) (h : aliasOK a = true) (r : List Tok) :
    colL (.expr true) (opTok "AS" :: opTok a :: r) = colL (.expr true) r := by
  simp only [aliasOK, Bool.and_eq_true] at h
  have h1 : (opTok "AS").has LITERAL = false := by decide
  have h2 : isWord (opTok "AS") = true := by decide
  have h3 : nextIs "." (opTok a :: r) = false := named_nodot a h.1.1
  have h4 : (opTok "AS").equalsStr "AS" = true := by decide
  have h5 : nextIsGrp (opTok a :: r) = false := rfl
  rw [colL_tok (by rfl), colL_tok (by rfl)]
  simp [step, h1, h2, h3, h4, h5]

variable {d : Gen.D} (ch : Expr → Bool)

/-! ### the select list -/
theorem hdS_aliasTail (a : Option String) (cs : List (Expr × Option String)) : hdS (aliasToks a ++ toksColsTail3 d ch cs) = true := by
  cases a with
  | some a => exact hdS_cons rfl (by decide) _
  | none =>
    cases cs with
    | nil => rfl
    | cons p r => obtain ⟨e, a⟩ := p; simp only [aliasToks, toksColsTail3, List.nil_append]; exact hdS_cons rfl (by decide) _
theorem colL_aliasToks (a : Option String) (h : optAliasOK a = true) (r : List Tok) :
    colL (.expr true) (aliasToks a ++ r) = colL (.expr true) r := by
  cases a with
  | none => rfl
  | some a => exact colL_alias a h r
theorem cColsTail : ∀ (cs : List (Expr × Option String)), colsOK3 d cs = true →
    colL (.expr true) (toksColsTail3 d ch cs) = colsSelectItems cs
  | [], _ => by simp only [toksColsTail3, colsSelectItems]; exact colL_nil _
  | (e, a) :: cs, h => by
    simp only [colsOK3, Bool.and_eq_true] at h
    have he := cE ch e h.1.1
    simp only [toksColsTail3, colsSelectItems, List.append_assoc]
    rw [colL_kw kw_comma true _ (he.nodot _), he.scan _ (hdS_aliasTail ch a cs), colL_aliasToks a h.1.2, cColsTail cs h.2]
theorem cCols : ∀ (cs : List (Expr × Option String)), colsOK3 d cs = true →
    colL (.expr false) (toksCols3 d ch cs) = colsSelectItems cs ∧ nextIs "." (toksCols3 d ch cs) = false
  | [], _ => by simp only [toksCols3, colsSelectItems]; exact ⟨colL_nil _, rfl⟩
  | (e, a) :: cs, h => by
    simp only [colsOK3, Bool.and_eq_true] at h
    have he := cE ch e h.1.1
    simp only [toksCols3, colsSelectItems, List.append_assoc]
    exact ⟨by rw [he.scan _ (hdS_aliasTail ch a cs), colL_aliasToks a h.1.2, cColsTail ch cs h.2], he.nodot _⟩

/-! ### WHERE / HAVING, the ON conditions -/
theorem cOptE (kw : String) (hk : kwOut (opTok kw) = some false) : ∀ (e : Option Expr), FragO3 d e = true →
    colL (.expr false) (toksOptE3 d ch kw e) = colsOE e
  | none, _ => by simp only [toksOptE3, colsOE]; exact colL_nil _
  | some e, h => by
    simp only [FragO3] at h
    have he := cE ch e h
    simp only [toksOptE3, colsOE]
    rw [colL_kw hk false _ (by simpa using he.nodot []), he.inner]
theorem hdS_onToks : ∀ (js : List Join), hdS (onToks d ch js) = true
  | [] => rfl
  | .mk ty t none :: js => by simp only [onToks, joinOn, toksRule3, List.nil_append]; exact hdS_onToks js
  | .mk ty t (some (.on e)) :: js => by simp only [onToks, joinOn, toksRule3, List.cons_append]; exact hdS_cons rfl (by decide) _
  | .mk ty t (some (.using f)) :: js => by simp only [onToks, joinOn, toksRule3, List.nil_append]; exact hdS_onToks js
theorem cOns : ∀ (js : List Join), joinsOK3 d js = true → ∀ b, colL (.expr b) (onToks d ch js) = colsJoins js
  | [], _, b => by simp only [onToks, colsJoins]; exact colL_nil _
  | .mk ty t none :: js, h, b => by
    simp only [joinsOK3, Bool.and_eq_true] at h
    simp only [onToks, joinOn, toksRule3, colsJoins, colsJoin, List.nil_append]
    exact cOns js h.2 b
  | .mk ty t (some (.on e)) :: js, h, b => by
    simp only [joinsOK3, joinOK3, ruleOK3, Bool.and_eq_true] at h
    have he := cE ch e h.1.2
    simp only [onToks, joinOn, toksRule3, colsJoins, colsJoin, List.cons_append]
    rw [colL_kw (k0 "ON") b _ (he.nodot _), he.scan _ (hdS_onToks ch js), cOns js h.2 true]
  | .mk ty t (some (.using f)) :: js, h, b => by simp [joinsOK3, joinOK3, ruleOK3] at h

/-! ### GROUP BY / ORDER BY: the items -/
theorem splitC_cons {a : List Tok} (ha : TQ.NoComma a) (b : List Tok) : splitC (a ++ opTok "," :: b) = a :: splitC b := by
  induction a with
  | nil =>
    have : (opTok ",").equalsStr "," = true := by decide
    simp [splitC, this]
  | cons t a ih =>
    have ht : t.equalsStr "," = false := ha t (by simp)
    have := ih (fun x hx => ha x (by simp [hx]))
    simp only [List.cons_append, splitC, ht, Bool.false_eq_true, if_false, this]
theorem splitC_last {a : List Tok} (ha : TQ.NoComma a) : splitC a = [a] := by
  induction a with
  | nil => rfl
  | cons t a ih =>
    have ht : t.equalsStr "," = false := ha t (by simp)
    have := ih (fun x hx => ha x (by simp [hx]))
    simp only [splitC, ht, Bool.false_eq_true, if_false, this]

theorem w3_nocomma (e : Expr) (h : FragE3 d e = true) (k : Nat) : TQ.NoComma (W3 d noX e k) := by
  unfold W3 wrapT
  split
  · intro t ht; simp at ht; subst ht; rfl
  · exact (TQ.rt3 TQ.chOK_noX e h).nocomma

theorem itemRefs_nonlit (e : Expr) (h : ∀ v, e ≠ .literal v) : itemRefs e = colsE e := by
  cases e <;> simp_all [itemRefs, ordinalOfExpr]
theorem kwOut_nolit {t : Tok} {a : Bool} (h : kwOut t = some a) : t.has LITERAL = false := by
  unfold kwOut at h
  cases hl : t.has LITERAL with
  | false => rfl
  | true => simp [hl] at h

theorem len_app {A X : List Tok} {t : Tok} {r : List Tok} (hA : A ≠ []) (h : A ++ X = t :: r) : X.length ≤ r.length := by
  cases A with
  | nil => exact absurd rfl hA
  | cons a A =>
    simp only [List.cons_append, List.cons.injEq] at h
    rw [← h.2]; simp
theorem kwToks_len (k : KwKind) (n : Bool) : 1 ≤ (kwToks k n).length := by cases k <;> cases n <;> simp [kwToks]

/-- a rendering whose first token carries the LITERAL mark is a literal, or has at least three tokens -/
theorem lit_head (e : Expr) (hf : FragE3 d e = true) (hnl : ∀ v, e ≠ .literal v) :
    ∀ t r, W3 d noX e 8 = t :: r → t.has LITERAL = true → 2 ≤ r.length := by
  intro t r hw hl
  unfold W3 wrapT at hw
  split at hw
  · simp only [List.cons.injEq] at hw
    rw [← hw.1, grp_literal] at hl; exact absurd hl (by decide)
  · have wne : ∀ (x : Expr) (k : Nat), FragE3 d x = true → wrapT (noX x) x k (toksE3 d noX x) ≠ [] :=
      fun x k hx => ((cE noX x hx).wrap _ _ _).ne
    have bin : ∀ (l r' : Expr) (kl kr : Nat) (x : Tok), FragE3 d l = true → FragE3 d r' = true →
        wrapT (noX l) l kl (toksE3 d noX l) ++ x :: wrapT (noX r') r' kr (toksE3 d noX r') = t :: r → 2 ≤ r.length := by
      intro l r' kl kr x h1 h2 he
      have := len_app (wne l kl h1) he
      have h3 := List.length_pos_iff.2 (wne r' kr h2)
      simp only [List.length_cons] at this
      omega
    cases e with
    | column q c =>
      cases q <;> (simp only [toksE3, List.cons.injEq] at hw; rw [← hw.1, name_nolit] at hl; exact absurd hl (by decide))
    | literal v => exact absurd rfl (hnl v)
    | wildcard q =>
      cases q with
      | none =>
        simp only [toksE3, List.cons.injEq] at hw
        rw [← hw.1] at hl; exact absurd hl (by decide)
      | some q =>
        simp only [FragE3, wildOK] at hf
        simp only [toksE3, List.cons.injEq] at hw
        rw [← hw.1, (q_facts hf).2.1] at hl; exact absurd hl (by decide)
    | func s n ps =>
      simp only [FragE3, Bool.and_eq_true] at hf
      have h1 := hf.1
      cases s with
      | none =>
        simp only [fnOK, Bool.and_eq_true] at h1
        simp only [toksE3, List.nil_append, List.cons.injEq] at hw
        rw [← hw.1, (q_facts h1.2.1).2.1] at hl; exact absurd hl (by decide)
      | some s =>
        simp only [toksE3, List.cons_append, List.cons.injEq] at hw
        rw [← hw.1, name_nolit] at hl; exact absurd hl (by decide)
    | agg n ps dist =>
      simp only [FragE3, aggOK, Bool.and_eq_true] at hf
      simp only [toksE3, List.cons.injEq] at hw
      rw [← hw.1, (nm_facts hf.1.1.2).2.1] at hl; exact absurd hl (by decide)
    | caseCond cs els =>
      simp only [toksE3, List.cons.injEq] at hw
      rw [← hw.1] at hl; exact absurd hl (by decide)
    | caseVal v cs els =>
      simp only [toksE3, List.cons.injEq] at hw
      rw [← hw.1] at hl; exact absurd hl (by decide)
    | subQuery q =>
      simp only [toksE3, List.cons.injEq] at hw
      rw [← hw.1, grp_literal] at hl; exact absurd hl (by decide)
    | exists_ v =>
      simp only [toksE3, List.cons.injEq] at hw
      rw [← hw.1] at hl; exact absurd hl (by decide)
    | unary o x =>
      simp only [FragE3, Bool.and_eq_true] at hf
      simp only [toksE3, List.cons.injEq] at hw
      rw [← hw.1, kwOut_nolit (unary_ok hf.1).1] at hl; exact absurd hl (by decide)
    | compute l o r' =>
      simp only [FragE3, Bool.and_eq_true] at hf
      simp only [toksE3] at hw
      exact bin l r' _ _ _ hf.1.2 hf.2 hw
    | kw k n l r' =>
      simp only [FragE3, Bool.and_eq_true] at hf
      simp only [toksE3] at hw
      have := len_app (wne l 9 hf.1.1) hw
      have := kwToks_len k n
      simp only [List.length_append] at *
      have hr' : 1 ≤ (wrapT (noX r' && k != KwKind.in_) r' 8 (toksE3 d noX r')).length := by
        unfold wrapT; split
        · simp
        · by_cases hk : (k == KwKind.in_) = true
          · have h2 := hf.1.2
            simp only [hk, if_true] at h2
            cases r' with
            | subQuery q => simp [toksE3]
            | subValue vs => simp [toksE3]
            | _ => simp [inRhs3] at h2
          · have h2 := hf.1.2
            simp only [hk, if_false] at h2
            exact List.length_pos_iff.2 (cE noX r' h2).ne
      omega
    | between n b f t' =>
      simp only [FragE3, Bool.and_eq_true] at hf
      simp only [toksE3] at hw
      have := len_app (wne b 9 hf.1.1.1) hw
      simp only [List.length_append, List.length_cons] at this
      omega
    | compare o l r' =>
      simp only [FragE3, Bool.and_eq_true] at hf
      simp only [toksE3] at hw
      exact bin l r' _ _ _ hf.1.1.2 hf.1.2 hw
    | not_ x =>
      simp only [toksE3, List.cons.injEq] at hw
      rw [← hw.1] at hl; exact absurd hl (by decide)
    | and_ l r' =>
      simp only [FragE3, Bool.and_eq_true] at hf
      simp only [toksE3] at hw
      exact bin l r' _ _ _ hf.1 hf.2 hw
    | xor l r' =>
      simp only [FragE3, Bool.and_eq_true] at hf
      simp only [toksE3] at hw
      exact bin l r' _ _ _ hf.1 hf.2 hw
    | or_ l r' =>
      simp only [FragE3, Bool.and_eq_true] at hf
      simp only [toksE3] at hw
      exact bin l r' _ _ _ hf.1 hf.2 hw
    | _ => simp [FragE3] at hf

theorem ordTok_lit {t : Tok} {k : Int} (h : ordTok t = some k) : t.has LITERAL = true := by
  unfold ordTok at h
  cases hl : t.has LITERAL with
  | true => rfl
  | false => simp [hl] at h
theorem itemT_eq (ts : List Tok) (h : ∀ t r k, ts = t :: r → ordTok t = some k → 2 ≤ r.length) : itemT ts = colL (.expr false) ts := by
  match ts, h with
  | [], _ => rfl
  | [t], h =>
    cases hk : ordTok t with
    | none => simp [itemT, hk]
    | some k => have := h t [] k rfl hk; simp at this
  | [t, u], h =>
    cases hk : ordTok t with
    | none => simp [itemT, hk]
    | some k => have := h t [u] k rfl hk; simp at this
  | t :: u :: v :: w, _ => rfl

/-- **one item of GROUP BY / ORDER BY** (with its optional `DESC`): a lone integer literal is a position -/
theorem itemT_expr (e : Expr) (hf : FragE3 d e = true) (desc : Bool) :
    itemT (W3 d noX e 8 ++ (if desc then [opTok "DESC"] else [])) = itemRefs e := by
  have hdesc : colL (.expr true) (if desc then [opTok "DESC"] else []) = [] := by
    cases desc
    · exact colL_nil _
    · simp only [if_true]; rw [colL_kw kw_DESC true [] rfl]; exact colL_nil _
  have hdS' : hdS (if desc then [opTok "DESC"] else []) = true := by cases desc <;> rfl
  by_cases hl : ∃ v, e = .literal v
  · obtain ⟨v, rfl⟩ := hl
    simp only [FragE3] at hf
    have hw : W3 d noX (.literal v) 8 = [litTok v] := by simp [W3, wrapT, PR.lvl, noX, toksE3]
    have hord : ordTok (litTok v) = ordinalOfExpr (.literal v) := by
      simp only [ordTok, lit_has v hf, src_litTok, ordinalOfExpr, if_true]
      cases AN.ordinalOfSource v <;> rfl
    have hscan : colL (.expr false) ([litTok v] ++ (if desc then [opTok "DESC"] else [])) = [] := by
      rw [List.singleton_append, colL_lit rfl (lit_has v hf), hdesc]
    have hD : isDir (opTok "DESC") = true := by decide
    rw [hw]
    unfold itemRefs
    rw [← hord]
    cases desc with
    | false =>
      simp only [Bool.false_eq_true, if_false, List.append_nil, itemT] at hscan ⊢
      cases hk : ordTok (litTok v) with
      | none => simp [hscan, colsE]
      | some k => rfl
    | true =>
      simp only [if_true, List.singleton_append, itemT, hD] at hscan ⊢
      cases hk : ordTok (litTok v) with
      | none => simp [hscan, colsE]
      | some k => rfl
  · have hnl : ∀ v, e ≠ .literal v := fun v hv => hl ⟨v, hv⟩
    rw [itemRefs_nonlit e hnl, itemT_eq]
    · have := ((cE noX e hf).wrap (noX e) e 8).scan _ hdS'
      rw [hdesc, List.append_nil] at this
      exact this
    · intro t r k he hk
      have hne := ((cE noX e hf).wrap (noX e) e 8).ne
      cases hW : W3 d noX e 8 with
      | nil => exact absurd hW hne
      | cons t0 r0 =>
        rw [hW, List.cons_append, List.cons.injEq] at he
        have := lit_head e hf hnl t0 r0 hW (by rw [he.1]; exact ordTok_lit hk)
        rw [← he.2, List.length_append]; omega

theorem nocomma_item (e : Expr) (hf : FragE3 d e = true) (desc : Bool) :
    TQ.NoComma (W3 d noX e 8 ++ (if desc then [opTok "DESC"] else [])) := by
  intro t ht
  rcases List.mem_append.1 ht with h | h
  · exact w3_nocomma e hf 8 t h
  · cases desc
    · simp at h
    · simp only [if_true, List.mem_singleton] at h; subst h; decide

theorem cGroupTail : ∀ (es : List Expr), FragL3 d es = true → ∀ (a : List Tok), TQ.NoComma a →
    (splitC (a ++ toksArgsTail3 d noX 8 es)).flatMap itemT = itemT a ++ colsGroupItems es
  | [], _, a, ha => by simp [toksArgsTail3, colsGroupItems, splitC_last ha]
  | e :: es, h, a, ha => by
    simp only [FragL3, Bool.and_eq_true] at h
    have := cGroupTail es h.2 (W3 d noX e 8) (w3_nocomma e h.1 8)
    have hi := itemT_expr e h.1 false
    simp only [Bool.false_eq_true, if_false, List.append_nil] at hi
    simp only [toksArgsTail3, colsGroupItems]
    rw [show TP2.commaTok = opTok "," from rfl, splitC_cons ha, List.flatMap_cons]
    unfold W3 at this hi
    rw [this, hi]
theorem cOrdTail : ∀ (os : List OrderItem), ordTailOK3 d os = true → ∀ (a : List Tok), TQ.NoComma a →
    (splitC (a ++ toksOrdTail3 d noX os)).flatMap itemT = itemT a ++ colsOrderItems os
  | [], _, a, ha => by simp [toksOrdTail3, colsOrderItems, splitC_last ha]
  | .mk e desc nf nl :: os, h, a, ha => by
    simp only [ordTailOK3, ordItemOK3, Bool.and_eq_true] at h
    have := cOrdTail os h.2 _ (nocomma_item e h.1.1.1 desc)
    have hi := itemT_expr e h.1.1.1 desc
    simp only [toksOrdTail3, toksOrdItem3, colsOrderItems]
    rw [show TS.commaTok = opTok "," from rfl, splitC_cons ha, List.flatMap_cons]
    unfold W3 at this hi
    rw [this, hi]

/-! ### the clauses -/
/-- **the raw references of each of the six clauses** are what the scanner reads off the clause's piece of the rendering -/
theorem clause_cols6 (s : Select) (h : FragS3 d s = true) (c : Clause) (hc : c ≠ .all) :
    colsOf c s = clauseColumnTokens6 c (seg d noX (clauseNo c) s) := by
  cases s with
  | mk ws dist cols fr lats js wh gb hv ob sb db cb lm =>
    obtain ⟨rfl, rfl, rfl, rfl, rfl⟩ := AT.fragS3_shape h
    have hfrag := h
    simp only [FragS3, Bool.and_eq_true] at h
    obtain ⟨⟨⟨⟨⟨⟨⟨⟨⟨hcols, _⟩, hfr⟩, hjs⟩, hwh⟩, hgb⟩, hhv⟩, hob⟩, hlm⟩, _⟩ := h
    cases c with
    | all => exact absurd rfl hc
    | select =>
      obtain ⟨c1, c2⟩ := cCols noX cols hcols
      have hnd : nextIs "." ((if dist then [opTok "DISTINCT"] else []) ++ toksCols3 d noX cols) = false := by
        cases dist
        · simpa using c2
        · rfl
      simp only [colsOf, clauseColumnTokens6, clauseNo, seg]
      rw [colL_kw kw_SELECT false _ hnd]
      cases dist
      · simpa using c1.symm
      · simp only [if_true, List.singleton_append]; rw [colL_kw (k0 "DISTINCT") false _ c2, c1]
    | join =>
      simp only [colsOf, clauseColumnTokens6, clauseNo]
      rw [cutOns_seg noX _ hfrag]
      exact (cOns noX js hjs false).symm
    | where_ =>
      simp only [colsOf, clauseColumnTokens6, clauseNo, seg]
      exact (cOptE noX "WHERE" (k0 "WHERE") wh hwh).symm
    | having =>
      simp only [colsOf, clauseColumnTokens6, clauseNo, seg]
      exact (cOptE noX "HAVING" (k0 "HAVING") hv hhv).symm
    | group =>
      simp only [colsOf, clauseColumnTokens6, clauseNo, seg]
      match gb, hgb with
      | none, _ => simp [toksGroup3, colsGroup, splitC, itemT, colL_nil]
      | some (.mk [] sets cube rollup), hgb => simp [groupOK3] at hgb
      | some (.mk (e :: es) (some l) cube rollup), hgb => simp [groupOK3] at hgb
      | some (.mk (e :: es) none cube rollup), hgb =>
        cases cube <;> cases rollup <;> try (simp [groupOK3] at hgb; done)
        simp only [groupOK3, Bool.and_eq_true] at hgb
        have := cGroupTail es hgb.1.2 (W3 d noX e 8) (w3_nocomma e hgb.1.1 8)
        have hi := itemT_expr e hgb.1.1 false
        simp only [Bool.false_eq_true, if_false, List.append_nil] at hi
        unfold W3 at this hi
        simp only [toksGroup3, colsGroup, colsGroupItems, List.drop, List.append_nil, this, hi]
    | order =>
      simp only [colsOf, clauseColumnTokens6, clauseNo, seg]
      match ob, hob with
      | none, _ => simp [toksOrder3, colsOrder, splitC, itemT, colL_nil]
      | some [], hob => simp [orderOK3] at hob
      | some (.mk e desc nf nl :: os), hob =>
        simp only [orderOK3, ordItemOK3, Bool.and_eq_true] at hob
        have := cOrdTail os hob.2 _ (nocomma_item e hob.1.1.1 desc)
        have hi := itemT_expr e hob.1.1.1 desc
        unfold W3 at this hi
        simp only [toksOrder3, toksOrdItem3, colsOrder, colsOrderItems, List.drop, this, hi]

/-- the segment of each of the six clauses is cut out of the branch's token list by the clause words at depth 0 -/
theorem clauseSeg_toksS3 (s : Select) (h : FragS3 d s = true) (c : Clause) (hc : c ≠ .all) :
    clauseSeg c (toksS3 d noX s) = seg d noX (clauseNo c) s := by
  cases c with
  | all => exact absurd rfl hc
  | join => exact cutJoins_toksS3 noX s h
  | select => exact cut_toksS3 noX s h 0 (by decide) (by decide)
  | where_ => exact cut_toksS3 noX s h 3 (by decide) (by decide)
  | group => exact cut_toksS3 noX s h 4 (by decide) (by decide)
  | having => exact cut_toksS3 noX s h 5 (by decide) (by decide)
  | order => exact cut_toksS3 noX s h 6 (by decide) (by decide)

/-- **C15 on the tokens of one SELECT branch**: for every clause `c` (the six and their union), the references the specification lists
for clause `c` of `s` — before the alias / position substitution — are exactly what the scanner reads off the segment of clause `c` of
the branch's token rendering -/
theorem clause_cols (s : Select) (h : FragS3 d s = true) (c : Clause) :
    colsOf c s = clauseColumnTokens c (clauseSeg c (toksS3 d noX s)) := by
  have h6 : ∀ c, c ≠ Clause.all → colsOf c s = clauseColumnTokens6 c (clauseSeg c (toksS3 d noX s)) := fun c hc => by
    rw [clauseSeg_toksS3 s h c hc]; exact clause_cols6 s h c hc
  cases c with
  | all =>
    have e1 := h6 .select (by decide); have e2 := h6 .join (by decide); have e3 := h6 .where_ (by decide)
    have e4 := h6 .group (by decide); have e5 := h6 .having (by decide); have e6 := h6 .order (by decide)
    simp only [clauseColumnTokens, clauseSeg, List.flatMap_cons, List.flatMap_nil, List.append_nil] at *
    rw [← e1, ← e2, ← e3, ← e4, ← e5, ← e6]
    cases s; simp [colsOf, colsOf.colsOf']
  | select => exact h6 _ (by decide)
  | join => exact h6 _ (by decide)
  | where_ => exact h6 _ (by decide)
  | group => exact h6 _ (by decide)
  | having => exact h6 _ (by decide)
  | order => exact h6 _ (by decide)

end CT
