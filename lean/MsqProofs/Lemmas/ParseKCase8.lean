import MsqProofs.Lemmas.ParseKCaseStmt2
import MsqModel.Parse.Entry2
/-! DERIVED by tools/gen_kcase.py from ParseCase8.lean (identifier substitution `CE`→`KE`, `CER`→`KER`, `upAll`→`kmAll`) — C09, parser half, sharp form for reserved words -/

/-!
# C09, parser half — hand-written part 10: the functions behind the other 26 public entry points (`MsqModel/Parse/Entry2.lean`)
on two case-equivalent cursors (same proof pattern as the generated files)
-/
set_option linter.unusedVariables false
set_option linter.unusedSectionVars false
set_option linter.unusedSimpArgs false
set_option maxHeartbeats 4000000
open Lex PM Ast
namespace PM

theorem pJoinType_ke : ∀ x0 y0, KEL x0 y0 → KER Eq (pJoinType x0) (pJoinType y0) := by
  intro x0 y0 hr0
  generalize h : pJoinType x0 = res
  generalize h' : pJoinType y0 = res'
  unfold pJoinType at h h'
  (try dsimp only at h h') <;> split_run <;> kel_sync <;> split_run' <;> ke_norm <;> kel_sync <;> ke_norm <;> grind -funext (gen := 40) (instances := 20000) (ematch := 30) [kmE, kmO, kmTR, kmFT, kmJR, kmLat, kmW]
theorem pUnionType_ke : ∀ x0 y0, KEL x0 y0 → KER Eq (pUnionType x0) (pUnionType y0) := by
  intro x0 y0 hr0
  generalize h : pUnionType x0 = res
  generalize h' : pUnionType y0 = res'
  unfold pUnionType at h h'
  (try dsimp only at h h') <;> split_run <;> kel_sync <;> split_run' <;> ke_norm <;> kel_sync <;> ke_norm <;> grind -funext (gen := 40) (instances := 20000) (ematch := 30) [kmE, kmO, kmTR, kmFT, kmJR, kmLat, kmW]
theorem pOrderType_ke : ∀ x0 y0, KEL x0 y0 → KER Eq (pOrderType x0) (pOrderType y0) := by
  intro x0 y0 hr0
  generalize h : pOrderType x0 = res
  generalize h' : pOrderType y0 = res'
  unfold pOrderType at h h'
  (try dsimp only at h h') <;> split_run <;> kel_sync <;> split_run' <;> ke_norm <;> kel_sync <;> ke_norm <;> grind -funext (gen := 40) (instances := 20000) (ematch := 30) [kmE, kmO, kmTR, kmFT, kmJR, kmLat, kmW]
theorem pCompareOp_ke : ∀ x0 y0, KEL x0 y0 → KER Eq (pCompareOp x0) (pCompareOp y0) := by
  intro x0 y0 hr0
  generalize h : pCompareOp x0 = res
  generalize h' : pCompareOp y0 = res'
  unfold pCompareOp at h h'
  (try dsimp only at h h') <;> split_run <;> kel_sync <;> split_run' <;> ke_norm <;> kel_sync <;> ke_norm <;> grind -funext (gen := 40) (instances := 20000) (ematch := 30) [kmE, kmO, kmTR, kmFT, kmJR, kmLat, kmW]
theorem pComputeOp_ke : ∀ x0 y0, KEL x0 y0 → KER Eq (pComputeOp x0) (pComputeOp y0) := by
  intro x0 y0 hr0
  generalize h : pComputeOp x0 = res
  generalize h' : pComputeOp y0 = res'
  unfold pComputeOp at h h'
  (try dsimp only at h h') <;> split_run <;> kel_sync <;> split_run' <;> ke_norm <;> kel_sync <;> ke_norm <;> grind -funext (gen := 40) (instances := 20000) (ematch := 30) [kmE, kmO, kmTR, kmFT, kmJR, kmLat, kmW]
theorem pCastDataType_ke : ∀ x0 y0, KEL x0 y0 → KER Eq (pCastDataType x0) (pCastDataType y0) := by
  intro x0 y0 hr0
  generalize h : pCastDataType x0 = res
  generalize h' : pCastDataType y0 = res'
  unfold pCastDataType at h h'
  (try dsimp only at h h') <;> split_run <;> kel_sync <;> split_run' <;> ke_norm <;> kel_sync <;> ke_norm <;> grind -funext (gen := 40) (instances := 20000) (ematch := 30) [kmE, kmO, kmTR, kmFT, kmJR, kmLat, kmW]
theorem pWildcard_ke : ∀ x0 y0, KEL x0 y0 → KER (ceq (Option.map km)) (pWildcard x0) (pWildcard y0) := by
  intro x0 y0 hr0
  generalize h : pWildcard x0 = res
  generalize h' : pWildcard y0 = res'
  unfold pWildcard at h h'
  (try dsimp only at h h') <;> split_run <;> kel_sync <;> split_run' <;> ke_norm <;> kel_sync <;> ke_norm <;> grind -funext (gen := 40) (instances := 20000) (ematch := 30) [kmE, kmO, kmTR, kmFT, kmJR, kmLat, kmW]
theorem pJoinOn_ke (d : Gen.D) (f : Nat) : ∀ x0 y0, KEL x0 y0 → KER (ceq kmJR) (pJoinOn d f x0) (pJoinOn d f y0) := by
  intro x0 y0 hr0
  generalize h : pJoinOn d f x0 = res
  generalize h' : pJoinOn d f y0 = res'
  unfold pJoinOn at h h'
  (try dsimp only at h h') <;> split_run <;> kel_sync <;> split_run' <;> ke_norm <;> kel_sync <;> ke_norm <;> grind -funext (gen := 40) (instances := 20000) (ematch := 30) [kmE, kmO, kmTR, kmFT, kmJR, kmLat, kmW]
grind_pattern pJoinOn_ke => pJoinOn d f x0, pJoinOn d f y0
theorem pJoinUsing_ke (d : Gen.D) (f : Nat) : ∀ x0 y0, KEL x0 y0 → KER (ceq kmJR) (pJoinUsing d f x0) (pJoinUsing d f y0) := by
  intro x0 y0 hr0
  generalize h : pJoinUsing d f x0 = res
  generalize h' : pJoinUsing d f y0 = res'
  unfold pJoinUsing at h h'
  (try dsimp only at h h') <;> split_run <;> kel_sync <;> split_run' <;> ke_norm <;> kel_sync <;> ke_norm <;> grind -funext (gen := 40) (instances := 20000) (ematch := 30) [kmE, kmO, kmTR, kmFT, kmJR, kmLat, kmW]
grind_pattern pJoinUsing_ke => pJoinUsing d f x0, pJoinUsing d f y0
theorem pJoinExpr_ke (d : Gen.D) (f : Nat) : ∀ x0 y0, KEL x0 y0 → KER (ceq kmJR) (pJoinExpr d f x0) (pJoinExpr d f y0) := by
  intro x0 y0 hr0
  generalize h : pJoinExpr d f x0 = res
  generalize h' : pJoinExpr d f y0 = res'
  unfold pJoinExpr at h h'
  (try dsimp only at h h') <;> split_run <;> kel_sync <;> split_run' <;> ke_norm <;> kel_sync <;> ke_norm <;> grind -funext (gen := 40) (instances := 20000) (ematch := 30) [kmE, kmO, kmTR, kmFT, kmJR, kmLat, kmW]
theorem pSelectClause_ke (d : Gen.D) (f : Nat) : ∀ x0 y0, KEL x0 y0 →
    KER (ceq (Prod.map id (List.map (Prod.map kmE (Option.map km))))) (pSelectClause d f x0) (pSelectClause d f y0) := by
  intro x0 y0 hr0
  generalize h : pSelectClause d f x0 = res
  generalize h' : pSelectClause d f y0 = res'
  unfold pSelectClause at h h'
  (try dsimp only at h h') <;> split_run <;> kel_sync <;> split_run' <;> ke_norm <;> kel_sync <;> ke_norm <;> grind -funext (gen := 40) (instances := 20000) (ematch := 30) [kmE, kmO, kmTR, kmFT, kmJR, kmLat, kmW]

end PM
