import MsqProofs.Lemmas.ParseWNCovStmt
/-!
# C02 at the statement level, part 2: CREATE TABLE, ALTER TABLE, ANALYZE, SHOW COLUMNS, the statement dispatch and the statement loop
-/
set_option linter.unusedVariables false
set_option maxHeartbeats 1000000
open Lex
namespace WNG
open PM Ast
variable {d : Gen.D} {f : Nat}

/-- coverage of the column definitions of a CREATE TABLE under construction -/
def CovCreate (d : Gen.D) (T : List Tok) (c : CreateTable) : Prop :=
  (∀ col ∈ c.columns, CovDC d T col) ∧ (∀ col ∈ c.partitionedBy, CovDC d T col)
theorem CovCreate.covL {T : List Tok} {c : CreateTable} (h : CovCreate d T c) : CovL d T (exprsCreate c) :=
  CovL.append (CovL.flatMap fun a ha => (h.1 a ha).covL) (CovL.flatMap fun a ha => (h.2 a ha).covL)

theorem cv_createElems {T : List Tok} : ∀ (segs : List (List Tok)) (c v : CreateTable), (∀ sg ∈ segs, Sub T sg) → CovCreate d T c →
    createElems d f segs c = .ok v → CovCreate d T v := by
  intro segs
  induction segs with
  | nil => intro c v _ hc h; simp only [createElems, Except.ok.injEq] at h; exact h ▸ hc
  | cons sg rest ih =>
    intro c v hss hc h
    have hr : ∀ s ∈ rest, Sub T s := fun s hm => hss s (by simp [hm])
    unfold createElems at h
    peel
    · split at h
      · refine ih _ v hr ?_ h; exact ⟨hc.1, hc.2⟩
      · cases h
    peel
    · split at h
      · refine ih _ v hr ?_ h; exact ⟨hc.1, hc.2⟩
      · cases h
    peel
    · split at h
      · refine ih _ v hr ?_ h; exact ⟨hc.1, hc.2⟩
      · cases h
    peel
    · split at h
      · refine ih _ v hr ?_ h; exact ⟨hc.1, hc.2⟩
      · cases h
    peel
    · split at h
      · refine ih _ v hr ?_ h; exact ⟨hc.1, hc.2⟩
      · cases h
    · split at h
      · rename_i col hcol
        rw [closed_ok] at hcol
        have hdc := cv_pDefCol (hss sg (by simp)) hcol
        refine ih _ v hr ?_ h
        refine ⟨?_, hc.2⟩
        intro x hx
        simp only [List.mem_append, List.mem_cons, List.not_mem_nil, or_false] at hx
        rcases hx with hx | rfl
        · exact hc.1 x hx
        · exact hdc
      · cases h

theorem cv_createOpts {T : List Tok} : ∀ (g : Nat) (c : CreateTable) (ts : List Tok) (v : CreateTable) (r : List Tok), Sub T ts →
    CovCreate d T c → createOpts d f g c ts = .ok (v, r) → CovCreate d T v := by
  intro g
  induction g with
  | zero => intro c ts v r _ _ h; simp [createOpts] at h
  | succ g ih =>
    intro c ts v r hs hc h
    have eqStep : ∀ {k : Nat} {s : String} {r0 : List Tok}, optEqSrc (ts.drop k) = .ok (s, r0) → Sub T r0 :=
      fun hp => (hs.drop _).of_cons (cons_optEqSrc _ _ _ hp)
    unfold createOpts at h
    peel
    · obtain ⟨rfl, rfl⟩ := ret2 h; exact hc
    peel
    · split at h
      · rename_i s r0 hq; refine ih _ _ v r ?_ ?_ h; exact eqStep hq; exact ⟨hc.1, hc.2⟩
      · cases h
    peel
    · split at h
      · rename_i s r0 hq
        refine ih _ _ v r ?_ ?_ h
        · exact ((hs.drop 1).of_cons (moveStr_sfx _ _)).of_cons (popInt_cons _ _ _ hq)
        · exact ⟨hc.1, hc.2⟩
      · cases h
    peel
    · split at h
      · rename_i s r0 hq; refine ih _ _ v r ?_ ?_ h; exact eqStep hq; exact ⟨hc.1, hc.2⟩
      · cases h
    peel
    · split at h
      · rename_i s r0 hq; refine ih _ _ v r ?_ ?_ h; exact eqStep hq; exact ⟨hc.1, hc.2⟩
      · cases h
    peel
    · split at h
      · rename_i s r0 hq; refine ih _ _ v r ?_ ?_ h; exact eqStep hq; exact ⟨hc.1, hc.2⟩
      · cases h
    peel
    · split at h
      · rename_i s r0 hq; refine ih _ _ v r ?_ ?_ h; exact eqStep hq; exact ⟨hc.1, hc.2⟩
      · cases h
    peel
    · split at h
      · rename_i s r0 hq; refine ih _ _ v r ?_ ?_ h; exact eqStep hq; exact ⟨hc.1, hc.2⟩
      · cases h
    peel
    · split at h
      · cases h
      · rename_i segs r0 hsp
        obtain ⟨hsegs, hs0⟩ := popSplit_sub (hs.drop 2) hsp
        split at h
        · rename_i cs hcs
          have hall := eachClosed_all (P := fun (c : DefCol) => CovDC d T c)
            (fun sg a hsg ha => by rw [closed_ok] at ha; exact cv_pDefCol hsg ha) segs cs hsegs hcs
          refine ih _ _ v r hs0 ?_ h
          refine ⟨hc.1, ?_⟩
          intro x hx
          simp only [List.mem_append] at hx
          rcases hx with hx | hx
          · exact hc.2 x hx
          · exact hall x hx
        · cases h
    peel
    · split at h
      · rename_i s r0 hq; refine ih _ _ v r ?_ ?_ h; exact eqStep hq; exact ⟨hc.1, hc.2⟩
      · cases h
    peel
    · split at h
      · rename_i s r0 hq; refine ih _ _ v r ?_ ?_ h; exact eqStep hq; exact ⟨hc.1, hc.2⟩
      · cases h
    peel
    · split at h
      · rename_i s r0 hq; refine ih _ _ v r ?_ ?_ h; exact eqStep hq; exact ⟨hc.1, hc.2⟩
      · cases h
    peel
    · refine ih _ _ v r (hs.drop 3) ?_ h; exact ⟨hc.1, hc.2⟩
    peel
    · split at h
      · rename_i s r0 hq; refine ih _ _ v r ?_ ?_ h; exact eqStep hq; exact ⟨hc.1, hc.2⟩
      · cases h
    peel
    · split at h
      · rename_i s r0 hq; refine ih _ _ v r ?_ ?_ h; exact eqStep hq; exact ⟨hc.1, hc.2⟩
      · cases h
    peel
    · split at h
      · cases h
      · rename_i segs r0 hsp
        obtain ⟨_, hs0⟩ := popSplit_sub (hs.drop 1) hsp
        split at h
        · refine ih _ _ v r hs0 ?_ h; exact ⟨hc.1, hc.2⟩
        · cases h
    · cases h

theorem cv_pCreateTable {T ts r : List Tok} {v : Stmt} (hs : Sub T ts) (h : pCreateTable d f ts = .ok (v, r)) : CovL d T (exprsStmt v) := by
  unfold pCreateTable at h
  split at h
  · cases h
  · rename_i r0 hm
    have hs0 : Sub T r0 := hs.of_cons (matchSeq_cons _ _ _ _ hm)
    split at h
    · cases h
    · rename_i tbl r1 ht
      have hs1 : Sub T r1 := (hs0.of_cons (moveThreeUp_sfx _ _ _ _)).of_cons (cons_pTblName _ _ _ ht)
      split at h
      · split at h
        · rename_i q r2 hq
          obtain ⟨rfl, rfl⟩ := ret2 h
          simpa [exprsStmt] using (cv_all d f).pSelectStmt T none _ q r2 (hs1.drop 1) (by simpa [exprsOW] using CovL.nil) hq
        · cases h
      · split at h
        · cases h
        · rename_i segs r2 hsp
          obtain ⟨hsegs, hs2⟩ := popSplit_sub hs1 hsp
          split at h
          · cases h
          · rename_i c hce
            have hc0 : CovCreate d T (emptyCreate tbl (moveThreeUp r0 "IF" "NOT" "EXISTS").1) :=
              ⟨fun x hx => by simp [emptyCreate] at hx, fun x hx => by simp [emptyCreate] at hx⟩
            have hc1 := cv_createElems segs _ c hsegs hc0 hce
            split at h
            · cases h
            · rename_i c' r3 hco
              have hc2 := cv_createOpts _ c r2 c' r3 hs2 hc1 hco
              obtain ⟨rfl, rfl⟩ := ret2 h
              simpa [exprsStmt] using hc2.covL

theorem cv_pAnalyze {T ts r : List Tok} {v : Stmt} (hs : Sub T ts) (h : pAnalyze d f ts = .ok (v, r)) : CovL d T (exprsStmt v) := by
  unfold pAnalyze at h
  split at h
  · cases h
  · rename_i r0 hm
    have hs0 : Sub T r0 := hs.of_cons (matchSeq_cons _ _ _ _ hm)
    split at h
    · cases h
    · rename_i t r1 ht
      have hs1 : Sub T r1 := hs0.of_cons (cons_pTblName _ _ _ ht)
      split at h
      · cases h
      · rename_i part r2 hp
        have c := cv_pOptPartition hs1 hp
        simp only at h
        obtain ⟨rfl, rfl⟩ := ret2 h
        simpa [exprsStmt] using c

theorem cv_pAlterExpr {T ts r : List Tok} {v : AlterOp} (hs : Sub T ts) (h : pAlterExpr d f ts = .ok (v, r)) : CovL d T (exprsAO v) := by
  unfold pAlterExpr at h
  peel
  · split at h
    · rename_i p r0 hp; obtain ⟨rfl, rfl⟩ := ret2 h; simpa [exprsAO] using cv_pPartition (hs.drop 2) hp
    · cases h
  peel
  · split at h
    · rename_i p r0 hp; obtain ⟨rfl, rfl⟩ := ret2 h; simpa [exprsAO] using cv_pPartition (hs.drop 5) hp
    · cases h
  peel
  · split at h
    · rename_i x r0 hp; obtain ⟨rfl, rfl⟩ := ret2 h; simpa [exprsAO] using cv_pColOrIdx (hs.drop 1) hp
    · cases h
  peel
  · split at h
    · rename_i x r0 hp; obtain ⟨rfl, rfl⟩ := ret2 h; simpa [exprsAO] using cv_pColOrIdx (hs.drop 1) hp
    · cases h
  peel
  · split at h
    · cases h
    · rename_i nm r0 hq
      split at h
      · rename_i x r1 hp
        obtain ⟨rfl, rfl⟩ := ret2 h
        simpa [exprsAO] using cv_pColOrIdx ((hs.drop 1).of_cons (popSrc_cons _ _ _ hq)) hp
      · cases h
  peel
  · repeat' split at h
    all_goals first | (obtain ⟨rfl, rfl⟩ := ret2 h; simpa [exprsAO] using CovL.nil) | cases h
  peel
  · repeat' split at h
    all_goals first | (obtain ⟨rfl, rfl⟩ := ret2 h; simpa [exprsAO] using CovL.nil) | cases h
  peel
  · split at h
    · rename_i p r0 hp; obtain ⟨rfl, rfl⟩ := ret2 h; simpa [exprsAO] using cv_pPartition (hs.drop 2) hp
    · cases h
  peel
  · split at h
    · rename_i p r0 hp; obtain ⟨rfl, rfl⟩ := ret2 h; simpa [exprsAO] using cv_pPartition (hs.drop 4) hp
    · cases h
  · cases h

theorem cv_alterLoop {T : List Tok} : ∀ (g : Nat) (acc : List AlterOp) (ts : List Tok) (v : List AlterOp) (r : List Tok),
    Sub T ts → CovL d T (acc.flatMap exprsAO) → alterLoop d f g acc ts = .ok (v, r) → CovL d T (v.flatMap exprsAO) := by
  intro g
  induction g with
  | zero => intro acc ts v r _ _ h; simp [alterLoop] at h
  | succ g ih =>
    intro acc ts v r hs ha h
    unfold alterLoop at h
    split at h
    · split at h
      · rename_i x r1 h1
        have hc := cv_pAlterExpr (hs.drop 1) h1
        exact ih _ r1 v r ((hs.drop 1).of_cons (cons_pAlterExpr d f _ _ _ h1)) (by simpa using ha.append hc) h
      · cases h
    · obtain ⟨rfl, rfl⟩ := ret2 h; exact ha

theorem cv_pAlter {T ts r : List Tok} {v : Stmt} (hs : Sub T ts) (h : pAlter d f ts = .ok (v, r)) : CovL d T (exprsStmt v) := by
  unfold pAlter at h
  split at h
  · cases h
  · rename_i r0 hm
    have hs0 : Sub T r0 := hs.of_cons (matchSeq_cons _ _ _ _ hm)
    split at h
    · cases h
    · rename_i t r1 ht
      have hs1 : Sub T r1 := hs0.of_cons (cons_pTblName _ _ _ ht)
      split at h
      · cases h
      · rename_i x r2 hx
        have c := cv_pAlterExpr hs1 hx
        split at h
        · rename_i xs r3 hl
          obtain ⟨rfl, rfl⟩ := ret2 h
          simpa [exprsStmt] using cv_alterLoop _ [x] r2 xs r3 (hs1.of_cons (cons_pAlterExpr d f _ _ _ hx)) (by simpa using c) hl
        · cases h

theorem cv_pShowColumns {T ts r : List Tok} {v : Stmt} (hs : Sub T ts) (h : pShowColumns d f ts = .ok (v, r)) : CovL d T (exprsStmt v) := by
  unfold pShowColumns at h
  split at h
  · cases h
  · rename_i r0 hm
    have hs0 : Sub T r0 := hs.of_cons (matchSeq_cons _ _ _ _ hm)
    split at h
    · cases h
    · rename_i fr r1 hf
      have hs1 : Sub T r1 := hs0.of_cons (cons_pFromClause d f _ _ _ hf)
      have cf : CovL d T (exprsFs fr) := by
        unfold pFromClause at hf
        split at hf
        · cases hf
        · rename_i r0' hm'
          have hs0' : Sub T r0' := hs0.of_cons (matchKw_cons _ _ _ _ hm')
          split at hf
          · cases hf
          · rename_i t r1' ht
            have ct := (cv_all d f).pFromTable T r0' t r1' hs0' ht
            exact (cv_all d f).pFromTables T [t] r1' fr r1 (hs0'.of_cons (PM.pFromTable_consumes d f _ t r1' ht))
              (by simpa [exprsFs] using ct) hf
      split at h
      · rename_i wh r2 hw
        obtain ⟨rfl, rfl⟩ := ret2 h
        simp only [exprsStmt]
        exact cf.append ((cv_all d f).pOptOr T _ r1 wh r2 hs1 hw)
      · cases h

/-- statements without expressions -/
theorem nil_pSet {ts r : List Tok} {v : Stmt} (h : pSet ts = .ok (v, r)) : exprsStmt v = [] := by
  unfold pSet at h
  repeat' split at h
  all_goals (cases h <;> simp [exprsStmt])
theorem nil_pDropTable {ts r : List Tok} {v : Stmt} (h : pDropTable ts = .ok (v, r)) : exprsStmt v = [] := by
  unfold pDropTable at h
  repeat' split at h
  all_goals (cases h <;> simp [exprsStmt])
theorem nil_pMsck {ts r : List Tok} {v : Stmt} (h : pMsck ts = .ok (v, r)) : exprsStmt v = [] := by
  unfold pMsck pKwTable at h
  repeat' split at h
  all_goals (cases h <;> simp [exprsStmt])
theorem nil_pTruncate {ts r : List Tok} {v : Stmt} (h : pTruncate ts = .ok (v, r)) : exprsStmt v = [] := by
  unfold pTruncate pKwTable at h
  repeat' split at h
  all_goals (cases h <;> simp [exprsStmt])
theorem nil_pUse {ts r : List Tok} {v : Stmt} (h : pUse ts = .ok (v, r)) : exprsStmt v = [] := by
  unfold pUse at h
  repeat' split at h
  all_goals (cases h <;> simp [exprsStmt])

/-- **every statement**: `pStatement` (one iteration of `parse_statements`) -/
theorem cv_pStatement {T ts r : List Tok} {v : Stmt} (hs : Sub T ts) (h : pStatement d f ts = .ok (v, r)) : CovL d T (exprsStmt v) := by
  unfold pStatement at h
  peel
  · rw [nil_pSet h]; exact .nil
  peel
  · exact cv_pDelete hs h
  peel
  · rw [nil_pDropTable h]; exact .nil
  peel
  · exact cv_pCreateTable hs h
  peel
  · exact cv_pAnalyze hs h
  peel
  · exact cv_pAlter hs h
  peel
  · rw [nil_pMsck h]; exact .nil
  peel
  · rw [nil_pUse h]; exact .nil
  peel
  · rw [nil_pTruncate h]; exact .nil
  peel
  · obtain ⟨rfl, rfl⟩ := ret2 h; simpa [exprsStmt] using CovL.nil
  peel
  · obtain ⟨rfl, rfl⟩ := ret2 h; simpa [exprsStmt] using CovL.nil
  peel
  · exact cv_pShowColumns hs h
  · split at h
    · cases h
    · rename_i withs r0 hw
      have cw := (cv_all d f).pWith T ts withs r0 hs hw
      have hs0 : Sub T r0 := hs.of_cons (PM.pWith_consumes d f _ withs r0 hw)
      peel
      · split at h
        · rename_i q r1 hq
          obtain ⟨rfl, rfl⟩ := ret2 h
          simpa [exprsStmt] using (cv_all d f).pSelectStmt T (some withs) r0 q r1 hs0 (by simpa [exprsOW] using cw) hq
        · cases h
      peel
      · exact cv_pInsert hs0 (by simpa [exprsOW] using cw) h
      peel
      · exact cv_pUpdate hs0 (by simpa [exprsOW] using cw) h
      · cases h

theorem cv_statementsLoop {T : List Tok} : ∀ (g : Nat) (acc : List Stmt) (ts : List Tok) (v : List Stmt), Sub T ts →
    (∀ s ∈ acc, CovL d T (exprsStmt s)) → statementsLoop d f g acc ts = .ok v → ∀ s ∈ v, CovL d T (exprsStmt s) := by
  intro g
  induction g with
  | zero => intro acc ts v _ _ h; simp [statementsLoop] at h
  | succ g ih =>
    intro acc ts v hs ha h
    unfold statementsLoop at h
    split at h
    · simp only [Except.ok.injEq] at h; exact h ▸ ha
    · split at h
      · cases h
      · rename_i s r hst
        have c := cv_pStatement hs hst
        refine ih _ _ v ((hs.of_cons (cons_pStatement d f _ _ _ hst)).of_cons (moveStr_sfx _ _)) ?_ h
        intro x hx
        simp only [List.mem_append, List.mem_cons, List.not_mem_nil, or_false] at hx
        rcases hx with hx | rfl
        · exact ha x hx
        · exact c

end WNG
