import MsqProofs.Lemmas.LexLinkPrint
import MsqProofs.Lemmas.TSelect0
/-!
# The lexer link for the single SELECT, lexer side

What the SELECT printer emits beyond expressions: the line break between clauses (dropped like a blank), the comma of
lists (`a, b`: directly after a token, followed by a blank), the clause keywords and the words of every join type of
`Gen.joinTypes` (decided on the regenerated tables), bare aliases (plain names: also those beginning with `b B x X`,
which the lexer first suspects to be a bit / hex literal), back-quoted table names, the decimal numerals of `LIMIT`.
-/
set_option linter.unusedVariables false
set_option linter.unusedSimpArgs false
namespace LexLink
open Lex Spec C05 C06 C09 Ast TP TS

/-! ## separators -/

theorem step_newline (T r : List Char) (n : Nat) (stk : List (List Tok)) :
    runTail Gen.cfgS T ('\n' :: r) ⟨n, n, .WAIT, stk⟩ = runTail Gen.cfgS T r ⟨n + 1, n + 1, .WAIT, stk⟩ := by
  rw [runTail_cons_wait, handle_skip shipped_code (m := ⟨n, n, .WAIT, stk⟩) wait_newline]
  rfl

/-- two texts on consecutive lines -/
theorem Lx.line {a b : List Char} {ta tb : List Tok} (ha : Lx a ta) (hb : Lx b tb) : Lx (a ++ '\n' :: b) (ta ++ tb) := by
  intro T pre rest f fs hT hd
  have e1 : (a ++ '\n' :: b) ++ rest = a ++ ('\n' :: (b ++ rest)) := by simp
  have hT1 : T = pre ++ a ++ ('\n' :: (b ++ rest)) := by rw [hT]; simp
  rw [e1, ha T pre ('\n' :: (b ++ rest)) f fs hT1 (Or.inr ⟨_, Or.inr (Or.inr (Or.inr rfl))⟩), step_newline]
  have hT2 : T = (pre ++ a ++ ['\n']) ++ b ++ rest := by rw [hT]; simp
  have := hb T (pre ++ a ++ ['\n']) rest (f ++ ta) fs hT2 hd
  simp only [List.length_append, List.length_cons, List.length_nil] at this ⊢
  rw [this]
  simp only [List.append_assoc]
  congr 2 <;> omega

theorem wmL_comma : wmL [','] = 0 := by decide +kernel

theorem commaTok_eq : commaTok = .single [','] 0 := by
  simp only [commaTok, opTok_eq]
  have : (",": String).toList = [','] := rfl
  rw [this, wmL_comma]

/-- the comma between tokens: one token of its own, whatever follows -/
theorem feed_comma (T pre rest : List Char) (f : List Tok) (fs : List (List Tok)) (hT : T = pre ++ [','] ++ rest) :
    feedAllWith (handle Gen.cfgS T) [','] ⟨pre.length, pre.length, .WAIT, f :: fs⟩ =
      .ok ⟨pre.length + [','].length, pre.length + [','].length, .WAIT, (f ++ [.single [','] 0]) :: fs⟩ :=
  tk_of_complete [','] [] ',' rfl .WAIT 0 (fun T n stk => rfl) (Or.inr ⟨look (by decide +kernel), rfl⟩) T pre rest f fs hT

/-- two texts separated by `, ` -/
theorem Lx.comma {a b : List Char} {ta tb : List Tok} (ha : Lx a ta) (hb : Lx b tb) :
    Lx (a ++ ',' :: ' ' :: b) (ta ++ commaTok :: tb) := by
  intro T pre rest f fs hT hd
  have e1 : (a ++ ',' :: ' ' :: b) ++ rest = a ++ (',' :: (' ' :: (b ++ rest))) := by simp
  have hT1 : T = pre ++ a ++ (',' :: (' ' :: (b ++ rest))) := by rw [hT]; simp
  rw [e1, ha T pre (',' :: (' ' :: (b ++ rest))) f fs hT1 (Or.inr ⟨_, Or.inr (Or.inr (Or.inl rfl))⟩)]
  have hT2 : T = (pre ++ a) ++ [','] ++ (' ' :: (b ++ rest)) := by rw [hT]; simp
  have hc := feed_comma T (pre ++ a) (' ' :: (b ++ rest)) (f ++ ta) fs hT2
  have e2 : ',' :: (' ' :: (b ++ rest)) = [','] ++ (' ' :: (b ++ rest)) := rfl
  simp only [List.length_append] at hc
  rw [e2, runTail_append_ok hc, step_blank]
  have hT3 : T = (pre ++ a ++ [',', ' ']) ++ b ++ rest := by rw [hT]; simp
  have := hb T (pre ++ a ++ [',', ' ']) rest (f ++ ta ++ [.single [','] 0]) fs hT3 hd
  simp only [List.length_append, List.length_cons, List.length_nil] at this ⊢
  rw [this, commaTok_eq]
  simp only [List.append_assoc, List.cons_append, List.nil_append]
  congr 2 <;> omega

/-! ## clause keywords, decided on the regenerated tables -/

def clauseWords : List String :=
  ["SELECT", "DISTINCT", "FROM", "ON", "WHERE", "GROUP", "BY", "HAVING", "ORDER", "DESC", "LIMIT", "AS"]
theorem clause_words_lex : clauseWords.all (fun k => lxIs k.toList (ctok k.toList)) = true := by decide +kernel
/-- every word of every join-type phrase of the regenerated table -/
theorem join_words_lex : Gen.joinTypes.all (fun e => e.2.all fun w => lxIs w.toList (ctok w.toList)) = true := by
  decide +kernel

theorem lx_cw (k : String) (hk : k ∈ clauseWords) : Lx k.toList [opTok k] := by
  rw [opTok_eq]; exact lx_of_is ((List.all_eq_true.mp clause_words_lex) k hk)

/-! ## plain names as bare words (aliases) -/

/-- `[A-Za-z0-9_]` -/
def alnumU (c : Char) : Bool := c.isAlphanum || c == '_'
/-- `PR.isPlainName` on character lists -/
def plainL : List Char → Bool
  | [] => false
  | c :: r => (c.isAlpha || c == '_') && r.all alnumU

/-- the same class on codes -/
def alnumN (n : Nat) : Bool :=
  (Nat.ble 65 n && Nat.ble n 90) || (Nat.ble 97 n && Nat.ble n 122) || (Nat.ble 48 n && Nat.ble n 57) || Nat.beq n 95

theorem alnumU_code (c : Char) (h : alnumU c = true) : alnumN c.toNat = true ∧ c.toNat < 128 := by
  have key : (65 ≤ c.toNat ∧ c.toNat ≤ 90) ∨ (97 ≤ c.toNat ∧ c.toNat ≤ 122) ∨ (48 ≤ c.toNat ∧ c.toNat ≤ 57) ∨ c.toNat = 95 := by
    simp only [alnumU, Char.isAlphanum, Char.isAlpha, Char.isUpper, Char.isLower, Char.isDigit, Bool.or_eq_true, Bool.and_eq_true,
      decide_eq_true_eq, ge_iff_le, UInt32.le_iff_toNat_le, beq_iff_eq] at h
    simp only [Char.toNat]
    rcases h with ((h | h) | h) | h
    · exact Or.inl h
    · exact Or.inr (Or.inl h)
    · exact Or.inr (Or.inr (Or.inl h))
    · subst h; exact Or.inr (Or.inr (Or.inr rfl))
  constructor
  · simp only [alnumN, Bool.or_eq_true, Bool.and_eq_true, Nat.ble_eq, Nat.beq_eq]
    rcases key with h | h | h | h
    · exact Or.inl (Or.inl (Or.inl h))
    · exact Or.inl (Or.inl (Or.inr h))
    · exact Or.inl (Or.inr h)
    · exact Or.inr h
  · omega

theorem alphaU_code (c : Char) (h : (c.isAlpha || c == '_') = true) :
    (65 ≤ c.toNat ∧ c.toNat ≤ 90) ∨ (97 ≤ c.toNat ∧ c.toNat ≤ 122) ∨ c.toNat = 95 := by
  simp only [Char.isAlpha, Char.isUpper, Char.isLower, Bool.or_eq_true, Bool.and_eq_true,
    decide_eq_true_eq, ge_iff_le, UInt32.le_iff_toNat_le, beq_iff_eq] at h
  simp only [Char.toNat]
  rcases h with (h | h) | h
  · exact Or.inl h
  · exact Or.inr (Or.inl h)
  · subst h; exact Or.inr (Or.inr rfl)

/-- facts about all of `[A-Za-z0-9_]`, decided below 128 -/
theorem alnum_facts : ∀ n, n < 128 → alnumN n = true →
    isWordChar n = true ∧ cellD 7 .AFTER_B n = some (addTo .IN_WORD) ∧ cellD 7 .AFTER_X n = some (addTo .IN_WORD) := by
  decide +kernel

theorem alnum_wordChar (c : Char) (h : alnumU c = true) : wordChar c = true :=
  (alnum_facts c.toNat (alnumU_code c h).2 (alnumU_code c h).1).1

theorem plainL_head (c : Char) (h : (c.isAlpha || c == '_') = true) : alnumU c = true := by
  simp only [alnumU, Char.isAlphanum, Bool.or_eq_true] at h ⊢
  rcases h with h | h
  · exact Or.inl (Or.inl h)
  · exact Or.inr h

/-- the lexer's word marks are `wmL` on every text that begins with a letter or `_` -/
theorem wordMark_alpha (l : List Char) (h : l.head?.any (fun c => c.isAlpha || c == '_') = true) : C05.wordMark l = wmL l := by
  cases hf : Gen.wordMarks.find? (fun e => e.1.toList == Gen.pyUpper l) with
  | some p => exact wordMark_found l (by rw [hf]; rfl)
  | none =>
    simp only [C05.wordMark, resolveMarks, wmL]
    show (match Gen.wordMarks.find? (fun e => e.1.toList == Gen.pyUpper l) with | some e => e.2 | none => _) = _
    rw [hf]
    simp [h]

/-- a pending word in `IN_WORD` whose window is `w`: it ends at every delimiter and at the end of the text -/
theorem lx_of_inword (w : List Char)
    (hrun : ∀ (T : List Char) (n : Nat) (stk : List (List Tok)),
      feedAllWith (handle Gen.cfgS T) w ⟨n, n, .WAIT, stk⟩ = .ok ⟨n, n + w.length, .IN_WORD, stk⟩) :
    Lx w [.single w (C05.wordMark w)] := by
  have hd1 : ∀ (d : Char), endsWord d = true → Tk w (.single w (C05.wordMark w)) d := by
    intro d hdd
    have := tk_of_pending w .IN_WORD d emitWordBefore hrun (word_stop d hdd) (by decide) (by decide)
    simpa [endTok, C05.wordMark, Gen.mark_NAME] using this
  refine Lx.of_tk (hd1 ' ' (by decide +kernel)) (hd1 ')' (by decide +kernel)) (hd1 ',' (by decide +kernel))
    (hd1 '\n' (by decide +kernel)) (tkEnd_of_pending w _ fun T pre f fs hT => ⟨.IN_WORD, hrun T _ _, ?_⟩)
  have he : Gen.cfgS.lookup .IN_WORD .eof = some emitWordAtEnd := lookEnd (by decide +kernel)
  rw [handle_emitWordAtEnd shipped_code (m := ⟨pre.length, pre.length + w.length, .IN_WORD, f :: fs⟩) he rfl]
  have hwin : win T ⟨pre.length, pre.length + w.length, .IN_WORD, f :: fs⟩ (pre.length + w.length) = w := by
    have := win_mid pre w [] (pre.length + w.length) .IN_WORD (f :: fs)
    rw [hT]; simpa using this
  rw [hwin]; rfl

/-- the one-letter names `b B x X` -/
theorem lx_bx (c : Char) (hc : c = 'b' ∨ c = 'B' ∨ c = 'x' ∨ c = 'X') : Lx [c] [.single [c] Gen.mark_NAME] := by
  have hp : ∃ p, (p = S.AFTER_B ∨ p = S.AFTER_X) ∧ addPath .WAIT [c] = some p := by
    rcases hc with rfl | rfl | rfl | rfl
    · exact ⟨.AFTER_B, Or.inl rfl, by decide +kernel⟩
    · exact ⟨.AFTER_B, Or.inl rfl, by decide +kernel⟩
    · exact ⟨.AFTER_X, Or.inr rfl, by decide +kernel⟩
    · exact ⟨.AFTER_X, Or.inr rfl, by decide +kernel⟩
  obtain ⟨p, hpp, hap⟩ := hp
  have hd1 : ∀ (d : Char), (d = ' ' ∨ d = ')' ∨ d = ',' ∨ d = '\n') → Tk [c] (.single [c] Gen.mark_NAME) d := by
    intro d hdd
    have hl : Gen.cfgS.lookup p (.ch d) = some (emitBefore mName) := by
      rcases hpp with rfl | rfl <;> rcases hdd with rfl | rfl | rfl | rfl <;> exact look (by decide +kernel)
    have := tk_of_pending [c] p d (emitBefore mName) (fun T n stk => addPath_run T [c] .WAIT p hap n n stk) hl (by decide)
      (by decide)
    simpa [endTok, emitBefore, emitWordBefore, emitWordAtEnd, mName] using this
  refine Lx.of_tk (hd1 ' ' (Or.inl rfl)) (hd1 ')' (Or.inr (Or.inl rfl))) (hd1 ',' (Or.inr (Or.inr (Or.inl rfl))))
    (hd1 '\n' (Or.inr (Or.inr (Or.inr rfl)))) (tkEnd_of_pending [c] _ fun T pre f fs hT => ⟨p, addPath_run T [c] .WAIT p hap _ _ _, ?_⟩)
  have he : Gen.cfgS.lookup p .eof = some (emitAtEnd mName) := by
    rcases hpp with rfl | rfl <;> exact lookEnd (by decide +kernel)
  rw [handle_emitAtEnd shipped_code (m := ⟨pre.length, pre.length + [c].length, p, f :: fs⟩) he rfl]
  have hwin : win T ⟨pre.length, pre.length + [c].length, p, f :: fs⟩ (pre.length + [c].length) = [c] := by
    have := win_mid pre [c] [] (pre.length + [c].length) p (f :: fs)
    rw [hT]; simpa using this
  rw [hwin]; rfl

theorem wmL_bx : wmL ['b'] = Gen.mark_NAME ∧ wmL ['B'] = Gen.mark_NAME ∧ wmL ['x'] = Gen.mark_NAME ∧ wmL ['X'] = Gen.mark_NAME := by
  decide +kernel

/-- **a plain name as a bare word** lexes to one token with the marks `TP.opTok` gives it (the keyword table's, else NAME) -/
theorem lx_plain (a : List Char) (h : plainL a = true) : Lx a [.single a (wmL a)] := by
  cases a with
  | nil => cases h
  | cons c r =>
    simp only [plainL, Bool.and_eq_true, List.all_eq_true] at h
    have hhead : (c :: r).head?.any (fun c => c.isAlpha || c == '_') = true := by simpa using h.1
    have hwm := wordMark_alpha (c :: r) hhead
    by_cases hbx : c = 'b' ∨ c = 'B' ∨ c = 'x' ∨ c = 'X'
    · cases r with
      | nil =>
        have := lx_bx c hbx
        have hm : wmL [c] = Gen.mark_NAME := by
          rcases hbx with rfl | rfl | rfl | rfl
          · exact wmL_bx.1
          · exact wmL_bx.2.1
          · exact wmL_bx.2.2.1
          · exact wmL_bx.2.2.2
        rw [hm]; exact this
      | cons y r' =>
        rw [← hwm]
        refine lx_of_inword (c :: y :: r') fun T n stk => ?_
        have hp : ∃ p, (p = S.AFTER_B ∨ p = S.AFTER_X) ∧ Gen.cfgS.lookup .WAIT (.ch c) = some (addTo p) := by
          rcases hbx with rfl | rfl | rfl | rfl
          · exact ⟨.AFTER_B, Or.inl rfl, look (by decide +kernel)⟩
          · exact ⟨.AFTER_B, Or.inl rfl, look (by decide +kernel)⟩
          · exact ⟨.AFTER_X, Or.inr rfl, look (by decide +kernel)⟩
          · exact ⟨.AFTER_X, Or.inr rfl, look (by decide +kernel)⟩
        obtain ⟨p, hpp, hl1⟩ := hp
        have hy := alnumU_code y (h.2 y (by simp))
        have hf := alnum_facts y.toNat hy.2 hy.1
        have hl2 : Gen.cfgS.lookup p (.ch y) = some (addTo .IN_WORD) := by
          rcases hpp with rfl | rfl
          · exact look hf.2.1
          · exact look hf.2.2
        have e1 := handle_addTo shipped_code (text := T) (m := ⟨n, n, .WAIT, stk⟩) hl1
        have e2 := handle_addTo shipped_code (text := T) (m := ⟨n, n + 1, p, stk⟩) hl2
        rw [feedAllWith_cons_adv e1, feedAllWith_cons_adv e2,
          feedAll_loop shipped_code (fun c => wordChar c = true) word_next r'
            (fun x hx => alnum_wordChar x (h.2 x (by simp [hx])))]
        simp only [List.length_cons]; congr 2; omega
    · -- an ordinary word
      have hsw : startsWord c = true := by
        have hc := alnumU_code c (plainL_head c h.1)
        have hwc := (alnum_facts c.toNat hc.2 hc.1).1
        have hnd : isDigit c.toNat = false := by
          have hr := alphaU_code c h.1
          have h0 : '0'.toNat = 48 := by decide
          have h9 : '9'.toNat = 57 := by decide
          cases hd : isDigit c.toNat with
          | false => rfl
          | true =>
            simp only [isDigit, between, Bool.and_eq_true, Nat.ble_eq, h0, h9] at hd
            omega
        have hnb : isBitPrefix c.toNat = false ∧ isHexPrefix c.toNat = false := by
          simp only [isBitPrefix, isHexPrefix, isCh_toNat, Bool.or_eq_false_iff, decide_eq_false_iff_not]
          exact ⟨⟨fun e => hbx (Or.inl e), fun e => hbx (Or.inr (Or.inl e))⟩,
            ⟨fun e => hbx (Or.inr (Or.inr (Or.inl e))), fun e => hbx (Or.inr (Or.inr (Or.inr e)))⟩⟩
        simp [startsWord, hwc, hnd, hnb.1, hnb.2]
      have hw : isWord (c :: r) = true := by
        simp only [isWord, Bool.and_eq_true, List.all_eq_true]
        exact ⟨hsw, fun x hx => alnum_wordChar x (h.2 x hx)⟩
      rw [← hwm]; exact lx_word (c :: r) hw

/-! ## numerals -/

theorem lx_numeral (v : String) (hne : v.toList ≠ []) (hd : ∀ x ∈ v.toList, isDigit x.toNat = true) : Lx v.toList [litTok v] := by
  have hdig : isDigits v = true := by
    simp only [isDigits, Bool.and_eq_true, Bool.not_eq_eq_eq_not, Bool.not_true, List.isEmpty_eq_false_iff, List.all_eq_true]
    exact ⟨hne, fun x hx => by rw [charIsDigit]; exact hd x hx⟩
  have : litTok v = .single v.toList (Gen.mark_LITERAL ||| Gen.mark_LITERAL_INT) := by
    simp [litTok, litMark, hdig, Lex.LITERAL]
  rw [this]; exact lx_int v.toList hne hd

/-- the decimal text of a non-negative integer -/
theorem toString_nonneg (n : Int) (h : 0 ≤ n) :
    (toString n).toList ≠ [] ∧ ∀ x ∈ (toString n).toList, isDigit x.toNat = true := by
  obtain ⟨m, rfl⟩ := Int.eq_ofNat_of_zero_le h
  have e : toString (m : Int) = m.repr := rfl
  rw [e, Nat.toList_repr]
  exact ⟨Nat.toDigits_ne_nil, fun x hx => by rw [← charIsDigit]; exact Nat.isDigit_of_mem_toDigits (by decide) (by decide) hx⟩

theorem lx_intTok (n : Int) (h : 0 ≤ n) : Lx (toString n).toList [intTok n] :=
  lx_numeral (toString n) (toString_nonneg n h).1 (toString_nonneg n h).2

end LexLink
