import MsqProofs.Lemmas.LexRetain2Defs
/-!
# Retention under every option setting (C04 d) — the simulation

`R m μ nx := mrendS m.stack ++ (the pending window, unless it is going to be erased)` — the marked rendering of
everything on the frame stack plus the window, where the window counts as erased (`pd`) when comments are ignored and
the scanner is inside a comment or has just read the first character of `--` / `/*` (`nx`: the next character) — grows
with every character fed by exactly what `Scan.eraseA` prescribes for that character.  The per-cell facts come from
the finite obligation `retCheck` (kernel-decided per generated table, `Oblig/RetCfg*.lean`), the correspondence of
lexer states and scanner modes from `simCheck` (`LexScan.lean`), the window facts from `Inv2` (`LexLossless.lean`).
-/
namespace Lex
open Scan Spec

/-! ## marked rendering -/

theorem msrcL_append (a b : List Tok) : msrcL (a ++ b) = msrcL a ++ msrcL b := by
  induction a with
  | nil => rfl
  | cons t ts ih => simp [msrcL, ih]

theorem mrendS_top_single (f : List Tok) (fs : List (List Tok)) (s : List Char) (k : Nat) :
    mrendS ((f ++ [.single s k]) :: fs) = mrendS (f :: fs) ++ s.map .ch := by
  cases fs <;> simp [mrendS, msrcL_append, msrcL, Tok.msrc]

theorem mrendS_push (g : List Tok) (rest : List (List Tok)) :
    mrendS ([] :: g :: rest) = mrendS (g :: rest) ++ [.ev .opn] := by
  simp [mrendS, msrcL]

theorem mrendS_pop (f g : List Tok) (rest : List (List Tok)) (k : GK) (mk : Nat) :
    mrendS ((g ++ [.group k f mk]) :: rest) = mrendS (f :: g :: rest) ++ [.ev (.cls k)] := by
  cases rest <;> simp [mrendS, msrcL_append, msrcL, Tok.msrc]

mutual
theorem Tok.msrc_round : ∀ t : Tok, (Tok.msrc t).map MC.round = Tok.source t
  | .single s _ => by
    simp only [Tok.msrc, Tok.source, List.map_map]
    induction s with
    | nil => rfl
    | cons c cs ih => simpa [MC.round] using ih
  | .group k cs _ => by simp [Tok.msrc, Tok.source, MC.round, msrcL_round cs]
theorem msrcL_round : ∀ ts : List Tok, (msrcL ts).map MC.round = sourceL ts
  | [] => rfl
  | t :: ts => by simp [msrcL, sourceL, Tok.msrc_round t, msrcL_round ts]
end

mutual
theorem Tok.msrc_skel : ∀ t : Tok, (Tok.msrc t).filterMap MC.ev? = skelT t
  | .single s _ => by
    simp only [Tok.msrc, skelT, List.filterMap_map]
    induction s with
    | nil => rfl
    | cons c cs ih => simpa [List.filterMap_cons, MC.ev?] using ih
  | .group k cs _ => by simp [Tok.msrc, skelT, MC.ev?, List.filterMap_append, msrcL_skel cs]
theorem msrcL_skel : ∀ ts : List Tok, (msrcL ts).filterMap MC.ev? = skelL ts
  | [] => rfl
  | t :: ts => by simp [msrcL, skelL, List.filterMap_append, Tok.msrc_skel t, msrcL_skel ts]
end

mutual
theorem Tok.msrc_leaves : ∀ t : Tok, (Tok.msrc t).filterMap MC.ch? = (leaves t).flatten
  | .single s _ => by
    simp only [Tok.msrc, leaves, List.filterMap_map, List.flatten_cons, List.flatten_nil, List.append_nil]
    induction s with
    | nil => rfl
    | cons c cs ih => simpa [List.filterMap_cons, MC.ch?] using ih
  | .group k cs _ => by
    simp only [Tok.msrc, leaves, List.filterMap_cons, MC.ch?, List.filterMap_append, msrcL_leaves cs]
    simp
theorem msrcL_leaves : ∀ ts : List Tok, (msrcL ts).filterMap MC.ch? = (leavesL ts).flatten
  | [] => rfl
  | t :: ts => by simp [msrcL, leavesL, List.filterMap_append, Tok.msrc_leaves t, msrcL_leaves ts]
end

/-- what one summarised operation does to position and marked rendering -/
theorem execCore_mrend (env : Env) (ss : S) (sm : Nat) (adv : Bool) (body : Body) (grp : Grp) (st : St) (ret : Bool)
    (m m' : Mem) (b : Bool) (h : execCore env ss sm adv body grp st ret m = .ok (m', b)) (hne : m.stack ≠ []) :
    m'.now = (if adv then m.now + 1 else m.now) ∧
    (body = .keep → grp = .none → m'.start = m.start ∧ mrendS m'.stack = mrendS m.stack) ∧
    (∀ mk, body = .emit mk → grp = .none → m'.start = m'.now ∧
      mrendS m'.stack = mrendS m.stack ++ ((env.text.drop m.start).take (m'.now - m.start)).map .ch) ∧
    (body = .drop → grp = .none → m'.start = m'.now ∧ mrendS m'.stack = mrendS m.stack) ∧
    (body = .drop → grp = .push → m'.start = m'.now ∧ mrendS m'.stack = mrendS m.stack ++ [.ev .opn]) ∧
    (∀ k mk, body = .drop → grp = .pop k mk → m'.start = m'.now ∧ mrendS m'.stack = mrendS m.stack ++ [.ev (.cls k)]) := by
  cases hst : m.stack with
  | nil => exact absurd hst hne
  | cons f fs =>
    unfold execCore at h
    rw [hst] at h
    cases body <;> cases grp <;> simp only [appendTop] at h
    case keep.none | drop.none | emit.none =>
      simp only [Except.ok.injEq, Prod.mk.injEq] at h
      obtain ⟨rfl, rfl⟩ := h
      simp [mrendS_top_single]
    case keep.push | drop.push | emit.push =>
      simp only [Except.ok.injEq, Prod.mk.injEq] at h
      obtain ⟨rfl, rfl⟩ := h
      simp [mrendS_push]
    case keep.pop k mk | drop.pop k mk | emit.pop k mk =>
      cases fs with
      | nil => simp at h
      | cons g rest =>
        simp only [Except.ok.injEq, Prod.mk.injEq] at h
        obtain ⟨rfl, rfl⟩ := h
        simp [mrendS_pop]

/-! ## effects of the abstract actions, and soundness of the cell checks (pure list facts) -/

/-- rendering `R`, window `W1` (after a possible advance) before, rendering `R'`, window `W'` after an action -/
def EffL (a : Act) (R R' : List MC) (W1 W' : List Char) : Prop :=
  match a with
  | .keep => R' = R ∧ W' = W1
  | .emit => R' = R ++ W1.map .ch ∧ W' = []
  | .drop => R' = R ∧ W' = []
  | .br e => R' = R ++ [.ev e] ∧ W' = []
  | .bad => True

/-- the visible part of the pending window -/
def V (d : Bool) (W : List Char) : List MC := if d then [] else W.map .ch

theorem stepOK_sound (a : Act) (empty d d' : Bool) (o : OutK) (c : Char) (R R' : List MC) (W W' : List Char)
    (hE : EffL a R R' (W ++ [c]) W') (hemp : empty = true → W = []) (hok : stepOK empty a d d' o = true) :
    R' ++ V d' W' = R ++ V d W ++ o.out c := by
  cases a with
  | bad => simp [stepOK] at hok
  | keep =>
    obtain ⟨rfl, rfl⟩ := hE
    simp only [stepOK, Bool.and_eq_true, Bool.or_eq_true, beq_iff_eq] at hok
    obtain ⟨h1, rfl⟩ := hok
    rcases h1 with rfl | h1
    · cases d <;> simp [V, OutK.out]
    · have := hemp h1; subst this
      cases d <;> cases d' <;> simp [V, OutK.out]
  | emit =>
    obtain ⟨rfl, rfl⟩ := hE
    simp only [stepOK, Bool.and_eq_true, Bool.or_eq_true, beq_iff_eq, Bool.not_eq_eq_eq_not, Bool.not_true] at hok
    obtain ⟨h1, rfl⟩ := hok
    rcases h1 with rfl | h1
    · cases d' <;> simp [V, OutK.out]
    · have := hemp h1; subst this
      cases d <;> cases d' <;> simp [V, OutK.out]
  | drop =>
    obtain ⟨rfl, rfl⟩ := hE
    simp only [stepOK, Bool.and_eq_true, Bool.or_eq_true, beq_iff_eq] at hok
    obtain ⟨h1, rfl⟩ := hok
    rcases h1 with rfl | h1
    · cases d' <;> simp [V, OutK.out]
    · have := hemp h1; subst this
      cases d <;> cases d' <;> simp [V, OutK.out]
  | br e =>
    obtain ⟨rfl, rfl⟩ := hE
    simp only [stepOK, Bool.and_eq_true, beq_iff_eq] at hok
    obtain ⟨h1, rfl⟩ := hok
    have := hemp h1; subst this
    cases d <;> cases d' <;> simp [V, OutK.out]

theorem firstOK_sound (a : Act) (empty d e1 : Bool) (R R' : List MC) (W W' : List Char)
    (hE : EffL a R R' W W') (hemp : empty = true → W = []) (hok : firstOK empty a d = some e1) :
    R' ++ V d W' = R ++ V d W ∧ (e1 = true → W' = []) := by
  cases a with
  | bad => simp [firstOK] at hok
  | br e => simp [firstOK] at hok
  | keep =>
    obtain ⟨rfl, rfl⟩ := hE
    simp only [firstOK, Option.some.injEq] at hok
    subst hok
    exact ⟨rfl, hemp⟩
  | emit =>
    obtain ⟨rfl, rfl⟩ := hE
    simp only [firstOK] at hok
    split at hok
    · rename_i h1
      simp only [Bool.or_eq_true, Bool.not_eq_eq_eq_not, Bool.not_true] at h1
      refine ⟨?_, fun _ => rfl⟩
      rcases h1 with rfl | h1
      · simp [V]
      · have := hemp h1; subst this
        cases d <;> simp [V]
    · cases hok
  | drop =>
    obtain ⟨rfl, rfl⟩ := hE
    simp only [firstOK] at hok
    split at hok
    · rename_i h1
      simp only [Bool.or_eq_true] at h1
      refine ⟨?_, fun _ => rfl⟩
      rcases h1 with rfl | h1
      · simp [V]
      · have := hemp h1; subst this
        cases d <;> simp [V]
    · cases hok

/-! ## the run -/

section run
variable (cfg : Cfg Gen.Cls) (advSt : List S) (wk : S → WK) (text : List Char) (ig : Ign)
  (hT : TableOK cfg advSt wk = true) (hsum : ∀ c, (summarize (cfg.code c)).isSome = true)
  (hret : retCheck ig cfg = true)

/-- rendering plus the visible part of the pending window -/
def RV (m : Mem) (μ : Mode) (nx : Option Nat) : List MC :=
  mrendS m.stack ++ V (pd ig μ nx) (curWin text m)

include hsum in
/-- one `handle` call: its abstract description and its effect -/
theorem handle_eff (m m' : Mem) (sym : Sym) (b : Bool) (hne : m.stack ≠ [])
    (h : handle cfg text m sym = .ok (m', b)) :
    ∃ adv a, hInfoOp cfg m.status (cfg.lookup m.status sym) = some (m'.status, b, adv, a) ∧ m'.stack ≠ [] ∧
      m'.now = (if adv then m.now + 1 else m.now) ∧
      EffL a (mrendS m.stack) (mrendS m'.stack) ((text.drop m.start).take (m'.now - m.start)) (curWin text m') := by
  cases ho : cfg.lookup m.status sym with
  | none => simp [handle, ho] at h
  | some o =>
    cases hs : summarize (cfg.code o.cls) with
    | none => have := hsum o.cls; rw [hs] at this; cases this
    | some sm =>
      rw [handle_eq cfg text m _ o sm ho hs] at h
      obtain ⟨hr, h⟩ := execS_ok _ _ _ sm m m' b h
      obtain ⟨a1, _, a3, a4⟩ := execCore_skel _ _ _ _ _ _ _ _ _ _ _ h hne
      obtain ⟨hnow, r1, r2, r3, r4, r5⟩ := execCore_mrend _ _ _ _ _ _ _ _ _ _ _ h hne
      refine ⟨sm.adv, actOf sm, by simp [hInfoOp, hs, hr, a3, a4], a1, hnow, ?_⟩
      have hcw0 : m'.start = m'.now → curWin text m' = [] := by
        intro hs'; unfold curWin; rw [hs']; simp
      cases hb : sm.body with
      | keep =>
        cases hg : sm.grp with
        | none =>
          obtain ⟨s1, s2⟩ := r1 hb hg
          simp only [actOf, hb, hg, EffL]
          exact ⟨s2, by unfold curWin; rw [s1]⟩
        | push => simp [actOf, hb, hg, EffL]
        | pop k' mk' => simp [actOf, hb, hg, EffL]
      | emit mk =>
        cases hg : sm.grp with
        | none =>
          obtain ⟨s1, s2⟩ := r2 mk hb hg
          simp only [actOf, hb, hg, EffL]
          exact ⟨by simpa [Cfg.env] using s2, hcw0 s1⟩
        | push => simp [actOf, hb, hg, EffL]
        | pop k' mk' => simp [actOf, hb, hg, EffL]
      | drop =>
        cases hg : sm.grp with
        | none =>
          obtain ⟨s1, s2⟩ := r3 hb hg
          simp only [actOf, hb, hg, EffL]
          exact ⟨s2, hcw0 s1⟩
        | push =>
          obtain ⟨s1, s2⟩ := r4 hb hg
          simp only [actOf, hb, hg, EffL]
          exact ⟨s2, hcw0 s1⟩
        | pop k' mk' =>
          obtain ⟨s1, s2⟩ := r5 k' mk' hb hg
          simp only [actOf, hb, hg, EffL]
          exact ⟨s2, hcw0 s1⟩

theorem retCheck.cell {ig : Ign} {cfg : Cfg Gen.Cls} (h : retCheck ig cfg = true) (s : S) (μ : Mode) (hμ : μ ∈ rho s)
    (n : Nat) : cellOK ig cfg s μ (norm n) = true := by
  have hs := (List.all_eq_true.mp h) s (mem_allS s)
  have hm := (List.all_eq_true.mp hs) μ hμ
  simp only [Bool.and_eq_true, List.all_eq_true] at hm
  exact hm.1 (norm n) (norm_mem n)

theorem retCheck.eof {ig : Ign} {cfg : Cfg Gen.Cls} (h : retCheck ig cfg = true) (s : S) (μ : Mode) (hμ : μ ∈ rho s) :
    eofOK2 ig cfg s μ = true := by
  have hs := (List.all_eq_true.mp h) s (mem_allS s)
  have hm := (List.all_eq_true.mp hs) μ hμ
  simp only [Bool.and_eq_true] at hm
  exact hm.2

theorem curWin_empty (m : Mem) (h : m.start = m.now) : curWin text m = [] := by
  unfold curWin; rw [h]; simp

include hT hsum hret in
/-- one character with the driver's retry -/
theorem feed_mrend (hnorm : ∀ s n, lookupN cfg s n = lookupN cfg s (norm n)) (hcheck : simCheck cfg = true)
    (m m' : Mem) (c : Char) (rest : List Char) (segs : List Seg) (μ : Mode)
    (hinv : Inv2 cfg wk text m segs) (hc : text.drop m.now = c :: rest) (hne : m.stack ≠ []) (hμ : μ ∈ rho m.status)
    (h : feed cfg text m c = .ok m') :
    ∃ segs', Inv2 cfg wk text m' segs' ∧ m'.now = m.now + 1 ∧ m'.stack ≠ [] ∧
      (step μ (norm c.toNat)).1 ∈ rho m'.status ∧
      ∀ nx, RV text ig m' (step μ (norm c.toNat)).1 nx =
        RV text ig m μ (some (norm c.toNat)) ++ (outK ig (classOf μ (norm c.toNat) nx)).out c := by
  obtain ⟨segsF, hiF, hnF⟩ := feed_inv cfg advSt wk text hT m m' c rest segs hinv hc h
  obtain ⟨e, htr, _, hneF⟩ := feedWith_skel' cfg hsum text m m' c h hne
  obtain ⟨_, hμ'⟩ := step_sim cfg hnorm hcheck m.status m'.status μ hμ c e htr
  refine ⟨segsF, hiF, hnF, hneF, hμ', ?_⟩
  have hcell := retCheck.cell hret m.status μ hμ c.toNat
  have hemp : isEmptySt cfg m.status = true → curWin text m = [] := fun he =>
    curWin_empty text m (hinv.emptyWin he)
  unfold feed feedWith at h
  cases e1 : handle cfg text m (.ch c) with
  | error x => rw [e1] at h; cases h
  | ok x =>
    rw [e1] at h
    obtain ⟨m1, b1⟩ := x
    obtain ⟨adv1, a1, hi1, hn1, hnow1, heff1⟩ := handle_eff cfg text hsum m m1 (.ch c) b1 hne e1
    rw [lookup_ch, hnorm] at hi1
    obtain ⟨segs1, hinv1, hnowb1, _⟩ := handle_char_inv cfg advSt wk text hT m m1 c rest b1 segs hinv hc e1
    simp only [cellOK, hInfo, lookupF_eq, hi1] at hcell
    cases b1 with
    | true =>
      simp only [Except.ok.injEq] at h
      subst h
      simp only [if_true, Bool.and_eq_true, List.all_eq_true] at hcell hnowb1
      obtain ⟨hadv, hall⟩ := hcell
      subst hadv
      simp only [if_true] at hnow1
      intro nx
      have hok := hall (canonNx nx) (canonNx_mem nx)
      rw [← pd_canon, ← classOf_canon] at hok
      rw [hnow1, window_snoc text m c rest hinv.le hc] at heff1
      have := stepOK_sound a1 _ _ _ _ c _ _ _ _ heff1 hemp hok
      simpa [RV, List.append_assoc] using this
    | false =>
      simp only [Bool.false_eq_true, if_false, Bool.and_eq_true, Bool.not_eq_eq_eq_not, Bool.not_true] at hcell hnowb1
      obtain ⟨hadv, hcell⟩ := hcell
      subst hadv
      simp only [Bool.false_eq_true, if_false] at hnow1
      simp only at h
      cases hf : firstOK (isEmptySt cfg m.status) a1 (pd ig μ (some (norm c.toNat))) with
      | none => rw [hf] at hcell; cases hcell
      | some em1 =>
        rw [hf] at hcell
        simp only at hcell
        have hW1 : (text.drop m.start).take (m1.now - m.start) = curWin text m := by rw [hnow1]; rfl
        rw [hW1] at heff1
        obtain ⟨hR1, hem1⟩ := firstOK_sound a1 _ _ em1 _ _ _ _ heff1 hemp hf
        cases e2 : handle cfg text m1 (.ch c) with
        | error y => rw [e2] at h; cases h
        | ok y =>
          rw [e2] at h
          obtain ⟨m2, b2⟩ := y
          simp only [Except.ok.injEq] at h
          subst h
          have hc1 : text.drop m1.now = c :: rest := by rw [hnow1]; exact hc
          obtain ⟨adv2, a2, hi2, hn2, hnow2, heff2⟩ := handle_eff cfg text hsum m1 m2 (.ch c) b2 hn1 e2
          rw [lookup_ch, hnorm] at hi2
          simp only [hi2, Bool.and_eq_true, List.all_eq_true] at hcell
          obtain ⟨hadv2, hall⟩ := hcell
          subst hadv2
          simp only [if_true] at hnow2
          intro nx
          have hok := hall (canonNx nx) (canonNx_mem nx)
          rw [← pd_canon, ← classOf_canon] at hok
          rw [hnow2, window_snoc text m1 c rest hinv1.le hc1] at heff2
          have hemp1 : (em1 || isEmptySt cfg m1.status) = true → curWin text m1 = [] := by
            intro he
            rcases Bool.or_eq_true_iff.mp he with he | he
            · exact hem1 he
            · exact curWin_empty text m1 (hinv1.emptyWin he)
          have := stepOK_sound a2 _ _ _ _ c _ _ _ _ heff2 hemp1 hok
          simp only [RV]
          rw [this, hR1]

include hT hsum hret in
theorem feedAll_mrend (hnorm : ∀ s n, lookupN cfg s n = lookupN cfg s (norm n)) (hcheck : simCheck cfg = true)
    (cs : List Char) : ∀ (rest : List Char) (m m' : Mem) (segs : List Seg) (μ : Mode),
    Inv2 cfg wk text m segs → text.drop m.now = cs ++ rest → m.stack ≠ [] → μ ∈ rho m.status →
    feedAll cfg text cs m = .ok m' →
    ∃ segs', Inv2 cfg wk text m' segs' ∧ m'.now = m.now + cs.length ∧ m'.stack ≠ [] ∧
      (scanAll μ cs).1 ∈ rho m'.status ∧
      ∀ fin, RV text ig m' (scanAll μ cs).1 fin = RV text ig m μ (nxtOf cs fin) ++ eraseA ig μ cs fin := by
  induction cs with
  | nil =>
    intro rest m m' segs μ hinv _ hne hμ h
    simp only [feedAll, feedAllWith, Except.ok.injEq] at h
    subst h
    exact ⟨segs, hinv, by simp, hne, by simpa [scanAll] using hμ, by simp [scanAll, nxtOf, eraseA]⟩
  | cons c cs ih =>
    intro rest m m' segs μ hinv hcs hne hμ h
    simp only [feedAll, feedAllWith] at h
    cases e1 : feedWith (handle cfg text) m c with
    | error x => rw [e1] at h; cases h
    | ok m1 =>
      rw [e1] at h
      obtain ⟨segs1, hi1, hn1, hne1, hμ1, hR1⟩ :=
        feed_mrend cfg advSt wk text ig hT hsum hret hnorm hcheck m m1 c (cs ++ rest) segs μ hinv
          (by simpa using hcs) hne hμ e1
      have hcs1 : text.drop m1.now = cs ++ rest := by
        rw [hn1, ← List.drop_drop, hcs]; simp
      obtain ⟨segs2, hi2, hn2, hne2, hμ2, hR2⟩ := ih rest m1 m' segs1 _ hi1 hcs1 hne1 hμ1 h
      refine ⟨segs2, hi2, by rw [hn2, hn1]; simp; omega, hne2, by simpa [scanAll] using hμ2, ?_⟩
      intro fin
      have := hR2 fin
      simp only [scanAll]
      rw [this, hR1 (nxtOf cs fin)]
      simp [eraseA, nxtOf, List.append_assoc]

include hsum hret in
/-- the end of the text: nothing is consumed; the pending window is emitted, or dropped if it is to be erased -/
theorem handle_mrend_eof (m m' : Mem) (b : Bool) (segs : List Seg) (μ : Mode) (hinv : Inv2 cfg wk text m segs)
    (hne : m.stack ≠ []) (hμ : μ ∈ rho m.status) (h : handle cfg text m .eof = .ok (m', b)) :
    m'.stack ≠ [] ∧ mrendS m'.stack ++ (curWin text m').map .ch = RV text ig m μ none := by
  obtain ⟨adv, a, hi, hn1, hnow, heff⟩ := handle_eff cfg text hsum m m' .eof b hne h
  refine ⟨hn1, ?_⟩
  have hcell := retCheck.eof hret m.status μ hμ
  have hl : cfg.lookup m.status .eof = cfg.atEnd m.status := rfl
  rw [hl] at hi
  simp only [eofOK2, hi, Bool.and_eq_true, Bool.not_eq_eq_eq_not, Bool.not_true] at hcell
  obtain ⟨hadv, hcell⟩ := hcell
  subst hadv
  simp only [Bool.false_eq_true, if_false] at hnow
  have hW1 : (text.drop m.start).take (m'.now - m.start) = curWin text m := by rw [hnow]; rfl
  rw [hW1] at heff
  have hemp : isEmptySt cfg m.status = true → curWin text m = [] := fun he =>
    curWin_empty text m (hinv.emptyWin he)
  cases a with
  | bad => simp at hcell
  | br e => simp at hcell
  | keep =>
    obtain ⟨e1, e2⟩ := heff
    simp only [Bool.or_eq_true, Bool.not_eq_eq_eq_not, Bool.not_true] at hcell
    rw [e1, e2]
    rcases hcell with hd | he
    · simp [RV, V, hd]
    · simp [RV, V, hemp he]
  | emit =>
    obtain ⟨e1, e2⟩ := heff
    simp only [Bool.or_eq_true, Bool.not_eq_eq_eq_not, Bool.not_true] at hcell
    rw [e1, e2]
    rcases hcell with hd | he
    · simp [RV, V, hd]
    · simp [RV, V, hemp he]
  | drop =>
    obtain ⟨e1, e2⟩ := heff
    simp only [Bool.or_eq_true] at hcell
    rw [e1, e2]
    rcases hcell with hd | he
    · simp [RV, V, hd]
    · simp [RV, V, hemp he]

include hT hsum hret in
/-- **retention under any setting**, generic in the table: for every accepted text, the marked rendering of the token
list is the (pre-processed) text with the characters of the ignored classes removed -/
theorem lex_mretained (hnorm : ∀ s n, lookupN cfg s n = lookupN cfg s (norm n)) (hcheck : simCheck cfg = true)
    (hd : cfg.depthLimit ≤ 1) (raw : List Char) (ts : List Tok) (h : Lex.lex cfg raw = .ok ts) :
    msrcL ts = eraseM ig (cfg.pre raw) := by
  unfold Lex.lex lexWith at h
  simp only at h
  cases e1 : feedAllWith (handle cfg (cfg.pre raw)) (cfg.pre raw) {} with
  | error x => rw [e1] at h; cases h
  | ok m =>
    rw [e1] at h
    simp only at h
    have hinit : Inv2 cfg wk (cfg.pre raw) ({} : Mem) [] :=
      ⟨⟨by simp, by simp [tokTexts, allLeaves, leavesL], Nat.le_refl _⟩, fun _ => rfl,
        by simp [TableOK.wait hT, curWin, WK.claims], by simp [gapTexts]⟩
    obtain ⟨segs1, hi1, hn1, hne1, hμ1, hR1⟩ :=
      feedAll_mrend cfg advSt wk (cfg.pre raw) ig hT hsum hret hnorm hcheck (cfg.pre raw) [] {} m [] .N hinit (by simp)
        (by simp) (by simp [rho]) e1
    cases e2 : handle cfg (cfg.pre raw) m .eof with
    | error y => rw [e2] at h; cases h
    | ok y =>
      rw [e2] at h
      obtain ⟨m', b⟩ := y
      simp only at h
      obtain ⟨segs2, hi2, hn2⟩ := handle_eof_inv cfg advSt wk (cfg.pre raw) hT m m' b segs1 hi1 e2
      obtain ⟨hne2, hR2⟩ := handle_mrend_eof cfg wk (cfg.pre raw) ig hsum hret m m' b segs1 _ hi1 hne1 hμ1 e2
      unfold Lex.finish at h
      split at h
      · cases h
      · rename_i hEnd
        split at h
        · cases h
        · rename_i hlen
          have hs : m'.start = m'.now := hi2.emptyWin (by simp at hEnd; simp [isEmptySt, hEnd])
          have hw : curWin (cfg.pre raw) m' = [] := curWin_empty _ m' hs
          cases hst : m'.stack with
          | nil => exact absurd hst hne2
          | cons f fs =>
            cases fs with
            | nil =>
              rw [hst] at h
              simp only [List.getLast?_singleton, Except.ok.injEq] at h
              subst h
              rw [hst, hw, hR1 none] at hR2
              simpa [mrendS, msrcL, RV, V, curWin, eraseM] using hR2
            | cons g rest => rw [hst] at hlen; simp only [List.length_cons] at hlen; omega

end run

end Lex
