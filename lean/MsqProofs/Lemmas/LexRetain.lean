import MsqProofs.Lemmas.LexLossless
import MsqProofs.Lemmas.LexScan
/-!
# Retention (C04 d): with nothing ignored, the token texts reproduce the input

`rendS stack ++ window` — the rendering (`Tok.source`: a group renders with ROUND brackets whatever its kind, F-C04-2)
of everything on the frame stack, an opening round bracket per open frame, and the pending window — is at every moment
the consumed text with every bracket character that was READ AS A BRACKET replaced by its round form
(`roundBrackets`, decided by the structural scanner of `LexScan.lean`: brackets inside quotes and comments are left as
written).  This needs a table that never drops a window silently (`retainOK`: the only operations that discard
characters are the bracket operations, on bracket characters, between tokens); of the 8 settings only setting 0 is
such a table.

The proof rides on the invariant `Inv2` of `LexLossless.lean` (window empty between tokens, `now` = characters consumed)
and on the scanner simulation of `LexScan.lean`.
-/
namespace Lex
open Scan Spec

/-- the round form of a bracket character -/
def nbc (c : Char) : Char := if c = '[' then '(' else if c = ']' then ')' else c

/-- rendering of a frame stack (innermost frame first): each open frame is preceded by the `(` its group will render -/
def rendS : List (List Tok) → List Char
  | [] => []
  | [f] => sourceL f
  | f :: g :: rest => rendS (g :: rest) ++ '(' :: sourceL f

theorem sourceL_append (a b : List Tok) : sourceL (a ++ b) = sourceL a ++ sourceL b := by
  induction a with
  | nil => rfl
  | cons t ts ih => simp [sourceL, ih]

theorem rendS_top_single (f : List Tok) (fs : List (List Tok)) (s : List Char) (k : Nat) :
    rendS ((f ++ [.single s k]) :: fs) = rendS (f :: fs) ++ s := by
  cases fs <;> simp [rendS, sourceL_append, sourceL, Tok.source]

theorem rendS_push (g : List Tok) (rest : List (List Tok)) : rendS ([] :: g :: rest) = rendS (g :: rest) ++ ['('] := by
  simp [rendS, sourceL]

theorem rendS_pop (f g : List Tok) (rest : List (List Tok)) (k : GK) (mk : Nat) :
    rendS ((g ++ [.group k f mk]) :: rest) = rendS (f :: g :: rest) ++ [')'] := by
  cases rest <;> simp [rendS, sourceL_append, sourceL, Tok.source]

/-- what one summarised operation does to position and rendering -/
theorem execCore_rend (env : Env) (ss : S) (sm : Nat) (adv : Bool) (body : Body) (grp : Grp) (st : St) (ret : Bool)
    (m m' : Mem) (b : Bool) (h : execCore env ss sm adv body grp st ret m = .ok (m', b)) (hne : m.stack ≠ []) :
    m'.now = (if adv then m.now + 1 else m.now) ∧
    (body = .keep → grp = .none → m'.start = m.start ∧ rendS m'.stack = rendS m.stack) ∧
    (∀ mk, body = .emit mk → grp = .none → m'.start = m'.now ∧
      rendS m'.stack = rendS m.stack ++ (env.text.drop m.start).take (m'.now - m.start)) ∧
    (body = .drop → grp = .push → m'.start = m'.now ∧ rendS m'.stack = rendS m.stack ++ ['(']) ∧
    (∀ k mk, body = .drop → grp = .pop k mk → m'.start = m'.now ∧ rendS m'.stack = rendS m.stack ++ [')']) := by
  cases hst : m.stack with
  | nil => exact absurd hst hne
  | cons f fs =>
    unfold execCore at h
    rw [hst] at h
    cases body <;> cases grp <;> simp only [appendTop] at h
    case keep.none | drop.none | emit.none =>
      simp only [Except.ok.injEq, Prod.mk.injEq] at h
      obtain ⟨rfl, rfl⟩ := h
      simp [rendS_top_single]
    case keep.push | drop.push | emit.push =>
      simp only [Except.ok.injEq, Prod.mk.injEq] at h
      obtain ⟨rfl, rfl⟩ := h
      simp [rendS_push]
    case keep.pop k mk | drop.pop k mk | emit.pop k mk =>
      cases fs with
      | nil => simp at h
      | cons g rest =>
        simp only [Except.ok.injEq, Prod.mk.injEq] at h
        obtain ⟨rfl, rfl⟩ := h
        simp [rendS_pop]

/-! ## the table never drops a window silently -/

/-- a cell of state `s` (key `k`: a character code, `none` for the default row and the end of the text): it raises, or
it discards nothing — except that a bracket operation, which must advance, between tokens, on a bracket character of its
direction, discards that one character -/
def cellRet (cfg : Cfg Gen.Cls) (s : S) (k : Option Nat) (o : OpRef Gen.Cls) : Bool :=
  match summarize (cfg.code o.cls) with
  | none => false
  | some sm => sm.raises ||
    (match sm.body, sm.grp with
      | .drop, .none => false
      | _, .none => true
      | .drop, .push => isEmptySt cfg s && sm.adv && (k == some '('.toNat || k == some '['.toNat)
      | .drop, .pop _ _ => isEmptySt cfg s && sm.adv && (k == some ')'.toNat || k == some ']'.toNat)
      | _, _ => false)

def retainOK (cfg : Cfg Gen.Cls) : Bool :=
  allS.all fun s =>
    ((cfg.rows s).all fun e => cellRet cfg s (some e.1) e.2) &&
    (match cfg.dflt s with | none => true | some o => cellRet cfg s none o) &&
    (match cfg.atEnd s with | none => true | some o => cellRet cfg s none o)

theorem retainOK.char {cfg : Cfg Gen.Cls} (h : retainOK cfg = true) (s : S) (c : Char) (o : OpRef Gen.Cls)
    (ho : cfg.lookup s (.ch c) = some o) : ∃ k, (k = some c.toNat ∨ k = none) ∧ cellRet cfg s k o = true := by
  have hs := (List.all_eq_true.mp h) s (mem_allS s)
  simp only [Bool.and_eq_true, List.all_eq_true] at hs
  simp only [Cfg.lookup] at ho
  split at ho
  · rename_i e he
    have hm := List.mem_of_find?_eq_some he
    have hp := List.find?_some he
    simp only [beq_iff_eq] at hp
    simp only [Option.some.injEq] at ho
    subst ho
    exact ⟨some c.toNat, .inl rfl, by rw [← hp]; exact hs.1.1 e hm⟩
  · have := hs.1.2
    rw [ho] at this
    exact ⟨none, .inr rfl, this⟩

theorem retainOK.eof {cfg : Cfg Gen.Cls} (h : retainOK cfg = true) (s : S) (o : OpRef Gen.Cls)
    (ho : cfg.lookup s .eof = some o) : cellRet cfg s none o = true := by
  have hs := (List.all_eq_true.mp h) s (mem_allS s)
  simp only [Bool.and_eq_true] at hs
  have := hs.2
  simp only [Cfg.lookup] at ho
  rw [ho] at this
  exact this

/-! ## the expected text -/

/-- the text with every bracket character that the structural scanner reads as a bracket replaced by its round form -/
def rbAll : Mode → List Char → Mode × List Char
  | μ, [] => (μ, [])
  | μ, c :: cs =>
    let r := step μ (norm c.toNat)
    let r' := rbAll r.1 cs
    (r'.1, (if r.2 == [] then c else nbc c) :: r'.2)

def roundBrackets (text : List Char) : List Char := (rbAll .N text).2

theorem rbAll_append (μ : Mode) (a b : List Char) :
    rbAll μ (a ++ b) = ((rbAll (rbAll μ a).1 b).1, (rbAll μ a).2 ++ (rbAll (rbAll μ a).1 b).2) := by
  induction a generalizing μ with
  | nil => rfl
  | cons c cs ih => simp [rbAll, ih]

theorem nbc_idem (c : Char) : nbc (nbc c) = nbc c := by
  unfold nbc
  split
  · decide
  · split
    · decide
    · rename_i h1 h2; simp [h1, h2]

/-- up to the kind of bracket characters, `roundBrackets` changes nothing -/
theorem rbAll_map (μ : Mode) (t : List Char) : (rbAll μ t).2.map nbc = t.map nbc := by
  induction t generalizing μ with
  | nil => rfl
  | cons c cs ih =>
    simp only [rbAll, List.map_cons, ih]
    split <;> simp [nbc_idem]

/-! ## the invariant -/

section run
variable (cfg : Cfg Gen.Cls) (advSt : List S) (wk : S → WK) (text : List Char)
  (hT : TableOK cfg advSt wk = true) (hsum : ∀ c, (summarize (cfg.code c)).isSome = true) (hret : retainOK cfg = true)
include hsum hret

/-- one `handle` call on a character -/
theorem handle_rend (m m' : Mem) (c : Char) (rest : List Char) (b : Bool) (segs : List Seg)
    (hinv : Inv2 cfg wk text m segs) (hc : text.drop m.now = c :: rest) (hne : m.stack ≠ [])
    (h : handle cfg text m (.ch c) = .ok (m', b)) :
    ∃ e, stepInfo cfg m.status (.ch c) = some (m'.status, b, e) ∧ m'.stack ≠ [] ∧
      ((m'.now = m.now ∧ e = [] ∧ rendS m'.stack ++ curWin text m' = rendS m.stack ++ curWin text m) ∨
       (m'.now = m.now + 1 ∧
        rendS m'.stack ++ curWin text m' = rendS m.stack ++ curWin text m ++ [if e == [] then c else nbc c])) := by
  cases ho : cfg.lookup m.status (.ch c) with
  | none => simp [handle, ho] at h
  | some o =>
    cases hs : summarize (cfg.code o.cls) with
    | none => have := hsum o.cls; rw [hs] at this; cases this
    | some sm =>
      rw [handle_eq cfg text m _ o sm ho hs] at h
      obtain ⟨hr, h⟩ := execS_ok _ _ _ sm m m' b h
      obtain ⟨k, hk, hcell⟩ := retainOK.char hret m.status c o ho
      simp only [cellRet, hs, hr, Bool.false_or] at hcell
      obtain ⟨a1, a2, a3, a4⟩ := execCore_skel _ _ _ _ _ _ _ _ _ _ _ h hne
      obtain ⟨hnow, r1, r2, r3, r4⟩ := execCore_rend _ _ _ _ _ _ _ _ _ _ _ h hne
      refine ⟨grpEv sm.grp, by simp [stepInfo, opInfo, ho, hs, hr, a3, a4], a1, ?_⟩
      have hle := hinv.le
      have hsnoc := window_snoc text m c rest hle hc
      -- the window after the step, if nothing is emitted or dropped
      have hwin : ∀ n', m'.start = m.start → m'.now = n' → (n' = m.now ∨ n' = m.now + 1) →
          curWin text m' = (if n' = m.now then curWin text m else curWin text m ++ [c]) := by
        intro n' h1 h2 h3
        show (text.drop m'.start).take (m'.now - m'.start) = _
        rw [h1, h2]
        rcases h3 with h3 | h3
        · simp [h3, curWin]
        · rw [h3, hsnoc]; simp
      cases hb : sm.body with
      | keep =>
        cases hg : sm.grp with
        | none =>
          obtain ⟨s1, s2⟩ := r1 hb hg
          cases hadv : sm.adv with
          | false =>
            rw [hadv] at hnow
            simp only [Bool.false_eq_true, if_false] at hnow
            left
            refine ⟨hnow, by simp [grpEv], ?_⟩
            rw [s2, hwin m.now s1 hnow (.inl rfl)]; simp
          | true =>
            rw [hadv] at hnow
            simp only [if_true] at hnow
            right
            refine ⟨hnow, ?_⟩
            rw [s2, hwin (m.now + 1) s1 hnow (.inr rfl)]
            simp [grpEv, List.append_assoc]
        | push => rw [hb, hg] at hcell; simp at hcell
        | pop k' mk' => rw [hb, hg] at hcell; simp at hcell
      | emit mk =>
        cases hg : sm.grp with
        | none =>
          obtain ⟨s1, s2⟩ := r2 mk hb hg
          have hcw : curWin text m' = [] := by unfold curWin; rw [s1]; simp
          cases hadv : sm.adv with
          | false =>
            rw [hadv] at hnow
            simp only [Bool.false_eq_true, if_false] at hnow
            left
            refine ⟨hnow, by simp [grpEv], ?_⟩
            rw [s2, hcw, hnow]; simp [curWin, Cfg.env]
          | true =>
            rw [hadv] at hnow
            simp only [if_true] at hnow
            right
            refine ⟨hnow, ?_⟩
            rw [s2, hcw, hnow]
            simp only [Cfg.env, hsnoc, grpEv, List.append_nil, List.append_assoc, beq_self_eq_true, if_true]
        | push => rw [hb, hg] at hcell; simp at hcell
        | pop k' mk' => rw [hb, hg] at hcell; simp at hcell
      | drop =>
        cases hg : sm.grp with
        | none => rw [hb, hg] at hcell; simp at hcell
        | push =>
          rw [hb, hg] at hcell
          simp only [Bool.and_eq_true, Bool.or_eq_true, beq_iff_eq] at hcell
          obtain ⟨⟨hemp, hadv⟩, hkey⟩ := hcell
          obtain ⟨s1, s2⟩ := r3 hb hg
          rw [hadv] at hnow
          simp only [if_true] at hnow
          have hw0 : curWin text m = [] := by unfold curWin; rw [hinv.emptyWin hemp]; simp
          have hcw : curWin text m' = [] := by unfold curWin; rw [s1]; simp
          have hcc : nbc c = '(' := by
            rcases hk with rfl | rfl
            · rcases hkey with hkey | hkey
              · have : c = '(' := Char.toNat_inj.mp (Option.some.inj hkey)
                subst this; decide
              · have : c = '[' := Char.toNat_inj.mp (Option.some.inj hkey)
                subst this; decide
            · rcases hkey with hkey | hkey <;> cases hkey
          right
          refine ⟨hnow, ?_⟩
          rw [s2, hcw, hw0]
          simp [grpEv, hcc]
        | pop k' mk' =>
          rw [hb, hg] at hcell
          simp only [Bool.and_eq_true, Bool.or_eq_true, beq_iff_eq] at hcell
          obtain ⟨⟨hemp, hadv⟩, hkey⟩ := hcell
          obtain ⟨s1, s2⟩ := r4 k' mk' hb hg
          rw [hadv] at hnow
          simp only [if_true] at hnow
          have hw0 : curWin text m = [] := by unfold curWin; rw [hinv.emptyWin hemp]; simp
          have hcw : curWin text m' = [] := by unfold curWin; rw [s1]; simp
          have hcc : nbc c = ')' := by
            rcases hk with rfl | rfl
            · rcases hkey with hkey | hkey
              · have : c = ')' := Char.toNat_inj.mp (Option.some.inj hkey)
                subst this; decide
              · have : c = ']' := Char.toNat_inj.mp (Option.some.inj hkey)
                subst this; decide
            · rcases hkey with hkey | hkey <;> cases hkey
          right
          refine ⟨hnow, ?_⟩
          rw [s2, hcw, hw0]
          simp [grpEv, hcc]

/-- the end of the text: nothing is consumed, nothing is lost -/
theorem handle_rend_eof (m m' : Mem) (b : Bool) (hnow : m'.now = m.now) (hne : m.stack ≠ [])
    (h : handle cfg text m .eof = .ok (m', b)) :
    m'.stack ≠ [] ∧ rendS m'.stack ++ curWin text m' = rendS m.stack ++ curWin text m := by
  cases ho : cfg.lookup m.status .eof with
  | none => simp [handle, ho] at h
  | some o =>
    cases hs : summarize (cfg.code o.cls) with
    | none => have := hsum o.cls; rw [hs] at this; cases this
    | some sm =>
      rw [handle_eq cfg text m _ o sm ho hs] at h
      obtain ⟨hr, h⟩ := execS_ok _ _ _ sm m m' b h
      have hcell := retainOK.eof hret m.status o ho
      simp only [cellRet, hs, hr, Bool.false_or] at hcell
      obtain ⟨a1, _, _, _⟩ := execCore_skel _ _ _ _ _ _ _ _ _ _ _ h hne
      obtain ⟨_, r1, r2, _, _⟩ := execCore_rend _ _ _ _ _ _ _ _ _ _ _ h hne
      refine ⟨a1, ?_⟩
      cases hb : sm.body with
      | keep =>
        cases hg : sm.grp with
        | none =>
          obtain ⟨s1, s2⟩ := r1 hb hg
          rw [s2]; simp [curWin, s1, hnow]
        | push => rw [hb, hg] at hcell; simp at hcell
        | pop k' mk' => rw [hb, hg] at hcell; simp at hcell
      | emit mk =>
        cases hg : sm.grp with
        | none =>
          obtain ⟨s1, s2⟩ := r2 mk hb hg
          rw [s2]; simp [curWin, s1, hnow, Cfg.env]
        | push => rw [hb, hg] at hcell; simp at hcell
        | pop k' mk' => rw [hb, hg] at hcell; simp at hcell
      | drop =>
        cases hg : sm.grp with
        | none => rw [hb, hg] at hcell; simp at hcell
        | push => rw [hb, hg] at hcell; simp at hcell
        | pop k' mk' => rw [hb, hg] at hcell; simp at hcell

include hT

/-- one character with the driver's retry -/
theorem feed_rend (m m' : Mem) (c : Char) (rest : List Char) (segs : List Seg)
    (hinv : Inv2 cfg wk text m segs) (hc : text.drop m.now = c :: rest) (hne : m.stack ≠ [])
    (h : feed cfg text m c = .ok m') :
    ∃ segs' e, Inv2 cfg wk text m' segs' ∧ m'.now = m.now + 1 ∧ m'.stack ≠ [] ∧
      traceFeed? cfg m.status c = some (m'.status, e) ∧
      rendS m'.stack ++ curWin text m' = rendS m.stack ++ curWin text m ++ [if e == [] then c else nbc c] := by
  obtain ⟨segsF, hiF, hnF⟩ := feed_inv cfg advSt wk text hT m m' c rest segs hinv hc h
  unfold feed feedWith at h
  cases e1 : handle cfg text m (.ch c) with
  | error x => rw [e1] at h; cases h
  | ok x =>
    rw [e1] at h
    obtain ⟨m1, b1⟩ := x
    obtain ⟨ev1, hi1, hn1, hcase1⟩ := handle_rend cfg wk text hsum hret m m1 c rest b1 segs hinv hc hne e1
    obtain ⟨segs1, hinv1, hnow1, _⟩ := handle_char_inv cfg advSt wk text hT m m1 c rest b1 segs hinv hc e1
    cases b1 with
    | true =>
      simp only [Except.ok.injEq] at h
      subst h
      simp only [if_true] at hnow1
      rcases hcase1 with ⟨hx, _, _⟩ | ⟨_, hrend⟩
      · omega
      · exact ⟨segsF, ev1, hiF, hnF, hn1, by simp [traceFeed?, feedInfo, hi1], hrend⟩
    | false =>
      simp only [Bool.false_eq_true, if_false] at hnow1
      simp only at h
      rcases hcase1 with ⟨_, hev1, hrend1⟩ | ⟨hx, _⟩
      · cases e2 : handle cfg text m1 (.ch c) with
        | error y => rw [e2] at h; cases h
        | ok y =>
          rw [e2] at h
          obtain ⟨m2, b2⟩ := y
          simp only [Except.ok.injEq] at h
          subst h
          have hc1 : text.drop m1.now = c :: rest := by rw [hnow1]; exact hc
          obtain ⟨ev2, hi2, hn2, hcase2⟩ := handle_rend cfg wk text hsum hret m1 m2 c rest b2 segs1 hinv1 hc1 hn1 e2
          rcases hcase2 with ⟨hx, _, _⟩ | ⟨_, hrend2⟩
          · omega
          · refine ⟨segsF, ev1 ++ ev2, hiF, hnF, hn2, by simp [traceFeed?, feedInfo, hi1, hi2], ?_⟩
            rw [hrend2, hrend1, hev1]; simp
      · omega

theorem feedAll_rend (hnorm : ∀ s n, lookupN cfg s n = lookupN cfg s (norm n)) (hcheck : simCheck cfg = true)
    (cs : List Char) : ∀ (rest : List Char) (m m' : Mem) (segs : List Seg) (μ : Mode),
    Inv2 cfg wk text m segs → text.drop m.now = cs ++ rest → m.stack ≠ [] → μ ∈ rho m.status →
    feedAll cfg text cs m = .ok m' →
    ∃ segs', Inv2 cfg wk text m' segs' ∧ m'.now = m.now + cs.length ∧ m'.stack ≠ [] ∧ (rbAll μ cs).1 ∈ rho m'.status ∧
      rendS m'.stack ++ curWin text m' = rendS m.stack ++ curWin text m ++ (rbAll μ cs).2 := by
  induction cs with
  | nil =>
    intro rest m m' segs μ hinv _ hne hμ h
    simp only [feedAll, feedAllWith, Except.ok.injEq] at h
    subst h
    exact ⟨segs, hinv, by simp, hne, by simpa [rbAll] using hμ, by simp [rbAll]⟩
  | cons c cs ih =>
    intro rest m m' segs μ hinv hcs hne hμ h
    simp only [feedAll, feedAllWith] at h
    cases e1 : feedWith (handle cfg text) m c with
    | error x => rw [e1] at h; cases h
    | ok m1 =>
      rw [e1] at h
      obtain ⟨segs1, e, hi1, hn1, hne1, htr, hrend1⟩ :=
        feed_rend cfg advSt wk text hT hsum hret m m1 c (cs ++ rest) segs hinv (by simpa using hcs) hne e1
      obtain ⟨b1, b2⟩ := step_sim cfg hnorm hcheck m.status m1.status μ hμ c e htr
      have hcs1 : text.drop m1.now = cs ++ rest := by
        rw [hn1, ← List.drop_drop, hcs]; simp
      obtain ⟨segs2, hi2, hn2, hne2, hμ2, hrend2⟩ := ih rest m1 m' segs1 _ hi1 hcs1 hne1 b2 h
      refine ⟨segs2, hi2, by rw [hn2, hn1]; simp; omega, hne2, by simpa [rbAll] using hμ2, ?_⟩
      rw [hrend2, hrend1]
      simp [rbAll, b1, List.append_assoc]

/-- **retention**, generic in the table: if the table never drops a window silently, then for every accepted text the
rendering of the token list is the pre-processed text with the brackets read as brackets in their round form -/
theorem lex_retained (hnorm : ∀ s n, lookupN cfg s n = lookupN cfg s (norm n)) (hcheck : simCheck cfg = true)
    (hd : cfg.depthLimit ≤ 1) (raw : List Char) (ts : List Tok) (h : Lex.lex cfg raw = .ok ts) :
    sourceL ts = roundBrackets (cfg.pre raw) := by
  unfold Lex.lex lexWith at h
  simp only at h
  cases e1 : feedAllWith (handle cfg (cfg.pre raw)) (cfg.pre raw) {} with
  | error x => rw [e1] at h; cases h
  | ok m =>
    rw [e1] at h
    simp only at h
    have hinit : Inv2 cfg wk (cfg.pre raw) ({} : Mem) [] :=
      ⟨⟨by simp, by simp [tokTexts, allLeaves, leavesL], Nat.le_refl _⟩, fun _ => rfl,
        by simp [TableOK.wait hT, curWin, WK.claims], by simp [gapTexts]⟩
    obtain ⟨segs1, hi1, hn1, hne1, _, hrend1⟩ :=
      feedAll_rend cfg advSt wk (cfg.pre raw) hT hsum hret hnorm hcheck (cfg.pre raw) [] {} m [] .N hinit (by simp) (by simp)
        (by simp [rho]) e1
    cases e2 : handle cfg (cfg.pre raw) m .eof with
    | error y => rw [e2] at h; cases h
    | ok y =>
      rw [e2] at h
      obtain ⟨m', b⟩ := y
      simp only at h
      obtain ⟨segs2, hi2, hn2⟩ := handle_eof_inv cfg advSt wk (cfg.pre raw) hT m m' b segs1 hi1 e2
      obtain ⟨hne2, hrend2⟩ := handle_rend_eof cfg (cfg.pre raw) hsum hret m m' b hn2 hne1 e2
      unfold Lex.finish at h
      split at h
      · cases h
      · rename_i hEnd
        split at h
        · cases h
        · rename_i hlen
          have hs : m'.start = m'.now := hi2.emptyWin (by simp at hEnd; simp [isEmptySt, hEnd])
          have hw : curWin (cfg.pre raw) m' = [] := by unfold curWin; rw [hs]; simp
          cases hst : m'.stack with
          | nil => exact absurd hst hne2
          | cons f fs =>
            cases fs with
            | nil =>
              rw [hst] at h
              simp only [List.getLast?_singleton, Except.ok.injEq] at h
              subst h
              rw [hst, hw] at hrend2
              rw [hrend1] at hrend2
              simpa [rendS, curWin, roundBrackets, sourceL] using hrend2
            | cons g rest => rw [hst] at hlen; simp only [List.length_cons] at hlen; omega

end run

end Lex
