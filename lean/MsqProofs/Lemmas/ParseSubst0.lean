import MsqModel.Parse.Entry
import MsqProofs.Lemmas.ParseAccount0
/-!
# C06, parser half — part 0: the payload set, the erasure of payload texts, the erasure on trees

The relational family of `tools/gen_subst.py` (derived from `tools/gen_case.py`, C09's parser half) compares two runs of the parser model
on token lists that differ only INSIDE quoted regions.  The results are compared after ERASING the texts that may differ:

* `PaySet` — a fixed set `P` of "payload texts" (the texts the parser may store from a replaced token: its source, its source without
  back-quotes) with the side conditions the proofs need (`inert`: no payload text is, after `str.upper()`, one of the function names the
  parser dispatches on — `CAST`, `EXTRACT`, `IF`, `SUBSTRING`, the aggregation names), and a second, larger set `P2` for the CONFIG STRINGS of
  `SET a.b-c = d` / `TBLPROPERTIES`, which the parser builds by CONCATENATING popped sources (`P2` is closed under `++`).
* `er s` — `s` if `s ∉ P`, the constant `c ∈ P` otherwise.  Because `c ∈ P`: `er x = er y ↔ x = y ∨ (x ∈ P ∧ y ∈ P)` (`er_eq_iff`), so two trees
  with equal erasures have the same shape and the same text in every slot, except that a slot may hold two DIFFERENT texts if both are
  payload texts.  `er2` the same for `P2`.
* `erE`, `erS`, `erQ`, … — the tree with `er` applied to every stored string.
-/
set_option linter.unusedSimpArgs false
set_option linter.unusedVariables false
open Lex PM Ast
namespace PMQ

/-- the function names `_parse_function_expression` dispatches on (compared with `str.upper()` of the UNIFIED name, i.e. after the
back-quotes have been stripped) -/
def inertB (s : String) : Bool := !(["CAST", "EXTRACT", "IF", "SUBSTRING"].contains (up s)) && !(Gen.aggNames.contains (up s))

/-- the payload texts (see the header) -/
class PaySet where
  P : String → Bool
  c : String
  hc : P c = true
  inert : ∀ s, P s = true → inertB s = true
  P2 : String → Bool
  c2 : String
  hc2 : P2 c2 = true
  sub : ∀ s, P s = true → P2 s = true
  catL : ∀ a b, P2 a = true → P2 (a ++ b) = true
  catR : ∀ a b, P2 b = true → P2 (a ++ b) = true

variable [S : PaySet]

/-- erase a payload text -/
def er (s : String) : String := if PaySet.P s then PaySet.c else s
/-- erase a config string that contains a payload text -/
def er2 (s : String) : String := if PaySet.P2 s then PaySet.c2 else s

theorem er_eq_iff (x y : String) : er x = er y ↔ x = y ∨ (PaySet.P x = true ∧ PaySet.P y = true) := by
  unfold er
  have hc := S.hc
  by_cases hx : PaySet.P x = true <;> by_cases hy : PaySet.P y = true <;> simp [hx, hy]
  · constructor
    · intro h; subst h; simp_all
    · intro h; subst h; simp_all
  · constructor
    · intro h; subst h; simp_all
    · intro h; subst h; simp_all
theorem er2_eq_iff (x y : String) : er2 x = er2 y ↔ x = y ∨ (PaySet.P2 x = true ∧ PaySet.P2 y = true) := by
  unfold er2
  have hc := S.hc2
  by_cases hx : PaySet.P2 x = true <;> by_cases hy : PaySet.P2 y = true <;> simp [hx, hy]
  · constructor
    · intro h; subst h; simp_all
    · intro h; subst h; simp_all
  · constructor
    · intro h; subst h; simp_all
    · intro h; subst h; simp_all
theorem er2_of_er {x y : String} (h : er x = er y) : er2 x = er2 y := by
  rw [er_eq_iff] at h; rw [er2_eq_iff]
  rcases h with h | ⟨h1, h2⟩
  · exact .inl h
  · exact .inr ⟨S.sub _ h1, S.sub _ h2⟩
/-- config strings are built by concatenation -/
theorem er2_append {a a' b b' : String} (h1 : er2 a = er2 a') (h2 : er2 b = er2 b') : er2 (a ++ b) = er2 (a' ++ b') := by
  rw [er2_eq_iff] at h1 h2 ⊢
  rcases h1 with rfl | ⟨h1, h1'⟩
  · rcases h2 with rfl | ⟨h2, h2'⟩
    · exact .inl rfl
    · exact .inr ⟨S.catR _ _ h2, S.catR _ _ h2'⟩
  · exact .inr ⟨S.catL _ _ h1, S.catL _ _ h1'⟩

/-! ### `erAll` on the typed trees -/
mutual
def erE : Expr → Expr
  | .column t n => .column (t.map er) (er n)
  | .literal v => .literal (er v)
  | .wildcard t => .wildcard (t.map er)
  | .func s n ps => .func (s.map er) (er n) (erEs ps)
  | .agg n ps d => .agg (er n) (erEs ps) d
  | .cast e sg ty ps => .cast (erE e) sg (er ty) ps
  | .extract n e => .extract (erE n) (erE e)
  | .window fn part ord rows => .window (erE fn) (erEs part) (erOs ord) rows
  | .caseCond cs e => .caseCond (erArms cs) (erEo e)
  | .caseVal v cs e => .caseVal (erE v) (erArms cs) (erEo e)
  | .subValue vs => .subValue (erEs vs)
  | .subQuery q => .subQuery (erQ q)
  | .exists_ q => .exists_ (erE q)
  | .index a i => .index (erE a) (erE i)
  | .unary op e => .unary (er op) (erE e)
  | .compute l op r => .compute (erE l) (er op) (erE r)
  | .kw k n l r => .kw k n (erE l) (erE r)
  | .between n b f t => .between n (erE b) (erE f) (erE t)
  | .compare op l r => .compare (er op) (erE l) (erE r)
  | .not_ e => .not_ (erE e)
  | .and_ l r => .and_ (erE l) (erE r)
  | .xor l r => .xor (erE l) (erE r)
  | .or_ l r => .or_ (erE l) (erE r)
  | .mybatis s => .mybatis (er s)
def erEs : List Expr → List Expr
  | [] => [] | e :: r => erE e :: erEs r
def erEo : Option Expr → Option Expr
  | none => none | some e => some (erE e)
def erArms : List (Expr × Expr) → List (Expr × Expr)
  | [] => [] | (w, t) :: r => (erE w, erE t) :: erArms r
def erO : OrderItem → OrderItem
  | .mk e d nf nl => .mk (erE e) d nf nl
def erOs : List OrderItem → List OrderItem
  | [] => [] | o :: r => erO o :: erOs r
def erTR : TableRef → TableRef
  | .table s n => .table (s.map er) (er n)
  | .sub q => .sub (erQ q)
def erFT : FromTable → FromTable
  | .mk t a => .mk (erTR t) (a.map er)
def erFTs : List FromTable → List FromTable
  | [] => [] | t :: r => erFT t :: erFTs r
def erJR : JoinRule → JoinRule
  | .on e => .on (erE e) | .using f => .using (erE f)
def erJ : Join → Join
  | .mk ty t none => .mk (er ty) (erFT t) none
  | .mk ty t (some r) => .mk (er ty) (erFT t) (some (erJR r))
def erJs : List Join → List Join
  | [] => [] | j :: r => erJ j :: erJs r
def erEss : List (List Expr) → List (List Expr)
  | [] => [] | g :: r => erEs g :: erEss r
def erG : GroupBy → GroupBy
  | .mk cols none cube rollup => .mk (erEs cols) none cube rollup
  | .mk cols (some sets) cube rollup => .mk (erEs cols) (some (erEss sets)) cube rollup
def erLat : Lateral → Lateral
  | .mk o fn v as => .mk o (erE fn) (er v) (as.map er)
def erLats : List Lateral → List Lateral
  | [] => [] | l :: r => erLat l :: erLats r
def erW : WithTable → WithTable
  | .mk n q => .mk (er n) (erQ q)
def erWs : List WithTable → List WithTable
  | [] => [] | w :: r => erW w :: erWs r
def erCols : List (Expr × Option String) → List (Expr × Option String)
  | [] => [] | (e, a) :: r => (erE e, a.map er) :: erCols r
def erWso : Option (List WithTable) → Option (List WithTable)
  | none => none | some l => some (erWs l)
def erFTso : Option (List FromTable) → Option (List FromTable)
  | none => none | some l => some (erFTs l)
def erGo : Option GroupBy → Option GroupBy
  | none => none | some g => some (erG g)
def erOso : Option (List OrderItem) → Option (List OrderItem)
  | none => none | some l => some (erOs l)
def erEso : Option (List Expr) → Option (List Expr)
  | none => none | some l => some (erEs l)
def erS : Select → Select
  | .mk withs dist cols fr lats js wh gb hv ob sb db cb lm =>
    .mk (erWso withs) dist (erCols cols) (erFTso fr) (erLats lats) (erJs js) (erEo wh) (erGo gb) (erEo hv) (erOso ob) (erOso sb) (erEso db) (erEso cb) lm
def erUs : List (String × Select) → List (String × Select)
  | [] => [] | (n, s) :: r => (er n, erS s) :: erUs r
def erQ : Query → Query
  | .single s => .single (erS s)
  | .union withs first rest => .union (erWso withs) (erS first) (erUs rest)
end

/-- the stack of the compute loop -/
def erSt (st : List (Expr × String × Nat)) : List (Expr × String × Nat) := st.map fun p => (erE p.1, er p.2.1, p.2.2)

@[grind =] theorem erEs_eq : ∀ l, erEs l = l.map erE := by intro l; induction l <;> simp [erEs, *]
@[grind =] theorem erEo_eq : ∀ o, erEo o = o.map erE := by intro o; cases o <;> simp [erEo]
@[grind =] theorem erArms_eq : ∀ l, erArms l = l.map (Prod.map erE erE) := by
  intro l; induction l with | nil => simp [erArms] | cons p r ih => obtain ⟨w, t⟩ := p; simp [erArms, ih]
@[grind =] theorem erOs_eq : ∀ l, erOs l = l.map erO := by intro l; induction l <;> simp [erOs, *]
@[grind =] theorem erFTs_eq : ∀ l, erFTs l = l.map erFT := by intro l; induction l <;> simp [erFTs, *]
@[grind =] theorem erJs_eq : ∀ l, erJs l = l.map erJ := by intro l; induction l <;> simp [erJs, *]
@[grind =] theorem erEss_eq : ∀ l, erEss l = l.map (List.map erE) := by intro l; induction l <;> simp [erEss, erEs_eq, *]
@[grind =] theorem erLats_eq : ∀ l, erLats l = l.map erLat := by intro l; induction l <;> simp [erLats, *]
@[grind =] theorem erWs_eq : ∀ l, erWs l = l.map erW := by intro l; induction l <;> simp [erWs, *]
@[grind =] theorem erCols_eq : ∀ l, erCols l = l.map (Prod.map erE (Option.map er)) := by
  intro l; induction l with | nil => simp [erCols] | cons p r ih => obtain ⟨e, a⟩ := p; simp [erCols, ih]
@[grind =] theorem erUs_eq : ∀ l, erUs l = l.map (Prod.map er erS) := by
  intro l; induction l with | nil => simp [erUs] | cons p r ih => obtain ⟨n, s⟩ := p; simp [erUs, ih]
@[grind =] theorem erWso_eq : ∀ o, erWso o = o.map (List.map erW) := by intro o; cases o <;> simp [erWso, erWs_eq]
@[grind =] theorem erFTso_eq : ∀ o, erFTso o = o.map (List.map erFT) := by intro o; cases o <;> simp [erFTso, erFTs_eq]
@[grind =] theorem erGo_eq : ∀ o, erGo o = o.map erG := by intro o; cases o <;> simp [erGo]
@[grind =] theorem erOso_eq : ∀ o, erOso o = o.map (List.map erO) := by intro o; cases o <;> simp [erOso, erOs_eq]
@[grind =] theorem erEso_eq : ∀ o, erEso o = o.map (List.map erE) := by intro o; cases o <;> simp [erEso, erEs_eq]
@[grind =] theorem erJ_mk (ty : String) (t : FromTable) (r : Option JoinRule) : erJ (.mk ty t r) = .mk (er ty) (erFT t) (r.map erJR) := by
  cases r <;> simp [erJ]
@[grind =] theorem erG_mk (cols : List Expr) (sets : Option (List (List Expr))) (c r : Bool) :
    erG (.mk cols sets c r) = .mk (cols.map erE) (sets.map (List.map (List.map erE))) c r := by
  cases sets <;> simp [erG, erEs_eq, erEss_eq]
@[grind =] theorem erS_mk (withs : Option (List WithTable)) (dist : Bool) (cols : List (Expr × Option String)) (fr : Option (List FromTable))
    (lats : List Lateral) (js : List Join) (wh : Option Expr) (gb : Option GroupBy) (hv : Option Expr) (ob sb : Option (List OrderItem))
    (db cb : Option (List Expr)) (lm : Option (Int × Option Int)) :
    erS (.mk withs dist cols fr lats js wh gb hv ob sb db cb lm) =
      .mk (withs.map (List.map erW)) dist (cols.map (Prod.map erE (Option.map er))) (fr.map (List.map erFT)) (lats.map erLat) (js.map erJ)
        (wh.map erE) (gb.map erG) (hv.map erE) (ob.map (List.map erO)) (sb.map (List.map erO)) (db.map (List.map erE)) (cb.map (List.map erE)) lm := by
  simp [erS, erEs_eq, erEo_eq, erOs_eq, erFTs_eq, erJs_eq, erLats_eq, erWs_eq, erCols_eq, erWso_eq, erFTso_eq, erGo_eq, erOso_eq, erEso_eq]
@[grind =] theorem erQ_union (withs : Option (List WithTable)) (first : Select) (rest : List (String × Select)) :
    erQ (.union withs first rest) = .union (withs.map (List.map erW)) (erS first) (rest.map (Prod.map er erS)) := by
  simp [erQ, erWso_eq, erUs_eq]
@[grind =] theorem erQ_single (s : Select) : erQ (.single s) = .single (erS s) := by simp [erQ]

end PMQ
