import MsqProofs.Lemmas.TQuery2M1
import MsqProofs.Lemmas.TQuery2Q
/-!
# T-parse on the larger nested fragment: the mutual induction (C03 / C02 / C01)

Derived from Lemmas/TQueryM.lean (first draft by tools/gen_tquery2.py --select, then maintained by hand).  `all`: for every `n`, every
fragment expression of size `≤ n` has its record `RT4` and every fragment query of size `≤ n` has its record `QT`.  The expression half of
the step is `expr_step` (TQuery2M1.lean: the old cases, IF, and the new nodes of TQuery2N.lean); the query half builds the records of the
parts of a SELECT — now also LATERAL VIEWs, the USING rule, grouping sets, SORT / DISTRIBUTE / CLUSTER BY — from the induction hypothesis.
-/
set_option linter.unusedVariables false
set_option linter.unusedSimpArgs false
set_option maxHeartbeats 1000000
open Lex PM Ast TP TS
open TP2 (qTok fnOK nmOK nm2OK isOkNoneS fnNameOK aggOK dotTok starTok)
open TQ (tblTok unionWords lvlH isExists lvlH_eq lvlH_ge lvlH_of_le8 isOkPair tblOK)
namespace TQ2
variable {d : Gen.D} {ch : Expr → Bool}

structure ChOK (d : Gen.D) (ch : Expr → Bool) : Prop where
  dist : ∀ cols, searchStrUp (toksCols4 d noX cols) "DISTINCT" = false → searchStrUp (toksCols4 d ch cols) "DISTINCT" = false
  grouping : ∀ e, searchStrUp (W4 d noX e 8) "GROUPING" = false → searchStrUp (W4 d ch e 8) "GROUPING" = false
theorem chOK_noX : ChOK d noX := ⟨fun _ h => h, fun _ h => h⟩

section step
variable (n : Nat) (ihe : ∀ e, szE4 e ≤ n → FragE4 d e = true → RT4 d ch e) (ihq : ∀ q, szQ2 q ≤ n → FragQ2 d q = true → QT d ch q)
include ihe in
theorem cols_rec : ∀ cs, szCols cs ≤ n → colsOK4 d cs = true → ∀ c ∈ cs, ColRec d ch c := by
  intro cs
  induction cs with
  | nil => intro _ _ c hc; simp at hc
  | cons p cs ihc =>
    obtain ⟨e, a⟩ := p
    intro hs hf c hc
    simp only [szCols] at hs
    simp only [colsOK4, Bool.and_eq_true] at hf
    rcases List.mem_cons.1 hc with rfl | hc
    · exact ⟨ihe e (by omega) hf.1.1, hf.1.2⟩
    · exact ihc (by omega) hf.2 c hc
include ihq in
theorem ref_rec (r : TableRef) (hs : szRef r ≤ n) (hf : refOK4 d r = true) : RefRec d ch r := by
  cases r with
  | table s nm => simp only [refOK4] at hf; exact hf
  | sub q =>
    simp only [refOK4] at hf; simp only [szRef] at hs
    show QT d ch q
    exact ihq q (by omega) hf
include ihq in
theorem table_rec (t : FromTable) (hs : szTable t ≤ n) (hf : tableOK4 d t = true) : TabRec d ch t := by
  obtain ⟨r, a⟩ := t
  simp only [tableOK4, Bool.and_eq_true] at hf; simp only [szTable] at hs
  exact ⟨ref_rec n ihq r hs hf.1, hf.2⟩
include ihq in
theorem tables_rec : ∀ ts, szTables ts ≤ n → tablesOK4 d ts = true → ∀ t ∈ ts, TabRec d ch t := by
  intro ts
  induction ts with
  | nil => intro _ _ c hc; simp at hc
  | cons t ts iht =>
    intro hs hf c hc
    simp only [szTables] at hs
    simp only [tablesOK4, Bool.and_eq_true] at hf
    rcases List.mem_cons.1 hc with rfl | hc
    · exact table_rec n ihq _ (by omega) hf.1
    · exact iht (by omega) hf.2 c hc
include ihq in
theorem from_rec (fr : Option (List FromTable)) (hs : szFrom fr ≤ n) (hf : fromOK4 d fr = true) : FromRec d ch fr := by
  cases fr with
  | none => trivial
  | some l =>
    cases l with
    | nil => simp [fromOK4] at hf
    | cons t ts =>
      simp only [fromOK4, Bool.and_eq_true] at hf; simp only [szFrom, szTables] at hs
      exact ⟨table_rec n ihq t (by omega) hf.1, tables_rec n ihq ts (by omega) hf.2⟩
include ihe in
theorem rule_rec (r : Option JoinRule) (hs : szRule r ≤ n) (hf : ruleOK4 d r = true) : RuleRec d ch r := by
  cases r with
  | none => trivial
  | some r =>
    cases r with
    | on e => simp only [ruleOK4] at hf; simp only [szRule] at hs; exact ihe e hs hf
    | «using» u =>
      simp only [ruleOK4] at hf; simp only [szRule] at hs
      cases u with
      | func s nm ps =>
        cases s with
        | some s => simp [usingOK4] at hf
        | none =>
          simp only [usingOK4, Bool.and_eq_true] at hf
          simp only [szE4] at hs
          exact ⟨hf.1.1.1, hf.1.1.2, hf.1.2, fun a ha => by obtain ⟨x, y⟩ := frag2L_mem ps hf.2 a ha; exact ihe a (by omega) x⟩
      | _ => simp [usingOK4] at hf
include ihe ihq in
theorem joins_rec : ∀ js, szJoins js ≤ n → joinsOK4 d js = true → ∀ j ∈ js, JoinRec d ch j := by
  intro js
  induction js with
  | nil => intro _ _ c hc; simp at hc
  | cons j js ihj =>
    intro hs hf c hc
    simp only [szJoins] at hs
    simp only [joinsOK4, Bool.and_eq_true] at hf
    rcases List.mem_cons.1 hc with rfl | hc
    · obtain ⟨ty, t, rule⟩ := c
      have h1 := hf.1
      simp only [joinOK4, Bool.and_eq_true] at h1; simp only [szJoin] at hs
      exact ⟨h1.1.1, table_rec n ihq t (by omega) h1.1.2, rule_rec n ihe rule (by omega) h1.2⟩
    · exact ihj (by omega) hf.2 c hc
include ihe in
theorem opt_rec (o : Option Expr) (hs : szO4 o ≤ n) (hf : FragO4 d o = true) : OptRec d ch o := by
  cases o with
  | none => trivial
  | some e => simp only [FragO4] at hf; simp only [szO4] at hs; exact ihe e hs hf
include ihe in
theorem sets_rec : ∀ l, szSets l ≤ n → setsOK4 d l = true → ∀ g ∈ l, ∀ e ∈ g, RT4 d ch e := by
  intro l
  induction l with
  | nil => intro _ _ g hg; simp at hg
  | cons g0 l ihl =>
    intro hs hf g hg e he
    simp only [szSets] at hs
    simp only [setsOK4, Bool.and_eq_true] at hf
    rcases List.mem_cons.1 hg with rfl | hg
    · obtain ⟨a, b⟩ := frag2L_mem g hf.1 e he
      exact ihe e (by omega) a
    · exact ihl (by omega) hf.2 g hg e he
include ihe in
theorem group_rec (hch : ChOK d ch) (gb : Option GroupBy) (hs : szGroup gb ≤ n) (hf : groupOK4 d gb = true) : GroupRec d ch gb := by
  cases gb with
  | none => trivial
  | some g =>
    obtain ⟨cols, sets, cube, rollup⟩ := g
    cases cols with
    | nil =>
      cases sets with
      | none => simp [groupOK4] at hf
      | some l =>
        simp only [groupOK4] at hf
        simp only [szGroup, szL4] at hs
        exact ⟨fun e he => by simp at he, fun g hg e he => sets_rec n ihe l (by omega) hf g hg e he, fun _ => rfl, fun e es h => by simp at h⟩
    | cons e es =>
      have key : FragE4 d e = true ∧ FragL4 d es = true ∧ searchStrUp (W4 d noX e 8) "GROUPING" = false ∧
          (∀ l, sets = some l → setsOK4 d l = true ∧ szSets l ≤ n) ∧ szE4 e + szL4 es ≤ n := by
        cases sets with
        | none =>
          have hf' : (FragE4 d e && FragL4 d es && !searchStrUp (W4 d noX e 8) "GROUPING") = true := by simpa [groupOK4, W4] using hf
          simp only [Bool.and_eq_true, Bool.not_eq_true'] at hf'
          simp only [szGroup, szL4] at hs
          refine ⟨hf'.1.1, hf'.1.2, hf'.2, ?_, by omega⟩
          intro l h; cases h
        | some l =>
          have hf' : (FragE4 d e && FragL4 d es && !searchStrUp (W4 d noX e 8) "GROUPING" && setsOK4 d l) = true := by simpa [groupOK4, W4] using hf
          simp only [Bool.and_eq_true, Bool.not_eq_true'] at hf'
          simp only [szGroup, szL4] at hs
          refine ⟨hf'.1.1.1, hf'.1.1.2, hf'.1.2, ?_, by omega⟩
          intro l' h; cases h; exact ⟨hf'.2, by omega⟩
      obtain ⟨h1, h2, h3, h4, hs'⟩ := key
      clear hs hf
      refine ⟨fun x hx => ?_, ?_, fun h => by simp at h, fun e' es' h => ?_⟩
      · rcases List.mem_cons.1 hx with rfl | hx
        · exact ihe x (by omega) h1
        · obtain ⟨a, b⟩ := frag2L_mem es h2 x hx
          exact ihe x (by omega) a
      · cases sets with
        | none => trivial
        | some l => exact fun g hg e0 he0 => sets_rec n ihe l (h4 l rfl).2 (h4 l rfl).1 g hg e0 he0
      · simp only [List.cons.injEq] at h
        obtain ⟨rfl, rfl⟩ := h
        exact hch.grouping e h3
include ihe in
theorem ord_rec (o : OrderItem) (hs : szOrdItem o ≤ n) (hf : ordItemOK4 d o = true) : OrdRec d ch o := by
  obtain ⟨e, desc, nf, nl⟩ := o
  simp only [ordItemOK4, Bool.and_eq_true, Bool.not_eq_true'] at hf; simp only [szOrdItem] at hs
  exact ⟨ihe e hs hf.1, hf.2⟩
include ihe in
theorem ordtail_rec : ∀ os, szOrdL os ≤ n → ordTailOK4 d os = true → ∀ o ∈ os, OrdRec d ch o := by
  intro os
  induction os with
  | nil => intro _ _ c hc; simp at hc
  | cons o os iho =>
    intro hs hf c hc
    simp only [szOrdL] at hs
    simp only [ordTailOK4, Bool.and_eq_true] at hf
    rcases List.mem_cons.1 hc with rfl | hc
    · exact ord_rec n ihe _ (by omega) hf.1
    · exact iho (by omega) hf.2 c hc
include ihe in
theorem order_rec (ob : Option (List OrderItem)) (hs : szOrder ob ≤ n) (hf : orderOK4 d ob = true) : OrderRec d ch ob := by
  cases ob with
  | none => trivial
  | some l =>
    cases l with
    | nil => simp [orderOK4] at hf
    | cons o os =>
      simp only [orderOK4, Bool.and_eq_true] at hf; simp only [szOrder, szOrdL] at hs
      exact ⟨ord_rec n ihe o (by omega) hf.1, ordtail_rec n ihe os (by omega) hf.2⟩

include ihe in
theorem by_rec (o : Option (List Expr)) (hs : szBy o ≤ n) (hf : byOK4 d o = true) : ByRec d ch o := by
  cases o with
  | none => trivial
  | some l =>
    cases l with
    | nil => simp [byOK4] at hf
    | cons e es =>
      simp only [byOK4, Bool.and_eq_true] at hf; simp only [szBy, szL4] at hs
      exact ⟨ihe e (by omega) hf.1, fun x hx => by obtain ⟨a, b⟩ := frag2L_mem es hf.2 x hx; exact ihe x (by omega) a⟩
include ihe in
theorem lats_rec : ∀ ls, szLats ls ≤ n → latsOK4 d ls = true → ∀ l ∈ ls, LatRec d ch l := by
  intro ls
  induction ls with
  | nil => intro _ _ c hc; simp at hc
  | cons l ls ihl =>
    intro hs hf c hc
    simp only [szLats] at hs
    simp only [latsOK4, Bool.and_eq_true] at hf
    rcases List.mem_cons.1 hc with rfl | hc
    · obtain ⟨o, fn, v, as⟩ := c
      have h1 := hf.1
      simp only [latOK4, Bool.and_eq_true] at h1
      simp only [szLat] at hs
      refine ⟨?_, h1.2⟩
      cases fn with
      | func s nm ps =>
        cases s with
        | some s => simp [latFnOK4] at h1
        | none =>
          have h2 := h1.1
          simp only [latFnOK4, Bool.and_eq_true, Bool.not_eq_true'] at h2
          simp only [szE4] at hs
          exact ⟨nm, ps, rfl, h2.1.1, h2.1.2, fun a ha => by obtain ⟨x, y⟩ := frag2L_mem ps h2.2 a ha; exact ihe a (by omega) x⟩
      | _ => simp [latFnOK4] at h1
    · exact ihl (by omega) hf.2 c hc
include ihe ihq in
/-- the record of a fragment SELECT whose parts have size `≤ n` -/
theorem srec (hch : ChOK d ch) (s : Select) (hs : szS4 s ≤ n + 1) (hf : FragS4 d s = true) : SRec d ch s := by
  obtain ⟨w, dist, cols, fr, lats, js, wh, gb, hv, ob, sb, db, cb, lm⟩ := s
  cases w with
  | none => simp [FragS4] at hf
  | some w =>
  cases w with
  | cons _ _ => simp [FragS4] at hf
  | nil =>
  cases cols with
  | nil => simp [FragS4] at hf
  | cons c cs =>
    simp only [FragS4, Bool.and_eq_true, Bool.or_eq_true, Bool.not_eq_true'] at hf
    simp only [szS4] at hs
    obtain ⟨⟨⟨⟨⟨⟨⟨⟨⟨⟨⟨⟨⟨h1, _⟩, h3⟩, hl⟩, h4⟩, h5⟩, h6⟩, h7⟩, h8⟩, hsb⟩, hdb⟩, hcb⟩, h9⟩, h10⟩ := hf
    have hc := cols_rec n ihe (c :: cs) (by omega) h1
    refine ⟨dist, c, cs, fr, lats, js, wh, gb, hv, ob, sb, db, cb, lm, rfl, hc c (by simp), fun c' h' => hc c' (by simp [h']), ?_,
      from_rec n ihq fr (by omega) h3, lats_rec n ihe lats (by omega) hl, joins_rec n ihe ihq js (by omega) h4, opt_rec n ihe wh (by omega) h5,
      group_rec n ihe hch gb (by omega) h6, opt_rec n ihe hv (by omega) h7, order_rec n ihe ob (by omega) h8, order_rec n ihe sb (by omega) hsb,
      by_rec n ihe db (by omega) hdb, by_rec n ihe cb (by omega) hcb, h9⟩
    rcases h10 with h | h
    · exact Or.inl h
    · exact Or.inr (hch.dist _ h)
include ihe ihq in
theorem un_rec (hch : ChOK d ch) : ∀ us, szUn2 us ≤ n + 1 → FragUn2 d us = true → UnRec d ch us := by
  intro us
  induction us with
  | nil => intro _ _; trivial
  | cons p r ihu =>
    obtain ⟨t, s⟩ := p
    intro hs hf
    simp only [szUn2] at hs
    simp only [FragUn2, Bool.and_eq_true] at hf
    exact ⟨hf.1.1, srec n ihe ihq hch s (by omega) hf.1.2, ihu (by omega) hf.2⟩
include ihe ihq in
/-- the query half of the induction step -/
theorem query_step (hch : ChOK d ch) : ∀ q, szQ2 q ≤ n + 1 → FragQ2 d q = true → QT d ch q := by
  intro q hs hf
  cases q with
  | single s =>
    simp only [FragQ2] at hf; simp only [szQ2] at hs
    exact qt_single s (srec n ihe ihq hch s (by omega) hf)
  | union ws s us =>
    simp only [szQ2] at hs
    cases ws with
    | none => simp [FragQ2] at hf
    | some l =>
      cases l with
      | cons _ _ => simp [FragQ2] at hf
      | nil =>
        simp only [FragQ2, Bool.and_eq_true, Bool.not_eq_true', Bool.true_and] at hf
        exact qt_union s us (srec n ihe ihq hch s (by omega) hf.1.1) (un_rec n ihe ihq hch us (by omega) hf.1.2) hf.2
end step

/-- **the mutual induction** -/
theorem all (hch : ChOK d ch) : ∀ n, (∀ e, szE4 e ≤ n → FragE4 d e = true → RT4 d ch e) ∧ (∀ q, szQ2 q ≤ n → FragQ2 d q = true → QT d ch q) := by
  intro n
  induction n with
  | zero =>
    refine ⟨fun e he => ?_, fun q hq => ?_⟩
    · have := szE4_pos e; omega
    · cases q <;> simp [szQ2] at hq
  | succ n ih => exact ⟨expr_step n ih.1 ih.2, query_step n ih.1 ih.2 hch⟩
theorem rt4 (hch : ChOK d ch) (e : Expr) (hf : FragE4 d e = true) : RT4 d ch e := (all hch (szE4 e)).1 e (Nat.le_refl _) hf
theorem qt (hch : ChOK d ch) (q : Query) (hf : FragQ2 d q = true) : QT d ch q := (all hch (szQ2 q)).2 q (Nat.le_refl _) hf
theorem srec_of (hch : ChOK d ch) (s : Select) (hf : FragS4 d s = true) : SRec d ch s :=
  srec (szS4 s) (fun e _ h => rt4 hch e h) (fun q _ h => qt hch q h) hch s (by omega) hf
theorem unrec_of (hch : ChOK d ch) (us : List (String × Select)) (hf : FragUn2 d us = true) : UnRec d ch us :=
  un_rec (szUn2 us) (fun e _ h => rt4 hch e h) (fun q _ h => qt hch q h) hch us (by omega) hf

end TQ2
