import MsqProofs.Lemmas.ParseKCase5
/-! DERIVED by tools/gen_kcase.py from ParseCase7.lean (identifier substitution `CE`→`KE`, `CER`→`KER`, `upAll`→`kmAll`) — C09, parser half, sharp form for reserved words -/

/-!
# C09, parser half — hand-written part 9: three fuel steps of the block by hand (`pSplit`, `pSelectStmt`, `pUnions`)
-/
set_option linter.unusedSimpArgs false
set_option linter.unusedVariables false
open Lex Ast
namespace PM

/-! ### two fuel steps of the block by hand (the generated two-sided split is too slow on them) -/
section hand
variable (d : Gen.D)
set_option maxHeartbeats 4000000

/-- `flush` of `pSplit`: the collected segment is parsed as one expression -/
def flushOfK (f : Nat) (acc : List Expr) (cur : List Tok) : Except Err (List Expr) :=
  if cur.isEmpty then .ok acc else
    match pCompute d f cur with
    | .ok (e, []) => .ok (acc ++ [e]) | .ok (_, _ :: _) => .error .parse | .error e => .error e
theorem pSplit_succK (f : Nat) (acc : List Expr) (cur ts : List Tok) : pSplit d (f+1) acc cur ts =
    match ts with
    | [] => flushOfK d f acc cur
    | t :: r => if t.equalsStr "," then (match flushOfK d f acc cur with | .ok acc' => pSplit d f acc' [] r | .error e => .error e)
                else pSplit d f acc (cur ++ [t]) r := by
  cases ts <;> simp only [pSplit, flushOfK] <;> rfl
theorem flushOf_ke (n : Nat) (ih : KCaseF d n) : ∀ x0 x1 y0 y1, ceq (List.map kmE) x0 y0 → KEL x1 y1 →
    KEX (ceq (List.map kmE)) (flushOfK d n x0 x1) (flushOfK d n y0 y1) := by
  intro x0 x1 y0 y1 hr0 hr1
  generalize h : flushOfK d n x0 x1 = res
  generalize h' : flushOfK d n y0 y1 = res'
  unfold flushOfK at h h'
  split_run <;> kel_sync <;> split_run' <;> ke_norm <;> kel_sync <;> ke_norm <;>
    grind -funext (gen := 40) (instances := 20000) (ematch := 30) [kmE]
theorem kel_snoc {a a' : List Tok} {t t' : Tok} (h1 : KEL a a') (h2 : KE t t') : KEL (a ++ [t]) (a' ++ [t']) :=
  kel_append h1 (by simp [h2])
grind_pattern kel_snoc => KEL a a', KE t t', a ++ [t]
theorem kcaseF_pSplit (n : Nat) (ih : KCaseF d n) :
    ∀ x0 x1 x2 y0 y1 y2, ceq (List.map kmE) x0 y0 → KEL x1 y1 → KEL x2 y2 → ∀ res res', pSplit d (n+1) x0 x1 x2 = res → pSplit d (n+1) y0 y1 y2 = res' → KEX (ceq (List.map kmE)) res res' := by
  intro x0 x1 x2 y0 y1 y2 hr0 hr1 hr2 res res' h h'
  have hf := flushOf_ke d n ih x0 x1 y0 y1 hr0 hr1
  rw [pSplit_succK] at h h'
  generalize flushOfK d n x0 x1 = fl at hf h
  generalize flushOfK d n y0 y1 = fl' at hf h'
  split_run <;> kel_sync <;> split_run' <;> ke_norm <;> kel_sync <;> ke_norm <;>
    grind -funext (gen := 40) (instances := 20000) (ematch := 30) [kmE]

/-- `set_with_clauses` on every branch of a union -/
theorem unionBranches_ke : ∀ (us us' : List (String × Select)), us.map (Prod.map km kmS) = us'.map (Prod.map km kmS) →
    (us.map fun p => (p.1, setWiths p.2)).map (Prod.map km kmS) = (us'.map fun p => (p.1, setWiths p.2)).map (Prod.map km kmS) := by
  intro us
  induction us with
  | nil => intro us' h; cases us' <;> simp_all
  | cons a us ih =>
    intro us' h
    cases us' with
    | nil => simp at h
    | cons a' us' =>
      obtain ⟨n, s⟩ := a; obtain ⟨n', s'⟩ := a'
      simp only [List.map_cons, List.cons.injEq, Prod.map, Prod.mk.injEq] at h ⊢
      exact ⟨⟨h.1.1, setWiths_ke h.1.2⟩, ih us' h.2⟩
theorem map_isEmpty_eqK {α β : Type} (f : α → β) (a b : List α) (h : a.map f = b.map f) : a.isEmpty = b.isEmpty := by
  cases a <;> cases b <;> simp_all
theorem kcaseF_pSelectStmt (n : Nat) (ih : KCaseF d n) :
    ∀ x0 x1 y0 y1, ceq (Option.map (List.map kmW)) x0 y0 → KEL x1 y1 → ∀ res res', pSelectStmt d (n+1) x0 x1 = res → pSelectStmt d (n+1) y0 y1 = res' → KER (ceq kmQ) res res' := by
  intro x0 x1 y0 y1 hr0 hr1 res res' h h'
  unfold pSelectStmt at h h'
  have hU := unionBranches_ke
  have hE := @map_isEmpty_eqK (String × Select) (String × Select) (Prod.map km kmS)
  cases x0 <;> cases y0 <;> simp only [ceq_def, Option.map_none, Option.map_some, reduceCtorEq, Option.some.injEq] at hr0 <;> dsimp only at h h' <;>
    split_run <;> kel_sync <;> split_run' <;> ke_norm <;> kel_sync <;> ke_norm <;>
    grind -funext (gen := 40) (instances := 20000) (ematch := 30) [kmE, kmW]

/-- `pUnions`: in lockstep (the generated two-sided split needs 12 minutes) -/
theorem kcaseF_pUnions (n : Nat) (ih : KCaseF d n) :
    ∀ x0 x1 x2 y0 y1 y2, ceq (List.map kmW) x0 y0 → ceq (List.map (Prod.map km kmS)) x1 y1 → KEL x2 y2 → ∀ res res', pUnions d (n+1) x0 x1 x2 = res → pUnions d (n+1) y0 y1 y2 = res' → KER (ceq (List.map (Prod.map km kmS))) res res' := by
  intro x0 x1 x2 y0 y1 y2 hr0 hr1 hr2 res res' h h'
  subst h h'
  unfold pUnions
  refine ker_ite (by rw [kel_setOpHead hr2]) (fun _ _ => ?_) (fun _ _ => ?_)
  · simp at hr1; simp [hr1, hr2]
  · rcases kel_firstEnum hr2 Gen.unionTypes with ⟨h1, h2⟩ | ⟨nm, r, r', h1, h2, h3⟩
    · rw [h1, h2]; simp
    · rw [h1, h2]; dsimp only
      have hs := ih.pSingle x0 r y0 r' hr0 h3
      revert hs; generalize pSingle d n x0 r = a; generalize pSingle d n y0 r' = b; intro hs
      match a, b, hs with
      | .ok (s, r1), .ok (s', r1'), hs =>
        simp at hs; dsimp only
        exact ih.pUnions _ _ _ _ _ _ hr0 (by simp at hr1 ⊢; simp [hr1, hs.1]) hs.2
      | .error e, .error e', hs => simp at hs; simp [hs]
      | .ok (_, _), .error _, hs => simp at hs
      | .error _, .ok (_, _), hs => simp at hs
end hand

end PM
