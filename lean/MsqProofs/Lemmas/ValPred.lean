import MsqModel.Val
import MsqModel.Gen.Schema
import MsqModel.Parse.Entry
/-!
# Predicates on generic values that are checked node by node, and their validity on every typed tree

`ValPred` abstracts a structural check of a `Val` (primitive leaves accepted, tuples checked element-wise, nodes checked
by a per-class test `N cls fieldNames` and field-wise).  `Val.immutable` (C11 b) and `Val.wellShaped fieldsOf` (the
shape tie to the regenerated class table) are instances.  `sat_*` prove by structural induction over the typed trees
that `toVal` of EVERY tree satisfies such a predicate as soon as the per-class test accepts the finitely many
(class, field names) pairs listed in `shapes`.
-/
open Ast Val PM
set_option linter.unusedSectionVars false

structure ValPred where
  P : Val → Bool
  PL : List Val → Bool
  PF : List (String × Val) → Bool
  N : String → List String → Bool
  none_ : P .none = true
  bool_ : ∀ b, P (.bool b) = true
  int_ : ∀ n, P (.int n) = true
  str_ : ∀ s, P (.str s) = true
  enum_ : ∀ c n, P (.enum c n) = true
  tuple_ : ∀ xs, P (.tuple xs) = PL xs
  node_ : ∀ c fs, P (.node c fs) = (N c (Val.fieldNames fs) && PF fs)
  nilL : PL [] = true
  consL : ∀ x r, PL (x :: r) = (P x && PL r)
  nilF : PF [] = true
  consF : ∀ n x r, PF ((n, x) :: r) = (P x && PF r)

/-- C11(b): no mutable container anywhere -/
def immPred : ValPred where
  P := Val.immutable
  PL := Val.immutableL
  PF := Val.immutableF
  N := fun _ _ => true
  none_ := by simp [Val.immutable]
  bool_ := by simp [Val.immutable]
  int_ := by simp [Val.immutable]
  str_ := by simp [Val.immutable]
  enum_ := by simp [Val.immutable]
  tuple_ := by simp [Val.immutable]
  node_ := by simp [Val.immutable]
  nilL := by simp [Val.immutableL]
  consL := by simp [Val.immutableL]
  nilF := by simp [Val.immutableF]
  consF := by simp [Val.immutableF]

/-- every node has exactly the dataclass fields of its class, in order -/
def shapePred (fieldsOf : String → Option (List String)) : ValPred where
  P := Val.wellShaped fieldsOf
  PL := Val.wellShapedL fieldsOf
  PF := Val.wellShapedF fieldsOf
  N := fun c ns => fieldsOf c == some ns
  none_ := by simp [Val.wellShaped]
  bool_ := by simp [Val.wellShaped]
  int_ := by simp [Val.wellShaped]
  str_ := by simp [Val.wellShaped]
  enum_ := by simp [Val.wellShaped]
  tuple_ := by simp [Val.wellShaped]
  node_ := by simp [Val.wellShaped]
  nilL := by simp [Val.wellShapedL]
  consL := by simp [Val.wellShapedL]
  nilF := by simp [Val.wellShapedF]
  consF := by simp [Val.wellShapedF]

/-- the (class, field names) pairs `toVal` builds -/
def shapes : List (String × List String) := [
  ("ASTAggregationFunction", ["name", "params", "is_distinct"]),
  ("ASTAlisaExpression", ["name"]),
  ("ASTAlterAddExpression", ["expression"]),
  ("ASTAlterAddPartitionExpression", ["if_not_exists", "partition"]),
  ("ASTAlterChangeExpression", ["from_column_name", "to_expression"]),
  ("ASTAlterDropColumnExpression", ["column_name"]),
  ("ASTAlterDropPartitionExpression", ["if_exists", "partition"]),
  ("ASTAlterModifyExpression", ["expression"]),
  ("ASTAlterRenameColumnExpression", ["from_column_name", "to_column_name"]),
  ("ASTAlterTableStatement", ["table_name", "expressions"]),
  ("ASTAnalyzeTableStatement", ["table_name", "partition", "for_columns", "cache_metadata", "noscan"]),
  ("ASTBetweenExpression", ["is_not", "before_value", "from_value", "to_value"]),
  ("ASTCaseConditionExpression", ["cases", "else_value"]),
  ("ASTCaseConditionItem", ["when", "then"]),
  ("ASTCaseValueExpression", ["case_value", "cases", "else_value"]),
  ("ASTCaseValueItem", ["when", "then"]),
  ("ASTCastDataType", ["signed", "type", "params"]),
  ("ASTCastFunctionExpression", ["name", "column_expression", "cast_type"]),
  ("ASTClusterByClause", ["columns"]),
  ("ASTColumnNameExpression", ["table_name", "column_name"]),
  ("ASTColumnTypeExpression", ["name", "params"]),
  ("ASTCompareOperator", ["enum"]),
  ("ASTComputeExpression", ["before_value", "after_value", "operator"]),
  ("ASTComputeOperator", ["enum"]),
  ("ASTConfigStringExpression", ["name", "value"]),
  ("ASTCreateTableAsStatement", ["table_name", "if_not_exists", "select_statement"]),
  ("ASTCreateTableStatement", ["table_name", "if_not_exists", "columns", "primary_key", "unique_key", "key", "fulltext_key", "foreign_key", "partitioned_by", "comment", "engine", "auto_increment", "default_charset", "collate", "row_format", "states_persistent", "row_format_serde", "row_format_delimited_fields_terminated_by", "stored_as_inputformat", "stored_as_textfile", "outputformat", "location", "tblproperties"]),
  ("ASTDefineColumnExpression", ["column_name", "column_type", "is_unsigned", "is_zerofill", "character_set", "collate", "generated_always_as", "is_allow_null", "is_not_null", "is_auto_increment", "default", "on_update", "comment"]),
  ("ASTDeleteStatement", ["table_name", "where_clause", "order_by_clause", "limit_clause"]),
  ("ASTDistributeByClause", ["columns"]),
  ("ASTDropTableStatement", ["if_exists", "table_name"]),
  ("ASTExistsExpression", ["value"]),
  ("ASTExtractFunctionExpression", ["name", "extract_name", "column_expression"]),
  ("ASTForeignKeyExpression", ["constraint_name", "slave_columns", "master_table_name", "master_columns", "on_delete", "on_update"]),
  ("ASTFromClause", ["tables"]),
  ("ASTFromTable", ["name", "alias"]),
  ("ASTFulltextIndexExpression", ["name", "columns", "using", "comment", "key_block_size"]),
  ("ASTFunctionNameExpression", ["schema_name", "function_name"]),
  ("ASTGeneratedColumn", ["expression", "save_mode"]),
  ("ASTGroupByClause", ["columns", "grouping_sets", "with_cube", "with_rollup"]),
  ("ASTGroupingSets", ["grouping_list"]),
  ("ASTHavingClause", ["condition"]),
  ("ASTInExpression", ["is_not", "before_value", "after_value"]),
  ("ASTIndexColumn", ["name", "max_length"]),
  ("ASTIndexExpression", ["array", "idx"]),
  ("ASTInsertSelectStatement", ["with_clause", "insert_type", "table_name", "partition", "columns", "select_statement"]),
  ("ASTInsertType", ["enum"]),
  ("ASTInsertValuesStatement", ["with_clause", "insert_type", "table_name", "partition", "columns", "values"]),
  ("ASTIsExpression", ["is_not", "before_value", "after_value"]),
  ("ASTJoinClause", ["type", "table", "rule"]),
  ("ASTJoinOnExpression", ["condition"]),
  ("ASTJoinType", ["enum"]),
  ("ASTJoinUsingExpression", ["using_function"]),
  ("ASTLateralViewClause", ["outer", "function", "view_name", "alias"]),
  ("ASTLikeExpression", ["is_not", "before_value", "after_value"]),
  ("ASTLimitClause", ["limit", "offset"]),
  ("ASTLiteralExpression", ["value"]),
  ("ASTLogicalAndExpression", ["before_value", "after_value"]),
  ("ASTLogicalNotExpression", ["expression"]),
  ("ASTLogicalOrExpression", ["before_value", "after_value"]),
  ("ASTLogicalXorExpression", ["before_value", "after_value"]),
  ("ASTMsckRepairTableStatement", ["table_name"]),
  ("ASTMultiAlisaExpression", ["names"]),
  ("ASTNormalFunctionExpression", ["name", "params"]),
  ("ASTNormalIndexExpression", ["name", "columns", "using", "comment", "key_block_size"]),
  ("ASTOperatorConditionExpression", ["before_value", "after_value", "operator"]),
  ("ASTOrderByClause", ["columns"]),
  ("ASTOrderByColumn", ["column", "order", "nulls_first", "nulls_last"]),
  ("ASTOrderType", ["enum"]),
  ("ASTPartitionExpression", ["partitions"]),
  ("ASTPrimaryIndexExpression", ["name", "columns", "using", "comment", "key_block_size"]),
  ("ASTRegexpExpression", ["is_not", "before_value", "after_value"]),
  ("ASTRlikeExpression", ["is_not", "before_value", "after_value"]),
  ("ASTSelectClause", ["distinct", "columns"]),
  ("ASTSelectColumn", ["value", "alias"]),
  ("ASTSetStatement", ["config"]),
  ("ASTShowColumnsStatement", ["from_clause", "where_clause"]),
  ("ASTShowDatabasesStatement", []),
  ("ASTShowTablesStatement", []),
  ("ASTSingleSelectStatement", ["with_clause", "select_clause", "from_clause", "lateral_view_clauses", "join_clauses", "where_clause", "group_by_clause", "having_clause", "order_by_clause", "sort_by_clause", "distribute_by_clause", "cluster_by_clause", "limit_clause"]),
  ("ASTSortByClause", ["columns"]),
  ("ASTSubQueryExpression", ["statement"]),
  ("ASTSubValueExpression", ["values"]),
  ("ASTTableNameExpression", ["schema_name", "table_name"]),
  ("ASTTruncateTable", ["table_name"]),
  ("ASTUnaryExpression", ["operator", "expression"]),
  ("ASTUnionSelectStatement", ["with_clause", "elements"]),
  ("ASTUnionType", ["enum"]),
  ("ASTUniqueIndexExpression", ["name", "columns", "using", "comment", "key_block_size"]),
  ("ASTUpdateSetClause", ["columns"]),
  ("ASTUpdateSetColumn", ["column_name", "column_value"]),
  ("ASTUpdateStatement", ["with_clause", "table_name", "set_clause", "where_clause", "order_by_clause", "limit_clause"]),
  ("ASTUseStatement", ["schema_name"]),
  ("ASTWhereClause", ["condition"]),
  ("ASTWildcardExpression", ["table_name"]),
  ("ASTWindowExpression", ["window_function", "partition_by_columns", "order_by_columns", "row_expression"]),
  ("ASTWindowRow", ["from_row", "to_row"]),
  ("ASTWindowRowItem", ["row_type", "is_unbounded", "row_num"]),
  ("ASTWithClause", ["tables"]),
  ("ASTWithTable", ["name", "statement"]),
  ("SQLMyBatisExpression", ["mybatis_source"])]

namespace ValPred
variable (Q : ValPred)

theorem mapL {α : Type} (f : α → Val) (h : ∀ a, Q.P (f a) = true) : ∀ l : List α, Q.PL (l.map f) = true
  | [] => by simp [Q.nilL]
  | a :: r => by simp [Q.consL, h a, mapL f h r]

theorem ofOpt_ {α : Type} (f : α → Val) (h : ∀ a, Q.P (f a) = true) : ∀ o : Option α, Q.P (Val.ofOpt f o) = true
  | Option.none => by simp [Val.ofOpt, Q.none_]
  | Option.some a => by simp [Val.ofOpt, h a]

theorem optStr_ (o : Option String) : Q.P (Val.optStr o) = true := Q.ofOpt_ _ Q.str_ o
theorem optInt_ (o : Option Int) : Q.P (Val.optInt o) = true := Q.ofOpt_ _ Q.int_ o
theorem strs_ (l : List String) : Q.P (Val.strs l) = true := by simp [Val.strs, Q.tuple_, Q.mapL _ Q.str_]


/-- the per-class test accepts every shape `toVal` builds -/
def Accepts : Prop := ∀ c ns, (c, ns) ∈ shapes → Q.N c ns = true

section
variable {Q} (hN : Q.Accepts)
include hN

/-- close the goals left by `simp`: per-class tests, discharged from `hN` by looking the pair up in `shapes` -/
local macro "shape_goals" : tactic =>
  `(tactic| all_goals ((repeat' apply And.intro) <;> (first | (apply hN; decide) | assumption)))

local macro "node_simp" : tactic =>
  `(tactic| simp_all only [ValPred.node_, ValPred.tuple_, ValPred.consF, ValPred.nilF, ValPred.consL, ValPred.nilL, ValPred.none_, ValPred.bool_,
      ValPred.int_, ValPred.str_, ValPred.enum_, ValPred.optStr_, ValPred.optInt_, ValPred.strs_, Val.fieldNames, Bool.and_eq_true, Bool.and_true, and_true, true_and])

theorem rowItem_sat : ∀ r : RowItem, Q.P r.toVal = true
  | .current => by simp only [RowItem.toVal]; node_simp; shape_goals
  | .unbounded p => by simp only [RowItem.toVal]; node_simp; shape_goals
  | .num n p => by simp only [RowItem.toVal]; node_simp; shape_goals

theorem fnName_sat (sc : Option String) (n : String) : Q.P (fnName sc n) = true := by
  simp only [fnName]; node_simp; shape_goals
theorem alias_sat (a : Option String) : Q.P (alias a) = true := by
  unfold alias
  apply Q.ofOpt_
  intro n
  node_simp; shape_goals
theorem limit_sat (l : Option (Int × Option Int)) : Q.P (limitVal l) = true := by
  unfold limitVal
  apply Q.ofOpt_
  intro p
  node_simp; shape_goals
theorem tableName_sat (sc : Option String) (n : String) : Q.P (tableNameVal sc n) = true := by
  simp only [tableNameVal]; node_simp; shape_goals
omit hN in
theorem ints_sat (l : List Int) : Q.PL (l.map Val.int) = true := Q.mapL _ Q.int_ l

mutual
theorem expr_sat : ∀ e : Expr, Q.P e.toVal = true
  | .column t _ => by simp only [Expr.toVal]; node_simp; shape_goals
  | .literal _ => by simp only [Expr.toVal]; node_simp; shape_goals
  | .wildcard t => by simp only [Expr.toVal]; node_simp; shape_goals
  | .func sc n ps => by
    have := exprs_sat ps; have := fnName_sat hN sc n
    simp only [Expr.toVal]; node_simp; shape_goals
  | .agg n ps d => by
    have := exprs_sat ps; have := fnName_sat hN Option.none n
    simp only [Expr.toVal]; node_simp; shape_goals
  | .cast e sg ty ps => by
    have := expr_sat e; have := fnName_sat hN Option.none "CAST"
    cases ps with
    | none => simp only [Expr.toVal]; node_simp; shape_goals
    | some l =>
      have := ints_sat (Q := Q) l
      simp only [Expr.toVal]; node_simp; shape_goals
  | .extract n e => by
    have := expr_sat n; have := expr_sat e; have := fnName_sat hN Option.none "EXTRACT"
    simp only [Expr.toVal]; node_simp; shape_goals
  | .window fn part ord rows => by
    have := expr_sat fn; have := exprs_sat part; have := orders_sat ord
    rcases rows with _ | ⟨a, b⟩
    · simp only [Expr.toVal]; node_simp; shape_goals
    · have := rowItem_sat hN a; have := rowItem_sat hN b
      simp only [Expr.toVal]; node_simp; shape_goals
  | .caseCond cs els => by
    have := arms_sat "ASTCaseConditionItem" (hN _ _ (by decide)) cs; have := optExpr_sat els
    simp only [Expr.toVal]; node_simp; shape_goals
  | .caseVal v cs els => by
    have := expr_sat v; have := arms_sat "ASTCaseValueItem" (hN _ _ (by decide)) cs; have := optExpr_sat els
    simp only [Expr.toVal]; node_simp; shape_goals
  | .subValue vs => by
    have := exprs_sat vs
    simp only [Expr.toVal]; node_simp; shape_goals
  | .subQuery q => by
    have := query_sat q
    simp only [Expr.toVal]; node_simp; shape_goals
  | .exists_ v => by
    have := expr_sat v
    simp only [Expr.toVal]; node_simp; shape_goals
  | .index a i => by
    have := expr_sat a; have := expr_sat i
    simp only [Expr.toVal]; node_simp; shape_goals
  | .unary _ e => by
    have := expr_sat e
    simp only [Expr.toVal]; node_simp; shape_goals
  | .compute l _ r => by
    have := expr_sat l; have := expr_sat r
    simp only [Expr.toVal]; node_simp; shape_goals
  | .kw k _ l r => by
    have := expr_sat l; have := expr_sat r
    cases k <;> (simp only [Expr.toVal, KwKind.cls]; node_simp; shape_goals)
  | .between _ b f t => by
    have := expr_sat b; have := expr_sat f; have := expr_sat t
    simp only [Expr.toVal]; node_simp; shape_goals
  | .compare _ l r => by
    have := expr_sat l; have := expr_sat r
    simp only [Expr.toVal]; node_simp; shape_goals
  | .not_ e => by
    have := expr_sat e
    simp only [Expr.toVal]; node_simp; shape_goals
  | .and_ l r => by
    have := expr_sat l; have := expr_sat r
    simp only [Expr.toVal]; node_simp; shape_goals
  | .xor l r => by
    have := expr_sat l; have := expr_sat r
    simp only [Expr.toVal]; node_simp; shape_goals
  | .or_ l r => by
    have := expr_sat l; have := expr_sat r
    simp only [Expr.toVal]; node_simp; shape_goals
  | .mybatis _ => by simp only [Expr.toVal]; node_simp; shape_goals
theorem exprs_sat : ∀ es : List Expr, Q.PL (exprs es) = true
  | [] => by simp only [exprs]; node_simp
  | e :: r => by
    have := expr_sat e; have := exprs_sat r
    simp only [exprs]; node_simp; shape_goals
theorem optExpr_sat : ∀ e : Option Expr, Q.P (optExpr e) = true
  | Option.none => by simp only [optExpr]; node_simp
  | Option.some e => by
    have := expr_sat e
    simp only [optExpr]; node_simp
theorem arms_sat (cls : String) (hc : Q.N cls ["when", "then"] = true) : ∀ cs : List (Expr × Expr), Q.PL (arms cls cs) = true
  | [] => by simp only [arms]; node_simp
  | (w, t) :: r => by
    have := expr_sat w; have := expr_sat t; have := arms_sat cls hc r
    simp only [arms]; node_simp; shape_goals
theorem order_sat : ∀ o : OrderItem, Q.P o.toVal = true
  | .mk e _ _ _ => by
    have := expr_sat e
    simp only [OrderItem.toVal]; node_simp; shape_goals
theorem orders_sat : ∀ os : List OrderItem, Q.PL (orders os) = true
  | [] => by simp only [orders]; node_simp
  | o :: r => by
    have := order_sat o; have := orders_sat r
    simp only [orders]; node_simp; shape_goals
theorem ref_sat : ∀ t : TableRef, Q.P t.toVal = true
  | .table sc n => by
    have := tableName_sat hN sc n
    simp only [TableRef.toVal]; node_simp
  | .sub q => by
    have := query_sat q
    simp only [TableRef.toVal]; node_simp; shape_goals
theorem fromTable_sat : ∀ t : FromTable, Q.P t.toVal = true
  | .mk t a => by
    have := ref_sat t; have := alias_sat hN a
    simp only [FromTable.toVal]; node_simp; shape_goals
theorem fromTables_sat : ∀ ts : List FromTable, Q.PL (fromTables ts) = true
  | [] => by simp only [fromTables]; node_simp
  | t :: r => by
    have := fromTable_sat t; have := fromTables_sat r
    simp only [fromTables]; node_simp; shape_goals
theorem rule_sat : ∀ r : JoinRule, Q.P r.toVal = true
  | .on e => by
    have := expr_sat e
    simp only [JoinRule.toVal]; node_simp; shape_goals
  | .using f => by
    have := expr_sat f
    simp only [JoinRule.toVal]; node_simp; shape_goals
theorem join_sat : ∀ j : Join, Q.P j.toVal = true
  | .mk _ t rule => by
    have := fromTable_sat t
    rcases rule with _ | r
    · simp only [Join.toVal]; node_simp; shape_goals
    · have := rule_sat r
      simp only [Join.toVal]; node_simp; shape_goals
theorem joins_sat : ∀ js : List Join, Q.PL (joins js) = true
  | [] => by simp only [joins]; node_simp
  | j :: r => by
    have := join_sat j; have := joins_sat r
    simp only [joins]; node_simp; shape_goals
theorem exprLists_sat : ∀ l : List (List Expr), Q.PL (exprLists l) = true
  | [] => by simp only [exprLists]; node_simp
  | g :: r => by
    have := exprs_sat g; have := exprLists_sat r
    simp only [exprLists]; node_simp; shape_goals
theorem group_sat : ∀ g : GroupBy, Q.P g.toVal = true
  | .mk cols sets _ _ => by
    have := exprs_sat cols
    rcases sets with _ | l
    · simp only [GroupBy.toVal]; node_simp; shape_goals
    · have := exprLists_sat l
      simp only [GroupBy.toVal]; node_simp; shape_goals
theorem lateral_sat : ∀ l : Lateral, Q.P l.toVal = true
  | .mk _ fn _ as => by
    have := expr_sat fn
    simp only [Lateral.toVal]; node_simp; shape_goals
theorem laterals_sat : ∀ ls : List Lateral, Q.PL (laterals ls) = true
  | [] => by simp only [laterals]; node_simp
  | l :: r => by
    have := lateral_sat l; have := laterals_sat r
    simp only [laterals]; node_simp; shape_goals
theorem withTable_sat : ∀ w : WithTable, Q.P w.toVal = true
  | .mk _ q => by
    have := query_sat q
    simp only [WithTable.toVal]; node_simp; shape_goals
theorem withTables_sat : ∀ ws : List WithTable, Q.PL (withTables ws) = true
  | [] => by simp only [withTables]; node_simp
  | w :: r => by
    have := withTable_sat w; have := withTables_sat r
    simp only [withTables]; node_simp; shape_goals
theorem withs_sat : ∀ ws : Option (List WithTable), Q.P (withsVal ws) = true
  | Option.none => by simp only [withsVal]; node_simp
  | Option.some ws => by
    have := withTables_sat ws
    simp only [withsVal]; node_simp; shape_goals
theorem cols_sat : ∀ cs : List (Expr × Option String), Q.PL (selectCols cs) = true
  | [] => by simp only [selectCols]; node_simp
  | (e, a) :: r => by
    have := expr_sat e; have := cols_sat r; have := alias_sat hN a
    simp only [selectCols]; node_simp; shape_goals
theorem fromClause_sat : ∀ fr : Option (List FromTable), Q.P (fromClauseVal fr) = true
  | Option.none => by simp only [fromClauseVal]; node_simp
  | Option.some l => by
    have := fromTables_sat l
    simp only [fromClauseVal]; node_simp; shape_goals
theorem whereClause_sat : ∀ wh : Option Expr, Q.P (whereClauseVal wh) = true
  | Option.none => by simp only [whereClauseVal]; node_simp
  | Option.some e => by
    have := expr_sat e
    simp only [whereClauseVal]; node_simp; shape_goals
theorem groupByClause_sat : ∀ gb : Option GroupBy, Q.P (groupByClauseVal gb) = true
  | Option.none => by simp only [groupByClauseVal]; node_simp
  | Option.some g => by
    have := group_sat g
    simp only [groupByClauseVal]; node_simp
theorem havingClause_sat : ∀ hv : Option Expr, Q.P (havingClauseVal hv) = true
  | Option.none => by simp only [havingClauseVal]; node_simp
  | Option.some e => by
    have := expr_sat e
    simp only [havingClauseVal]; node_simp; shape_goals
theorem orderByClause_sat : ∀ ob : Option (List OrderItem), Q.P (orderByClauseVal ob) = true
  | Option.none => by simp only [orderByClauseVal]; node_simp
  | Option.some l => by
    have := orders_sat l
    simp only [orderByClauseVal]; node_simp; shape_goals
theorem sortByClause_sat : ∀ ob : Option (List OrderItem), Q.P (sortByClauseVal ob) = true
  | Option.none => by simp only [sortByClauseVal]; node_simp
  | Option.some l => by
    have := orders_sat l
    simp only [sortByClauseVal]; node_simp; shape_goals
theorem distributeByClause_sat : ∀ db : Option (List Expr), Q.P (distributeByClauseVal db) = true
  | Option.none => by simp only [distributeByClauseVal]; node_simp
  | Option.some l => by
    have := exprs_sat l
    simp only [distributeByClauseVal]; node_simp; shape_goals
theorem clusterByClause_sat : ∀ cb : Option (List Expr), Q.P (clusterByClauseVal cb) = true
  | Option.none => by simp only [clusterByClauseVal]; node_simp
  | Option.some l => by
    have := exprs_sat l
    simp only [clusterByClauseVal]; node_simp; shape_goals
theorem select_sat : ∀ s : Select, Q.P s.toVal = true
  | .mk ws dist cols fr lats js wh gb hv ob sb db cb lm => by
    have := withs_sat ws; have := cols_sat cols; have := fromClause_sat fr; have := laterals_sat lats; have := joins_sat js
    have := whereClause_sat wh; have := groupByClause_sat gb; have := havingClause_sat hv; have := orderByClause_sat ob
    have := sortByClause_sat sb; have := distributeByClause_sat db; have := clusterByClause_sat cb; have := limit_sat hN lm
    simp only [Select.toVal]; node_simp; shape_goals
theorem unionElems_sat : ∀ us : List (String × Select), Q.PL (unionElems us) = true
  | [] => by simp only [unionElems]; node_simp
  | (_, s) :: r => by
    have := select_sat s; have := unionElems_sat r
    simp only [unionElems]; node_simp; shape_goals
theorem query_sat : ∀ q : Query, Q.P q.toVal = true
  | .single s => by
    have := select_sat s
    simp only [Query.toVal]; node_simp
  | .union ws s us => by
    have := withs_sat ws; have := select_sat s; have := unionElems_sat us
    simp only [Query.toVal]; node_simp; shape_goals
end

theorem tblName_sat (t : TableName) : Q.P t.toVal = true := tableName_sat hN _ _
theorem partition_sat (p : List Expr) : Q.P (partitionVal p) = true := by
  have := exprs_sat hN p
  simp only [partitionVal]; node_simp; shape_goals
theorem colType_sat (t : ColType) : Q.P t.toVal = true := by
  rcases t with ⟨n, _ | l⟩
  · simp only [ColType.toVal]; node_simp; shape_goals
  · have := exprs_sat hN l
    simp only [ColType.toVal]; node_simp; shape_goals
theorem genCol_sat (g : GenCol) : Q.P g.toVal = true := by
  have := expr_sat hN g.e
  have : Q.P (ofOpt (Val.enum "EnumGenerateColumnSaveMode") g.mode) = true := Q.ofOpt_ _ (Q.enum_ _) _
  simp only [GenCol.toVal]; node_simp; shape_goals
theorem defCol_sat (c : DefCol) : Q.P c.toVal = true := by
  have := colType_sat hN c.type
  have : Q.P (ofOpt GenCol.toVal c.generated) = true := Q.ofOpt_ _ (genCol_sat hN) _
  have := optExpr_sat hN c.default; have := optExpr_sat hN c.onUpdate
  simp only [DefCol.toVal]; node_simp; shape_goals
theorem indexCol_sat (c : IndexCol) : Q.P c.toVal = true := by
  simp only [IndexCol.toVal]; node_simp; shape_goals
theorem index_sat (i : Index) : Q.P i.toVal = true := by
  have := Q.mapL _ (indexCol_sat hN) i.cols
  rcases i with ⟨k, a, b, c, d, e⟩
  cases k <;> (simp only [Index.toVal, IndexKind.cls]; node_simp; shape_goals)
theorem foreignKey_sat (f : ForeignKey) : Q.P f.toVal = true := by
  simp only [ForeignKey.toVal]; node_simp; shape_goals
theorem colOrIdx_sat : ∀ x : ColOrIdx, Q.P x.toVal = true
  | .col c => defCol_sat hN c
  | .idx i => index_sat hN i
  | .fk f => foreignKey_sat hN f
theorem alterOp_sat : ∀ o : AlterOp, Q.P o.toVal = true
  | .addPartition b p => by
    have := partition_sat hN p
    simp only [AlterOp.toVal]; node_simp; shape_goals
  | .add x => by
    have := colOrIdx_sat hN x
    simp only [AlterOp.toVal]; node_simp; shape_goals
  | .modify x => by
    have := colOrIdx_sat hN x
    simp only [AlterOp.toVal]; node_simp; shape_goals
  | .change f t => by
    have := colOrIdx_sat hN t
    simp only [AlterOp.toVal]; node_simp; shape_goals
  | .renameColumn f t => by simp only [AlterOp.toVal]; node_simp; shape_goals
  | .dropColumn c => by simp only [AlterOp.toVal]; node_simp; shape_goals
  | .dropPartition b p => by
    have := partition_sat hN p
    simp only [AlterOp.toVal]; node_simp; shape_goals
theorem configStr_sat (c : ConfigStr) : Q.P c.toVal = true := by
  simp only [ConfigStr.toVal]; node_simp; shape_goals
theorem createTable_sat (c : CreateTable) : Q.P c.toVal = true := by
  have := tblName_sat hN c.table
  have := Q.mapL _ (defCol_sat hN) c.columns
  have : Q.P (ofOpt Index.toVal c.primaryKey) = true := Q.ofOpt_ _ (index_sat hN) _
  have := Q.mapL _ (index_sat hN) c.uniqueKey
  have := Q.mapL _ (index_sat hN) c.key
  have := Q.mapL _ (index_sat hN) c.fulltextKey
  have := Q.mapL _ (foreignKey_sat hN) c.foreignKey
  have := Q.mapL _ (defCol_sat hN) c.partitionedBy
  have := Q.mapL _ (configStr_sat hN) c.tblproperties
  simp only [CreateTable.toVal]; node_simp; shape_goals
theorem insertHead_sat (h : InsertHead) : Q.PF h.fields = true ∧ Val.fieldNames h.fields = ["with_clause", "insert_type", "table_name", "partition", "columns"] := by
  have := withs_sat hN h.withs; have := tblName_sat hN h.table
  have : Q.P (ofOpt partitionVal h.partition) = true := Q.ofOpt_ _ (partition_sat hN) _
  rcases h with ⟨a, b, c, d, _ | cs⟩
  · simp only [InsertHead.fields]; node_simp; shape_goals
  · have := Q.mapL (fun (x : Option String × String) => (Expr.column x.1 x.2).toVal) (fun x => expr_sat hN _) cs
    simp only [InsertHead.fields]; node_simp; shape_goals
theorem whereVal_sat (e : Option Expr) : Q.P (whereVal e) = true := by
  unfold whereVal
  apply Q.ofOpt_
  intro e
  have := expr_sat hN e
  node_simp; shape_goals
theorem orderVal_sat (l : Option (List OrderItem)) : Q.P (orderVal l) = true := by
  unfold orderVal
  apply Q.ofOpt_
  intro l
  have := orders_sat hN l
  node_simp; shape_goals

omit hN in
theorem fieldNames_append (a b : List (String × Val)) : Val.fieldNames (a ++ b) = Val.fieldNames a ++ Val.fieldNames b := by
  induction a with
  | nil => simp [Val.fieldNames]
  | cons p r ih =>
    obtain ⟨n, v⟩ := p
    simp [Val.fieldNames, ih]
omit hN in
theorem PF_append (a b : List (String × Val)) : Q.PF (a ++ b) = (Q.PF a && Q.PF b) := by
  induction a with
  | nil => simp [Q.nilF]
  | cons p r ih =>
    obtain ⟨n, v⟩ := p
    simp [Q.consF, ih, Bool.and_assoc]

/-- **every statement tree satisfies the predicate** -/
theorem stmt_sat : ∀ s : Stmt, Q.P s.toVal = true
  | .select q => query_sat hN q
  | .insertValues h vs => by
    obtain ⟨h1, h2⟩ := insertHead_sat hN h
    have := Q.mapL (fun r => (Expr.subValue r).toVal) (fun r => expr_sat hN _) vs
    simp only [Stmt.toVal, Q.node_, fieldNames_append, PF_append, h1, h2]; node_simp; shape_goals
  | .insertSelect h q => by
    obtain ⟨h1, h2⟩ := insertHead_sat hN h
    have := query_sat hN q
    simp only [Stmt.toVal, Q.node_, fieldNames_append, PF_append, h1, h2]; node_simp; shape_goals
  | .update ws t sets wh ob lm => by
    have := withs_sat hN ws; have := tblName_sat hN t; have := whereVal_sat hN wh; have := orderVal_sat hN ob; have := limit_sat hN lm
    have := Q.mapL (fun (x : String × Expr) => Val.node "ASTUpdateSetColumn" [("column_name", .str x.1), ("column_value", x.2.toVal)])
      (fun x => by have := expr_sat hN x.2; node_simp; shape_goals) sets
    simp only [Stmt.toVal]; node_simp; shape_goals
  | .delete t wh ob lm => by
    have := tblName_sat hN t; have := whereVal_sat hN wh; have := orderVal_sat hN ob; have := limit_sat hN lm
    simp only [Stmt.toVal]; node_simp; shape_goals
  | .createTable c => createTable_sat hN c
  | .createTableAs t ine q => by
    have := tblName_sat hN t; have := query_sat hN q
    simp only [Stmt.toVal]; node_simp; shape_goals
  | .dropTable b t => by
    have := tblName_sat hN t
    simp only [Stmt.toVal]; node_simp; shape_goals
  | .set c => by
    have := configStr_sat hN c
    simp only [Stmt.toVal]; node_simp; shape_goals
  | .analyze t p fc cm ns => by
    have := tblName_sat hN t
    have : Q.P (ofOpt partitionVal p) = true := Q.ofOpt_ _ (partition_sat hN) _
    simp only [Stmt.toVal]; node_simp; shape_goals
  | .alter t ops => by
    have := tblName_sat hN t; have := Q.mapL _ (alterOp_sat hN) ops
    simp only [Stmt.toVal]; node_simp; shape_goals
  | .msck t => by
    have := tblName_sat hN t
    simp only [Stmt.toVal]; node_simp; shape_goals
  | .use s => by simp only [Stmt.toVal]; node_simp; shape_goals
  | .truncate t => by
    have := tblName_sat hN t
    simp only [Stmt.toVal]; node_simp; shape_goals
  | .showDatabases => by simp only [Stmt.toVal]; node_simp; shape_goals
  | .showTables => by simp only [Stmt.toVal]; node_simp; shape_goals
  | .showColumns fr wh => by
    have := fromTables_sat hN fr; have := whereVal_sat hN wh
    simp only [Stmt.toVal]; node_simp; shape_goals

/-! ### the public entry points of the parser model -/

theorem exprEntry_sat (p : Gen.D → Nat → List Lex.Tok → R Expr) (d f ts v r) (h : exprEntry p d f ts = .ok (v, r)) : Q.P v = true := by
  unfold exprEntry at h
  split at h
  · injection h with h; injection h with h1 h2; subst h1; exact expr_sat hN _
  · cases h
theorem stmtEntry_sat (p : Gen.D → Nat → List Lex.Tok → R Stmt) (d f ts v r) (h : stmtEntry p d f ts = .ok (v, r)) : Q.P v = true := by
  unfold stmtEntry at h
  split at h
  · injection h with h; injection h with h1 h2; subst h1; exact stmt_sat hN _
  · cases h
theorem mapEntry_sat {α : Type} (p : Gen.D → Nat → List Lex.Tok → R α) (tv : α → Val) (htv : ∀ a, Q.P (tv a) = true) (d f ts v r)
    (h : mapEntry p tv d f ts = .ok (v, r)) : Q.P v = true := by
  unfold mapEntry at h
  split at h
  · injection h with h; injection h with h1 h2; subst h1; exact htv _
  · cases h

theorem optGroup_sat : ∀ g : Option GroupBy, Q.P (match g with | Option.none => Val.none | Option.some g => GroupBy.toVal g) = true
  | Option.none => Q.none_
  | Option.some g => group_sat hN g

theorem entries_sat : ∀ e ∈ PM.entries, e.1 ≠ "statements" → ∀ d f ts v r, e.2 d f ts = .ok (v, r) → Q.P v = true := by
  simp only [PM.entries, List.forall_mem_cons]
  repeat' apply And.intro
  all_goals try (intro e he; exact absurd he List.not_mem_nil)
  all_goals intro hne d f ts v r h
  all_goals first
    | exact exprEntry_sat hN _ d f ts v r h
    | exact stmtEntry_sat hN _ d f ts v r h
    | skip
  all_goals first
    | exact absurd rfl hne
    | exact mapEntry_sat hN _ _ (fromTable_sat hN) d f ts v r h
    | exact mapEntry_sat hN _ _ (join_sat hN) d f ts v r h
    | exact mapEntry_sat hN _ _ (ref_sat hN) d f ts v r h
    | exact mapEntry_sat hN _ _ (whereVal_sat hN) d f ts v r h
    | exact mapEntry_sat hN _ _ (orderVal_sat hN) d f ts v r h
    | exact mapEntry_sat hN _ _ (optGroup_sat hN) d f ts v r h
    | exact mapEntry_sat hN _ _ (fun ws => withs_sat hN (some ws)) d f ts v r h
    | exact mapEntry_sat hN _ _ (lateral_sat hN) d f ts v r h
    | exact mapEntry_sat hN _ _ (select_sat hN) d f ts v r h
    | exact mapEntry_sat hN _ _ (query_sat hN) d f ts v r h
    | exact mapEntry_sat hN _ _ (colType_sat hN) d f ts v r h
    | exact mapEntry_sat hN _ _ (partition_sat hN) d f ts v r h
    | exact mapEntry_sat hN _ _ (defCol_sat hN) d f ts v r h
    | exact mapEntry_sat hN _ _ (colOrIdx_sat hN) d f ts v r h
    | exact mapEntry_sat hN _ _ (alterOp_sat hN) d f ts v r h
    | skip
  all_goals
    try simp only at h
    split at h
    · injection h with h; injection h with h1 h2; subst h1
      first
        | exact expr_sat hN _ | exact stmt_sat hN _ | exact tblName_sat hN _ | exact fnName_sat hN _ _ | exact limit_sat hN _
        | exact configStr_sat hN _ | exact foreignKey_sat hN _ | exact indexCol_sat hN _ | exact index_sat hN _
    · cases h

end
end ValPred
