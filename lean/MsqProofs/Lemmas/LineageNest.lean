import MsqProofs.Lemmas.LineageSet
/-!
# Lineage: nesting — derived tables and WITH tables at any depth, by induction on the depth budget
-/
namespace LineageL
open Ast AN LN Spec Flow

/-- the stores agree outside the names in `B` -/
def Frame (B : List String) (st st' : St) : Prop :=
  ∀ k, k ∉ B → dictGet? st'.subq k = dictGet? st.subq k ∧ dictGet? st'.withT k = dictGet? st.withT k

theorem Frame.refl (B : List String) (st : St) : Frame B st st := fun _ _ => ⟨rfl, rfl⟩
theorem Frame.of_same {B : List String} {st st' : St} (h : Same st st') : Frame B st st' :=
  fun _ _ => by rw [h.1, h.2]; exact ⟨rfl, rfl⟩
theorem Frame.trans {B : List String} {a b c : St} (h1 : Frame B a b) (h2 : Frame B b c) : Frame B a c :=
  fun k hk => ⟨(h2 k hk).1.trans (h1 k hk).1, (h2 k hk).2.trans (h1 k hk).2⟩
theorem Frame.mono {B B' : List String} {a b : St} (h : Frame B a b) (hsub : ∀ k, k ∈ B → k ∈ B') : Frame B' a b :=
  fun k hk => h k (fun hb => hk (hsub k hb))

/-- neither store has an entry under any of the names -/
def Clean (st : St) (ns : List String) : Prop := ∀ n ∈ ns, dictGet? st.subq n = none ∧ dictGet? st.withT n = none

theorem Clean.frame {B ns : List String} {st st' : St} (h : Clean st ns) (hf : Frame B st st') (hd : ∀ n ∈ ns, n ∉ B) : Clean st' ns :=
  fun n hn => by rw [(hf n (hd n hn)).1, (hf n (hd n hn)).2]; exact h n hn

/-- the visible WITH tables are in the WITH store, not shadowed by a derived table, and denote what the specification says -/
def WEnv (st : St) (wenv : Scope) : Prop :=
  ∀ n R, dictGet? wenv n = some R → dictGet? st.subq n = none ∧ ∃ L, dictGet? st.withT n = some L ∧ Denotes L R

def Keys (wn : List String) (wenv : Scope) : Prop := ∀ n, n ∈ wn ↔ (dictGet? wenv n).isSome = true

theorem WEnv.frame {B : List String} {st st' : St} {wenv : Scope} (h : WEnv st wenv) (hf : Frame B st st')
    (hd : ∀ n, (dictGet? wenv n).isSome = true → n ∉ B) : WEnv st' wenv := by
  intro n R hn
  have hb := hd n (by simp [hn])
  rw [(hf n hb).1, (hf n hb).2]
  exact h n R hn

/-! ### the level's two dictionaries -/

theorem subQueries_acc : ∀ (fts : List FromTable) (acc : List (String × Query)),
    ((keysOf fts).filterMap id).Nodup → (∀ a ∈ (keysOf fts).filterMap id, ∀ p ∈ acc, p.1 ≠ a) →
    subQueries fts acc = acc ++ derivedOf fts
  | [], acc, _, _ => by simp [subQueries, derivedOf]
  | .mk (.table s n) a :: r, acc, hn, hd => by
    have hn' : ((keysOf r).filterMap id).Nodup := by
      simp only [keysOf, List.map_cons, keyOf, List.filterMap_cons, id] at hn
      exact (List.nodup_cons.mp hn).2
    simp only [subQueries, derivedOf]
    exact subQueries_acc r acc hn' (fun x hx p hp => hd x (by simp [keysOf, keyOf] at hx ⊢; exact Or.inr hx) p hp)
  | .mk (.sub q) none :: r, acc, hn, hd => by
    have hn' : ((keysOf r).filterMap id).Nodup := by simpa [keysOf, keyOf] using hn
    simp only [subQueries, derivedOf]
    exact subQueries_acc r acc hn' (fun x hx p hp => hd x (by simpa [keysOf, keyOf] using hx) p hp)
  | .mk (.sub q) (some a) :: r, acc, hn, hd => by
    have hn0 : (a :: (keysOf r).filterMap id).Nodup := by simpa [keysOf, keyOf] using hn
    have hn' := (List.nodup_cons.mp hn0).2
    have ha := (List.nodup_cons.mp hn0).1
    have hset : dictSet acc a q = acc ++ [(a, q)] := by
      have : ∀ (d : List (String × Query)), (∀ p ∈ d, p.1 ≠ a) → dictSet d a q = d ++ [(a, q)] := by
        intro d
        induction d with
        | nil => intro _; rfl
        | cons p t ih =>
          intro h
          have hq : (p.1 == a) = false := by simpa using h p (by simp)
          simp [dictSet, hq, ih (fun x hx => h x (by simp [hx]))]
      exact this acc (fun p hp => hd a (by simp [keysOf, keyOf]) p hp)
    simp only [subQueries, derivedOf, hset]
    rw [subQueries_acc r (acc ++ [(a, q)]) hn']
    · simp
    · intro x hx p hp
      rcases List.mem_append.mp hp with h | h
      · exact hd x (by simp [keysOf, keyOf] at hx ⊢; exact Or.inr hx) p h
      · have : p = (a, q) := by simpa using h
        subst this
        intro e
        exact ha (by simpa [← e] using hx)

theorem levelOK_nodup {fts : List FromTable} (h : levelOK fts = true) : ((keysOf fts).filterMap id).Nodup := by
  simp only [levelOK, Bool.and_eq_true, decide_eq_true_eq] at h
  have hn := h.2
  have hall := h.1
  have : ∀ (l : List (Option String)), l.all (·.isSome) = true → l.Nodup → (l.filterMap id).Nodup := by
    intro l
    induction l with
    | nil => intro _ _; simp
    | cons x t ih =>
      intro ha hn
      simp only [List.all_cons, Bool.and_eq_true] at ha
      cases x with
      | none => simp at ha
      | some v =>
        have hn' := List.nodup_cons.mp hn
        simp only [List.filterMap_cons, id]
        refine List.nodup_cons.mpr ⟨?_, ih ha.2 hn'.2⟩
        intro hv
        apply hn'.1
        simp only [List.mem_filterMap, id] at hv
        obtain ⟨y, hy, hy2⟩ := hv
        rw [← hy2]; exact hy
  exact this _ hall hn

theorem subQueries_eq {fts : List FromTable} (h : levelOK fts = true) : subQueries fts [] = derivedOf fts := by
  simpa using subQueries_acc fts [] (levelOK_nodup h) (by simp)

/-- the table-name dictionary of a level whose items are named distinctly: one entry per item, in order -/
def tnOf : List FromTable → List (String × StdTable)
  | [] => []
  | .mk (.table s n) a :: r => (a.getD n, (s, n)) :: tnOf r
  | .mk (.sub _) (some a) :: r => (a, (none, a)) :: tnOf r
  | .mk (.sub _) none :: r => tnOf r

theorem tableNames_acc : ∀ (fts : List FromTable) (acc : List (String × StdTable)),
    (keysOf fts).all (·.isSome) = true → ((keysOf fts).filterMap id).Nodup → (∀ a ∈ (keysOf fts).filterMap id, ∀ p ∈ acc, p.1 ≠ a) →
    tableNames fts acc = .ok (acc ++ tnOf fts)
  | [], acc, _, _, _ => by simp [tableNames, tnOf]
  | .mk (.sub q) none :: r, acc, hall, _, _ => by simp [keysOf, keyOf] at hall
  | ft@(.mk (.table s n) a) :: r, acc, hall, hn, hd => by
    have hn0 : ((a.getD n) :: (keysOf r).filterMap id).Nodup := by simpa [keysOf, keyOf] using hn
    have hall' : (keysOf r).all (·.isSome) = true := by simp [keysOf, keyOf] at hall ⊢; exact hall
    have hset : dictSet acc (a.getD n) (s, n) = acc ++ [(a.getD n, (s, n))] := by
      have : ∀ (d : List (String × StdTable)), (∀ p ∈ d, p.1 ≠ a.getD n) → dictSet d (a.getD n) (s, n) = d ++ [(a.getD n, (s, n))] := by
        intro d
        induction d with
        | nil => intro _; rfl
        | cons p t ih =>
          intro h
          have hq : (p.1 == a.getD n) = false := by simpa using h p (by simp)
          simp [dictSet, hq, ih (fun x hx => h x (by simp [hx]))]
      exact this acc (fun p hp => hd _ (by simp [keysOf, keyOf]) p hp)
    simp only [tableNames, tnOf, hset]
    rw [tableNames_acc r _ hall' (List.nodup_cons.mp hn0).2]
    · simp
    · intro x hx p hp
      rcases List.mem_append.mp hp with h | h
      · exact hd x (by simp [keysOf, keyOf] at hx ⊢; exact Or.inr hx) p h
      · have : p = (a.getD n, (s, n)) := by simpa using h
        subst this
        intro e
        exact (List.nodup_cons.mp hn0).1 (by simpa [← e] using hx)
  | .mk (.sub q) (some a) :: r, acc, hall, hn, hd => by
    have hn0 : (a :: (keysOf r).filterMap id).Nodup := by simpa [keysOf, keyOf] using hn
    have hall' : (keysOf r).all (·.isSome) = true := by simp [keysOf, keyOf] at hall ⊢; exact hall
    have hset : dictSet acc a ((none, a) : StdTable) = acc ++ [(a, (none, a))] := by
      have : ∀ (d : List (String × StdTable)), (∀ p ∈ d, p.1 ≠ a) → dictSet d a ((none, a) : StdTable) = d ++ [(a, (none, a))] := by
        intro d
        induction d with
        | nil => intro _; rfl
        | cons p t ih =>
          intro h
          have hq : (p.1 == a) = false := by simpa using h p (by simp)
          simp [dictSet, hq, ih (fun x hx => h x (by simp [hx]))]
      exact this acc (fun p hp => hd _ (by simp [keysOf, keyOf]) p hp)
    simp only [tableNames, tnOf, hset]
    rw [tableNames_acc r _ hall' (List.nodup_cons.mp hn0).2]
    · simp
    · intro x hx p hp
      rcases List.mem_append.mp hp with h | h
      · exact hd x (by simp [keysOf, keyOf] at hx ⊢; exact Or.inr hx) p h
      · have : p = (a, ((none, a) : StdTable)) := by simpa using h
        subst this
        intro e
        exact (List.nodup_cons.mp hn0).1 (by simpa [← e] using hx)

theorem tableNames_eq {fts : List FromTable} (h : levelOK fts = true) : tableNames fts [] = .ok (tnOf fts) := by
  have h' := h
  simp only [levelOK, Bool.and_eq_true] at h'
  simpa using tableNames_acc fts [] h'.1 (levelOK_nodup h) (by simp)

/-- the scope of a level is what its table names resolve to, once the WITH tables and the level's derived tables are in the stores -/
theorem resolves_level (cat : Cat) (st : St) (wenv rels : Scope) (hw : WEnv st wenv)
    (hr : ∀ a R, dictGet? rels a = some R → ∃ L, dictGet? st.subq a = some L ∧ Denotes L R) :
    ∀ (fts : List FromTable) (scope : Scope),
      (∀ n ∈ baseOf fts, dictGet? wenv n = none → dictGet? st.subq n = none ∧ dictGet? st.withT n = none) →
      scopeOf cat wenv rels fts = .ok scope → Resolves cat st (tnOf fts) scope
  | [], scope, _, h => by
    simp [scopeOf] at h; subst h; exact All2.nil
  | .mk (.sub q) none :: r, scope, _, h => by simp [scopeOf] at h
  | .mk (.sub q) (some a) :: r, scope, hb, h => by
    simp only [scopeOf, bind, Except.bind] at h
    cases h1 : dictGet? rels a with
    | none => simp [h1] at h
    | some R =>
      simp only [h1] at h
      cases h2 : scopeOf cat wenv rels r with
      | error e => simp [h2] at h
      | ok rest =>
        simp [h2, pure, Except.pure] at h
        subst h
        obtain ⟨L, hl, hd⟩ := hr a R h1
        refine All2.cons ⟨rfl, L, ?_, hd⟩ (resolves_level cat st wenv rels hw hr r rest (fun n hn => hb n (by simp [baseOf, hn])) h2)
        simp [lookup, hl]
  | .mk (.table s n) a :: r, scope, hb, h => by
    simp only [scopeOf, bind, Except.bind] at h
    have hrest : ∀ rest, scopeOf cat wenv rels r = .ok rest → Resolves cat st (tnOf r) rest :=
      fun rest h2 => resolves_level cat st wenv rels hw hr r rest (fun m hm => hb m (by simp [baseOf, hm])) h2
    cases h1 : dictGet? wenv n with
    | some R =>
      simp only [h1] at h
      cases h2 : scopeOf cat wenv rels r with
      | error e => simp [h2] at h
      | ok rest =>
        simp [h2, pure, Except.pure] at h
        subst h
        obtain ⟨hsub, L, hl, hd⟩ := hw n R h1
        refine All2.cons ⟨rfl, L, ?_, hd⟩ (hrest rest h2)
        simp [lookup, hsub, hl]
    | none =>
      simp only [h1] at h
      cases h3 : catLookup cat (s, n) with
      | none => simp [h3] at h
      | some c =>
        simp only [h3] at h
        cases h2 : scopeOf cat wenv rels r with
        | error e => simp [h2] at h
        | ok rest =>
          simp [h2, pure, Except.pure] at h
          subst h
          obtain ⟨hs1, hs2⟩ := hb n (by simp [baseOf]) h1
          refine All2.cons ⟨rfl, byCreateTable c, ?_, denotes_base c⟩ (hrest rest h2)
          simp [lookup, hs1, hs2, h3]

theorem dictGet_mem {κ ν : Type} [DecidableEq κ] : ∀ (d : List (κ × ν)) (k : κ) (v : ν), dictGet? d k = some v → (k, v) ∈ d
  | [], _, _, h => by simp [dictGet?] at h
  | p :: r, k, v, h => by
    unfold dictGet? at h
    rw [List.find?_cons] at h
    by_cases e : p.1 = k
    · simp [e] at h
      have : p = (k, v) := by cases p; simp_all
      simp [this]
    · have e' : (p.1 == k) = false := by simpa using e
      simp only [e'] at h
      exact List.mem_cons_of_mem _ (dictGet_mem r k v h)

/-! ### the induction -/

/-- the three outcomes: the specified value with a model result related to it; the analysis error; or no claim -/
def Out {α β : Type} (spec : Except FErr α) (model : Except Err β) (good : α → β → Prop) : Prop :=
  match spec with
  | .ok v => ∃ b, model = .ok b ∧ good v b
  | .error .analysis => model = .error .analyzer
  | .error .outside => True

/-- a query: its lineage is the specified flow and only names it binds are written to the stores; where the specification says
"analysis error" the analysis raises it -/
def PQ (cat : Cat) (f : Nat) : Prop :=
  ∀ (q : Query) (wenv : Scope) (wn : List String) (st : St),
    Keys wn wenv → (bound f q).Nodup → (∀ n ∈ wn, n ∉ bound f q) →
    (∀ n ∈ reads f wn q, n ∉ bound f q) → Clean st (reads f wn q) → Clean st (bound f q) → WEnv st wenv →
    Out (flowQ cat f wenv q) (selectLineage cat f q st)
      (fun R p => p.1 = mkLineage (C16.number R 1) Lineage.empty ∧ Frame (bound f q) st p.2)

/-- the WITH tables of a statement -/
def PW (cat : Cat) (f : Nat) : Prop :=
  ∀ (ws : List WithTable) (wenv : Scope) (wn : List String) (st : St),
    Keys wn wenv → (boundWiths f ws).Nodup → (∀ n ∈ wn, n ∉ boundWiths f ws) →
    (∀ n ∈ readsWiths f wn ws, n ∉ boundWiths f ws) → Clean st (readsWiths f wn ws) → Clean st (boundWiths f ws) → WEnv st wenv →
    Out (flowWiths cat f wenv ws) (withLineages cat f ws st)
      (fun wenv' st' => Frame (boundWiths f ws) st st' ∧ WEnv st' wenv' ∧ Keys (wn ++ withNames ws) wenv'
        ∧ (∀ n ∈ withNames ws, n ∈ boundWiths f ws))

/-- the derived tables of a level -/
def PS (cat : Cat) (f : Nat) : Prop :=
  ∀ (subs : List (String × Query)) (wenv : Scope) (wn : List String) (st : St),
    Keys wn wenv → (boundSubs f subs).Nodup → (∀ n ∈ wn, n ∉ boundSubs f subs) →
    (∀ n ∈ readsSubs f wn subs, n ∉ boundSubs f subs) → Clean st (readsSubs f wn subs) → Clean st (boundSubs f subs) → WEnv st wenv →
    Out (flowSubs cat f wenv subs) (subQueryLineages cat f subs st)
      (fun rels st' => Frame (boundSubs f subs) st st'
        ∧ (∀ a R, (a, R) ∈ rels → ∃ L, dictGet? st'.subq a = some L ∧ Denotes L R)
        ∧ (∀ a R, (a, R) ∈ rels → a ∈ boundSubs f subs))

theorem nodup_append_left {α : Type} {a b : List α} (h : (a ++ b).Nodup) : a.Nodup := (List.nodup_append.mp h).1
theorem nodup_append_right {α : Type} {a b : List α} (h : (a ++ b).Nodup) : b.Nodup := (List.nodup_append.mp h).2.1
theorem nodup_append_disj {α : Type} {a b : List α} (h : (a ++ b).Nodup) : ∀ x, x ∈ a → x ∉ b :=
  fun x ha hb => (List.nodup_append.mp h).2.2 x ha x hb rfl

theorem ps_step (cat : Cat) (f : Nat) (hq : PQ cat f) (hs : PS cat f) : PS cat (f + 1) := by
  intro subs wenv wn st hk hn hw hr hc hcb he
  cases subs with
  | nil => exact ⟨st, by simp [subQueryLineages], Frame.refl _ st, by simp, by simp⟩
  | cons p r =>
    obtain ⟨a, q⟩ := p
    simp only [boundSubs] at hn hw hr hcb ⊢
    simp only [readsSubs] at hr hc
    have hn1 := List.nodup_cons.mp hn
    have hnq : (bound f q).Nodup := nodup_append_left hn1.2
    have hnr : (boundSubs f r).Nodup := nodup_append_right hn1.2
    have hdis := nodup_append_disj hn1.2
    -- the derived table itself
    have o1 := hq q wenv wn st hk hnq
      (fun n hn' hb => hw n hn' (by simp [hb]))
      (fun n hn' hb => hr n (by simp [hn']) (by simp [hb]))
      (fun n hn' => hc n (by simp [hn']))
      (fun n hn' => hcb n (by simp [hn']))
      he
    simp only [flowSubs, bind, Except.bind]
    cases h1 : flowQ cat f wenv q with
    | error e =>
      rw [h1] at o1
      cases e with
      | analysis => simp only [Out] at o1 ⊢; simp [subQueryLineages, o1, bind, Except.bind]
      | outside => simp [Out]
    | ok R =>
      rw [h1] at o1
      obtain ⟨⟨L0, st1⟩, e1, hL, fr1⟩ := o1
      simp only at hL fr1
      by_cases hnd : nodupNames R = true
      · simp only [hnd, Bool.not_true, Bool.false_eq_true, if_false]
        let L := mkLineage (C16.number R 1) Lineage.empty
        let st2 : St := { st1 with subq := dictSet st1.subq a L }
        have hset : ∀ k, ¬ k = a → dictGet? st2.subq k = dictGet? st1.subq k ∧ dictGet? st2.withT k = dictGet? st1.withT k := by
          intro k hka
          have hne : (a == k) = false := by simpa using fun e : a = k => hka e.symm
          refine ⟨?_, rfl⟩
          show dictGet? (dictSet st1.subq a L) k = _
          rw [C15.dictGet_dictSet, hne]; simp
        have fr2 : Frame (a :: (bound f q ++ boundSubs f r)) st st2 := by
          intro k hk'
          have hka : ¬ k = a := fun e => hk' (by simp [e])
          have hkq : k ∉ bound f q := fun hb => hk' (by simp [hb])
          exact ⟨(hset k hka).1.trans (fr1 k hkq).1, (hset k hka).2.trans (fr1 k hkq).2⟩
        have fr2' : Frame (a :: bound f q) st st2 := by
          intro k hk'
          have hka : ¬ k = a := fun e => hk' (by simp [e])
          have hkq : k ∉ bound f q := fun hb => hk' (by simp [hb])
          exact ⟨(hset k hka).1.trans (fr1 k hkq).1, (hset k hka).2.trans (fr1 k hkq).2⟩
        have hc2 : Clean st2 (readsSubs f wn r) := Clean.frame (fun n hn' => hc n (by simp [hn'])) fr2 (fun n hn' => hr n (by simp [hn']))
        have hcb2 : Clean st2 (boundSubs f r) := by
          refine Clean.frame (fun n hn' => hcb n (by simp [hn'])) fr2' ?_
          intro n hn' hmem
          rcases List.mem_cons.mp hmem with e | e
          · exact hn1.1 (by simp [← e, hn'])
          · exact hdis n e hn'
        have he2 : WEnv st2 wenv := WEnv.frame he fr2 (fun n hsome => hw n ((hk n).mpr hsome))
        have o3 := hs r wenv wn st2 hk hnr
          (fun n hn' hb => hw n hn' (by simp [hb]))
          (fun n hn' hb => hr n (by simp [hn']) (by simp [hb]))
          hc2 hcb2 he2
        have emodel : subQueryLineages cat (f + 1) ((a, q) :: r) st = subQueryLineages cat f r st2 := by
          simp only [subQueryLineages, e1, bind, Except.bind, hL]
          rfl
        rw [emodel]
        cases h2 : flowSubs cat f wenv r with
        | error e =>
          rw [h2] at o3
          cases e with
          | analysis => simpa [Out] using o3
          | outside => simp [Out]
        | ok rest =>
          rw [h2] at o3
          obtain ⟨st3, e3, fr3, hrel3, hin3⟩ := o3
          refine ⟨st3, e3, ?_, ?_, ?_⟩
          · exact fr2.trans (fr3.mono (fun k hk' => by simp [hk']))
          · intro b Rb hb
            rcases List.mem_cons.mp hb with e | e
            · have : b = a ∧ Rb = R := by simpa using e
              obtain ⟨e1', e2'⟩ := this
              rw [e1', e2']
              have hab : a ∉ boundSubs f r := fun hm => hn1.1 (by simp [hm])
              refine ⟨L, ?_, denotes_mk R 1 (by simpa [nodupNames] using hnd)⟩
              rw [(fr3 a hab).1]
              show dictGet? (dictSet st1.subq a L) a = some L
              rw [C15.dictGet_dictSet]; simp
            · exact hrel3 b Rb e
          · intro b Rb hb
            rcases List.mem_cons.mp hb with e | e
            · have : b = a := by simpa using (congrArg Prod.fst e)
              simp [this]
            · have := hin3 b Rb e
              simp [this]
      · simp [hnd, Out]

theorem pw_step (cat : Cat) (f : Nat) (hq : PQ cat f) (hwi : PW cat f) : PW cat (f + 1) := by
  intro ws wenv wn st hk hn hw hr hc hcb he
  cases ws with
  | nil => exact ⟨st, by simp [withLineages], Frame.refl _ st, he, by simpa [withNames] using hk, by simp [withNames]⟩
  | cons p r =>
    obtain ⟨n, q⟩ := p
    simp only [boundWiths] at hn hw hr hcb ⊢
    simp only [readsWiths] at hr hc
    have hn1 := List.nodup_cons.mp hn
    have hnq : (bound f q).Nodup := nodup_append_left hn1.2
    have hnr : (boundWiths f r).Nodup := nodup_append_right hn1.2
    have hdis := nodup_append_disj hn1.2
    have o1 := hq q wenv wn st hk hnq
      (fun m hm hb => hw m hm (by simp [hb]))
      (fun m hm hb => hr m (by simp [hm]) (by simp [hb]))
      (fun m hm => hc m (by simp [hm]))
      (fun m hm => hcb m (by simp [hm]))
      he
    simp only [flowWiths, bind, Except.bind]
    cases h1 : flowQ cat f wenv q with
    | error e =>
      rw [h1] at o1
      cases e with
      | analysis => simp only [Out] at o1 ⊢; simp [withLineages, o1, bind, Except.bind]
      | outside => simp [Out]
    | ok R =>
      rw [h1] at o1
      obtain ⟨⟨L0, st1⟩, e1, hL, fr1⟩ := o1
      simp only at hL fr1
      by_cases hnd : nodupNames R = true
      · simp only [hnd, Bool.not_true, Bool.false_eq_true, if_false]
        let L := mkLineage (C16.number R 1) Lineage.empty
        let st2 : St := { st1 with withT := dictSet st1.withT n L }
        have hset : ∀ k, ¬ k = n → dictGet? st2.subq k = dictGet? st1.subq k ∧ dictGet? st2.withT k = dictGet? st1.withT k := by
          intro k hkn
          have hne : (n == k) = false := by simpa using fun e : n = k => hkn e.symm
          refine ⟨rfl, ?_⟩
          show dictGet? (dictSet st1.withT n L) k = _
          rw [C15.dictGet_dictSet, hne]; simp
        have fr2 : Frame (n :: (bound f q ++ boundWiths f r)) st st2 := by
          intro k hk'
          have hka : ¬ k = n := fun e => hk' (by simp [e])
          have hkq : k ∉ bound f q := fun hb => hk' (by simp [hb])
          exact ⟨(hset k hka).1.trans (fr1 k hkq).1, (hset k hka).2.trans (fr1 k hkq).2⟩
        have fr2' : Frame (n :: bound f q) st st2 := by
          intro k hk'
          have hka : ¬ k = n := fun e => hk' (by simp [e])
          have hkq : k ∉ bound f q := fun hb => hk' (by simp [hb])
          exact ⟨(hset k hka).1.trans (fr1 k hkq).1, (hset k hka).2.trans (fr1 k hkq).2⟩
        have hk2 : Keys (wn ++ [n]) (dictSet wenv n R) := by
          intro m
          rw [C15.dictGet_dictSet]
          by_cases e : n = m
          · subst e; simp
          · have hne : (n == m) = false := by simpa using e
            have e' : ¬ m = n := fun x => e x.symm
            simp [hne, e', hk m]
        have hc2 : Clean st2 (readsWiths f (wn ++ [n]) r) :=
          Clean.frame (fun m hm => hc m (by simp [hm])) fr2 (fun m hm => hr m (by simp [hm]))
        have hcb2 : Clean st2 (boundWiths f r) := by
          refine Clean.frame (fun m hm => hcb m (by simp [hm])) fr2' ?_
          intro m hm hmem
          rcases List.mem_cons.mp hmem with e | e
          · exact hn1.1 (by simp [← e, hm])
          · exact hdis m e hm
        have hnq' : n ∉ bound f q := fun hb => hn1.1 (by simp [hb])
        have he2 : WEnv st2 (dictSet wenv n R) := by
          intro m R' hm
          rw [C15.dictGet_dictSet] at hm
          by_cases e : n = m
          · subst e
            simp at hm; subst hm
            refine ⟨?_, L, ?_, denotes_mk R 1 (by simpa [nodupNames] using hnd)⟩
            · show dictGet? st1.subq n = none
              rw [(fr1 n hnq').1]; exact (hcb n (by simp)).1
            · show dictGet? (dictSet st1.withT n L) n = some L
              rw [C15.dictGet_dictSet]; simp
          · have hne : (n == m) = false := by simpa using e
            simp only [hne, Bool.false_eq_true, if_false] at hm
            have hmw : m ∈ wn := (hk m).mpr (by simp [hm])
            have hmb : m ∉ n :: (bound f q ++ boundWiths f r) := hw m hmw
            rw [(fr2 m hmb).1, (fr2 m hmb).2]
            exact he m R' hm
        have o3 := hwi r (dictSet wenv n R) (wn ++ [n]) st2 hk2 hnr
          (fun m hm hb => by
            rcases List.mem_append.mp hm with h | h
            · exact hw m h (by simp [hb])
            · have : m = n := by simpa using h
              subst this; exact hn1.1 (by simp [hb]))
          (fun m hm hb => hr m (by simp [hm]) (by simp [hb]))
          hc2 hcb2 he2
        have emodel : withLineages cat (f + 1) (.mk n q :: r) st = withLineages cat f r st2 := by
          simp only [withLineages, e1, bind, Except.bind, hL]
          rfl
        rw [emodel]
        cases h2 : flowWiths cat f (dictSet wenv n R) r with
        | error e =>
          rw [h2] at o3
          cases e with
          | analysis => simpa [Out] using o3
          | outside => simp [Out]
        | ok wenv' =>
          rw [h2] at o3
          obtain ⟨st3, e3, fr3, he3, hk3, hin3⟩ := o3
          refine ⟨st3, e3, ?_, he3, ?_, ?_⟩
          · exact fr2.trans (fr3.mono (fun k hk' => by simp [hk']))
          · simpa [withNames, List.append_assoc] using hk3
          · intro m hm
            simp only [withNames, List.mem_cons] at hm
            rcases hm with e | e
            · simp [e]
            · have := hin3 m e
              simp [this]
      · simp [hnd, Out]

/-- the scope of a level is refused only as "outside" (an unknown base table, a derived table without alias) -/
theorem scopeOf_err (cat : Cat) (wenv rels : Scope) : ∀ (l : List FromTable) (e : FErr), scopeOf cat wenv rels l = .error e → e = .outside
  | [], e, h => by simp [scopeOf] at h
  | .mk (.table s n) al :: r, e, h => by
    simp only [scopeOf, bind, Except.bind] at h
    cases ha : dictGet? wenv n with
    | some Rn =>
      simp only [ha] at h
      cases hb : scopeOf cat wenv rels r with
      | error e' => simp [hb] at h; rw [← h]; exact scopeOf_err cat wenv rels r e' hb
      | ok v => simp [hb, pure, Except.pure] at h
    | none =>
      simp only [ha] at h
      cases hcl : catLookup cat (s, n) with
      | none => simp [hcl] at h; exact h.symm
      | some c =>
        simp only [hcl] at h
        cases hb : scopeOf cat wenv rels r with
        | error e' => simp [hb] at h; rw [← h]; exact scopeOf_err cat wenv rels r e' hb
        | ok v => simp [hb, pure, Except.pure] at h
  | .mk (.sub q) none :: r, e, h => by simp [scopeOf] at h; exact h.symm
  | .mk (.sub q) (some a) :: r, e, h => by
    simp only [scopeOf, bind, Except.bind] at h
    cases ha : dictGet? rels a with
    | none => simp [ha] at h; exact h.symm
    | some Ra =>
      simp only [ha] at h
      cases hb : scopeOf cat wenv rels r with
      | error e' => simp [hb] at h; rw [← h]; exact scopeOf_err cat wenv rels r e' hb
      | ok v => simp [hb, pure, Except.pure] at h

/-- every FROM / JOIN item is referred to by its own table name: the table-name dictionary maps each name to a table of that name -/
theorem tnOf_plain : ∀ (fts : List FromTable), fts.all plainKey = true → ∀ p ∈ tnOf fts, p.2.2 = p.1
  | [], _, p, h => by simp [tnOf] at h
  | .mk (.table s n) (some a) :: r, hall, p, h => by simp [plainKey] at hall
  | .mk (.table s n) none :: r, hall, p, h => by
    simp only [List.all_cons, Bool.and_eq_true] at hall
    simp only [tnOf, List.mem_cons] at h
    rcases h with e | e
    · subst e; rfl
    · exact tnOf_plain r hall.2 p e
  | .mk (.sub q) none :: r, hall, p, h => by simp [plainKey] at hall
  | .mk (.sub q) (some a) :: r, hall, p, h => by
    simp only [List.all_cons, Bool.and_eq_true] at hall
    simp only [tnOf, List.mem_cons] at h
    rcases h with e | e
    · subst e; rfl
    · exact tnOf_plain r hall.2 p e

theorem pq_step (cat : Cat) (f : Nat) (hwi : PW cat f) (hsi : PS cat f) : PQ cat (f + 1) := by
  intro q wenv wn st hk hn hw hr hc hcb he
  simp only [flowQ]
  cases hsh : shape q with
  | none => simp [Out]
  | some ws =>
    simp only [flowPrefix, bind, Except.bind]
    have hwq := shape_withs hsh
    simp only [bound, reads, hwq, Option.getD_some] at hn hw hr hc hcb ⊢
    generalize hfts : levelFromTables q = fts at hn hw hr hc hcb ⊢
    have hnw : (boundWiths f ws).Nodup := nodup_append_left hn
    have hns : (boundSubs f (derivedOf fts)).Nodup := nodup_append_right hn
    have hdis := nodup_append_disj hn
    -- WITH tables
    have o1 := hwi ws wenv wn st hk hnw
      (fun m hm hb => hw m hm (by simp [hb]))
      (fun m hm hb => hr m (by simp [hm]) (by simp [hb]))
      (fun m hm => hc m (by simp [hm]))
      (fun m hm => hcb m (by simp [hm]))
      he
    cases h1 : flowWiths cat f wenv ws with
    | error e =>
      rw [h1] at o1
      cases e with
      | analysis => simp only [Out] at o1 ⊢; simp [selectLineage, hwq, o1, bind, Except.bind]
      | outside => simp [Out]
    | ok wenv1 =>
      rw [h1] at o1
      obtain ⟨st1, e1, fr1, he1, hk1, hin1⟩ := o1
      simp only
      by_cases hlev : levelOK fts = true
      · simp only [hlev, Bool.not_true, Bool.false_eq_true, if_false]
        -- derived tables, from the state in which the WITH tables are registered
        have hw1 : ∀ m ∈ wn ++ withNames ws, m ∉ boundSubs f (derivedOf fts) := by
          intro m hm hb
          rcases List.mem_append.mp hm with h | h
          · exact hw m h (by simp [hb])
          · exact hdis m (hin1 m h) hb
        have hc1 : Clean st1 (readsSubs f (wn ++ withNames ws) (derivedOf fts)) :=
          Clean.frame (fun m hm => hc m (by simp [hm])) fr1 (fun m hm hb => hr m (by simp [hm]) (by simp [hb]))
        have hcb1 : Clean st1 (boundSubs f (derivedOf fts)) :=
          Clean.frame (fun m hm => hcb m (by simp [hm])) fr1 (fun m hm hb => hdis m hb hm)
        have o2 := hsi (derivedOf fts) wenv1 (wn ++ withNames ws) st1 hk1 hns hw1
          (fun m hm hb => hr m (by simp [hm]) (by simp [hb]))
          hc1 hcb1 he1
        cases h2 : flowSubs cat f wenv1 (derivedOf fts) with
        | error e =>
          rw [h2] at o2
          cases e with
          | analysis =>
            simp only [Out] at o2 ⊢
            simp [selectLineage, hwq, hfts, e1, subQueries_eq hlev, o2, bind, Except.bind]
          | outside => simp [Out]
        | ok rels =>
          rw [h2] at o2
          obtain ⟨st2, e2, fr2, hrel2, hin2⟩ := o2
          simp only
          cases h3 : scopeOf cat wenv1 rels fts with
          | error e =>
            have := scopeOf_err cat wenv1 rels fts e h3
            subst this
            simp [Out]
          | ok scope =>
            simp only
            -- the level
            have he2 : WEnv st2 wenv1 := WEnv.frame he1 fr2 (fun m hsome => hw1 m ((hk1 m).mpr hsome))
            have hres : Resolves cat st2 (tnOf fts) scope := by
              refine resolves_level cat st2 wenv1 rels he2 ?_ fts scope ?_ h3
              · intro a Ra ha
                exact hrel2 a Ra (dictGet_mem rels a Ra ha)
              · intro m hm hnone
                have hmw : m ∉ wn ++ withNames ws := by
                  intro hmem
                  have := (hk1 m).mp hmem
                  simp [hnone] at this
                have hmr : m ∈ readsWiths f wn ws ++ (List.filter (fun n => !(wn ++ withNames ws).contains n) (baseOf fts)
                    ++ readsSubs f (wn ++ withNames ws) (derivedOf fts)) := by
                  simp only [List.mem_append, List.mem_filter]
                  right; left
                  exact ⟨hm, by simpa using hmw⟩
                have hmb := hr m (by simpa [List.append_assoc] using hmr)
                have hcm := hc m (by simpa [List.append_assoc] using hmr)
                have f1 := fr1 m (fun hb => hmb (by simp [hb]))
                have f2 := fr2 m (fun hb => hmb (by simp [hb]))
                exact ⟨by rw [f2.1, f1.1]; exact hcm.1, by rw [f2.2, f1.2]; exact hcm.2⟩
            have hlvl := level_generic hres q (fun hall => tnOf_plain fts (by rw [← hfts]; exact hall)) st2 (Same.refl st2)
            have hmodel : selectLineage cat (f + 1) q st =
                (match (do let (cur, st3) ← currentLevel cat (tnOf fts) q st2; sourcesLoop cat (tnOf fts) [] cur st3) with
                 | .error err => .error err
                 | .ok v => .ok (mkLineage v.1 Lineage.empty, v.2)) := by
              simp only [selectLineage, hwq, hfts, e1, subQueries_eq hlev, e2, tableNames_eq hlev, shape_lateral hsh,
                dictOfPairs, List.foldl_nil, bind, Except.bind, pure, Except.pure]
              cases currentLevel cat (tnOf fts) q st2 with
              | error err => rfl
              | ok v =>
                simp only
                cases sourcesLoop cat (tnOf fts) [] v.1 v.2 <;> rfl
            rw [hmodel]
            cases hitems : levelFlow q scope with
            | error e =>
              rw [hitems] at hlvl
              cases e with
              | analysis =>
                simp only [Except.map, Agrees] at hlvl
                simp [Out, hlvl]
              | outside => simp [Out]
            | ok R =>
              rw [hitems] at hlvl
              simp only [Except.map, Agrees] at hlvl
              obtain ⟨st3, e3, s3⟩ := hlvl
              refine ⟨(mkLineage (C16.number R 1) Lineage.empty, st3), by rw [e3], rfl, ?_⟩
              exact ((fr1.mono (fun k hk' => by simp [hk'])).trans (fr2.mono (fun k hk' => by simp [hk']))).trans
                (Frame.of_same s3)
      · simp [hlev, Out]

/-- **derived tables and WITH tables at any depth** -/
theorem nest (cat : Cat) : ∀ f : Nat, PQ cat f ∧ PW cat f ∧ PS cat f
  | 0 => by
    refine ⟨?_, ?_, ?_⟩
    · intro q wenv wn st _ _ _ _ _ _ _; simp [flowQ, Out]
    · intro ws wenv wn st _ _ _ _ _ _ _; simp [flowWiths, Out]
    · intro subs wenv wn st _ _ _ _ _ _ _; simp [flowSubs, Out]
  | f + 1 => by
    obtain ⟨hq, hw, hs⟩ := nest cat f
    exact ⟨pq_step cat f hw hs, pw_step cat f hq hw, ps_step cat f hq hs⟩

end LineageL
