import MsqProofs.Lemmas.AnalyzeText3d
/-!
# The column scanner on the rendering of a fragment expression returns the specified references (C15 on texts)

`CT.cE : FragE3 d e → ColOK (toksE3 d ch e) (colsE e)` — one `mutual` block of structurally recursive theorems over the expression layer
of the nested fragment (a sub-query is one bracket group that starts with `SELECT`: never entered), whatever redundant brackets the
rendering carries.
-/
set_option linter.unusedVariables false
set_option linter.unusedSimpArgs false
open Lex PM Ast TP TP2 TS TQ Spec
open AN (QCol Clause)
namespace CT

/-! ### token facts -/
theorem equals_single {t : Tok} (h : isGrp t = false) (k : String) : t.equalsStr k = (up t.src == up k) := by
  cases t with
  | single s m => rfl
  | group a b c => simp [isGrp] at h
theorem isWord_of {t : Tok} (hs : isGrp t = false) (h1 : t.has NAME = true) (h2 : t.has LITERAL = false) : isWord t = true := by
  cases t with
  | single s m => simp [isWord, h1, h2]
  | group a b c => simp [isGrp] at hs
theorem isGrp_q (n : String) : isGrp (qTok n) = false := by
  unfold qTok; split <;> rfl

theorem name_word (n : String) : isWord (nameTok n) = true := by
  simp only [isWord, nameTok, Tok.has, Tok.marks]; decide
theorem name_nolit (n : String) : (nameTok n).has LITERAL = false := by
  simp only [nameTok, Tok.has, Tok.marks]; decide
theorem name_quoted (n : String) : quoted (nameTok n) = true := by
  simp [quoted, nameTok, Tok.source]
theorem name_notAS (n : String) : (nameTok n).equalsStr "AS" = false :=
  noneOf_mem (noneOf_name n (ws := ["AS"]) (by decide)) (by simp)
theorem name_okHd (n : String) : okHd (nameTok n) = true := noneOf_name n (by decide)
theorem lit_okHd {d : Gen.D} (v : String) (hv : litOK d v = true) : okHd (litTok v) = true := noneOf_lit v hv (by decide)
theorem lit_has {d : Gen.D} (v : String) (hv : litOK d v = true) : (litTok v).has LITERAL = true := by
  simp only [litOK, Bool.and_eq_true] at hv; exact hv.1

theorem nm_facts {d : Gen.D} {t : Tok} {n : String} (h : nmOK d t n = true) :
    t.has NAME = true ∧ t.has LITERAL = false ∧ nm t = n ∧ t.equalsStr "." = false ∧
      ["SELECT", "WITH"].contains (up t.src) = false := by
  simp only [nmOK, Bool.and_eq_true, Bool.not_eq_true', beq_iff_eq] at h
  obtain ⟨⟨⟨⟨⟨⟨⟨⟨⟨h1, h2⟩, h3⟩, h4⟩, h5⟩, h6⟩, h7⟩, h8⟩, h9⟩, h10⟩ := h
  simp only [hdTok, startTok, Bool.and_eq_true, Bool.not_eq_true'] at h2
  exact ⟨h3, h4, h8, h10, h2.1⟩
theorem okHd_of {t : Tok} (hs : isGrp t = false) (h1 : t.equalsStr "." = false) (h2 : ["SELECT", "WITH"].contains (up t.src) = false) :
    okHd t = true := by
  have e1 : up "SELECT" = "SELECT" := by decide
  have e2 : up "WITH" = "WITH" := by decide
  simp only [List.contains_cons, List.contains_nil, Bool.or_false, Bool.or_eq_false_iff, beq_eq_false_iff_ne] at h2
  have e0 := h1
  rw [equals_single hs] at e0
  simp only [okHd, noneOf, List.all_cons, List.all_nil, Bool.and_true, Bool.and_eq_true, Bool.not_eq_true', equals_single hs, e0, e1, e2,
    beq_eq_false_iff_ne, true_and]
  exact ⟨h2.1, h2.2⟩
theorem q_facts {d : Gen.D} {n : String} (h : nmOK d (qTok n) n = true) :
    isWord (qTok n) = true ∧ (qTok n).has LITERAL = false ∧ nm (qTok n) = n ∧ okHd (qTok n) = true := by
  obtain ⟨a1, a2, a3, a4, a5⟩ := nm_facts h
  exact ⟨isWord_of (isGrp_q n) a1 a2, a2, a3, okHd_of (isGrp_q n) a4 a5⟩
theorem up_src_q_noagg (n : String) (h : Gen.aggNames.contains (up n) = false) : Gen.aggNames.contains (up (qTok n).src) = false := by
  by_cases hq : (PR.quoteName n == n) = true
  · simp only [qTok, hq, if_true, src_opTok]; exact h
  · simp only [qTok, hq, if_false]
    exact not_contains_of_head (TQ.up_nameTok_head n) (by decide)

/-! ### keyword tables -/
def kw0 : List String := ["DISTINCT", "CASE", "WHEN", "THEN", "ELSE", "EXISTS", "NOT", "AND", "OR", "XOR", "BETWEEN", "BY", "IS",
  "IN", "LIKE", "RLIKE", "REGEXP", ",", "WHERE", "HAVING", "ON"]
theorem kw0_ok : kw0.all (fun w => kwOut (opTok w) == some false && okHd (opTok w)) = true := by decide +kernel
theorem k0 (w : String) (h : w ∈ kw0 := by simp [kw0]) : kwOut (opTok w) = some false := by
  have := List.all_eq_true.1 kw0_ok w h
  simp only [Bool.and_eq_true, beq_iff_eq] at this
  exact this.1
theorem o0 (w : String) (h : w ∈ kw0 := by simp [kw0]) : okHd (opTok w) = true := by
  have := List.all_eq_true.1 kw0_ok w h
  simp only [Bool.and_eq_true, beq_iff_eq] at this
  exact this.2
theorem b0 (w : String) (h : w ∈ kw0 := by simp [kw0]) : BinTok (opTok w) := BinTok.ofKw (k0 w h) (okHd_dot (o0 w h))
theorem kw_SELECT : kwOut (opTok "SELECT") = some false := by decide +kernel
theorem kw_END : kwOut (opTok "END") = some true := by decide +kernel
theorem kw_DESC : kwOut (opTok "DESC") = some true := by decide +kernel

def binS (w : String) : Bool := (w == "*" || kwOut (opTok w) == some false) && !(opTok w).equalsStr "."
theorem binTok_S {w : String} (h : binS w = true) : BinTok (opTok w) := by
  simp only [binS, Bool.and_eq_true, Bool.or_eq_true, beq_iff_eq, Bool.not_eq_true'] at h
  rcases h.1 with rfl | hk
  · exact binTok_star
  · exact BinTok.ofKw hk h.2
theorem binTok_cval (o : String) : BinTok (opTok (cval o)) := by
  apply binTok_S
  have hall : Gen.computeEnum.all (fun e => binS e.2.1) = true := by decide +kernel
  unfold cval
  cases hf : Gen.computeEnum.find? (·.1 == o) with
  | none => decide +kernel
  | some e => exact List.all_eq_true.1 hall e (List.mem_of_find?_eq_some hf)
theorem binTok_cmpVal (o : String) : BinTok (opTok (cmpVal o)) := by
  apply binTok_S
  have hall : Gen.compareEnum.all (fun e => binS (PR.joinS " " e.2)) = true := by decide +kernel
  unfold cmpVal
  cases hf : Gen.compareEnum.find? (·.1 == o) with
  | none => decide +kernel
  | some e => exact List.all_eq_true.1 hall e (List.mem_of_find?_eq_some hf)
theorem unary_ok {d : Gen.D} {o : String} (h : unOK d o = true) : kwOut (opTok (cval o)) = some false ∧ okHd (opTok (cval o)) = true := by
  simp only [unOK, Bool.and_eq_true] at h
  have hu := h.1.1.1
  have hall : (Gen.unarySet d).all (fun k => kwOut (opTok k) == some false && okHd (opTok k)) = true := by cases d <;> decide +kernel
  have := List.all_eq_true.1 hall (cval o) (by simpa using hu)
  simpa using this

/-! ### sub-queries -/
theorem isSubq_toksQ (d : Gen.D) (ch : Expr → Bool) (q : Query) : isSubq (toksQ d ch q) = true := by
  have h : (opTok "SELECT").equalsStr "SELECT" = true := by decide
  cases q with
  | single s => cases s; simp [toksQ, toksS3, isSubq, h]
  | union ws s us => cases s; simp [toksQ, toksS3, isSubq, h]
theorem colOK_subq (d : Gen.D) (ch : Expr → Bool) (q : Query) : ColOK [grp (toksQ d ch q)] [] :=
  ⟨fun rest hr => by simp [colL_grp_expr, isSubq_toksQ], ⟨_, _, rfl, okHd_grp _⟩⟩

/-! ### the predicate words -/
theorem colOK_kwToks (k : KwKind) (n : Bool) {a b : List Tok} {x y : List QCol} (ha : ColOK a x) (hb : ColOK b y) :
    ColOK (a ++ (kwToks k n ++ b)) (x ++ y) := by
  cases k <;> cases n <;> simp only [kwToks, Bool.false_eq_true, if_false, if_true]
  · exact ha.bin (b0 "IS") hb
  · exact ha.bin (b0 "IS") (hb.pre (k0 "NOT") (o0 "NOT"))
  · exact ha.bin (b0 "IN") hb
  · exact ha.bin (b0 "NOT") (hb.pre (k0 "IN") (o0 "IN"))
  · exact ha.bin (b0 "LIKE") hb
  · exact ha.bin (b0 "NOT") (hb.pre (k0 "LIKE") (o0 "LIKE"))
  · exact ha.bin (b0 "RLIKE") hb
  · exact ha.bin (b0 "NOT") (hb.pre (k0 "RLIKE") (o0 "RLIKE"))
  · exact ha.bin (b0 "REGEXP") hb
  · exact ha.bin (b0 "NOT") (hb.pre (k0 "REGEXP") (o0 "REGEXP"))

/-- an argument list inside its bracket group -/
structure ArgsOK (ts : List Tok) (l : List QCol) : Prop where
  scan : colL (.expr false) ts = l
  nodot : nextIs "." ts = false
  nosubq : isSubq ts = false

theorem hdS_comma2 (r : List Tok) : hdS (TP2.commaTok :: r) = true := hdS_cons rfl (by decide) r
theorem kw_comma2 : kwOut TP2.commaTok = some false := k0 ","
theorem kw_comma : kwOut TS.commaTok = some false := k0 ","

/-! ### the mutual induction -/
variable {d : Gen.D} (ch : Expr → Bool)

mutual
theorem cE : ∀ (e : Expr), FragE3 d e = true → ColOK (toksE3 d ch e) (colsE e)
  | e, h => by
    cases e with
    | column t c =>
      cases t with
      | none =>
        simp only [FragE3, colOK, Bool.and_eq_true, beq_iff_eq] at h
        have hn : nm (nameTok c) = c := h.2
        simp only [toksE3, colsE]
        refine ⟨fun rest hr => ?_, ⟨_, _, rfl, name_okHd c⟩⟩
        rw [List.singleton_append, colL_name (name_word c) (name_nolit c) (name_quoted c) (name_notAS c) false rest hr, hn]
        rfl
      | some t =>
        simp only [FragE3, qcolOK, Bool.and_eq_true] at h
        obtain ⟨_, _, a3, _, _⟩ := nm_facts h.1
        have hc : nm (nameTok c) = c := by
          have := h.2; simp only [nm2OK, Bool.and_eq_true, beq_iff_eq] at this; exact this.1.2
        simp only [toksE3, colsE]
        refine ⟨fun rest hr => ?_, ⟨_, _, rfl, name_okHd t⟩⟩
        have : isGlobal (some t) c = false := rfl
        simp only [List.cons_append, List.nil_append, colL_qcol (name_word t) (name_nolit t) (name_word c) false rest hr, a3, hc, this,
          Bool.false_eq_true, if_false, List.singleton_append]
    | literal v =>
      simp only [FragE3] at h
      simp only [toksE3, colsE]
      exact ⟨fun rest hr => by rw [List.singleton_append, colL_lit rfl (lit_has v h)]; rfl, ⟨_, _, rfl, lit_okHd v h⟩⟩
    | wildcard t =>
      cases t with
      | none =>
        simp only [toksE3, colsE]
        exact ⟨fun rest hr => by rw [List.singleton_append, colL_star_wild]; rfl, ⟨_, _, rfl, by decide⟩⟩
      | some t =>
        simp only [FragE3, wildOK] at h
        obtain ⟨a1, a2, a3, a4⟩ := q_facts h
        simp only [toksE3, colsE]
        exact ⟨fun rest hr => by simp only [List.cons_append, List.nil_append, colL_qstar a1 a2 false rest hr, a3, List.singleton_append],
          ⟨_, _, rfl, a4⟩⟩
    | func s n ps =>
      simp only [FragE3, Bool.and_eq_true] at h
      have ha := cArgs 14 ps h.2
      have hfn : Gen.aggNames.contains (up n) = false := by
        have := h.1; cases s <;> simp only [fnOK, fnNameOK, Bool.and_eq_true, Bool.not_eq_true'] at this <;> exact this.1.2
      simp only [toksE3, colsE]
      cases s with
      | none =>
        have h1 := h.1
        simp only [fnOK, Bool.and_eq_true] at h1
        obtain ⟨a1, a2, a3, a4⟩ := q_facts h1.2.1
        refine ⟨fun rest hr => ?_, ⟨_, _, rfl, a4⟩⟩
        simp only [List.nil_append, List.cons_append, colL_fn a1 a2 (up_src_q_noagg n hfn) false, ha.nosubq, ha.scan, Bool.false_eq_true,
          if_false]
      | some s =>
        have h1 := h.1
        simp only [fnOK, Bool.and_eq_true] at h1
        refine ⟨fun rest hr => ?_, ⟨_, _, rfl, name_okHd s⟩⟩
        simp only [List.nil_append, List.cons_append, colL_qfn (name_word s) (name_nolit s) (isGrp_q n) false, ha.nosubq, ha.scan,
          Bool.false_eq_true, if_false]
    | agg n ps dist =>
      simp only [FragE3, aggOK, Bool.and_eq_true] at h
      have ha := cArgs 14 ps h.2
      obtain ⟨a1, a2, a3, a4, a5⟩ := nm_facts h.1.1.2
      have hw : isWord (opTok n) = true := isWord_of rfl a1 a2
      have hn : Gen.aggNames.contains (up (opTok n).src) = true := by rw [src_opTok]; exact h.1.1.1
      have hAS : (opTok n).equalsStr "AS" = false := by
        rw [TQ.opTok_equals, beq_eq_false_iff_ne]
        intro he
        have := h.1.1.1; rw [he] at this; exact absurd this (by decide)
      have hres : reserved.contains (up (opTok n).src) = false := by
        rw [src_opTok]
        have hall : Gen.aggNames.all (fun a => !reserved.contains a) = true := by decide
        have := List.all_eq_true.1 hall (up n) (by simpa using h.1.1.1)
        simpa using this
      have hin : colL (.expr false) ((if dist then [opTok "DISTINCT"] else []) ++ toksArgs3 d ch 14 ps) = colsEs ps := by
        cases dist with
        | false => simpa using ha.scan
        | true => simp only [if_true, List.singleton_append]; rw [colL_kw (k0 "DISTINCT") false _ ha.nodot, ha.scan]
      simp only [toksE3, colsE]
      refine ⟨fun rest hr => ?_, ⟨_, _, rfl, okHd_of rfl a4 a5⟩⟩
      simp only [List.cons_append, List.nil_append, colL_agg hw a2 hAS hres hn false, hin]
    | caseCond cs els =>
      simp only [FragE3, Bool.and_eq_true, Bool.not_eq_true'] at h
      simp only [toksE3, colsE]
      refine ⟨fun rest hr => ?_, ⟨_, _, rfl, o0 "CASE"⟩⟩
      have hend : ∀ b, colL (.expr b) (opTok "END" :: rest) = colL (.expr true) rest := fun b => colL_kw kw_END b rest (hdS_dot hr)
      have hE := cElse els h.1.2 (opTok "END" :: rest) _ hend (hdS_cons rfl (by decide) rest)
      have hdE : hdS (toksElse3 d ch els ++ opTok "END" :: rest) = true := by
        cases els with
        | none => simp only [toksElse3, List.nil_append]; exact hdS_cons rfl (by decide) rest
        | some y => simp only [toksElse3, List.cons_append]; exact hdS_cons rfl (by decide) _
      have hA := cArms cs h.1.1 _ _ hE hdE false
      have hnd : nextIs "." (toksArms3 d ch cs ++ (toksElse3 d ch els ++ opTok "END" :: rest)) = false := by
        cases cs with
        | nil => simp at h
        | cons p r =>
          obtain ⟨w, t⟩ := p
          simp only [toksArms3, List.cons_append]
          show (opTok "WHEN").equalsStr "." = false
          decide
      simp only [List.cons_append, List.append_assoc, List.singleton_append, List.nil_append, colL_kw (k0 "CASE") false _ hnd, hA]
    | caseVal v cs els =>
      simp only [FragE3, Bool.and_eq_true, Bool.not_eq_true'] at h
      simp only [toksE3, colsE]
      have hv := (cE v h.1.1.1).wrap (ch v) v 14
      refine ⟨fun rest hr => ?_, ⟨_, _, rfl, o0 "CASE"⟩⟩
      have hend : ∀ b, colL (.expr b) (opTok "END" :: rest) = colL (.expr true) rest := fun b => colL_kw kw_END b rest (hdS_dot hr)
      have hE := cElse els h.1.2 (opTok "END" :: rest) _ hend (hdS_cons rfl (by decide) rest)
      have hdE : hdS (toksElse3 d ch els ++ opTok "END" :: rest) = true := by
        cases els with
        | none => simp only [toksElse3, List.nil_append]; exact hdS_cons rfl (by decide) rest
        | some y => simp only [toksElse3, List.cons_append]; exact hdS_cons rfl (by decide) _
      have hA := cArms cs h.1.1.2 _ _ hE hdE true
      have hdA : hdS (toksArms3 d ch cs ++ (toksElse3 d ch els ++ opTok "END" :: rest)) = true := by
        cases cs with
        | nil => simp at h
        | cons p r => obtain ⟨w, t⟩ := p; simp only [toksArms3, List.cons_append]; exact hdS_cons rfl (by decide) _
      simp only [List.cons_append, List.append_assoc, List.singleton_append, List.nil_append, colL_kw (k0 "CASE") false _ (hv.nodot _),
        hv.scan _ hdA, hA]
    | subQuery q => simp only [toksE3, colsE]; exact colOK_subq d ch q
    | exists_ v =>
      simp only [FragE3] at h
      cases v with
      | subQuery q => simp only [toksE3, colsE]; exact (colOK_subq d ch q).pre (k0 "EXISTS") (o0 "EXISTS")
      | _ => simp [isSubQ] at h
    | unary o e =>
      simp only [FragE3, Bool.and_eq_true] at h
      simp only [toksE3, colsE]
      exact ((cE e h.2).wrap _ _ _).pre (unary_ok h.1).1 (unary_ok h.1).2
    | compute l o r =>
      simp only [FragE3, Bool.and_eq_true] at h
      simp only [toksE3, colsE]
      exact ((cE l h.1.2).wrap _ _ _).bin (binTok_cval o) ((cE r h.2).wrap _ _ _)
    | kw k n l r =>
      simp only [FragE3, Bool.and_eq_true] at h
      have hr : ColOK (toksE3 d ch r) (colsE r) := by
        have h2 := h.1.2
        by_cases hk : (k == KwKind.in_) = true
        · simp only [hk, if_true] at h2
          cases r with
          | subQuery q => simp only [toksE3, colsE]; exact colOK_subq d ch q
          | subValue vs =>
            simp only [inRhs3, Bool.and_eq_true] at h2
            have ha := cArgs 8 vs h2.1.1
            simp only [toksE3, colsE]
            exact ⟨fun rest hr => by simp [colL_grp_expr, ha.nosubq, ha.scan], ⟨_, _, rfl, okHd_grp _⟩⟩
          | _ => simp [inRhs3] at h2
        · simp only [hk, if_false] at h2; exact cE r h2
      simp only [toksE3, colsE]
      exact colOK_kwToks k n ((cE l h.1.1).wrap _ _ _) (hr.wrap _ _ _)
    | between n b f t =>
      simp only [FragE3, Bool.and_eq_true] at h
      simp only [toksE3, colsE]
      have hb := (cE b h.1.1.1).wrap (ch b) b 9
      have hf := (cE f h.1.1.2).wrap (ch f) f 8
      have ht := (cE t h.1.2).wrap (ch t) t 8
      cases n with
      | false => exact (hb.bin (b0 "BETWEEN") (hf.bin (b0 "AND") ht)).cast (by simp) (by simp)
      | true => exact (hb.bin (b0 "NOT") ((hf.bin (b0 "AND") ht).pre (k0 "BETWEEN") (o0 "BETWEEN"))).cast (by simp) (by simp)
    | compare o l r =>
      simp only [FragE3, Bool.and_eq_true] at h
      simp only [toksE3, colsE]
      exact ((cE l h.1.1.2).wrap _ _ _).bin (binTok_cmpVal o) ((cE r h.1.2).wrap _ _ _)
    | not_ e => simp only [FragE3] at h; simp only [toksE3, colsE]; exact ((cE e h).wrap _ _ _).pre (k0 "NOT") (o0 "NOT")
    | and_ l r =>
      simp only [FragE3, Bool.and_eq_true] at h
      simp only [toksE3, colsE]
      exact ((cE l h.1).wrap _ _ _).bin (b0 "AND") ((cE r h.2).wrap _ _ _)
    | xor l r =>
      simp only [FragE3, Bool.and_eq_true] at h
      simp only [toksE3, colsE]
      exact ((cE l h.1).wrap _ _ _).bin (b0 "XOR") ((cE r h.2).wrap _ _ _)
    | or_ l r =>
      simp only [FragE3, Bool.and_eq_true] at h
      simp only [toksE3, colsE]
      exact ((cE l h.1).wrap _ _ _).bin (b0 "OR") ((cE r h.2).wrap _ _ _)
    | _ => simp [FragE3] at h
theorem cArgs (k : Nat) : ∀ (ps : List Expr), FragL3 d ps = true → ArgsOK (toksArgs3 d ch k ps) (colsEs ps)
  | [], _ => by simp only [toksArgs3, colsEs]; exact ⟨colL_nil _, rfl, rfl⟩
  | a :: as, h => by
    simp only [FragL3, Bool.and_eq_true] at h
    have ha := (cE a h.1).wrap (ch a) a k
    obtain ⟨t1, t2⟩ := cArgsTail k as h.2
    simp only [toksArgs3, colsEs]
    refine ⟨by rw [ha.scan _ t2, t1], ha.nodot _, ?_⟩
    obtain ⟨t, r, e, ht⟩ := ha.hd
    rw [e]
    simp [isSubq, noneOf_mem ht (k := "SELECT") (by decide), noneOf_mem ht (k := "WITH") (by decide)]
theorem cArgsTail (k : Nat) : ∀ (ps : List Expr), FragL3 d ps = true →
    colL (.expr true) (toksArgsTail3 d ch k ps) = colsEs ps ∧ hdS (toksArgsTail3 d ch k ps) = true
  | [], _ => by simp only [toksArgsTail3, colsEs]; exact ⟨colL_nil _, rfl⟩
  | a :: as, h => by
    simp only [FragL3, Bool.and_eq_true] at h
    have ha := (cE a h.1).wrap (ch a) a k
    obtain ⟨t1, t2⟩ := cArgsTail k as h.2
    simp only [toksArgsTail3, colsEs]
    exact ⟨by rw [colL_kw kw_comma2 true _ (ha.nodot _), ha.scan _ t2, t1], hdS_comma2 _⟩
theorem cArms : ∀ (cs : List (Expr × Expr)), FragA3 d cs = true → ∀ (tl : List Tok) (X : List QCol),
    (∀ b, colL (.expr b) tl = X) → hdS tl = true → ∀ b, colL (.expr b) (toksArms3 d ch cs ++ tl) = colsArms cs ++ X
  | [], _, tl, X, hX, _, b => by simp only [toksArms3, colsArms, List.nil_append]; exact hX b
  | (w, t) :: r, h, tl, X, hX, htl, b => by
    simp only [FragA3, Bool.and_eq_true] at h
    have hw := (cE w h.1.1).wrap (ch w) w 14
    have ht := (cE t h.1.2).wrap (ch t) t 14
    have ih := cArms r h.2 tl X hX htl true
    have hd2 : hdS (toksArms3 d ch r ++ tl) = true := by
      cases r with
      | nil => simpa [toksArms3] using htl
      | cons p r => obtain ⟨w2, t2⟩ := p; simp only [toksArms3, List.cons_append]; exact hdS_cons rfl (by decide) _
    simp only [toksArms3, colsArms, List.cons_append, List.append_assoc]
    rw [colL_kw (k0 "WHEN") b _ (hw.nodot _), hw.scan _ (hdS_cons rfl (by decide) _), colL_kw (k0 "THEN") true _ (ht.nodot _),
      ht.scan _ hd2, ih]
theorem cElse : ∀ (y : Option Expr), FragO3 d y = true → ∀ (tl : List Tok) (X : List QCol),
    (∀ b, colL (.expr b) tl = X) → hdS tl = true → ∀ b, colL (.expr b) (toksElse3 d ch y ++ tl) = colsOE y ++ X
  | none, _, tl, X, hX, _, b => by simp only [toksElse3, colsOE, List.nil_append]; exact hX b
  | some y, h, tl, X, hX, htl, b => by
    simp only [FragO3] at h
    have hy := (cE y h).wrap (ch y) y 14
    simp only [toksElse3, colsOE, List.cons_append]
    rw [colL_kw (k0 "ELSE") b _ (hy.nodot _), hy.scan _ htl, hX]
end

end CT
