import MsqProofs.Lemmas.LexLinkQuery
import MsqProofs.Lemmas.LexLinkSelectHive
import MsqProofs.Lemmas.TDdl0
/-!
# The lexer link for CREATE TABLE, lexer side (C18 / C01 / C03)

What the CREATE TABLE printers write beyond expressions and the separators of the SELECT link:

* the line break directly after `(` and before `)`, the comma directly followed by a line break and the two-blank indentation
  (`Lx.nl`, `Lx.nlTrail`, `Lx.comma0`), the comma directly followed by the next parameter (`DECIMAL(10,2)`);
* `=` between a keyword / a quoted key and a value without blanks (`ENGINE=InnoDB`, `'k'='v'`): `tk_eq`, `Lx.eqJoin`;
* the closed words of the two renderings, decided on the regenerated table (`ddl_words_lex`, `eq_words_lex`);
* raw-source payloads (`srcLex`: comments, charset / engine / index names …: a digit string, a quoted string of the escape grammar,
  a back-quoted name, or a plain word) read back as the ONE token `TD.srcTok s` (`lx_src`), also directly before `=` (`tk_src_eq`);
* `LL us tss` (pieces and their token lists, pointwise) and `lx_sepAll`: pieces joined by `,` + a gap lex to `TD.sepAll tss`.
-/
set_option linter.unusedVariables false
set_option linter.unusedSimpArgs false
namespace LD
open Lex Spec C05 C06 C09 Ast TP TS TD LexLink

/-! ## separators -/

theorem Lx.nl {b : List Char} {tb : List Tok} (hb : Lx b tb) : Lx ('\n' :: b) tb := by
  intro T pre rest f fs hT hd
  have e1 : ('\n' :: b) ++ rest = '\n' :: (b ++ rest) := rfl
  rw [e1, step_newline]
  have hT2 : T = (pre ++ ['\n']) ++ b ++ rest := by rw [hT]; simp
  have := hb T (pre ++ ['\n']) rest f fs hT2 hd
  simp only [List.length_append, List.length_cons, List.length_nil] at this ⊢
  rw [this]
  congr 2 <;> omega

theorem Lx.nlTrail {a : List Char} {ta : List Tok} (ha : Lx a ta) : Lx (a ++ ['\n']) ta := by
  intro T pre rest f fs hT hd
  have e1 : (a ++ ['\n']) ++ rest = a ++ ('\n' :: rest) := by simp
  have hT1 : T = pre ++ a ++ ('\n' :: rest) := by rw [hT]; simp
  rw [e1, ha T pre ('\n' :: rest) f fs hT1 (Or.inr ⟨_, Or.inr (Or.inr (Or.inr rfl))⟩), step_newline]
  simp only [List.length_append, List.length_cons, List.length_nil]
  congr 2 <;> omega

/-- two texts separated by a comma, the second directly after it -/
theorem Lx.comma0 {a b : List Char} {ta tb : List Tok} (ha : Lx a ta) (hb : Lx b tb) :
    Lx (a ++ ',' :: b) (ta ++ commaTok :: tb) := by
  intro T pre rest f fs hT hd
  have e1 : (a ++ ',' :: b) ++ rest = a ++ (',' :: (b ++ rest)) := by simp
  have hT1 : T = pre ++ a ++ (',' :: (b ++ rest)) := by rw [hT]; simp
  rw [e1, ha T pre (',' :: (b ++ rest)) f fs hT1 (Or.inr ⟨_, Or.inr (Or.inr (Or.inl rfl))⟩)]
  have hT2 : T = (pre ++ a) ++ [','] ++ (b ++ rest) := by rw [hT]; simp
  have hc := feed_comma T (pre ++ a) (b ++ rest) (f ++ ta) fs hT2
  have e2 : ',' :: (b ++ rest) = [','] ++ (b ++ rest) := rfl
  simp only [List.length_append] at hc
  rw [e2, runTail_append_ok hc]
  have hT3 : T = (pre ++ a ++ [',']) ++ b ++ rest := by rw [hT]; simp
  have := hb T (pre ++ a ++ [',']) rest (f ++ ta ++ [.single [','] 0]) fs hT3 hd
  simp only [List.length_append, List.length_cons, List.length_nil] at this ⊢
  rw [this, commaTok_eq]
  simp only [List.append_assoc, List.cons_append, List.nil_append]
  congr 2 <;> omega

/-- a token that is complete whatever follows, directly before a non-empty text -/
theorem Lx.pre {u b : List Char} {tk : Tok} {tb : List Tok} (hb : Lx b tb) (hne : b ≠ []) (hu : ∀ c, Tk u tk c) :
    Lx (u ++ b) (tk :: tb) := by
  cases b with
  | nil => exact absurd rfl hne
  | cons c b' => exact Lx.prefix hb rfl (hu c)

/-! ## `=` -/

theorem wmL_eq : wmL ['='] = 0 := by decide +kernel

theorem eqTok_eq : eqTok = .single ['='] 0 := by
  simp only [eqTok, opTok_eq]
  have : ("=" : String).toList = ['='] := rfl
  rw [this, wmL_eq]

/-- `=` between tokens: a token of its own, whatever follows -/
theorem tk_eq (c : Char) : Tk ['='] eqTok c := by
  have := tk_of_complete ['='] [] '=' rfl .WAIT 0 (fun T n stk => rfl) (Or.inr ⟨look (by decide +kernel), rfl⟩)
  rw [eqTok_eq]
  exact tk_of_feed this c

/-- `a=b` without blanks: `a` ends before `=`, `b` is not empty -/
theorem Lx.eqJoin {a b : List Char} {ta : Tok} {tb : List Tok} (ha : Tk a ta '=') (hb : Lx b tb) (hne : b ≠ []) :
    Lx (a ++ '=' :: b) (ta :: eqTok :: tb) :=
  Lx.prefix (Lx.pre hb hne tk_eq) rfl ha

/-! ## closed words -/

def ddlWords : List String :=
  ["CREATE", "TABLE", "IF", "NOT", "EXISTS", "UNSIGNED", "ZEROFILL", "CHARACTER", "SET", "COLLATE", "GENERATED", "ALWAYS", "AS", "NULL",
   "AUTO_INCREMENT", "DEFAULT", "ON", "UPDATE", "COMMENT", "PRIMARY", "KEY", "UNIQUE", "FULLTEXT", "USING", "KEY_BLOCK_SIZE",
   "CONSTRAINT", "FOREIGN", "REFERENCES", "DELETE", "NO", "ACTION", "CASCADE", "RESTRICT", "ENGINE", "CHARSET", "ROW_FORMAT",
   "STATS_PERSISTENT", "PARTITIONED", "BY", "ROW", "FORMAT", "SERDE", "DELIMITED", "FIELDS", "TERMINATED", "STORED", "INPUTFORMAT",
   "TEXTFILE", "OUTPUTFORMAT", "LOCATION", "TBLPROPERTIES", "VIRTUAL"]
/-- the keywords written directly before `=` -/
def eqWords : List String := ["ENGINE", "AUTO_INCREMENT", "CHARSET", "COLLATE", "ROW_FORMAT", "STATS_PERSISTENT", "COMMENT", "KEY_BLOCK_SIZE"]

theorem ddl_words_lex : ddlWords.all (fun k => lxIs k.toList (ctok k.toList)) = true := by decide +kernel
theorem eq_words_lex : eqWords.all (fun k => tkIs k.toList '=' (ctok k.toList)) = true := by decide +kernel
theorem ddl_words_plain : ddlWords.all (fun k => allP k.toList) = true := by decide +kernel
theorem ddl_words_occ : ddlWords.all (fun k => !C01.occ k.toList) = true := by decide +kernel

theorem lx_w (k : String) (hk : k ∈ ddlWords) : Lx k.toList [opTok k] := by
  rw [opTok_eq]; exact lx_of_is ((List.all_eq_true.mp ddl_words_lex) k hk)
theorem tk_w_eq (k : String) (hk : k ∈ eqWords) : Tk k.toList (opTok k) '=' := by
  rw [opTok_eq]; exact tk_of_is ((List.all_eq_true.mp eq_words_lex) k hk)
theorem allP_w (k : String) (hk : k ∈ ddlWords) : allP k.toList = true := (List.all_eq_true.mp ddl_words_plain) k hk
theorem occ_w (k : String) (hk : k ∈ ddlWords) : C01.occ k.toList = false := by
  have := (List.all_eq_true.mp ddl_words_occ) k hk
  simpa using this

/-! ## raw-source payloads -/

/-- a quoted string `'…'` / `"…"` whose body obeys the escape grammar (doubled quotes, backslash + any character) and has no
character the lexer's pre-pass rewrites -/
def quotedLex (s : String) : Prop :=
  ∃ k body, k ≠ QK.bq ∧ s.toList = k.wrap body ∧ strBody k.ch body = true ∧ ∀ x ∈ body, plain x = true
/-- **a raw-source payload** (comment, charset, engine, index name, …) the lexer reads back as ONE token: a non-empty digit string, a
quoted string of the escape grammar, a back-quoted name (no back-quote inside), or a plain word `[A-Za-z_][A-Za-z0-9_]*`; no TAB / CR /
U+3000 -/
def srcLex (s : String) : Prop :=
  (s.toList ≠ [] ∧ ∀ x ∈ s.toList, isDigit x.toNat = true) ∨ quotedLex s ∨
  (∃ body, s.toList = '`' :: (body ++ ['`']) ∧ ∀ x ∈ body, x ≠ '`' ∧ plain x = true) ∨
  plainL s.toList = true
def optSrcLex : Option String → Prop
  | none => True
  | some s => srcLex s

theorem alpha_not_digit (c : Char) (h : (c.isAlpha || c == '_') = true) : c.isDigit = false := by
  have hr := alphaU_code c h
  have h0 : '0'.toNat = 48 := by decide
  have h9 : '9'.toNat = 57 := by decide
  rw [charIsDigit]
  cases hd : isDigit c.toNat with
  | false => rfl
  | true =>
    simp only [isDigit, between, Bool.and_eq_true, Nat.ble_eq, h0, h9] at hd
    omega

theorem alpha_not_quote (c : Char) (h : (c.isAlpha || c == '_') = true) : c ≠ '\'' ∧ c ≠ '"' ∧ c ≠ '`' ∧ c ≠ '=' := by
  refine ⟨?_, ?_, ?_, ?_⟩ <;> intro e <;> subst e <;> revert h <;> decide

/-- the marks of `srcTok`, case by case -/
theorem srcMark_digits (s : String) (hne : s.toList ≠ []) (hd : ∀ x ∈ s.toList, isDigit x.toNat = true) :
    srcMark s = (Gen.mark_LITERAL ||| Gen.mark_LITERAL_INT) := by
  have hdig : isDigits s = true := by
    simp only [isDigits, Bool.and_eq_true, Bool.not_eq_eq_eq_not, Bool.not_true, List.isEmpty_eq_false_iff, List.all_eq_true]
    exact ⟨hne, fun x hx => by rw [charIsDigit]; exact hd x hx⟩
  simp [srcMark, hdig, Lex.LITERAL]

theorem srcMark_quoted (s : String) (k : QK) (hk : k ≠ .bq) (body : List Char) (hv : s.toList = k.wrap body) :
    srcMark s = (Gen.mark_LITERAL ||| Gen.mark_NAME) := by
  have hhead : s.toList.head? = some k.ch := by rw [hv]; rfl
  have hq : k.ch = '\'' ∨ k.ch = '"' := by cases k <;> first | exact Or.inl rfl | exact Or.inr rfl | exact absurd rfl hk
  have hdig : isDigits s = false := by
    simp only [isDigits, Bool.and_eq_false_iff]
    right
    rw [hv]
    rcases hq with e | e <;> simp [QK.wrap, e] <;> decide
  have hh : (s.toList.head? == some '\'' || s.toList.head? == some '"') = true := by
    rw [hhead]; rcases hq with e | e <;> simp [e]
  simp [srcMark, hdig, hh, Lex.LITERAL, Lex.NAME]

theorem srcMark_bq (s : String) (body : List Char) (hv : s.toList = '`' :: (body ++ ['`'])) : srcMark s = Gen.mark_NAME := by
  have hdig : isDigits s = false := by
    simp only [isDigits, Bool.and_eq_false_iff]
    right
    rw [hv]
    simp
  have hh : (s.toList.head? == some '\'' || s.toList.head? == some '"') = false := by rw [hv]; simp
  have hb : (s.toList.head? == some '`') = true := by rw [hv]; rfl
  simp [srcMark, hdig, hh, hb, Lex.NAME]

theorem srcMark_plain (s : String) (h : plainL s.toList = true) : srcMark s = wmL s.toList := by
  cases hv : s.toList with
  | nil => rw [hv] at h; cases h
  | cons c r =>
    rw [hv] at h
    simp only [plainL, Bool.and_eq_true] at h
    have hnd := alpha_not_digit c h.1
    have hnq := alpha_not_quote c h.1
    have hdig : isDigits s = false := by
      simp only [isDigits, Bool.and_eq_false_iff]; right; rw [hv]; simp [hnd]
    have hh : (s.toList.head? == some '\'' || s.toList.head? == some '"') = false := by
      rw [hv]; simp [hnq.1, hnq.2.1]
    have hb : (s.toList.head? == some '`') = false := by rw [hv]; simp [hnq.2.2.1]
    simp [srcMark, hdig, hh, hb, wordMark_eq, hv, hnq.1, hnq.2.1, hnq.2.2.1]

/-- a quoted string directly before any character but its own quote -/
theorem tk_string (k : QK) (hk : k ≠ .bq) (body : List Char) (hb : strBody k.ch body = true) (d : Char) (hdd : d ≠ k.ch) :
    Tk (k.wrap body) (.single (k.wrap body) (Gen.mark_LITERAL ||| Gen.mark_NAME)) d := by
  have hm : k.marks = (Gen.mark_LITERAL ||| Gen.mark_NAME) := by cases k <;> first | rfl | exact absurd rfl hk
  refine tk_of_pending' _ d _ fun T pre more f fs hT => ?_
  obtain ⟨g1, g2, _⟩ := escaped_quote k hk pre body (d :: more) hb f fs
  refine ⟨k.pending, by rw [hT]; exact g1, ?_⟩
  rw [hT, ← hm]; exact g2 d hdd

/-- **a raw-source payload lexes to the one token `srcTok s`** -/
theorem lx_src (s : String) (h : srcLex s) : Lx s.toList [srcTok s] := by
  rcases h with ⟨hne, hd⟩ | ⟨k, body, hk, hv, hb, _⟩ | ⟨body, hv, hb⟩ | hp
  · simp only [srcTok, srcMark_digits s hne hd]
    exact lx_int s.toList hne hd
  · simp only [srcTok, srcMark_quoted s k hk body hv]
    rw [hv]; exact lx_string k hk body hb
  · simp only [srcTok, srcMark_bq s body hv]
    rw [hv]; exact lx_name body fun x hx => (hb x hx).1
  · simp only [srcTok, srcMark_plain s hp]
    exact lx_plain s.toList hp

/-- a quoted payload directly before `=` -/
theorem tk_quoted_eq (s : String) (h : quotedLex s) : Tk s.toList (srcTok s) '=' := by
  obtain ⟨k, body, hk, hv, hb, _⟩ := h
  simp only [srcTok, srcMark_quoted s k hk body hv]
  rw [hv]; exact tk_string k hk body hb '=' (by cases k <;> decide)

/-- a digit string directly before `=` -/
theorem tk_int_eq (ds : List Char) (hne : ds ≠ []) (hd : ∀ c ∈ ds, isDigit c.toNat = true) :
    Tk ds (.single ds (Gen.mark_LITERAL ||| Gen.mark_LITERAL_INT)) '=' := by
  have hrun : ∀ (T : List Char) (n : Nat) (stk : List (List Tok)), ∃ q, intSt q ∧
      feedAllWith (handle Gen.cfgS T) ds ⟨n, n, .WAIT, stk⟩ = .ok ⟨n, n + ds.length, q, stk⟩ := by
    intro T n stk
    cases ds with
    | nil => exact absurd rfl hne
    | cons c cs =>
      obtain ⟨q0, hq0, hl⟩ := int_first c (hd c (by simp))
      have h1 := handle_addTo shipped_code (text := T) (m := ⟨n, n, .WAIT, stk⟩) hl
      obtain ⟨q, hq, hr⟩ := int_run T cs (fun d hm => hd d (by simp [hm])) q0 hq0 n (n + 1) stk
      refine ⟨q, hq, ?_⟩
      rw [feedAllWith_cons_adv h1, hr]
      simp only [List.length_cons]; congr 2; omega
  refine tk_of_pending' ds '=' _ fun T pre more f fs hT => ?_
  obtain ⟨q, hq, hr⟩ := hrun T pre.length (f :: fs)
  refine ⟨q, hr, ?_⟩
  have hb : Gen.cfgS.lookup q (.ch '=') = some (emitBefore mInt) := by
    rcases hq with rfl | rfl <;> exact look (by decide +kernel)
  rw [handle_emitBefore shipped_code (m := ⟨pre.length, pre.length + ds.length, q, f :: fs⟩) hb rfl]
  have hw : win T ⟨pre.length, pre.length + ds.length, q, f :: fs⟩ (pre.length + ds.length) = ds := by
    rw [hT]; exact win_mid pre ds ('=' :: more) _ _ _
  rw [hw]; rfl

theorem bx_eq : tkIs ['b'] '=' (.single ['b'] Gen.mark_NAME) = true ∧ tkIs ['B'] '=' (.single ['B'] Gen.mark_NAME) = true ∧
    tkIs ['x'] '=' (.single ['x'] Gen.mark_NAME) = true ∧ tkIs ['X'] '=' (.single ['X'] Gen.mark_NAME) = true := by decide +kernel

/-- a plain name directly before `=` -/
theorem tk_plain_eq (a : List Char) (h : plainL a = true) : Tk a (.single a (wmL a)) '=' := by
  have hend : endsWord '=' = true := by decide +kernel
  cases a with
  | nil => cases h
  | cons c r =>
    simp only [plainL, Bool.and_eq_true, List.all_eq_true] at h
    have hhead : (c :: r).head?.any (fun c => c.isAlpha || c == '_') = true := by simpa using h.1
    have hwm := wordMark_alpha (c :: r) hhead
    by_cases hbx : c = 'b' ∨ c = 'B' ∨ c = 'x' ∨ c = 'X'
    · cases r with
      | nil =>
        rcases hbx with rfl | rfl | rfl | rfl
        · rw [wmL_bx.1]; exact tk_of_is bx_eq.1
        · rw [wmL_bx.2.1]; exact tk_of_is bx_eq.2.1
        · rw [wmL_bx.2.2.1]; exact tk_of_is bx_eq.2.2.1
        · rw [wmL_bx.2.2.2]; exact tk_of_is bx_eq.2.2.2
      | cons y r' =>
        rw [← hwm]
        refine tk_of_inword (c :: y :: r') (fun T n stk => ?_) '=' hend
        have hp : ∃ p, (p = S.AFTER_B ∨ p = S.AFTER_X) ∧ Gen.cfgS.lookup .WAIT (.ch c) = some (addTo p) := by
          rcases hbx with rfl | rfl | rfl | rfl
          · exact ⟨.AFTER_B, Or.inl rfl, look (by decide +kernel)⟩
          · exact ⟨.AFTER_B, Or.inl rfl, look (by decide +kernel)⟩
          · exact ⟨.AFTER_X, Or.inr rfl, look (by decide +kernel)⟩
          · exact ⟨.AFTER_X, Or.inr rfl, look (by decide +kernel)⟩
        obtain ⟨p, hpp, hl1⟩ := hp
        have hy := alnumU_code y (h.2 y (by simp))
        have hf := alnum_facts y.toNat hy.2 hy.1
        have hl2 : Gen.cfgS.lookup p (.ch y) = some (addTo .IN_WORD) := by
          rcases hpp with rfl | rfl
          · exact look hf.2.1
          · exact look hf.2.2
        have e1 := handle_addTo shipped_code (text := T) (m := ⟨n, n, .WAIT, stk⟩) hl1
        have e2 := handle_addTo shipped_code (text := T) (m := ⟨n, n + 1, p, stk⟩) hl2
        rw [feedAllWith_cons_adv e1, feedAllWith_cons_adv e2,
          feedAll_loop shipped_code (fun c => wordChar c = true) word_next r'
            (fun x hx => alnum_wordChar x (h.2 x (by simp [hx])))]
        simp only [List.length_cons]; congr 2; omega
    · have hsw : startsWord c = true := by
        have hc := alnumU_code c (plainL_head c h.1)
        have hwc := (alnum_facts c.toNat hc.2 hc.1).1
        have hnd : isDigit c.toNat = false := by
          have := alpha_not_digit c h.1
          rwa [charIsDigit] at this
        have hnb : isBitPrefix c.toNat = false ∧ isHexPrefix c.toNat = false := by
          simp only [isBitPrefix, isHexPrefix, isCh_toNat, Bool.or_eq_false_iff, decide_eq_false_iff_not]
          exact ⟨⟨fun e => hbx (Or.inl e), fun e => hbx (Or.inr (Or.inl e))⟩,
            ⟨fun e => hbx (Or.inr (Or.inr (Or.inl e))), fun e => hbx (Or.inr (Or.inr (Or.inr e)))⟩⟩
        simp [startsWord, hwc, hnd, hnb.1, hnb.2]
      have hw : isWord (c :: r) = true := by
        simp only [isWord, Bool.and_eq_true, List.all_eq_true]
        exact ⟨hsw, fun x hx => alnum_wordChar x (h.2 x hx)⟩
      rw [← hwm]
      exact tk_of_inword (c :: r) (fun T n stk => word_run T (c :: r) hw n stk) '=' hend

/-- **a raw-source payload directly before `=`** (the key of a table property) -/
theorem tk_src_eq (s : String) (h : srcLex s) : Tk s.toList (srcTok s) '=' := by
  rcases h with ⟨hne, hd⟩ | hq | ⟨body, hv, hb⟩ | hp
  · simp only [srcTok, srcMark_digits s hne hd]
    exact tk_int_eq s.toList hne hd
  · exact tk_quoted_eq s hq
  · simp only [srcTok, srcMark_bq s body hv]
    rw [hv]; exact tk_bq body (fun x hx => (hb x hx).1) '='
  · simp only [srcTok, srcMark_plain s hp]
    exact tk_plain_eq s.toList hp

theorem quoted_src (s : String) (h : quotedLex s) : srcLex s := Or.inr (Or.inl h)

theorem allP_src (s : String) (h : srcLex s) : allP s.toList = true := by
  rcases h with ⟨_, hd⟩ | ⟨k, body, hk, hv, _, hp⟩ | ⟨body, hv, hb⟩ | hp
  · exact List.all_eq_true.mpr fun x hx => digit_plain x (hd x hx)
  · rw [hv]
    have hq : plain k.ch = true := by cases k <;> decide
    simp only [QK.wrap, allP, List.all_cons, List.all_append, List.all_nil, Bool.and_true, Bool.and_eq_true, List.all_eq_true]
    exact ⟨hq, hp, hq⟩
  · rw [hv]
    have hq : plain '`' = true := by decide
    simp only [allP, List.all_cons, List.all_append, List.all_nil, Bool.and_true, Bool.and_eq_true, List.all_eq_true]
    exact ⟨hq, fun x hx => (hb x hx).2, hq⟩
  · exact plainL_allP _ hp

theorem src_ne_nil (s : String) (h : srcLex s) : s.toList ≠ [] := by
  rcases h with ⟨hne, _⟩ | ⟨k, body, _, hv, _, _⟩ | ⟨body, hv, _⟩ | hp
  · exact hne
  · rw [hv]; simp [QK.wrap]
  · rw [hv]; simp
  · intro e; rw [e] at hp; cases hp

/-- a non-negative integer directly before… nothing special: its text is not empty -/
theorem int_ne_nil (n : Int) (h : 0 ≤ n) : (toString n).toList ≠ [] := (toString_nonneg n h).1

/-! ## pieces with their token lists -/

/-- pieces and token lists, pointwise -/
def LL : List (List Char) → List (List Tok) → Prop
  | [], [] => True
  | u :: us, t :: ts => Lx u t ∧ LL us ts
  | _, _ => False

theorem LL.nil : LL [] [] := trivial
theorem LL.cons {u : List Char} {t : List Tok} {us : List (List Char)} {ts : List (List Tok)} (h : Lx u t) (hs : LL us ts) :
    LL (u :: us) (t :: ts) := ⟨h, hs⟩
theorem LL.append : ∀ {us vs : List (List Char)} {ts tv : List (List Tok)}, LL us ts → LL vs tv → LL (us ++ vs) (ts ++ tv)
  | [], _, [], _, _, h2 => h2
  | [], _, _ :: _, _, h1, _ => h1.elim
  | _ :: _, _, [], _, h1, _ => h1.elim
  | u :: us, vs, t :: ts, tv, h1, h2 => ⟨h1.1, LL.append h1.2 h2⟩
theorem LL.map {α : Type} (f : α → List Char) (g : α → List Tok) : ∀ (xs : List α), (∀ x ∈ xs, Lx (f x) (g x)) →
    LL (xs.map f) (xs.map g)
  | [], _ => trivial
  | x :: xs, h => ⟨h x (by simp), LL.map f g xs fun y hy => h y (by simp [hy])⟩
theorem LL.mapL {us : List (List Char)} {ts : List (List Tok)} (w : List Char → List Char)
    (hw : ∀ {b : List Char} {tb : List Tok}, Lx b tb → Lx (w b) tb) : ∀ {us : List (List Char)} {ts : List (List Tok)}, LL us ts →
    LL (us.map w) ts
  | [], [], _ => trivial
  | [], _ :: _, h => h.elim
  | _ :: _, [], h => h.elim
  | u :: us, t :: ts, h => ⟨hw h.1, LL.mapL (us := us) (ts := ts) w hw h.2⟩

/-- pieces joined by `,` and a gap (nothing, a blank, a line break) lex to the comma-separated token lists -/
theorem lx_sepAll (gap : List Char) (hgap : ∀ {b : List Char} {tb : List Tok}, Lx b tb → Lx (gap ++ b) tb) :
    ∀ (us : List (List Char)) (tss : List (List Tok)), LL us tss → Lx (joinLL (',' :: gap) us) (sepAll tss)
  | [], [], _ => lx_nil
  | [], _ :: _, h => h.elim
  | _ :: _, [], h => h.elim
  | [u], [t], h => by simpa [joinLL, sepAll, sepTail] using h.1
  | [_], _ :: _ :: _, h => h.2.elim
  | _ :: _ :: _, [_], h => h.2.elim
  | u :: v :: us, t :: t' :: ts, h => by
    have ih := lx_sepAll gap hgap (v :: us) (t' :: ts) h.2
    have := Lx.comma0 h.1 (hgap ih)
    exact Lx.congr this (by simp [joinLL]) (by simp [sepAll, sepTail])

/-! ## blank-joined pieces: the first piece and the rest -/

/-- the pieces, each preceded by a blank -/
def tailL (us : List (List Char)) : List Char := (us.map (' ' :: ·)).flatten

@[simp] theorem tailL_nil : tailL [] = [] := rfl
@[simp] theorem tailL_cons (u : List Char) (us : List (List Char)) : tailL (u :: us) = ' ' :: (u ++ tailL us) := by simp [tailL]
@[simp] theorem tailL_append (us vs : List (List Char)) : tailL (us ++ vs) = tailL us ++ tailL vs := by simp [tailL]

theorem joinLL_tail (a : List Char) : ∀ (us : List (List Char)), joinLL [' '] (a :: us) = a ++ tailL us
  | [] => by simp [joinLL]
  | b :: r => by
    have := joinLL_tail b r
    simp only [joinLL, tailL_cons] at this ⊢
    rw [this]; simp

/-- the first piece and the blank-joined rest -/
theorem lx_tail {a : List Char} {ta : List Tok} {us : List (List Char)} {ts : List Tok} (ha : Lx a ta) (hs : Seg ' ' us ts) :
    Lx (a ++ tailL us) (ta ++ ts) := by
  have := (Seg.cons (Or.inl rfl) ha hs).lx (by simp)
  rwa [joinLL_tail] at this

theorem allP_tailL : ∀ (us : List (List Char)), (∀ u ∈ us, allP u = true) → allP (tailL us) = true
  | [], _ => rfl
  | u :: us, h => by
    have hb : plain ' ' = true := by decide
    have := allP_tailL us fun x hx => h x (by simp [hx])
    simp only [tailL_cons, allP, List.all_cons, List.all_append, Bool.and_eq_true] at this ⊢
    exact ⟨hb, h u (by simp), this⟩

theorem occ_tailL : ∀ (us : List (List Char)), (∀ u ∈ us, C01.occ u = false) → C01.occ (tailL us) = false
  | [], _ => rfl
  | u :: us, h => by
    have := occ_tailL us fun x hx => h x (by simp [hx])
    have e : tailL (u :: us) = [] ++ ' ' :: (u ++ tailL us) := by simp
    rw [e, C01.occ_sep _ _ _ (by decide)]
    cases us with
    | nil => simp [h u (by simp)]; rfl
    | cons v vs =>
      have e2 : u ++ tailL (v :: vs) = u ++ ' ' :: (v ++ tailL vs) := by simp
      have e3 : tailL (v :: vs) = [] ++ ' ' :: (v ++ tailL vs) := by simp
      rw [e3, C01.occ_sep _ _ _ (by decide)] at this
      rw [e2, C01.occ_sep _ _ _ (by decide), h u (by simp)]
      simpa [C01.occ] using this

theorem occ_tail (a : List Char) (us : List (List Char)) (ha : C01.occ a = false) (hs : ∀ u ∈ us, C01.occ u = false) :
    C01.occ (a ++ tailL us) = false := by
  have := occ_tailL (a :: us) (by intro u hu; rcases List.mem_cons.mp hu with rfl | hu; exact ha; exact hs u hu)
  have e : tailL (a :: us) = [] ++ ' ' :: (a ++ tailL us) := by simp
  rw [e, C01.occ_sep _ _ _ (by decide)] at this
  simpa [C01.occ] using this

end LD
