import MsqProofs.Lemmas.TDml5
/-!
# Accounting for the renderings of data-change statements (C08)

`leaves s` — the names and literals stored in the tree of a statement, in print order; `stmt_accounted`: on the fragment the rendering
`toksStmtG d noX tb s` reads as grammar words interleaved with exactly `leaves s` (relation `Acc`, Lemmas/TDml5.lean).
The INSERT kind is stored as an enum member, not as text: its words are grammar words.
-/
set_option linter.unusedVariables false
set_option linter.unusedSimpArgs false
set_option maxHeartbeats 1000000
open Lex PM Ast TP TP2 TS TQ
namespace TDM
variable {d : Gen.D}

def lvWith : WithTable → List String
  | .mk n q => n :: lvQ q
def lvWiths : Option (List WithTable) → List String
  | some ws => ws.flatMap lvWith
  | none => []
def lvTbl (t : TableName) : List String := t.schema.toList ++ [t.name]
def lvPart : Option (List Expr) → List String
  | none => []
  | some es => es.flatMap lvE
def lvColName (c : Option String × String) : List String := c.1.toList ++ [c.2]
def lvColNames : Option (List (Option String × String)) → List String
  | none => []
  | some cs => cs.flatMap lvColName
def lvRows (vs : List (List Expr)) : List String := vs.flatMap (fun r => r.flatMap lvE)
def lvSet (p : String × Expr) : List String := p.1 :: lvE p.2
def lvSets (ss : List (String × Expr)) : List String := ss.flatMap lvSet
def lvTail (wh : Option Expr) (ob : Option (List OrderItem)) (lm : Option (Int × Option Int)) : List String := lvO wh ++ (lvOrder ob ++ lvLimit lm)
/-- **the strings stored in a statement**, in print order -/
def leaves : Stmt → List String
  | .select q => lvWiths (withsOf q) ++ lvQ q
  | .insertValues h vs => lvWiths h.withs ++ (lvTbl h.table ++ (lvPart h.partition ++ (lvColNames h.columns ++ lvRows vs)))
  | .insertSelect h q => lvWiths h.withs ++ (lvTbl h.table ++ (lvPart h.partition ++ (lvColNames h.columns ++ lvQ q)))
  | .update ws t sets wh ob lm => lvWiths ws ++ (lvTbl t ++ (lvSets sets ++ lvTail wh ob lm))
  | .delete t wh ob lm => lvTbl t ++ lvTail wh ob lm
  | _ => []

/-! ### comma-joined segments -/
theorem acc_joinC {β : Type} (tk : β → List Tok) (lf : β → List String) :
    ∀ xs : List β, (∀ x ∈ xs, Acc (tk x) (lf x)) → Acc (joinC (xs.map tk)) (xs.flatMap lf) := by
  intro xs
  induction xs with
  | nil => intro _; exact Acc.nil
  | cons x r ih =>
    intro h
    have hx := h x (by simp)
    have hr := ih (fun y hy => h y (by simp [hy]))
    cases r with
    | nil => simpa [joinC] using hx
    | cons y r' =>
      simp only [List.map_cons, joinC, List.flatMap_cons] at hr ⊢
      exact Acc.app hx (Acc.kf "," hr)

/-! ### the parts -/
theorem acc_tail (wh : Option Expr) (ob : Option (List OrderItem)) (lm : Option (Int × Option Int))
    (h1 : FragO3 d wh = true) (h2 : orderOK3 d ob = true) : Acc (toksTail d noX wh ob lm) (lvTail wh ob lm) :=
  Acc.app (accOptE "WHERE" (by decide) wh h1) (Acc.app (accOrder ob h2) (acc_limit lm))
theorem acc_target (t : TableName) (ht : tblOKD t = true) {ts : List Tok} {l : List String} (h : Acc ts l) :
    Acc (tblTok t.schema t.name :: ts) (lvTbl t ++ l) := by
  simp only [tblOKD, Bool.and_eq_true] at ht
  exact (acc_tbl t.schema t.name ht.1 h).cast (by simp [lvTbl])
theorem acc_set (p : String × Expr) (hp : setOK d p = true) : Acc (toksSet d noX p) (lvSet p) := by
  simp only [setOK, Bool.and_eq_true, beq_iff_eq] at hp
  exact Acc.nm (single_nameTok p.1) hp.1 (Acc.kf "=" (accE p.2 hp.2))
theorem acc_setsTail : ∀ ss : List (String × Expr), (∀ p ∈ ss, setOK d p = true) → Acc (toksSetsTail d noX ss) (lvSets ss) := by
  intro ss
  induction ss with
  | nil => intro _; exact Acc.nil
  | cons p r ih =>
    intro h
    simp only [toksSetsTail, lvSets, List.flatMap_cons]
    exact Acc.kf "," (Acc.app (acc_set p (h p (by simp))) (ih (fun q hq => h q (by simp [hq]))))
theorem acc_sets (ss : List (String × Expr)) (h : ∀ p ∈ ss, setOK d p = true) : Acc (toksSets d noX ss) (lvSets ss) := by
  cases ss with
  | nil => exact Acc.nil
  | cons p r =>
    simp only [toksSets, lvSets, List.flatMap_cons]
    exact Acc.app (acc_set p (h p (by simp))) (acc_setsTail r (fun q hq => h q (by simp [hq])))
theorem acc_with (w : WithTable) (hw : withOK d w = true) : Acc (toksWith d noX w) (lvWith w) := by
  obtain ⟨n, q⟩ := w
  simp only [withOK, Bool.and_eq_true, beq_iff_eq] at hw
  exact Acc.nm (single_qTok n) hw.1 (Acc.kf "AS" (accQ q hw.2).g1)
theorem acc_withsTail : ∀ ws : List WithTable, (∀ w ∈ ws, withOK d w = true) → Acc (toksWithsTail d noX ws) (ws.flatMap lvWith) := by
  intro ws
  induction ws with
  | nil => intro _; exact Acc.nil
  | cons w r ih =>
    intro h
    simp only [toksWithsTail, List.flatMap_cons]
    exact Acc.kf "," (Acc.app (acc_with w (h w (by simp))) (ih (fun u hu => h u (by simp [hu]))))
theorem acc_withs (ws : Option (List WithTable)) (h : withsOK d ws = true) : Acc (toksWiths d noX ws) (lvWiths ws) := by
  cases ws with
  | none => simp [withsOK] at h
  | some l =>
    simp only [withsOK, List.all_eq_true] at h
    cases l with
    | nil => exact Acc.nil
    | cons w r =>
      simp only [toksWiths, lvWiths, List.flatMap_cons]
      exact Acc.kf "WITH" (Acc.app (acc_with w (h w (by simp))) (acc_withsTail r (fun u hu => h u (by simp [hu]))))
theorem acc_partItem (e : Expr) (h : staticOK d e = true ∨ dynOK d e = true) : Acc (toksE3 d noX e) (lvE e) := by
  rcases h with h | h
  · cases e with
    | compare o l r =>
      simp only [staticOK, Bool.and_eq_true] at h
      simp only [toksE3, lvE]
      exact Acc.app ((accE l h.1.1.1.1.2).wrap _ _ _) (Acc.kw (kw_cmpVal o) ((accE r h.1.1.1.2).wrap _ _ _))
    | _ => simp [staticOK] at h
  · simp only [dynOK, Bool.and_eq_true] at h
    exact accE e h.1
theorem acc_part (p : Option (List Expr)) (h : partOK d p = true) : Acc (toksPart d noX p) (lvPart p) := by
  cases p with
  | none => exact Acc.nil
  | some es =>
    simp only [partOK, Bool.or_eq_true, List.all_eq_true] at h
    simp only [toksPart, lvPart]
    refine Acc.kf "PARTITION" (Acc.g1 (acc_joinC (toksE3 d noX) lvE es (fun e he => acc_partItem e ?_)))
    rcases h with h | h
    · exact Or.inl (h e he)
    · exact Or.inr (h e he)
theorem acc_colName (c : Option String × String) (hc : colNameOK c = true) : Acc (toksColName c) (lvColName c) := by
  obtain ⟨t, n⟩ := c
  simp only [colNameOK, Bool.and_eq_true] at hc
  cases t with
  | none => exact Acc.nm (single_nameTok n) (nm2OK_name hc.1.1) Acc.nil
  | some t => exact Acc.nm (single_nameTok t) (nm2OK_name hc.1.2) (Acc.kf "." (Acc.nm (single_nameTok n) (nm2OK_name hc.1.1) Acc.nil))
theorem acc_colNames (cs : Option (List (Option String × String))) (h : colNamesOK cs = true) : Acc (toksColNames cs) (lvColNames cs) := by
  cases cs with
  | none => exact Acc.nil
  | some l =>
    simp only [colNamesOK, List.all_eq_true] at h
    exact Acc.g1 (acc_joinC toksColName lvColName l (fun c hc => acc_colName c (h c hc)))
theorem frag_mem : ∀ (r : List Expr), FragL3 d r = true → ∀ e ∈ r, FragE3 d e = true := by
  intro r
  induction r with
  | nil => intro _ e he; simp at he
  | cons a as ih =>
    intro h e he
    simp only [FragL3, Bool.and_eq_true] at h
    rcases List.mem_cons.1 he with rfl | he
    · exact h.1
    · exact ih h.2 e he
theorem acc_row (r : List Expr) (h : FragL3 d r = true) {ts : List Tok} {l : List String} (hts : Acc ts l) :
    Acc (toksRow d noX r :: ts) (r.flatMap lvE ++ l) :=
  Acc.g (acc_joinC (fun e => W3 d noX e 8) lvE r (fun e he => (accE e (frag_mem r h e he)).wrap _ _ _)) hts
theorem acc_rowsTail : ∀ vs : List (List Expr), (∀ r ∈ vs, FragL3 d r = true) → Acc (toksRowsTail d noX vs) (lvRows vs) := by
  intro vs
  induction vs with
  | nil => intro _; exact Acc.nil
  | cons r rs ih =>
    intro h
    simp only [toksRowsTail, lvRows, List.flatMap_cons]
    exact Acc.kf "," (acc_row r (h r (by simp)) (ih (fun u hu => h u (by simp [hu]))))
theorem acc_rows (vs : List (List Expr)) (h : ∀ r ∈ vs, FragL3 d r = true) : Acc (toksRows d noX vs) (lvRows vs) := by
  cases vs with
  | nil => exact Acc.nil
  | cons r rs =>
    simp only [toksRows, lvRows, List.flatMap_cons]
    exact acc_row r (h r (by simp)) (acc_rowsTail rs (fun u hu => h u (by simp [hu])))
theorem acc_insertWords (ty : String) : ∀ t ∈ insertWords ty, isKw t = true := kw_words Gen.insertTypes insert_kw ty
theorem acc_head (tb : Bool) (h : InsertHead) (hh : headOK d h = true) {ts : List Tok} {l : List String} (hts : Acc ts l) :
    Acc (toksWiths d noX h.withs ++ (toksTarget d noX tb h ++ ts)) (lvWiths h.withs ++ (lvTbl h.table ++ (lvPart h.partition ++ (lvColNames h.columns ++ l)))) := by
  simp only [headOK, Bool.and_eq_true] at hh
  obtain ⟨⟨⟨⟨h1, _⟩, h3⟩, h4⟩, h5⟩ := hh
  refine Acc.app (acc_withs h.withs h1) ?_
  simp only [toksTarget, List.append_assoc, List.cons_append]
  refine Acc.kws (acc_insertWords h.type) ?_
  have core := acc_target h.table h3 (Acc.app (acc_part h.partition h4) (Acc.app (acc_colNames h.columns h5) hts))
  cases tb
  · simpa using core
  · simpa using Acc.kf "TABLE" core
theorem lvQ_stripW (q : Query) : lvQ (stripW q) = lvQ q := by
  cases q with
  | single s => obtain ⟨w, dist, cols, fr, lats, js, wh, gb, hv, ob, sb, db, cb, lm⟩ := s; simp only [stripW, setQW, setW, lvQ, lvS]
  | union w s us => simp only [stripW, setQW, lvQ]
theorem toksQ_strip (q : Query) : toksQ d noX (stripW q) = toksQ d noX q := by
  cases q with
  | single s => obtain ⟨w, dist, cols, fr, lats, js, wh, gb, hv, ob, sb, db, cb, lm⟩ := s; simp only [stripW, setQW, setW, toksQ, toksS3]
  | union w s us => simp only [stripW, setQW, toksQ]

/-- **accounting, statement level**: the rendering of a fragment statement is grammar words interleaved with exactly the strings stored in
the tree, in order — nothing else, nothing missing, nothing twice -/
theorem stmt_accounted (tb : Bool) (s : Stmt) (hs : FragStmt d s = true) : Acc (toksStmtG d noX tb s) (leaves s) := by
  cases s with
  | delete t wh ob lm =>
    simp only [FragStmt, Bool.and_eq_true] at hs
    simp only [toksStmtG, leaves]
    exact Acc.kf "DELETE" (Acc.kf "FROM" (acc_target t hs.1.1.1 (acc_tail wh ob lm hs.1.1.2 hs.1.2)))
  | update w t sets wh ob lm =>
    simp only [FragStmt, Bool.and_eq_true, List.all_eq_true] at hs
    simp only [toksStmtG, leaves]
    exact Acc.app (acc_withs w hs.1.1.1.1.1.1) (Acc.kf "UPDATE" (acc_target t hs.1.1.1.1.1.2 (Acc.kf "SET"
      (Acc.app (acc_sets sets hs.1.1.1.2) (acc_tail wh ob lm hs.1.1.2 hs.1.2)))))
  | insertValues h vs =>
    simp only [FragStmt, Bool.and_eq_true, List.all_eq_true] at hs
    simp only [toksStmtG, leaves]
    exact acc_head tb h hs.1 (Acc.kf "VALUES" (acc_rows vs hs.2))
  | insertSelect h q =>
    simp only [FragStmt, Bool.and_eq_true] at hs
    simp only [toksStmtG, leaves]
    exact acc_head tb h hs.1 (accQ q hs.2)
  | select q =>
    simp only [FragStmt, Bool.and_eq_true] at hs
    simp only [toksStmtG, leaves]
    have := accQ (stripW q) hs.2
    rw [toksQ_strip, lvQ_stripW] at this
    exact Acc.app (acc_withs _ hs.1) this
  | _ => simp [FragStmt] at hs

/-! ### what the relation says, unfolded -/
mutual
/-- the leaves of a token list, bracket groups opened -/
def flatT : Tok → List Tok
  | .single s m => [.single s m]
  | .group _ cs _ => flatL cs
def flatL : List Tok → List Tok
  | [] => []
  | t :: ts => flatT t ++ flatL ts
end
theorem flatT_single {t : Tok} (h : isSingle t = true) : flatT t = [t] := by
  cases t with
  | single s m => simp [flatT]
  | group k cs m => cases h
/-- every token of an accounted rendering is a grammar word or spells a stored string -/
theorem Acc.tokens_stored {ts : List Tok} {l : List String} (h : Acc ts l) :
    ∀ t ∈ flatL ts, isKw t = true ∨ unifyName t.src ∈ l ∨ t.src ∈ l ∨ ∃ s n, splitName t.src = .ok (s, n) ∧ n ∈ l := by
  induction h with
  | nil => intro t ht; simp [flatL] at ht
  | @kw t0 ts l hk _ ih =>
    intro t ht
    have h0 : isSingle t0 = true := by cases t0 <;> simp_all [isKw, isSingle]
    simp only [flatL, flatT_single h0, List.cons_append, List.nil_append, List.mem_cons] at ht
    rcases ht with rfl | ht
    · exact Or.inl hk
    · exact ih t ht
  | @name t0 ts l hs _ ih =>
    intro t ht
    simp only [flatL, flatT_single hs, List.cons_append, List.nil_append, List.mem_cons] at ht
    rcases ht with rfl | ht
    · exact Or.inr (Or.inl (by simp))
    · rcases ih t ht with h | h | h | ⟨s, n, h1, h2⟩
      · exact Or.inl h
      · exact Or.inr (Or.inl (by simp [h]))
      · exact Or.inr (Or.inr (Or.inl (by simp [h])))
      · exact Or.inr (Or.inr (Or.inr ⟨s, n, h1, by simp [h2]⟩))
  | @lit t0 ts l hs _ ih =>
    intro t ht
    simp only [flatL, flatT_single hs, List.cons_append, List.nil_append, List.mem_cons] at ht
    rcases ht with rfl | ht
    · exact Or.inr (Or.inr (Or.inl (by simp)))
    · rcases ih t ht with h | h | h | ⟨s, n, h1, h2⟩
      · exact Or.inl h
      · exact Or.inr (Or.inl (by simp [h]))
      · exact Or.inr (Or.inr (Or.inl (by simp [h])))
      · exact Or.inr (Or.inr (Or.inr ⟨s, n, h1, by simp [h2]⟩))
  | @table t0 ts l s0 n0 hs hn _ ih =>
    intro t ht
    simp only [flatL, flatT_single hs, List.cons_append, List.nil_append, List.mem_cons] at ht
    rcases ht with rfl | ht
    · exact Or.inr (Or.inr (Or.inr ⟨s0, n0, hn, by simp⟩))
    · rcases ih t ht with h | h | h | ⟨s, n, h1, h2⟩
      · exact Or.inl h
      · exact Or.inr (Or.inl (by simp [h]))
      · exact Or.inr (Or.inr (Or.inl (by simp [h])))
      · exact Or.inr (Or.inr (Or.inr ⟨s, n, h1, by simp [h2]⟩))
  | @group k cs m ts l1 l2 _ _ ihc ih =>
    intro t ht
    simp only [flatL, flatT, List.mem_append] at ht
    rcases ht with ht | ht
    · rcases ihc t ht with h | h | h | ⟨s, n, h1, h2⟩
      · exact Or.inl h
      · exact Or.inr (Or.inl (by simp [h]))
      · exact Or.inr (Or.inr (Or.inl (by simp [h])))
      · exact Or.inr (Or.inr (Or.inr ⟨s, n, h1, by simp [h2]⟩))
    · rcases ih t ht with h | h | h | ⟨s, n, h1, h2⟩
      · exact Or.inl h
      · exact Or.inr (Or.inl (by simp [h]))
      · exact Or.inr (Or.inr (Or.inl (by simp [h])))
      · exact Or.inr (Or.inr (Or.inr ⟨s, n, h1, by simp [h2]⟩))
/-- the tokens that are no grammar words are matched one-to-one by stored strings: none of them is lost -/
theorem Acc.count {ts : List Tok} {l : List String} (h : Acc ts l) : ((flatL ts).filter (fun t => !isKw t)).length ≤ l.length := by
  induction h with
  | nil => simp [flatL]
  | @kw t0 ts l hk _ ih =>
    have h0 : isSingle t0 = true := by cases t0 <;> simp_all [isKw, isSingle]
    simp only [flatL, flatT_single h0, List.cons_append, List.nil_append, List.filter_cons, hk, Bool.not_true, Bool.false_eq_true, if_false]
    exact ih
  | @name t0 ts l hs _ ih =>
    simp only [flatL, flatT_single hs, List.cons_append, List.nil_append, List.filter_cons, List.length_cons]
    split <;> (try simp only [List.length_cons]) <;> omega
  | @lit t0 ts l hs _ ih =>
    simp only [flatL, flatT_single hs, List.cons_append, List.nil_append, List.filter_cons, List.length_cons]
    split <;> (try simp only [List.length_cons]) <;> omega
  | @table t0 ts l s0 n0 hs hn _ ih =>
    simp only [flatL, flatT_single hs, List.cons_append, List.nil_append, List.filter_cons, List.length_append, List.length_cons]
    split <;> (try simp only [List.length_cons]) <;> omega
  | @group k cs m ts l1 l2 _ _ ihc ih =>
    simp only [flatL, flatT, List.filter_append, List.length_append]
    omega
/-- and every stored string is spelled by a token -/
theorem Acc.stored_tokens {ts : List Tok} {l : List String} (h : Acc ts l) :
    ∀ x ∈ l, ∃ t ∈ flatL ts, x = unifyName t.src ∨ x = t.src ∨ ∃ s n, splitName t.src = .ok (s, n) ∧ (x = n ∨ s = some x) := by
  induction h with
  | nil => intro x hx; simp at hx
  | @kw t0 ts l hk _ ih =>
    intro x hx
    obtain ⟨t, ht, h⟩ := ih x hx
    exact ⟨t, by simp [flatL, ht], h⟩
  | @name t0 ts l hs _ ih =>
    intro x hx
    rcases List.mem_cons.1 hx with rfl | hx
    · exact ⟨t0, by simp [flatL, flatT_single hs], Or.inl rfl⟩
    · obtain ⟨t, ht, h⟩ := ih x hx
      exact ⟨t, by simp [flatL, ht], h⟩
  | @lit t0 ts l hs _ ih =>
    intro x hx
    rcases List.mem_cons.1 hx with rfl | hx
    · exact ⟨t0, by simp [flatL, flatT_single hs], Or.inr (Or.inl rfl)⟩
    · obtain ⟨t, ht, h⟩ := ih x hx
      exact ⟨t, by simp [flatL, ht], h⟩
  | @table t0 ts l s0 n0 hs hn _ ih =>
    intro x hx
    rcases List.mem_append.1 hx with hx | hx
    · refine ⟨t0, by simp [flatL, flatT_single hs], Or.inr (Or.inr ⟨s0, n0, hn, Or.inr ?_⟩)⟩
      cases s0 with
      | none => simp at hx
      | some y => simp at hx; rw [hx]
    · rcases List.mem_cons.1 hx with rfl | hx
      · exact ⟨t0, by simp [flatL, flatT_single hs], Or.inr (Or.inr ⟨s0, x, hn, Or.inl rfl⟩)⟩
      · obtain ⟨t, ht, h⟩ := ih x hx
        exact ⟨t, by simp [flatL, ht], h⟩
  | @group k cs m ts l1 l2 _ _ ihc ih =>
    intro x hx
    rcases List.mem_append.1 hx with hx | hx
    · obtain ⟨t, ht, h⟩ := ihc x hx
      exact ⟨t, by simp [flatL, flatT, ht], h⟩
    · obtain ⟨t, ht, h⟩ := ih x hx
      exact ⟨t, by simp [flatL, flatT, ht], h⟩

/-! ### what the relation excludes -/
/-- a token that is no grammar word cannot be dropped, a stored string cannot be invented -/
theorem acc_not_trivial : ¬ Acc [nameTok "a"] [] ∧ ¬ Acc [] ["a"] ∧ ¬ Acc [nameTok "a"] ["b"] ∧ Acc [nameTok "a"] ["a"] := by
  have hk : isKw (nameTok "a") = false := by decide
  have hu : unifyName (nameTok "a").src = "a" := by decide
  have hs : (nameTok "a").src ≠ "b" := by decide
  have hsp : splitName (nameTok "a").src = .ok (none, "a") := isOkPair_eq (by decide)
  refine ⟨?_, ?_, ?_, Acc.nm (single_nameTok "a") hu Acc.nil⟩
  · intro h
    generalize hl : ([] : List String) = l at h
    cases h with
    | kw h1 _ => rw [hk] at h1; cases h1
    | name _ _ => cases hl
    | lit _ _ => cases hl
    | table _ _ _ => simp at hl
  · intro h; cases h
  · intro h
    generalize hl : ["b"] = l at h
    cases h with
    | kw h1 h2 => rw [hk] at h1; cases h1
    | name _ _ => simp only [List.cons.injEq] at hl; rw [hu] at hl; exact absurd hl.1 (by decide)
    | lit _ _ => simp only [List.cons.injEq] at hl; exact hs hl.1.symm
    | table _ hn _ =>
      rw [hsp] at hn
      simp only [Except.ok.injEq, Prod.mk.injEq] at hn
      obtain ⟨rfl, rfl⟩ := hn
      simp at hl

end TDM
