import MsqProofs.Lemmas.AnalyzeText3
/-!
# The cut of a fragment SELECT's rendering returns the printer's own pieces (C14 / C15 on texts)

`CT.seg d ch k s` — the piece number `k` the token-level printer `TQ.toksS3` concatenates for the SELECT `s` (0 = `SELECT [DISTINCT] list`,
1 = FROM, 2 = all JOINs, 3 = WHERE, 4 = GROUP BY, 5 = HAVING, 6 = ORDER BY, 7 = LIMIT).
`CT.cut_toksS3 : FragS3 d s → clauseToks k (toksS3 d ch s) = seg d ch k s` for every `k` and every choice `ch` of redundant brackets.
-/
set_option linter.unusedVariables false
set_option linter.unusedSimpArgs false
open Lex PM Ast TP TP2 TS TQ Spec
namespace CT

/-- whatever clause we are in: the first token of the piece starts clause `k`, the rest stays there -/
def Starts (k : Nat) (ts : List Tok) : Prop :=
  ∀ p cur rest, cut p cur false (ts ++ rest) = (if p k then ts else []) ++ cut p k false rest
/-- inside clause `k` the piece stays there -/
def In (k : Nat) (ts : List Tok) : Prop :=
  ∀ p rest, cut p k false (ts ++ rest) = (if p k then ts else []) ++ cut p k false rest

theorem Starts.toIn {k : Nat} {ts : List Tok} (h : Starts k ts) : In k ts := fun p rest => h p k rest
theorem Inert.toIn {ts : List Tok} (h : Inert ts) (k : Nat) : In k ts := fun p rest => h p k rest
theorem In.app {k : Nat} {a b : List Tok} (ha : In k a) (hb : In k b) : In k (a ++ b) := fun p rest => by
  rw [List.append_assoc, ha, hb, ← List.append_assoc, ite_app]
theorem Starts.app {k : Nat} {a b : List Tok} (ha : Starts k a) (hb : In k b) : Starts k (a ++ b) := fun p cur rest => by
  rw [List.append_assoc, ha, hb, ← List.append_assoc, ite_app]
theorem Starts.cast {k : Nat} {a b : List Tok} (h : Starts k a) (e : a = b) : Starts k b := e ▸ h
theorem In.cast {k : Nat} {a b : List Tok} (h : In k a) (e : a = b) : In k b := e ▸ h

theorem rank_indep {t : Tok} (h : t.equalsStr "CROSS" = false) (next : List Tok) : clauseRank t next = clauseRank t [] := by
  simp [clauseRank, h]
/-- a clause word (not `CROSS`) -/
theorem Starts.word (w : String) (k : Nat) (h1 : clauseRank (opTok w) [] = some k) (h2 : (opTok w).equalsStr "CROSS" = false)
    (h3 : (opTok w).equalsStr "AS" = false) : Starts k [opTok w] := fun p cur rest => by
  simp only [List.singleton_append, cut_step, rank_indep h2, h1, Option.getD_some, Bool.false_eq_true, if_false, h3, Bool.and_false]
theorem starts_cross : Starts 2 [opTok "CROSS", opTok "JOIN"] := fun p cur rest => by
  have h1 : ∀ r, clauseRank (opTok "CROSS") (opTok "JOIN" :: r) = some 2 := fun r => by
    have : clauseRank (opTok "CROSS") [opTok "JOIN"] = some 2 := by decide
    exact this
  have h2 : (opTok "CROSS").equalsStr "AS" = false := by decide
  have h3 := Starts.word "JOIN" 2 (by decide) (by decide) (by decide) p 2 rest
  simp only [List.singleton_append] at h3
  simp only [List.cons_append, List.nil_append, cut_step (t := opTok "CROSS"), h1, Option.getD_some, Bool.false_eq_true, if_false, h2,
    Bool.and_false, h3]
  by_cases hc : p 2 = true <;> simp [hc]

theorem st2 (w : String) (h : w ∈ ["JOIN", "INNER", "LEFT", "RIGHT", "FULL"] := by simp) : Starts 2 [opTok w] := by
  simp only [List.mem_cons, List.mem_nil_iff, or_false] at h
  rcases h with rfl | rfl | rfl | rfl | rfl <;> exact Starts.word _ 2 (by decide) (by decide) (by decide)
theorem in2 (w : String) (h : w ∈ ["OUTER", "SEMI"] := by simp) : In 2 [opTok w] := by
  simp only [List.mem_cons, List.mem_nil_iff, or_false] at h
  rcases h with rfl | rfl <;> exact (Inert.one (dk _)).toIn 2

theorem starts_joinWords {d : Gen.D} {ty : String} (h : joinTyOK d ty = true) : Starts 2 (joinWords ty) := by
  unfold joinWords
  cases hf : Gen.joinTypes.find? (·.1 == ty) with
  | none => simp [joinTyOK, joinWords, hf] at h
  | some e =>
    have hm := List.mem_of_find?_eq_some hf
    simp only [Gen.joinTypes, List.mem_cons, List.mem_nil_iff, or_false] at hm
    rcases hm with rfl | rfl | rfl | rfl | rfl | rfl | rfl | rfl | rfl | rfl | rfl <;> simp only [List.map]
    · exact st2 "JOIN"
    · exact (st2 "INNER").app (st2 "JOIN").toIn
    · exact (st2 "LEFT").app (st2 "JOIN").toIn
    · exact (st2 "LEFT").app ((in2 "OUTER").app (st2 "JOIN").toIn)
    · exact (st2 "LEFT").app ((in2 "SEMI").app (st2 "JOIN").toIn)
    · exact (st2 "RIGHT").app (st2 "JOIN").toIn
    · exact (st2 "RIGHT").app ((in2 "OUTER").app (st2 "JOIN").toIn)
    · exact (st2 "RIGHT").app ((in2 "SEMI").app (st2 "JOIN").toIn)
    · exact (st2 "FULL").app (st2 "JOIN").toIn
    · exact (st2 "FULL").app ((in2 "OUTER").app (st2 "JOIN").toIn)
    · exact starts_cross

/-! ### the pieces of a SELECT -/
variable {d : Gen.D} (ch : Expr → Bool)

theorem iColsTail : ∀ (cs : List (Expr × Option String)), colsOK3 d cs = true → Inert (toksColsTail3 d ch cs)
  | [], _ => by simp only [toksColsTail3]; exact Inert.nil
  | (e, a) :: cs, h => by
    simp only [colsOK3, Bool.and_eq_true] at h
    simp only [toksColsTail3]
    exact Inert.cons (dk ",") (((iE ch e h.1.1).app (inert_alias a)).app (iColsTail cs h.2))
theorem iCols : ∀ (cs : List (Expr × Option String)), colsOK3 d cs = true → Inert (toksCols3 d ch cs)
  | [], _ => by simp only [toksCols3]; exact Inert.nil
  | (e, a) :: cs, h => by
    simp only [colsOK3, Bool.and_eq_true] at h
    simp only [toksCols3]
    exact ((iE ch e h.1.1).app (inert_alias a)).app (iColsTail ch cs h.2)
theorem iRef : ∀ (r : TableRef), Inert (toksRef3 d ch r)
  | .table s n => by simp only [toksRef3]; exact Inert.one (dull_tbl s n)
  | .sub q => by simp only [toksRef3]; exact Inert.grp _
theorem iTable : ∀ (t : FromTable), Inert (toksTable3 d ch t)
  | .mk r a => by simp only [toksTable3]; exact (iRef ch r).app (inert_alias a)
theorem iTablesTail : ∀ (ts : List FromTable), Inert (toksTablesTail3 d ch ts)
  | [] => by simp only [toksTablesTail3]; exact Inert.nil
  | t :: ts => by simp only [toksTablesTail3]; exact Inert.cons (dk ",") ((iTable ch t).app (iTablesTail ts))

/-- an optional clause: absent, or a piece that starts clause `k` -/
def OptCl (k : Nat) (ts : List Tok) : Prop := ts = [] ∨ Starts k ts

theorem clFrom : ∀ (fr : Option (List FromTable)), OptCl 1 (toksFrom3 d ch fr)
  | none => Or.inl (by simp only [toksFrom3])
  | some [] => Or.inl (by simp only [toksFrom3])
  | some (t :: ts) => Or.inr (by
      simp only [toksFrom3]
      exact ((Starts.word "FROM" 1 (by decide) (by decide) (by decide)).app (((iTable ch t).app (iTablesTail ch ts)).toIn 1)).cast rfl)
/-- the head of a JOIN (`… JOIN table [AS alias]`, clause 2) and its `ON` condition (clause 8) -/
def joinHd (d : Gen.D) (ch : Expr → Bool) : Join → List Tok
  | .mk ty t _ => joinWords ty ++ toksTable3 d ch t
def joinOn (d : Gen.D) (ch : Expr → Bool) : Join → List Tok
  | .mk _ _ rule => toksRule3 d ch rule
/-- what the cut keeps of a list of JOINs -/
def joinsSel (d : Gen.D) (ch : Expr → Bool) (p : Nat → Bool) : List Join → List Tok
  | [] => []
  | j :: js => (if p 2 then joinHd d ch j else []) ++ ((if p 8 then joinOn d ch j else []) ++ joinsSel d ch p js)
/-- a piece of which the cut keeps `A`, whatever clause we are in and whatever follows -/
def Pc (p : Nat → Bool) (a A : List Tok) : Prop := ∀ cur rest, ∃ cur', cut p cur false (a ++ rest) = A ++ cut p cur' false rest
theorem Pc.nil (p : Nat → Bool) : Pc p [] [] := fun cur rest => ⟨cur, rfl⟩
theorem Pc.app {p : Nat → Bool} {a A b B : List Tok} (ha : Pc p a A) (hb : Pc p b B) : Pc p (a ++ b) (A ++ B) := fun cur rest => by
  obtain ⟨c1, e1⟩ := ha cur (b ++ rest)
  obtain ⟨c2, e2⟩ := hb c1 rest
  exact ⟨c2, by rw [List.append_assoc, e1, e2, List.append_assoc]⟩
theorem Pc.cast {p : Nat → Bool} {a A a' A' : List Tok} (h : Pc p a A) (e1 : a = a') (e2 : A = A') : Pc p a' A' := by
  subst e1; subst e2; exact h
theorem Starts.pc {k : Nat} {ts : List Tok} (h : Starts k ts) (p : Nat → Bool) : Pc p ts (if p k then ts else []) :=
  fun cur rest => ⟨k, h p cur rest⟩
theorem pcJoin (p : Nat → Bool) : ∀ (j : Join), joinOK3 d j = true →
    Pc p (toksJoin3 d ch j) ((if p 2 then joinHd d ch j else []) ++ (if p 8 then joinOn d ch j else []))
  | .mk ty t none, h => by
    simp only [joinOK3, Bool.and_eq_true] at h
    simp only [toksJoin3, toksRule3, joinHd, joinOn, List.append_nil]
    exact (((starts_joinWords h.1.1).app ((iTable ch t).toIn 2)).pc p).cast rfl (by simp)
  | .mk ty t (some (.on e)), h => by
    simp only [joinOK3, ruleOK3, Bool.and_eq_true] at h
    simp only [toksJoin3, toksRule3, joinHd, joinOn]
    have h1 := ((starts_joinWords h.1.1).app ((iTable (d := d) ch t).toIn 2)).pc p
    have h2 := ((Starts.word "ON" 8 (by decide) (by decide) (by decide)).app ((iE ch e h.2).toIn 8)).pc p
    exact (h1.app h2).cast (by simp) rfl
  | .mk ty t (some (.using f)), h => by simp [joinOK3, ruleOK3] at h
theorem pcJoins (p : Nat → Bool) : ∀ (js : List Join), joinsOK3 d js = true → Pc p (toksJoins3 d ch js) (joinsSel d ch p js)
  | [], _ => by simp only [toksJoins3, joinsSel]; exact Pc.nil p
  | j :: js, h => by
    simp only [joinsOK3, Bool.and_eq_true] at h
    simp only [toksJoins3, joinsSel]
    exact ((pcJoin ch p j h.1).app (pcJoins p js h.2)).cast rfl (by simp)
/-- keeping clauses 2 and 8 keeps the whole JOIN segment; keeping clause 8 keeps the ON conditions -/
theorem joinsSel_all : ∀ (js : List Join), joinsSel d ch (fun k => k == 2 || k == 8) js = toksJoins3 d ch js
  | [] => rfl
  | .mk ty t rule :: js => by simp [joinsSel, joinHd, joinOn, toksJoins3, toksJoin3, joinsSel_all js]
def onToks (d : Gen.D) (ch : Expr → Bool) : List Join → List Tok
  | [] => []
  | j :: js => joinOn d ch j ++ onToks d ch js
theorem joinsSel_on : ∀ (js : List Join), joinsSel d ch (· == 8) js = onToks d ch js
  | [] => rfl
  | j :: js => by simp [joinsSel, onToks, joinsSel_on js]
theorem clOptE (kw : String) (k : Nat) (h1 : clauseRank (opTok kw) [] = some k) (h2 : (opTok kw).equalsStr "CROSS" = false)
    (h3 : (opTok kw).equalsStr "AS" = false) : ∀ (e : Option Expr), FragO3 d e = true → OptCl k (toksOptE3 d ch kw e)
  | none, _ => Or.inl (by simp only [toksOptE3])
  | some e, h => Or.inr (by
      simp only [FragO3] at h
      simp only [toksOptE3]
      exact ((Starts.word kw k h1 h2 h3).app ((iE ch e h).toIn k)).cast rfl)
theorem clGroup : ∀ (gb : Option GroupBy), groupOK3 d gb = true → OptCl 4 (toksGroup3 d ch gb)
  | none, _ => Or.inl (by simp only [toksGroup3])
  | some (.mk [] sets cube rollup), h => by simp [groupOK3] at h
  | some (.mk (e :: es) (some l) cube rollup), h => by simp [groupOK3] at h
  | some (.mk (e :: es) none cube rollup), h => by
    cases cube <;> cases rollup <;> try (simp [groupOK3] at h; done)
    simp only [groupOK3, Bool.and_eq_true] at h
    simp only [toksGroup3]
    exact Or.inr (((Starts.word "GROUP" 4 (by decide) (by decide) (by decide)).app
      ((Inert.cons (dk "BY") (((iE ch e h.1.1).wrap _ _ _).app (iArgsTail ch 8 es h.1.2))).toIn 4)).cast rfl)
theorem iOrdItem : ∀ (o : OrderItem), ordItemOK3 d o = true → Inert (toksOrdItem3 d ch o)
  | .mk e desc nf nl, h => by
    simp only [ordItemOK3, Bool.and_eq_true] at h
    simp only [toksOrdItem3]
    exact ((iE ch e h.1.1).wrap _ _ _).app (Inert.ite desc (Inert.one (dk "DESC")))
theorem iOrdTail : ∀ (os : List OrderItem), ordTailOK3 d os = true → Inert (toksOrdTail3 d ch os)
  | [], _ => by simp only [toksOrdTail3]; exact Inert.nil
  | o :: os, h => by
    simp only [ordTailOK3, Bool.and_eq_true] at h
    simp only [toksOrdTail3]
    exact Inert.cons (dk ",") ((iOrdItem ch o h.1).app (iOrdTail os h.2))
theorem clOrder : ∀ (ob : Option (List OrderItem)), orderOK3 d ob = true → OptCl 6 (toksOrder3 d ch ob)
  | none, _ => Or.inl (by simp only [toksOrder3])
  | some [], h => by simp [orderOK3] at h
  | some (o :: os), h => by
    simp only [orderOK3, Bool.and_eq_true] at h
    simp only [toksOrder3]
    exact Or.inr (((Starts.word "ORDER" 6 (by decide) (by decide) (by decide)).app
      ((Inert.cons (dk "BY") ((iOrdItem ch o h.1).app (iOrdTail ch os h.2))).toIn 6)).cast rfl)
theorem clLimit (lm : Option (Int × Option Int)) (h : limitOK lm = true) : OptCl 7 (toksLimit lm) := by
  have hl : Starts 7 [opTok "LIMIT"] := Starts.word "LIMIT" 7 (by decide) (by decide) (by decide)
  rcases lm with _ | ⟨n, _ | m⟩
  · exact Or.inl rfl
  · simp only [limitOK, limOK, Bool.and_eq_true, decide_eq_true_eq] at h
    exact Or.inr ((hl.app ((Inert.one (dull_int n h.1)).toIn 7)).cast rfl)
  · simp only [limitOK, limOK, Bool.and_eq_true, decide_eq_true_eq] at h
    exact Or.inr ((hl.app ((Inert.cons (dull_int m h.2.1) (Inert.cons (dk ",") (Inert.one (dull_int n h.1.1)))).toIn 7)).cast rfl)

/-! ### the chain -/
theorem OptCl.pc {k : Nat} {a : List Tok} (ha : OptCl k a) (p : Nat → Bool) : Pc p a (if p k then a else []) := by
  rcases ha with rfl | hs
  · exact (Pc.nil p).cast rfl (by simp)
  · exact hs.pc p
theorem chain_end {p : Nat → Bool} {a A : List Tok} (ha : Pc p a A) : ∀ cur, cut p cur false a = A := by
  intro cur
  obtain ⟨c1, e1⟩ := ha cur []
  simpa [cut] using e1
theorem chain_step {p : Nat → Bool} {a A b X : List Tok} (ha : Pc p a A) (hb : ∀ cur, cut p cur false b = X) :
    ∀ cur, cut p cur false (a ++ b) = A ++ X := by
  intro cur
  obtain ⟨c1, e1⟩ := ha cur b
  rw [e1, hb]

/-- the piece number `k` of the rendering of a SELECT -/
def seg (d : Gen.D) (ch : Expr → Bool) (k : Nat) : Select → List Tok
  | .mk _ dist cols fr _ js wh gb hv ob _ _ _ lm =>
    match k with
    | 0 => opTok "SELECT" :: ((if dist then [opTok "DISTINCT"] else []) ++ toksCols3 d ch cols)
    | 1 => toksFrom3 d ch fr
    | 2 => toksJoins3 d ch js
    | 3 => toksOptE3 d ch "WHERE" wh
    | 4 => toksGroup3 d ch gb
    | 5 => toksOptE3 d ch "HAVING" hv
    | 6 => toksOrder3 d ch ob
    | 7 => toksLimit lm
    | _ => []
def joinsOf : Select → List Join
  | .mk _ _ _ _ _ js _ _ _ _ _ _ _ _ => js

/-- the rendering is the concatenation of its pieces -/
theorem toksS3_segs (s : Select) :
    toksS3 d ch s = seg d ch 0 s ++ (seg d ch 1 s ++ (seg d ch 2 s ++ (seg d ch 3 s ++ (seg d ch 4 s ++ (seg d ch 5 s ++ (seg d ch 6 s ++ seg d ch 7 s)))))) := by
  cases s; simp [toksS3, seg]

/-- **the cut of a fragment SELECT's rendering**: whatever clauses `p` selects, the cut of the token list returns the pieces of the
selected clauses (of the JOIN segment: the heads and / or the ON conditions) -/
theorem cut_all (s : Select) (h : FragS3 d s = true) (p : Nat → Bool) :
    cut p 0 false (toksS3 d ch s) = (if p 0 then seg d ch 0 s else []) ++ ((if p 1 then seg d ch 1 s else []) ++
      (joinsSel d ch p (joinsOf s) ++ ((if p 3 then seg d ch 3 s else []) ++ ((if p 4 then seg d ch 4 s else []) ++
      ((if p 5 then seg d ch 5 s else []) ++ ((if p 6 then seg d ch 6 s else []) ++ (if p 7 then seg d ch 7 s else []))))))) := by
  cases s with
  | mk ws dist cols fr lats js wh gb hv ob sb db cb lm =>
    obtain ⟨rfl, rfl, rfl, rfl, rfl⟩ := AT.fragS3_shape h
    simp only [FragS3, Bool.and_eq_true] at h
    obtain ⟨⟨⟨⟨⟨⟨⟨⟨⟨hc, _⟩, hfr⟩, hjs⟩, hwh⟩, hgb⟩, hhv⟩, hob⟩, hlm⟩, _⟩ := h
    have isel : Inert (opTok "SELECT" :: ((if dist then [opTok "DISTINCT"] else []) ++ toksCols3 d ch cols)) :=
      Inert.cons (dk "SELECT") ((Inert.ite dist (Inert.one (dk "DISTINCT"))).app (iCols ch cols hc))
    have tail := chain_step ((clFrom (d := d) ch fr).pc p) (chain_step (pcJoins ch p js hjs)
      (chain_step ((clOptE ch "WHERE" 3 (by decide) (by decide) (by decide) wh hwh).pc p) (chain_step ((clGroup ch gb hgb).pc p)
      (chain_step ((clOptE ch "HAVING" 5 (by decide) (by decide) (by decide) hv hhv).pc p) (chain_step ((clOrder ch ob hob).pc p)
      (chain_end ((clLimit lm hlm).pc p)))))))
    have := isel p 0 (toksFrom3 d ch fr ++ (toksJoins3 d ch js ++ (toksOptE3 d ch "WHERE" wh ++ (toksGroup3 d ch gb ++
      (toksOptE3 d ch "HAVING" hv ++ (toksOrder3 d ch ob ++ toksLimit lm))))))
    rw [tail 0] at this
    simp only [toksS3, seg, joinsOf, List.cons_append, List.append_assoc] at this ⊢
    exact this

theorem joinsSel_none (p : Nat → Bool) (h2 : p 2 = false) (h8 : p 8 = false) : ∀ js, joinsSel d ch p js = []
  | [] => rfl
  | j :: js => by simp [joinsSel, h2, h8, joinsSel_none p h2 h8 js]
/-- **every clause but JOIN**: the cut returns the printer's piece -/
theorem cut_toksS3 (s : Select) (h : FragS3 d s = true) (k : Nat) (hk : k ≠ 2) (hk8 : k ≠ 8) : clauseToks k (toksS3 d ch s) = seg d ch k s := by
  unfold clauseToks
  rw [cut_all ch s h, joinsSel_none ch (· == k) (by simpa using fun e => hk e.symm) (by simpa using fun e => hk8 e.symm)]
  match k with
  | 0 | 1 | 3 | 4 | 5 | 6 | 7 => simp
  | 2 => exact absurd rfl hk
  | 8 => exact absurd rfl hk8
  | k + 9 => cases s; simp [seg]
/-- **the JOIN segment** (clauses 2 and 8) and **the ON conditions** (clause 8) -/
theorem cutJoins_toksS3 (s : Select) (h : FragS3 d s = true) : cutJoins (toksS3 d ch s) = seg d ch 2 s := by
  unfold cutJoins
  rw [cut_all ch s h, joinsSel_all]
  cases s; simp [seg, joinsOf]
theorem cutOns_toksS3 (s : Select) (h : FragS3 d s = true) : cutOns (toksS3 d ch s) = onToks d ch (joinsOf s) := by
  unfold cutOns clauseToks
  rw [cut_all ch s h, joinsSel_on]
  simp
/-- the ON conditions are cut out of the JOIN segment alone in the same way -/
theorem cutOns_seg (s : Select) (h : FragS3 d s = true) : cutOns (seg d ch 2 s) = onToks d ch (joinsOf s) := by
  cases s with
  | mk ws dist cols fr lats js wh gb hv ob sb db cb lm =>
    obtain ⟨rfl, rfl, rfl, rfl, rfl⟩ := AT.fragS3_shape h
    simp only [FragS3, Bool.and_eq_true] at h
    have := chain_end (pcJoins ch (· == 8) js h.1.1.1.1.1.1.2) 0
    simp only [cutOns, clauseToks, seg, joinsOf, this, joinsSel_on]

end CT
