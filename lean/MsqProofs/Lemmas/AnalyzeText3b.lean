import MsqProofs.Lemmas.AnalyzeText3
/-!
# The cut of a fragment SELECT's rendering returns the printer's own pieces (C14 / C15 on texts)

`CT.seg d ch k s` — the piece number `k` the token-level printer `TQ.toksS3` concatenates for the SELECT `s` (0 = `SELECT [DISTINCT] list`,
1 = FROM, 2 = all JOINs, 3 = WHERE, 4 = GROUP BY, 5 = HAVING, 6 = ORDER BY, 7 = LIMIT).
`CT.cut_toksS3 : FragS3 d s → clauseToks k (toksS3 d ch s) = seg d ch k s` for every `k` and every choice `ch` of redundant brackets.
-/
set_option linter.unusedVariables false
set_option linter.unusedSimpArgs false
open Lex PM Ast TP TP2 TS TQ Spec
namespace CT

/-- whatever clause we are in: the first token of the piece starts clause `k`, the rest stays there -/
def Starts (k : Nat) (ts : List Tok) : Prop :=
  ∀ c cur rest, cut c cur false (ts ++ rest) = (if k == c then ts else []) ++ cut c k false rest
/-- inside clause `k` the piece stays there -/
def In (k : Nat) (ts : List Tok) : Prop :=
  ∀ c rest, cut c k false (ts ++ rest) = (if k == c then ts else []) ++ cut c k false rest

theorem Starts.toIn {k : Nat} {ts : List Tok} (h : Starts k ts) : In k ts := fun c rest => h c k rest
theorem Inert.toIn {ts : List Tok} (h : Inert ts) (k : Nat) : In k ts := fun c rest => h c k rest
theorem In.app {k : Nat} {a b : List Tok} (ha : In k a) (hb : In k b) : In k (a ++ b) := fun c rest => by
  rw [List.append_assoc, ha, hb, ← List.append_assoc, ite_app]
theorem Starts.app {k : Nat} {a b : List Tok} (ha : Starts k a) (hb : In k b) : Starts k (a ++ b) := fun c cur rest => by
  rw [List.append_assoc, ha, hb, ← List.append_assoc, ite_app]
theorem Starts.cast {k : Nat} {a b : List Tok} (h : Starts k a) (e : a = b) : Starts k b := e ▸ h
theorem In.cast {k : Nat} {a b : List Tok} (h : In k a) (e : a = b) : In k b := e ▸ h

theorem rank_indep {t : Tok} (h : t.equalsStr "CROSS" = false) (next : List Tok) : clauseRank t next = clauseRank t [] := by
  simp [clauseRank, h]
/-- a clause word (not `CROSS`) -/
theorem Starts.word (w : String) (k : Nat) (h1 : clauseRank (opTok w) [] = some k) (h2 : (opTok w).equalsStr "CROSS" = false)
    (h3 : (opTok w).equalsStr "AS" = false) : Starts k [opTok w] := fun c cur rest => by
  simp only [List.singleton_append, cut_step, rank_indep h2, h1, Option.getD_some, Bool.false_eq_true, if_false, h3, Bool.and_false]
theorem starts_cross : Starts 2 [opTok "CROSS", opTok "JOIN"] := fun c cur rest => by
  have h1 : ∀ r, clauseRank (opTok "CROSS") (opTok "JOIN" :: r) = some 2 := fun r => by
    have : clauseRank (opTok "CROSS") [opTok "JOIN"] = some 2 := by decide
    exact this
  have h2 : (opTok "CROSS").equalsStr "AS" = false := by decide
  have h3 := Starts.word "JOIN" 2 (by decide) (by decide) (by decide) c 2 rest
  simp only [List.singleton_append] at h3
  simp only [List.cons_append, List.nil_append, cut_step (t := opTok "CROSS"), h1, Option.getD_some, Bool.false_eq_true, if_false, h2,
    Bool.and_false, h3]
  by_cases hc : (2 == c) = true <;> simp [hc]

theorem st2 (w : String) (h : w ∈ ["JOIN", "INNER", "LEFT", "RIGHT", "FULL"] := by simp) : Starts 2 [opTok w] := by
  simp only [List.mem_cons, List.mem_nil_iff, or_false] at h
  rcases h with rfl | rfl | rfl | rfl | rfl <;> exact Starts.word _ 2 (by decide) (by decide) (by decide)
theorem in2 (w : String) (h : w ∈ ["OUTER", "SEMI"] := by simp) : In 2 [opTok w] := by
  simp only [List.mem_cons, List.mem_nil_iff, or_false] at h
  rcases h with rfl | rfl <;> exact (Inert.one (dk _)).toIn 2

theorem starts_joinWords {d : Gen.D} {ty : String} (h : joinTyOK d ty = true) : Starts 2 (joinWords ty) := by
  unfold joinWords
  cases hf : Gen.joinTypes.find? (·.1 == ty) with
  | none => simp [joinTyOK, joinWords, hf] at h
  | some e =>
    have hm := List.mem_of_find?_eq_some hf
    simp only [Gen.joinTypes, List.mem_cons, List.mem_nil_iff, or_false] at hm
    rcases hm with rfl | rfl | rfl | rfl | rfl | rfl | rfl | rfl | rfl | rfl | rfl <;> simp only [List.map]
    · exact st2 "JOIN"
    · exact (st2 "INNER").app (st2 "JOIN").toIn
    · exact (st2 "LEFT").app (st2 "JOIN").toIn
    · exact (st2 "LEFT").app ((in2 "OUTER").app (st2 "JOIN").toIn)
    · exact (st2 "LEFT").app ((in2 "SEMI").app (st2 "JOIN").toIn)
    · exact (st2 "RIGHT").app (st2 "JOIN").toIn
    · exact (st2 "RIGHT").app ((in2 "OUTER").app (st2 "JOIN").toIn)
    · exact (st2 "RIGHT").app ((in2 "SEMI").app (st2 "JOIN").toIn)
    · exact (st2 "FULL").app (st2 "JOIN").toIn
    · exact (st2 "FULL").app ((in2 "OUTER").app (st2 "JOIN").toIn)
    · exact starts_cross

/-! ### the pieces of a SELECT -/
variable {d : Gen.D} (ch : Expr → Bool)

theorem iColsTail : ∀ (cs : List (Expr × Option String)), colsOK3 d cs = true → Inert (toksColsTail3 d ch cs)
  | [], _ => by simp only [toksColsTail3]; exact Inert.nil
  | (e, a) :: cs, h => by
    simp only [colsOK3, Bool.and_eq_true] at h
    simp only [toksColsTail3]
    exact Inert.cons (dk ",") (((iE ch e h.1.1).app (inert_alias a)).app (iColsTail cs h.2))
theorem iCols : ∀ (cs : List (Expr × Option String)), colsOK3 d cs = true → Inert (toksCols3 d ch cs)
  | [], _ => by simp only [toksCols3]; exact Inert.nil
  | (e, a) :: cs, h => by
    simp only [colsOK3, Bool.and_eq_true] at h
    simp only [toksCols3]
    exact ((iE ch e h.1.1).app (inert_alias a)).app (iColsTail ch cs h.2)
theorem iRef : ∀ (r : TableRef), Inert (toksRef3 d ch r)
  | .table s n => by simp only [toksRef3]; exact Inert.one (dull_tbl s n)
  | .sub q => by simp only [toksRef3]; exact Inert.grp _
theorem iTable : ∀ (t : FromTable), Inert (toksTable3 d ch t)
  | .mk r a => by simp only [toksTable3]; exact (iRef ch r).app (inert_alias a)
theorem iTablesTail : ∀ (ts : List FromTable), Inert (toksTablesTail3 d ch ts)
  | [] => by simp only [toksTablesTail3]; exact Inert.nil
  | t :: ts => by simp only [toksTablesTail3]; exact Inert.cons (dk ",") ((iTable ch t).app (iTablesTail ts))

/-- an optional clause: absent, or a piece that starts clause `k` -/
def OptCl (k : Nat) (ts : List Tok) : Prop := ts = [] ∨ Starts k ts

theorem clFrom : ∀ (fr : Option (List FromTable)), OptCl 1 (toksFrom3 d ch fr)
  | none => Or.inl (by simp only [toksFrom3])
  | some [] => Or.inl (by simp only [toksFrom3])
  | some (t :: ts) => Or.inr (by
      simp only [toksFrom3]
      exact ((Starts.word "FROM" 1 (by decide) (by decide) (by decide)).app (((iTable ch t).app (iTablesTail ch ts)).toIn 1)).cast rfl)
theorem stJoin : ∀ (j : Join), joinOK3 d j = true → Starts 2 (toksJoin3 d ch j)
  | .mk ty t none, h => by
    simp only [joinOK3, Bool.and_eq_true] at h
    simp only [toksJoin3, toksRule3, List.append_nil]
    exact (starts_joinWords h.1.1).app ((iTable ch t).toIn 2)
  | .mk ty t (some (.on e)), h => by
    simp only [joinOK3, ruleOK3, Bool.and_eq_true] at h
    simp only [toksJoin3, toksRule3]
    exact (starts_joinWords h.1.1).app (((iTable ch t).app (Inert.cons (dk "ON") (iE ch e h.2))).toIn 2)
  | .mk ty t (some (.using f)), h => by simp [joinOK3, ruleOK3] at h
theorem clJoins : ∀ (js : List Join), joinsOK3 d js = true → OptCl 2 (toksJoins3 d ch js)
  | [], _ => Or.inl (by simp only [toksJoins3])
  | j :: js, h => by
    simp only [joinsOK3, Bool.and_eq_true] at h
    simp only [toksJoins3]
    rcases clJoins js h.2 with e | hs
    · rw [e, List.append_nil]; exact Or.inr (stJoin ch j h.1)
    · exact Or.inr ((stJoin ch j h.1).app hs.toIn)
theorem clOptE (kw : String) (k : Nat) (h1 : clauseRank (opTok kw) [] = some k) (h2 : (opTok kw).equalsStr "CROSS" = false)
    (h3 : (opTok kw).equalsStr "AS" = false) : ∀ (e : Option Expr), FragO3 d e = true → OptCl k (toksOptE3 d ch kw e)
  | none, _ => Or.inl (by simp only [toksOptE3])
  | some e, h => Or.inr (by
      simp only [FragO3] at h
      simp only [toksOptE3]
      exact ((Starts.word kw k h1 h2 h3).app ((iE ch e h).toIn k)).cast rfl)
theorem clGroup : ∀ (gb : Option GroupBy), groupOK3 d gb = true → OptCl 4 (toksGroup3 d ch gb)
  | none, _ => Or.inl (by simp only [toksGroup3])
  | some (.mk [] sets cube rollup), h => by simp [groupOK3] at h
  | some (.mk (e :: es) (some l) cube rollup), h => by simp [groupOK3] at h
  | some (.mk (e :: es) none cube rollup), h => by
    cases cube <;> cases rollup <;> try (simp [groupOK3] at h; done)
    simp only [groupOK3, Bool.and_eq_true] at h
    simp only [toksGroup3]
    exact Or.inr (((Starts.word "GROUP" 4 (by decide) (by decide) (by decide)).app
      ((Inert.cons (dk "BY") (((iE ch e h.1.1).wrap _ _ _).app (iArgsTail ch 8 es h.1.2))).toIn 4)).cast rfl)
theorem iOrdItem : ∀ (o : OrderItem), ordItemOK3 d o = true → Inert (toksOrdItem3 d ch o)
  | .mk e desc nf nl, h => by
    simp only [ordItemOK3, Bool.and_eq_true] at h
    simp only [toksOrdItem3]
    exact ((iE ch e h.1.1).wrap _ _ _).app (Inert.ite desc (Inert.one (dk "DESC")))
theorem iOrdTail : ∀ (os : List OrderItem), ordTailOK3 d os = true → Inert (toksOrdTail3 d ch os)
  | [], _ => by simp only [toksOrdTail3]; exact Inert.nil
  | o :: os, h => by
    simp only [ordTailOK3, Bool.and_eq_true] at h
    simp only [toksOrdTail3]
    exact Inert.cons (dk ",") ((iOrdItem ch o h.1).app (iOrdTail os h.2))
theorem clOrder : ∀ (ob : Option (List OrderItem)), orderOK3 d ob = true → OptCl 6 (toksOrder3 d ch ob)
  | none, _ => Or.inl (by simp only [toksOrder3])
  | some [], h => by simp [orderOK3] at h
  | some (o :: os), h => by
    simp only [orderOK3, Bool.and_eq_true] at h
    simp only [toksOrder3]
    exact Or.inr (((Starts.word "ORDER" 6 (by decide) (by decide) (by decide)).app
      ((Inert.cons (dk "BY") ((iOrdItem ch o h.1).app (iOrdTail ch os h.2))).toIn 6)).cast rfl)
theorem clLimit (lm : Option (Int × Option Int)) (h : limitOK lm = true) : OptCl 7 (toksLimit lm) := by
  have hl : Starts 7 [opTok "LIMIT"] := Starts.word "LIMIT" 7 (by decide) (by decide) (by decide)
  rcases lm with _ | ⟨n, _ | m⟩
  · exact Or.inl rfl
  · simp only [limitOK, limOK, Bool.and_eq_true, decide_eq_true_eq] at h
    exact Or.inr ((hl.app ((Inert.one (dull_int n h.1)).toIn 7)).cast rfl)
  · simp only [limitOK, limOK, Bool.and_eq_true, decide_eq_true_eq] at h
    exact Or.inr ((hl.app ((Inert.cons (dull_int m h.2.1) (Inert.cons (dk ",") (Inert.one (dull_int n h.1.1)))).toIn 7)).cast rfl)

/-! ### the chain -/
theorem chain_end {k c : Nat} {a : List Tok} (ha : OptCl k a) : ∀ cur, cut c cur false a = (if k == c then a else []) := by
  intro cur
  rcases ha with rfl | hs
  · simp [cut]
  · have := hs c cur []
    simpa [cut] using this
theorem chain_step {k c : Nat} {a b X : List Tok} (ha : OptCl k a) (hb : ∀ cur, cut c cur false b = X) :
    ∀ cur, cut c cur false (a ++ b) = (if k == c then a else []) ++ X := by
  intro cur
  rcases ha with rfl | hs
  · simp [hb]
  · rw [hs, hb]

/-- the piece number `k` of the rendering of a SELECT -/
def seg (d : Gen.D) (ch : Expr → Bool) (k : Nat) : Select → List Tok
  | .mk _ dist cols fr _ js wh gb hv ob _ _ _ lm =>
    match k with
    | 0 => opTok "SELECT" :: ((if dist then [opTok "DISTINCT"] else []) ++ toksCols3 d ch cols)
    | 1 => toksFrom3 d ch fr
    | 2 => toksJoins3 d ch js
    | 3 => toksOptE3 d ch "WHERE" wh
    | 4 => toksGroup3 d ch gb
    | 5 => toksOptE3 d ch "HAVING" hv
    | 6 => toksOrder3 d ch ob
    | 7 => toksLimit lm
    | _ => []

/-- the rendering is the concatenation of its pieces -/
theorem toksS3_segs (s : Select) :
    toksS3 d ch s = seg d ch 0 s ++ (seg d ch 1 s ++ (seg d ch 2 s ++ (seg d ch 3 s ++ (seg d ch 4 s ++ (seg d ch 5 s ++ (seg d ch 6 s ++ seg d ch 7 s)))))) := by
  cases s; simp [toksS3, seg]

/-- **the cut of a fragment SELECT's rendering**: for every clause number `c`, the cut of the token list returns what the pieces of
clause `c` are -/
theorem cut_all (s : Select) (h : FragS3 d s = true) (c : Nat) :
    clauseToks c (toksS3 d ch s) = (if 0 == c then seg d ch 0 s else []) ++ ((if 1 == c then seg d ch 1 s else []) ++
      ((if 2 == c then seg d ch 2 s else []) ++ ((if 3 == c then seg d ch 3 s else []) ++ ((if 4 == c then seg d ch 4 s else []) ++
      ((if 5 == c then seg d ch 5 s else []) ++ ((if 6 == c then seg d ch 6 s else []) ++ (if 7 == c then seg d ch 7 s else []))))))) := by
  cases s with
  | mk ws dist cols fr lats js wh gb hv ob sb db cb lm =>
    obtain ⟨rfl, rfl, rfl, rfl, rfl⟩ := AT.fragS3_shape h
    simp only [FragS3, Bool.and_eq_true] at h
    obtain ⟨⟨⟨⟨⟨⟨⟨⟨⟨hc, _⟩, hfr⟩, hjs⟩, hwh⟩, hgb⟩, hhv⟩, hob⟩, hlm⟩, _⟩ := h
    have isel : Inert (opTok "SELECT" :: ((if dist then [opTok "DISTINCT"] else []) ++ toksCols3 d ch cols)) :=
      Inert.cons (dk "SELECT") ((Inert.ite dist (Inert.one (dk "DISTINCT"))).app (iCols ch cols hc))
    have tail := chain_step (c := c) (clFrom (d := d) ch fr) (chain_step (clJoins ch js hjs)
      (chain_step (clOptE ch "WHERE" 3 (by decide) (by decide) (by decide) wh hwh) (chain_step (clGroup ch gb hgb)
      (chain_step (clOptE ch "HAVING" 5 (by decide) (by decide) (by decide) hv hhv) (chain_step (clOrder ch ob hob)
      (chain_end (clLimit lm hlm)))))))
    have := isel c 0 (toksFrom3 d ch fr ++ (toksJoins3 d ch js ++ (toksOptE3 d ch "WHERE" wh ++ (toksGroup3 d ch gb ++
      (toksOptE3 d ch "HAVING" hv ++ (toksOrder3 d ch ob ++ toksLimit lm))))))
    rw [tail 0] at this
    simp only [clauseToks, toksS3, seg, List.cons_append, List.append_assoc] at this ⊢
    exact this

theorem cut_toksS3 (s : Select) (h : FragS3 d s = true) (k : Nat) : clauseToks k (toksS3 d ch s) = seg d ch k s := by
  rw [cut_all ch s h k]
  match k with
  | 0 | 1 | 2 | 3 | 4 | 5 | 6 | 7 => simp
  | k + 8 => cases s; simp [seg]

end CT
