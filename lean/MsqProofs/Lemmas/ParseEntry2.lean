import MsqModel.Parse.Entry2
import MsqProofs.Lemmas.ParseNoPyStmt
import MsqProofs.Lemmas.ParseAdqStmt
/-!
# The 26 entry points of `PM.entries2`: outcome typing and fuel adequacy

Same templates as the generated `ParseNoPyStmt.lean` (no function returns an error outside `.parse | .fuel | .unmodelled _`)
and `ParseAdqStmt.lean` (`20 + weight of the cursor` units of fuel are enough), for the functions of
`MsqModel/Parse/Entry2.lean` (the transcriptions of `_parse_join_type`, `_parse_union_type`, `_parse_order_type`,
`_parse_compare_operator`, `_parse_compute_operator`, `_parse_cast_data_type`, `_parse_wildcard_expression`,
`_parse_join_on_expression`, `_parse_join_using_expression`, `_parse_join_expression`, `_parse_select_clause`) and for the table
`entries2`; the other entries are wrappers over functions whose lemmas exist.
-/
set_option linter.unusedVariables false
set_option linter.unusedSectionVars false
set_option linter.unusedSimpArgs false
set_option maxHeartbeats 1000000
open Lex PM Ast
namespace PM

/-! ## outcome typing -/

theorem pJoinType_nopy (ts : List Tok) : ∀ x, x.parserKind = false → pJoinType ts ≠ .error x := by
  intro x hx h
  unfold pJoinType at h
  (try dsimp only at h) <;> (repeat' split at h) <;> grind (splits := 60) [Err.parserKind, closed_nopy]

theorem pUnionType_nopy (ts : List Tok) : ∀ x, x.parserKind = false → pUnionType ts ≠ .error x := by
  intro x hx h
  unfold pUnionType at h
  (try dsimp only at h) <;> (repeat' split at h) <;> grind (splits := 60) [Err.parserKind, closed_nopy]

theorem pOrderType_nopy (ts : List Tok) : ∀ x, x.parserKind = false → pOrderType ts ≠ .error x := by
  intro x hx h
  unfold pOrderType at h
  (try dsimp only at h) <;> (repeat' split at h) <;> grind (splits := 60) [Err.parserKind, closed_nopy]

/-- `_parse_order_type` never fails at all -/
theorem pOrderType_ok (ts : List Tok) : ∃ v r, pOrderType ts = .ok (v, r) := by
  unfold pOrderType; split
  · exact ⟨_, _, rfl⟩
  · split <;> exact ⟨_, _, rfl⟩

theorem pCompareOp_nopy (ts : List Tok) : ∀ x, x.parserKind = false → pCompareOp ts ≠ .error x := by
  intro x hx h
  unfold pCompareOp at h
  (try dsimp only at h) <;> (repeat' split at h) <;> grind (splits := 60) [Err.parserKind, closed_nopy, popSrc_nopy]

theorem pComputeOp_nopy (ts : List Tok) : ∀ x, x.parserKind = false → pComputeOp ts ≠ .error x := by
  intro x hx h
  unfold pComputeOp at h
  (try dsimp only at h) <;> (repeat' split at h) <;> grind (splits := 60) [Err.parserKind, closed_nopy, popSrc_nopy]

theorem pCastDataType_nopy (ts : List Tok) : ∀ x, x.parserKind = false → pCastDataType ts ≠ .error x := by
  intro x hx h
  unfold pCastDataType at h
  (try dsimp only at h) <;> (repeat' split at h) <;> grind (splits := 60) [Err.parserKind, closed_nopy]

theorem pWildcard_nopy (ts : List Tok) : ∀ x, x.parserKind = false → pWildcard ts ≠ .error x := by
  intro x hx h
  unfold pWildcard at h
  (try dsimp only at h) <;> (repeat' split at h) <;> grind (splits := 60) [Err.parserKind, closed_nopy]

theorem pJoinOn_nopy (d : Gen.D) (f : Nat) (ts : List Tok) : ∀ x, x.parserKind = false → pJoinOn d f ts ≠ .error x := by
  intro x hx h
  unfold pJoinOn at h
  (try dsimp only at h) <;> (repeat' split at h) <;> grind (splits := 60) [Err.parserKind, closed_nopy, matchKw_nopy, pOr_nopy]

theorem pJoinUsing_nopy (d : Gen.D) (f : Nat) (ts : List Tok) : ∀ x, x.parserKind = false → pJoinUsing d f ts ≠ .error x := by
  intro x hx h
  unfold pJoinUsing at h
  (try dsimp only at h) <;> (repeat' split at h) <;> grind (splits := 60) [Err.parserKind, closed_nopy, pFunc_nopy]

theorem pJoinExpr_nopy (d : Gen.D) (f : Nat) (ts : List Tok) : ∀ x, x.parserKind = false → pJoinExpr d f ts ≠ .error x := by
  intro x hx h
  unfold pJoinExpr at h
  (try dsimp only at h) <;> (repeat' split at h) <;> grind (splits := 60) [Err.parserKind, closed_nopy, pJoinOn_nopy, pJoinUsing_nopy]

theorem pSelectClause_nopy (d : Gen.D) (f : Nat) (ts : List Tok) : ∀ x, x.parserKind = false → pSelectClause d f ts ≠ .error x := by
  intro x hx h
  unfold pSelectClause at h
  (try dsimp only at h) <;> (repeat' split at h) <;> grind (splits := 60) [Err.parserKind, closed_nopy, matchKw_nopy, pSelectCol_nopy, pSelectCols_nopy]

/-- every entry of `entries2` (the other 26 public `SQLParser.parse_*` after lexing), on every token list and with every fuel -/
theorem entries2_nopy : ∀ p ∈ entries2, ∀ d f ts x, x.parserKind = false → p.2 d f ts ≠ .error x := by
  unfold entries2
  simp only [List.forall_mem_cons]
  refine ⟨?_, ?_, ?_, ?_, ?_, ?_, ?_, ?_, ?_, ?_, ?_, ?_, ?_, ?_, ?_, ?_, ?_, ?_, ?_, ?_, ?_, ?_, ?_, ?_, ?_, ?_, by simp⟩
  · exact mapEntry_nopy (fun _ _ ts => pInsertType ts) insertTypeVal (fun _ _ ts => pInsertType_nopy ts)   -- insert_type
  · exact mapEntry_nopy (fun _ _ ts => pJoinType ts) joinTypeVal (fun _ _ ts => pJoinType_nopy ts)   -- join_type
  · exact mapEntry_nopy (fun _ _ ts => pOrderType ts) orderTypeVal (fun _ _ ts => pOrderType_nopy ts)   -- order_type
  · exact mapEntry_nopy (fun _ _ ts => pUnionType ts) unionTypeVal (fun _ _ ts => pUnionType_nopy ts)   -- union_type
  · exact mapEntry_nopy (fun _ _ ts => pCompareOp ts) compareOpVal (fun _ _ ts => pCompareOp_nopy ts)   -- compare_operator
  · exact mapEntry_nopy (fun _ _ ts => pComputeOp ts) computeOpVal (fun _ _ ts => pComputeOp_nopy ts)   -- compute_operator
  · exact mapEntry_nopy (fun _ _ ts => pCastDataType ts) castDataTypeVal (fun _ _ ts => pCastDataType_nopy ts)   -- cast_data_type
  · exact mapEntry_nopy (fun _ _ ts => pRowItem ts) RowItem.toVal (fun _ _ ts => pRowItem_nopy ts)   -- window_row_item
  · exact mapEntry_nopy (fun _ _ ts => pWindowRow ts) windowRowVal (fun _ _ ts => pWindowRow_nopy ts)   -- window_row
  · exact mapEntry_nopy (fun _ _ ts => pWildcard ts) wildcardVal (fun _ _ ts => pWildcard_nopy ts)   -- wildcard_expression
  · exact mapEntry_nopy (fun _ _ ts => pAlias ts) alias (fun _ _ ts => pAlias_nopy ts)   -- alias_expression
  · exact mapEntry_nopy (fun _ _ ts => pMultiAlias ts) multiAliasVal (fun _ _ ts => pMultiAlias_nopy ts)   -- multi_alias_expression
  · exact mapEntry_nopy pJoinOn JoinRule.toVal pJoinOn_nopy   -- join_on_expression
  · exact mapEntry_nopy pJoinUsing JoinRule.toVal pJoinUsing_nopy   -- join_using_expression
  · exact mapEntry_nopy pJoinExpr JoinRule.toVal pJoinExpr_nopy   -- join_expression
  · exact mapEntry_nopy pSelectCol selectColVal pSelectCol_nopy   -- select_column
  · exact mapEntry_nopy pSelectClause selectClauseVal pSelectClause_nopy   -- select_clause
  · exact mapEntry_nopy pFromClause fromClauseVal1 pFromClause_nopy   -- from_clause
  · exact mapEntry_nopy pGroupingSets groupingSetsVal pGroupingSets_nopy   -- grouping_sets
  · exact mapEntry_nopy (fun d f ts => pOptOr d f "HAVING" ts) havingClauseVal (fun d f ts => pOptOr_nopy d f "HAVING" ts)   -- having_clause
  · exact mapEntry_nopy pSortBy sortByClauseVal pSortBy_nopy   -- sort_by_clause
  · exact mapEntry_nopy (fun d f ts => pByList d f "DISTRIBUTE" ts) distributeByClauseVal (fun d f ts => pByList_nopy d f "DISTRIBUTE" ts)   -- distribute_by_clause
  · exact mapEntry_nopy (fun d f ts => pByList d f "CLUSTER" ts) clusterByClauseVal (fun d f ts => pByList_nopy d f "CLUSTER" ts)   -- cluster_by_clause
  · exact mapEntry_nopy pWithTable WithTable.toVal pWithTable_nopy   -- with_table
  · exact mapEntry_nopy pUpdateSetCol updateSetColVal pUpdateSetCol_nopy   -- update_set_column
  · exact mapEntry_nopy pUpdateSet updateSetVal pUpdateSet_nopy   -- update_set_clause

/-! ## fuel adequacy -/

theorem pJoinType_nofuel (ts : List Tok) : pJoinType ts ≠ .error .fuel := by
  intro h
  unfold pJoinType at h
  split_run <;> grind -funext (gen := 40) (instances := 20000) [closed_nofuel]

theorem pUnionType_nofuel (ts : List Tok) : pUnionType ts ≠ .error .fuel := by
  intro h
  unfold pUnionType at h
  split_run <;> grind -funext (gen := 40) (instances := 20000) [closed_nofuel]

theorem pOrderType_nofuel (ts : List Tok) : pOrderType ts ≠ .error .fuel := by
  intro h
  unfold pOrderType at h
  split_run <;> grind -funext (gen := 40) (instances := 20000) [closed_nofuel]

theorem pCompareOp_nofuel (ts : List Tok) : pCompareOp ts ≠ .error .fuel := by
  intro h
  unfold pCompareOp at h
  split_run <;> grind -funext (gen := 40) (instances := 20000) [closed_nofuel, popSrc_nofuel]

theorem pComputeOp_nofuel (ts : List Tok) : pComputeOp ts ≠ .error .fuel := by
  intro h
  unfold pComputeOp at h
  split_run <;> grind -funext (gen := 40) (instances := 20000) [closed_nofuel, popSrc_nofuel]

theorem pCastDataType_nofuel (ts : List Tok) : pCastDataType ts ≠ .error .fuel := by
  intro h
  unfold pCastDataType at h
  split_run <;> grind -funext (gen := 40) (instances := 20000) [closed_nofuel]

theorem pWildcard_nofuel (ts : List Tok) : pWildcard ts ≠ .error .fuel := by
  intro h
  unfold pWildcard at h
  split_run <;> grind -funext (gen := 40) (instances := 20000) [closed_nofuel]

theorem pJoinOn_adq (d : Gen.D) (f : Nat) (ts : List Tok) : 20 + adqWL ts ≤ f → pJoinOn d f ts ≠ .error .fuel := by
  intro hle h
  have hC := consF_all d f
  unfold pJoinOn at h
  split_run <;> grind -funext (gen := 40) (instances := 20000) [adqWL_append, closed_nofuel, matchKw_nofuel, pOr_adq]

theorem pJoinUsing_adq (d : Gen.D) (f : Nat) (ts : List Tok) : 20 + adqWL ts ≤ f → pJoinUsing d f ts ≠ .error .fuel := by
  intro hle h
  have hC := consF_all d f
  unfold pJoinUsing at h
  split_run <;> grind -funext (gen := 40) (instances := 20000) [adqWL_append, closed_nofuel, pFunc_adq]

theorem pJoinExpr_adq (d : Gen.D) (f : Nat) (ts : List Tok) : 20 + adqWL ts ≤ f → pJoinExpr d f ts ≠ .error .fuel := by
  intro hle h
  have hC := consF_all d f
  unfold pJoinExpr at h
  split_run <;> grind -funext (gen := 40) (instances := 20000) [adqWL_append, closed_nofuel, pJoinOn_adq, pJoinUsing_adq]

theorem pSelectClause_adq (d : Gen.D) (f : Nat) (ts : List Tok) : 20 + adqWL ts ≤ f → pSelectClause d f ts ≠ .error .fuel := by
  intro hle h
  have hC := consF_all d f
  unfold pSelectClause at h
  split_run <;> grind -funext (gen := 40) (instances := 20000) [adqWL_append, closed_nofuel, matchKw_nofuel, pSelectCol_adq, pSelectCols_adq]

/-- every entry of `entries2`, on every token list: `20 + weight of the token list` units of fuel are enough -/
theorem entries2_adq : ∀ p ∈ entries2, ∀ d f ts, 20 + adqWL ts ≤ f → p.2 d f ts ≠ .error .fuel := by
  unfold entries2
  simp only [List.forall_mem_cons]
  refine ⟨?_, ?_, ?_, ?_, ?_, ?_, ?_, ?_, ?_, ?_, ?_, ?_, ?_, ?_, ?_, ?_, ?_, ?_, ?_, ?_, ?_, ?_, ?_, ?_, ?_, ?_, by simp⟩
  · exact mapEntry_adq (fun _ _ ts => pInsertType ts) insertTypeVal (fun _ _ ts _ => pInsertType_nofuel ts)   -- insert_type
  · exact mapEntry_adq (fun _ _ ts => pJoinType ts) joinTypeVal (fun _ _ ts _ => pJoinType_nofuel ts)   -- join_type
  · exact mapEntry_adq (fun _ _ ts => pOrderType ts) orderTypeVal (fun _ _ ts _ => pOrderType_nofuel ts)   -- order_type
  · exact mapEntry_adq (fun _ _ ts => pUnionType ts) unionTypeVal (fun _ _ ts _ => pUnionType_nofuel ts)   -- union_type
  · exact mapEntry_adq (fun _ _ ts => pCompareOp ts) compareOpVal (fun _ _ ts _ => pCompareOp_nofuel ts)   -- compare_operator
  · exact mapEntry_adq (fun _ _ ts => pComputeOp ts) computeOpVal (fun _ _ ts _ => pComputeOp_nofuel ts)   -- compute_operator
  · exact mapEntry_adq (fun _ _ ts => pCastDataType ts) castDataTypeVal (fun _ _ ts _ => pCastDataType_nofuel ts)   -- cast_data_type
  · exact mapEntry_adq (fun _ _ ts => pRowItem ts) RowItem.toVal (fun _ _ ts _ => pRowItem_nofuel ts)   -- window_row_item
  · exact mapEntry_adq (fun _ _ ts => pWindowRow ts) windowRowVal (fun _ _ ts _ => pWindowRow_nofuel ts)   -- window_row
  · exact mapEntry_adq (fun _ _ ts => pWildcard ts) wildcardVal (fun _ _ ts _ => pWildcard_nofuel ts)   -- wildcard_expression
  · exact mapEntry_adq (fun _ _ ts => pAlias ts) alias (fun _ _ ts _ => pAlias_nofuel ts)   -- alias_expression
  · exact mapEntry_adq (fun _ _ ts => pMultiAlias ts) multiAliasVal (fun _ _ ts _ => pMultiAlias_nofuel ts)   -- multi_alias_expression
  · exact mapEntry_adq pJoinOn JoinRule.toVal pJoinOn_adq   -- join_on_expression
  · exact mapEntry_adq pJoinUsing JoinRule.toVal pJoinUsing_adq   -- join_using_expression
  · exact mapEntry_adq pJoinExpr JoinRule.toVal pJoinExpr_adq   -- join_expression
  · exact mapEntry_adq pSelectCol selectColVal (fun d f ts hle => pSelectCol_adq d f ts (by omega))   -- select_column
  · exact mapEntry_adq pSelectClause selectClauseVal pSelectClause_adq   -- select_clause
  · exact mapEntry_adq pFromClause fromClauseVal1 pFromClause_adq   -- from_clause
  · exact mapEntry_adq pGroupingSets groupingSetsVal (fun d f ts hle => pGroupingSets_adq d f ts (by omega))   -- grouping_sets
  · exact mapEntry_adq (fun d f ts => pOptOr d f "HAVING" ts) havingClauseVal (fun d f ts hle => pOptOr_adq d f "HAVING" ts (by omega))   -- having_clause
  · exact mapEntry_adq pSortBy sortByClauseVal (fun d f ts hle => pSortBy_adq d f ts (by omega))   -- sort_by_clause
  · exact mapEntry_adq (fun d f ts => pByList d f "DISTRIBUTE" ts) distributeByClauseVal (fun d f ts hle => pByList_adq d f "DISTRIBUTE" ts (by omega))   -- distribute_by_clause
  · exact mapEntry_adq (fun d f ts => pByList d f "CLUSTER" ts) clusterByClauseVal (fun d f ts hle => pByList_adq d f "CLUSTER" ts (by omega))   -- cluster_by_clause
  · exact mapEntry_adq pWithTable WithTable.toVal (fun d f ts hle => pWithTable_adq d f ts (by omega))   -- with_table
  · exact mapEntry_adq pUpdateSetCol updateSetColVal pUpdateSetCol_adq   -- update_set_column
  · exact mapEntry_adq pUpdateSet updateSetVal pUpdateSet_adq   -- update_set_clause

end PM
