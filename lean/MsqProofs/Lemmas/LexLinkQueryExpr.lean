import MsqProofs.Lemmas.LexLinkQueryDefs
/-!
# The lexer link for nested queries: expression nodes

`GE d K e` — everything the link proves of ONE expression text: it lexes to the token rendering (`lx`, in context), the printer
prints exactly it (`pr`), the kit's property holds of it (`q`), and its first character is not `=` (`fc`: a prefix operator may be
written directly before it).  One lemma per constructor of the fragment builds the record of the node from the records of its
children — the mutual induction (`LexLinkQueryMain.lean`) only assembles them.
-/
set_option linter.unusedVariables false
set_option linter.unusedSimpArgs false
namespace LexLink
open Lex Spec C05 C06 C09 Ast TP TS TQ

structure GE (d : Gen.D) (K : QKit) (e : Expr) : Prop where
  lx : Lx (prE3L d e) (toksE3 d noX e)
  pr : PR.prE d e = .ok (String.ofList (prE3L d e))
  q : K.Q (prE3L d e)
  fc : ∃ c b', prE3L d e = c :: b' ∧ c ≠ '='

section
variable {d : Gen.D} {K : QKit}

/-! ## the kit -/

theorem QKit.sp (K : QKit) {a b : List Char} (ha : K.Q a) (hb : K.Q b) : K.Q (a ++ ' ' :: b) := K.sep _ _ _ K.s_sp ha hb
theorem QKit.paren (K : QKit) {a : List Char} (ha : K.Q a) : K.Q ('(' :: (a ++ [')'])) := by
  have := K.sep [] (a ++ ')' :: []) '(' K.s_lp K.nil (K.sep a [] ')' K.s_rp ha K.nil)
  simpa using this
theorem QKit.bq (K : QKit) {a : List Char} (ha : K.Q a) : K.Q ('`' :: (a ++ ['`'])) := by
  have := K.sep [] (a ++ '`' :: []) '`' K.s_bq K.nil (K.sep a [] '`' K.s_bq ha K.nil)
  simpa using this
theorem QKit.pre (K : QKit) {c : Char} (hc : K.safe c) {a : List Char} (ha : K.Q a) : K.Q (c :: a) := by
  have := K.sep [] a c hc K.nil ha
  simpa using this
theorem QKit.post (K : QKit) {c : Char} (hc : K.safe c) {a : List Char} (ha : K.Q a) : K.Q (a ++ [c]) :=
  K.sep a [] c hc ha K.nil
theorem QKit.word (K : QKit) (k : String) (hk : k ∈ allWords) : K.Q k.toList := K.words k hk
theorem QKit.wrap (K : QKit) (e : Expr) (k : Nat) {s : List Char} (hs : K.Q s) : K.Q (wrapL e k s) := by
  unfold wrapL
  split
  · exact K.paren hs
  · exact hs
theorem QKit.joinLL1 (K : QKit) (c : Char) (hc : K.safe c) : ∀ (l : List (List Char)), (∀ x ∈ l, K.Q x) → K.Q (joinLL [c] l)
  | [], _ => K.nil
  | [a], h => h a (by simp)
  | a :: b :: r, h => by
    have := QKit.joinLL1 K c hc (b :: r) fun x hx => h x (by simp [hx])
    have e : joinLL [c] (a :: b :: r) = a ++ c :: joinLL [c] (b :: r) := by simp [joinLL]
    rw [e]; exact K.sep _ _ _ hc (h a (by simp)) this
theorem QKit.joinLL2 (K : QKit) : ∀ (l : List (List Char)), (∀ x ∈ l, K.Q x) → K.Q (joinLL [',', ' '] l)
  | [], _ => K.nil
  | [a], h => h a (by simp)
  | a :: b :: r, h => by
    have := QKit.joinLL2 K (b :: r) fun x hx => h x (by simp [hx])
    have e : joinLL [',', ' '] (a :: b :: r) = a ++ ',' :: ([] ++ ' ' :: joinLL [',', ' '] (b :: r)) := by simp [joinLL]
    rw [e]; exact K.sep _ _ _ K.s_cm (h a (by simp)) (K.sep _ _ _ K.s_sp K.nil this)
theorem QKit.cv (K : QKit) (o : String) (h : PR.computeOpSrc d o = .ok (cval o)) : K.Q (cval o).toList := by
  obtain ⟨e, he, hc⟩ := cval_mem d o h
  rw [hc]; exact K.cops e he
theorem QKit.cmp (K : QKit) (o : String) (h : PR.compareOpSrc o = .ok (cmpVal o)) : K.Q (cmpVal o).toList := by
  obtain ⟨e, he, hc⟩ := cmpVal_mem o h
  have := (List.all_eq_true.mp compare_ops_lex) e he
  rw [hc]
  cases hl : e.2 with
  | nil => rw [hl] at this; cases this
  | cons x r =>
    cases r with
    | nil =>
      have hj : PR.joinS " " [x] = x := rfl
      rw [hj]; exact K.cmps e he x hl
    | cons y r' => rw [hl] at this; cases this
theorem mem_kw {k : String} (h : k ∈ keywords) : k ∈ allWords := by simp [allWords, h]
theorem mem_cw {k : String} (h : k ∈ clauseWords) : k ∈ allWords := by simp [allWords, h]
theorem mem_qw {k : String} (h : k ∈ queryWords) : k ∈ allWords := by simp [allWords, h]

/-! ## levels: nothing is wrapped at bound 14 -/

theorem compute_levels : Gen.computeEnum.all (fun e => decide (e.2.2 ≤ 14)) = true := by decide
theorem lvl_le (e : Expr) : PR.lvl e ≤ 14 := by
  cases e <;> simp only [PR.lvl] <;> try omega
  case compute l o r =>
    cases hf : Gen.computeEnum.find? (·.1 == o) with
    | none => simp
    | some x =>
      have := (List.all_eq_true.mp compute_levels) x (List.mem_of_find?_eq_some hf)
      simpa using this
theorem wrapL14 (e : Expr) (s : List Char) : wrapL e 14 s = s := by
  unfold wrapL; have := lvl_le e; split <;> first | omega | rfl
theorem wrapT14 (e : Expr) (ts : List Tok) : wrapT (noX e) e 14 ts = ts := by
  unfold wrapT; have := lvl_le e
  simp only [noX, Bool.false_eq_true, or_false]
  split <;> first | omega | rfl

/-! ## a child at a bound -/

theorem GE.w {e : Expr} (h : GE d K e) (k : Nat) : Lx (wrapL e k (prE3L d e)) (wrapT (noX e) e k (toksE3 d noX e)) := lx_wrap h.lx
theorem GE.qw {e : Expr} (h : GE d K e) (k : Nat) : K.Q (wrapL e k (prE3L d e)) := K.wrap e k h.q
theorem GE.fcw {e : Expr} (h : GE d K e) (k : Nat) (rest : List Char) : ∃ c b', wrapL e k (prE3L d e) ++ rest = c :: b' ∧ c ≠ '=' := by
  unfold wrapL
  split
  · exact ⟨'(', _, rfl, by decide⟩
  · obtain ⟨c, b', hc, hne⟩ := h.fc
    exact ⟨c, b' ++ rest, by rw [hc]; rfl, hne⟩
theorem GE.prw {e : Expr} (h : GE d K e) (k : Nat) :
    (PR.prE d e).map (PR.wrap e k) = .ok (String.ofList (wrapL e k (prE3L d e))) := by
  rw [h.pr]; simp only [Except.map, wrap_ofList]

/-- the closing step of every `pr` proof: two strings with the same characters -/
theorem ok_ofList {s : String} {l : List Char} (h : s.toList = l) : (Except.ok s : PR.P) = .ok (String.ofList l) :=
  congrArg Except.ok (ofList_eq h)

/-! ## atoms -/

theorem ge_col (c : String) (hl : colLex d c) (hq : K.Q c.toList) : GE d K (.column none c) where
  lx := lx_col d c hl
  pr := by
    simp only [PR.prE, prE3L]
    exact ok_ofList hl.1
  q := K.bq hq
  fc := ⟨'`', _, rfl, by decide⟩

theorem dotTok_eq : TP2.dotTok = ctok ['.'] := by
  simp only [TP2.dotTok, opTok_eq, ctok]; rfl
theorem nameTok_eq (c : String) : nameTok c = .single ('`' :: (c.toList ++ ['`'])) Gen.mark_NAME := rfl

theorem ge_qcol (t c : String) (hl : qcolLex d t c) (hqt : K.Q t.toList) (hqc : K.Q c.toList) : GE d K (.column (some t) c) where
  lx := by
    have h1 := lx_name c.toList fun x hx => (hl.2.2 x hx).1
    have h2 := Lx.prefix h1 rfl (tk_dot '`')
    have h3 := Lx.prefix h2 rfl (tk_bq t.toList (fun x hx => (hl.2.1 x hx).1) '.')
    exact Lx.congr h3 (by simp [prE3L]) (by simp [toksE3, dotTok_eq, nameTok_eq])
  pr := by
    simp only [PR.prE, prE3L]
    exact ok_ofList hl.1
  q := by
    have := K.sep _ _ '.' K.s_dot (K.bq hqt) (K.bq hqc)
    simpa [prE3L] using this
  fc := ⟨'`', _, rfl, by decide⟩

theorem lit_fc (v : String) (hl : litLex v) : ∃ c b', v.toList = c :: b' ∧ c ≠ '=' := by
  rcases hl with ⟨hne, hd⟩ | ⟨k, body, hk, hv, _, _⟩ | ⟨hw, _⟩
  · cases hv : v.toList with
    | nil => exact absurd hv hne
    | cons c cs =>
      refine ⟨c, cs, rfl, ?_⟩
      intro e; subst e
      have := hd '=' (by rw [hv]; simp)
      revert this; decide
  · refine ⟨k.ch, body ++ [k.ch], by simp [hv, QK.wrap], ?_⟩
    cases k <;> decide
  · cases hv : v.toList with
    | nil => rw [hv] at hw; cases hw
    | cons c cs =>
      refine ⟨c, cs, rfl, ?_⟩
      rw [hv] at hw
      simp only [isWord, Bool.and_eq_true, startsWord] at hw
      exact isWordChar_ne_eq c hw.1.1.1.1

theorem ge_lit (v : String) (hf : litOK d v = true) (hl : litLex v) (hq : K.Q v.toList) : GE d K (.literal v) where
  lx := lx_lit d v hf hl
  pr := by simp [PR.prE, prE3L, String.ofList_toList]
  q := hq
  fc := lit_fc v hl

theorem starTok_eq : TP2.starTok = opTok "*" := rfl

theorem ge_star : GE d K (.wildcard none) where
  lx := lx_qw "*" (by simp [queryWords])
  pr := by simp only [PR.prE, prE3L]
  q := K.word "*" (mem_qw (by simp [queryWords]))
  fc := ⟨'*', _, rfl, by decide⟩

theorem alphaU_ne_eq (c : Char) (h : (c.isAlpha || c == '_') = true) : c ≠ '=' := by
  intro e; subst e; revert h; decide

theorem qnameL_fc (n : String) : ∃ c r, qnameL n = c :: r ∧ c ≠ '=' := by
  unfold qnameL
  split
  · rename_i hb
    simp only [bareB, Bool.and_eq_true] at hb
    have := hb.1
    unfold PR.isPlainName at this
    cases hc : n.toList with
    | nil => rw [hc] at this; cases this
    | cons c r =>
      rw [hc] at this
      simp only [Bool.and_eq_true] at this
      exact ⟨c, r, rfl, alphaU_ne_eq c this.1⟩
  · exact ⟨_, _, rfl, by decide⟩

theorem q_qname (n : String) (hq : K.Q n.toList) : K.Q (qnameL n) := by
  unfold qnameL
  split
  · exact hq
  · exact K.bq hq

theorem ge_wild (t : String) (hl : nameLex t) (hq : K.Q t.toList) : GE d K (.wildcard (some t)) where
  lx := by
    have h1 := lx_qw "*" (by simp [queryWords])
    have h2 := Lx.prefix h1 (c := '*') (b' := []) rfl (tk_dot '*')
    obtain ⟨c, r, hc, _⟩ := qnameL_fc t
    have h3 := Lx.prefix h2 (c := '.') rfl (tk_qname t (fun x hx => (hl x hx).1) '.' (Or.inr rfl))
    exact Lx.congr h3 (by simp [prE3L]) (by simp [toksE3, dotTok_eq, starTok_eq])
  pr := by
    simp only [PR.prE, prE3L]
    refine ok_ofList ?_
    simp [toString, String.toList_append, quoteName_toList]
  q := by
    have := K.sep _ _ '.' K.s_dot (q_qname t hq) (K.word "*" (mem_qw (by simp [queryWords])))
    simpa [prE3L] using this
  fc := by
    obtain ⟨c, r, hc, hne⟩ := qnameL_fc t
    exact ⟨c, r ++ ['.', '*'], by simp [prE3L, hc], hne⟩

/-! ## the operator constructors (as in `LexLinkPrint.lean`, over the records) -/

theorem kwToks_in (n : Bool) : Lx (PR.kwSrc .in_ n).toList (kwToks .in_ n) := by
  cases n
  · exact lx_qw "IN" (by simp [queryWords])
  · have := Lx.trail (Lx.sep (lx_qw "NOT" (by simp [queryWords])) (lx_qw "IN" (by simp [queryWords])))
    exact Lx.congr this (by simp [PR.kwSrc]) rfl

theorem lx_kwSrc3 (k : KwKind) (n : Bool) : Lx (PR.kwSrc k n).toList (kwToks k n) := by
  by_cases hk : k = .in_
  · subst hk; exact kwToks_in n
  · exact lx_kwSrc k n (by simpa using hk)

theorem q_kwSrc (K : QKit) (k : KwKind) (n : Bool) : K.Q (PR.kwSrc k n).toList := by
  have one : ∀ a : String, a ∈ allWords → K.Q a.toList := K.words
  have two : ∀ a b : String, a ∈ allWords → b ∈ allWords → K.Q (a.toList ++ ' ' :: b.toList) :=
    fun a b ha hb => K.sp (K.words a ha) (K.words b hb)
  cases k <;> cases n
  case in_.false => exact one "IN" (by simp [allWords, queryWords])
  case in_.true =>
    have := K.post K.s_sp (two "NOT" "IN" (by simp [allWords, keywords]) (by simp [allWords, queryWords]))
    exact this
  case is.false => exact one "IS" (by simp [allWords, keywords])
  case is.true => exact two "IS" "NOT" (by simp [allWords, keywords]) (by simp [allWords, keywords])
  case like.false => exact one "LIKE" (by simp [allWords, keywords])
  case like.true => exact two "NOT" "LIKE" (by simp [allWords, keywords]) (by simp [allWords, keywords])
  case rlike.false => exact one "RLIKE" (by simp [allWords, keywords])
  case rlike.true => exact two "NOT" "RLIKE" (by simp [allWords, keywords]) (by simp [allWords, keywords])
  case regexp.false => exact one "REGEXP" (by simp [allWords, keywords])
  case regexp.true => exact two "NOT" "REGEXP" (by simp [allWords, keywords]) (by simp [allWords, keywords])

theorem ge_unary (o : String) (y : Expr) (ho : unOK d o = true) (hy : GE d K y) : GE d K (.unary o y) where
  lx := by
    have hb := hy.w 2
    have hop := lx_cval d o (unOK_prints ho)
    simp only [prE3L, toksE3]
    split
    · exact Lx.congr (Lx.sep hop hb) rfl (by simp)
    · rename_i hcond
      obtain ⟨c, b', hc, hne⟩ := hy.fcw 2 []
      simp only [List.append_nil] at hc
      have hsp := unary_spelling d o (by simp only [unOK, Bool.and_eq_true] at ho; exact ho.1.1.1)
      have h2 : (cval o).toList = ['-'] → c ≠ '-' := by
        intro ha hcc
        exact hcond ⟨ha, by rw [hc, hcc]; rfl⟩
      have := Lx.prefix hb hc (tk_unary (cval o).toList hsp c hne h2)
      exact Lx.congr this rfl (by simp [ctok, opTok_eq])
  pr := by
    simp only [PR.prE, hy.pr, unOK_prints ho, Except.map, bind, Except.bind, pure, Except.pure, wrap_ofList, minus_cond, prE3L]
    refine congrArg Except.ok ?_
    apply String.toList_inj.mp
    split <;> simp_all [toString, String.toList_append, String.toList_ofList]
  q := by
    have h1 := hy.qw 2
    have h2 := K.cv (d := d) o (unOK_prints ho)
    have hsp := unary_spelling d o (by simp only [unOK, Bool.and_eq_true] at ho; exact ho.1.1.1)
    simp only [prE3L]
    split
    · exact K.sp h2 h1
    · rcases hsp with e | e | e | e <;> rw [e]
      · exact K.pre K.s_un.1 h1
      · exact K.pre K.s_un.2.1 h1
      · exact K.pre K.s_un.2.2.1 h1
      · exact K.pre K.s_un.2.2.2 h1
  fc := by
    have hsp := unary_spelling d o (by simp only [unOK, Bool.and_eq_true] at ho; exact ho.1.1.1)
    have : ∃ c b', (cval o).toList = c :: b' ∧ c ≠ '=' := by
      rcases hsp with e | e | e | e <;> rw [e] <;> exact ⟨_, _, rfl, by decide⟩
    obtain ⟨c, b', hc, hne⟩ := this
    simp only [prE3L]
    split <;> exact ⟨c, _, by rw [hc]; rfl, hne⟩

/-- `l SEP m SEP r` with blanks -/
theorem q3 (K : QKit) {a m b : List Char} (ha : K.Q a) (hm : K.Q m) (hb : K.Q b) : K.Q (a ++ ' ' :: (m ++ ' ' :: b)) :=
  K.sp ha (K.sp hm hb)

theorem ge_compute (l r : Expr) (o : String) (ho : binOK d o = true) (hl : GE d K l) (hr : GE d K r) : GE d K (.compute l o r) where
  lx := Lx.congr (Lx.sep (hl.w (PR.lvl (.compute l o r))) (Lx.sep (lx_cval d o (binOK_prints ho)) (hr.w (PR.lvl (.compute l o r) - 1))))
    (by simp [prE3L]) (by simp [toksE3])
  pr := by
    simp only [PR.prE, hl.pr, hr.pr, binOK_prints ho, Except.map, bind, Except.bind, pure, Except.pure, wrap_ofList, prE3L]
    refine congrArg Except.ok ?_
    apply String.toList_inj.mp
    simp [toString, String.toList_append, String.toList_ofList]
  q := q3 K (hl.qw _) (K.cv (d := d) o (binOK_prints ho)) (hr.qw _)
  fc := by simp only [prE3L]; exact hl.fcw _ _

theorem ge_kw (k : KwKind) (n0 : Bool) (l r : Expr) (hl : GE d K l) (hr : GE d K r) : GE d K (.kw k n0 l r) where
  lx := Lx.congr (Lx.sep (hl.w 9) (Lx.sep (lx_kwSrc3 k n0) (hr.w 8))) (by simp [prE3L]) (by simp [toksE3, noX])
  pr := by
    simp only [PR.prE, hl.pr, hr.pr, Except.map, bind, Except.bind, pure, Except.pure, wrap_ofList, prE3L]
    refine congrArg Except.ok ?_
    apply String.toList_inj.mp
    simp [toString, String.toList_append, String.toList_ofList]
  q := q3 K (hl.qw _) (q_kwSrc K k n0) (hr.qw _)
  fc := by simp only [prE3L]; exact hl.fcw _ _

theorem ge_between (n0 : Bool) (b f t : Expr) (hb : GE d K b) (hf : GE d K f) (ht : GE d K t) : GE d K (.between n0 b f t) where
  lx := by
    have kw1 : ∀ a : String, a ∈ keywords → Lx a.toList [opTok a] := lx_kw
    have hBT := Lx.sep (kw1 "BETWEEN" (by simp [keywords])) (Lx.sep (hf.w 8) (Lx.sep (kw1 "AND" (by simp [keywords])) (ht.w 8)))
    cases n0 with
    | false => exact Lx.congr (Lx.sep (hb.w 9) hBT) (by simp [prE3L]) (by simp [toksE3])
    | true =>
      have hN : "NOT ".toList = "NOT".toList ++ [' '] := rfl
      exact Lx.congr (Lx.sep (hb.w 9) (Lx.sep (kw1 "NOT" (by simp [keywords])) hBT)) (by simp [prE3L, hN]) (by simp [toksE3])
  pr := by
    simp only [PR.prE, hb.pr, hf.pr, ht.pr, Except.map, bind, Except.bind, pure, Except.pure, wrap_ofList, prE3L]
    refine congrArg Except.ok ?_
    apply String.toList_inj.mp
    have hA : (" AND " : String).toList = ' ' :: ("AND".toList ++ [' ']) := rfl
    have hB : (" BETWEEN " : String).toList = ' ' :: ("BETWEEN".toList ++ [' ']) := rfl
    cases n0 <;> simp [toString, String.toList_append, String.toList_ofList]
  q := by
    have k1 := K.word "NOT" (mem_kw (by simp [keywords]))
    have k2 := K.word "BETWEEN" (mem_kw (by simp [keywords]))
    have k3 := K.word "AND" (mem_kw (by simp [keywords]))
    have inner := K.sp k2 (q3 K (hf.qw 8) k3 (ht.qw 8))
    simp only [prE3L]
    cases n0 with
    | false => simpa using K.sp (hb.qw 9) inner
    | true =>
      have hN : "NOT ".toList = "NOT".toList ++ [' '] := rfl
      simpa [hN] using K.sp (hb.qw 9) (K.sp k1 inner)
  fc := by simp only [prE3L]; exact hb.fcw _ _

theorem ge_compare (o : String) (l r : Expr) (ho : cmpOK d o = true) (hl : GE d K l) (hr : GE d K r) : GE d K (.compare o l r) where
  lx := Lx.congr (Lx.sep (hl.w 10) (Lx.sep (lx_cmpVal o (cmpOK_prints ho)) (hr.w 9))) (by simp [prE3L]) (by simp [toksE3])
  pr := by
    simp only [PR.prE, hl.pr, hr.pr, cmpOK_prints ho, Except.map, bind, Except.bind, pure, Except.pure, wrap_ofList, prE3L]
    refine congrArg Except.ok ?_
    apply String.toList_inj.mp
    simp [toString, String.toList_append, String.toList_ofList]
  q := q3 K (hl.qw _) (K.cmp o (cmpOK_prints ho)) (hr.qw _)
  fc := by simp only [prE3L]; exact hl.fcw _ _

theorem ge_not (y : Expr) (hy : GE d K y) : GE d K (.not_ y) where
  lx := Lx.congr (Lx.sep (lx_kw "NOT" (by simp [keywords])) (hy.w 11)) (by simp [prE3L]) (by simp [toksE3])
  pr := by
    simp only [PR.prE, hy.pr, Except.map, wrap_ofList, prE3L]
    refine congrArg Except.ok ?_
    apply String.toList_inj.mp
    simp [toString, String.toList_append, String.toList_ofList]
  q := K.sp (K.word "NOT" (mem_kw (by simp [keywords]))) (hy.qw 11)
  fc := ⟨'N', _, rfl, by decide⟩

theorem ge_bin (w : String) (hw : w ∈ keywords) (a b : Nat) (l r : Expr) (hl : GE d K l) (hr : GE d K r) :
    Lx (wrapL l a (prE3L d l) ++ ' ' :: (w.toList ++ ' ' :: wrapL r b (prE3L d r)))
      (wrapT (noX l) l a (toksE3 d noX l) ++ opTok w :: wrapT (noX r) r b (toksE3 d noX r)) ∧
    K.Q (wrapL l a (prE3L d l) ++ ' ' :: (w.toList ++ ' ' :: wrapL r b (prE3L d r))) :=
  ⟨Lx.congr (Lx.sep (hl.w a) (Lx.sep (lx_kw w hw) (hr.w b))) rfl (by simp), q3 K (hl.qw a) (K.word w (mem_kw hw)) (hr.qw b)⟩

theorem ge_and (l r : Expr) (hl : GE d K l) (hr : GE d K r) : GE d K (.and_ l r) where
  lx := (ge_bin "AND" (by simp [keywords]) 12 11 l r hl hr).1
  pr := by
    simp only [PR.prE, hl.pr, hr.pr, Except.map, bind, Except.bind, pure, Except.pure, wrap_ofList, prE3L]
    refine congrArg Except.ok ?_
    apply String.toList_inj.mp
    simp [toString, String.toList_append, String.toList_ofList]
  q := (ge_bin "AND" (by simp [keywords]) 12 11 l r hl hr).2
  fc := by simp only [prE3L]; exact hl.fcw _ _
theorem ge_xor (l r : Expr) (hl : GE d K l) (hr : GE d K r) : GE d K (.xor l r) where
  lx := (ge_bin "XOR" (by simp [keywords]) 13 12 l r hl hr).1
  pr := by
    simp only [PR.prE, hl.pr, hr.pr, Except.map, bind, Except.bind, pure, Except.pure, wrap_ofList, prE3L]
    refine congrArg Except.ok ?_
    apply String.toList_inj.mp
    simp [toString, String.toList_append, String.toList_ofList]
  q := (ge_bin "XOR" (by simp [keywords]) 13 12 l r hl hr).2
  fc := by simp only [prE3L]; exact hl.fcw _ _
theorem ge_or (l r : Expr) (hl : GE d K l) (hr : GE d K r) : GE d K (.or_ l r) where
  lx := (ge_bin "OR" (by simp [keywords]) 14 13 l r hl hr).1
  pr := by
    simp only [PR.prE, hl.pr, hr.pr, Except.map, bind, Except.bind, pure, Except.pure, wrap_ofList, prE3L]
    refine congrArg Except.ok ?_
    apply String.toList_inj.mp
    simp [toString, String.toList_append, String.toList_ofList]
  q := (ge_bin "OR" (by simp [keywords]) 14 13 l r hl hr).2
  fc := by simp only [prE3L]; exact hl.fcw _ _

theorem ge_exists (v : Expr) (hv : GE d K v) : GE d K (.exists_ v) where
  lx := Lx.congr (Lx.sep (lx_qw "EXISTS" (by simp [queryWords])) hv.lx) (by simp [prE3L]) (by simp [toksE3])
  pr := by
    simp only [PR.prE, hv.pr, Except.map, prE3L]
    refine congrArg Except.ok ?_
    apply String.toList_inj.mp
    simp [toString, String.toList_append, String.toList_ofList]
  q := K.sp (K.word "EXISTS" (mem_qw (by simp [queryWords]))) hv.q
  fc := ⟨'E', _, rfl, by decide⟩

end
end LexLink
