import MsqProofs.Lemmas.ParseAccountAllDefs
/-!
# C08, general accounting: the two step lemmas of the mutual block that are written by hand

* `pWindowBody`: through the inversion lemma `closed_pWindowBody` (the `ord.getD []` in the result makes `grind`'s normaliser loop).
* `pSingleParen`: the bracket loop of `_parse_single_select_statement` never succeeds once entered (`closed_pSingleParen`).
-/
set_option linter.unusedVariables false
set_option linter.unusedSectionVars false
set_option maxHeartbeats 4000000
open Lex PM Ast
namespace PA
variable (d : Gen.D)

theorem accA_pWindowBody (T : List String) (n : Nat) (ih : AccA d T n) :
    ∀ fn cs, ARV T tE FullE cs (tE fn) (FullE fn) (PM.pWindowBody d (n+1) fn cs) := by
  intro fn cs v h hpl
  have hA : Anchor T := trivial
  obtain ⟨part, r1, ord, r2, h1, h2, h3⟩ := closed_pWindowBody h
  cases ord with
  | none =>
    rcases h3 with ⟨rfl, rfl⟩ | ⟨⟨a, b⟩, h3, rfl⟩
    · simp only [Option.getD_none] at *; agrind
    · simp only [Option.getD_none] at *; agrind
  | some os =>
    rcases h3 with ⟨rfl, rfl⟩ | ⟨⟨a, b⟩, h3, rfl⟩
    · simp only [Option.getD_some] at *; agrind
    · simp only [Option.getD_some] at *; agrind

theorem accA_pSingleParen (T : List String) (n : Nat) (ih : AccA d T n) :
    ∀ w outer st inner, st.head? = some inner → ARP T inner outer (tWTs w) (FullWTs w) (PM.pSingleParen d (n+1) w outer st inner) := by
  intro w outer st inner hst v r h hpl
  have hA : Anchor T := trivial
  obtain ⟨hm, rfl, _, _⟩ := closed_pSingleParen (n+1) w outer st inner v r hst h
  unfold pSingleParen at h
  simp only [hm, Bool.false_eq_true, if_false] at h
  split_run <;> agrind

end PA
