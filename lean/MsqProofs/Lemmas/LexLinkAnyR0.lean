import MsqProofs.Lemmas.LexLinkAnyD2
import MsqProofs.Lemmas.LexLinkDdl4
import MsqProofs.Lemmas.TRest3
import MsqProofs.Props.C03QL2
/-!
# The lexer link for the remaining statement classes (`TR.FragRest`): pieces, words, the simple classes, ANALYZE, SHOW COLUMNS, CREATE TABLE … AS

Built on the link for data-change statements over `FragQ2` (`LexLinkAnyD0-2.lean`, generated), the Q2 link (`LexLinkQ2*.lean`) and the
CREATE TABLE link (`LexLinkDdl*.lean`, namespace `LD`: raw-source payloads `srcLex`, back-quoted names, blank-joined pieces `tailL`).

* `Pc u ts` — a text piece: it lexes to `ts` in context (`Lx`) and contains no character the lexer's pre-pass rewrites (`allP`);
  `SegP us ts` — blank-separated pieces;
* `restWords` — the closed words of the new classes, decided on the regenerated lexer table;
* one lemma per class: the mirror text, `Pc` of it against the token rendering of `Lemmas/TRest0.lean`, and the printer equation.
-/
set_option linter.unusedVariables false
set_option linter.unusedSimpArgs false
namespace LL2.Any
open Lex Spec C05 C06 C09 Ast TP TS LexLink TQ2
open TQ (tblTok unionWords isExists)
open LLD (ps pc ps_cons pc_cons ps_nil pc_nil ps_append pc_append lx_ps lx_pc seg_sp sp q_ps q_pc DW lx_dw dmlWords printableStmt tbl_good
  partStr)
open LD (tailL wordsP flagP bqL parenL PAll)

instance : QWc plainKit := ⟨qw2_plain⟩

/-! ## pieces -/

/-- a text piece: lexes to `ts` in context, no pre-pass character -/
structure Pc (u : List Char) (ts : List Tok) : Prop where
  lx : Lx u ts
  q : allP u = true
/-- blank-separated pieces -/
structure SegP (us : List (List Char)) (ts : List Tok) : Prop where
  seg : Seg ' ' us ts
  q : PAll us

theorem SegP.nil : SegP [] [] := ⟨Seg.nil _, LD.PAll.nil⟩
theorem SegP.one {u : List Char} {ts : List Tok} (h : Pc u ts) : SegP [u] ts := ⟨Seg.one _ h.lx, LD.PAll.one h.q⟩
theorem SegP.cons {u : List Char} {us : List (List Char)} {t ts : List Tok} (h : Pc u t) (hs : SegP us ts) : SegP (u :: us) (t ++ ts) :=
  ⟨Seg.cons (Or.inl rfl) h.lx hs.seg, LD.PAll.cons h.q hs.q⟩
theorem SegP.append {us vs : List (List Char)} {ts tv : List Tok} (h1 : SegP us ts) (h2 : SegP vs tv) : SegP (us ++ vs) (ts ++ tv) :=
  ⟨Seg.append (Or.inl rfl) h1.seg h2.seg, LD.PAll.append h1.q h2.q⟩
theorem SegP.congr {us us' : List (List Char)} {ts ts' : List Tok} (h : SegP us ts) (e1 : us = us') (e2 : ts = ts') : SegP us' ts' :=
  e1 ▸ e2 ▸ h
theorem Pc.congr {u u' : List Char} {ts ts' : List Tok} (h : Pc u ts) (e1 : u = u') (e2 : ts = ts') : Pc u' ts' := e1 ▸ e2 ▸ h
/-- the first piece and the blank-joined rest -/
theorem Pc.tail {a : List Char} {ta : List Tok} {us : List (List Char)} {ts : List Tok} (ha : Pc a ta) (hs : SegP us ts) :
    Pc (a ++ tailL us) (ta ++ ts) := ⟨LD.lx_tail ha.lx hs.seg, LD.allP_tail ha.q hs.q⟩
theorem Pc.sep {a b : List Char} {ta tb : List Tok} (ha : Pc a ta) (hb : Pc b tb) : Pc (a ++ ' ' :: b) (ta ++ tb) :=
  ⟨Lx.sep ha.lx hb.lx, LD.allP_app ha.q (LD.allP_cons (by decide) hb.q)⟩
theorem Pc.paren {a : List Char} {ta : List Tok} (ha : Pc a ta) : Pc (parenL a) [grp ta] :=
  ⟨Lx.congr (Lx.paren ha.lx) rfl (by simp [grp_eq]), LD.allP_paren ha.q⟩

/-! ## the closed words -/

def restWords : List String :=
  ["DROP", "TABLE", "IF", "EXISTS", "NOT", "TRUNCATE", "MSCK", "REPAIR", "USE", "SHOW", "DATABASES", "TABLES", "COLUMNS", "SET", "ANALYZE",
   "PARTITION", "COMPUTE", "STATISTICS", "FOR", "CACHE", "METADATA", "NOSCAN", "ALTER", "ADD", "MODIFY", "CHANGE", "RENAME", "COLUMN", "TO",
   "CREATE", "AS"]
theorem rest_words_lex : restWords.all (fun k => lxIs k.toList (ctok k.toList)) = true := by decide +kernel
theorem rest_words_plain : restWords.all (fun k => allP k.toList) = true := by decide +kernel

theorem pc_w (k : String) (hk : k ∈ restWords) : Pc k.toList [opTok k] :=
  ⟨by rw [opTok_eq]; exact lx_of_is ((List.all_eq_true.mp rest_words_lex) k hk), (List.all_eq_true.mp rest_words_plain) k hk⟩
theorem segp_words (ws : List String) (h : ∀ w ∈ ws, w ∈ restWords) : SegP (wordsP ws) (ws.map opTok) := by
  induction ws with
  | nil => exact SegP.nil
  | cons w r ih =>
    exact SegP.congr (SegP.cons (pc_w w (h w (by simp))) (ih fun x hx => h x (by simp [hx]))) rfl (by simp)
theorem segp_flag (b : Bool) (ws : List String) (h : ∀ w ∈ ws, w ∈ restWords) : SegP (flagP b ws) (TD.flag b (ws.map opTok)) := by
  cases b
  · exact SegP.nil
  · exact segp_words ws h

/-! ## the target table -/

/-- a table name as `PR.tn` prints it: ONE back-quoted token -/
def tnL (t : TableName) : List Char := tblL t.schema t.name
def tblLeaf (t : TableName) : Prop := LexLink.optNameLex t.schema ∧ nameLex t.name

theorem pc_tn (t : TableName) (h : tblLeaf t) : Pc (tnL t) [TR.tbl t] ∧ PR.tn t = String.ofList (tnL t) := by
  have hi : plainKit.item (.tbl t.schema t.name) := plain_item .MYSQL (.tbl t.schema t.name) h
  obtain ⟨a, b, c⟩ := tbl_good (K := plainKit) t.schema t.name h hi
  exact ⟨⟨a, b⟩, c⟩

theorem bool_str (b : Bool) (s : String) (ws : List String) (h : s.toList = (wordsP ws).flatMap (· ++ [' '])) :
    (if b then s else "").toList = (flagP b ws).flatMap (· ++ [' ']) := by
  cases b
  · rfl
  · simpa [flagP] using h

/-! ## DROP TABLE, TRUNCATE TABLE, MSCK REPAIR TABLE, USE, SHOW DATABASES / TABLES -/

def dropL (b : Bool) (t : TableName) : List Char := "DROP".toList ++ tailL ("TABLE".toList :: (flagP b ["IF", "EXISTS"] ++ [tnL t]))
def truncateL (t : TableName) : List Char := "TRUNCATE".toList ++ tailL ["TABLE".toList, tnL t]
def msckL (t : TableName) : List Char := "MSCK".toList ++ tailL ["REPAIR".toList, "TABLE".toList, tnL t]
def useL (s : String) : List Char := "USE".toList ++ tailL [s.toList]

theorem pc_drop (b : Bool) (t : TableName) (h : tblLeaf t) : Pc (dropL b t) (TR.toksDrop b t) := by
  have := Pc.tail (pc_w "DROP" (by simp [restWords])) (SegP.cons (pc_w "TABLE" (by simp [restWords]))
    (SegP.append (segp_flag b ["IF", "EXISTS"] (by simp [restWords])) (SegP.one (pc_tn t h).1)))
  exact this.congr rfl (by simp [TR.toksDrop])
theorem pr_drop (d : Gen.D) (b : Bool) (t : TableName) (h : tblLeaf t) :
    PR.prStmt d (.dropTable b t) = .ok (String.ofList (dropL b t)) := by
  simp only [PR.prStmt, (pc_tn t h).2]
  refine congrArg Except.ok (ofList_eq ?_)
  have e1 : ("DROP TABLE " : String).toList = "DROP".toList ++ ' ' :: ("TABLE".toList ++ [' ']) := by simp
  have e2 : ("IF EXISTS " : String).toList = "IF".toList ++ ' ' :: ("EXISTS".toList ++ [' ']) := by simp
  delta dropL
  cases b
  · simp only [Bool.false_eq_true, ↓reduceIte, toString, String.toList_append, String.toList_ofList, e1, flagP]
    simp
  · simp only [↓reduceIte, toString, String.toList_append, String.toList_ofList, e1, e2, flagP, wordsP]
    simp

theorem pc_truncate (t : TableName) (h : tblLeaf t) : Pc (truncateL t) (TR.toksTruncate t) := by
  have := Pc.tail (pc_w "TRUNCATE" (by simp [restWords])) (SegP.cons (pc_w "TABLE" (by simp [restWords])) (SegP.one (pc_tn t h).1))
  exact this.congr rfl (by simp [TR.toksTruncate])
theorem pr_truncate (d : Gen.D) (t : TableName) (h : tblLeaf t) : PR.prStmt d (.truncate t) = .ok (String.ofList (truncateL t)) := by
  simp only [PR.prStmt, (pc_tn t h).2]
  refine congrArg Except.ok (ofList_eq ?_)
  have e1 : ("TRUNCATE TABLE " : String).toList = "TRUNCATE".toList ++ ' ' :: ("TABLE".toList ++ [' ']) := by simp
  delta truncateL
  simp only [toString, String.toList_append, String.toList_ofList, e1]
  simp

theorem pc_msck (t : TableName) (h : tblLeaf t) : Pc (msckL t) (TR.toksMsck t) := by
  have := Pc.tail (pc_w "MSCK" (by simp [restWords])) (SegP.cons (pc_w "REPAIR" (by simp [restWords]))
    (SegP.cons (pc_w "TABLE" (by simp [restWords])) (SegP.one (pc_tn t h).1)))
  exact this.congr rfl (by simp [TR.toksMsck])
theorem pr_msck (d : Gen.D) (t : TableName) (h : tblLeaf t) : PR.prStmt d (.msck t) = .ok (String.ofList (msckL t)) := by
  simp only [PR.prStmt, (pc_tn t h).2]
  refine congrArg Except.ok (ofList_eq ?_)
  have e1 : ("MSCK REPAIR TABLE " : String).toList = "MSCK".toList ++ ' ' :: ("REPAIR".toList ++ ' ' :: ("TABLE".toList ++ [' '])) := by simp
  delta msckL
  simp only [toString, String.toList_append, String.toList_ofList, e1]
  simp

theorem pc_src (s : String) (h : LD.srcLex s) : Pc s.toList [TD.srcTok s] := ⟨LD.lx_src s h, LD.allP_src s h⟩

theorem pc_use (s : String) (h : LD.srcLex s) : Pc (useL s) (TR.toksUse s) := by
  have := Pc.tail (pc_w "USE" (by simp [restWords])) (SegP.one (pc_src s h))
  exact this.congr rfl (by simp [TR.toksUse])
theorem pr_use (d : Gen.D) (s : String) : PR.prStmt d (.use s) = .ok (String.ofList (useL s)) := by
  simp only [PR.prStmt]
  refine congrArg Except.ok (ofList_eq ?_)
  have e1 : ("USE " : String).toList = "USE".toList ++ [' '] := by simp
  delta useL
  simp only [toString, String.toList_append, e1]
  simp

def showDbL : List Char := "SHOW".toList ++ tailL ["DATABASES".toList]
def showTblL : List Char := "SHOW".toList ++ tailL ["TABLES".toList]
theorem pc_showDb : Pc showDbL [opTok "SHOW", opTok "DATABASES"] :=
  (Pc.tail (pc_w "SHOW" (by simp [restWords])) (SegP.one (pc_w "DATABASES" (by simp [restWords])))).congr rfl rfl
theorem pc_showTbl : Pc showTblL [opTok "SHOW", opTok "TABLES"] :=
  (Pc.tail (pc_w "SHOW" (by simp [restWords])) (SegP.one (pc_w "TABLES" (by simp [restWords])))).congr rfl rfl
theorem pr_showDb (d : Gen.D) : PR.prStmt d .showDatabases = .ok (String.ofList showDbL) :=
  congrArg Except.ok (ofList_eq (by decide +kernel))
theorem pr_showTbl (d : Gen.D) : PR.prStmt d .showTables = .ok (String.ofList showTblL) :=
  congrArg Except.ok (ofList_eq (by decide +kernel))

end LL2.Any
