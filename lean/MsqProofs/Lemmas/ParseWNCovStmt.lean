import MsqProofs.Lemmas.ParseWNCov
import MsqProofs.Lemmas.ParseAccountStmt
/-!
# C02 at the statement level: every expression contained in a parsed statement is derived by the documented grammar

Partition specifications (`PARTITION (a = 1, b)`: the comparison node is built by `_parse_partition_expression` itself, from two
compute-level operands), column types' parameters, DEFAULT / ON UPDATE / GENERATED ALWAYS AS expressions of column definitions,
UPDATE … SET values, VALUES rows, the WHERE / ORDER BY of UPDATE and DELETE, SHOW COLUMNS … WHERE, and the queries inside INSERT …
SELECT / CREATE TABLE … AS / plain SELECT statements: `exprsStmt`.
-/
set_option linter.unusedVariables false
set_option maxHeartbeats 1000000
open Lex
namespace WNG
open PM Ast
variable {d : Gen.D} {f : Nat}

set_option hygiene false in
/-- take the leading `if` of the run `h` apart (`split at h` gives up on the long chains with structure updates) -/
macro "peel" : tactic =>
  `(tactic| ((with_reducible have h' := PM.ite_split h); clear h; rcases h' with ⟨hcnd, h⟩ | ⟨hcnd, h⟩))

/-! ### the expressions of the statement-level structures -/
def exprsCT (t : ColType) : List Expr := t.params.getD []
def exprsDC (c : DefCol) : List Expr :=
  exprsCT c.type ++ ((c.generated.map (·.e)).toList ++ (c.default.toList ++ c.onUpdate.toList))
def exprsCOI : ColOrIdx → List Expr | .col c => exprsDC c | _ => []
def exprsAO : AlterOp → List Expr
  | .addPartition _ p => p | .dropPartition _ p => p | .add x => exprsCOI x | .modify x => exprsCOI x | .change _ x => exprsCOI x | _ => []
def exprsCreate (c : CreateTable) : List Expr := c.columns.flatMap exprsDC ++ c.partitionedBy.flatMap exprsDC
def exprsIH (h : InsertHead) : List Expr := exprsOW h.withs ++ h.partition.getD []
def exprsStmt : Stmt → List Expr
  | .select q => exprsQ q
  | .insertValues h vs => exprsIH h ++ vs.flatten
  | .insertSelect h q => exprsIH h ++ exprsQ q
  | .update w _ sets wh ob _ => exprsOW w ++ (sets.map (·.2) ++ (wh.toList ++ oiEs ob))
  | .delete _ wh ob _ => wh.toList ++ oiEs ob
  | .createTable c => exprsCreate c
  | .createTableAs _ _ q => exprsQ q
  | .analyze _ p _ _ _ => p.getD []
  | .alter _ ops => ops.flatMap exprsAO
  | .showColumns fr wh => exprsFs fr ++ wh.toList
  | _ => []

/-- coverage of a column definition, field by field (stable under the structure updates of the attribute loop) -/
structure CovDC (d : Gen.D) (T : List Tok) (c : DefCol) : Prop where
  ty : CovL d T (exprsCT c.type)
  gen : ∀ g, c.generated = some g → Cov d T g.e
  dflt : ∀ e, c.default = some e → Cov d T e
  upd : ∀ e, c.onUpdate = some e → Cov d T e

theorem CovDC.covL {T : List Tok} {c : DefCol} (h : CovDC d T c) : CovL d T (exprsDC c) := by
  refine h.ty.append (CovL.append ?_ (CovL.append ?_ ?_))
  · intro e he
    cases hg : c.generated with
    | none => simp [hg] at he
    | some g => simp [hg] at he; subst he; exact h.gen g hg
  · intro e he
    cases hg : c.default with
    | none => simp [hg] at he
    | some g => simp [hg] at he; rw [he]; exact h.dflt g hg
  · intro e he
    cases hg : c.onUpdate with
    | none => simp [hg] at he
    | some g => simp [hg] at he; rw [he]; exact h.upd g hg

theorem CovL.flatMap {α : Type} {T : List Tok} {l : List α} {g : α → List Expr} (h : ∀ a ∈ l, CovL d T (g a)) : CovL d T (l.flatMap g) := by
  intro e he
  obtain ⟨a, ha, hea⟩ := List.mem_flatMap.mp he
  exact h a ha e hea
theorem CovL.flatten {T : List Tok} {l : List (List Expr)} (h : ∀ a ∈ l, CovL d T a) : CovL d T l.flatten := by
  intro e he
  obtain ⟨a, ha, hea⟩ := List.mem_flatten.mp he
  exact h a ha e hea

/-! ### helpers -/
theorem popSplit_ok {ts r : List Tok} {segs : List (List Tok)} (h : popSplit ts = .ok (segs, r)) :
    ∃ g, ts = g :: r ∧ segs = splitBy "," g.children [] [] := by
  cases ts with
  | nil => simp [popSplit] at h
  | cons g r0 => simp only [popSplit, Except.ok.injEq, Prod.mk.injEq] at h; exact ⟨g, by rw [h.2], h.1.symm⟩
theorem popSplit_sub {T ts r : List Tok} {segs : List (List Tok)} (hs : Sub T ts) (h : popSplit ts = .ok (segs, r)) :
    (∀ sg ∈ segs, Sub T sg) ∧ Sub T r := by
  obtain ⟨g, rfl, rfl⟩ := popSplit_ok h
  exact ⟨splitBy_sub hs.head_child, hs.tail⟩

theorem eachClosed_all {α : Type} {T : List Tok} {p : List Tok → R α} {P : α → Prop}
    (hp : ∀ sg a, Sub T sg → closed (p sg) = .ok a → P a) :
    ∀ (segs : List (List Tok)) (as : List α), (∀ sg ∈ segs, Sub T sg) → eachClosed p segs = .ok as → ∀ a ∈ as, P a := by
  intro segs
  induction segs with
  | nil => intro as _ h; simp only [eachClosed, Except.ok.injEq] at h; subst h; intro a ha; cases ha
  | cons sg rest ih =>
    intro as hss h
    simp only [eachClosed] at h
    split at h
    · cases h
    · rename_i a ha
      split at h
      · rename_i as' has
        simp only [Except.ok.injEq] at h
        subst h
        intro x hx
        simp only [List.mem_cons] at hx
        rcases hx with rfl | hx
        · exact hp sg x (hss sg (by simp)) ha
        · exact ih as' (fun s hm => hss s (by simp [hm])) has x hx
      · cases h

theorem eachClosed_compute {T : List Tok} {segs : List (List Tok)} {es : List Expr} (hss : ∀ sg ∈ segs, Sub T sg)
    (h : eachClosed (pCompute d f) segs = .ok es) : CovL d T es :=
  eachClosed_all (P := fun e => Cov d T e) (fun sg a hs ha => cov_closed_compute hs ha) segs es hss h

/-! ### column types, partition specifications -/
theorem cv_pColType {T ts r : List Tok} {v : ColType} (hs : Sub T ts) (h : pColType d f ts = .ok (v, r)) : CovL d T (exprsCT v) := by
  unfold pColType at h
  split at h
  · cases h
  · rename_i name r0 hp
    have hs0 : Sub T r0 := hs.of_cons (popSrc_cons _ _ _ hp)
    split at h
    · split at h
      · cases h
      · rename_i segs r1 hsp
        split at h
        · rename_i ps hps
          obtain ⟨rfl, rfl⟩ := ret2 h
          simpa [exprsCT] using eachClosed_compute (popSplit_sub hs0 hsp).1 hps
        · cases h
    · obtain ⟨rfl, rfl⟩ := ret2 h; simpa [exprsCT] using CovL.nil

theorem cv_pPartitionItem {T ts r : List Tok} {v : Expr × Bool} (hs : Sub T ts) (h : pPartitionItem d f ts = .ok (v, r)) : Cov d T v.1 := by
  unfold pPartitionItem at h
  split at h
  · cases h
  · rename_i bv r0 h1
    obtain ⟨u1, rfl, hd1⟩ := (wf_all d f).pCompute _ bv r0 h1
    split at h
    · split at h
      · cases h
      · rename_i o r1 hp
        cases r0 with
        | nil => simp [popSrc] at hp
        | cons t r0' =>
          simp only [popSrc, Except.ok.injEq, Prod.mk.injEq] at hp
          obtain ⟨rfl, rfl⟩ := hp
          split at h
          · cases h
          · rename_i op hop
            split at h
            · cases h
            · rename_i av r2 h2
              obtain ⟨u2, rfl, hd2⟩ := (wf_all d f).pCompute _ av r2 h2
              obtain ⟨rfl, rfl⟩ := ret2 h
              refine ⟨10, u1 ++ t :: u2, Sub.pfx (u := u1 ++ t :: u2) (r := r2) (by simpa using hs), ?_⟩
              exact Derives.compare ((by simpa using hd1 : Derives d 8 u1 bv).up (by omega)) hop
                ((by simpa using hd2 : Derives d 8 u2 av).up (by omega))
    · obtain ⟨rfl, rfl⟩ := ret2 h
      exact ⟨8, u1, hs.pfx, by simpa using hd1⟩

theorem cv_pPartition {T ts r : List Tok} {already : Bool} {v : List Expr} (hs : Sub T ts) (h : pPartition d f already ts = .ok (v, r)) :
    CovL d T v := by
  have main : ∀ r0, Sub T r0 →
      (match popSplit r0 with
        | .error e => .error e
        | .ok (segs, r1) => match eachClosed (pPartitionItem d f) segs with
          | .error e => .error e
          | .ok items => if items.any (·.2) && items.any (fun i => !i.2) then .error .parse else .ok (items.map (·.1), r1)) = (.ok (v, r) : R (List Expr)) →
      CovL d T v := by
    intro r0 hs0 h
    split at h
    · cases h
    · rename_i segs r1 hsp
      split at h
      · cases h
      · rename_i items hit
        split at h
        · cases h
        · obtain ⟨rfl, rfl⟩ := ret2 h
          have := eachClosed_all (P := fun (a : Expr × Bool) => Cov d T a.1) (fun sg a hsg ha => by
            rw [closed_ok] at ha; exact cv_pPartitionItem hsg ha) segs items (popSplit_sub hs0 hsp).1 hit
          intro e he
          obtain ⟨a, ha, rfl⟩ := List.mem_map.mp he
          exact this a ha
  unfold pPartition at h
  cases already with
  | true => simp only [↓reduceIte] at h; exact main ts hs h
  | false =>
    simp only [Bool.false_eq_true, ↓reduceIte] at h
    cases hm : matchKw ts "PARTITION" with
    | error e => rw [hm] at h; cases h
    | ok p =>
      obtain ⟨u, r0⟩ := p
      rw [hm] at h
      exact main r0 (hs.of_cons (matchKw_cons _ _ _ _ hm)) h

theorem cv_pOptPartition {T ts r : List Tok} {v : Option (List Expr)} (hs : Sub T ts) (h : pOptPartition d f ts = .ok (v, r)) :
    CovL d T (v.getD []) := by
  unfold pOptPartition at h
  split at h
  · split at h
    · rename_i p r1 h1
      obtain ⟨rfl, rfl⟩ := ret2 h
      simpa using cv_pPartition hs h1
    · cases h
  · obtain ⟨rfl, rfl⟩ := ret2 h; simpa using CovL.nil

/-! ### column definitions -/
theorem cv_pGenerated {T ts r : List Tok} {gc : GenCol} (hs : Sub T ts) (h : pGenerated d f ts = .ok (some gc, r)) : Cov d T gc.e := by
  unfold pGenerated at h
  split at h
  · split at h
    · cases h
    · rename_i g r0 hdrop
      have hs0 : Sub T (g :: r0) := hdrop ▸ hs.drop 3
      split at h
      · cases h
      · rename_i e he
        split at h
        · cases h
        · split at h
          · simp only [Except.ok.injEq, Prod.mk.injEq, Option.some.injEq] at h
            rw [← h.1]
            exact cov_closed_compute hs0.head_child he
          · cases h
  · cases h

theorem cv_defColLoop {T : List Tok} : ∀ (g : Nat) (c : DefCol) (ts : List Tok) (v : DefCol) (r : List Tok), Sub T ts → CovDC d T c →
    defColLoop d f g c ts = .ok (v, r) → CovDC d T v := by
  intro g
  induction g with
  | zero => intro c ts v r _ _ h; simp [defColLoop] at h
  | succ g ih =>
    intro c ts v r hs hc h
    have keep : ∀ {c' : DefCol}, c'.type = c.type → c'.generated = c.generated → c'.default = c.default → c'.onUpdate = c.onUpdate →
        CovDC d T c' := fun h1 h2 h3 h4 => ⟨h1 ▸ hc.ty, h2 ▸ hc.gen, h3 ▸ hc.dflt, h4 ▸ hc.upd⟩
    have srcStep : ∀ {k : Nat} {s : String} {r0 : List Tok}, popSrc (ts.drop k) = .ok (s, r0) → Sub T r0 :=
      fun hp => (hs.drop _).of_cons (popSrc_cons _ _ _ hp)
    unfold defColLoop at h
    peel
    · obtain ⟨rfl, rfl⟩ := ret2 h; exact hc
    peel
    · (refine ih _ _ v r ?_ ?_ h; exact hs.drop 2; exact keep rfl rfl rfl rfl)
    peel
    · (refine ih _ _ v r ?_ ?_ h; exact hs.drop 1; exact keep rfl rfl rfl rfl)
    peel
    · split at h
      · rename_i s r0 hp; refine ih _ _ v r ?_ ?_ h; exact srcStep hp; exact keep rfl rfl rfl rfl
      · cases h
    peel
    · split at h
      · rename_i s r0 hp; refine ih _ _ v r ?_ ?_ h; exact srcStep hp; exact keep rfl rfl rfl rfl
      · cases h
    peel
    · split at h
      · rename_i e r0 hp
        obtain ⟨hcv, hs1⟩ := cov_run (hs.drop 1) ((wf_all d f).pCompute _ e r0 hp)
        refine ih _ _ v r hs1 ?_ h
        exact ⟨hc.ty, hc.gen, fun e' he => by cases he; exact hcv, hc.upd⟩
      · cases h
    peel
    · split at h
      · rename_i s r0 hp; refine ih _ _ v r ?_ ?_ h; exact srcStep hp; exact keep rfl rfl rfl rfl
      · cases h
    peel
    · split at h
      · rename_i e r0 hp
        obtain ⟨hcv, hs1⟩ := cov_run (hs.drop 2) ((wf_all d f).pCompute _ e r0 hp)
        refine ih _ _ v r hs1 ?_ h
        exact ⟨hc.ty, hc.gen, hc.dflt, fun e' he => by cases he; exact hcv⟩
      · cases h
    peel
    · (refine ih _ _ v r ?_ ?_ h; exact hs.drop 1; exact keep rfl rfl rfl rfl)
    peel
    · (refine ih _ _ v r ?_ ?_ h; exact hs.drop 1; exact keep rfl rfl rfl rfl)
    peel
    · (refine ih _ _ v r ?_ ?_ h; exact hs.drop 1; exact keep rfl rfl rfl rfl)
    peel
    · split at h
      · rename_i gc r0 hp
        have hcv := cv_pGenerated hs hp
        have hs1 : Sub T r0 := hs.of_cons (cons_pGenerated d f _ _ _ hp)
        refine ih _ _ v r hs1 ?_ h
        exact ⟨hc.ty, fun g' hg => by cases hg; exact hcv, hc.dflt, hc.upd⟩
      · cases h
      · cases h
    · cases h

theorem cv_pDefCol {T ts r : List Tok} {v : DefCol} (hs : Sub T ts) (h : pDefCol d f ts = .ok (v, r)) : CovDC d T v := by
  unfold pDefCol at h
  split at h
  · cases h
  · rename_i nm r0 hp
    have hs0 : Sub T r0 := hs.of_cons (popSrc_cons _ _ _ hp)
    split at h
    · cases h
    · rename_i ty r1 hty
      have hs1 : Sub T r1 := hs0.of_cons (cons_pColType d f _ _ _ hty)
      refine cv_defColLoop _ _ r1 v r hs1 ⟨cv_pColType hs0 hty, ?_, ?_, ?_⟩ h <;> (intro x hx; cases hx)

theorem cv_pColOrIdx {T ts r : List Tok} {v : ColOrIdx} (hs : Sub T ts) (h : pColOrIdx d f ts = .ok (v, r)) : CovL d T (exprsCOI v) := by
  unfold pColOrIdx at h
  repeat' split at h
  all_goals first
    | (obtain ⟨rfl, rfl⟩ := ret2 h; exact (cv_pDefCol hs (by assumption)).covL)
    | (obtain ⟨rfl, rfl⟩ := ret2 h; exact CovL.nil)
    | cases h

/-! ### UPDATE / DELETE / INSERT -/
theorem cv_pWhereOrderLimit {T ts r : List Tok} {v : Option Expr × Option (List OrderItem) × Option (Int × Option Int)} (hs : Sub T ts)
    (h : pWhereOrderLimit d f ts = .ok (v, r)) : CovL d T (v.1.toList ++ oiEs v.2.1) := by
  unfold pWhereOrderLimit at h
  split at h
  · cases h
  · rename_i wh r1 h1
    have c1 := (cv_all d f).pOptOr T _ ts wh r1 hs h1
    have hs1 : Sub T r1 := hs.of_cons (PM.pOptOr_consumes d f _ _ wh r1 h1)
    split at h
    · cases h
    · rename_i ob r2 h2
      have c2 := (cv_all d f).pOrderByOpt T r1 ob r2 hs1 h2
      split at h
      · cases h
      · obtain ⟨rfl, rfl⟩ := ret2 h; exact c1.append c2

theorem cv_pUpdateSetCol {T ts r : List Tok} {v : String × Expr} (hs : Sub T ts) (h : pUpdateSetCol d f ts = .ok (v, r)) : Cov d T v.2 := by
  unfold pUpdateSetCol at h
  split at h
  · cases h
  · rename_i c r0 hp
    have hs0 : Sub T r0 := hs.of_cons (popSrc_cons _ _ _ hp)
    split at h
    · cases h
    · rename_i r1 hm
      have hs1 : Sub T r1 := hs0.of_cons (matchKw_cons _ _ _ _ hm)
      split at h
      · rename_i e r2 h1
        obtain ⟨rfl, rfl⟩ := ret2 h
        exact (cov_run hs1 ((wf_all d f).pOr _ e r2 h1)).1
      · cases h

theorem cv_updateSetLoop {T : List Tok} : ∀ (g : Nat) (acc : List (String × Expr)) (ts : List Tok) (v : List (String × Expr)) (r : List Tok),
    Sub T ts → CovL d T (acc.map (·.2)) → updateSetLoop d f g acc ts = .ok (v, r) → CovL d T (v.map (·.2)) := by
  intro g
  induction g with
  | zero => intro acc ts v r _ _ h; simp [updateSetLoop] at h
  | succ g ih =>
    intro acc ts v r hs ha h
    unfold updateSetLoop at h
    split at h
    · split at h
      · rename_i x r1 h1
        have hc := cv_pUpdateSetCol (hs.drop 1) h1
        exact ih _ r1 v r ((hs.drop 1).of_cons (cons_pUpdateSetCol d f _ _ _ h1)) (by simpa using ha.snoc hc) h
      · cases h
    · obtain ⟨rfl, rfl⟩ := ret2 h; exact ha

theorem cv_pUpdateSet {T ts r : List Tok} {v : List (String × Expr)} (hs : Sub T ts) (h : pUpdateSet d f ts = .ok (v, r)) :
    CovL d T (v.map (·.2)) := by
  unfold pUpdateSet at h
  split at h
  · cases h
  · rename_i r0 hm
    have hs0 : Sub T r0 := hs.of_cons (matchKw_cons _ _ _ _ hm)
    split at h
    · cases h
    · rename_i x r1 h1
      have hc := cv_pUpdateSetCol hs0 h1
      exact cv_updateSetLoop _ [x] r1 v r (hs0.of_cons (cons_pUpdateSetCol d f _ _ _ h1)) (by simpa using CovL.single hc) h

theorem cv_pUpdate {T ts r : List Tok} {w : Option (List WithTable)} {v : Stmt} (hs : Sub T ts) (hw : CovL d T (exprsOW w))
    (h : pUpdate d f w ts = .ok (v, r)) : CovL d T (exprsStmt v) := by
  unfold pUpdate at h
  split at h
  · cases h
  · rename_i r0 hm
    have hs0 : Sub T r0 := hs.of_cons (matchKw_cons _ _ _ _ hm)
    split at h
    · cases h
    · rename_i t r1 ht
      have hs1 : Sub T r1 := hs0.of_cons (cons_pTblName _ _ _ ht)
      split at h
      · cases h
      · rename_i sets r2 h2
        have c2 := cv_pUpdateSet hs1 h2
        have hs2 : Sub T r2 := hs1.of_cons (cons_pUpdateSet d f _ _ _ h2)
        split at h
        · cases h
        · rename_i wh ob lm r3 h3
          have c3 := cv_pWhereOrderLimit hs2 h3
          obtain ⟨rfl, rfl⟩ := ret2 h
          simp only [exprsStmt]
          exact hw.append (c2.append c3)

theorem cv_pDelete {T ts r : List Tok} {v : Stmt} (hs : Sub T ts) (h : pDelete d f ts = .ok (v, r)) : CovL d T (exprsStmt v) := by
  unfold pDelete at h
  split at h
  · cases h
  · rename_i r0 hm
    have hs0 : Sub T r0 := hs.of_cons (matchSeq_cons _ _ _ _ hm)
    split at h
    · cases h
    · rename_i t r1 ht
      have hs1 : Sub T r1 := hs0.of_cons (cons_pTblName _ _ _ ht)
      split at h
      · cases h
      · rename_i wh ob lm r2 h3
        have c3 := cv_pWhereOrderLimit hs1 h3
        obtain ⟨rfl, rfl⟩ := ret2 h
        simpa [exprsStmt] using c3

theorem cv_valuesLoop {T : List Tok} : ∀ (g : Nat) (acc : List (List Expr)) (ts : List Tok) (v : List (List Expr)) (r : List Tok),
    Sub T ts → CovL d T acc.flatten → valuesLoop d f g acc ts = .ok (v, r) → CovL d T v.flatten := by
  intro g
  induction g with
  | zero => intro acc ts v r _ _ h; simp [valuesLoop] at h
  | succ g ih =>
    intro acc ts v r hs ha h
    unfold valuesLoop at h
    split at h
    · rename_i t r0
      split at h
      · split at h
        · cases h
        · rename_i row hrow
          have hc := eachClosed_compute (splitBy_sub hs.head_child) hrow
          exact ih _ _ v r (hs.tail.of_cons (moveStr_sfx _ _)) (by simpa using ha.append hc) h
      · obtain ⟨rfl, rfl⟩ := ret2 h; exact ha
    · obtain ⟨rfl, rfl⟩ := ret2 h; exact ha

theorem cv_pInsert {T ts r : List Tok} {w : Option (List WithTable)} {v : Stmt} (hs : Sub T ts) (hw : CovL d T (exprsOW w))
    (h : pInsert d f w ts = .ok (v, r)) : CovL d T (exprsStmt v) := by
  unfold pInsert at h
  split at h
  · cases h
  · rename_i withs r0 hwo
    have hs0 : Sub T r0 := hs.of_cons (cons_pWithOpt d f _ _ _ _ hwo)
    have hws : CovL d T (exprsWs withs) := by
      unfold pWithOpt at hwo
      cases w with
      | some w0 => simp only [Except.ok.injEq, Prod.mk.injEq] at hwo; rw [← hwo.1]; simpa [exprsOW] using hw
      | none => exact (cv_all d f).pWith T ts withs r0 hs hwo
    split at h
    · cases h
    · rename_i ty r1 hty
      have hs1 : Sub T r1 := hs0.of_cons (cons_pInsertType _ _ _ hty)
      split at h
      · cases h
      · rename_i tbl r2 htb
        have hs2 : Sub T r2 := (hs1.of_cons (moveStrUp_sfx r1 "TABLE")).of_cons (cons_pTblName _ _ _ htb)
        split at h
        · cases h
        · rename_i part r3 hpt
          have cp := cv_pOptPartition hs2 hpt
          have hs3 : Sub T r3 := hs2.of_cons (cons_pOptPartition d f _ _ _ hpt)
          split at h
          · cases h
          · rename_i cols r4 hcl
            have hs4 : Sub T r4 := hs3.of_cons (cons_pOptColumns _ _ _ hcl)
            simp only at h
            split at h
            · split at h
              · rename_i vs r5 hv
                obtain ⟨rfl, rfl⟩ := ret2 h
                have cv := cv_valuesLoop _ [] _ vs r5 (hs4.drop 1) (by simpa using CovL.nil) hv
                simp only [exprsStmt, exprsIH, exprsOW]
                exact (hws.append cp).append cv
              · cases h
            · split at h
              · split at h
                · rename_i q r5 hq
                  obtain ⟨rfl, rfl⟩ := ret2 h
                  have cq := (cv_all d f).pSelectStmt T (some []) r4 q r5 hs4 (by simpa [exprsOW, exprsWs] using CovL.nil) hq
                  simp only [exprsStmt, exprsIH, exprsOW]
                  exact (hws.append cp).append cq
                · cases h
              · cases h

end WNG
