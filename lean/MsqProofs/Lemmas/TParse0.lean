import MsqProofs.Props.C02
import MsqModel.Print
/-!
# T-parse on the expression grammar, base definitions (C02 / C01)

* `toksE d e` — the TOKEN-level printer: what `PR.prE d e` prints, as the token list the lexer makes of it.  The bracketing decision
  is `PR.lvl e > bound` — literally the condition of `PR.wrap` (`wrapT` below), with the bounds of `PR.prE`: left operand of a binary
  node its own level, right operand its own level − 1, unary operand 2, predicate left side 9 and right sides 8, comparison 10 / 9,
  `NOT` 11, `AND` 12 / 11, `XOR` 13 / 12, `OR` 14 / 13.  Tokens: a back-quoted NAME token per column (`columnSrc` quotes every
  column name), a LITERAL-marked leaf per literal, a leaf per operator / keyword with the marks the lexer gives (`Gen.wordMarks`,
  else NAME for words, 0 for symbols), a PARENTHESIS-marked group per wrapped child.
  The link `lex (prE d e) = toksE d e` is the LEXER's business (C05 / C06 token theorems) and is not proved here; it is checked by
  compiled evaluation on concrete trees (`#guard`s in `MsqProofs/Props/C02T.lean`).
* `Frag d e` — the fragment (a `Bool`): see `MsqProofs/Props/C02T.lean`.
* `OkAt p n res` — the parser run `p` succeeds with `res` at EVERY fuel `≥ n` (explicit fuel bounds, no fuel monotonicity needed).
* `stopLE d L rest` — the continuation `rest` does not continue an expression of level `≤ L`: it is empty, or its head is neither a
  bracket / array index / `.` (which would continue an element) nor an operator or keyword of a level `≤ L`.
-/
set_option linter.unusedVariables false
set_option linter.unusedSimpArgs false
open Lex PM Ast
namespace TP

/-! ### success at every sufficient fuel -/
def OkAt {α : Type} (p : Nat → Except Err α) (n : Nat) (res : α) : Prop := ∀ f, n ≤ f → p f = .ok res
theorem OkAt.mono {α : Type} {p : Nat → Except Err α} {n m : Nat} {res : α} (h : OkAt p n res) (hnm : n ≤ m) : OkAt p m res :=
  fun f hf => h f (Nat.le_trans hnm hf)

/-! ### tokens -/
def isWordS (s : String) : Bool := s.toList.head?.any fun c => c.isAlpha || c == '_'
/-- the marks the lexer gives a word or operator: the entry of `Gen.wordMarks`, else NAME for a word and nothing for a symbol -/
def wordMark (s : String) : Nat :=
  match Gen.wordMarks.find? (·.1 == up s) with
  | some p => p.2
  | none => if isWordS s then NAME else 0
/-- operator / keyword leaf -/
def opTok (s : String) : Tok := .single s.toList (wordMark s)
/-- a column name as `columnSrc` prints it: back-quoted, NAME -/
def nameTok (c : String) : Tok := .single ('`' :: c.toList ++ ['`']) NAME
def isDigits (s : String) : Bool := !s.toList.isEmpty && s.toList.all Char.isDigit
/-- literal leaf: integer (LITERAL | LITERAL_INT), quoted string (LITERAL | NAME), or a literal word of `Gen.wordMarks` (NULL, TRUE …) -/
def litMark (v : String) : Nat :=
  if isDigits v then LITERAL ||| Gen.mark_LITERAL_INT
  else if v.toList.head? == some '\'' || v.toList.head? == some '"' then LITERAL ||| NAME
  else wordMark v
def litTok (v : String) : Tok := .single v.toList (litMark v)
/-- a wrapped child -/
def grp (cs : List Tok) : Tok := .group .paren cs PAREN

theorem src_single (s : String) (m : Nat) : Tok.src (.single s.toList m) = s := by
  simp [Tok.src, Tok.source, String.ofList_toList]
theorem src_opTok (s : String) : (opTok s).src = s := src_single s _
theorem src_litTok (v : String) : (litTok v).src = v := src_single v _
theorem children_grp (cs : List Tok) : (grp cs).children = cs := rfl
theorem grp_paren (cs : List Tok) : (grp cs).has PAREN = true := by simp [grp, Tok.has, Tok.marks]; decide
theorem grp_literal (cs : List Tok) : (grp cs).has LITERAL = false := by simp [grp, Tok.has, Tok.marks]; decide

/-! ### the spelling the printer gives an operator -/
def cval (o : String) : String := match Gen.computeEnum.find? (·.1 == o) with | some e => e.2.1 | none => ""
def cmpVal (o : String) : String := match Gen.compareEnum.find? (·.1 == o) with | some e => PR.joinS " " e.2 | none => ""
def kwToks (k : KwKind) (n : Bool) : List Tok :=
  match k with
  | .is => if n then [opTok "IS", opTok "NOT"] else [opTok "IS"]
  | .in_ => if n then [opTok "NOT", opTok "IN"] else [opTok "IN"]
  | .like => if n then [opTok "NOT", opTok "LIKE"] else [opTok "LIKE"]
  | .rlike => if n then [opTok "NOT", opTok "RLIKE"] else [opTok "RLIKE"]
  | .regexp => if n then [opTok "NOT", opTok "REGEXP"] else [opTok "REGEXP"]

/-! ### the token-level printer -/
/-- `PR.wrap` on tokens: the SAME decision `PR.lvl e > maxLevel`; `extra`: a REDUNDANT bracket is put around the child anyway -/
def wrapT (extra : Bool) (e : Expr) (maxLevel : Nat) (ts : List Tok) : List Tok :=
  if PR.lvl e > maxLevel ∨ extra = true then [grp ts] else ts

/-- `ch` chooses the sub-terms that get a redundant bracket (the printer: `fun _ => false`) -/
def toksE (d : Gen.D) (ch : Expr → Bool) : Expr → List Tok
  | .column _ c => [nameTok c]
  | .literal v => [litTok v]
  | .unary o e => opTok (cval o) :: wrapT (ch e) e 2 (toksE d ch e)
  | .compute l o r =>
      wrapT (ch l) l (PR.lvl (.compute l o r)) (toksE d ch l) ++ opTok (cval o) :: wrapT (ch r) r (PR.lvl (.compute l o r) - 1) (toksE d ch r)
  | .kw k n l r => wrapT (ch l) l 9 (toksE d ch l) ++ (kwToks k n ++ wrapT (ch r) r 8 (toksE d ch r))
  | .between n b f t =>
      wrapT (ch b) b 9 (toksE d ch b) ++ ((if n then [opTok "NOT"] else []) ++ opTok "BETWEEN" :: (wrapT (ch f) f 8 (toksE d ch f) ++ opTok "AND" :: wrapT (ch t) t 8 (toksE d ch t)))
  | .compare o l r => wrapT (ch l) l 10 (toksE d ch l) ++ opTok (cmpVal o) :: wrapT (ch r) r 9 (toksE d ch r)
  | .not_ e => opTok "NOT" :: wrapT (ch e) e 11 (toksE d ch e)
  | .and_ l r => wrapT (ch l) l 12 (toksE d ch l) ++ opTok "AND" :: wrapT (ch r) r 11 (toksE d ch r)
  | .xor l r => wrapT (ch l) l 13 (toksE d ch l) ++ opTok "XOR" :: wrapT (ch r) r 12 (toksE d ch r)
  | .or_ l r => wrapT (ch l) l 14 (toksE d ch l) ++ opTok "OR" :: wrapT (ch r) r 13 (toksE d ch r)
  | _ => []
/-- the rendering of `e` at a position with bound `k` -/
def W (d : Gen.D) (ch : Expr → Bool) (e : Expr) (k : Nat) : List Tok := wrapT (ch e) e k (toksE d ch e)

/-! ### what does not continue an expression -/
def stopsE (t : Tok) : Bool := !t.has PAREN && !t.has ARRAY && !t.srcEq "."
def stopsC (t : Tok) : Bool := (computeOp? (up t.src)).isNone
def stopsK (d : Gen.D) (t : Tok) : Bool :=
  !(Gen.notSet d).contains (up t.src) && !["NOT", "BETWEEN", "IS", "IN", "LIKE", "RLIKE", "REGEXP"].contains (up t.src)
def stopsCmp (t : Tok) : Bool := (compareOp? t.src).isNone
def stopsA (t : Tok) : Bool := !(up t.src == "AND" || up t.src == "&&")
def stopsX (t : Tok) : Bool := !t.srcEqUp "XOR"
def stopsO (t : Tok) : Bool := !(up t.src == "OR" || up t.src == "||")
/-- the head token does not continue an expression of level `≤ L` -/
def stopTok (d : Gen.D) (L : Nat) (t : Tok) : Bool :=
  stopsE t && (L < 8 || stopsC t) && (L < 9 || stopsK d t) && (L < 10 || stopsCmp t) && (L < 12 || stopsA t) && (L < 13 || stopsX t) &&
    (L < 14 || stopsO t)
def stopLE (d : Gen.D) (L : Nat) : List Tok → Bool
  | [] => true
  | t :: _ => stopTok d L t
/-- `rest` does not continue an expression at all -/
def stops (d : Gen.D) (rest : List Tok) : Bool := stopLE d 14 rest

theorem stopTok_mono {d : Gen.D} {L L' : Nat} {t : Tok} (h : stopTok d L t = true) (hl : L' ≤ L) : stopTok d L' t = true := by
  simp only [stopTok, Bool.and_eq_true, Bool.or_eq_true, decide_eq_true_eq] at h ⊢
  obtain ⟨⟨⟨⟨⟨⟨h1, h2⟩, h3⟩, h4⟩, h5⟩, h6⟩, h7⟩ := h
  refine ⟨⟨⟨⟨⟨⟨h1, ?_⟩, ?_⟩, ?_⟩, ?_⟩, ?_⟩, ?_⟩
  · rcases h2 with h | h; exact Or.inl (by omega); exact Or.inr h
  · rcases h3 with h | h; exact Or.inl (by omega); exact Or.inr h
  · rcases h4 with h | h; exact Or.inl (by omega); exact Or.inr h
  · rcases h5 with h | h; exact Or.inl (by omega); exact Or.inr h
  · rcases h6 with h | h; exact Or.inl (by omega); exact Or.inr h
  · rcases h7 with h | h; exact Or.inl (by omega); exact Or.inr h
theorem stopLE_mono {d : Gen.D} {L L' : Nat} {rest : List Tok} (h : stopLE d L rest = true) (hl : L' ≤ L) : stopLE d L' rest = true := by
  cases rest with
  | nil => rfl
  | cons t r => exact stopTok_mono h hl

/-! ### what may start an operand -/
/-- not `SELECT` / `WITH` (a bracket group starting so is a sub-query) -/
def startTok (t : Tok) : Bool := !["SELECT", "WITH"].contains (up t.src)
/-- may start an expression below the `NOT` level: no `NOT` word of the dialect, not `EXISTS` -/
def operandTok (d : Gen.D) (t : Tok) : Bool := startTok t && !(Gen.notSet d).contains (up t.src) && !t.srcEqUp "EXISTS"
/-- may start an element: additionally no unary operator of the dialect -/
def elemTok (d : Gen.D) (t : Tok) : Bool := operandTok d t && !(Gen.unarySet d).contains t.src

/-! ### bracket group tokens are not words: their source starts with `(` -/
theorem toList_src_grp (cs : List Tok) : (grp cs).src.toList = '(' :: (sourceL cs ++ [')']) := by
  simp [grp, Tok.src, Tok.source, String.toList_ofList]
theorem pyUpper_paren (r : List Char) : Gen.pyUpper ('(' :: r) = '(' :: Gen.pyUpper r := by
  simp only [Gen.pyUpper, Py.upperWith, List.flatMap_cons]
  have h1 : ('('.toNat < 128) = True := by decide
  have h2 : Py.upperAsciiChar '(' = '(' := by decide
  simp [h1, h2]
theorem toList_up_grp (cs : List Tok) : (up (grp cs).src).toList = '(' :: Gen.pyUpper (sourceL cs ++ [')']) := by
  simp [up, Gen.pyUpperS, String.toList_ofList, toList_src_grp, pyUpper_paren]
theorem ne_of_head {s k : String} {c : Char} (hs : s.toList.head? = some c) (hk : (k.toList.head? != some c) = true) : s ≠ k := by
  intro h; subst h; simp [hs] at hk
theorem not_contains_of_head {l : List String} {s : String} {c : Char} (hs : s.toList.head? = some c)
    (hl : l.all (fun k => k.toList.head? != some c) = true) : l.contains s = false := by
  induction l with
  | nil => rfl
  | cons k l ih =>
    simp only [List.all_cons, Bool.and_eq_true] at hl
    have := ne_of_head hs hl.1
    simp only [List.contains_cons, ih hl.2, Bool.or_false, beq_eq_false_iff_ne, ne_eq]
    exact this
theorem grp_elemTok (d : Gen.D) (cs : List Tok) : elemTok d (grp cs) = true := by
  have h1 : (grp cs).src.toList.head? = some '(' := by simp [toList_src_grp]
  have h2 : (up (grp cs).src).toList.head? = some '(' := by simp [toList_up_grp]
  have a : ["SELECT", "WITH"].contains (up (grp cs).src) = false := not_contains_of_head h2 (by decide)
  have b : (Gen.notSet d).contains (up (grp cs).src) = false := not_contains_of_head h2 (by cases d <;> decide)
  have c : (Gen.unarySet d).contains (grp cs).src = false := not_contains_of_head h1 (by cases d <;> decide)
  have e : (grp cs).srcEqUp "EXISTS" = false := by
    simp only [Tok.srcEqUp, beq_eq_false_iff_ne, ne_eq]; exact ne_of_head h2 (by decide)
  simp only [elemTok, operandTok, startTok, a, b, c, e]; rfl

/-- the printer succeeds with exactly this text -/
def printsAs (p : PR.P) (s : String) : Bool := match p with | .ok x => x == s | .error _ => false

/-! ### the fragment -/
/-- the back-quoted token of a column name reads back as that name and is no word of the grammar (true of every plain name) -/
def colOK (d : Gen.D) (c : String) : Bool :=
  elemTok d (nameTok c) && !(nameTok c).srcEqUp "CASE" && !(nameTok c).srcEq "*" && unifyName (nameTok c).src == c
/-- the token of a literal carries the LITERAL mark and is no operator word -/
def litOK (d : Gen.D) (v : String) : Bool := (litTok v).has LITERAL && elemTok d (litTok v)
/-- a unary operator of the dialect, spelled as the printer spells it -/
def unOK (d : Gen.D) (o : String) : Bool :=
  (Gen.unarySet d).contains (cval o) && (match computeOp? (up (cval o)) with | some (nm, _) => nm == o | none => false) &&
    operandTok d (opTok (cval o)) && printsAs (PR.computeOpSrc d o) (cval o)
/-- a binary compute operator (level 3 … 8) the dialect's printer supports; its token is found again by the parser with its level -/
def binLevel (o : String) : Nat := PR.lvl (.compute (.literal "") o (.literal ""))
def binOK (d : Gen.D) (o : String) : Bool :=
  3 ≤ binLevel o && binLevel o ≤ 8 && computeOp? (up (opTok (cval o)).src) == some (o, binLevel o) && stopsE (opTok (cval o)) &&
    printsAs (PR.computeOpSrc d o) (cval o)
/-- a comparison operator -/
def cmpOK (d : Gen.D) (o : String) : Bool :=
  compareOp? (opTok (cmpVal o)).src == some o && stopTok d 9 (opTok (cmpVal o)) && printsAs (PR.compareOpSrc o) (cmpVal o)

def Frag (d : Gen.D) : Expr → Bool
  | .column none c => colOK d c
  | .literal v => litOK d v
  | .unary o e => unOK d o && Frag d e
  | .compute l o r => binOK d o && Frag d l && Frag d r
  | .kw k _ l r => k != .in_ && Frag d l && Frag d r
  | .between _ b f t => Frag d b && Frag d f && Frag d t
  | .compare o l r => cmpOK d o && Frag d l && Frag d r
  | .not_ e => Frag d e
  | .and_ l r => Frag d l && Frag d r
  | .xor l r => Frag d l && Frag d r
  | .or_ l r => Frag d l && Frag d r
  | _ => false

/-- number of nodes (measure of the induction) -/
def sz : Expr → Nat
  | .unary _ e => sz e + 1
  | .compute l _ r => sz l + sz r + 1
  | .kw _ _ l r => sz l + sz r + 1
  | .between _ b f t => sz b + sz f + sz t + 1
  | .compare _ l r => sz l + sz r + 1
  | .not_ e => sz e + 1
  | .and_ l r => sz l + sz r + 1
  | .xor l r => sz l + sz r + 1
  | .or_ l r => sz l + sz r + 1
  | _ => 1

theorem lvl_compute (l r : Expr) (o : String) : PR.lvl (.compute l o r) = binLevel o := by simp [PR.lvl, binLevel]

/-! ### sizes of renderings -/
theorem sizeL_append (a b : List Tok) : sizeL (a ++ b) = sizeL a + sizeL b := by
  induction a with
  | nil => simp [sizeL]
  | cons t a ih => simp [sizeL, ih]; omega
theorem sizeL_cons (t : Tok) (a : List Tok) : sizeL (t :: a) = t.size + sizeL a := by simp [sizeL]
theorem size_single (s : List Char) (m : Nat) : (Tok.single s m).size = 1 := by simp [Tok.size]
theorem size_opTok (s : String) : (opTok s).size = 1 := size_single _ _
theorem size_grp (cs : List Tok) : (grp cs).size = 1 + sizeL cs := by simp [grp, Tok.size]
theorem sizeL_W_le (d : Gen.D) (ch : Expr → Bool) (e : Expr) (k : Nat) : sizeL (toksE d ch e) ≤ sizeL (W d ch e k) := by
  unfold W wrapT; split <;> simp [sizeL, size_grp]
theorem sizeL_W_ge (d : Gen.D) (ch : Expr → Bool) (e : Expr) (k : Nat) : sizeL (W d ch e k) ≤ 1 + sizeL (toksE d ch e) := by
  unfold W wrapT; split <;> simp [sizeL, size_grp]

end TP
