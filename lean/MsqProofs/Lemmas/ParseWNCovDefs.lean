import MsqProofs.Lemmas.ParseWNCov0
/-!
# C02 at the clause level: the induction hypothesis (one field per function of the SELECT part of the mutual block)
-/
set_option linter.unusedVariables false
open Lex
namespace WNG
open PM Ast

/-- a run of an expression-level function on a cursor inside `T`: the tree is covered, the rest is inside `T` -/
theorem cov_run {d : Gen.D} {L : Nat} {T ts r : List Tok} {e : Expr} (hs : Sub T ts)
    (h : ∃ u, ts = u ++ r ∧ Derives d L ([] ++ u) e) : Cov d T e ∧ Sub T r := by
  obtain ⟨u, rfl, hd⟩ := h
  exact ⟨⟨L, u, hs.pfx, by simpa using hd⟩, hs.sfx⟩

/-- the segments between the commas of a bracket group are contiguous runs of its content -/
theorem splitBy_mid (sep : String) : ∀ (ts cur : List Tok) (acc : List (List Tok)) (pre : List Tok),
    ∀ sg ∈ splitBy sep ts cur acc, sg ∈ acc ∨ ∃ a b, pre ++ cur ++ ts = a ++ sg ++ b := by
  intro ts
  induction ts with
  | nil =>
    intro cur acc pre sg hm
    simp only [splitBy] at hm
    split at hm
    · exact .inl hm
    · simp only [List.mem_append, List.mem_cons, List.not_mem_nil, or_false] at hm
      rcases hm with hm | rfl
      · exact .inl hm
      · exact .inr ⟨pre, [], by simp⟩
  | cons t r ih =>
    intro cur acc pre sg hm
    simp only [splitBy] at hm
    split at hm
    · split at hm
      · rcases ih [] acc (pre ++ cur ++ [t]) sg hm with h | ⟨a, b, h⟩
        · exact .inl h
        · exact .inr ⟨a, b, by simpa using h⟩
      · rcases ih [] (acc ++ [cur]) (pre ++ cur ++ [t]) sg hm with h | ⟨a, b, h⟩
        · simp only [List.mem_append, List.mem_cons, List.not_mem_nil, or_false] at h
          rcases h with h | rfl
          · exact .inl h
          · exact .inr ⟨pre, t :: r, by simp⟩
        · exact .inr ⟨a, b, by simpa using h⟩
    · rcases ih (cur ++ [t]) acc pre sg hm with h | ⟨a, b, h⟩
      · exact .inl h
      · exact .inr ⟨a, b, by simpa using h⟩

theorem splitBy_sub {T cs : List Tok} (h : Sub T cs) : ∀ sg ∈ splitBy "," cs [] [], Sub T sg := by
  intro sg hm
  rcases splitBy_mid "," cs [] [] [] sg hm with h' | ⟨a, b, h'⟩
  · cases h'
  · simp only [List.nil_append] at h'
    exact Sub.mid (a := a) (b := b) (h' ▸ h)

/-- the induction hypothesis: every function of the SELECT part, at fuel `n`, on a cursor inside `T` -/
structure CV (d : Gen.D) (n : Nat) : Prop where
  pSubQuery : ∀ T ts v r, Sub T ts → pSubQuery d n ts = .ok (v, r) → ∃ q, v = .subQuery q ∧ CovL d T (exprsQ q)
  pWindowBody : ∀ T fn cs w, Sub T cs → pWindowBody d n fn cs = .ok w →
      ∃ part ord rows, w = .window fn part ord rows ∧ CovL d T (part ++ ord.map oiE)
  pPartitionBy : ∀ T ts v r, Sub T ts → pPartitionBy d n ts = .ok (v, r) → CovL d T v
  pComputeList : ∀ T acc ts v r, Sub T ts → CovL d T acc → pComputeList d n acc ts = .ok (v, r) → CovL d T v
  pOrderItem : ∀ T ts v r, Sub T ts → pOrderItem d n ts = .ok (v, r) → Cov d T (oiE v)
  pOrderList : ∀ T acc ts v r, Sub T ts → CovL d T (acc.map oiE) → pOrderList d n acc ts = .ok (v, r) → CovL d T (v.map oiE)
  pOrderByOpt : ∀ T ts v r, Sub T ts → pOrderByOpt d n ts = .ok (v, r) → CovL d T (oiEs v)
  pSelectCol : ∀ T ts v r, Sub T ts → pSelectCol d n ts = .ok (v, r) → Cov d T v.1
  pSelectCols : ∀ T acc ts v r, Sub T ts → CovL d T (acc.map (·.1)) → pSelectCols d n acc ts = .ok (v, r) → CovL d T (v.map (·.1))
  pTableExpr : ∀ T ts v r, Sub T ts → pTableExpr d n ts = .ok (v, r) → CovL d T (exprsT v)
  pFromTable : ∀ T ts v r, Sub T ts → pFromTable d n ts = .ok (v, r) → CovL d T (exprsF v)
  pFromTables : ∀ T acc ts v r, Sub T ts → CovL d T (exprsFs acc) → pFromTables d n acc ts = .ok (v, r) → CovL d T (exprsFs v)
  pJoin : ∀ T ts v r, Sub T ts → pJoin d n ts = .ok (v, r) → CovL d T (exprsJ v)
  pJoinRule : ∀ T jt t r1 v r, Sub T r1 → CovL d T (exprsF t) → pJoinRule d n jt t r1 = .ok (v, r) → CovL d T (exprsJ v)
  pJoins : ∀ T same outer acc inner v r, Sub T inner → CovL d T (exprsJs acc) → pJoins d n same outer acc inner = .ok (v, r) →
      CovL d T (exprsJs v)
  pOptOr : ∀ T kwd ts v r, Sub T ts → pOptOr d n kwd ts = .ok (v, r) → CovL d T v.toList
  pGroupingElem : ∀ T seg v, Sub T seg → pGroupingElem d n seg = .ok v → CovL d T v
  pClosedEach : ∀ T acc segs v, (∀ sg ∈ segs, Sub T sg) → CovL d T acc → pClosedEach d n acc segs = .ok v → CovL d T v
  pGroupingElems : ∀ T acc segs v, (∀ sg ∈ segs, Sub T sg) → CovL d T acc.flatten → pGroupingElems d n acc segs = .ok v →
      CovL d T v.flatten
  pGroupingSets : ∀ T ts v r, Sub T ts → pGroupingSets d n ts = .ok (v, r) → CovL d T v.flatten
  pGroupBy : ∀ T ts v r, Sub T ts → pGroupBy d n ts = .ok (v, r) → CovL d T (ogbE v)
  pGroupCols : ∀ T ts v r, Sub T ts → pGroupCols d n ts = .ok (v, r) → CovL d T v
  pGroupSetsOpt : ∀ T ts v r, Sub T ts → pGroupSetsOpt d n ts = .ok (v, r) → CovL d T (v.getD []).flatten
  pWithTable : ∀ T ts v r, Sub T ts → pWithTable d n ts = .ok (v, r) → CovL d T (exprsW v)
  pWithBody : ∀ T name r1 v r, Sub T r1 → pWithBody d n name r1 = .ok (v, r) → CovL d T (exprsW v)
  pWithTables : ∀ T acc ts v r, Sub T ts → CovL d T (exprsWs acc) → pWithTables d n acc ts = .ok (v, r) → CovL d T (exprsWs v)
  pWith : ∀ T ts v r, Sub T ts → pWith d n ts = .ok (v, r) → CovL d T (exprsWs v)
  pSelectBody : ∀ T withs same outer inner v r, Sub T inner → CovL d T (exprsWs withs) →
      pSelectBody d n withs same outer inner = .ok (v, r) → CovL d T (exprsS v)
  pFromOpt : ∀ T ts v r, Sub T ts → pFromOpt d n ts = .ok (v, r) → CovL d T (exprsOF v)
  pSelectRest : ∀ T withs dist cols same outer inner v r, Sub T inner → CovL d T (exprsWs withs) → CovL d T (cols.map (·.1)) →
      pSelectRest d n withs dist cols same outer inner = .ok (v, r) → CovL d T (exprsS v)
  pSelectTail : ∀ T withs dist cols fr lats js ts v r, Sub T ts → CovL d T (exprsWs withs) → CovL d T (cols.map (·.1)) →
      CovL d T (exprsOF fr) → CovL d T (lats.map latE) → CovL d T (exprsJs js) →
      pSelectTail d n withs dist cols fr lats js ts = .ok (v, r) → CovL d T (exprsS v)
  pWhereGroup : ∀ T ts v r, Sub T ts → pWhereGroup d n ts = .ok (v, r) → CovL d T (v.1.toList ++ ogbE v.2)
  pHavingOrder : ∀ T ts v r, Sub T ts → pHavingOrder d n ts = .ok (v, r) → CovL d T (v.1.toList ++ oiEs v.2)
  pHiveClauses : ∀ T ts v r, Sub T ts → pHiveClauses d n ts = .ok (v, r) → CovL d T (oiEs v.1 ++ (v.2.1.getD [] ++ v.2.2.getD []))
  pSortBy : ∀ T ts v r, Sub T ts → pSortBy d n ts = .ok (v, r) → CovL d T (oiEs v)
  pByList : ∀ T kwd ts v r, Sub T ts → pByList d n kwd ts = .ok (v, r) → CovL d T (v.getD [])
  pLateral : ∀ T ts v r, Sub T ts → pLateral d n ts = .ok (v, r) → Cov d T (latE v)
  pLaterals : ∀ T same outer acc inner v r, Sub T inner → CovL d T (acc.map latE) → pLaterals d n same outer acc inner = .ok (v, r) →
      CovL d T (v.map latE)
  pSingle : ∀ T withs ts v r, Sub T ts → CovL d T (exprsWs withs) → pSingle d n withs ts = .ok (v, r) → CovL d T (exprsS v)
  pSingleParen : ∀ T withs outer stack inner v r, Sub T outer → Sub T inner → CovL d T (exprsWs withs) →
      pSingleParen d n withs outer stack inner = .ok (v, r) → CovL d T (exprsS v)
  pSelectStmt : ∀ T withs ts v r, Sub T ts → CovL d T (exprsOW withs) → pSelectStmt d n withs ts = .ok (v, r) → CovL d T (exprsQ v)
  pUnions : ∀ T withs acc ts v r, Sub T ts → CovL d T (exprsWs withs) → CovL d T (exprsUs acc) →
      pUnions d n withs acc ts = .ok (v, r) → CovL d T (exprsUs v)

end WNG
