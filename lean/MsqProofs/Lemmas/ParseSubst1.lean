import MsqProofs.Lemmas.ParseSubst0
/-!
# C06, parser half — part 1: "the same quoted regions, other payloads" on tokens, and the relations on runs

* `SrcQ s s'` — two (different) source texts of which the parser SEES nothing and STORES only payload texts: both begin with a quote
  character `'` `"` `` ` `` (or with `(`: the rendering of a bracket group that contains a replaced token), both or neither contain a
  non-ASCII character (the model answers `UNMODELLED` for `int()` of non-ASCII text), and the source and the source without back-quotes
  of both are in the payload set `P`.
* `QE t t'` — equal, or both leaves with the same marks and `SrcQ` sources — and, if they carry the NAME mark, neither source contains
  exactly one dot (`_parse_function_name_expression` / `_parse_table_name_expression` split the text of ONE name token at a dot: F-C06-5) —,
  or both bracket groups of the same kind and marks with pointwise related children (and, if the children differ, no NAME mark — the lexer
  never emits one on a group — and `SrcQ` renderings: the parser stores the rendering of a whole group in a few degenerate positions).
* `QER`, `QEX`, `qeOpt` — as `CER`, `CEX`, `ceOpt` of C09.
-/
set_option linter.unusedSimpArgs false
set_option linter.unusedVariables false
open Lex PM Ast
namespace PMQ
/-- the same for results without a cursor -/
def QEX {α : Type} (rv : α → α → Prop) (a b : Except Err α) : Prop :=
  match a, b with
  | .ok v, .ok v' => rv v v'
  | .error e, .error e' => e = e'
  | _, _ => False
@[simp, grind =] theorem qex_ok_ok {α : Type} (rv : α → α → Prop) (v v' : α) : QEX rv (.ok v) (.ok v') = rv v v' := by simp [QEX]
@[simp, grind =] theorem qex_err_err {α : Type} (rv : α → α → Prop) (e e' : Err) : QEX rv (.error e) (.error e') = (e = e') := by simp [QEX]
@[simp, grind =] theorem qex_ok_err {α : Type} (rv : α → α → Prop) (v : α) (e : Err) : QEX rv (.ok v) (.error e) = False := by simp [QEX]
@[simp, grind =] theorem qex_err_ok {α : Type} (rv : α → α → Prop) (v : α) (e : Err) : QEX rv (.error e) (.ok v) = False := by simp [QEX]

variable [S : PaySet]

abbrev p128 : Char → Bool := fun c => decide (c.toNat ≥ 128)
/-- the first character is a quote character or `(` -/
def opaqueHead : List Char → Bool
  | c :: _ => c == '\'' || c == '"' || c == '`' || c == '('
  | [] => false
/-- not exactly one dot -/
def dotOK (s : List Char) : Bool := (s.filter (· == '.')).length != 1

/-- two source texts the parser sees nothing of and stores only as payload texts -/
def SrcQ (s s' : List Char) : Prop :=
  opaqueHead s = true ∧ opaqueHead s' = true ∧ s.any p128 = s'.any p128 ∧
  PaySet.P (String.ofList s) = true ∧ PaySet.P (String.ofList s') = true ∧
  PaySet.P (unifyName (String.ofList s)) = true ∧ PaySet.P (unifyName (String.ofList s')) = true

mutual
/-- the two tokens differ at most inside quoted regions (payloads from the payload set) -/
def QE : Tok → Tok → Prop
  | .single s m, .single s' m' => m = m' ∧ (s = s' ∨ (SrcQ s s' ∧ (m &&& NAME = 0 ∨ (dotOK s = true ∧ dotOK s' = true))))
  | .group k cs m, .group k' cs' m' => k = k' ∧ m = m' ∧ QEL cs cs' ∧
      (cs = cs' ∨ (m &&& NAME = 0 ∧ SrcQ ('(' :: (sourceL cs ++ [')'])) ('(' :: (sourceL cs' ++ [')']))))
  | .single _ _, .group _ _ _ => False
  | .group _ _ _, .single _ _ => False
def QEL : List Tok → List Tok → Prop
  | [], [] => True
  | t :: ts, t' :: ts' => QE t t' ∧ QEL ts ts'
  | [], _ :: _ => False
  | _ :: _, [] => False
end
/-- lists of segments -/
def QELL : List (List Tok) → List (List Tok) → Prop
  | [], [] => True
  | a :: as, b :: bs => QEL a b ∧ QELL as bs
  | [], _ :: _ => False
  | _ :: _, [] => False

@[simp, grind =] theorem qel_nil_nil : QEL [] [] = True := by simp [QEL]
@[simp, grind =] theorem qel_cons_cons (t t' : Tok) (ts ts' : List Tok) : QEL (t :: ts) (t' :: ts') = (QE t t' ∧ QEL ts ts') := by simp [QEL]
@[simp, grind =] theorem qel_nil_cons (t : Tok) (ts : List Tok) : QEL [] (t :: ts) = False := by simp [QEL]
@[simp, grind =] theorem qel_cons_nil (t : Tok) (ts : List Tok) : QEL (t :: ts) [] = False := by simp [QEL]
@[simp, grind =] theorem qell_nil_nil : QELL [] [] = True := by simp [QELL]
@[simp, grind =] theorem qell_cons_cons (a b : List Tok) (as bs : List (List Tok)) : QELL (a :: as) (b :: bs) = (QEL a b ∧ QELL as bs) := by simp [QELL]
@[simp, grind =] theorem qell_nil_cons (a : List Tok) (as : List (List Tok)) : QELL [] (a :: as) = False := by simp [QELL]
@[simp, grind =] theorem qell_cons_nil (a : List Tok) (as : List (List Tok)) : QELL (a :: as) [] = False := by simp [QELL]

mutual
theorem QE.refl : ∀ t : Tok, QE t t
  | .single s m => by simp [QE]
  | .group k cs m => by simp [QE]; exact QEL.refl cs
theorem QEL.refl : ∀ ts : List Tok, QEL ts ts
  | [] => by simp
  | t :: ts => by simp; exact ⟨QE.refl t, QEL.refl ts⟩
end
theorem qel_nil_left {ts : List Tok} (h : QEL [] ts) : ts = [] := by cases ts <;> simp_all
theorem qel_nil_right {ts : List Tok} (h : QEL ts []) : ts = [] := by cases ts <;> simp_all
theorem qel_cons_left {t : Tok} {ts r : List Tok} (h : QEL (t :: ts) r) : ∃ t' ts', r = t' :: ts' ∧ QE t t' ∧ QEL ts ts' := by
  cases r with | nil => simp at h | cons t' ts' => simp at h; exact ⟨t', ts', rfl, h⟩
theorem qel_cons_right {t : Tok} {ts r : List Tok} (h : QEL r (t :: ts)) : ∃ t' ts', r = t' :: ts' ∧ QE t' t ∧ QEL ts' ts := by
  cases r with | nil => simp at h | cons t' ts' => simp at h; exact ⟨t', ts', rfl, h⟩
grind_pattern qel_nil_left => QEL [] ts
grind_pattern qel_nil_right => QEL ts []
theorem qel_length {ts ts' : List Tok} (h : QEL ts ts') : ts.length = ts'.length := by
  induction ts generalizing ts' with
  | nil => rw [qel_nil_left h]
  | cons t ts ih => cases ts' with | nil => simp at h | cons t' ts' => simp at h; simp [ih h.2]
grind_pattern qel_length => QEL ts ts', ts.length
theorem qel_isEmpty {ts ts' : List Tok} (h : QEL ts ts') : ts.isEmpty = ts'.isEmpty := by
  cases ts <;> cases ts' <;> simp_all
grind_pattern qel_isEmpty => QEL ts ts', ts.isEmpty
theorem qel_drop {ts ts' : List Tok} (h : QEL ts ts') (n : Nat) : QEL (ts.drop n) (ts'.drop n) := by
  induction n generalizing ts ts' with
  | zero => simpa using h
  | succ n ih =>
    cases ts <;> cases ts' <;> simp_all
grind_pattern qel_drop => QEL ts ts', ts.drop n
theorem qel_append {a a' b b' : List Tok} (h1 : QEL a a') (h2 : QEL b b') : QEL (a ++ b) (a' ++ b') := by
  induction a generalizing a' with
  | nil => rw [qel_nil_left h1]; simpa using h2
  | cons t a ih => cases a' with | nil => simp at h1 | cons t' a' => simp at h1 ⊢; exact ⟨h1.1, ih h1.2⟩
grind_pattern qel_append => QEL a a', QEL b b', a ++ b
theorem qell_append {a a' b b' : List (List Tok)} (h1 : QELL a a') (h2 : QELL b b') : QELL (a ++ b) (a' ++ b') := by
  induction a generalizing a' with
  | nil => cases a' <;> simp_all
  | cons t a ih => cases a' with | nil => simp at h1 | cons t' a' => simp at h1 ⊢; exact ⟨h1.1, ih h1.2⟩

/-! ### the relation on runs -/
/-- both runs fail with the same error, or both succeed with related values and related remaining cursors -/
def QER {α : Type} (rv : α → α → Prop) (a b : R α) : Prop :=
  match a, b with
  | .ok (v, r), .ok (v', r') => rv v v' ∧ QEL r r'
  | .error e, .error e' => e = e'
  | _, _ => False
@[simp, grind =] theorem qer_ok_ok {α : Type} (rv : α → α → Prop) (v v' : α) (r r' : List Tok) :
    QER rv (.ok (v, r)) (.ok (v', r')) = (rv v v' ∧ QEL r r') := by simp [QER]
@[simp, grind =] theorem qer_err_err {α : Type} (rv : α → α → Prop) (e e' : Err) : QER rv (.error e) (.error e') = (e = e') := by simp [QER]
@[simp, grind =] theorem qer_ok_err {α : Type} (rv : α → α → Prop) (p : α × List Tok) (e : Err) : QER rv (.ok p) (.error e) = False := by
  obtain ⟨v, r⟩ := p; simp [QER]
@[simp, grind =] theorem qer_err_ok {α : Type} (rv : α → α → Prop) (p : α × List Tok) (e : Err) : QER rv (.error e) (.ok p) = False := by
  obtain ⟨v, r⟩ := p; simp [QER]
/-- related optional (value, cursor) pairs: `pKwBody`, `pBetween`, `pInBody` -/
def qeOpt {α : Type} (rv : α → α → Prop) (a b : Option (α × List Tok)) : Prop :=
  match a, b with
  | some (v, r), some (v', r') => rv v v' ∧ QEL r r'
  | none, none => True
  | _, _ => False
@[simp, grind =] theorem qeOpt_some_some {α : Type} (rv : α → α → Prop) (v v' : α) (r r' : List Tok) :
    qeOpt rv (some (v, r)) (some (v', r')) = (rv v v' ∧ QEL r r') := by simp [qeOpt]
@[simp, grind =] theorem qeOpt_none_none {α : Type} (rv : α → α → Prop) : qeOpt rv none none = True := by simp [qeOpt]
@[simp, grind =] theorem qeOpt_some_none {α : Type} (rv : α → α → Prop) (p : α × List Tok) : qeOpt rv (some p) none = False := by
  obtain ⟨v, r⟩ := p; simp [qeOpt]
@[simp, grind =] theorem qeOpt_none_some {α : Type} (rv : α → α → Prop) (p : α × List Tok) : qeOpt rv none (some p) = False := by
  obtain ⟨v, r⟩ := p; simp [qeOpt]


end PMQ
