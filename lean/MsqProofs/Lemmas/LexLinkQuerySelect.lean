import MsqProofs.Lemmas.LexLinkQueryExpr2
/-!
# The lexer link for nested queries: SELECT clauses, FROM items (schema-qualified tables, derived tables), set operations

`GS d K s` — the record of a single SELECT text.  `CL K p us ts` — one optional clause: the printer's clause function `p` returns the
pieces `us` (lines), they lex to `ts` (`Seg '\n'`), and the kit's property holds of each.  `gs_select` assembles the clauses,
`gq_single` / `gq_union` build the query records.
-/
set_option linter.unusedVariables false
set_option linter.unusedSimpArgs false
namespace LexLink
open Lex Spec C05 C06 C09 Ast TP TS TQ

structure GS (d : Gen.D) (K : QKit) (s : Select) : Prop where
  lx : Lx (prS3L d s) (toksS3 d noX s)
  pr : PR.prS d s = .ok (String.ofList (prS3L d s))
  q : K.Q (prS3L d s)

/-- one clause of the SELECT printer -/
structure CL (K : QKit) (p : Except Err (List String)) (us : List (List Char)) (ts : List Tok) : Prop where
  seg : Seg '\n' us ts
  pr : p = .ok (us.map String.ofList)
  q : ∀ x ∈ us, K.Q x

section
variable {d : Gen.D} {K : QKit}

theorem nl : ('\n' : Char) = ' ' ∨ ('\n' : Char) = '\n' := Or.inr rfl

/-! ## aliases -/

theorem q_alias3 (K : QKit) {x : List Char} (hx : K.Q x) (a : Option String) (ha : ∀ y, a = some y → K.Q y.toList) : K.Q (x ++ aliasL a) := by
  cases a with
  | none => simpa [aliasL] using hx
  | some a =>
    have e : x ++ aliasL (some a) = x ++ ' ' :: ("AS".toList ++ ' ' :: a.toList) := by
      have e1 : (" AS " : String).toList = ' ' :: ("AS".toList ++ [' ']) := rfl
      simp [aliasL, e1]
    rw [e]; exact K.sp hx (K.sp (K.word "AS" (mem_cw (by simp [clauseWords]))) (ha a rfl))

theorem lv_alias {a : Option String} (h : Lv d K (leavesAlias a)) : optAliasLex a ∧ ∀ y, a = some y → K.Q y.toList := by
  cases a with
  | none => exact ⟨trivial, fun y hy => by cases hy⟩
  | some a =>
    simp only [Lv, leavesAlias, on_cons, on_nil, and_true] at h
    refine ⟨h.1, fun y hy => ?_⟩
    cases hy
    exact h.2 a (by simp [strs])

theorem pr_alias_some (x : List Char) (a : String) (h : aliasLex a) :
    toString (String.ofList x) ++ toString " AS " ++ toString (PR.quoteName a) = String.ofList (x ++ aliasL (some a)) :=
  ofList_eq (by rw [aliasSome _ a h, String.toList_ofList])
theorem pr_alias_none (x : List Char) : String.ofList x = String.ofList (x ++ aliasL none) := by simp [aliasL]

/-! ## select items -/

theorem prColsLL_eq (cols : List (Expr × Option String)) : prColsLL d cols = cols.map (fun c => prE3L d c.1 ++ aliasL c.2) := by
  induction cols with
  | nil => simp [prColsLL]
  | cons c cs ih => obtain ⟨e, a⟩ := c; simp [prColsLL, ih]

theorem cols_all (cols : List (Expr × Option String)) (hne : cols ≠ [])
    (h : ∀ c ∈ cols, GE d K c.1 ∧ optAliasLex c.2 ∧ ∀ y, c.2 = some y → K.Q y.toList) :
    Lx (joinLL [',', ' '] (prColsLL d cols)) (toksCols3 d noX cols) ∧
    PR.prCols d cols = .ok ((prColsLL d cols).map String.ofList) ∧ K.Q (joinLL [',', ' '] (prColsLL d cols)) := by
  refine ⟨?_, ?_, ?_⟩
  · cases cols with
    | nil => exact absurd rfl hne
    | cons c cs =>
      have item : ∀ x ∈ c :: cs, Lx (prE3L d x.1 ++ aliasL x.2) (toksE3 d noX x.1 ++ aliasToks x.2) :=
        fun x hx => lx_withAlias (h x hx).1.lx x.2 (h x hx).2.1
      have := lx_commaList (fun c : Expr × Option String => prE3L d c.1 ++ aliasL c.2) (fun c => toksE3 d noX c.1 ++ aliasToks c.2)
        (toksColsTail3 d noX) (by simp [toksColsTail3]) (by intro x xs; obtain ⟨e, a⟩ := x; simp [toksColsTail3]) cs c
        (item c (by simp)) (fun y hy => item y (by simp [hy]))
      obtain ⟨e, a⟩ := c
      exact Lx.congr this (by rw [prColsLL_eq]) (by simp [toksCols3])
  · clear hne
    induction cols with
    | nil => rfl
    | cons c cs ih =>
      obtain ⟨e, a⟩ := c
      have h1 := (h (e, a) (by simp)).1.pr
      have h2 := ih fun y hy => h y (by simp [hy])
      simp only at h1
      have hal := (h (e, a) (by simp)).2.1
      simp only [PR.prCols, h1, h2, bind, Except.bind, pure, Except.pure, prColsLL, List.map_cons]
      cases a with
      | none => simp only [← pr_alias_none]
      | some a => simp only [pr_alias_some _ a hal]
  · refine K.joinLL2 _ fun x hx => ?_
    rw [prColsLL_eq] at hx
    obtain ⟨c, hc, rfl⟩ := List.mem_map.mp hx
    exact q_alias3 K (h c hc).1.q c.2 (h c hc).2.2

/-! ## FROM items -/

structure GT (d : Gen.D) (K : QKit) (t : FromTable) : Prop where
  lx : Lx (tableL3 d t) (toksTable3 d noX t)
  pr : PR.prFrom d t = .ok (String.ofList (tableL3 d t))
  q : K.Q (tableL3 d t)

theorem tblTok_eq (s : Option String) (n : String) : tblTok s n = .single (tblL s n) Gen.mark_NAME := by
  cases s <;> rfl

theorem gt_table (s : Option String) (n : String) (a : Option String) (hl : optNameLex s ∧ nameLex n) (hq : K.item (.tbl s n))
    (ha : optAliasLex a) (hqa : ∀ y, a = some y → K.Q y.toList) : GT d K (.mk (.table s n) a) where
  lx := by
    have hn : Lx (tblL s n) [tblTok s n] := by
      rw [tblTok_eq]
      cases s with
      | none => exact lx_name n.toList fun x hx => (hl.2 x hx).1
      | some s =>
        have := lx_name (s.toList ++ '.' :: n.toList) (by
          intro x hx
          simp only [List.mem_append, List.mem_cons] at hx
          rcases hx with hx | rfl | hx
          · exact (hl.1 x hx).1
          · decide
          · exact (hl.2 x hx).1)
        exact Lx.congr this (by simp [tblL]) (by simp [tblL])
    exact Lx.congr (lx_withAlias hn a ha) (by simp [tableL3, refL]) (by simp [toksTable3, toksRef3])
  pr := by
    have hn : PR.tableNameSrc s n = String.ofList (tblL s n) := by
      apply ofList_eq
      cases s <;> simp [PR.tableNameSrc, tblL, toString, String.toList_append]
    simp only [PR.prFrom, PR.prTableRef, bind, Except.bind, pure, Except.pure, hn, tableL3, refL]
    cases a with
    | none => simp only [← pr_alias_none]
    | some a => simp only [pr_alias_some _ a ha]
  q := by
    have hn : K.Q (tblL s n) := by
      cases s with
      | none => exact K.bq (hq n (by simp [strs]))
      | some s =>
        have := K.bq (K.sep _ _ '.' K.s_dot (hq s (by simp [strs])) (hq n (by simp [strs])))
        simpa [tblL] using this
    exact q_alias3 K hn a hqa

theorem gt_sub (q : Query) (a : Option String) (hq : GQ d K q) (ha : optAliasLex a) (hqa : ∀ y, a = some y → K.Q y.toList) :
    GT d K (.mk (.sub q) a) where
  lx := Lx.congr (lx_withAlias (Lx.paren hq.lx) a ha) (by simp [tableL3, refL]) (by simp [toksTable3, toksRef3, grp_eq])
  pr := by
    have e : (s!"({String.ofList (prQL d q)})" : String) = String.ofList ('(' :: (prQL d q ++ [')'])) :=
      ofList_eq (by simp [toString, String.toList_append, String.toList_ofList])
    simp only [PR.prFrom, PR.prTableRef, hq.pr, Except.map, bind, Except.bind, pure, Except.pure, e, tableL3, refL]
    cases a with
    | none => simp only [← pr_alias_none]
    | some a => simp only [pr_alias_some _ a ha]
  q := q_alias3 K (K.paren hq.q) a hqa

theorem tablesLL_eq (ts : List FromTable) : tablesLL d ts = ts.map (tableL3 d) := by
  induction ts with
  | nil => simp [tablesLL]
  | cons t r ih => simp [tablesLL, ih]

theorem pr_fromList : ∀ (ts : List FromTable), (∀ t ∈ ts, GT d K t) → PR.prFromList d ts = .ok ((ts.map (tableL3 d)).map String.ofList)
  | [], _ => rfl
  | t :: r, h => by
    have h1 := (h t (by simp)).pr
    have h2 := pr_fromList r fun y hy => h y (by simp [hy])
    simp only [PR.prFromList, h1, h2, bind, Except.bind, pure, Except.pure, List.map_cons]

theorem cl_from (fr : Option (List FromTable)) (hne : fr ≠ some []) (h : ∀ l, fr = some l → ∀ t ∈ l, GT d K t) :
    CL K (PR.prOptFrom d fr) (fromLL d fr) (toksFrom3 d noX fr) := by
  cases fr with
  | none => exact ⟨Seg.nil _, rfl, fun x hx => by simp [fromLL] at hx⟩
  | some l =>
    cases l with
    | nil => exact absurd rfl hne
    | cons t ts =>
      have hall := h _ rfl
      have hlx := lx_commaList (tableL3 d) (toksTable3 d noX) (toksTablesTail3 d noX) (by simp [toksTablesTail3])
        (by intro x xs; simp [toksTablesTail3]) ts t (hall t (by simp)).lx (fun y hy => (hall y (by simp [hy])).lx)
      refine ⟨?_, ?_, ?_⟩
      · exact Seg.one _ (Lx.congr (lx_kwThen "FROM" (by simp [clauseWords]) hlx) (by simp [fromLL, tablesLL_eq]) (by simp [toksFrom3]))
      · simp only [PR.prOptFrom, pr_fromList (t :: ts) hall, Except.map, fromLL, List.map_cons, List.map_nil]
        refine congrArg Except.ok ?_
        congr 1
        apply ofList_eq
        have e1 : ("FROM " : String).toList = "FROM".toList ++ [' '] := rfl
        have e3 : (", " : String).toList = [',', ' '] := rfl
        rw [String.toList_append, toList_joinS, e1, e3, ← List.map_cons, ← List.map_cons, map_map_ofList, tablesLL_eq]
        simp only [List.append_assoc, List.singleton_append, List.map_cons]
      · intro x hx
        simp only [fromLL, List.mem_singleton] at hx
        subst hx
        refine K.sp (K.word "FROM" (mem_cw (by simp [clauseWords]))) (K.joinLL2 _ fun y hy => ?_)
        rw [tablesLL_eq, ← List.map_cons] at hy
        obtain ⟨t', ht', rfl⟩ := List.mem_map.mp hy
        exact (hall t' ht').q

/-! ## JOINs -/

theorem joinsLL_eq (js : List Join) : joinsLL d js = js.map (joinL3 d) := by
  induction js with
  | nil => simp [joinsLL]
  | cons j r ih => simp [joinsLL, ih]
theorem toksJoins3_eq (js : List Join) : toksJoins3 d noX js = (js.map (toksJoin3 d noX)).flatten := by
  induction js with
  | nil => simp [toksJoins3]
  | cons j r ih => simp [toksJoins3, ih]

structure GJ (d : Gen.D) (K : QKit) (j : Join) : Prop where
  lx : Lx (joinL3 d j) (toksJoin3 d noX j)
  pr : PR.prJoin d j = .ok (String.ofList (joinL3 d j))
  q : K.Q (joinL3 d j)

theorem q_joinWords (K : QKit) (ty : String) : K.Q (joinWordsL ty) := by
  unfold joinWordsL
  cases hf : Gen.joinTypes.find? (·.1 == ty) with
  | none => exact K.nil
  | some e =>
    have hm := List.mem_of_find?_eq_some hf
    exact K.joinLL1 ' ' K.s_sp _ (by intro x hx; obtain ⟨y, hy, rfl⟩ := List.mem_map.mp hx; exact K.jws e hm y hy)

theorem gj_join (ty : String) (t : FromTable) (rule : Option JoinRule) (hty : joinTyOK d ty = true) (ht : GT d K t)
    (hr : rule = none ∨ ∃ e, rule = some (.on e) ∧ GE d K e) : GJ d K (.mk ty t rule) where
  lx := by
    have hw := lx_joinWords d ty hty
    have htr : Lx (tableL3 d t ++ ruleL3 d rule) (toksTable3 d noX t ++ toksRule3 d noX rule) := by
      rcases hr with rfl | ⟨e, rfl, he⟩
      · simpa [ruleL3, toksRule3] using ht.lx
      · exact Lx.congr (Lx.sep ht.lx (lx_kwThen "ON" (by simp [clauseWords]) he.lx)) (by simp [ruleL3]) (by simp [toksRule3])
    exact Lx.congr (Lx.sep hw htr) (by simp [joinL3]) (by simp [toksJoin3])
  pr := by
    obtain ⟨tys, h1, h1l⟩ := wordsSrc_join d ty hty
    rcases hr with rfl | ⟨e, rfl, he⟩
    · simp only [PR.prJoin, h1, ht.pr, bind, Except.bind, pure, Except.pure]
      refine ok_ofList ?_
      simp [toString, String.toList_append, String.toList_ofList, h1l, joinL3, ruleL3]
    · simp only [PR.prJoin, h1, ht.pr, he.pr, bind, Except.bind, pure, Except.pure]
      refine ok_ofList ?_
      simp [toString, String.toList_append, String.toList_ofList, h1l, joinL3, ruleL3]
  q := by
    have hall : K.Q (tableL3 d t ++ ruleL3 d rule) := by
      rcases hr with rfl | ⟨e, rfl, he⟩
      · simpa [ruleL3] using ht.q
      · exact K.sp ht.q (K.sp (K.word "ON" (mem_cw (by simp [clauseWords]))) he.q)
    exact K.sp (q_joinWords K ty) hall

theorem pr_joinList : ∀ (js : List Join), (∀ j ∈ js, GJ d K j) → PR.prJoinList d js = .ok ((js.map (joinL3 d)).map String.ofList)
  | [], _ => rfl
  | j :: r, h => by
    have h1 := (h j (by simp)).pr
    have h2 := pr_joinList r fun y hy => h y (by simp [hy])
    simp only [PR.prJoinList, h1, h2, bind, Except.bind, pure, Except.pure, List.map_cons]

theorem cl_joins (js : List Join) (h : ∀ j ∈ js, GJ d K j) : CL K (PR.prJoinList d js) (joinsLL d js) (toksJoins3 d noX js) := by
  refine ⟨?_, ?_, ?_⟩
  · rw [joinsLL_eq, toksJoins3_eq]
    exact Seg.map nl _ _ js fun j hj => (h j hj).lx
  · rw [joinsLL_eq]; exact pr_joinList js h
  · intro x hx
    rw [joinsLL_eq] at hx
    obtain ⟨j, hj, rfl⟩ := List.mem_map.mp hx
    exact (h j hj).q

/-! ## WHERE / HAVING -/

theorem cl_opt (kw : String) (hkw : kw ∈ clauseWords) (o : Option Expr) (h : ∀ e, o = some e → GE d K e)
    (p : Option Expr → Except Err (List String)) (hnone : p none = pure [])
    (hsome : ∀ e, p (some e) = (PR.prE d e).map fun x => [kw ++ " " ++ x]) :
    CL K (p o) (optLL d kw o) (toksOptE3 d noX kw o) := by
  cases o with
  | none => exact ⟨Seg.nil _, by rw [hnone]; rfl, fun x hx => by simp [optLL] at hx⟩
  | some e =>
    have he := h e rfl
    refine ⟨Seg.one _ (Lx.congr (lx_kwThen kw hkw he.lx) (by simp [optLL]) (by simp [toksOptE3])), ?_, ?_⟩
    · rw [hsome, he.pr]
      simp only [Except.map, optLL, List.map_cons, List.map_nil]
      refine congrArg Except.ok ?_
      congr 1
      apply ofList_eq
      have e1 : (" " : String).toList = [' '] := rfl
      simp [String.toList_append, String.toList_ofList, e1]
    · intro x hx
      simp only [optLL, List.mem_singleton] at hx
      subst hx
      exact K.sp (K.word kw (mem_cw hkw)) he.q

theorem cl_where (o : Option Expr) (h : ∀ e, o = some e → GE d K e) : CL K (PR.prOptWhere d o) (optLL d "WHERE" o) (toksOptE3 d noX "WHERE" o) :=
  cl_opt "WHERE" (by simp [clauseWords]) o h (PR.prOptWhere d) rfl (fun e => by
    simp only [PR.prOptWhere]
    have : ∀ x : String, s!"WHERE {x}" = "WHERE" ++ " " ++ x := by
      intro x; apply String.toList_inj.mp; simp [toString, String.toList_append]
    simp only [this])
theorem cl_having (o : Option Expr) (h : ∀ e, o = some e → GE d K e) : CL K (PR.prOptHaving d o) (optLL d "HAVING" o) (toksOptE3 d noX "HAVING" o) :=
  cl_opt "HAVING" (by simp [clauseWords]) o h (PR.prOptHaving d) rfl (fun e => by
    simp only [PR.prOptHaving]
    have : ∀ x : String, s!"HAVING {x}" = "HAVING" ++ " " ++ x := by
      intro x; apply String.toList_inj.mp; simp [toString, String.toList_append]
    simp only [this])

/-! ## GROUP BY / ORDER BY / LIMIT -/

theorem cl_group (gb : Option GroupBy) (hsh : gb = none ∨ ∃ e es, gb = some (.mk (e :: es) none false false))
    (h : ∀ e es a b c, gb = some (.mk (e :: es) a b c) → ∀ x ∈ e :: es, GE d K x) :
    CL K (PR.prOptGroup d gb) (groupLL d gb) (toksGroup3 d noX gb) := by
  rcases hsh with rfl | ⟨e, es, rfl⟩
  · exact ⟨Seg.nil _, rfl, fun x hx => by simp [groupLL] at hx⟩
  · have hall := h e es _ _ _ rfl
    refine ⟨?_, ?_, ?_⟩
    · have := lx_kwThen "GROUP" (by simp [clauseWords]) (lx_kwThen "BY" (by simp [clauseWords]) (lx_args8 (e :: es) hall))
      exact Seg.one _ (Lx.congr this (by simp [groupLL, prList8LL]) (by simp [toksGroup3, toksArgs3]))
    · simp only [PR.prOptGroup, PR.prGroupBy, pr_list8 (e :: es) hall, bind, Except.bind, pure, Except.pure, Except.map, groupLL,
        List.map_cons, List.map_nil]
      refine congrArg Except.ok ?_
      congr 1
      apply ofList_eq
      simp [toString, String.toList_append, toList_joinS, map_map_ofList, prList8LL]
    · intro x hx
      simp only [groupLL, List.mem_singleton] at hx
      subst hx
      have := q_list8 (e :: es) hall
      simp only [prList8LL] at this
      exact K.sp (K.word "GROUP" (mem_cw (by simp [clauseWords]))) (K.sp (K.word "BY" (mem_cw (by simp [clauseWords]))) this)

structure GO (d : Gen.D) (K : QKit) (o : OrderItem) : Prop where
  lx : Lx (ordItemL3 d o) (toksOrdItem3 d noX o)
  pr : PR.prOrd d o = .ok (String.ofList (ordItemL3 d o))
  q : K.Q (ordItemL3 d o)

theorem go_item (e : Expr) (desc : Bool) (he : GE d K e) : GO d K (.mk e desc false false) where
  lx := by
    cases desc with
    | false => simpa [ordItemL3, toksOrdItem3] using he.w 8
    | true => exact Lx.congr (Lx.sep (he.w 8) (lx_cw "DESC" (by simp [clauseWords]))) (by simp [ordItemL3]) (by simp [toksOrdItem3])
  pr := by
    simp only [PR.prOrd, he.pr, Except.map, wrap_ofList]
    refine ok_ofList ?_
    cases desc <;> simp [toString, String.toList_append, String.toList_ofList, ordItemL3]
  q := by
    cases desc with
    | false => simpa [ordItemL3] using he.qw 8
    | true => simpa [ordItemL3] using K.sp (he.qw 8) (K.word "DESC" (mem_cw (by simp [clauseWords])))

theorem ordLL_eq (os : List OrderItem) : ordLL d os = os.map (ordItemL3 d) := by
  induction os with
  | nil => simp [ordLL]
  | cons o r ih => simp [ordLL, ih]
theorem pr_ordList : ∀ (os : List OrderItem), (∀ o ∈ os, GO d K o) → PR.prOrdList d os = .ok ((os.map (ordItemL3 d)).map String.ofList)
  | [], _ => rfl
  | o :: r, h => by
    have h1 := (h o (by simp)).pr
    have h2 := pr_ordList r fun y hy => h y (by simp [hy])
    simp only [PR.prOrdList, h1, h2, bind, Except.bind, pure, Except.pure, List.map_cons]

theorem cl_order (ob : Option (List OrderItem)) (hne : ob ≠ some []) (h : ∀ l, ob = some l → ∀ o ∈ l, GO d K o) :
    CL K (PR.prOptOrder d ob) (orderLL d ob) (toksOrder3 d noX ob) := by
  cases ob with
  | none => exact ⟨Seg.nil _, rfl, fun x hx => by simp [orderLL] at hx⟩
  | some l =>
    cases l with
    | nil => exact absurd rfl hne
    | cons o os =>
      have hall := h _ rfl
      have hlx := lx_commaList (ordItemL3 d) (toksOrdItem3 d noX) (toksOrdTail3 d noX) (by simp [toksOrdTail3])
        (by intro x xs; simp [toksOrdTail3]) os o (hall o (by simp)).lx (fun y hy => (hall y (by simp [hy])).lx)
      refine ⟨?_, ?_, ?_⟩
      · have := lx_kwThen "ORDER" (by simp [clauseWords]) (lx_kwThen "BY" (by simp [clauseWords]) hlx)
        exact Seg.one _ (Lx.congr this (by simp [orderLL, ordLL_eq]) (by simp [toksOrder3]))
      · simp only [PR.prOptOrder, pr_ordList (o :: os) hall, Except.map, orderLL, List.map_cons, List.map_nil]
        refine congrArg Except.ok ?_
        congr 1
        apply ofList_eq
        have e1 : ("ORDER BY " : String).toList = "ORDER".toList ++ ' ' :: ("BY".toList ++ [' ']) := rfl
        have e3 : (", " : String).toList = [',', ' '] := rfl
        rw [String.toList_append, toList_joinS, e1, e3, ← List.map_cons, ← List.map_cons, map_map_ofList, ordLL_eq]
        simp only [List.append_assoc, List.singleton_append, List.map_cons, List.cons_append, List.nil_append]
      · intro x hx
        simp only [orderLL, List.mem_singleton] at hx
        subst hx
        refine K.sp (K.word "ORDER" (mem_cw (by simp [clauseWords]))) (K.sp (K.word "BY" (mem_cw (by simp [clauseWords])))
          (K.joinLL2 _ fun y hy => ?_))
        rw [ordLL_eq, ← List.map_cons] at hy
        obtain ⟨o', ho', rfl⟩ := List.mem_map.mp hy
        exact (hall o' ho').q

theorem cl_limit (lm : Option (Int × Option Int)) (hlm : limitOK lm = true) :
    CL K (.ok ((limitC lm).map fun p => String.ofList p.1)) ((limitC lm).map (·.1)) (toksLimit lm) := by
  refine ⟨?_, ?_, ?_⟩
  · cases lm with
    | none => exact Seg.nil _
    | some pr =>
      obtain ⟨n, m⟩ := pr
      cases m with
      | none =>
        simp only [limitOK, limOK, Bool.and_eq_true, decide_eq_true_eq] at hlm
        exact Seg.one _ (lx_kwThen "LIMIT" (by simp [clauseWords]) (lx_intTok n hlm.1))
      | some m =>
        simp only [limitOK, limOK, Bool.and_eq_true, decide_eq_true_eq] at hlm
        exact Seg.one _ (lx_kwThen "LIMIT" (by simp [clauseWords]) (Lx.comma (lx_intTok m hlm.2.1) (lx_intTok n hlm.1.1)))
  · simp [List.map_map, Function.comp_def]
  · intro x hx
    cases lm with
    | none => simp [limitC] at hx
    | some pr =>
      obtain ⟨n, m⟩ := pr
      cases m with
      | none =>
        simp only [limitOK, limOK, Bool.and_eq_true, decide_eq_true_eq] at hlm
        simp only [limitC, List.map_cons, List.map_nil, List.mem_singleton] at hx
        subst hx
        exact K.sp (K.word "LIMIT" (mem_cw (by simp [clauseWords]))) (K.num n hlm.1)
      | some m =>
        simp only [limitOK, limOK, Bool.and_eq_true, decide_eq_true_eq] at hlm
        simp only [limitC, List.map_cons, List.map_nil, List.mem_singleton] at hx
        subst hx
        refine K.sp (K.word "LIMIT" (mem_cw (by simp [clauseWords]))) ?_
        have := K.sep _ _ ',' K.s_cm (K.num m hlm.2.1) (K.pre K.s_sp (K.num n hlm.1.1))
        simpa using this

/-! ## the SELECT -/

theorem CL.append {K : QKit} {p1 p2 : Except Err (List String)} {u1 u2 : List (List Char)} {t1 t2 : List Tok}
    (h1 : CL K p1 u1 t1) (h2 : CL K p2 u2 t2) : Seg '\n' (u1 ++ u2) (t1 ++ t2) ∧ ∀ x ∈ u1 ++ u2, K.Q x :=
  ⟨Seg.append nl h1.seg h2.seg, fun x hx => (List.mem_append.mp hx).elim (h1.q x) (h2.q x)⟩

/-- **the record of a single SELECT** from the records of its clauses -/
theorem gs_select (dist : Bool) (cols : List (Expr × Option String)) (fr : Option (List FromTable)) (js : List Join) (wh : Option Expr)
    (gb : Option GroupBy) (hv : Option Expr) (ob : Option (List OrderItem)) (lm : Option (Int × Option Int))
    (hcols : Lx (joinLL [',', ' '] (prColsLL d cols)) (toksCols3 d noX cols) ∧
      PR.prCols d cols = .ok ((prColsLL d cols).map String.ofList) ∧ K.Q (joinLL [',', ' '] (prColsLL d cols)))
    (cfr : CL K (PR.prOptFrom d fr) (fromLL d fr) (toksFrom3 d noX fr))
    (cjs : CL K (PR.prJoinList d js) (joinsLL d js) (toksJoins3 d noX js))
    (cwh : CL K (PR.prOptWhere d wh) (optLL d "WHERE" wh) (toksOptE3 d noX "WHERE" wh))
    (cgb : CL K (PR.prOptGroup d gb) (groupLL d gb) (toksGroup3 d noX gb))
    (chv : CL K (PR.prOptHaving d hv) (optLL d "HAVING" hv) (toksOptE3 d noX "HAVING" hv))
    (cob : CL K (PR.prOptOrder d ob) (orderLL d ob) (toksOrder3 d noX ob))
    (clm : CL K (.ok ((limitC lm).map fun p => String.ofList p.1)) ((limitC lm).map (·.1)) (toksLimit lm)) :
    GS d K (.mk (some []) dist cols fr [] js wh gb hv ob none none none lm) := by
  have e4 : ("DISTINCT " : String).toList = "DISTINCT".toList ++ [' '] := rfl
  -- the SELECT line
  have hsel : Lx ("SELECT".toList ++ ' ' :: ((if dist then "DISTINCT ".toList else []) ++ joinLL [',', ' '] (prColsLL d cols)))
      (opTok "SELECT" :: ((if dist then [opTok "DISTINCT"] else []) ++ toksCols3 d noX cols)) := by
    cases dist with
    | false =>
      simp only [Bool.false_eq_true, ↓reduceIte, List.nil_append]
      exact lx_kwThen "SELECT" (by simp [clauseWords]) hcols.1
    | true =>
      simp only [↓reduceIte]
      rw [e4]
      exact Lx.congr (lx_kwThen "SELECT" (by simp [clauseWords]) (lx_kwThen "DISTINCT" (by simp [clauseWords]) hcols.1))
        (by simp only [List.append_assoc, List.singleton_append]) rfl
  have qsel : K.Q ("SELECT".toList ++ ' ' :: ((if dist then "DISTINCT ".toList else []) ++ joinLL [',', ' '] (prColsLL d cols))) := by
    cases dist with
    | false =>
      simp only [Bool.false_eq_true, ↓reduceIte, List.nil_append]
      exact K.sp (K.word "SELECT" (mem_cw (by simp [clauseWords]))) hcols.2.2
    | true =>
      simp only [↓reduceIte]
      rw [e4]
      have := K.sp (K.word "SELECT" (mem_cw (by simp [clauseWords]))) (K.sp (K.word "DISTINCT" (mem_cw (by simp [clauseWords]))) hcols.2.2)
      simpa only [List.append_assoc, List.singleton_append] using this
  -- the other lines
  have r6 := CL.append cob clm
  have s5 := Seg.append nl chv.seg r6.1
  have s4 := Seg.append nl cgb.seg s5
  have s3 := Seg.append nl cwh.seg s4
  have s2 := Seg.append nl cjs.seg s3
  have s1 := Seg.append nl cfr.seg s2
  have s0 := Seg.cons nl hsel s1
  refine ⟨?_, ?_, ?_⟩
  · exact Lx.congr (s0.lx (List.cons_ne_nil _ _)) (by simp only [prS3L]) (by simp only [toksS3, List.cons_append, List.append_assoc])
  · have e_guard : PR.prSGuard d [] none none none = .ok () := by simp [PR.prSGuard]
    have e_hive : PR.prHive d none none none = .ok [] := by
      unfold PR.prHive; split <;> rfl
    have hlim : ∀ pr, [(PR.limitSrc pr).toList] = (limitC (some pr)).map (·.1) := by
      intro pr
      have := congrArg (List.map String.toList) (limit_eq (some pr))
      simpa [List.map_map, Function.comp_def, String.toList_ofList] using this
    have hlim0 : (limitC none).map (·.1) = [] := rfl
    have e0 : ("" : String).toList = [] := rfl
    have hhead : (PR.joinS " " ("SELECT" :: ((if dist = true then ["DISTINCT"] else []) ++
        [PR.joinS ", " (List.map String.ofList (prColsLL d cols))]))).toList =
        "SELECT".toList ++ ' ' :: ((if dist then "DISTINCT ".toList else []) ++ joinLL [',', ' '] (prColsLL d cols)) := by
      rw [toList_joinS]
      cases dist <;> simp [joinLL, toList_joinS, map_map_ofList]
    rw [PR.prS_eq]
    cases lm <;>
    · simp only [PR.prWithPrefix, List.isEmpty_nil, if_true, PR.ok_bind, e_guard, PR.prSRest, hcols.2.1, cfr.pr, PR.prLateralList, cjs.pr,
        cwh.pr, cgb.pr, chv.pr, cob.pr, e_hive, bind, Except.bind, pure, Except.pure]
      refine ok_ofList ?_
      rw [String.toList_append, e0, List.nil_append, toList_joinS]
      simp only [prS3L]
      congr 1
      simp only [List.map_append, List.map_cons, List.map_nil, map_map_ofList, List.append_assoc, List.cons_append, List.nil_append,
        hlim, hlim0, hhead, List.append_nil]
  · simp only [prS3L]
    refine K.joinLL1 '\n' K.s_nl _ fun x hx => ?_
    simp only [List.mem_cons, List.mem_append] at hx
    rcases hx with rfl | hx | hx | hx | hx | hx | hx | hx
    · exact qsel
    · exact cfr.q x hx
    · exact cjs.q x hx
    · exact cwh.q x hx
    · exact cgb.q x hx
    · exact chv.q x hx
    · exact cob.q x hx
    · exact clm.q x hx

/-! ## queries -/

theorem gq_single (s : Select) (h : GS d K s) : GQ d K (.single s) where
  lx := by simpa [prQL, toksQ] using h.lx
  pr := by simpa [PR.prQ, prQL] using h.pr
  q := by simpa [prQL] using h.q

theorem lx_unionWords (ty : String) (h : unionTyOK d ty = true) : Lx (unionWordsL ty) (unionWords ty) := by
  cases hf : Gen.unionTypes.find? (·.1 == ty) with
  | none =>
    simp only [unionTyOK, unionWords, hf, Bool.and_eq_true] at h
    exact absurd h.2 (by simp)
  | some e =>
    have hm := List.mem_of_find?_eq_some hf
    have hw := (List.all_eq_true.mp union_words_lex) e hm
    simp only [List.all_eq_true] at hw
    simp only [unionWordsL, unionWords, hf]
    cases he : e.2 with
    | nil =>
      simp only [unionTyOK, unionWords, hf, he, List.map_nil, Bool.and_eq_true] at h
      exact absurd h.2 (by simp)
    | cons w ws =>
      refine lx_wordList ws w fun v hv => ?_
      rw [opTok_eq]; exact lx_of_is (hw v (by rw [he]; exact hv))

theorem wordsSrc_union (ty : String) (h : unionTyOK d ty = true) :
    ∃ s, PR.wordsSrc Gen.unionTypes ty = .ok s ∧ s.toList = unionWordsL ty := by
  cases hf : Gen.unionTypes.find? (·.1 == ty) with
  | none =>
    simp only [unionTyOK, unionWords, hf, Bool.and_eq_true] at h
    exact absurd h.2 (by simp)
  | some e =>
    refine ⟨PR.joinS " " e.2, by simp [PR.wordsSrc, hf], ?_⟩
    rw [toList_joinS]
    simp only [unionWordsL, hf]
    rfl

theorem q_unionWords (K : QKit) (ty : String) : K.Q (unionWordsL ty) := by
  unfold unionWordsL
  cases hf : Gen.unionTypes.find? (·.1 == ty) with
  | none => exact K.nil
  | some e =>
    have hm := List.mem_of_find?_eq_some hf
    exact K.joinLL1 ' ' K.s_sp _ (by intro x hx; obtain ⟨y, hy, rfl⟩ := List.mem_map.mp hx; exact K.uws e hm y hy)

theorem un_all : ∀ (us : List (String × Select)), (∀ p ∈ us, unionTyOK d p.1 = true ∧ GS d K p.2) →
    Seg '\n' (prUnLL d us) (toksUn d noX us) ∧ PR.prUnions d us = .ok ((prUnLL d us).map String.ofList) ∧ ∀ x ∈ prUnLL d us, K.Q x
  | [], _ => ⟨Seg.nil _, rfl, fun x hx => by simp [prUnLL] at hx⟩
  | (t, s) :: r, h => by
    have ht := (h (t, s) (by simp)).1
    have hs := (h (t, s) (by simp)).2
    simp only at ht hs
    obtain ⟨ih1, ih2, ih3⟩ := un_all r fun y hy => h y (by simp [hy])
    refine ⟨?_, ?_, ?_⟩
    · have := Seg.cons nl (lx_unionWords (d := d) t ht) (Seg.cons nl hs.lx ih1)
      simpa [prUnLL, toksUn] using this
    · obtain ⟨u, hu, hul⟩ := wordsSrc_union (d := d) t ht
      simp only [PR.prUnions, hu, hs.pr, ih2, bind, Except.bind, pure, Except.pure, prUnLL, List.map_cons]
      rw [← hul, String.ofList_toList]
    · intro x hx
      simp only [prUnLL, List.mem_cons] at hx
      rcases hx with rfl | rfl | hx
      · exact q_unionWords K t
      · exact hs.q
      · exact ih3 x hx

theorem gq_union (s : Select) (us : List (String × Select)) (hs : GS d K s) (hus : ∀ p ∈ us, unionTyOK d p.1 = true ∧ GS d K p.2) :
    GQ d K (.union (some []) s us) := by
  obtain ⟨u1, u2, u3⟩ := un_all us hus
  refine ⟨?_, ?_, ?_⟩
  · have := (Seg.cons nl hs.lx u1).lx (by simp)
    simpa [prQL, toksQ] using this
  · simp only [PR.prQ, PR.prWithPrefix, List.isEmpty_nil, if_true, hs.pr, u2, bind, Except.bind, pure, Except.pure, prQL]
    refine ok_ofList ?_
    have e0 : ("" : String).toList = [] := rfl
    rw [String.toList_append, e0, List.nil_append, toList_joinS]
    simp [map_map_ofList, String.toList_ofList]
  · simp only [prQL]
    refine K.joinLL1 '\n' K.s_nl _ fun x hx => ?_
    rcases List.mem_cons.mp hx with rfl | hx
    · exact hs.q
    · exact u3 x hx

end
end LexLink
