import MsqProofs.Lemmas.LexLinkDdl2
/-!
# The printed CREATE TABLE text and the two pre-passes

* `allP_createMy` / `allP_createHive` : every character of `createL d c` is left alone by the lexer's own pre-pass (TAB / CR / U+3000);
* `occ_createHive` : `==` does not occur in the Hive rendering unless a payload contains it (`NoEqC`), so the Hive dialect pre-pass
  (`==` → `=`, a whole-text replacement — findings F-C06-1/2) leaves the text alone.
-/
set_option linter.unusedVariables false
set_option linter.unusedSimpArgs false
namespace LD
open Lex Spec C05 C06 C09 Ast TP TS TD LexLink

/-! ## the lexer's pre-pass -/

def PAll (us : P) : Prop := ∀ u ∈ us, allP u = true
theorem PAll.nil : PAll [] := fun _ h => by cases h
theorem PAll.cons {u : List Char} {us : P} (h : allP u = true) (hs : PAll us) : PAll (u :: us) := by
  intro x hx; rcases List.mem_cons.mp hx with rfl | hx; exact h; exact hs x hx
theorem PAll.append {us vs : P} (h1 : PAll us) (h2 : PAll vs) : PAll (us ++ vs) := by
  intro x hx; rcases List.mem_append.mp hx with hx | hx; exact h1 x hx; exact h2 x hx
theorem PAll.one {u : List Char} (h : allP u = true) : PAll [u] := PAll.cons h PAll.nil

theorem allP_app {a b : List Char} (ha : allP a = true) (hb : allP b = true) : allP (a ++ b) = true := by
  simp only [allP, List.all_append, Bool.and_eq_true] at ha hb ⊢; exact ⟨ha, hb⟩
theorem allP_cons {c : Char} {b : List Char} (hc : plain c = true) (hb : allP b = true) : allP (c :: b) = true := by
  simp only [allP, List.all_cons, Bool.and_eq_true] at hb ⊢; exact ⟨hc, hb⟩
theorem allP_tail {a : List Char} {us : P} (ha : allP a = true) (hs : PAll us) : allP (a ++ tailL us) = true :=
  allP_app ha (allP_tailL us hs)

theorem pall_words (ws : List String) (h : ∀ w ∈ ws, w ∈ ddlWords) : PAll (wordsP ws) := by
  intro u hu
  simp only [wordsP, List.mem_map] at hu
  obtain ⟨w, hw, rfl⟩ := hu
  exact allP_w w (h w hw)
theorem pall_flag (b : Bool) (ws : List String) (h : ∀ w ∈ ws, w ∈ ddlWords) : PAll (flagP b ws) := by
  cases b
  · exact PAll.nil
  · exact pall_words ws h
theorem pall_src (kws : List String) (h : ∀ w ∈ kws, w ∈ ddlWords) (o : Option String) (ho : optSrcLex o) : PAll (srcP kws o) := by
  cases o with
  | none => exact PAll.nil
  | some s => exact PAll.append (pall_words kws h) (PAll.one (allP_src s ho))
theorem allP_paren {a : List Char} (h : allP a = true) : allP (parenL a) = true :=
  allP_cons (by decide) (allP_app h (allP_cons (by decide) rfl))
theorem allP_name (n : String) (h : nameLex n) : allP n.toList = true := List.all_eq_true.mpr fun x hx => (h x hx).2
theorem allP_bq (n : String) (h : nameLex n) : allP (bqL n) = true :=
  allP_cons (by decide) (allP_app (allP_name n h) (allP_cons (by decide) rfl))
theorem allP_lit (s : String) (h : s.toList.all plain = true) : allP s.toList = true := h

section
variable (d : Gen.D)
theorem allP_type (t : ColType) (hf : typeOK d t = true) (hl : LeafType d t) : allP (typeL d t) = true := by
  obtain ⟨tn, ps⟩ := t
  have hn := plainL_allP tn.toList hl.1
  cases ps with
  | none => simpa [typeL] using hn
  | some ps =>
    simp only [typeOK, Bool.and_eq_true, Bool.not_eq_eq_eq_not, Bool.not_true, List.all_eq_true] at hf
    simp only [typeL, hf.1.1, Bool.false_eq_true, if_false]
    refine allP_app hn (allP_paren (allP_joinLL [','] (by decide) _ ?_))
    intro x hx
    simp only [List.mem_map] at hx
    obtain ⟨e, he, rfl⟩ := hx
    exact allP_key d e (hf.1.2 e he) (hl.2 ps rfl e he)

theorem pall_gen (g : Option GenCol) (hf : genOK d g = true) (hl : genLeaf d g) : PAll (genP d g) := by
  cases g with
  | none => exact PAll.nil
  | some g =>
    obtain ⟨e, m⟩ := g
    cases m with
    | none => simp [genOK] at hf
    | some m =>
      simp only [genOK, Bool.and_eq_true] at hf
      exact PAll.append (pall_words _ (by simp [ddlWords])) (PAll.cons (allP_paren (allP_key d e hf.1 hl))
        (PAll.one (allP_src m (mode_src m hf.2))))
theorem pall_dflt (o : Option Expr) (hf : optFragE d o = true) (hl : optLeaf d o) : PAll (dfltP d o) := by
  cases o with
  | none => exact PAll.nil
  | some e => exact PAll.cons (allP_w "DEFAULT" (by simp [ddlWords])) (PAll.one (allP_key d e hf hl))
theorem pall_onUp (o : Option Expr) (hf : optFragE d o = true) (hl : optLeaf d o) : PAll (onUpP d o) := by
  cases o with
  | none => exact PAll.nil
  | some e =>
    exact PAll.cons (allP_w "ON" (by simp [ddlWords])) (PAll.cons (allP_w "UPDATE" (by simp [ddlWords])) (PAll.one (allP_key d e hf hl)))

theorem pall_attrs (c : DefCol) (hf : TD.colOK d c = true) (hl : LeafCol d c) : PAll (attrsP d c) := by
  simp only [TD.colOK, Bool.and_eq_true] at hf
  have hc := pall_src ["COMMENT"] (by simp [ddlWords]) c.comment hl.comment
  cases hd : d == Gen.D.MYSQL with
  | true =>
    simp only [hd, if_true, Bool.and_eq_true] at hf
    simp only [attrsP, hd, if_true, myAttrsP]
    exact PAll.append (pall_flag _ _ (by simp [ddlWords])) (PAll.append (pall_flag _ _ (by simp [ddlWords]))
      (PAll.append (pall_src _ (by simp [ddlWords]) _ hl.charset) (PAll.append (pall_src _ (by simp [ddlWords]) _ hl.collate)
      (PAll.append (pall_gen d _ hf.2.2 hl.gen) (PAll.append (pall_flag _ _ (by simp [ddlWords])) (PAll.append (pall_flag _ _ (by simp [ddlWords]))
      (PAll.append (pall_flag _ _ (by simp [ddlWords])) (PAll.append (pall_dflt d _ hf.2.1.1 hl.dflt) (PAll.append (pall_onUp d _ hf.2.1.2 hl.onUp) hc)))))))))
  | false =>
    simp only [attrsP, hd, Bool.false_eq_true, if_false]
    exact hc

theorem allP_defCol (c : DefCol) (hf : TD.colOK d c = true) (hl : LeafCol d c) : allP (defColL d c) = true := by
  have ht : typeOK d c.type = true := by simp only [TD.colOK, Bool.and_eq_true] at hf; exact hf.1.2
  exact allP_tail (allP_bq c.name hl.name) (PAll.cons (allP_type d c.type ht hl.type) (pall_attrs d c hf hl))
end

theorem allP_idxCol (c : IndexCol) (hf : idxColOK c = true) (hl : nameLex c.name) : allP (idxColL c) = true := by
  obtain ⟨n, ml⟩ := c
  cases ml with
  | none => exact allP_bq n hl
  | some k =>
    simp only [idxColOK, Bool.and_eq_true] at hf
    exact allP_app (allP_bq n hl) (allP_paren (allP_numeral k (intOK_nonneg k hf.2)))

theorem allP_kind (k : IndexKind) : allP (kindL k) = true := by cases k <;> decide +kernel

theorem allP_eq {a b : List Char} (ha : allP a = true) (hb : allP b = true) : allP (a ++ '=' :: b) = true :=
  allP_app ha (allP_cons (by decide) hb)

theorem pall_optInt (kw : String) (hkw : kw ∈ ddlWords) (o : Option Int) (ho : optIntOK o = true) : PAll (optIntP kw o) := by
  cases o with
  | none => exact PAll.nil
  | some n => exact PAll.one (allP_eq (allP_w kw hkw) (allP_numeral n (intOK_nonneg n ho)))

theorem allP_index (i : Index) (hc : i.cols.all idxColOK = true) (hk : optIntOK i.keyBlockSize = true) (hl : LeafIdx i) :
    allP (indexL i) = true := by
  simp only [List.all_eq_true] at hc
  have hn : PAll (idxNameP i.name) := by
    cases hnm : i.name with
    | none => exact PAll.nil
    | some n => exact PAll.one (allP_src n (by have := hl.name; rw [hnm] at this; exact this))
  have hg : allP (parenL (joinLL [','] (i.cols.map idxColL))) = true := by
    refine allP_paren (allP_joinLL [','] (by decide) _ ?_)
    intro x hx
    simp only [List.mem_map] at hx
    obtain ⟨c, hm, rfl⟩ := hx
    exact allP_idxCol c (hc c hm) (hl.cols c hm)
  exact allP_tail (allP_kind i.kind) (PAll.append hn (PAll.cons hg (PAll.append (pall_src _ (by simp [ddlWords]) _ hl.using_)
    (PAll.append (pall_src _ (by simp [ddlWords]) _ hl.comment) (pall_optInt "KEY_BLOCK_SIZE" (by simp [ddlWords]) _ hk)))))

theorem allP_names (ns : List String) (h : ∀ n ∈ ns, srcLex n) : allP (namesL ns) = true := by
  refine allP_paren (allP_joinLL [',', ' '] (by decide) _ ?_)
  intro x hx
  simp only [List.mem_map] at hx
  obtain ⟨n, hn, rfl⟩ := hx
  exact allP_src n (h n hn)

theorem pall_act (bw : String) (hb : bw ∈ ddlWords) (o : Option String) (ho : actOK o = true) : PAll (actP bw o) := by
  cases o with
  | none => exact PAll.nil
  | some s =>
    refine PAll.cons (allP_w "ON" (by simp [ddlWords])) (PAll.cons (allP_w bw hb) (PAll.one ?_))
    simp only [actOK, List.contains_eq_mem, List.mem_cons, List.mem_nil_iff, or_false, decide_eq_true_eq] at ho
    rcases ho with rfl | rfl | rfl | rfl <;> decide +kernel

theorem allP_fk (k : ForeignKey) (hf : fkOK k = true) (hl : LeafFk k) : allP (fkL k) = true := by
  simp only [fkOK, Bool.and_eq_true] at hf
  have w : ∀ k : String, k ∈ ddlWords → allP k.toList = true := allP_w
  exact allP_tail (w "CONSTRAINT" (by simp [ddlWords])) (PAll.cons (allP_src _ hl.constraint) (PAll.cons (w "FOREIGN" (by simp [ddlWords]))
    (PAll.cons (w "KEY" (by simp [ddlWords])) (PAll.cons (allP_names _ hl.slave) (PAll.cons (w "REFERENCES" (by simp [ddlWords]))
      (PAll.cons (allP_src _ hl.master) (PAll.cons (allP_names _ hl.masterCols)
        (PAll.append (pall_act "DELETE" (by simp [ddlWords]) _ hf.1.2) (pall_act "UPDATE" (by simp [ddlWords]) _ hf.2)))))))))

theorem pall_optEq (pre : List String) (hpre : ∀ w ∈ pre, w ∈ ddlWords) (kw : String) (hkw : kw ∈ ddlWords) (o : Option String)
    (ho : optSrcLex o) : PAll (optEqP pre kw o) := by
  cases o with
  | none => exact PAll.nil
  | some s => exact PAll.append (pall_words pre hpre) (PAll.one (allP_eq (allP_w kw hkw) (allP_src s ho)))

theorem pall_myOpts (c : CreateTable) (hai : optIntOK c.autoIncrement = true) (hl : LeafC .MYSQL c) : PAll (myOptsP c) :=
  PAll.append (pall_optEq [] (by simp) "ENGINE" (by simp [ddlWords]) _ hl.engine)
    (PAll.append (pall_optInt "AUTO_INCREMENT" (by simp [ddlWords]) _ hai)
    (PAll.append (pall_optEq ["DEFAULT"] (by simp [ddlWords]) "CHARSET" (by simp [ddlWords]) _ hl.charset)
    (PAll.append (pall_optEq [] (by simp) "COLLATE" (by simp [ddlWords]) _ hl.collate)
    (PAll.append (pall_optEq [] (by simp) "ROW_FORMAT" (by simp [ddlWords]) _ hl.rowFormat)
    (PAll.append (pall_optEq [] (by simp) "STATS_PERSISTENT" (by simp [ddlWords]) _ hl.stats)
      (pall_optEq [] (by simp) "COMMENT" (by simp [ddlWords]) _ hl.comment))))))

theorem allP_prop (p : ConfigStr) (hl : LeafProp p) : allP (propL p) = true :=
  allP_eq (allP_src _ hl.1) (allP_src _ hl.2)

theorem allP_group (ls : P) (h : PAll ls) : allP (groupL ls) = true := by
  refine allP_paren (allP_cons (by decide) (allP_app (allP_joinLL [',', '\n'] (by decide) _ ?_) (allP_cons (by decide) rfl)))
  intro x hx
  simp only [List.mem_map] at hx
  obtain ⟨l, hl, rfl⟩ := hx
  exact allP_cons (by decide) (allP_cons (by decide) (h l hl))

theorem pall_map {α : Type} (f : α → List Char) (l : List α) (h : ∀ x ∈ l, allP (f x) = true) : PAll (l.map f) := by
  intro u hu
  simp only [List.mem_map] at hu
  obtain ⟨x, hx, rfl⟩ := hu
  exact h x hx

theorem allP_tbl (c : CreateTable) (h1 : optNameLex c.table.schema) (h2 : nameLex c.table.name) : allP (tblL c.table) = true :=
  allP_bq _ (nameLex_tbl c.table h1 h2)

/-- every character of the MySQL rendering is left alone by the lexer's pre-pass -/
theorem allP_createMy (c : CreateTable) (hf : FragCreate .MYSQL c = true) (hl : LeafC .MYSQL c) : allP (createL .MYSQL c) = true := by
  have hm : (Gen.D.MYSQL == Gen.D.MYSQL) = true := rfl
  simp only [FragCreate, hm, if_true, Bool.and_eq_true, List.all_eq_true] at hf
  obtain ⟨⟨⟨htbl, hcols⟩, _⟩, ⟨⟨⟨⟨⟨⟨⟨⟨⟨⟨⟨⟨⟨hfk, hpk⟩, huk⟩, hkey⟩, hft⟩, hai⟩, _⟩, _⟩, _⟩, _⟩, _⟩, _⟩, _⟩, _⟩⟩ := hf
  have hidx : ∀ (k : IndexKind) (l : List Index), (∀ i ∈ l, idxOK k i = true) → (∀ i ∈ l, LeafIdx i) → PAll (l.map indexL) :=
    fun k l h1 h2 => pall_map indexL l fun i hi => allP_index i (idxOK_parts (h1 i hi)).1 (idxOK_parts (h1 i hi)).2 (h2 i hi)
  have hpkl : PAll ((optList c.primaryKey).map indexL) := by
    cases hp : c.primaryKey with
    | none => exact PAll.nil
    | some i =>
      rw [hp] at hpk
      simp only [optIdxOK] at hpk
      exact PAll.one (allP_index i (idxOK_parts hpk).1 (idxOK_parts hpk).2 (hl.pk i hp))
  have hlines : PAll (linesL .MYSQL c) := by
    simp only [linesL, hm, if_true]
    exact PAll.append (pall_map _ _ fun x hx => allP_defCol .MYSQL x (hcols x hx) (hl.cols x hx))
      (PAll.append hpkl (PAll.append (hidx .unique _ huk hl.uk) (PAll.append (hidx .normal _ hkey hl.key) (PAll.append (hidx .fulltext _ hft hl.ft)
        (pall_map fkL _ fun k hk => allP_fk k (hfk k hk) (hl.fk k hk))))))
  simp only [createL, hm, if_true]
  exact allP_tail (allP_w "CREATE" (by simp [ddlWords])) (PAll.cons (allP_w "TABLE" (by simp [ddlWords]))
    (PAll.append (pall_flag _ _ (by simp [ddlWords])) (PAll.append (PAll.cons (allP_tbl c hl.schema hl.table) (PAll.one (allP_group _ hlines)))
      (pall_myOpts c hai hl))))

theorem pall_hiveOpts (c : CreateTable) (hp : ∀ x ∈ c.partitionedBy, TD.colOK .HIVE x = true) (hl : LeafC .HIVE c) : PAll (hiveOptsP .HIVE c) := by
  have hpart : PAll (partP .HIVE c.partitionedBy) := by
    cases he : c.partitionedBy.isEmpty with
    | true => simp only [partP, he, if_true]; exact PAll.nil
    | false =>
      simp only [partP, he, Bool.false_eq_true, if_false]
      refine PAll.cons (allP_w "PARTITIONED" (by simp [ddlWords])) (PAll.cons (allP_w "BY" (by simp [ddlWords])) (PAll.one
        (allP_paren (allP_joinLL [',', ' '] (by decide) _ (pall_map _ _ fun x hx => allP_defCol .HIVE x (hp x hx) (hl.parts x hx))))))
  have hprops : PAll (propsP c.tblproperties) := by
    cases he : c.tblproperties.isEmpty with
    | true => simp only [propsP, he, if_true]; exact PAll.nil
    | false =>
      simp only [propsP, he, Bool.false_eq_true, if_false]
      exact PAll.cons (allP_w "TBLPROPERTIES" (by simp [ddlWords])) (PAll.one
        (allP_paren (allP_joinLL [',', ' '] (by decide) _ (pall_map _ _ fun p hp => allP_prop p (hl.props p hp)))))
  exact PAll.append (pall_src _ (by simp [ddlWords]) _ hl.comment) (PAll.append hpart
    (PAll.append (pall_src _ (by simp [ddlWords]) _ hl.serde) (PAll.append (pall_src _ (by simp [ddlWords]) _ hl.delimited)
    (PAll.append (pall_src _ (by simp [ddlWords]) _ hl.inputformat) (PAll.append (pall_flag _ _ (by simp [ddlWords]))
    (PAll.append (pall_src _ (by simp [ddlWords]) _ hl.outputformat) (PAll.append (pall_src _ (by simp [ddlWords]) _ hl.location) hprops)))))))

/-- every character of the Hive rendering is left alone by the lexer's pre-pass -/
theorem allP_createHive (c : CreateTable) (hf : FragCreate .HIVE c = true) (hl : LeafC .HIVE c) : allP (createL .HIVE c) = true := by
  have hm : (Gen.D.HIVE == Gen.D.MYSQL) = false := rfl
  simp only [FragCreate, hm, Bool.false_eq_true, if_false, Bool.and_eq_true, List.all_eq_true] at hf
  have hcols := hf.1.1.2
  have hparts := hf.2.1.1.1.1.1.1.1.1.2
  have hlines : PAll (linesL .HIVE c) := by
    simp only [linesL, hm, Bool.false_eq_true, if_false, List.append_nil]
    exact pall_map _ _ fun x hx => allP_defCol .HIVE x (hcols x hx) (hl.cols x hx)
  simp only [createL, hm, Bool.false_eq_true, if_false]
  exact allP_cons (by decide) (allP_tail (allP_w "CREATE" (by simp [ddlWords])) (PAll.cons (allP_w "TABLE" (by simp [ddlWords]))
    (PAll.append (pall_flag _ _ (by simp [ddlWords])) (PAll.append (PAll.one (allP_app (allP_tbl c hl.schema hl.table) (allP_group _ hlines)))
      (pall_hiveOpts c hparts hl)))))

/-! ## the Hive pre-pass: `==` does not occur -/

open C01 (occ occ_sep occ_none)

def POcc (us : P) : Prop := ∀ u ∈ us, occ u = false
theorem POcc.nil : POcc [] := fun _ h => by cases h
theorem POcc.cons {u : List Char} {us : P} (h : occ u = false) (hs : POcc us) : POcc (u :: us) := by
  intro x hx; rcases List.mem_cons.mp hx with rfl | hx; exact h; exact hs x hx
theorem POcc.append {us vs : P} (h1 : POcc us) (h2 : POcc vs) : POcc (us ++ vs) := by
  intro x hx; rcases List.mem_append.mp hx with hx | hx; exact h1 x hx; exact h2 x hx
theorem POcc.one {u : List Char} (h : occ u = false) : POcc [u] := POcc.cons h POcc.nil

theorem occ_pre (c : Char) (hc : c ≠ '=') (b : List Char) (hb : occ b = false) : occ (c :: b) = false := by
  have e : c :: b = [] ++ c :: b := rfl
  rw [e, occ_sep _ _ _ hc, hb]; rfl
theorem occ_post (a : List Char) (c : Char) (hc : c ≠ '=') (ha : occ a = false) : occ (a ++ [c]) = false := by
  rw [occ_sep _ _ _ hc, ha]; rfl
theorem occ_mid2 (a b : List Char) (c1 c2 : Char) (h1 : c1 ≠ '=') (h2 : c2 ≠ '=') (ha : occ a = false) (hb : occ b = false) :
    occ (a ++ c1 :: c2 :: b) = false := by
  rw [occ_sep _ _ _ h1, ha, occ_pre c2 h2 b hb]; rfl
theorem occ_paren {a : List Char} (h : occ a = false) : occ (parenL a) = false :=
  occ_pre '(' (by decide) _ (occ_post a ')' (by decide) h)

theorem occ_join1 (c : Char) (hc : c ≠ '=') : ∀ (us : P), POcc us → occ (joinLL [c] us) = false
  | [], _ => rfl
  | [a], h => h a (by simp)
  | a :: b :: r, h => by
    have ih := occ_join1 c hc (b :: r) fun x hx => h x (by simp [hx])
    have e : joinLL [c] (a :: b :: r) = a ++ c :: joinLL [c] (b :: r) := by simp [joinLL]
    rw [e, occ_sep _ _ _ hc, h a (by simp), ih]; rfl
theorem occ_join2 (c1 c2 : Char) (h1 : c1 ≠ '=') (h2 : c2 ≠ '=') : ∀ (us : P), POcc us → occ (joinLL [c1, c2] us) = false
  | [], _ => rfl
  | [a], h => h a (by simp)
  | a :: b :: r, h => by
    have ih := occ_join2 c1 c2 h1 h2 (b :: r) fun x hx => h x (by simp [hx])
    have e : joinLL [c1, c2] (a :: b :: r) = a ++ c1 :: c2 :: joinLL [c1, c2] (b :: r) := by simp [joinLL]
    rw [e]; exact occ_mid2 _ _ _ _ h1 h2 (h a (by simp)) ih

theorem pocc_map {α : Type} (f : α → List Char) (l : List α) (h : ∀ x ∈ l, occ (f x) = false) : POcc (l.map f) := by
  intro u hu
  simp only [List.mem_map] at hu
  obtain ⟨x, hx, rfl⟩ := hu
  exact h x hx

theorem pocc_words (ws : List String) (h : ∀ w ∈ ws, w ∈ ddlWords) : POcc (wordsP ws) :=
  pocc_map _ _ fun w hw => occ_w w (h w hw)
theorem pocc_flag (b : Bool) (ws : List String) (h : ∀ w ∈ ws, w ∈ ddlWords) : POcc (flagP b ws) := by
  cases b
  · exact POcc.nil
  · exact pocc_words ws h
def optNoEq : Option String → Prop
  | none => True
  | some s => occ s.toList = false
theorem pocc_src (kws : List String) (h : ∀ w ∈ kws, w ∈ ddlWords) (o : Option String) (ho : optNoEq o) : POcc (srcP kws o) := by
  cases o with
  | none => exact POcc.nil
  | some s => exact POcc.append (pocc_words kws h) (POcc.one ho)

theorem occ_bq (n : String) (h : occ n.toList = false) : occ (bqL n) = false :=
  occ_pre '`' (by decide) _ (occ_post _ '`' (by decide) h)

theorem occ_plainL (a : List Char) (h : plainL a = true) : occ a = false := by
  refine occ_none a fun x hx => ?_
  cases a with
  | nil => cases hx
  | cons c r =>
    simp only [plainL, Bool.and_eq_true, List.all_eq_true] at h
    rcases List.mem_cons.mp hx with rfl | hx
    · exact (alpha_not_quote x h.1).2.2.2
    · exact alnum_ne_eq x (h.2 x hx)

/-- the payloads of a column definition (as the Hive printer writes it) are free of `==` -/
structure NoEqCol (c : DefCol) : Prop where
  name : occ c.name.toList = false
  params : ∀ ps, c.type.params = some ps → ∀ e ∈ ps, C01.noEqEq e
  comment : optNoEq c.comment

theorem occ_key (e : Expr) (hf : Frag .HIVE e = true) (hl : Leaf .HIVE e) (hq : C01.noEqEq e) : occ (keyL .HIVE e) = false := by
  have := C01.occ_prEL .HIVE (sz e) e (Nat.le_refl _) hf hl hq
  unfold keyL wrapL
  split
  · exact occ_paren this
  · exact this

theorem occ_defColHive (c : DefCol) (hf : TD.colOK .HIVE c = true) (hl : LeafCol .HIVE c) (hq : NoEqCol c) : occ (defColL .HIVE c) = false := by
  have hm : (Gen.D.HIVE == Gen.D.MYSQL) = false := rfl
  have ht : typeOK .HIVE c.type = true := by simp only [TD.colOK, Bool.and_eq_true] at hf; exact hf.1.2
  have hty : occ (typeL .HIVE c.type) = false := by
    obtain ⟨n, ⟨tn, ps⟩, us, zf, cs, co, gen, an, nn, ai, df, ou, cm⟩ := c
    have hn := occ_plainL tn.toList hl.type.1
    cases ps with
    | none => simpa [typeL] using hn
    | some ps =>
      simp only [typeOK, Bool.and_eq_true, Bool.not_eq_eq_eq_not, Bool.not_true, List.all_eq_true] at ht
      simp only [typeL, ht.1.1, Bool.false_eq_true, if_false]
      have hj : occ (joinLL [','] (ps.map (keyL .HIVE))) = false :=
        occ_join1 ',' (by decide) _ (pocc_map _ _ fun e he => occ_key e (ht.1.2 e he) (hl.type.2 ps rfl e he) (hq.params ps rfl e he))
      have e : tn.toList ++ parenL (joinLL [','] (ps.map (keyL .HIVE))) = tn.toList ++ '(' :: (joinLL [','] (ps.map (keyL .HIVE)) ++ [')']) := rfl
      rw [e, occ_sep _ _ _ (by decide), hn, occ_post _ ')' (by decide) hj]; rfl
  simp only [defColL, attrsP, hm, Bool.false_eq_true, if_false]
  exact occ_tail _ _ (occ_bq c.name hq.name) (POcc.cons hty (pocc_src _ (by simp [ddlWords]) _ hq.comment))

/-- **no payload of the Hive rendering contains `==`** -/
structure NoEqC (c : CreateTable) : Prop where
  table : occ (tblStr c.table).toList = false
  cols : ∀ x ∈ c.columns, NoEqCol x
  parts : ∀ x ∈ c.partitionedBy, NoEqCol x
  comment : optNoEq c.comment
  serde : optNoEq c.rowFormatSerde
  delimited : optNoEq c.rowFormatDelimited
  inputformat : optNoEq c.storedAsInputformat
  outputformat : optNoEq c.outputformat
  location : optNoEq c.location
  props : ∀ p ∈ c.tblproperties, occ p.name.toList = false ∧ occ p.value.toList = false

theorem occ_eqJoin (a b : List Char) (ha : occ a = false) (hb : occ b = false) (hla : ∀ x, a.getLast? = some x → x ≠ '=')
    (hhb : ∀ x, b.head? = some x → x ≠ '=') : occ (a ++ '=' :: b) = false := by
  induction a with
  | nil =>
    cases b with
    | nil => rfl
    | cons y r =>
      have hy : (y == '=') = false := by simpa using hhb y rfl
      have : (some y == some '=') = false := by simpa using hhb y rfl
      simp only [List.nil_append, occ, List.head?_cons, this, Bool.and_false, Bool.false_or]
      exact hb
  | cons x a' ih =>
    cases a' with
    | nil =>
      have hx : (x == '=') = false := by simpa using hla x rfl
      have h0 := ih rfl (by intro z hz; cases hz)
      simp only [List.cons_append, List.nil_append] at h0 ⊢
      rw [C01.occ_cons2, hx, h0]; rfl
    | cons y a'' =>
      simp only [C01.occ_cons2, Bool.or_eq_false_iff] at ha
      have h0 := ih ha.2 (by intro z hz; exact hla z (by simpa using hz))
      simp only [List.cons_append] at h0 ⊢
      rw [C01.occ_cons2, ha.1, h0]; rfl

theorem getLast_wrap (c q : Char) (body : List Char) : (c :: (body ++ [q])).getLast? = some q := by
  show ((c :: body) ++ [q]).getLast? = some q
  exact List.getLast?_concat

theorem src_last (s : String) (h : srcLex s) : ∀ x, s.toList.getLast? = some x → x ≠ '=' := by
  intro x hx
  have hmem : x ∈ s.toList := List.mem_of_getLast? hx
  rcases h with ⟨_, hd⟩ | ⟨k, body, hk, hv, _, _⟩ | ⟨body, hv, _⟩ | hp
  · intro e; subst e; have := hd '=' hmem; revert this; decide
  · rw [hv] at hx
    simp only [QK.wrap] at hx
    rw [getLast_wrap] at hx
    simp only [Option.some.injEq] at hx; rw [← hx]; cases k <;> decide
  · rw [hv] at hx
    rw [getLast_wrap] at hx
    simp only [Option.some.injEq] at hx; rw [← hx]; decide
  · cases hv : s.toList with
    | nil => rw [hv] at hmem; cases hmem
    | cons c r =>
      rw [hv] at hp hmem
      simp only [plainL, Bool.and_eq_true, List.all_eq_true] at hp
      rcases List.mem_cons.mp hmem with rfl | hm
      · exact (alpha_not_quote x hp.1).2.2.2
      · exact alnum_ne_eq x (hp.2 x hm)

theorem src_head (s : String) (h : srcLex s) : ∀ x, s.toList.head? = some x → x ≠ '=' := by
  intro x hx
  rcases h with ⟨_, hd⟩ | ⟨k, body, hk, hv, _, _⟩ | ⟨body, hv, _⟩ | hp
  · have hmem : x ∈ s.toList := List.mem_of_head? hx
    intro e; subst e; have := hd '=' hmem; revert this; decide
  · rw [hv] at hx; simp only [QK.wrap, List.head?_cons, Option.some.injEq] at hx; rw [← hx]; cases k <;> decide
  · rw [hv] at hx; simp only [List.head?_cons, Option.some.injEq] at hx; rw [← hx]; decide
  · cases hv : s.toList with
    | nil => rw [hv] at hx; cases hx
    | cons c r =>
      rw [hv] at hp hx
      simp only [plainL, Bool.and_eq_true] at hp
      simp only [List.head?_cons, Option.some.injEq] at hx
      rw [← hx]; exact (alpha_not_quote c hp.1).2.2.2

theorem occ_prop (p : ConfigStr) (hl : LeafProp p) (hq : occ p.name.toList = false ∧ occ p.value.toList = false) : occ (propL p) = false :=
  occ_eqJoin _ _ hq.1 hq.2 (src_last _ hl.1) (src_head _ hl.2)

theorem occ_group (ls : P) (h : POcc ls) : occ (groupL ls) = false := by
  refine occ_paren (occ_pre '\n' (by decide) _ (occ_post _ '\n' (by decide) (occ_join2 ',' '\n' (by decide) (by decide) _ ?_)))
  exact pocc_map _ _ fun l hl => occ_pre ' ' (by decide) _ (occ_pre ' ' (by decide) _ (h l hl))

/-- `==` does not occur in the Hive rendering -/
theorem occ_createHive (c : CreateTable) (hf : FragCreate .HIVE c = true) (hl : LeafC .HIVE c) (hq : NoEqC c) :
    occ (createL .HIVE c) = false := by
  have hm : (Gen.D.HIVE == Gen.D.MYSQL) = false := rfl
  simp only [FragCreate, hm, Bool.false_eq_true, if_false, Bool.and_eq_true, List.all_eq_true] at hf
  have hcols := hf.1.1.2
  have hparts := hf.2.1.1.1.1.1.1.1.1.2
  have hlines : POcc (linesL .HIVE c) := by
    simp only [linesL, hm, Bool.false_eq_true, if_false, List.append_nil]
    exact pocc_map _ _ fun x hx => occ_defColHive x (hcols x hx) (hl.cols x hx) (hq.cols x hx)
  have hpart : POcc (partP .HIVE c.partitionedBy) := by
    cases he : c.partitionedBy.isEmpty with
    | true => simp only [partP, he, if_true]; exact POcc.nil
    | false =>
      simp only [partP, he, Bool.false_eq_true, if_false]
      exact POcc.cons (occ_w "PARTITIONED" (by simp [ddlWords])) (POcc.cons (occ_w "BY" (by simp [ddlWords])) (POcc.one
        (occ_paren (occ_join2 ',' ' ' (by decide) (by decide) _
          (pocc_map _ _ fun x hx => occ_defColHive x (hparts x hx) (hl.parts x hx) (hq.parts x hx))))))
  have hprops : POcc (propsP c.tblproperties) := by
    cases he : c.tblproperties.isEmpty with
    | true => simp only [propsP, he, if_true]; exact POcc.nil
    | false =>
      simp only [propsP, he, Bool.false_eq_true, if_false]
      exact POcc.cons (occ_w "TBLPROPERTIES" (by simp [ddlWords])) (POcc.one
        (occ_paren (occ_join2 ',' ' ' (by decide) (by decide) _ (pocc_map _ _ fun p hp => occ_prop p (hl.props p hp) (hq.props p hp)))))
  have hopts : POcc (hiveOptsP .HIVE c) :=
    POcc.append (pocc_src _ (by simp [ddlWords]) _ hq.comment) (POcc.append hpart
      (POcc.append (pocc_src _ (by simp [ddlWords]) _ hq.serde) (POcc.append (pocc_src _ (by simp [ddlWords]) _ hq.delimited)
      (POcc.append (pocc_src _ (by simp [ddlWords]) _ hq.inputformat) (POcc.append (pocc_flag _ _ (by simp [ddlWords]))
      (POcc.append (pocc_src _ (by simp [ddlWords]) _ hq.outputformat) (POcc.append (pocc_src _ (by simp [ddlWords]) _ hq.location) hprops)))))))
  have htg : occ (tblL c.table ++ groupL (linesL .HIVE c)) = false := by
    have hg := occ_group _ hlines
    have e : tblL c.table ++ groupL (linesL .HIVE c) =
        ('`' :: (tblStr c.table).toList) ++ '`' :: groupL (linesL .HIVE c) := by simp [tblL, bqL]
    rw [e, occ_sep _ _ _ (by decide), occ_pre '`' (by decide) _ hq.table, hg]; rfl
  simp only [createL, hm, Bool.false_eq_true, if_false]
  exact occ_pre ' ' (by decide) _ (occ_tail _ _ (occ_w "CREATE" (by simp [ddlWords])) (POcc.cons (occ_w "TABLE" (by simp [ddlWords]))
    (POcc.append (pocc_flag _ _ (by simp [ddlWords])) (POcc.append (POcc.one htg) hopts))))

end LD
