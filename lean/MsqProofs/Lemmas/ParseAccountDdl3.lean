import MsqProofs.Lemmas.ParseAccountDdl2
/-!
# C08, general accounting for the DDL classes — part 3: column definitions (`defColLoop`, `pDefCol`, `pColOrIdx`)

The attribute loop OVERWRITES a repeated attribute (finding F-C08-4: `a int DEFAULT 1 DEFAULT 2` loses `1`).  The accounting
statement therefore carries a hypothesis on the CONSUMED RUN of tokens `used` (the column definition as the parser delimits it):

  `AttrOK c used`: each of the six attribute keywords that store text — `CHARACTER` (SET), `COLLATE`, `DEFAULT`, `COMMENT`,
  (ON) `UPDATE`, `GENERATED` — occurs at most once among the top-level tokens of `used` (and not at all when the accumulator
  `c` has the attribute already).  For the empty accumulator of `pDefCol`: `NoRep used` = every count ≤ 1.

The flags (`NOT NULL`, `NULL`, `AUTO_INCREMENT`, `UNSIGNED`, `ZEROFILL`) may repeat: they store no text, the words are grammar words.
The count is over ALL top-level tokens of the run (also those inside a DEFAULT expression), so the hypothesis is slightly stronger
than "no attribute is assigned twice" (`DEFAULT comment COMMENT 'x'` is excluded although nothing is lost there).
-/
set_option linter.unusedVariables false
set_option linter.unusedSectionVars false
set_option linter.unusedSimpArgs false
set_option maxHeartbeats 2000000
open Lex PM Ast

namespace PA
namespace Ddl

set_option hygiene false in
macro "peelD" : tactic =>
  `(tactic| ((with_reducible have h' := PM.ite_split h); clear h; rcases h' with ⟨hcnd, h⟩ | ⟨hcnd, h⟩))

/-- number of top-level tokens of the run whose upper-cased source is `k` -/
def cnt (k : String) (us : List Tok) : Nat := us.countP (fun t => t.srcEqUp k)
theorem cnt_append (k : String) (a b : List Tok) : cnt k (a ++ b) = cnt k a + cnt k b := by simp [cnt, List.countP_append]
theorem cnt_pos {k : String} {us : List Tok} (h : ∃ t ∈ us, t.srcEqUp k = true) : 1 ≤ cnt k us := by
  obtain ⟨t, ht, hk⟩ := h
  exact List.countP_pos_iff.2 ⟨t, ht, hk⟩
def b2n (b : Bool) : Nat := if b then 1 else 0

/-- no text-bearing attribute keyword occurs twice in the run (none at all if the accumulator already has the attribute) -/
def AttrOK (c : DefCol) (us : List Tok) : Prop :=
  cnt "CHARACTER" us + b2n c.charset.isSome ≤ 1 ∧ cnt "COLLATE" us + b2n c.collate.isSome ≤ 1 ∧
  cnt "DEFAULT" us + b2n c.default.isSome ≤ 1 ∧ cnt "COMMENT" us + b2n c.comment.isSome ≤ 1 ∧
  cnt "UPDATE" us + b2n c.onUpdate.isSome ≤ 1 ∧ cnt "GENERATED" us + b2n c.generated.isSome ≤ 1
/-- the hypothesis for a whole column definition: no attribute keyword twice -/
def NoRep (us : List Tok) : Bool :=
  decide (cnt "CHARACTER" us ≤ 1) && decide (cnt "COLLATE" us ≤ 1) && decide (cnt "DEFAULT" us ≤ 1) && decide (cnt "COMMENT" us ≤ 1) &&
  decide (cnt "UPDATE" us ≤ 1) && decide (cnt "GENERATED" us ≤ 1)
theorem NoRep_sfx {a b : List Tok} (h : NoRep (a ++ b) = true) : NoRep b = true := by
  simp only [NoRep, Bool.and_eq_true, decide_eq_true_eq, cnt_append] at h ⊢
  omega
theorem NoRep_pfx {a b : List Tok} (h : NoRep (a ++ b) = true) : NoRep a = true := by
  simp only [NoRep, Bool.and_eq_true, decide_eq_true_eq, cnt_append] at h ⊢
  omega

theorem attr_mono {c : DefCol} {a b : List Tok} (h : AttrOK c (a ++ b)) : AttrOK c b := by
  simp only [AttrOK, cnt_append] at h ⊢; omega
macro "attr_tac" : tactic =>
  `(tactic| (have hp := cnt_pos hk; simp only [AttrOK, cnt_append] at h ⊢; constructor
             · revert h; rcases hx : (_ : Option _) with _ | _ <;> simp [b2n, hx] <;> omega
             · simp only [Option.isSome_some, b2n, if_true]; simp only [b2n] at h; omega))
theorem attr_charset {c : DefCol} {kws u1 u2 : List Tok} (x : String) (hk : ∃ t ∈ kws, t.srcEqUp "CHARACTER" = true)
    (h : AttrOK c (kws ++ (u1 ++ u2))) : c.charset = none ∧ AttrOK { c with charset := some x } u2 := by
  have hp := cnt_pos hk
  simp only [AttrOK, cnt_append] at h ⊢
  refine ⟨?_, ?_⟩
  · cases hx : c.charset with
    | none => rfl
    | some y => simp [hx, b2n] at h; omega
  · simp only [Option.isSome_some, b2n, if_true]; simp only [b2n] at h; omega
theorem attr_collate {c : DefCol} {kws u1 u2 : List Tok} (x : String) (hk : ∃ t ∈ kws, t.srcEqUp "COLLATE" = true)
    (h : AttrOK c (kws ++ (u1 ++ u2))) : c.collate = none ∧ AttrOK { c with collate := some x } u2 := by
  have hp := cnt_pos hk
  simp only [AttrOK, cnt_append] at h ⊢
  refine ⟨?_, ?_⟩
  · cases hx : c.collate with
    | none => rfl
    | some y => simp [hx, b2n] at h; omega
  · simp only [Option.isSome_some, b2n, if_true]; simp only [b2n] at h; omega
theorem attr_default {c : DefCol} {kws u1 u2 : List Tok} (x : Expr) (hk : ∃ t ∈ kws, t.srcEqUp "DEFAULT" = true)
    (h : AttrOK c (kws ++ (u1 ++ u2))) : c.default = none ∧ AttrOK { c with default := some x } u2 := by
  have hp := cnt_pos hk
  simp only [AttrOK, cnt_append] at h ⊢
  refine ⟨?_, ?_⟩
  · cases hx : c.default with
    | none => rfl
    | some y => simp [hx, b2n] at h; omega
  · simp only [Option.isSome_some, b2n, if_true]; simp only [b2n] at h; omega
theorem attr_comment {c : DefCol} {kws u1 u2 : List Tok} (x : String) (hk : ∃ t ∈ kws, t.srcEqUp "COMMENT" = true)
    (h : AttrOK c (kws ++ (u1 ++ u2))) : c.comment = none ∧ AttrOK { c with comment := some x } u2 := by
  have hp := cnt_pos hk
  simp only [AttrOK, cnt_append] at h ⊢
  refine ⟨?_, ?_⟩
  · cases hx : c.comment with
    | none => rfl
    | some y => simp [hx, b2n] at h; omega
  · simp only [Option.isSome_some, b2n, if_true]; simp only [b2n] at h; omega
theorem attr_onUpdate {c : DefCol} {kws u1 u2 : List Tok} (x : Expr) (hk : ∃ t ∈ kws, t.srcEqUp "UPDATE" = true)
    (h : AttrOK c (kws ++ (u1 ++ u2))) : c.onUpdate = none ∧ AttrOK { c with onUpdate := some x } u2 := by
  have hp := cnt_pos hk
  simp only [AttrOK, cnt_append] at h ⊢
  refine ⟨?_, ?_⟩
  · cases hx : c.onUpdate with
    | none => rfl
    | some y => simp [hx, b2n] at h; omega
  · simp only [Option.isSome_some, b2n, if_true]; simp only [b2n] at h; omega
theorem attr_generated {c : DefCol} {kws u1 u2 : List Tok} (x : GenCol) (hk : ∃ t ∈ kws, t.srcEqUp "GENERATED" = true)
    (h : AttrOK c (kws ++ (u1 ++ u2))) : c.generated = none ∧ AttrOK { c with generated := some x } u2 := by
  have hp := cnt_pos hk
  simp only [AttrOK, cnt_append] at h ⊢
  refine ⟨?_, ?_⟩
  · cases hx : c.generated with
    | none => rfl
    | some y => simp [hx, b2n] at h; omega
  · simp only [Option.isSome_some, b2n, if_true]; simp only [b2n] at h; omega

/-! ### heads -/
theorem sUp1 {ts : List Tok} {k : String} (h : searchStrUp ts k = true) : ∃ t, ts = t :: ts.drop 1 ∧ t.srcEqUp k = true := by
  cases ts with
  | nil => simp [searchStrUp] at h
  | cons t r => exact ⟨t, by simp, by simpa [searchStrUp] using h⟩
theorem sUp2 {ts : List Tok} {a b : String} (h : searchTwoUp ts a b = true) :
    ∃ x y, ts = x :: y :: ts.drop 2 ∧ x.srcEqUp a = true ∧ y.srcEqUp b = true := by
  match ts, h with
  | x :: y :: r, h =>
    simp only [searchTwoUp, Bool.and_eq_true] at h
    exact ⟨x, y, by simp, h.1, h.2⟩
theorem sUp3 {ts : List Tok} {a b c : String} (h : searchThreeUp ts a b c = true) :
    ∃ x y z, ts = x :: y :: z :: ts.drop 3 ∧ x.srcEqUp a = true ∧ y.srcEqUp b = true ∧ z.srcEqUp c = true := by
  match ts, h with
  | x :: y :: z :: r, h =>
    simp only [searchThreeUp, Bool.and_eq_true] at h
    exact ⟨x, y, z, by simp, h.1.1, h.1.2, h.2⟩
theorem acc3_cancel {T : List String} {u r : List Tok} (h : Acc3 T (u ++ r) r) : AccAll T u := by
  obtain ⟨w, e, hw⟩ := h
  have := List.append_cancel_right e; subst this; exact hw
/-- an `AR` lemma and the consumption lemma of the same function: the consumed run, and its accounting -/
theorem ar_used {T : List String} {α : Type} {tx : α → List String} {pl : α → Bool} {cur : List Tok} {pre : List String} {ppl : Bool}
    {a : R α} {v : α} {r1 : List Tok} (hAR : AR T tx pl cur pre ppl a) (h : a = .ok (v, r1)) (hc : ∃ u, cur = u ++ r1) :
    ∃ u1, cur = u1 ++ r1 ∧ (pl v = true → Sub (tx v) T → AccAll T u1) := by
  obtain ⟨u, e⟩ := hc
  refine ⟨u, e, fun hp hs => ?_⟩
  have := ((hAR v r1 h hp).2 hs).1
  rw [e] at this; exact acc3_cancel this
theorem accAll_kws {T : List String} {kws : List Tok} (h : ∀ t ∈ kws, KwTok t = true) : AccAll T kws := fun t ht => .kw (h t ht)

/-! ### texts of an updated accumulator -/
macro "txd" : tactic =>
  `(tactic| (simp only [tDC_eq, tOS_none, tOS_some, tOGC_none, tOGC_some, tOpt_none, tOpt_some, sub_append, sub_cons, sub_nil, FullDC, FullOGC, FullO,
      Bool.and_eq_true] at *; grind))
theorem tx_charset {T : List String} {c : DefCol} (s : String) (hn : c.charset = none) (hs : Sub (tDC { c with charset := some s }) T) :
    s ∈ T ∧ Sub (tDC c) T := by
  rw [tDC_eq] at hs; rw [tDC_eq c]; simp only [hn] at hs ⊢; txd
theorem tx_collate {T : List String} {c : DefCol} (s : String) (hn : c.collate = none) (hs : Sub (tDC { c with collate := some s }) T) :
    s ∈ T ∧ Sub (tDC c) T := by
  rw [tDC_eq] at hs; rw [tDC_eq c]; simp only [hn] at hs ⊢; txd
theorem tx_comment {T : List String} {c : DefCol} (s : String) (hn : c.comment = none) (hs : Sub (tDC { c with comment := some s }) T) :
    s ∈ T ∧ Sub (tDC c) T := by
  rw [tDC_eq] at hs; rw [tDC_eq c]; simp only [hn] at hs ⊢; txd
theorem tx_default {T : List String} {c : DefCol} (e : Expr) (hn : c.default = none) (hs : Sub (tDC { c with default := some e }) T) :
    Sub (tE e) T ∧ Sub (tDC c) T := by
  rw [tDC_eq] at hs; rw [tDC_eq c]; simp only [hn] at hs ⊢; txd
theorem fl_default {c : DefCol} (e : Expr) (hn : c.default = none) (hf : FullDC { c with default := some e } = true) :
    FullE e = true ∧ FullDC c = true := by
  simp only [FullDC, hn, FullO, Bool.and_eq_true] at hf ⊢; grind
theorem tx_onUpdate {T : List String} {c : DefCol} (e : Expr) (hn : c.onUpdate = none) (hs : Sub (tDC { c with onUpdate := some e }) T) :
    Sub (tE e) T ∧ Sub (tDC c) T := by
  rw [tDC_eq] at hs; rw [tDC_eq c]; simp only [hn] at hs ⊢; txd
theorem fl_onUpdate {c : DefCol} (e : Expr) (hn : c.onUpdate = none) (hf : FullDC { c with onUpdate := some e } = true) :
    FullE e = true ∧ FullDC c = true := by
  simp only [FullDC, hn, FullO, Bool.and_eq_true] at hf ⊢; grind
theorem tx_generated {T : List String} {c : DefCol} (e : GenCol) (hn : c.generated = none) (hs : Sub (tDC { c with generated := some e }) T) :
    Sub (tOGC (some e)) T ∧ Sub (tDC c) T := by
  rw [tDC_eq] at hs; rw [tDC_eq c]; simp only [hn] at hs ⊢; txd
theorem fl_generated {c : DefCol} (e : GenCol) (hn : c.generated = none) (hf : FullDC { c with generated := some e } = true) :
    FullOGC (some e) = true ∧ FullDC c = true := by
  simp only [FullDC, hn, FullOGC, Bool.and_eq_true] at hf ⊢; grind

/-! ### the attribute loop -/
/-- what the loop lemma says about one run -/
def QD (T : List String) (c : DefCol) (ts : List Tok) (c' : DefCol) (r : List Tok) : Prop :=
  ∃ used, ts = used ++ r ∧ (AttrOK c used → FullDC c' = true → FullDC c = true ∧ (Sub (tDC c') T → AccAll T used ∧ Sub (tDC c) T))

theorem qd_step {T : List String} {c c2 c' : DefCol} {ts kws u1 r1 r : List Tok} (hts : ts = kws ++ (u1 ++ r1))
    (hb : ∀ u2, AttrOK c (kws ++ (u1 ++ u2)) → AttrOK c2 u2 ∧
      (FullDC c2 = true → FullDC c = true ∧ (Sub (tDC c2) T → AccAll T (kws ++ u1) ∧ Sub (tDC c) T)))
    (ih : QD T c2 r1 c' r) : QD T c ts c' r := by
  obtain ⟨u2, e2, k⟩ := ih
  refine ⟨kws ++ (u1 ++ u2), by simp [hts, e2], fun hA hF => ?_⟩
  obtain ⟨hA2, k1⟩ := hb u2 hA
  obtain ⟨f2, k2⟩ := k hA2 hF
  obtain ⟨fc, k3⟩ := k1 f2
  refine ⟨fc, fun hT => ?_⟩
  obtain ⟨a2, s2⟩ := k2 hT
  obtain ⟨a1, s1⟩ := k3 s2
  refine ⟨?_, s1⟩
  have : kws ++ (u1 ++ u2) = (kws ++ u1) ++ u2 := by simp
  rw [this, accAll_append]; exact ⟨a1, a2⟩

theorem defColLoop_acc (T : List String) (d : Gen.D) (f : Nat) : ∀ g c ts c' r, defColLoop d f g c ts = .ok (c', r) → QD T c ts c' r := by
  have hA : Anchor T := trivial
  have hF := accA_all d T f
  have kNOT : kwOk "NOT" = true := by decide
  have kNULL : kwOk "NULL" = true := by decide
  have kCHARACTER : kwOk "CHARACTER" = true := by decide
  have kSET : kwOk "SET" = true := by decide
  have kCOLLATE : kwOk "COLLATE" = true := by decide
  have kDEFAULT : kwOk "DEFAULT" = true := by decide
  have kCOMMENT : kwOk "COMMENT" = true := by decide
  have kON : kwOk "ON" = true := by decide
  have kUPDATE : kwOk "UPDATE" = true := by decide
  have kAI : kwOk "AUTO_INCREMENT" = true := by decide
  have kUNS : kwOk "UNSIGNED" = true := by decide
  have kZF : kwOk "ZEROFILL" = true := by decide
  intro g
  induction g with
  | zero => intro c ts c' r h; simp [defColLoop] at h
  | succ g ih =>
    intro c ts c' r h
    unfold defColLoop at h
    peelD
    · simp only [Except.ok.injEq, Prod.mk.injEq] at h; obtain ⟨rfl, rfl⟩ := h
      exact ⟨[], by simp, fun _ hf => ⟨hf, fun hs => ⟨by simp [AccAll], hs⟩⟩⟩
    peelD
    · -- NOT NULL
      obtain ⟨x, y, e, hx, hy⟩ := sUp2 hcnd
      have ih1 := ih _ _ _ _ h
      refine qd_step (kws := [x, y]) (u1 := []) (by simpa using e) (fun u2 hA => ⟨attr_mono (a := [x, y]) (by simpa using hA), fun hf => ⟨hf, fun hs => ⟨?_, ?_⟩⟩⟩) ih1
      · exact accAll_kws (by simp; exact ⟨srcEqUp_kw hx kNOT, srcEqUp_kw hy kNULL⟩)
      · rw [tDC_eq] at hs ⊢; exact hs
    peelD
    · -- NULL
      obtain ⟨x, e, hx⟩ := sUp1 hcnd
      have ih1 := ih _ _ _ _ h
      refine qd_step (kws := [x]) (u1 := []) (by simpa using e) (fun u2 hA => ⟨attr_mono (a := [x]) (by simpa using hA), fun hf => ⟨hf, fun hs => ⟨?_, ?_⟩⟩⟩) ih1
      · exact accAll_kws (by simp; exact srcEqUp_kw hx kNULL)
      · rw [tDC_eq] at hs ⊢; exact hs
    peelD
    · -- CHARACTER SET s
      obtain ⟨x, y, e, hx, hy⟩ := sUp2 hcnd
      split at h
      · rename_i s r1 hp
        obtain ⟨t, e1, rfl⟩ := popSrc_ok hp
        have ih1 := ih _ _ _ _ h
        refine qd_step (kws := [x, y]) (u1 := [t]) (by rw [e, e1]; simp) (fun u2 hA => ?_) ih1
        obtain ⟨hn, hA2⟩ := attr_charset t.src ⟨x, by simp, hx⟩ hA
        refine ⟨hA2, fun hf => ⟨hf, fun hs => ?_⟩⟩
        obtain ⟨h1, h2⟩ := tx_charset t.src hn hs
        refine ⟨?_, h2⟩
        rw [accAll_append]
        exact ⟨accAll_kws (by simp; exact ⟨srcEqUp_kw hx kCHARACTER, srcEqUp_kw hy kSET⟩), by simpa [AccAll] using Acc.text h1⟩
      · simp at h
    peelD
    · -- COLLATE s
      obtain ⟨x, e, hx⟩ := sUp1 hcnd
      split at h
      · rename_i s r1 hp
        obtain ⟨t, e1, rfl⟩ := popSrc_ok hp
        have ih1 := ih _ _ _ _ h
        refine qd_step (kws := [x]) (u1 := [t]) (by rw [e, e1]; simp) (fun u2 hA => ?_) ih1
        obtain ⟨hn, hA2⟩ := attr_collate t.src ⟨x, by simp, hx⟩ hA
        refine ⟨hA2, fun hf => ⟨hf, fun hs => ?_⟩⟩
        obtain ⟨h1, h2⟩ := tx_collate t.src hn hs
        refine ⟨?_, h2⟩
        rw [accAll_append]
        exact ⟨accAll_kws (by simp; exact srcEqUp_kw hx kCOLLATE), by simpa [AccAll] using Acc.text h1⟩
      · simp at h
    peelD
    · -- DEFAULT e
      obtain ⟨x, e, hx⟩ := sUp1 hcnd
      split at h
      · rename_i v r1 hp
        obtain ⟨u1, e1, ha⟩ := ar_used (hF.pCompute _) hp (pCompute_consumes d f _ _ _ hp)
        have ih1 := ih _ _ _ _ h
        refine qd_step (kws := [x]) (u1 := u1) (by rw [e, e1]; simp) (fun u2 hA => ?_) ih1
        obtain ⟨hn, hA2⟩ := attr_default v ⟨x, by simp, hx⟩ hA
        refine ⟨hA2, fun hf => ?_⟩
        obtain ⟨f1, f2⟩ := fl_default v hn hf
        refine ⟨f2, fun hs => ?_⟩
        obtain ⟨h1, h2⟩ := tx_default v hn hs
        refine ⟨?_, h2⟩
        rw [accAll_append]
        exact ⟨accAll_kws (by simp; exact srcEqUp_kw hx kDEFAULT), ha f1 h1⟩
      · simp at h
    peelD
    · -- COMMENT s
      obtain ⟨x, e, hx⟩ := sUp1 hcnd
      split at h
      · rename_i s r1 hp
        obtain ⟨t, e1, rfl⟩ := popSrc_ok hp
        have ih1 := ih _ _ _ _ h
        refine qd_step (kws := [x]) (u1 := [t]) (by rw [e, e1]; simp) (fun u2 hA => ?_) ih1
        obtain ⟨hn, hA2⟩ := attr_comment t.src ⟨x, by simp, hx⟩ hA
        refine ⟨hA2, fun hf => ⟨hf, fun hs => ?_⟩⟩
        obtain ⟨h1, h2⟩ := tx_comment t.src hn hs
        refine ⟨?_, h2⟩
        rw [accAll_append]
        exact ⟨accAll_kws (by simp; exact srcEqUp_kw hx kCOMMENT), by simpa [AccAll] using Acc.text h1⟩
      · simp at h
    peelD
    · -- ON UPDATE e
      obtain ⟨x, y, e, hx, hy⟩ := sUp2 hcnd
      split at h
      · rename_i v r1 hp
        obtain ⟨u1, e1, ha⟩ := ar_used (hF.pCompute _) hp (pCompute_consumes d f _ _ _ hp)
        have ih1 := ih _ _ _ _ h
        refine qd_step (kws := [x, y]) (u1 := u1) (by rw [e, e1]; simp) (fun u2 hA => ?_) ih1
        obtain ⟨hn, hA2⟩ := attr_onUpdate v ⟨y, by simp, hy⟩ hA
        refine ⟨hA2, fun hf => ?_⟩
        obtain ⟨f1, f2⟩ := fl_onUpdate v hn hf
        refine ⟨f2, fun hs => ?_⟩
        obtain ⟨h1, h2⟩ := tx_onUpdate v hn hs
        refine ⟨?_, h2⟩
        rw [accAll_append]
        exact ⟨accAll_kws (by simp; exact ⟨srcEqUp_kw hx kON, srcEqUp_kw hy kUPDATE⟩), ha f1 h1⟩
      · simp at h
    peelD
    · -- AUTO_INCREMENT
      obtain ⟨x, e, hx⟩ := sUp1 hcnd
      have ih1 := ih _ _ _ _ h
      refine qd_step (kws := [x]) (u1 := []) (by simpa using e) (fun u2 hA => ⟨attr_mono (a := [x]) (by simpa using hA), fun hf => ⟨hf, fun hs => ⟨?_, ?_⟩⟩⟩) ih1
      · exact accAll_kws (by simp; exact srcEqUp_kw hx kAI)
      · rw [tDC_eq] at hs ⊢; exact hs
    peelD
    · -- UNSIGNED
      obtain ⟨x, e, hx⟩ := sUp1 hcnd
      have ih1 := ih _ _ _ _ h
      refine qd_step (kws := [x]) (u1 := []) (by simpa using e) (fun u2 hA => ⟨attr_mono (a := [x]) (by simpa using hA), fun hf => ⟨hf, fun hs => ⟨?_, ?_⟩⟩⟩) ih1
      · exact accAll_kws (by simp; exact srcEqUp_kw hx kUNS)
      · rw [tDC_eq] at hs ⊢; exact hs
    peelD
    · -- ZEROFILL
      obtain ⟨x, e, hx⟩ := sUp1 hcnd
      have ih1 := ih _ _ _ _ h
      refine qd_step (kws := [x]) (u1 := []) (by simpa using e) (fun u2 hA => ⟨attr_mono (a := [x]) (by simpa using hA), fun hf => ⟨hf, fun hs => ⟨?_, ?_⟩⟩⟩) ih1
      · exact accAll_kws (by simp; exact srcEqUp_kw hx kZF)
      · rw [tDC_eq] at hs ⊢; exact hs
    peelD
    · -- GENERATED ALWAYS AS ( … ) mode
      obtain ⟨x, e, hx⟩ := sUp1 hcnd
      split at h
      · rename_i v r1 hp
        obtain ⟨u1, e1, ha⟩ := ar_used (accD_pGenerated T d f _) hp (pGenerated_consumes d f _ _ _ hp)
        obtain ⟨gg, r0, e0, m, hd, _, hm, _⟩ := closed_pGenerated hp
        have hx1 : ∃ t ∈ u1, t.srcEqUp "GENERATED" = true := by
          cases u1 with
          | nil =>
            exfalso
            simp only [List.nil_append] at e1
            obtain ⟨tm, em, _⟩ := popSrc_ok hm
            have l1 := congrArg List.length hd
            rw [em, e1] at l1
            simp at l1; omega
          | cons a b =>
            rw [e] at e1
            simp only [List.cons_append, List.cons.injEq] at e1
            exact ⟨a, by simp, e1.1 ▸ hx⟩
        have ih1 := ih _ _ _ _ h
        refine qd_step (kws := []) (u1 := u1) (by simpa using e1) (fun u2 hA => ?_) ih1
        obtain ⟨hn, hA2⟩ := attr_generated (kws := u1) (u1 := []) (u2 := u2) v hx1 (by simpa using hA)
        refine ⟨hA2, fun hf => ?_⟩
        obtain ⟨f1, f2⟩ := fl_generated v hn hf
        refine ⟨f2, fun hs => ?_⟩
        obtain ⟨h1, h2⟩ := tx_generated v hn hs
        exact ⟨by simpa using ha f1 h1, h2⟩
      · simp at h
      · simp at h
    · simp at h

/-- `_parse_define_column_expression`: under `NoRep` of the consumed run every token is accounted for -/
theorem pDefCol_acc (T : List String) (d : Gen.D) (f : Nat) (ts : List Tok) (c : DefCol) (r : List Tok) (h : pDefCol d f ts = .ok (c, r)) :
    ∃ used, ts = used ++ r ∧ (NoRep used = true → FullDC c = true → Sub (tDC c) T → AccAll T used) := by
  unfold pDefCol at h
  split at h
  · simp at h
  · rename_i n r0 hp
    obtain ⟨t, rfl, rfl⟩ := popSrc_ok hp
    split at h
    · simp at h
    · rename_i ty r1 hty
      obtain ⟨u1, e1, ha⟩ := ar_used (accD_pColType T d f _) hty (pColType_consumes d f _ _ _ hty)
      obtain ⟨u2, e2, k⟩ := defColLoop_acc T d f _ _ _ _ _ h
      subst e1 e2
      refine ⟨t :: (u1 ++ u2), by simp, fun hr hf hs => ?_⟩
      have hA : AttrOK { name := unifyName t.src, type := ty } u2 := by
        have := NoRep_sfx (a := t :: u1) (b := u2) (by simpa using hr)
        simp only [NoRep, Bool.and_eq_true, decide_eq_true_eq] at this
        simp only [AttrOK, Option.isSome_none, b2n]; simp; omega
      obtain ⟨hf1, k1⟩ := k hA hf
      obtain ⟨a2, s1⟩ := k1 hs
      rw [tDC_eq] at s1
      simp only [sub_cons, sub_append] at s1
      simp only [FullDC, Bool.and_eq_true] at hf1
      have : t :: (u1 ++ u2) = [t] ++ (u1 ++ u2) := rfl
      rw [this, accAll_append, accAll_append]
      exact ⟨by simpa [AccAll] using Acc.name s1.1, ha hf1.1 s1.2.1, a2⟩

end Ddl
end PA
