import Lean
import MsqProofs.Lemmas.ParseKCase3
/-! DERIVED by tools/gen_kcase.py from ParseCase3b.lean (identifier substitution `CE`→`KE`, `CER`→`KER`, `upAll`→`kmAll`) — C09, parser half, sharp form for reserved words -/

/-!
# C09, parser half — hand-written part 5: the second `split_run`, `match(*tokens)`, table look-ups by a token
-/
set_option linter.unusedSimpArgs false
set_option linter.unusedVariables false
set_option maxHeartbeats 1000000
open Lex Ast
namespace PM

open Lean Elab Tactic Meta in
/-- lockstep: after the first run has been split, the SHAPE of its cursor is known; a hypothesis `KEL (t :: ts) ys` / `KEL [] ys` with `ys`
a variable forces the shape of the second cursor.  Doing this before the second run is split removes the impossible pairs of paths
early (and the negative hypotheses `∀ b c r, ys = b :: c :: r → False` that overlapping patterns would leave behind). -/
elab "kel_sync" : tactic => do
  for _ in [0:64] do
    let g ← getMainGoal
    let found ← g.withContext do
      let mut res : Option (FVarId × Nat) := none
      for ld in ← getLCtx do
        if ld.isImplementationDetail then continue
        let ty ← instantiateMVars ld.type
        if ty.isAppOfArity ``PM.KEL 2 then
          let a := ty.getArg! 0; let b := ty.getArg! 1
          if b.isFVar then
            if a.isAppOfArity ``List.cons 3 then res := some (ld.fvarId, 0)
            else if a.isAppOfArity ``List.nil 1 then res := some (ld.fvarId, 1)
          else if a.isFVar then
            if b.isAppOfArity ``List.cons 3 then res := some (ld.fvarId, 2)
            else if b.isAppOfArity ``List.nil 1 then res := some (ld.fvarId, 3)
      return res
    match found with
    | none => return
    | some (fv, k) =>
      let stx ← g.withContext (Term.exprToSyntax (mkFVar fv))
      if k == 0 then
        evalTactic (← `(tactic| (obtain ⟨_, _, hEq, _, _⟩ := PM.kel_cons_left $stx; subst hEq)))
      else if k == 1 then
        evalTactic (← `(tactic| (have hnil := PM.kel_nil_left $stx; subst hnil)))
      else if k == 2 then
        evalTactic (← `(tactic| (obtain ⟨_, _, hEq, _, _⟩ := PM.kel_cons_right $stx; subst hEq)))
      else
        evalTactic (← `(tactic| (have hnil := PM.kel_nil_right $stx; subst hnil)))

/-- after a `split`: equations between cons cells are taken apart and substituted; a negative hypothesis left by overlapping patterns
(`∀ b c r, xs = b :: c :: r → False`) whose cursor has become explicit is discharged -/
macro "ke_norm" : tactic =>
  `(tactic| ((try simp only [List.cons.injEq, reduceCtorEq, and_imp, forall_eq', forall_eq, imp_false, not_true_eq_false, false_imp_iff,
      imp_self, forall_const] at *) <;> split_ands <;> (try subst_vars)))

/-- `kmAll` does not change the constructor: what `_parse_table_expression` inspects -/
theorem kmE_subQuery_inv (x : Expr) (q0 : Query) (h : kmE x = .subQuery q0) : ∃ q, x = .subQuery q := by
  cases x <;> simp [kmE] at h; exact ⟨_, rfl⟩
grind_pattern kmE_subQuery_inv => kmE x, Expr.subQuery q0
theorem kmTR_table_inv (x : TableRef) (s0 : Option String) (n0 : String) (h : kmTR x = .table s0 n0) : ∃ s n, x = .table s n := by
  cases x <;> simp [kmTR] at h; exact ⟨_, _, rfl⟩
grind_pattern kmTR_table_inv => kmTR x, TableRef.table s0 n0
theorem kmTR_sub_inv (x : TableRef) (q0 : Query) (h : kmTR x = .sub q0) : ∃ q, x = .sub q := by
  cases x <;> simp [kmTR] at h; exact ⟨_, rfl⟩
grind_pattern kmTR_sub_inv => kmTR x, TableRef.sub q0

theorem matchSeq_ke : ∀ (ks : List String) (ts ts' : List Tok), KEL ts ts' → KER Eq (matchSeq ts ks) (matchSeq ts' ks) := by
  intro ks
  induction ks with
  | nil => intro ts ts' h; simp [matchSeq, h]
  | cons k ks ih =>
    intro ts ts' h
    cases ts <;> cases ts' <;> simp_all [matchSeq]
    rw [ke_equalsStr h.1 k]
    split
    · exact ih _ _ h.2
    · simp
theorem matchSeq_ke' {ts ts' : List Tok} (h : KEL ts ts') (ks : List String) : KER Eq (matchSeq ts ks) (matchSeq ts' ks) := matchSeq_ke ks ts ts' h
grind_pattern matchSeq_ke' => KEL ts ts', matchSeq ts ks

/-- `EnumCastDataType`: the member whose word the token is (case-insensitively) -/
theorem ke_castTypes {t t' : Tok} (h : KE t t') :
    Gen.castTypes.find? (fun k => t.equalsStr k.2) = Gen.castTypes.find? (fun k => t'.equalsStr k.2) := by
  have : (fun k : String × String => t.equalsStr k.2) = (fun k => t'.equalsStr k.2) := by
    funext k; exact ke_equalsStr h k.2
  rw [this]
grind_pattern ke_castTypes => KE t t', Gen.castTypes.find? (fun k => t.equalsStr k.2)

end PM
