import MsqProofs.Lemmas.TQueryM1
import MsqProofs.Lemmas.TQueryQ
/-!
# T-parse closed under nesting: the mutual induction (C03 / C02 / C01)

`all`: for every `n`, every fragment expression of size `≤ n` has its record `RT3` and every fragment query of size `≤ n` has its record
`QT` — by induction on the common size (`szE3` / `szQ`, TQuery0.lean).  The expression half of the step is `expr_step` (TQueryM1.lean,
derived from `TP2.rt2_all`, with the three bracketed sub-query positions added); the query half (`query_step`) builds the records of the
parts of a SELECT (`ColRec`, `TabRec`, … of TQueryS.lean) from the induction hypothesis and composes them with `single3`, `unions`,
`qt_single` / `qt_union` (TQueryQ.lean).

`ChOK d ch`: the two first-word side conditions of the fragment (no leading `DISTINCT` in the select list, no leading `GROUPING` in the
first GROUP BY key) are stated for the rendering without redundant brackets (`noX`); the records for another bracket choice `ch` need
them for that choice.
-/
set_option linter.unusedVariables false
set_option linter.unusedSimpArgs false
set_option maxHeartbeats 1000000
open Lex PM Ast TP TS
namespace TQ
variable {d : Gen.D} {ch : Expr → Bool}

structure ChOK (d : Gen.D) (ch : Expr → Bool) : Prop where
  dist : ∀ cols, searchStrUp (toksCols3 d noX cols) "DISTINCT" = false → searchStrUp (toksCols3 d ch cols) "DISTINCT" = false
  grouping : ∀ e, searchStrUp (W3 d noX e 8) "GROUPING" = false → searchStrUp (W3 d ch e 8) "GROUPING" = false
theorem chOK_noX : ChOK d noX := ⟨fun _ h => h, fun _ h => h⟩

section step
variable (n : Nat) (ihe : ∀ e, szE3 e ≤ n → FragE3 d e = true → RT3 d ch e) (ihq : ∀ q, szQ q ≤ n → FragQ d q = true → QT d ch q)
include ihe in
theorem cols_rec : ∀ cs, szCols cs ≤ n → colsOK3 d cs = true → ∀ c ∈ cs, ColRec d ch c := by
  intro cs
  induction cs with
  | nil => intro _ _ c hc; simp at hc
  | cons p cs ihc =>
    obtain ⟨e, a⟩ := p
    intro hs hf c hc
    simp only [szCols] at hs
    simp only [colsOK3, Bool.and_eq_true] at hf
    rcases List.mem_cons.1 hc with rfl | hc
    · exact ⟨ihe e (by omega) hf.1.1, hf.1.2⟩
    · exact ihc (by omega) hf.2 c hc
include ihq in
theorem ref_rec (r : TableRef) (hs : szRef r ≤ n) (hf : refOK3 d r = true) : RefRec d ch r := by
  cases r with
  | table s nm => simp only [refOK3] at hf; exact hf
  | sub q =>
    simp only [refOK3] at hf; simp only [szRef] at hs
    show QT d ch q
    exact ihq q (by omega) hf
include ihq in
theorem table_rec (t : FromTable) (hs : szTable t ≤ n) (hf : tableOK3 d t = true) : TabRec d ch t := by
  obtain ⟨r, a⟩ := t
  simp only [tableOK3, Bool.and_eq_true] at hf; simp only [szTable] at hs
  exact ⟨ref_rec n ihq r hs hf.1, hf.2⟩
include ihq in
theorem tables_rec : ∀ ts, szTables ts ≤ n → tablesOK3 d ts = true → ∀ t ∈ ts, TabRec d ch t := by
  intro ts
  induction ts with
  | nil => intro _ _ c hc; simp at hc
  | cons t ts iht =>
    intro hs hf c hc
    simp only [szTables] at hs
    simp only [tablesOK3, Bool.and_eq_true] at hf
    rcases List.mem_cons.1 hc with rfl | hc
    · exact table_rec n ihq _ (by omega) hf.1
    · exact iht (by omega) hf.2 c hc
include ihq in
theorem from_rec (fr : Option (List FromTable)) (hs : szFrom fr ≤ n) (hf : fromOK3 d fr = true) : FromRec d ch fr := by
  cases fr with
  | none => trivial
  | some l =>
    cases l with
    | nil => simp [fromOK3] at hf
    | cons t ts =>
      simp only [fromOK3, Bool.and_eq_true] at hf; simp only [szFrom, szTables] at hs
      exact ⟨table_rec n ihq t (by omega) hf.1, tables_rec n ihq ts (by omega) hf.2⟩
include ihe in
theorem rule_rec (r : Option JoinRule) (hs : szRule r ≤ n) (hf : ruleOK3 d r = true) : RuleRec d ch r := by
  cases r with
  | none => trivial
  | some r =>
    cases r with
    | on e => simp only [ruleOK3] at hf; simp only [szRule] at hs; exact ihe e hs hf
    | «using» u => simp [ruleOK3] at hf
include ihe ihq in
theorem joins_rec : ∀ js, szJoins js ≤ n → joinsOK3 d js = true → ∀ j ∈ js, JoinRec d ch j := by
  intro js
  induction js with
  | nil => intro _ _ c hc; simp at hc
  | cons j js ihj =>
    intro hs hf c hc
    simp only [szJoins] at hs
    simp only [joinsOK3, Bool.and_eq_true] at hf
    rcases List.mem_cons.1 hc with rfl | hc
    · obtain ⟨ty, t, rule⟩ := c
      have h1 := hf.1
      simp only [joinOK3, Bool.and_eq_true] at h1; simp only [szJoin] at hs
      exact ⟨h1.1.1, table_rec n ihq t (by omega) h1.1.2, rule_rec n ihe rule (by omega) h1.2⟩
    · exact ihj (by omega) hf.2 c hc
include ihe in
theorem opt_rec (o : Option Expr) (hs : szO3 o ≤ n) (hf : FragO3 d o = true) : OptRec d ch o := by
  cases o with
  | none => trivial
  | some e => simp only [FragO3] at hf; simp only [szO3] at hs; exact ihe e hs hf
include ihe in
theorem group_rec (hch : ChOK d ch) (gb : Option GroupBy) (hs : szGroup gb ≤ n) (hf : groupOK3 d gb = true) : GroupRec d ch gb := by
  cases gb with
  | none => trivial
  | some g =>
    obtain ⟨cols, sets, cube, rollup⟩ := g
    cases cols with
    | nil => simp [groupOK3] at hf
    | cons e es =>
      cases sets with
      | some l => simp [groupOK3] at hf
      | none =>
        cases cube with
        | true => simp [groupOK3] at hf
        | false =>
          cases rollup with
          | true => simp [groupOK3] at hf
          | false =>
            simp only [groupOK3, Bool.and_eq_true, Bool.not_eq_true'] at hf
            simp only [szGroup, szL3] at hs
            refine ⟨ihe e (by omega) hf.1.1, fun x hx => ?_, hch.grouping e hf.2⟩
            obtain ⟨a, b⟩ := frag2L_mem es hf.1.2 x hx
            exact ihe x (by omega) a
include ihe in
theorem ord_rec (o : OrderItem) (hs : szOrdItem o ≤ n) (hf : ordItemOK3 d o = true) : OrdRec d ch o := by
  obtain ⟨e, desc, nf, nl⟩ := o
  simp only [ordItemOK3, Bool.and_eq_true, Bool.not_eq_true'] at hf; simp only [szOrdItem] at hs
  exact ⟨ihe e hs hf.1.1, hf.1.2, hf.2⟩
include ihe in
theorem ordtail_rec : ∀ os, szOrdL os ≤ n → ordTailOK3 d os = true → ∀ o ∈ os, OrdRec d ch o := by
  intro os
  induction os with
  | nil => intro _ _ c hc; simp at hc
  | cons o os iho =>
    intro hs hf c hc
    simp only [szOrdL] at hs
    simp only [ordTailOK3, Bool.and_eq_true] at hf
    rcases List.mem_cons.1 hc with rfl | hc
    · exact ord_rec n ihe _ (by omega) hf.1
    · exact iho (by omega) hf.2 c hc
include ihe in
theorem order_rec (ob : Option (List OrderItem)) (hs : szOrder ob ≤ n) (hf : orderOK3 d ob = true) : OrderRec d ch ob := by
  cases ob with
  | none => trivial
  | some l =>
    cases l with
    | nil => simp [orderOK3] at hf
    | cons o os =>
      simp only [orderOK3, Bool.and_eq_true] at hf; simp only [szOrder, szOrdL] at hs
      exact ⟨ord_rec n ihe o (by omega) hf.1, ordtail_rec n ihe os (by omega) hf.2⟩

include ihe ihq in
/-- the record of a fragment SELECT whose parts have size `≤ n` -/
theorem srec (hch : ChOK d ch) (s : Select) (hs : szS3 s ≤ n + 1) (hf : FragS3 d s = true) : SRec d ch s := by
  obtain ⟨w, dist, cols, fr, lats, js, wh, gb, hv, ob, sb, db, cb, lm⟩ := s
  cases w with
  | none => simp [FragS3] at hf
  | some w =>
  cases w with
  | cons _ _ => simp [FragS3] at hf
  | nil =>
  cases lats with
  | cons _ _ => simp [FragS3] at hf
  | nil =>
  cases sb with
  | some _ => simp [FragS3] at hf
  | none =>
  cases db with
  | some _ => simp [FragS3] at hf
  | none =>
  cases cb with
  | some _ => simp [FragS3] at hf
  | none =>
  cases cols with
  | nil => simp [FragS3] at hf
  | cons c cs =>
    simp only [FragS3, Bool.and_eq_true, Bool.or_eq_true, Bool.not_eq_true'] at hf
    simp only [szS3] at hs
    obtain ⟨⟨⟨⟨⟨⟨⟨⟨⟨h1, _⟩, h3⟩, h4⟩, h5⟩, h6⟩, h7⟩, h8⟩, h9⟩, h10⟩ := hf
    have hc := cols_rec n ihe (c :: cs) (by omega) h1
    refine ⟨dist, c, cs, fr, js, wh, gb, hv, ob, lm, rfl, hc c (by simp), fun c' h' => hc c' (by simp [h']), ?_,
      from_rec n ihq fr (by omega) h3, joins_rec n ihe ihq js (by omega) h4, opt_rec n ihe wh (by omega) h5,
      group_rec n ihe hch gb (by omega) h6, opt_rec n ihe hv (by omega) h7, order_rec n ihe ob (by omega) h8, h9⟩
    rcases h10 with h | h
    · exact Or.inl h
    · exact Or.inr (hch.dist _ h)
include ihe ihq in
theorem un_rec (hch : ChOK d ch) : ∀ us, szUn us ≤ n + 1 → FragUn d us = true → UnRec d ch us := by
  intro us
  induction us with
  | nil => intro _ _; trivial
  | cons p r ihu =>
    obtain ⟨t, s⟩ := p
    intro hs hf
    simp only [szUn] at hs
    simp only [FragUn, Bool.and_eq_true] at hf
    exact ⟨hf.1.1, srec n ihe ihq hch s (by omega) hf.1.2, ihu (by omega) hf.2⟩
include ihe ihq in
/-- the query half of the induction step -/
theorem query_step (hch : ChOK d ch) : ∀ q, szQ q ≤ n + 1 → FragQ d q = true → QT d ch q := by
  intro q hs hf
  cases q with
  | single s =>
    simp only [FragQ] at hf; simp only [szQ] at hs
    exact qt_single s (srec n ihe ihq hch s (by omega) hf)
  | union ws s us =>
    simp only [szQ] at hs
    cases ws with
    | none => simp [FragQ] at hf
    | some l =>
      cases l with
      | cons _ _ => simp [FragQ] at hf
      | nil =>
        simp only [FragQ, Bool.and_eq_true, Bool.not_eq_true', Bool.true_and] at hf
        exact qt_union s us (srec n ihe ihq hch s (by omega) hf.1.1) (un_rec n ihe ihq hch us (by omega) hf.1.2) hf.2
end step

/-- **the mutual induction** -/
theorem all (hch : ChOK d ch) : ∀ n, (∀ e, szE3 e ≤ n → FragE3 d e = true → RT3 d ch e) ∧ (∀ q, szQ q ≤ n → FragQ d q = true → QT d ch q) := by
  intro n
  induction n with
  | zero =>
    refine ⟨fun e he => ?_, fun q hq => ?_⟩
    · have := szE3_pos e; omega
    · cases q <;> simp [szQ] at hq
  | succ n ih => exact ⟨expr_step n ih.1 ih.2, query_step n ih.1 ih.2 hch⟩
theorem rt3 (hch : ChOK d ch) (e : Expr) (hf : FragE3 d e = true) : RT3 d ch e := (all hch (szE3 e)).1 e (Nat.le_refl _) hf
theorem qt (hch : ChOK d ch) (q : Query) (hf : FragQ d q = true) : QT d ch q := (all hch (szQ q)).2 q (Nat.le_refl _) hf
theorem srec_of (hch : ChOK d ch) (s : Select) (hf : FragS3 d s = true) : SRec d ch s :=
  srec (szS3 s) (fun e _ h => rt3 hch e h) (fun q _ h => qt hch q h) hch s (by omega) hf
theorem unrec_of (hch : ChOK d ch) (us : List (String × Select)) (hf : FragUn d us = true) : UnRec d ch us :=
  un_rec (szUn us) (fun e _ h => rt3 hch e h) (fun q _ h => qt hch q h) hch us (by omega) hf

end TQ
