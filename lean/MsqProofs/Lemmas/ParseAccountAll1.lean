import MsqProofs.Lemmas.ParseAccountAll0
import MsqProofs.Lemmas.ParseAccountAllKw
/-!
# C08, accounting for EVERY function of the parser model — hand-written base, part 2: accounted tokens, primitives, helpers

* `KWA` (generated, `ParseAccountAllKw.lean`): the union of the per-function sets `kw f` (string constants the model compares token
  sources with) and the keys of the generated operator / enum tables.  `KwTok t`: the (upper-cased, or unquoted and upper-cased)
  source of `t` is one of them.
* `Acc T t` — the token `t` is accounted for by the set of texts `T`:
  `text` its source is in `T`; `name` its source after `unifyName` is; `dotted` it is a dotted name in one token and both halves are;
  `int` it is an integer literal and the decimal text of its VALUE is (`LIMIT 010` is stored as `10`); `kw` it is a grammar word;
  `group` it is a bracket group (`PARENTHESIS` / `ARRAY_INDEX` mark, or it has children) and all its children are accounted for.
  `text` / `name` applied to a GROUP token is class F-C08-5 (the concatenated text of a bracket group taken as a name): the
  relation descends only where the parser did.
* `AR T tx pl ts pre prePl a` — the run `a` on the cursor `ts`: if it succeeds with `(v, r)` and `v` is in the `Full` fragment (`pl v`),
  then what the function was handed is (`prePl`), and if `T` contains the texts of `v` then every token consumed between `ts` and
  `r` is accounted for by `T`, and `T` contains the texts handed in (`pre`).  `T` is FIXED throughout the induction.
-/
set_option linter.unusedVariables false
set_option linter.unusedSectionVars false
set_option linter.unusedSimpArgs false
set_option maxHeartbeats 1000000
open Lex PM Ast

namespace PA

/-! ### grammar words -/
def isKW (s : String) : Bool := KWA.contains s
/-- a constant of the model that is compared with upper-cased sources (`equals`, `*_use_upper`) or with raw sources -/
def kwOk (k : String) : Bool := isKW k && isKW (up k)
def allKw (ks : List String) : Bool := ks.all kwOk
def tblKw (tbl : List (String × List String)) : Bool := tbl.all fun e => allKw e.2
/-- the token is a word of the grammar -/
def KwTok (t : Tok) : Bool := isKW (up t.src) || isKW t.src || isKW (up (unifyName t.src))
@[grind =] theorem kwTok_def (t : Tok) : KwTok t = (isKW (up t.src) || isKW t.src || isKW (up (unifyName t.src))) := rfl

/-- a bracket group: what the parser tests (`PARENTHESIS` / `ARRAY_INDEX` mark), or a token that has children -/
def Groupish (t : Tok) : Bool := t.has PAREN || t.has ARRAY || !t.children.isEmpty
@[grind =] theorem groupish_def (t : Tok) : Groupish t = (t.has PAREN || t.has ARRAY || !t.children.isEmpty) := rfl

/-- the token is accounted for by the texts `T` -/
inductive Acc (T : List String) : Tok → Prop
  | text {t : Tok} : t.src ∈ T → Acc T t
  | name {t : Tok} : unifyName t.src ∈ T → Acc T t
  | dotted {t : Tok} {a b : String} : splitName t.src = .ok (some a, b) → a ∈ T → b ∈ T → Acc T t
  | int {t : Tok} {n : Int} : pyInt t.src = .ok n → toString n ∈ T → Acc T t
  | kw {t : Tok} : KwTok t = true → Acc T t
  | group {t : Tok} : Groupish t = true → (∀ c, c ∈ t.children → Acc T c) → Acc T t

/-- a term that mentions `T` (for the patterns of the lemmas below) -/
def Anchor (T : List String) : Prop := True
def AccAll (T : List String) (ts : List Tok) : Prop := ∀ t, t ∈ ts → Acc T t
/-- `r` is a rest of `ts` and every token consumed in between is accounted for by `T` -/
def Acc3 (T : List String) (ts r : List Tok) : Prop := ∃ used, ts = used ++ r ∧ AccAll T used
/-- `r` is a rest of `ts` and every token consumed in between is a word of the grammar -/
def KwSeg (ts r : List Tok) : Prop := ∃ used, ts = used ++ r ∧ ∀ t, t ∈ used → KwTok t = true

@[grind =] theorem accAll_nil (T) : AccAll T [] = True := by simp [AccAll]
@[grind =] theorem accAll_cons (T) (t : Tok) (ts) : AccAll T (t :: ts) = (Acc T t ∧ AccAll T ts) := by simp [AccAll]
@[grind =] theorem accAll_append (T) (a b : List Tok) : AccAll T (a ++ b) = (AccAll T a ∧ AccAll T b) := by
  simp only [AccAll, List.mem_append, eq_iff_iff]
  exact ⟨fun h => ⟨fun t ht => h t (Or.inl ht), fun t ht => h t (Or.inr ht)⟩, fun h t ht => ht.elim (h.1 t) (h.2 t)⟩
theorem Acc3.sfx {T ts r} (h : Acc3 T ts r) : Sfx r ts := by obtain ⟨u, hu, _⟩ := h; exact ⟨u, hu⟩
theorem Acc3.refl (T : List String) (ts : List Tok) : Acc3 T ts ts := ⟨[], rfl, by simp [AccAll]⟩
@[grind =] theorem acc3_self (T : List String) (ts : List Tok) : Acc3 T ts ts = True := by simp [Acc3.refl]
theorem Acc3.trans {T a b c} (h1 : Acc3 T a b) (h2 : Acc3 T b c) : Acc3 T a c := by
  obtain ⟨u, rfl, hu⟩ := h1; obtain ⟨w, rfl, hw⟩ := h2
  exact ⟨u ++ w, by simp, by rw [accAll_append]; exact ⟨hu, hw⟩⟩
grind_pattern Acc3.trans => Acc3 T a b, Acc3 T b c
theorem acc3_cons {T : List String} {t : Tok} {r r' : List Tok} (ht : Acc T t) (h : Acc3 T r r') : Acc3 T (t :: r) r' := by
  obtain ⟨u, rfl, hu⟩ := h
  exact ⟨t :: u, rfl, by rw [accAll_cons]; exact ⟨ht, hu⟩⟩
grind_pattern acc3_cons => Acc3 T (t :: r) r'
@[grind =] theorem acc3_nil (T : List String) (cs : List Tok) : Acc3 T cs [] = AccAll T cs := by
  simp only [Acc3, List.append_nil, eq_iff_iff]
  exact ⟨fun ⟨u, hu, h⟩ => hu ▸ h, fun h => ⟨cs, rfl, h⟩⟩
theorem acc3_accAll {T : List String} {ts r : List Tok} (h : Acc3 T ts r) (h' : AccAll T r) : AccAll T ts := by
  obtain ⟨u, rfl, hu⟩ := h; rw [accAll_append]; exact ⟨hu, h'⟩
grind_pattern acc3_accAll => Acc3 T ts r, AccAll T r
theorem acc3_drop1 {T : List String} {t : Tok} {r : List Tok} (ht : Acc T t) : Acc3 T (t :: r) r := acc3_cons ht (Acc3.refl T r)
theorem acc_group {T : List String} {t : Tok} (h : AccAll T t.children) (hb : Groupish t = true) : Acc T t := .group hb h
grind_pattern acc_group => AccAll T t.children
theorem acc_text {T : List String} {t : Tok} (h : t.src ∈ T) : Acc T t := .text h
grind_pattern acc_text => t.src ∈ T
theorem acc_name {T : List String} {t : Tok} (h : unifyName t.src ∈ T) : Acc T t := .name h
grind_pattern acc_name => unifyName t.src ∈ T
theorem acc_kw {T : List String} {t : Tok} (h : KwTok t = true) : Acc T t := .kw h
grind_pattern acc_kw => Acc T t, KwTok t

theorem KwSeg.refl (ts : List Tok) : KwSeg ts ts := ⟨[], rfl, by simp⟩
@[grind =] theorem kwSeg_self (ts : List Tok) : KwSeg ts ts = True := by simp [KwSeg.refl]
theorem KwSeg.acc3 {ts r} (h : KwSeg ts r) (T : List String) : Acc3 T ts r := by
  obtain ⟨u, hu, h⟩ := h; exact ⟨u, hu, fun t ht => .kw (h t ht)⟩
grind_pattern KwSeg.acc3 => KwSeg ts r, Anchor T
theorem KwSeg.trans {a b c} (h1 : KwSeg a b) (h2 : KwSeg b c) : KwSeg a c := by
  obtain ⟨u, rfl, hu⟩ := h1; obtain ⟨w, rfl, hw⟩ := h2
  exact ⟨u ++ w, by simp, fun t ht => (List.mem_append.1 ht).elim (hu t) (hw t)⟩
grind_pattern KwSeg.trans => KwSeg a b, KwSeg b c
theorem kwSeg_acc3_trans {T a b c} (h1 : KwSeg a b) (h2 : Acc3 T b c) : Acc3 T a c := (h1.acc3 T).trans h2
grind_pattern kwSeg_acc3_trans => KwSeg a b, Acc3 T b c
theorem acc3_kwSeg_trans {T a b c} (h1 : Acc3 T a b) (h2 : KwSeg b c) : Acc3 T a c := h1.trans (h2.acc3 T)
grind_pattern acc3_kwSeg_trans => Acc3 T a b, KwSeg b c
theorem kwSeg_cons {t : Tok} {r : List Tok} (h : KwTok t = true) : KwSeg (t :: r) r := ⟨[t], rfl, by simpa using h⟩
grind_pattern kwSeg_cons => t :: r
theorem kwSeg_cons_of {t : Tok} {r r' : List Tok} (h : KwTok t = true) (h' : KwSeg r r') : KwSeg (t :: r) r' := (kwSeg_cons h).trans h'
/-- the keyword segment of a token list that is accounted for as a whole -/
theorem kwSeg_nil_accAll {T ts} (h : KwSeg ts []) : AccAll T ts := by
  have := h.acc3 T; rwa [acc3_nil] at this

/-! ### the relations the accounting lemmas are stated with -/
def AR (T : List String) {α : Type} (tx : α → List String) (pl : α → Bool) (ts : List Tok) (pre : List String) (prePl : Bool) (a : R α) : Prop :=
  ∀ v r, a = .ok (v, r) → pl v = true → prePl = true ∧ (Sub (tx v) T → Acc3 T ts r ∧ Sub pre T)
@[grind =] theorem ar_ok (T) {α : Type} (tx : α → List String) (pl : α → Bool) (ts pre prePl) (v : α) (r : List Tok) :
    AR T tx pl ts pre prePl (.ok (v, r)) = (pl v = true → prePl = true ∧ (Sub (tx v) T → Acc3 T ts r ∧ Sub pre T)) := by simp [AR]
@[grind =] theorem ar_error (T) {α : Type} (tx : α → List String) (pl : α → Bool) (ts pre prePl) (e : Err) :
    AR T tx pl ts pre prePl (.error e : R α) = True := by simp [AR]
/-- the functions that return `Option (value × cursor)`; `kw`: the keyword the caller has consumed is a grammar word -/
def ARO (T : List String) (ts : List Tok) (bv : Expr) (kw : Bool) (a : Except Err (Option (Expr × List Tok))) : Prop :=
  ∀ v r, a = .ok (some (v, r)) → FullE v = true → FullE bv = true ∧ kw = true ∧ (Sub (tE v) T → Acc3 T ts r ∧ Sub (tE bv) T)
@[grind =] theorem aro_some (T ts bv kw) (v : Expr) (r : List Tok) :
    ARO T ts bv kw (.ok (some (v, r))) = (FullE v = true → FullE bv = true ∧ kw = true ∧ (Sub (tE v) T → Acc3 T ts r ∧ Sub (tE bv) T)) := by
  simp [ARO]
@[grind =] theorem aro_none (T ts bv kw) : ARO T ts bv kw (.ok none) = True := by simp [ARO]
@[grind =] theorem aro_error (T ts bv kw) (e : Err) : ARO T ts bv kw (.error e) = True := by simp [ARO]
/-- the functions that run on a whole (child) cursor and return no rest: every token of `ts` is accounted for -/
def ARV (T : List String) {α : Type} (tx : α → List String) (pl : α → Bool) (ts : List Tok) (pre : List String) (prePl : Bool) (a : Except Err α) : Prop :=
  ∀ v, a = .ok v → pl v = true → prePl = true ∧ (Sub (tx v) T → AccAll T ts ∧ Sub pre T)
@[grind =] theorem arv_ok (T) {α : Type} (tx : α → List String) (pl : α → Bool) (ts pre prePl) (v : α) :
    ARV T tx pl ts pre prePl (.ok v) = (pl v = true → prePl = true ∧ (Sub (tx v) T → AccAll T ts ∧ Sub pre T)) := by simp [ARV]
@[grind =] theorem arv_error (T) {α : Type} (tx : α → List String) (pl : α → Bool) (ts pre prePl) (e : Err) :
    ARV T tx pl ts pre prePl (.error e : Except Err α) = True := by simp [ARV]
/-- `pSingleParen`: the whole inner cursor is parsed, the rest is the outer cursor -/
def ARP (T : List String) (inner outer : List Tok) (pre : List String) (prePl : Bool) (a : R Select) : Prop :=
  ∀ v r, a = .ok (v, r) → FullSel v = true → prePl = true ∧ r = outer ∧ (Sub (tSel v) T → AccAll T inner ∧ Sub pre T)
@[grind =] theorem arp_ok (T inner outer pre prePl) (v : Select) (r : List Tok) :
    ARP T inner outer pre prePl (.ok (v, r)) = (FullSel v = true → prePl = true ∧ r = outer ∧ (Sub (tSel v) T → AccAll T inner ∧ Sub pre T)) := by
  simp [ARP]
@[grind =] theorem arp_error (T inner outer pre prePl) (e : Err) : ARP T inner outer pre prePl (.error e) = True := by simp [ARP]
/-- the WITH clause a SELECT-building function was handed is the one it stores -/
def WRel (w : List WithTable) (a : R Select) : Prop := ∀ v r, a = .ok (v, r) → withsOf v = some w
@[grind =] theorem wrel_ok (w) (v : Select) (r : List Tok) : WRel w (.ok (v, r)) = (withsOf v = some w) := by simp [WRel]
@[grind =] theorem wrel_error (w) (e : Err) : WRel w (.error e) = True := by simp [WRel]
/-- the rest is reached over grammar words only -/
def KwRel {α : Type} (ts : List Tok) (a : R α) : Prop := ∀ v r, a = .ok (v, r) → KwSeg ts r
@[grind =] theorem kwRel_ok {α : Type} (ts : List Tok) (v : α) (r : List Tok) : KwRel ts (.ok (v, r) : R α) = KwSeg ts r := by simp [KwRel]
@[grind =] theorem kwRel_error {α : Type} (ts : List Tok) (e : Err) : KwRel ts (.error e : R α) = True := by simp [KwRel]

/-- texts of small results -/
def tS (s : String) : List String := [s]
def tU (s : String) : List String := [unifyName s]
def tI (n : Int) : List String := [toString n]
def tt {α : Type} (_ : α) : Bool := true
@[grind =] theorem tS_def (s) : tS s = [s] := rfl
@[grind =] theorem tU_def (s) : tU s = [unifyName s] := rfl
@[grind =] theorem tI_def (n) : tI n = [toString n] := rfl
@[grind =] theorem tt_def {α : Type} (a : α) : tt a = true := rfl
def tWG (p : Option Expr × Option GroupBy) : List String := tOpt p.1 ++ tOGB p.2
def FullWG (p : Option Expr × Option GroupBy) : Bool := FullO p.1 && FullOGB p.2
def tHO (p : Option Expr × Option (List OrderItem)) : List String := tOpt p.1 ++ tOOrds p.2
def FullHO (p : Option Expr × Option (List OrderItem)) : Bool := FullO p.1 && FullOOrds p.2
def tHC (p : Option (List OrderItem) × Option (List Expr) × Option (List Expr)) : List String := tOOrds p.1 ++ (tOL p.2.1 ++ tOL p.2.2)
def FullHC (p : Option (List OrderItem) × Option (List Expr) × Option (List Expr)) : Bool := FullOOrds p.1 && (FullOL p.2.1 && FullOL p.2.2)
def FullSets (gs : List (List Expr)) : Bool := FullOLL (some gs)
@[grind =] theorem tWG_def (a b) : tWG (a, b) = tOpt a ++ tOGB b := rfl
@[grind =] theorem FullWG_def (a b) : FullWG (a, b) = (FullO a && FullOGB b) := rfl
@[grind =] theorem tHO_def (a b) : tHO (a, b) = tOpt a ++ tOOrds b := rfl
@[grind =] theorem FullHO_def (a b) : FullHO (a, b) = (FullO a && FullOOrds b) := rfl
@[grind =] theorem tHC_def (a b c) : tHC (a, b, c) = tOOrds a ++ (tOL b ++ tOL c) := rfl
@[grind =] theorem FullHC_def (a b c) : FullHC (a, b, c) = (FullOOrds a && (FullOL b && FullOL c)) := rfl
@[grind =] theorem FullSets_def (gs) : FullSets gs = FullOLL (some gs) := rfl
@[grind =] theorem mem_singleton_str (a b : String) : (a ∈ [b]) = (a = b) := by simp

/-! ### the cursor primitives -/
@[grind =] theorem drop_drop_g (i j : Nat) (ts : List Tok) : (ts.drop j).drop i = ts.drop (j + i) := by simp [Nat.add_comm]
theorem srcEqUp_kw {t : Tok} {k : String} (h : t.srcEqUp k = true) (hk : kwOk k = true) : KwTok t = true := by
  simp only [Tok.srcEqUp, beq_iff_eq] at h
  simp only [kwOk, Bool.and_eq_true] at hk
  simp [KwTok, h, hk.1]
grind_pattern srcEqUp_kw => t.srcEqUp k, kwOk k
theorem srcEq_kw {t : Tok} {k : String} (h : t.srcEq k = true) (hk : kwOk k = true) : KwTok t = true := by
  simp only [Tok.srcEq, beq_iff_eq] at h
  simp only [kwOk, Bool.and_eq_true] at hk
  simp [KwTok, h, hk.1]
grind_pattern srcEq_kw => t.srcEq k, kwOk k
theorem equalsStr_kw {t : Tok} {k : String} (h : t.equalsStr k = true) (hk : kwOk k = true) : KwTok t = true := by
  simp only [kwOk, Bool.and_eq_true] at hk
  cases t with
  | single s m =>
    simp only [Tok.equalsStr, beq_iff_eq] at h
    have : Tok.src (.single s m) = String.ofList s := rfl
    simp [KwTok, this, h, hk.2]
  | group k cs m => simp [Tok.equalsStr] at h
grind_pattern equalsStr_kw => t.equalsStr k, kwOk k
theorem upsrc_kw {t : Tok} {k : String} (h : up t.src = k) (hk : kwOk k = true) : KwTok t = true := by
  simp only [kwOk, Bool.and_eq_true] at hk
  simp [KwTok, h, hk.1]
grind_pattern upsrc_kw => up t.src, kwOk k

theorem matchKw_kw (ts : List Tok) (k : String) (hk : kwOk k = true) : KwRel ts (matchKw ts k) := by
  intro v r h
  cases ts with
  | nil => simp [matchKw] at h
  | cons t ts =>
    simp only [matchKw] at h
    split at h <;> simp at h
    rename_i he; subst h; exact kwSeg_cons (equalsStr_kw he hk)
grind_pattern matchKw_kw => matchKw ts k, kwOk k
theorem searchStrUp_kw (ts : List Tok) (k : String) (h : searchStrUp ts k = true) (hk : kwOk k = true) : KwSeg ts (ts.drop 1) := by
  cases ts with
  | nil => simp [searchStrUp] at h
  | cons t r => exact kwSeg_cons (srcEqUp_kw (by simpa [searchStrUp] using h) hk)
grind_pattern searchStrUp_kw => searchStrUp ts k, kwOk k
theorem searchStr_kw (ts : List Tok) (k : String) (h : searchStr ts k = true) (hk : kwOk k = true) : KwSeg ts (ts.drop 1) := by
  cases ts with
  | nil => simp [searchStr] at h
  | cons t r => exact kwSeg_cons (srcEq_kw (by simpa [searchStr] using h) hk)
grind_pattern searchStr_kw => searchStr ts k, kwOk k
theorem moveStrUp_kw (ts : List Tok) (k : String) (hk : kwOk k = true) : KwSeg ts (moveStrUp ts k).2 := by
  unfold moveStrUp; split
  · rename_i h; exact searchStrUp_kw ts k h hk
  · exact KwSeg.refl _
grind_pattern moveStrUp_kw => moveStrUp ts k, kwOk k
theorem moveStr_kw (ts : List Tok) (k : String) (hk : kwOk k = true) : KwSeg ts (moveStr ts k).2 := by
  unfold moveStr; split
  · rename_i h; exact searchStr_kw ts k h hk
  · exact KwSeg.refl _
grind_pattern moveStr_kw => moveStr ts k, kwOk k
theorem searchTwoUp_kw (ts : List Tok) (a b : String) (h : searchTwoUp ts a b = true) (ha : kwOk a = true) (hb : kwOk b = true) :
    KwSeg ts (ts.drop 2) := by
  match ts, h with
  | x :: y :: r, h =>
    simp only [searchTwoUp, Bool.and_eq_true] at h
    exact kwSeg_cons_of (srcEqUp_kw h.1 ha) (kwSeg_cons (srcEqUp_kw h.2 hb))
grind_pattern searchTwoUp_kw => searchTwoUp ts a b, kwOk a, kwOk b
theorem moveTwoUp_kw (ts : List Tok) (a b : String) (ha : kwOk a = true) (hb : kwOk b = true) : KwSeg ts (moveTwoUp ts a b).2 := by
  unfold moveTwoUp; split
  · rename_i h; exact searchTwoUp_kw ts a b h ha hb
  · exact KwSeg.refl _
grind_pattern moveTwoUp_kw => moveTwoUp ts a b, kwOk a, kwOk b
theorem searchThreeUp_kw (ts : List Tok) (a b c : String) (h : searchThreeUp ts a b c = true) (ha : kwOk a = true) (hb : kwOk b = true)
    (hc : kwOk c = true) : KwSeg ts (ts.drop 3) := by
  match ts, h with
  | x :: y :: z :: r, h =>
    simp only [searchThreeUp, Bool.and_eq_true] at h
    exact kwSeg_cons_of (srcEqUp_kw h.1.1 ha) (kwSeg_cons_of (srcEqUp_kw h.1.2 hb) (kwSeg_cons (srcEqUp_kw h.2 hc)))
grind_pattern searchThreeUp_kw => searchThreeUp ts a b c, kwOk a, kwOk b, kwOk c
theorem moveThreeUp_kw (ts : List Tok) (a b c : String) (ha : kwOk a = true) (hb : kwOk b = true) (hc : kwOk c = true) :
    KwSeg ts (moveThreeUp ts a b c).2 := by
  unfold moveThreeUp; split
  · rename_i h; exact searchThreeUp_kw ts a b c h ha hb hc
  · exact KwSeg.refl _
grind_pattern moveThreeUp_kw => moveThreeUp ts a b c, kwOk a, kwOk b, kwOk c
theorem searchSeq_kw : ∀ (ks : List String) (ts : List Tok), searchSeq ts ks = true → allKw ks = true → KwSeg ts (ts.drop ks.length) := by
  intro ks
  induction ks with
  | nil => intro ts _ _; simp [KwSeg.refl]
  | cons k ks ih =>
    intro ts h hk
    cases ts with
    | nil => simp [searchSeq] at h
    | cons t r =>
      simp only [searchSeq, Bool.and_eq_true] at h
      simp only [allKw, List.all_cons, Bool.and_eq_true] at hk
      exact kwSeg_cons_of (equalsStr_kw h.1 hk.1) (by simpa using ih r h.2 (by simpa [allKw] using hk.2))
theorem searchSeq_kw_g (ks : List String) (ts : List Tok) (n : Nat) (h : searchSeq ts ks = true) (hk : allKw ks = true) (hn : n = ks.length) :
    KwSeg ts (ts.drop n) := hn ▸ searchSeq_kw ks ts h hk
grind_pattern searchSeq_kw_g => searchSeq ts ks, List.drop n ts, allKw ks
theorem matchSeq_kw : ∀ (ks : List String) (ts : List Tok), allKw ks = true → KwRel ts (matchSeq ts ks) := by
  intro ks
  induction ks with
  | nil => intro ts _ v r h; simp [matchSeq] at h; subst h; exact KwSeg.refl _
  | cons k ks ih =>
    intro ts hk v r h
    simp only [allKw, List.all_cons, Bool.and_eq_true] at hk
    cases ts with
    | nil => simp [matchSeq] at h
    | cons t ts =>
      simp only [matchSeq] at h
      split at h
      · rename_i he
        exact kwSeg_cons_of (equalsStr_kw he hk.1) (ih ts (by simpa [allKw] using hk.2) v r h)
      · simp at h
grind_pattern matchSeq_kw => matchSeq ts ks, allKw ks
theorem firstEnum_kw (tbl : List (String × List String)) (ts : List Tok) (n : String) (r : List Tok)
    (h : firstEnum tbl ts = some (n, r)) (hk : tblKw tbl = true) : KwSeg ts r := by
  induction tbl with
  | nil => simp [firstEnum] at h
  | cons e tbl ih =>
    obtain ⟨m, ks⟩ := e
    simp only [tblKw, List.all_cons, Bool.and_eq_true] at hk
    simp only [firstEnum] at h
    split at h
    · rename_i hs
      simp only [Option.some.injEq, Prod.mk.injEq] at h; rw [← h.2]; exact searchSeq_kw ks ts hs hk.1
    · exact ih h (by simpa [tblKw] using hk.2)
grind_pattern firstEnum_kw => firstEnum tbl ts, some (n, r), tblKw tbl
theorem notSet_kw (d : Gen.D) (s : String) (h : (Gen.notSet d).contains s = true) : isKW s = true := by
  simp only [isKW, KWA, kwTables, List.contains_eq_mem, List.mem_append, List.mem_flatMap, decide_eq_true_eq] at h ⊢
  exact Or.inr (Or.inl (Or.inl (Or.inl (Or.inl (Or.inl (Or.inl (Or.inr ⟨d, by cases d <;> simp [Gen.allD], h⟩)))))))
grind_pattern notSet_kw => (Gen.notSet d).contains s
theorem unarySet_kw (d : Gen.D) (s : String) (h : (Gen.unarySet d).contains s = true) : isKW s = true := by
  simp only [isKW, KWA, kwTables, List.contains_eq_mem, List.mem_append, List.mem_flatMap, decide_eq_true_eq] at h ⊢
  exact Or.inr (Or.inl (Or.inl (Or.inl (Or.inl (Or.inl (Or.inr ⟨d, by cases d <;> simp [Gen.allD], h⟩))))))
grind_pattern unarySet_kw => (Gen.unarySet d).contains s
theorem computeOp_kw (s : String) (x : String × Nat) (h : computeOp? s = some x) : isKW s = true := by
  unfold computeOp? at h
  split at h
  · simp at h
  · rename_i k nm hf
    have := List.mem_of_find?_eq_some hf
    have hk : k = s := by simpa using List.find?_some hf
    subst hk
    simp only [isKW, KWA, kwTables, List.contains_eq_mem, List.mem_append, List.mem_map, decide_eq_true_eq]
    exact Or.inr (Or.inl (Or.inl (Or.inl (Or.inl (Or.inl (Or.inl (Or.inl (Or.inl ⟨_, this, rfl⟩))))))))
grind_pattern computeOp_kw => computeOp? s, some x
theorem compareOp_kw (s : String) (o : String) (h : compareOp? s = some o) : isKW s = true := by
  unfold compareOp? at h
  simp only [Option.map_eq_some_iff] at h
  obtain ⟨p, hf, _⟩ := h
  have := List.mem_of_find?_eq_some hf
  have hk : p.1 = s := by simpa using List.find?_some hf
  subst hk
  simp only [isKW, KWA, kwTables, List.contains_eq_mem, List.mem_append, List.mem_map, decide_eq_true_eq]
  exact Or.inr (Or.inl (Or.inl (Or.inl (Or.inl (Or.inl (Or.inl (Or.inl (Or.inr ⟨_, this, rfl⟩))))))))
grind_pattern compareOp_kw => compareOp? s, some o
theorem skipNot_kw (d : Gen.D) (ts : List Tok) : KwSeg ts (skipNot d ts).2 := by
  unfold skipNot; split
  · split
    · rename_i h; exact kwSeg_cons (by simp [KwTok, notSet_kw d _ h])
    · exact KwSeg.refl _
  · exact KwSeg.refl _
grind_pattern skipNot_kw => skipNot d ts

/-! ### primitives that store what they consume -/
theorem pop_src (ts : List Tok) (t : Tok) (r : List Tok) (h : pop ts = .ok (t, r)) : ts = t :: r := by
  cases ts <;> simp [pop] at h; obtain ⟨rfl, rfl⟩ := h; rfl
/-- `pop_as_source`: the source is stored verbatim, or after `unifyName`, or it is a grammar word -/
theorem popSrc_acc (T) (ts : List Tok) (s : String) (r : List Tok) (h : popSrc ts = .ok (s, r)) :
    (s ∈ T → Acc3 T ts r) ∧ (unifyName s ∈ T → Acc3 T ts r) ∧ ((isKW (up s) || isKW s || isKW (up (unifyName s))) = true → KwSeg ts r) := by
  cases ts <;> simp [popSrc] at h
  obtain ⟨rfl, rfl⟩ := h
  exact ⟨fun hs => acc3_drop1 (.text hs), fun hs => acc3_drop1 (.name hs), fun hk => kwSeg_cons hk⟩
grind_pattern popSrc_acc => popSrc ts, Except.ok (s, r), Anchor T
theorem asInt_pyInt (s : String) (n : Int) (h : asInt s = .ok n) : pyInt s = .ok n := by
  unfold asInt at h
  split at h
  · simp at h
  · split at h
    · split at h <;> simp_all
    · simp at h
theorem popInt_acc (T) (ts : List Tok) (n : Int) (r : List Tok) (h : popInt ts = .ok (n, r)) (hn : toString n ∈ T) : Acc3 T ts r := by
  cases ts with
  | nil => simp [popInt] at h
  | cons t ts =>
    simp only [popInt] at h
    split at h <;> simp at h
    rename_i m hm
    obtain ⟨rfl, rfl⟩ := h
    exact acc3_drop1 (.int hm hn)
grind_pattern popInt_acc => popInt ts, Except.ok (n, r), toString n ∈ T
theorem popAsInt_acc (T) (ts : List Tok) (n : Int) (r : List Tok) (h : popAsInt ts = .ok (n, r)) (hn : toString n ∈ T) : Acc3 T ts r := by
  cases ts with
  | nil => simp [popAsInt] at h
  | cons t ts =>
    simp only [popAsInt] at h
    split at h <;> simp at h
    rename_i m hm
    obtain ⟨rfl, rfl⟩ := h
    exact acc3_drop1 (.int (asInt_pyInt _ _ hm) hn)
grind_pattern popAsInt_acc => popAsInt ts, Except.ok (n, r), toString n ∈ T
theorem getAliasName_acc (T) (ts : List Tok) (n : String) (r : List Tok) (h : getAliasName ts = .ok (n, r)) (hn : n ∈ T) : Acc3 T ts r := by
  cases ts with
  | nil => simp [getAliasName] at h
  | cons t ts =>
    simp only [getAliasName] at h
    split at h <;> simp at h
    obtain ⟨rfl, rfl⟩ := h
    exact acc3_drop1 (.name hn)
grind_pattern getAliasName_acc => getAliasName ts, Except.ok (n, r), n ∈ T


/-! ### bracket groups -/
theorem acc_group2 {T : List String} {t : Tok} (h : AccAll T t.children)
    (hb : t.children ≠ [] ∨ t.has PAREN = true ∨ t.has ARRAY = true) : Acc T t := by
  refine .group ?_ h
  rcases hb with hb | hb | hb <;> simp [Groupish, hb]
grind_pattern acc_group2 => AccAll T t.children
theorem fullNE_ne (ps : List Expr) (h : FullNE ps = true) : ps ≠ [] := by cases ps <;> simp_all [FullNE]
grind_pattern fullNE_ne => FullNE ps
theorem fullNE_L (ps : List Expr) (h : FullNE ps = true) : FullL ps = true := by cases ps <;> simp_all [FullNE, FullL]
grind_pattern fullNE_L => FullNE ps
/-- splitting at commas loses commas only -/
theorem accAll_splitBy (T) (cs : List Tok) (h : AccAll T (splitBy "," cs [] []).flatten) : AccAll T cs := by
  have hk : kwOk "," = true := by decide
  rw [splitBy_flatten] at h
  intro t ht
  by_cases hc : t.equalsStr "," = true
  · exact .kw (equalsStr_kw hc hk)
  · exact h t (by simp [ht, hc])
grind_pattern accAll_splitBy => AccAll T (splitBy "," cs [] []).flatten
theorem splitBy_nil_or (cs : List Tok) : cs ≠ [] ∨ splitBy "," cs [] [] = [] := by
  cases cs <;> simp [splitBy]
grind_pattern splitBy_nil_or => splitBy "," cs [] []
theorem accAll_drop1 (T) (l : List Tok) (k : String) (h : AccAll T (l.drop 1)) (hs : searchStrUp l k = true) (hk : kwOk k = true) : AccAll T l := by
  cases l with
  | nil => simp [searchStrUp] at hs
  | cons x r =>
    rw [accAll_cons]
    exact ⟨.kw (srcEqUp_kw (by simpa [searchStrUp] using hs) hk), by simpa using h⟩
theorem accAll_substringRewrite (T) (u : String) (cs : List Tok) (h : AccAll T (substringRewrite u cs)) : AccAll T cs := by
  have h1 : kwOk "FROM" = true := by decide
  have h2 : kwOk "FOR" = true := by decide
  unfold substringRewrite at h
  split at h
  · intro t ht
    by_cases hc : (up t.src == "FROM" || up t.src == "FOR") = true
    · simp only [Bool.or_eq_true, beq_iff_eq] at hc
      rcases hc with hc | hc
      · exact .kw (upsrc_kw hc h1)
      · exact .kw (upsrc_kw hc h2)
    · apply h
      simp only [List.mem_map]
      exact ⟨t, ht, by simp [hc]⟩
  · exact h
/-- the argument tokens of a call: `FROM` / `FOR` of `SUBSTRING` and a leading `DISTINCT` are grammar words -/
theorem accAll_callPrep (T) (name : String) (g : Tok) (h : AccAll T (callPrep name g).2.2) : AccAll T g.children := by
  have h3 : kwOk "DISTINCT" = true := by decide
  rcases callPrep_args name g with ⟨_, h2⟩ | ⟨_, hs, h2⟩
  · rw [h2] at h; exact accAll_substringRewrite T _ _ h
  · rw [h2] at h; exact accAll_substringRewrite T _ _ (accAll_drop1 T _ _ h hs h3)
grind_pattern accAll_callPrep => AccAll T (callPrep name g).2.2
theorem callPrep_nil_or (name : String) (g : Tok) : g.children ≠ [] ∨ (callPrep name g).2.2 = [] := by
  by_cases h : g.children = []
  · right
    rcases callPrep_args name g with ⟨_, h2⟩ | ⟨_, _, h2⟩ <;> rw [h2, h] <;> simp [substringRewrite]
  · exact Or.inl h
grind_pattern callPrep_nil_or => (callPrep name g).2.2

/-! ### degenerate results: the parser was handed an empty child cursor -/
theorem call_nonempty (d : Gen.D) (n : Nat) (cs : List Tok) (acc : List Expr) (r2 : List Tok) (ps : List Expr) (r3 : List Tok)
    (h1 : pFirstArg d n cs = .ok (acc, r2)) (h2 : pArgs d n acc r2 = .ok (ps, r3)) : cs ≠ [] ∨ ps = [] := by
  by_cases hc : cs = []
  · right; subst hc
    cases n with
    | zero => simp [pFirstArg] at h1
    | succ n =>
      simp [pFirstArg] at h1
      obtain ⟨rfl, rfl⟩ := h1
      simp [pArgs, moveStr, searchStr] at h2
      exact h2.1
  · exact Or.inl hc
grind_pattern call_nonempty => pFirstArg d n cs, pArgs d n acc r2, Except.ok (acc, r2), Except.ok (ps, r3)
theorem split_nonempty (d : Gen.D) (n : Nat) (cs : List Tok) (vs : List Expr) (h : pSplit d n [] [] cs = .ok vs) : cs ≠ [] ∨ vs = [] := by
  by_cases hc : cs = []
  · right; subst hc
    cases n with
    | zero => simp [pSplit] at h
    | succ n => simp [pSplit] at h; exact h
  · exact Or.inl hc
grind_pattern split_nonempty => pSplit d n [] [] cs, Except.ok vs
theorem windowBody_nonempty (d : Gen.D) (n : Nat) (fn : Expr) (cs : List Tok) (w : Expr) (h : pWindowBody d n fn cs = .ok w) :
    cs ≠ [] ∨ w = .window fn [] [] none := by
  by_cases hc : cs = []
  · right; subst hc
    cases n with
    | zero => simp [pWindowBody] at h
    | succ n =>
      cases n with
      | zero => simp [pWindowBody, pPartitionBy] at h
      | succ n =>
        simp [pWindowBody, pPartitionBy, pOrderByOpt, searchTwoUp] at h
        exact h.symm
  · exact Or.inl hc
grind_pattern windowBody_nonempty => pWindowBody d n fn cs, Except.ok w
theorem groupingElems_nonempty (d : Gen.D) (n : Nat) (segs : List (List Tok)) (gs : List (List Expr))
    (h : pGroupingElems d n [] segs = .ok gs) : segs ≠ [] ∨ gs = [] := by
  by_cases hc : segs = []
  · right; subst hc
    cases n with
    | zero => simp [pGroupingElems] at h
    | succ n => simp [pGroupingElems] at h; exact h
  · exact Or.inl hc
grind_pattern groupingElems_nonempty => pGroupingElems d n [] segs, Except.ok gs

/-! ### the helper functions of `MsqModel/Parse/Expr.lean` outside the mutual block -/
def AGRIND := 0
macro "agrind" : tactic => `(tactic| grind -funext (splits := 20) (ematch := 20) (gen := 40) (instances := 20000))

theorem multiAliasLoop_acc (T) : ∀ g acc ts, AR T tStrs tt ts (tStrs acc) true (multiAliasLoop g acc ts) := by
  have hA : Anchor T := trivial
  have hK0 : kwOk "," = true := by decide
  intro g
  induction g with
  | zero => intro acc ts v r h; simp [multiAliasLoop] at h
  | succ g ih =>
    intro acc ts v r h hpl
    unfold multiAliasLoop at h
    split_run <;> agrind
grind_pattern multiAliasLoop_acc => Anchor T, multiAliasLoop g acc ts
theorem pMultiAlias_acc (T) (ts : List Tok) : AR T tStrs tt ts [] true (pMultiAlias ts) := by
  have hA : Anchor T := trivial
  have hK0 : kwOk "AS" = true := by decide
  intro v r h hpl
  unfold pMultiAlias at h
  split_run <;> agrind
grind_pattern pMultiAlias_acc => Anchor T, pMultiAlias ts
theorem splitName_acc (T) (t : Tok) (sch : Option String) (n : String) (h : splitName t.src = .ok (sch, n)) (hs : Sub (tOS sch) T) (hn : n ∈ T) :
    Acc T t := by
  cases sch with
  | some a => exact .dotted h (by simpa [tOS_some, sub_cons, sub_nil] using hs) hn
  | none =>
    unfold splitName at h
    split at h
    · split at h <;> simp at h
    · simp at h; exact .name (h ▸ hn)
grind_pattern splitName_acc => splitName t.src, Except.ok (sch, n), Anchor T
theorem splitName_kw (t : Tok) (n : String) (h : splitName t.src = .ok (none, n)) (hk : isKW (up n) = true) : KwTok t = true := by
  unfold splitName at h
  split at h
  · split at h <;> simp at h
  · simp at h; subst h; simp [KwTok, hk]
def tFN (p : Option String × String) : List String := tOS p.1 ++ [p.2]
@[grind =] theorem tFN_def (a b) : tFN (a, b) = tOS a ++ [b] := rfl
theorem pFuncName_acc (T) (ts : List Tok) : AR T tFN tt ts [] true (pFuncName ts) := by
  have hA : Anchor T := trivial
  have hK0 : kwOk "." = true := by decide
  intro v r h hpl
  unfold pFuncName at h
  split_run <;> agrind
grind_pattern pFuncName_acc => Anchor T, pFuncName ts
/-- the special function names `CAST` / `EXTRACT` / `IF` are grammar words -/
theorem pFuncName_kw0 (ts : List Tok) (n : String) (r : List Tok) (h : pFuncName ts = .ok ((none, n), r)) (hk : isKW (up n) = true) : KwSeg ts r := by
  unfold pFuncName at h
  split at h
  · split at h
    · simp at h
    · split at h
      · split at h <;> simp at h
        rename_i x hx
        obtain ⟨rfl, rfl⟩ := h
        exact kwSeg_cons (splitName_kw _ _ hx hk)
      · simp at h
  · split at h
    · split at h <;> simp at h
      rename_i x hx
      obtain ⟨rfl, rfl⟩ := h
      exact kwSeg_cons (splitName_kw _ _ hx hk)
    · simp at h
  · simp at h
theorem pFuncName_kw (ts : List Tok) (sch : Option String) (n : String) (r : List Tok) (h : pFuncName ts = .ok ((sch, n), r))
    (hs : sch.isNone = true) (hk : isKW (up n) = true) : KwSeg ts r := by
  cases sch with
  | none => exact pFuncName_kw0 ts n r h hk
  | some a => simp at hs
grind_pattern pFuncName_kw => pFuncName ts, Except.ok ((sch, n), r), Option.isNone sch
theorem pAlias_acc (T) (ts : List Tok) : AR T tOS tt ts [] true (pAlias ts) := by
  have hA : Anchor T := trivial
  have hK0 : kwOk "AS" = true := by decide
  intro v r h hpl
  unfold pAlias at h
  split_run <;> agrind
grind_pattern pAlias_acc => Anchor T, pAlias ts
theorem pTableName_acc (T) (ts : List Tok) : AR T tTR tt ts [] true (pTableName ts) := by
  have hA : Anchor T := trivial
  have hK0 : kwOk "." = true := by decide
  intro v r h hpl
  unfold pTableName at h
  split_run <;> agrind
grind_pattern pTableName_acc => Anchor T, pTableName ts
theorem pRowItem_acc (T) (ts : List Tok) : AR T tRow tt ts [] true (pRowItem ts) := by
  have hA : Anchor T := trivial
  have hK0 : kwOk "CURRENT" = true := by decide
  have hK1 : kwOk "ROW" = true := by decide
  have hK2 : kwOk "UNBOUNDED" = true := by decide
  have hK3 : kwOk "PRECEDING" = true := by decide
  have hK4 : kwOk "FOLLOWING" = true := by decide
  intro v r h hpl
  unfold pRowItem at h
  split_run <;> agrind
grind_pattern pRowItem_acc => Anchor T, pRowItem ts
def tRows (p : RowItem × RowItem) : List String := tRow p.1 ++ tRow p.2
@[grind =] theorem tRows_def (p) : tRows p = tRow p.1 ++ tRow p.2 := rfl
theorem pWindowRow_acc (T) (ts : List Tok) : AR T tRows tt ts [] true (pWindowRow ts) := by
  have hA : Anchor T := trivial
  have hS0 : allKw ["ROWS", "BETWEEN"] = true := by decide
  have hS1 : allKw ["AND"] = true := by decide
  intro v r h hpl
  unfold pWindowRow at h
  split_run <;> agrind
grind_pattern pWindowRow_acc => Anchor T, pWindowRow ts
theorem orderTail_acc (T) (e : Expr) (ts : List Tok) : AR T tOrd FullOrd ts (tE e) (FullE e) (orderTail e ts) := by
  have hA : Anchor T := trivial
  have hK0 : kwOk "DESC" = true := by decide
  have hK1 : kwOk "ASC" = true := by decide
  have hK2 : kwOk "NULLS" = true := by decide
  have hK3 : kwOk "FIRST" = true := by decide
  have hK4 : kwOk "LAST" = true := by decide
  intro v r h hpl
  unfold orderTail at h
  simp only at h
  split_run <;> agrind
grind_pattern orderTail_acc => Anchor T, orderTail e ts
theorem pLimit_acc (T) (ts : List Tok) : AR T tLim tt ts [] true (pLimit ts) := by
  have hA : Anchor T := trivial
  have hK0 : kwOk "LIMIT" = true := by decide
  have hK1 : kwOk "," = true := by decide
  have hK2 : kwOk "OFFSET" = true := by decide
  intro v r h hpl
  unfold pLimit at h
  split_run <;> agrind
grind_pattern pLimit_acc => Anchor T, pLimit ts
theorem castParamsLoop_acc (T) : ∀ f acc ts, ARV T tInts tt ts (tInts acc) true (castParamsLoop f acc ts) := by
  have hA : Anchor T := trivial
  have hK0 : kwOk "," = true := by decide
  intro f
  induction f with
  | zero => intro acc ts v h; simp [castParamsLoop] at h
  | succ f ih =>
    intro acc ts v h hpl
    unfold castParamsLoop at h
    split_run <;> agrind
grind_pattern castParamsLoop_acc => Anchor T, castParamsLoop f acc ts
theorem castParams_acc (T) (g : Tok) : ARV T tInts tt g.children [] true (castParams g) := by
  have hA : Anchor T := trivial
  intro v h hpl
  unfold castParams at h
  split_run <;> agrind
grind_pattern castParams_acc => Anchor T, castParams g
theorem find_some_g {α : Type} (p : α → Bool) (l : List α) (a : α) (h : l.find? p = some a) : p a = true ∧ a ∈ l :=
  ⟨List.find?_some h, List.mem_of_find?_eq_some h⟩
grind_pattern find_some_g => List.find? p l, some a
set_option maxRecDepth 100000 in
theorem castTypes_all : Gen.castTypes.all (fun k => kwOk k.2) = true := by decide
theorem castTypes_mem_kw (k : String × String) (h : k ∈ Gen.castTypes) : kwOk k.2 = true := by
  simpa using (List.all_eq_true.1 castTypes_all) k h
grind_pattern castTypes_mem_kw => k ∈ Gen.castTypes
theorem castTail_acc (T) (e : Expr) (ts : List Tok) : ARV T tE FullE ts (tE e) (FullE e) (castTail e ts) := by
  have hA : Anchor T := trivial
  have hK0 : kwOk "SIGNED" = true := by decide
  intro v h hpl
  unfold castTail at h
  simp only at h
  split_run <;> agrind
grind_pattern castTail_acc => Anchor T, castTail e ts


theorem kwOk_isKW (k : String) (h : kwOk k = true) : isKW k = true := by
  simp only [kwOk, Bool.and_eq_true] at h; exact h.1
grind_pattern kwOk_isKW => kwOk k
theorem isNone_eq {α : Type} (o : Option α) (h : o.isNone = true) : o = none := by cases o <;> simp_all
grind_pattern isNone_eq => o.isNone

/-! ### the operand stack of the compute loop -/
theorem full_collapse : ∀ st top, FullE (collapse st top) = (FullSt st && FullE top) := by
  intro st
  induction st with
  | nil => intro top; simp [collapse, FullSt]
  | cons p st ih =>
    intro top; obtain ⟨l, o, k⟩ := p
    simp only [collapse, ih, FullSt, FullE]
    cases FullE l <;> cases FullSt st <;> cases FullE top <;> rfl
grind_pattern full_collapse => FullE (collapse st top)
theorem full_reduceWhile (lvl : Nat) : ∀ st top,
    (FullSt (reduceWhile lvl st top).1 && FullE (reduceWhile lvl st top).2) = (FullSt st && FullE top) := by
  intro st
  induction st with
  | nil => intro top; simp [reduceWhile]
  | cons p st ih =>
    intro top; obtain ⟨l, o, k⟩ := p
    simp only [reduceWhile]
    split
    · rw [ih]; simp only [FullSt, FullE]; cases FullE l <;> cases FullSt st <;> cases FullE top <;> rfl
    · rfl
theorem full_reduceWhile2 (lvl : Nat) (st top st' top') (h : reduceWhile lvl st top = (st', top')) :
    (FullSt st' && FullE top') = (FullSt st && FullE top) := by
  have := full_reduceWhile lvl st top; rw [h] at this; exact this
grind_pattern full_reduceWhile2 => reduceWhile lvl st top, (st', top')

/-! ### nothing is parsed from an empty cursor -/
theorem pCompute_nil (d : Gen.D) (n : Nat) (cs : List Tok) (v : Expr) (r : List Tok) (h : pCompute d n cs = .ok (v, r)) : cs ≠ [] := by
  rintro rfl
  rcases n with _ | _ | _ | n <;> simp [pCompute, pUnary, pElement] at h
grind_pattern pCompute_nil => pCompute d n cs, Except.ok (v, r)
theorem pSelectStmt_nil (d : Gen.D) (n : Nat) (w : Option (List WithTable)) (cs : List Tok) (v : Query) (r : List Tok)
    (h : pSelectStmt d n w cs = .ok (v, r)) : cs ≠ [] := by
  rintro rfl
  cases w <;> rcases n with _ | _ | _ | _ | n <;>
    simp [pSelectStmt, pWith, pSingle, pSelectBody, matchSeq, searchStrUp, searchMark] at h
grind_pattern pSelectStmt_nil => pSelectStmt d n w cs, Except.ok (v, r)

/-! ### unions -/
theorem fullQ_unionS (w : List WithTable) (s : Select) (us : List (String × Select)) :
    FullQ (.union (some w) (setWiths s) (us.map fun p => (p.1, setWiths p.2))) = (FullWTs w && (FullSel (setWiths s) && FullUnS us)) := by
  simp [FullQ, FullUnS, FullOWTs]
theorem tQ_unionS (w : List WithTable) (s : Select) (us : List (String × Select)) :
    tQ (.union (some w) (setWiths s) (us.map fun p => (p.1, setWiths p.2))) = tWTs w ++ (tSel (setWiths s) ++ tUnS us) := by
  simp [tQ_union, tUnS, tOWTs]
theorem sub_tSel_w (T : List String) (s : Select) : Sub (tSel s) T = (Sub (tOWTs (withsOf s)) T ∧ Sub (tSel (setWiths s)) T) := by
  rw [tSel_split s, sub_append]
grind_pattern sub_tSel_w => withsOf s, Sub (tSel s) T
theorem fullSel_w (s : Select) : FullSel s = (FullOWTs (withsOf s) && FullSel (setWiths s)) := FullSel_split s
grind_pattern fullSel_w => withsOf s, FullSel s

theorem headChildren_ok (ts cs : List Tok) (h : headChildren ts = .ok cs) : ∃ g r, ts = g :: r ∧ cs = g.children := by
  cases ts with
  | nil => simp [headChildren] at h
  | cons g r => simp [headChildren] at h; exact ⟨g, r, rfl, h.symm⟩
grind_pattern headChildren_ok => headChildren ts, Except.ok cs

end PA
