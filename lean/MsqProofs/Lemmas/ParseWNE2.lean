import MsqProofs.Lemmas.ParseWNE1
/-!
# C02 — `parse_derives`, fuel step, part 2: the keyword predicates (BETWEEN, IS, IN, LIKE …, EXISTS) and their chaining
-/
set_option linter.unusedVariables false
open Lex
namespace WNG
open PM Ast
variable {d : Gen.D} {n : Nat}

theorem matchKw_ok {ts r : List Tok} {k : String} (h : matchKw ts k = .ok ((), r)) : ∃ t, ts = t :: r ∧ t.equalsStr k = true := by
  unfold matchKw at h
  split at h
  · cases h
  · rename_i t r0
    split at h
    · rename_i hc
      simp only [Except.ok.injEq, Prod.mk.injEq, true_and] at h
      exact ⟨t, by rw [h], hc⟩
    · cases h

theorem skipNot_spec (d : Gen.D) (r0 : List Tok) : ∃ ns, r0 = ns ++ (skipNot d r0).2 ∧ NotOpt d ns (skipNot d r0).1 := by
  unfold skipNot
  split
  · rename_i t r
    split
    · rename_i hc
      exact ⟨[t], rfl, .yes hc⟩
    · exact ⟨[], rfl, .no⟩
  · exact ⟨[], rfl, .no⟩

theorem splitBy_acc (sep : String) (ts cur : List Tok) (acc : List (List Tok)) :
    splitBy sep ts cur acc = acc ++ splitBy sep ts cur [] := by
  induction ts generalizing cur acc with
  | nil => simp only [splitBy]; split <;> simp
  | cons t r ih =>
    simp only [splitBy]
    split
    · split
      · exact ih [] acc
      · rw [ih [] (acc ++ [cur]), ih [] ([] ++ [cur])]; simp
    · exact ih _ acc

theorem segs_append {d : Gen.D} {a b : List (List Tok)} {x y : List Expr} (h1 : Segs d a x) (h2 : Segs d b y) : Segs d (a ++ b) (x ++ y) := by
  induction a generalizing x with
  | nil => cases h1; simpa using h2
  | cons s a ih =>
    cases h1 with
    | cons hd hs => exact .cons hd (ih hs)

theorem likeKind_of {k : String} (hc : (k == "LIKE" || k == "RLIKE" || k == "REGEXP") = true) :
    likeKind k = some (if k == "LIKE" then KwKind.like else if k == "RLIKE" then .rlike else .regexp) := by
  unfold likeKind
  by_cases h1 : (k == "LIKE") = true <;> by_cases h2 : (k == "RLIKE") = true <;> by_cases h3 : (k == "REGEXP") = true <;> simp_all

theorem notOpt_false {d : Gen.D} {ns : List Tok} (h : NotOpt d ns false) : ns = [] := by cases h; rfl

theorem wf_pSubQuery (ih : WF d n) : ∀ ts v r, pSubQuery d (n+1) ts = .ok (v, r) → ∃ g q, ts = g :: r ∧ v = .subQuery q ∧ SubQ d g q := by
  intro ts v r h
  unfold pSubQuery at h
  split at h
  · cases h
  · rename_i g r0
    split at h
    · rename_i q hq
      simp only [Except.ok.injEq, Prod.mk.injEq] at h
      obtain ⟨rfl, rfl⟩ := h
      exact ⟨g, q, rfl, rfl, n, hq⟩
    · cases h

theorem wf_pKwFirst (ih : WF d n) : ∀ before pre ts, KB d before pre → RE d 9 pre ts (pKwFirst d (n+1) before ts) := by
  intro before pre ts hkb v r h
  unfold pKwFirst at h
  cases before with
  | some b => exact re_ret hkb h
  | none =>
    simp only at h
    simp only [KB] at hkb
    subst hkb
    obtain ⟨u, hu, hd⟩ := ih.pCompute ts v r h
    exact ⟨u, hu, hd.up (by omega)⟩

theorem wf_pKeyword (ih : WF d n) : ∀ before pre ts, KB d before pre → RE d 9 pre ts (pKeyword d (n+1) before ts) := by
  intro before pre ts hkb v r h
  unfold pKeyword at h
  split at h
  · rename_i hc
    simp only [Bool.and_eq_true, Option.isNone_iff_eq_none] at hc
    obtain ⟨rfl, hex⟩ := hc
    simp only [KB] at hkb
    subst hkb
    cases ts with
    | nil => simp [searchStrUp] at hex
    | cons te r0 =>
      simp only [searchStrUp] at hex
      simp only [List.drop_one, List.tail_cons] at h
      split at h
      · cases h
      · rename_i v0 r1 hs
        obtain ⟨g, q, rfl, rfl, hq⟩ := ih.pSubQuery r0 v0 r1 hs
        have hd0 : Derives d 9 [te, g] (.exists_ (.subQuery q)) := .exists_ hex hq
        split at h
        · obtain ⟨u, rfl, hd⟩ := ih.pKeyword (some _) [te, g] r1 hd0 v r h
          exact ⟨te :: g :: u, by simp, by simpa using hd⟩
        · simp only [Except.ok.injEq, Prod.mk.injEq] at h
          obtain ⟨rfl, rfl⟩ := h
          exact ⟨[te, g], by simp, by simpa using hd0⟩
  · split at h
    · cases h
    · rename_i bv r0 h1
      obtain ⟨u1, rfl, hd1⟩ := ih.pKwFirst before pre ts hkb bv r0 h1
      obtain ⟨ns, hns, hno⟩ := skipNot_spec d r0
      obtain ⟨u2, hu2, hd2⟩ := ih.pKwRest bv _ _ (pre ++ u1) ns hd1 hno v r h
      refine ⟨u1 ++ ns ++ u2, ?_, by simpa using hd2⟩
      rw [hns, hu2]; simp

theorem wf_pKwRest (ih : WF d n) : ∀ bv isN r1 pre ns, Derives d 9 pre bv → NotOpt d ns isN →
    RE d 9 (pre ++ ns) r1 (pKwRest d (n+1) bv isN r1) := by
  intro bv isN r1 pre ns hbv hno v r h
  have hret : ∀ ts', (if isN = true then (Except.error Err.parse : R Expr) else .ok (bv, ts')) = .ok (v, r) →
      ∃ u, ts' = u ++ r ∧ Derives d 9 (pre ++ ns ++ u) v := by
    intro ts' h
    cases isN with
    | true => simp at h
    | false =>
      have := notOpt_false hno
      subst this
      simp only [Bool.false_eq_true, ↓reduceIte] at h
      exact re_ret (by simpa using hbv) h
  unfold pKwRest at h
  split at h
  · exact hret _ h
  · rename_i t r2
    split at h
    · cases h
    · exact hret _ h
    · rename_i v0 r' hb
      obtain ⟨u, rfl, hd⟩ := ih.pKwBody (up t.src) isN bv r2 pre ns t hbv hno rfl v0 r' hb
      split at h
      · obtain ⟨u2, rfl, hd2⟩ := ih.pKeyword (some v0) _ r' hd v r h
        exact ⟨t :: u ++ u2, by simp, by simpa using hd2⟩
      · simp only [Except.ok.injEq, Prod.mk.injEq] at h
        obtain ⟨rfl, rfl⟩ := h
        exact ⟨t :: u, by simp, by simpa using hd⟩

theorem wf_pBetween (ih : WF d n) : ∀ isN bv r2 pre ns tk, Derives d 9 pre bv → NotOpt d ns isN → up tk.src = "BETWEEN" →
    ∀ v r, pBetween d (n+1) isN bv r2 = .ok (some (v, r)) → ∃ u, r2 = u ++ r ∧ Derives d 9 (pre ++ ns ++ tk :: u) v := by
  intro isN bv r2 pre ns tk hbv hno htk v r h
  unfold pBetween at h
  split at h
  · cases h
  · rename_i fv r3 h1
    obtain ⟨u1, rfl, hd1⟩ := ih.pCompute r2 fv r3 h1
    split at h
    · cases h
    · rename_i r4 hm
      obtain ⟨ta, rfl, hta⟩ := matchKw_ok hm
      split at h
      · cases h
      · rename_i tv r5 h2
        obtain ⟨u2, rfl, hd2⟩ := ih.pCompute r4 tv r5 h2
        simp only [Except.ok.injEq, Option.some.injEq, Prod.mk.injEq] at h
        obtain ⟨rfl, rfl⟩ := h
        refine ⟨u1 ++ ta :: u2, by simp, ?_⟩
        have := Derives.between hbv hno htk hd1 hta hd2
        simpa using this

theorem wf_pSplit (ih : WF d n) : ∀ acc cur ts vs, pSplit d (n+1) acc cur ts = .ok vs →
    ∃ vs', vs = acc ++ vs' ∧ Segs d (splitBy "," ts cur []) vs' := by
  intro acc cur ts vs h
  have hflush : ∀ vs0, (if cur.isEmpty = true then (Except.ok acc : Except Err (List Expr)) else
        match pCompute d n cur with
        | .ok (e, []) => .ok (acc ++ [e]) | .ok (_, _ :: _) => .error .parse | .error e => .error e) = .ok vs0 →
      ∃ vs', vs0 = acc ++ vs' ∧ Segs d (if cur.isEmpty = true then [] else [cur]) vs' := by
    intro vs0 h
    split at h
    · rename_i hc
      simp only [Except.ok.injEq] at h
      subst h
      exact ⟨[], by simp, by simpa [hc] using Segs.nil⟩
    · rename_i hc
      split at h
      · rename_i e he
        simp only [Except.ok.injEq] at h
        subst h
        obtain ⟨u, hu, hd⟩ := ih.pCompute cur e [] he
        simp only [List.append_nil] at hu
        subst hu
        exact ⟨[e], rfl, by simpa [hc] using Segs.cons (by simpa using hd) Segs.nil⟩
      · cases h
      · cases h
  unfold pSplit at h
  simp only at h
  split at h
  · obtain ⟨vs', h1, h2⟩ := hflush vs h
    refine ⟨vs', h1, ?_⟩
    simp only [splitBy]
    split <;> simp_all
  · rename_i t r
    split at h
    · rename_i hc
      split at h
      · rename_i acc' hfl
        obtain ⟨vs1, rfl, hs1⟩ := hflush acc' hfl
        obtain ⟨vs2, rfl, hs2⟩ := ih.pSplit _ [] r vs h
        refine ⟨vs1 ++ vs2, by simp, ?_⟩
        simp only [splitBy, hc, ↓reduceIte]
        split
        · rename_i hce
          simp only [hce, ↓reduceIte] at hs1
          cases hs1
          simpa using hs2
        · rename_i hce
          simp only [hce] at hs1
          rw [splitBy_acc]
          exact segs_append (by simpa using hs1) hs2
      · cases h
    · rename_i hc
      obtain ⟨vs2, rfl, hs2⟩ := ih.pSplit _ _ r vs h
      refine ⟨vs2, rfl, ?_⟩
      simp only [splitBy, hc]
      simpa using hs2

theorem wf_pInBody (ih : WF d n) : ∀ isN bv r2 pre ns tk, Derives d 9 pre bv → NotOpt d ns isN → up tk.src = "IN" →
    ∀ v r, pInBody d (n+1) isN bv r2 = .ok (some (v, r)) → ∃ u, r2 = u ++ r ∧ Derives d 9 (pre ++ ns ++ tk :: u) v := by
  intro isN bv r2 pre ns tk hbv hno htk v r h
  unfold pInBody at h
  split at h
  · cases h
  · rename_i g r3
    split at h
    · rename_i hc
      split at h
      · rename_i q r4 hs
        obtain ⟨g', q', hg, rfl, hq⟩ := ih.pSubQuery _ q r4 hs
        simp only [List.cons.injEq] at hg
        obtain ⟨rfl, rfl⟩ := hg
        simp only [Except.ok.injEq, Option.some.injEq, Prod.mk.injEq] at h
        obtain ⟨rfl, rfl⟩ := h
        refine ⟨[g], by simp, ?_⟩
        have := Derives.inQuery hbv hno htk hc hq
        simpa using this
      · cases h
    · rename_i hc
      split at h
      · rename_i vs hs
        obtain ⟨vs', rfl, hsg⟩ := ih.pSplit [] [] g.children vs hs
        simp only [Except.ok.injEq, Option.some.injEq, Prod.mk.injEq] at h
        obtain ⟨rfl, rfl⟩ := h
        refine ⟨[g], by simp, ?_⟩
        have := Derives.inList hbv hno htk (by simpa using hc) hsg
        simpa using this
      · cases h

theorem wf_pKwBody (ih : WF d n) : ∀ k isN bv r2 pre ns tk, Derives d 9 pre bv → NotOpt d ns isN → up tk.src = k →
    ∀ v r, pKwBody d (n+1) k isN bv r2 = .ok (some (v, r)) → ∃ u, r2 = u ++ r ∧ Derives d 9 (pre ++ ns ++ tk :: u) v := by
  intro k isN bv r2 pre ns tk hbv hno htk v r h
  unfold pKwBody at h
  split at h
  · rename_i hc
    exact ih.pBetween isN bv r2 pre ns tk hbv hno (by simpa [htk] using hc) v r h
  split at h
  · rename_i hc
    have hk : up tk.src = "IS" := by simpa [htk] using hc
    cases isN with
    | true =>
      simp only [↓reduceIte] at h
      split at h
      · cases h
      · rename_i av r4 hp
        obtain ⟨u, rfl, hd⟩ := ih.pCompute r2 av r4 hp
        simp only [Bool.true_or, Except.ok.injEq, Option.some.injEq, Prod.mk.injEq] at h
        obtain ⟨rfl, rfl⟩ := h
        exact ⟨u, by simp, by simpa using Derives.is_ hbv hno hk hd⟩
    | false =>
      have := notOpt_false hno
      subst this
      simp only [Bool.false_eq_true, ↓reduceIte, Bool.false_or] at h
      by_cases hs : searchStrUp r2 "NOT" = true
      · simp only [moveStrUp, hs, ↓reduceIte] at h
        cases r2 with
        | nil => simp [searchStrUp] at hs
        | cons tn r3 =>
          simp only [searchStrUp] at hs
          simp only [List.drop_one, List.tail_cons] at h
          split at h
          · cases h
          · rename_i av r4 hp
            obtain ⟨u, rfl, hd⟩ := ih.pCompute r3 av r4 hp
            simp only [Except.ok.injEq, Option.some.injEq, Prod.mk.injEq] at h
            obtain ⟨rfl, rfl⟩ := h
            exact ⟨tn :: u, by simp, by simpa using Derives.isNot_ hbv hk hs hd⟩
      · simp only [moveStrUp, hs] at h
        split at h
        · cases h
        · rename_i av r4 hp
          obtain ⟨u, rfl, hd⟩ := ih.pCompute r2 av r4 hp
          simp only [Except.ok.injEq, Option.some.injEq, Prod.mk.injEq] at h
          obtain ⟨rfl, rfl⟩ := h
          exact ⟨u, by simp, by simpa using Derives.is_ hbv NotOpt.no hk hd⟩
  split at h
  · rename_i hc
    exact ih.pInBody isN bv r2 pre ns tk hbv hno (by simpa [htk] using hc) v r h
  split at h
  · rename_i hc
    split at h
    · cases h
    · rename_i av r3 hp
      obtain ⟨u, rfl, hd⟩ := ih.pCompute r2 av r3 hp
      simp only [Except.ok.injEq, Option.some.injEq, Prod.mk.injEq] at h
      obtain ⟨rfl, rfl⟩ := h
      have hk := likeKind_of hc
      rw [← htk] at hk
      exact ⟨u, by simp, by simpa [htk] using Derives.like hbv hno hk hd⟩
  · cases h

end WNG
