import MsqModel.Cache
/-! helper lemmas for C17: the directory map, path resolution of good names, `derive` on clean names -/
namespace Cache

theorem fget_fset_same (fs : Files) (f : Name) (t : Text) : fget (fset fs f t) f = some t := by
  induction fs with
  | nil => simp [fset, fget]
  | cons p r ih =>
    obtain ⟨g, u⟩ := p
    by_cases h : g = f
    · simp [fset, fget, h]
    · simp [fset, fget, h, ih]

theorem fget_fset_other (fs : Files) (f g : Name) (t : Text) (h : g ≠ f) : fget (fset fs f t) g = fget fs g := by
  induction fs with
  | nil => simp [fset, fget, Ne.symm h]
  | cons p r ih =>
    obtain ⟨k, u⟩ := p
    by_cases hk : k = f
    · subst hk
      simp [fset, fget, Ne.symm h]
    · by_cases hg : k = g
      · subst hg
        simp [fset, fget, hk]
      · simp [fset, fget, hk, hg, ih]

theorem fget_of_mem (fs : Files) (f : Name) (t : Text) (h : (f, t) ∈ fs) : ∃ t', fget fs f = some t' := by
  induction fs with
  | nil => simp at h
  | cons p r ih =>
    obtain ⟨g, u⟩ := p
    by_cases hg : g = f
    · exact ⟨u, by simp [fget, hg]⟩
    · have : (f, t) ∈ r := by
        rcases List.mem_cons.1 h with h1 | h1
        · exact absurd (by injection h1 with a b; exact a.symm) hg
        · exact h1
      obtain ⟨t', ht'⟩ := ih this
      exact ⟨t', by simp [fget, hg, ht']⟩

theorem splitSlash_ne_nil (p : List Char) : splitSlash p ≠ [] := by
  induction p with
  | nil => simp [splitSlash]
  | cons c r ih =>
    unfold splitSlash
    split
    · simp
    · split <;> simp

theorem splitSlash_noSlash (p : List Char) (h : ∀ c ∈ p, c ≠ '/') : splitSlash p = [p] := by
  induction p with
  | nil => simp [splitSlash]
  | cons c r ih =>
    have hc : c ≠ '/' := h c (by simp)
    have hr : splitSlash r = [r] := ih (fun d hd => h d (by simp [hd]))
    simp [splitSlash, hc, hr]

theorem not_contains {c : Char} {l : List Char} (h : (!l.contains c) = true) : ∀ d ∈ l, d ≠ c := by
  intro d hd hdc
  subst hdc
  have : l.contains d = true := by simpa using hd
  rw [this] at h
  simp at h

theorem resolve_good (files : Files) (n : Name) (hg : Good n = true) : resolve files n = .inDir (n ++ ext) := by
  unfold Good at hg
  have h1 : (!n.contains '/') = true := by
    cases hh : n.contains '/' <;> simp_all
  have h2 : (!n.contains '\x00') = true := by
    cases hh : n.contains '\x00' <;> simp_all
  have hs : ∀ c ∈ n ++ ext, c ≠ '/' := by
    intro c hc
    rcases List.mem_append.1 hc with h | h
    · exact not_contains h1 c h
    · simp [ext] at h
      rcases h with h | h | h | h <;> subst h <;> decide
  have hz : ∀ c ∈ n ++ ext, c ≠ '\x00' := by
    intro c hc
    rcases List.mem_append.1 hc with h | h
    · exact not_contains h2 c h
    · simp [ext] at h
      rcases h with h | h | h | h <;> subst h <;> decide
  have hnul : (n ++ ext).contains '\x00' = false := by
    cases hh : (n ++ ext).contains '\x00'
    · rfl
    · have : '\x00' ∈ n ++ ext := by simpa using hh
      exact absurd rfl (hz _ this)
  have hhead : (n ++ ext).head? ≠ some '/' := by
    intro hh
    have : '/' ∈ n ++ ext := List.mem_of_mem_head? (by simp [hh])
    exact absurd rfl (hs _ this)
  have hne : ((n ++ ext) == [] || (n ++ ext) == ['.']) = false := by
    have hl : (n ++ ext).length ≥ 4 := by simp [ext]
    have e1 : ((n ++ ext) == []) = false := by
      cases hh : (n ++ ext) with
      | nil => simp [hh] at hl
      | cons a b => rfl
    have e2 : ((n ++ ext) == ['.']) = false := by
      apply Bool.eq_false_iff.2
      intro hh
      have : n ++ ext = ['.'] := by simpa using hh
      rw [this] at hl
      simp at hl
    simp [e1, e2]
  have hf : List.filter (fun c => !(c == [] || c == ['.'])) [n ++ ext] = [n ++ ext] := by
    simp only [List.filter, hne, Bool.not_false]
  unfold resolve
  simp only [hnul, Bool.false_eq_true, ↓reduceIte, splitSlash_noSlash _ hs]
  rw [if_neg hhead, hf]

theorem isPrefixOf_ext_self : ext.isPrefixOf ext = true := by decide

theorem replaceGo_clean (m : Name) (hc : Clean m = true) (f : Nat) (hf : (m ++ ext).length < f) :
    Py.replaceGo ext [] f (m ++ ext) = m := by
  induction m generalizing f with
  | nil =>
    cases f with
    | zero => simp at hf
    | succ g =>
      simp only [List.nil_append]
      cases g with
      | zero => simp [ext] at hf
      | succ g' => simp [Py.replaceGo, ext]
  | cons c r ih =>
    cases f with
    | zero => simp at hf
    | succ g =>
      have hcl : (!(ext.isPrefixOf (c :: r ++ ext)) && Clean r) = true := by simpa [Clean] using hc
      have h1 : ext.isPrefixOf (c :: r ++ ext) = false := by
        cases hh : ext.isPrefixOf (c :: r ++ ext) <;> simp_all
      have h2 : Clean r = true := by
        cases hh : Clean r <;> simp_all
      have hlen : (r ++ ext).length < g := by
        simp at hf ⊢
        omega
      have := ih h2 g hlen
      show Py.replaceGo ext [] (g + 1) (c :: (r ++ ext)) = c :: r
      rw [Py.replaceGo]
      have h1' : ext.isPrefixOf (c :: (r ++ ext)) = false := by simpa using h1
      simp [h1', this]

theorem derive_clean (m : Name) (hc : Clean m = true) : derive (m ++ ext) = m := by
  unfold derive Py.replace
  have : ext.isEmpty = false := by decide
  simp only [this]
  exact replaceGo_clean m hc _ (by simp)

theorem append_ext_inj {n m : Name} (h : n ++ ext = m ++ ext) : n = m := List.append_cancel_right h

theorem mget_append {σ : Type} (mem : List (Name × σ)) (n m : Name) (st : σ) :
    mget (mem ++ [(n, st)]) m = match mget mem m with | some x => some x | none => if n = m then some st else none := by
  induction mem with
  | nil => simp [mget]
  | cons p r ih =>
    obtain ⟨k, u⟩ := p
    by_cases hk : k = m
    · simp [mget, hk]
    · simp [mget, hk, ih]

theorem mget_isSome_iff {σ : Type} (mem : List (Name × σ)) (n : Name) : (mget mem n).isSome = true ↔ n ∈ mem.map (·.1) := by
  induction mem with
  | nil => simp [mget]
  | cons p r ih =>
    obtain ⟨k, u⟩ := p
    by_cases hk : k = n
    · simp [mget, hk]
    · simp [mget, hk, ih, Ne.symm hk]

end Cache
