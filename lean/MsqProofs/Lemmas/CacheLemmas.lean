import MsqProofs.Lemmas.CacheEnc
/-! helper lemmas for C17: the directory map, path resolution of encoded names, the `.sql` suffix, a completed save -/
namespace Cache

theorem fget_fset_same (fs : Files) (f : Name) (t : Text) : fget (fset fs f t) f = some t := by
  induction fs with
  | nil => simp [fset, fget]
  | cons p r ih =>
    obtain ⟨g, u⟩ := p
    by_cases h : g = f
    · simp [fset, fget, h]
    · simp [fset, fget, h, ih]

theorem fget_fset_other (fs : Files) (f g : Name) (t : Text) (h : g ≠ f) : fget (fset fs f t) g = fget fs g := by
  induction fs with
  | nil => simp [fset, fget, Ne.symm h]
  | cons p r ih =>
    obtain ⟨k, u⟩ := p
    by_cases hk : k = f
    · subst hk
      simp [fset, fget, Ne.symm h]
    · by_cases hg : k = g
      · subst hg
        simp [fset, fget, hk]
      · simp [fset, fget, hk, hg, ih]

theorem fget_of_mem (fs : Files) (f : Name) (t : Text) (h : (f, t) ∈ fs) : ∃ t', fget fs f = some t' := by
  induction fs with
  | nil => simp at h
  | cons p r ih =>
    obtain ⟨g, u⟩ := p
    by_cases hg : g = f
    · exact ⟨u, by simp [fget, hg]⟩
    · have : (f, t) ∈ r := by
        rcases List.mem_cons.1 h with h1 | h1
        · exact absurd (by injection h1 with a b; exact a.symm) hg
        · exact h1
      obtain ⟨t', ht'⟩ := ih this
      exact ⟨t', by simp [fget, hg, ht']⟩

theorem splitSlash_ne_nil (p : List Char) : splitSlash p ≠ [] := by
  induction p with
  | nil => simp [splitSlash]
  | cons c r ih =>
    unfold splitSlash
    split
    · simp
    · split <;> simp

theorem splitSlash_noSlash (p : List Char) (h : ∀ c ∈ p, c ≠ '/') : splitSlash p = [p] := by
  induction p with
  | nil => simp [splitSlash]
  | cons c r ih =>
    have hc : c ≠ '/' := h c (by simp)
    have hr : splitSlash r = [r] := ih (fun d hd => h d (by simp [hd]))
    simp [splitSlash, hc, hr]

theorem not_contains {c : Char} {l : List Char} (h : (!l.contains c) = true) : ∀ d ∈ l, d ≠ c := by
  intro d hd hdc
  subst hdc
  have : l.contains d = true := by simpa using hd
  rw [this] at h
  simp at h

theorem resolveP_plain (files : Files) (p : Name) (hs : ∀ c ∈ p, c ≠ '/') (hz : ∀ c ∈ p, c ≠ '\x00') (hl : p.length ≥ 2) :
    resolveP files p = .inDir p := by
  have hnul : p.contains '\x00' = false := by
    cases hh : p.contains '\x00'
    · rfl
    · have : '\x00' ∈ p := by simpa using hh
      exact absurd rfl (hz _ this)
  have hhead : p.head? ≠ some '/' := by
    intro hh
    have : '/' ∈ p := List.mem_of_mem_head? (by simp [hh])
    exact absurd rfl (hs _ this)
  have hne : (p == [] || p == ['.']) = false := by
    have e1 : (p == []) = false := by
      cases hh : p with
      | nil => simp [hh] at hl
      | cons a b => rfl
    have e2 : (p == ['.']) = false := by
      apply Bool.eq_false_iff.2
      intro hh
      have : p = ['.'] := by simpa using hh
      rw [this] at hl
      simp at hl
    simp [e1, e2]
  have hf : List.filter (fun c => !(c == [] || c == ['.'])) [p] = [p] := by
    simp only [List.filter, hne, Bool.not_false]
  unfold resolveP
  simp only [hnul, Bool.false_eq_true, ↓reduceIte, splitSlash_noSlash _ hs]
  rw [if_neg hhead, hf]

theorem ext_chars : (∀ c ∈ ext, c ≠ '/') ∧ (∀ c ∈ ext, c ≠ '\x00') := by
  constructor <;> intro c h <;> simp [ext] at h <;> rcases h with h | h | h | h <;> subst h <;> decide

theorem tmpExt_chars : (∀ c ∈ tmpExt, c ≠ '/') ∧ (∀ c ∈ tmpExt, c ≠ '\x00') := by
  constructor <;> intro c h <;> simp [tmpExt] at h <;> rcases h with h | h | h | h <;> subst h <;> decide

/-- **every** table name resolves to the file `<enc name>.sql` directly in the cache directory -/
theorem resolve_enc (files : Files) (n : Name) : resolve files n = .inDir (enc n ++ ext) := by
  have hc := enc_chars n
  apply resolveP_plain
  · intro c hc'
    rcases List.mem_append.1 hc' with h | h
    · exact (hc c h).1
    · exact ext_chars.1 c h
  · intro c hc'
    rcases List.mem_append.1 hc' with h | h
    · exact (hc c h).2
    · exact ext_chars.2 c h
  · simp [ext]

/-- … and its temporary file to `<enc name>.sql.tmp`, in the same directory -/
theorem resolveTmp_enc (files : Files) (n : Name) : resolveTmp files n = .inDir (enc n ++ ext ++ tmpExt) := by
  have hc := enc_chars n
  apply resolveP_plain
  · intro c hc'
    rcases List.mem_append.1 hc' with h | h
    · rcases List.mem_append.1 h with h | h
      · exact (hc c h).1
      · exact ext_chars.1 c h
    · exact tmpExt_chars.1 c h
  · intro c hc'
    rcases List.mem_append.1 hc' with h | h
    · rcases List.mem_append.1 h with h | h
      · exact (hc c h).2
      · exact ext_chars.2 c h
    · exact tmpExt_chars.2 c h
  · simp [ext, tmpExt]

theorem stripSql_ext (m : Name) : stripSql (m ++ ext) = some m := by
  simp [stripSql, ext, List.reverse_append]

theorem stripSql_tmp (x : Name) : stripSql (x ++ tmpExt) = none := by
  simp [stripSql, tmpExt, List.reverse_append]

theorem stripSql_some (f m : Name) (h : stripSql f = some m) : f = m ++ ext := by
  unfold stripSql at h
  split at h
  · rename_i r hr
    injection h with h
    have : f = (f.reverse).reverse := by simp
    rw [this, hr, ← h]
    simp [ext]
  · cases h

theorem tmp_ne_final (n m : Name) : n ++ ext ++ tmpExt ≠ m ++ ext := by
  intro h
  have h1 := stripSql_tmp (n ++ ext)
  rw [h, stripSql_ext] at h1
  cases h1

theorem fget_fdel_same (fs : Files) (f : Name) : fget (fdel fs f) f = none := by
  induction fs with
  | nil => simp [fdel, fget]
  | cons p r ih =>
    obtain ⟨g, u⟩ := p
    by_cases h : g = f
    · simp [fdel, h, ih]
    · simp [fdel, fget, h, ih]

theorem fget_fdel_other (fs : Files) (f g : Name) (h : g ≠ f) : fget (fdel fs f) g = fget fs g := by
  induction fs with
  | nil => simp [fdel, fget]
  | cons p r ih =>
    obtain ⟨k, u⟩ := p
    by_cases hk : k = f
    · subst hk
      simp [fdel, fget, ih, Ne.symm h]
    · by_cases hg : k = g
      · subst hg
        simp [fdel, fget, hk]
      · simp [fdel, fget, hk, hg, ih]

/-- the directory after a completed `save_to_disk` of text `t` for table `n` -/
def saved (files : Files) (n : Name) (t : Text) : Files :=
  fset (fdel (fset (fset files (enc n ++ ext ++ tmpExt) []) (enc n ++ ext ++ tmpExt) t) (enc n ++ ext ++ tmpExt)) (enc n ++ ext) t

theorem fget_saved_final (files : Files) (n : Name) (t : Text) : fget (saved files n t) (enc n ++ ext) = some t := by
  unfold saved
  exact fget_fset_same _ _ _

theorem fget_saved_other (files : Files) (n : Name) (t : Text) (f : Name) (h1 : f ≠ enc n ++ ext) (h2 : f ≠ enc n ++ ext ++ tmpExt) :
    fget (saved files n t) f = fget files f := by
  unfold saved
  rw [fget_fset_other _ _ _ _ h1, fget_fdel_other _ _ _ h2, fget_fset_other _ _ _ _ h2, fget_fset_other _ _ _ _ h2]

theorem fget_saved_tmp (files : Files) (n : Name) (t : Text) : fget (saved files n t) (enc n ++ ext ++ tmpExt) = none := by
  unfold saved
  rw [fget_fset_other _ _ _ _ (tmp_ne_final (enc n) (enc n)), fget_fdel_same]

theorem append_ext_inj {n m : Name} (h : n ++ ext = m ++ ext) : n = m := List.append_cancel_right h

/-- two table names never share a cache file -/
theorem file_inj {n m : Name} (h : enc n ++ ext = enc m ++ ext) : n = m := enc_injective (append_ext_inj h)

/-- the directory entry `<enc n>.sql` is read back as table `n` -/
theorem entryName_enc (n : Name) : entryName (enc n ++ ext) = some n := by
  simp [entryName, stripSql_ext, decStem_enc]

/-- a directory entry is read as table `n` only if it is the file `<enc n>.sql` -/
theorem entryName_some (f n : Name) (h : entryName f = some n) : f = enc n ++ ext := by
  unfold entryName at h
  cases hs : stripSql f with
  | none => rw [hs] at h; cases h
  | some s =>
    rw [hs] at h
    have := (decStem_iff s n).1 h
    rw [stripSql_some f s hs, this]

theorem entryName_tmp (x : Name) : entryName (x ++ tmpExt) = none := by
  simp [entryName, stripSql_tmp]

theorem mget_append {σ : Type} (mem : List (Name × σ)) (n m : Name) (st : σ) :
    mget (mem ++ [(n, st)]) m = match mget mem m with | some x => some x | none => if n = m then some st else none := by
  induction mem with
  | nil => simp [mget]
  | cons p r ih =>
    obtain ⟨k, u⟩ := p
    by_cases hk : k = m
    · simp [mget, hk]
    · simp [mget, hk, ih]

theorem mget_isSome_iff {σ : Type} (mem : List (Name × σ)) (n : Name) : (mget mem n).isSome = true ↔ n ∈ mem.map (·.1) := by
  induction mem with
  | nil => simp [mget]
  | cons p r ih =>
    obtain ⟨k, u⟩ := p
    by_cases hk : k = n
    · simp [mget, hk]
    · simp [mget, hk, ih, Ne.symm hk]

end Cache
