import MsqModel.Cache
/-! helper lemmas for C17: the directory map, path resolution of good names, the `.sql` suffix, a completed save -/
namespace Cache

theorem fget_fset_same (fs : Files) (f : Name) (t : Text) : fget (fset fs f t) f = some t := by
  induction fs with
  | nil => simp [fset, fget]
  | cons p r ih =>
    obtain ⟨g, u⟩ := p
    by_cases h : g = f
    · simp [fset, fget, h]
    · simp [fset, fget, h, ih]

theorem fget_fset_other (fs : Files) (f g : Name) (t : Text) (h : g ≠ f) : fget (fset fs f t) g = fget fs g := by
  induction fs with
  | nil => simp [fset, fget, Ne.symm h]
  | cons p r ih =>
    obtain ⟨k, u⟩ := p
    by_cases hk : k = f
    · subst hk
      simp [fset, fget, Ne.symm h]
    · by_cases hg : k = g
      · subst hg
        simp [fset, fget, hk]
      · simp [fset, fget, hk, hg, ih]

theorem fget_of_mem (fs : Files) (f : Name) (t : Text) (h : (f, t) ∈ fs) : ∃ t', fget fs f = some t' := by
  induction fs with
  | nil => simp at h
  | cons p r ih =>
    obtain ⟨g, u⟩ := p
    by_cases hg : g = f
    · exact ⟨u, by simp [fget, hg]⟩
    · have : (f, t) ∈ r := by
        rcases List.mem_cons.1 h with h1 | h1
        · exact absurd (by injection h1 with a b; exact a.symm) hg
        · exact h1
      obtain ⟨t', ht'⟩ := ih this
      exact ⟨t', by simp [fget, hg, ht']⟩

theorem splitSlash_ne_nil (p : List Char) : splitSlash p ≠ [] := by
  induction p with
  | nil => simp [splitSlash]
  | cons c r ih =>
    unfold splitSlash
    split
    · simp
    · split <;> simp

theorem splitSlash_noSlash (p : List Char) (h : ∀ c ∈ p, c ≠ '/') : splitSlash p = [p] := by
  induction p with
  | nil => simp [splitSlash]
  | cons c r ih =>
    have hc : c ≠ '/' := h c (by simp)
    have hr : splitSlash r = [r] := ih (fun d hd => h d (by simp [hd]))
    simp [splitSlash, hc, hr]

theorem not_contains {c : Char} {l : List Char} (h : (!l.contains c) = true) : ∀ d ∈ l, d ≠ c := by
  intro d hd hdc
  subst hdc
  have : l.contains d = true := by simpa using hd
  rw [this] at h
  simp at h

theorem resolveP_plain (files : Files) (p : Name) (hs : ∀ c ∈ p, c ≠ '/') (hz : ∀ c ∈ p, c ≠ '\x00') (hl : p.length ≥ 2) :
    resolveP files p = .inDir p := by
  have hnul : p.contains '\x00' = false := by
    cases hh : p.contains '\x00'
    · rfl
    · have : '\x00' ∈ p := by simpa using hh
      exact absurd rfl (hz _ this)
  have hhead : p.head? ≠ some '/' := by
    intro hh
    have : '/' ∈ p := List.mem_of_mem_head? (by simp [hh])
    exact absurd rfl (hs _ this)
  have hne : (p == [] || p == ['.']) = false := by
    have e1 : (p == []) = false := by
      cases hh : p with
      | nil => simp [hh] at hl
      | cons a b => rfl
    have e2 : (p == ['.']) = false := by
      apply Bool.eq_false_iff.2
      intro hh
      have : p = ['.'] := by simpa using hh
      rw [this] at hl
      simp at hl
    simp [e1, e2]
  have hf : List.filter (fun c => !(c == [] || c == ['.'])) [p] = [p] := by
    simp only [List.filter, hne, Bool.not_false]
  unfold resolveP
  simp only [hnul, Bool.false_eq_true, ↓reduceIte, splitSlash_noSlash _ hs]
  rw [if_neg hhead, hf]

theorem good_chars (n : Name) (hg : Good n = true) : (∀ c ∈ n, c ≠ '/') ∧ (∀ c ∈ n, c ≠ '\x00') := by
  unfold Good at hg
  have h1 : (!n.contains '/') = true := by
    cases hh : n.contains '/' <;> simp_all
  have h2 : (!n.contains '\x00') = true := by
    cases hh : n.contains '\x00' <;> simp_all
  exact ⟨not_contains h1, not_contains h2⟩

theorem ext_chars : (∀ c ∈ ext, c ≠ '/') ∧ (∀ c ∈ ext, c ≠ '\x00') := by
  constructor <;> intro c h <;> simp [ext] at h <;> rcases h with h | h | h | h <;> subst h <;> decide

theorem tmpExt_chars : (∀ c ∈ tmpExt, c ≠ '/') ∧ (∀ c ∈ tmpExt, c ≠ '\x00') := by
  constructor <;> intro c h <;> simp [tmpExt] at h <;> rcases h with h | h | h | h <;> subst h <;> decide

theorem resolve_good (files : Files) (n : Name) (hg : Good n = true) : resolve files n = .inDir (n ++ ext) := by
  obtain ⟨h1, h2⟩ := good_chars n hg
  apply resolveP_plain
  · intro c hc
    rcases List.mem_append.1 hc with h | h
    · exact h1 c h
    · exact ext_chars.1 c h
  · intro c hc
    rcases List.mem_append.1 hc with h | h
    · exact h2 c h
    · exact ext_chars.2 c h
  · simp [ext]

theorem resolveTmp_good (files : Files) (n : Name) (hg : Good n = true) : resolveTmp files n = .inDir (n ++ ext ++ tmpExt) := by
  obtain ⟨h1, h2⟩ := good_chars n hg
  apply resolveP_plain
  · intro c hc
    rcases List.mem_append.1 hc with h | h
    · rcases List.mem_append.1 h with h | h
      · exact h1 c h
      · exact ext_chars.1 c h
    · exact tmpExt_chars.1 c h
  · intro c hc
    rcases List.mem_append.1 hc with h | h
    · rcases List.mem_append.1 h with h | h
      · exact h2 c h
      · exact ext_chars.2 c h
    · exact tmpExt_chars.2 c h
  · simp [ext, tmpExt]

theorem stripSql_ext (m : Name) : stripSql (m ++ ext) = some m := by
  simp [stripSql, ext, List.reverse_append]

theorem stripSql_tmp (x : Name) : stripSql (x ++ tmpExt) = none := by
  simp [stripSql, tmpExt, List.reverse_append]

theorem stripSql_some (f m : Name) (h : stripSql f = some m) : f = m ++ ext := by
  unfold stripSql at h
  split at h
  · rename_i r hr
    injection h with h
    have : f = (f.reverse).reverse := by simp
    rw [this, hr, ← h]
    simp [ext]
  · cases h

theorem tmp_ne_final (n m : Name) : n ++ ext ++ tmpExt ≠ m ++ ext := by
  intro h
  have h1 := stripSql_tmp (n ++ ext)
  rw [h, stripSql_ext] at h1
  cases h1

theorem fget_fdel_same (fs : Files) (f : Name) : fget (fdel fs f) f = none := by
  induction fs with
  | nil => simp [fdel, fget]
  | cons p r ih =>
    obtain ⟨g, u⟩ := p
    by_cases h : g = f
    · simp [fdel, h, ih]
    · simp [fdel, fget, h, ih]

theorem fget_fdel_other (fs : Files) (f g : Name) (h : g ≠ f) : fget (fdel fs f) g = fget fs g := by
  induction fs with
  | nil => simp [fdel, fget]
  | cons p r ih =>
    obtain ⟨k, u⟩ := p
    by_cases hk : k = f
    · subst hk
      simp [fdel, fget, ih, Ne.symm h]
    · by_cases hg : k = g
      · subst hg
        simp [fdel, fget, hk]
      · simp [fdel, fget, hk, hg, ih]

/-- the directory after a completed `save_to_disk` of text `t` for table `n` -/
def saved (files : Files) (n : Name) (t : Text) : Files :=
  fset (fdel (fset (fset files (n ++ ext ++ tmpExt) []) (n ++ ext ++ tmpExt) t) (n ++ ext ++ tmpExt)) (n ++ ext) t

theorem fget_saved_final (files : Files) (n : Name) (t : Text) : fget (saved files n t) (n ++ ext) = some t := by
  unfold saved
  exact fget_fset_same _ _ _

theorem fget_saved_other (files : Files) (n : Name) (t : Text) (f : Name) (h1 : f ≠ n ++ ext) (h2 : f ≠ n ++ ext ++ tmpExt) :
    fget (saved files n t) f = fget files f := by
  unfold saved
  rw [fget_fset_other _ _ _ _ h1, fget_fdel_other _ _ _ h2, fget_fset_other _ _ _ _ h2, fget_fset_other _ _ _ _ h2]

theorem fget_saved_tmp (files : Files) (n : Name) (t : Text) : fget (saved files n t) (n ++ ext ++ tmpExt) = none := by
  unfold saved
  rw [fget_fset_other _ _ _ _ (tmp_ne_final n n), fget_fdel_same]

theorem append_ext_inj {n m : Name} (h : n ++ ext = m ++ ext) : n = m := List.append_cancel_right h

theorem mget_append {σ : Type} (mem : List (Name × σ)) (n m : Name) (st : σ) :
    mget (mem ++ [(n, st)]) m = match mget mem m with | some x => some x | none => if n = m then some st else none := by
  induction mem with
  | nil => simp [mget]
  | cons p r ih =>
    obtain ⟨k, u⟩ := p
    by_cases hk : k = m
    · simp [mget, hk]
    · simp [mget, hk, ih]

theorem mget_isSome_iff {σ : Type} (mem : List (Name × σ)) (n : Name) : (mget mem n).isSome = true ↔ n ∈ mem.map (·.1) := by
  induction mem with
  | nil => simp [mget]
  | cons p r ih =>
    obtain ⟨k, u⟩ := p
    by_cases hk : k = n
    · simp [mget, hk]
    · simp [mget, hk, ih, Ne.symm hk]

end Cache
