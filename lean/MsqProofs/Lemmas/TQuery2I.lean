import MsqProofs.Props.C03Q2
/-!
# The larger nested fragment contains the nested fragment of Props/C03Q.lean (C03 / C02 / C01)

`TQ.FragE3 d e → TQ2.FragE4 d e` and `TQ.FragQ d q → TQ2.FragQ2 d q`, with EQUAL renderings (`toksE4 = toksE3`, `toksQ2 = toksQ`, any
choice of redundant brackets) — by the mutual induction on the common size (`inc_all`).  The expression half is derived from
Lemmas/TQueryI.lean (`Frag2 ⊆ FragE3`) by substitution (development time), the SELECT half follows Lemmas/TQueryJ.lean.  Consequence:
`C03.tquery`, `C02.tparse3` (Props/C03Q.lean) are instances of `C03.tquery2`, `C02.tparse4`.
-/
set_option linter.unusedVariables false
set_option linter.unusedSimpArgs false
set_option maxHeartbeats 1000000
open Lex PM Ast TP TS
namespace TQ2
variable {d : Gen.D} {ch : Expr → Bool}

def IncQ (d : Gen.D) (ch : Expr → Bool) (q : Query) : Prop := FragQ2 d q = true ∧ toksQ2 d ch q = TQ.toksQ d ch q
def Inc (d : Gen.D) (ch : Expr → Bool) (e : Expr) : Prop :=
  FragE4 d e = true ∧ toksE4 d ch e = TQ.toksE3 d ch e ∧ tl4 e = TQ.tl3 e
theorem incL : ∀ (ps : List Expr), (∀ a ∈ ps, Inc d ch a) →
    FragL4 d ps = true ∧ (∀ k, toksArgsTail4 d ch k ps = TQ.toksArgsTail3 d ch k ps) ∧ (∀ k, toksArgs4 d ch k ps = TQ.toksArgs3 d ch k ps) ∧
      shortL4 ps = TQ.shortL3 ps := by
  intro ps
  induction ps with
  | nil => intro _; exact ⟨by simp [FragL4], fun k => by simp [toksArgsTail4, TQ.toksArgsTail3], fun k => by simp [toksArgs4, TQ.toksArgs3], rfl⟩
  | cons a as ih =>
    intro h
    obtain ⟨h1, h2, h3⟩ := h a (by simp)
    obtain ⟨i1, i2, i3, i4⟩ := ih (fun x hx => h x (by simp [hx]))
    refine ⟨by simp [FragL4, h1, i1], fun k => by simp only [toksArgsTail4, TQ.toksArgsTail3, h2, i2], fun k => by simp only [toksArgs4, TQ.toksArgs3, h2, i2], ?_⟩
    simp only [shortL4, TQ.shortL3, List.all_cons, h3] at i4 ⊢
    rw [i4]
theorem incA : ∀ (cs : List (Expr × Expr)), (∀ p ∈ cs, Inc d ch p.1 ∧ Inc d ch p.2) →
    FragA4 d cs = true ∧ toksArms4 d ch cs = TQ.toksArms3 d ch cs ∧ tlA4 cs = TQ.tlA3 cs := by
  intro cs
  induction cs with
  | nil => intro _; exact ⟨by simp [FragA4], by simp [toksArms4, TQ.toksArms3], by simp [tlA4, TQ.tlA3]⟩
  | cons p r ih =>
    obtain ⟨w, t⟩ := p
    intro h
    obtain ⟨⟨a1, a2, a3⟩, ⟨b1, b2, b3⟩⟩ := h (w, t) (by simp)
    obtain ⟨i1, i2, i3⟩ := ih (fun x hx => h x (by simp [hx]))
    simp only at a1 a2 a3 b1 b2 b3
    exact ⟨by simp [FragA4, a1, b1, i1], by simp only [toksArms4, TQ.toksArms3, a2, b2, i2], by simp only [tlA4, TQ.tlA3, a3, b3, i3]⟩
theorem incO (o : Option Expr) (h : ∀ y, o = some y → Inc d ch y) :
    FragO4 d o = true ∧ toksElse4 d ch o = TQ.toksElse3 d ch o ∧ tlO4 o = TQ.tlO3 o := by
  cases o with
  | none => exact ⟨by simp [FragO4], by simp [toksElse4, TQ.toksElse3], by simp [tlO4, TQ.tlO3]⟩
  | some y =>
    obtain ⟨a1, a2, a3⟩ := h y rfl
    exact ⟨by simp [FragO4, a1], by simp only [toksElse4, TQ.toksElse3, a2], by simp only [tlO4, TQ.tlO3, a3]⟩

theorem frag2L_sz : ∀ (ps : List Expr), TQ.FragL3 d ps = true → ∀ a ∈ ps, TQ.FragE3 d a = true ∧ TQ.szE3 a ≤ TQ.szL3 ps := by
  intro ps
  induction ps with
  | nil => intro _ a ha; simp at ha
  | cons p ps ih =>
    intro h a ha
    simp only [TQ.FragL3, Bool.and_eq_true] at h
    simp only [TQ.szL3]
    rcases List.mem_cons.1 ha with rfl | ha
    · exact ⟨h.1, by omega⟩
    · have := ih h.2 a ha; exact ⟨this.1, by omega⟩
theorem frag2A_sz : ∀ (cs : List (Expr × Expr)), TQ.FragA3 d cs = true → ∀ p ∈ cs,
    (TQ.FragE3 d p.1 = true ∧ TQ.szE3 p.1 ≤ TQ.szA3 cs) ∧ (TQ.FragE3 d p.2 = true ∧ TQ.szE3 p.2 ≤ TQ.szA3 cs) := by
  intro cs
  induction cs with
  | nil => intro _ a ha; simp at ha
  | cons q cs ih =>
    obtain ⟨w, t⟩ := q
    intro h a ha
    simp only [TQ.FragA3, Bool.and_eq_true] at h
    simp only [TQ.szA3]
    rcases List.mem_cons.1 ha with rfl | ha
    · exact ⟨⟨h.1.1, by dsimp only; omega⟩, ⟨h.1.2, by dsimp only; omega⟩⟩
    · have := ih h.2 a ha; exact ⟨⟨this.1.1, by omega⟩, ⟨this.2.1, by omega⟩⟩

theorem inc_expr_step (n : Nat) (ih : ∀ e, TQ.szE3 e ≤ n → TQ.FragE3 d e = true → Inc d ch e)
  (ihq : ∀ q, TQ.szQ q ≤ n → TQ.FragQ d q = true → IncQ d ch q) : ∀ e, TQ.szE3 e ≤ n + 1 → TQ.FragE3 d e = true → Inc d ch e := by
  intro e he hf
  have hL : ∀ ps, TQ.szL3 ps ≤ n → TQ.FragL3 d ps = true → ∀ a ∈ ps, Inc d ch a := fun ps hs hp a ha => by
    obtain ⟨x, y⟩ := frag2L_sz ps hp a ha; exact ih a (by omega) x
  have hA : ∀ cs, TQ.szA3 cs ≤ n → TQ.FragA3 d cs = true → ∀ p ∈ cs, Inc d ch p.1 ∧ Inc d ch p.2 := fun cs hs hp p hpm => by
    obtain ⟨⟨x1, x2⟩, ⟨y1, y2⟩⟩ := frag2A_sz cs hp p hpm; exact ⟨ih _ (by omega) x1, ih _ (by omega) y1⟩
  have hO : ∀ o, TQ.szO3 o ≤ n → TQ.FragO3 d o = true → ∀ y, o = some y → Inc d ch y := fun o hs hp y hy => by
    subst hy; simp only [TQ.FragO3] at hp; simp only [TQ.szO3] at hs; exact ih y hs hp
  cases e with
  | column t c => cases t <;> (simp only [TQ.FragE3] at hf; exact ⟨by simpa [FragE4] using hf, by simp [toksE4, TQ.toksE3], by simp [tl4, TQ.tl3, PR.lvl]⟩)
  | literal v => simp only [TQ.FragE3] at hf; exact ⟨by simpa [FragE4] using hf, by simp [toksE4, TQ.toksE3], by simp [tl4, TQ.tl3, PR.lvl]⟩
  | wildcard t => cases t <;> (simp only [TQ.FragE3] at hf; exact ⟨by simpa [FragE4] using hf, by simp [toksE4, TQ.toksE3], by simp [tl4, TQ.tl3, PR.lvl]⟩)
  | func s nm ps =>
    simp only [TQ.FragE3, Bool.and_eq_true] at hf; simp only [TQ.szE3] at he
    obtain ⟨i1, _, i3, _⟩ := incL ps (hL ps (by omega) hf.2)
    exact ⟨by simp [FragE4, hf.1, i1], by cases s <;> simp only [toksE4, TQ.toksE3, i3], by simp [tl4, TQ.tl3]⟩
  | agg nm ps dist =>
    simp only [TQ.FragE3, Bool.and_eq_true] at hf; simp only [TQ.szE3] at he
    obtain ⟨i1, _, i3, _⟩ := incL ps (hL ps (by omega) hf.2)
    exact ⟨by simp [FragE4, hf.1, i1], by simp only [toksE4, TQ.toksE3, i3], by simp [tl4, TQ.tl3]⟩
  | caseCond cs els =>
    simp only [TQ.FragE3, Bool.and_eq_true] at hf; simp only [TQ.szE3] at he
    obtain ⟨a1, a2, a3⟩ := incA cs (hA cs (by omega) hf.1.1)
    obtain ⟨o1, o2, o3⟩ := incO els (hO els (by omega) hf.1.2)
    exact ⟨by simp only [FragE4, a1, o1, hf.2, Bool.and_self], by simp only [toksE4, TQ.toksE3, a2, o2], by simp only [tl4, TQ.tl3, a3, o3]⟩
  | caseVal v cs els =>
    simp only [TQ.FragE3, Bool.and_eq_true] at hf; simp only [TQ.szE3] at he
    obtain ⟨v1, v2, v3⟩ := ih v (by omega) hf.1.1.1
    obtain ⟨a1, a2, a3⟩ := incA cs (hA cs (by omega) hf.1.1.2)
    obtain ⟨o1, o2, o3⟩ := incO els (hO els (by omega) hf.1.2)
    exact ⟨by simp only [FragE4, v1, a1, o1, hf.2, Bool.and_self], by simp only [toksE4, TQ.toksE3, v2, a2, o2], by simp only [tl4, TQ.tl3, v3, a3, o3]⟩
  | unary o x =>
    simp only [TQ.FragE3, Bool.and_eq_true] at hf; simp only [TQ.szE3] at he
    obtain ⟨x1, x2, x3⟩ := ih x (by omega) hf.2
    exact ⟨by simp only [FragE4, hf.1, x1, Bool.and_self], by simp only [toksE4, TQ.toksE3, x2], by simp only [tl4, TQ.tl3, x3]⟩
  | compute l o r =>
    simp only [TQ.FragE3, Bool.and_eq_true] at hf; simp only [TQ.szE3] at he
    obtain ⟨l1, l2, l3⟩ := ih l (by omega) hf.1.2
    obtain ⟨r1, r2, r3⟩ := ih r (by omega) hf.2
    exact ⟨by simp only [FragE4, hf.1.1, l1, r1, Bool.and_self], by simp only [toksE4, TQ.toksE3, l2, r2], by simp only [tl4, TQ.tl3, l3, r3]⟩
  | kw kk n0 l r =>
    simp only [TQ.FragE3, Bool.and_eq_true, Bool.not_eq_true'] at hf; simp only [TQ.szE3] at he
    obtain ⟨⟨hl, hr⟩, hne⟩ := hf
    obtain ⟨l1, l2, l3⟩ := ih l (by omega) hl
    by_cases hk : kk = .in_
    · subst hk
      simp only [beq_self_eq_true, if_true] at hr
      cases r with
      | subValue vs =>
        simp only [TQ.inRhs3, Bool.and_eq_true] at hr; simp only [TQ.szE3] at he
        obtain ⟨i1, _, i3, i4⟩ := incL vs (hL vs (by omega) hr.1.1)
        refine ⟨?_, by simp only [toksE4, TQ.toksE3, l2, i3], by simp only [tl4, TQ.tl3, l3]⟩
        simp only [FragE4, l1, beq_self_eq_true, if_true, inRhs4, i1, hr.1.2, i4, hr.2, hne, Bool.not_false, Bool.and_self]
      | subQuery q =>
        simp only [TQ.inRhs3] at hr; simp only [TQ.szE3] at he
        obtain ⟨q1, q2⟩ := ihq q (by omega) hr
        refine ⟨?_, by simp only [toksE4, TQ.toksE3, l2, q2], by simp only [tl4, TQ.tl3, l3]⟩
        simp only [FragE4, l1, beq_self_eq_true, if_true, inRhs4, q1, hne, Bool.not_false, Bool.and_self]
      | _ => simp [TQ.inRhs3] at hr
    · have hk' : (kk == KwKind.in_) = false := by simpa using hk
      simp only [hk', Bool.false_eq_true, if_false] at hr
      obtain ⟨r1, r2, r3⟩ := ih r (by omega) hr
      exact ⟨by simp only [FragE4, l1, hk', Bool.false_eq_true, if_false, r1, hne, Bool.not_false, Bool.and_self],
        by simp only [toksE4, TQ.toksE3, l2, r2], by simp only [tl4, TQ.tl3, l3, r3]⟩
  | between n0 b f t =>
    simp only [TQ.FragE3, Bool.and_eq_true, Bool.not_eq_true'] at hf; simp only [TQ.szE3] at he
    obtain ⟨⟨⟨hb, hf'⟩, ht⟩, hne⟩ := hf
    obtain ⟨b1, b2, b3⟩ := ih b (by omega) hb
    obtain ⟨f1, f2, f3⟩ := ih f (by omega) hf'
    obtain ⟨t1, t2, t3⟩ := ih t (by omega) ht
    exact ⟨by simp only [FragE4, b1, f1, t1, hne, Bool.not_false, Bool.and_self],
      by simp only [toksE4, TQ.toksE3, b2, f2, t2], by simp only [tl4, TQ.tl3, b3, f3, t3]⟩
  | compare o l r =>
    simp only [TQ.FragE3, Bool.and_eq_true, Bool.not_eq_true'] at hf; simp only [TQ.szE3] at he
    obtain ⟨⟨⟨ho, hl⟩, hr⟩, hne⟩ := hf
    obtain ⟨l1, l2, l3⟩ := ih l (by omega) hl
    obtain ⟨r1, r2, r3⟩ := ih r (by omega) hr
    exact ⟨by simp only [FragE4, ho, l1, r1, hne, Bool.not_false, Bool.and_self],
      by simp only [toksE4, TQ.toksE3, l2, r2], by simp only [tl4, TQ.tl3, l3, r3]⟩
  | subQuery q =>
    simp only [TQ.FragE3] at hf; simp only [TQ.szE3] at he
    obtain ⟨q1, q2⟩ := ihq q (by omega) hf
    exact ⟨by simp only [FragE4, q1], by simp only [toksE4, TQ.toksE3, q2], by simp [tl4, TQ.tl3]⟩
  | exists_ v =>
    cases v with
    | subQuery q =>
      simp only [TQ.FragE3, TQ.isSubQ] at hf; simp only [TQ.szE3] at he
      obtain ⟨q1, q2⟩ := ihq q (by omega) hf
      exact ⟨by simp only [FragE4, isSubQ4, q1], by simp only [toksE4, TQ.toksE3, q2], by simp [tl4, TQ.tl3]⟩
    | _ => simp [TQ.FragE3, TQ.isSubQ] at hf
  | not_ x =>
    simp only [TQ.FragE3] at hf; simp only [TQ.szE3] at he
    obtain ⟨x1, x2, x3⟩ := ih x (by omega) hf
    exact ⟨by simp only [FragE4, x1], by simp only [toksE4, TQ.toksE3, x2], by simp only [tl4, TQ.tl3, x3]⟩
  | and_ l r =>
    simp only [TQ.FragE3, Bool.and_eq_true] at hf; simp only [TQ.szE3] at he
    obtain ⟨l1, l2, l3⟩ := ih l (by omega) hf.1
    obtain ⟨r1, r2, r3⟩ := ih r (by omega) hf.2
    exact ⟨by simp only [FragE4, l1, r1, Bool.and_self], by simp only [toksE4, TQ.toksE3, l2, r2], by simp only [tl4, TQ.tl3, l3, r3]⟩
  | xor l r =>
    simp only [TQ.FragE3, Bool.and_eq_true] at hf; simp only [TQ.szE3] at he
    obtain ⟨l1, l2, l3⟩ := ih l (by omega) hf.1
    obtain ⟨r1, r2, r3⟩ := ih r (by omega) hf.2
    exact ⟨by simp only [FragE4, l1, r1, Bool.and_self], by simp only [toksE4, TQ.toksE3, l2, r2], by simp only [tl4, TQ.tl3, l3, r3]⟩
  | or_ l r =>
    simp only [TQ.FragE3, Bool.and_eq_true] at hf; simp only [TQ.szE3] at he
    obtain ⟨l1, l2, l3⟩ := ih l (by omega) hf.1
    obtain ⟨r1, r2, r3⟩ := ih r (by omega) hf.2
    exact ⟨by simp only [FragE4, l1, r1, Bool.and_self], by simp only [toksE4, TQ.toksE3, l2, r2], by simp only [tl4, TQ.tl3, l3, r3]⟩
  | _ => simp [TQ.FragE3] at hf


/-! ### the SELECT half -/
theorem bd4_join {t : Tok} (h : bdTok d 1 t = true) (hj : PM.joinHead [t] = true) : bdTok4 d 2 t = true := by
  obtain ⟨h1, h2, h3, h4⟩ := TS.bd_parts h
  have hw : ["JOIN", "INNER", "LEFT", "RIGHT", "FULL", "CROSS"].contains (up t.src) = true := by simpa [PM.joinHead] using hj
  simp only [bdTok4, Bool.and_eq_true, Bool.or_eq_true, Bool.not_eq_true', decide_eq_true_eq]
  simp only [List.contains_cons, List.contains_nil, Bool.or_false, Bool.or_eq_true, beq_iff_eq] at hw
  refine ⟨⟨⟨⟨h1, ?_⟩, h3⟩, ?_⟩, ?_⟩
  · rcases h2 with h | h
    · left; exact h
    · right; simp [h]
  · rcases hw with h | h | h | h | h | h <;> rw [h] <;> decide
  · rcases hw with h | h | h | h | h | h <;> simp [Tok.srcEqUp, h]
theorem joinTy_inc {ty : String} (h : TS.joinTyOK d ty = true) : joinTyOK4 d ty = true := by
  simp only [TS.joinTyOK, Bool.and_eq_true] at h
  simp only [joinTyOK4, Bool.and_eq_true]
  refine ⟨h.1, ?_⟩
  have h2 := h.2
  cases hw : joinWords ty with
  | nil => simp [hw] at h2
  | cons t ws =>
    simp only [hw, Bool.and_eq_true] at h2 ⊢
    exact ⟨bd4_join h2.1 h2.2, h2.2⟩
theorem unionTy_inc {ty : String} (h : TQ.unionTyOK d ty = true) : unionTyOK4 d ty = true := by
  simp only [TQ.unionTyOK, Bool.and_eq_true] at h
  simp only [unionTyOK4, Bool.and_eq_true]
  refine ⟨h.1, ?_⟩
  have h2 := h.2
  cases hw : TQ.unionWords ty with
  | nil => simp [hw] at h2
  | cons t ws =>
    simp only [hw, Bool.and_eq_true, Bool.not_eq_true'] at h2 ⊢
    obtain ⟨⟨hb, hs⟩, ho⟩ := h2
    obtain ⟨h1, hn, h3, h4⟩ := TS.bd_parts hb
    refine ⟨?_, hs⟩
    simp only [bdTok4, Bool.and_eq_true, Bool.or_eq_true, Bool.not_eq_true', decide_eq_true_eq]
    refine ⟨⟨⟨⟨h1, ?_⟩, h3⟩, rank_lt _ h4⟩, ho⟩
    rcases hn with h | h
    · left; exact h
    · right; simp [h]

section step
variable (n : Nat) (ihe : ∀ e, TQ.szE3 e ≤ n → TQ.FragE3 d e = true → Inc d ch e) (ihq : ∀ q, TQ.szQ q ≤ n → TQ.FragQ d q = true → IncQ d ch q)
include ihe in
theorem incCols : ∀ cs, TQ.szCols cs ≤ n → TQ.colsOK3 d cs = true →
    colsOK4 d cs = true ∧ toksCols4 d ch cs = TQ.toksCols3 d ch cs ∧ toksColsTail4 d ch cs = TQ.toksColsTail3 d ch cs := by
  intro cs
  induction cs with
  | nil => intro _ _; exact ⟨by simp [colsOK4], by simp [toksCols4, TQ.toksCols3], by simp [toksColsTail4, TQ.toksColsTail3]⟩
  | cons c cs ih =>
    obtain ⟨e, a⟩ := c
    intro hs h
    simp only [TQ.szCols] at hs
    simp only [TQ.colsOK3, Bool.and_eq_true] at h
    obtain ⟨i1, i2, i3⟩ := ih (by omega) h.2
    obtain ⟨e1, e2, _⟩ := ihe e (by omega) h.1.1
    exact ⟨by simp [colsOK4, e1, h.1.2, i1], by simp only [toksCols4, TQ.toksCols3, e2, i3], by simp only [toksColsTail4, TQ.toksColsTail3, e2, i3]⟩
include ihq in
theorem incTable (t : FromTable) (hs : TQ.szTable t ≤ n) (h : TQ.tableOK3 d t = true) : tableOK4 d t = true ∧ toksTable4 d ch t = TQ.toksTable3 d ch t := by
  obtain ⟨r, a⟩ := t
  simp only [TQ.tableOK3, Bool.and_eq_true] at h
  simp only [TQ.szTable] at hs
  cases r with
  | table s nm => exact ⟨by simpa [tableOK4, refOK4, TQ.refOK3] using h, by simp [toksTable4, toksRef4, TQ.toksTable3, TQ.toksRef3]⟩
  | sub q =>
    simp only [TQ.szRef] at hs
    have h1 := h.1
    simp only [TQ.refOK3] at h1
    obtain ⟨q1, q2⟩ := ihq q (by omega) h1
    exact ⟨by simp [tableOK4, refOK4, q1, h.2], by simp only [toksTable4, toksRef4, TQ.toksTable3, TQ.toksRef3, q2]⟩
include ihq in
theorem incTables : ∀ ts, TQ.szTables ts ≤ n → TQ.tablesOK3 d ts = true → tablesOK4 d ts = true ∧ toksTablesTail4 d ch ts = TQ.toksTablesTail3 d ch ts := by
  intro ts
  induction ts with
  | nil => intro _ _; exact ⟨by simp [tablesOK4], by simp [toksTablesTail4, TQ.toksTablesTail3]⟩
  | cons t ts ih =>
    intro hs h
    simp only [TQ.szTables] at hs
    simp only [TQ.tablesOK3, Bool.and_eq_true] at h
    obtain ⟨i1, i2⟩ := ih (by omega) h.2
    obtain ⟨e1, e2⟩ := incTable n ihq t (by omega) h.1
    exact ⟨by simp [tablesOK4, e1, i1], by simp only [toksTablesTail4, TQ.toksTablesTail3, e2, i2]⟩
include ihq in
theorem incFrom (fr : Option (List FromTable)) (hs : TQ.szFrom fr ≤ n) (h : TQ.fromOK3 d fr = true) : fromOK4 d fr = true ∧ toksFrom4 d ch fr = TQ.toksFrom3 d ch fr := by
  cases fr with
  | none => exact ⟨by simp [fromOK4], by simp [toksFrom4, TQ.toksFrom3]⟩
  | some l =>
    cases l with
    | nil => simp [TQ.fromOK3] at h
    | cons t ts =>
      simp only [TQ.fromOK3, Bool.and_eq_true] at h
      simp only [TQ.szFrom, TQ.szTables] at hs
      obtain ⟨i1, i2⟩ := incTables n ihq ts (by omega) h.2
      obtain ⟨e1, e2⟩ := incTable n ihq t (by omega) h.1
      exact ⟨by simp [fromOK4, e1, i1], by simp only [toksFrom4, TQ.toksFrom3, e2, i2]⟩
include ihe ihq in
theorem incJoins : ∀ js, TQ.szJoins js ≤ n → TQ.joinsOK3 d js = true → joinsOK4 d js = true ∧ toksJoins4 d ch js = TQ.toksJoins3 d ch js := by
  intro js
  induction js with
  | nil => intro _ _; exact ⟨by simp [joinsOK4], by simp [toksJoins4, TQ.toksJoins3]⟩
  | cons j js ih =>
    obtain ⟨ty, t, rule⟩ := j
    intro hs h
    simp only [TQ.szJoins, TQ.szJoin] at hs
    simp only [TQ.joinsOK3, TQ.joinOK3, Bool.and_eq_true] at h
    obtain ⟨i1, i2⟩ := ih (by omega) h.2
    obtain ⟨e1, e2⟩ := incTable n ihq t (by omega) h.1.1.2
    have hr : ruleOK4 d rule = true ∧ toksRule4 d ch rule = TQ.toksRule3 d ch rule := by
      cases rule with
      | none => exact ⟨by simp [ruleOK4], by simp [toksRule4, TQ.toksRule3]⟩
      | some r =>
        cases r with
        | on e =>
          have := h.1.2; simp only [TQ.ruleOK3] at this
          simp only [TQ.szRule] at hs
          obtain ⟨x1, x2, _⟩ := ihe e (by omega) this
          exact ⟨by simp [ruleOK4, x1], by simp only [toksRule4, TQ.toksRule3, x2]⟩
        | «using» u => have := h.1.2; simp [TQ.ruleOK3] at this
    exact ⟨by simp [joinsOK4, joinOK4, joinTy_inc h.1.1.1, e1, hr.1, i1], by simp only [toksJoins4, toksJoin4, TQ.toksJoins3, TQ.toksJoin3, e2, hr.2, i2]⟩
include ihe in
theorem incOpt (kw : String) (o : Option Expr) (hs : TQ.szO3 o ≤ n) (h : TQ.FragO3 d o = true) : FragO4 d o = true ∧ toksOptE4 d ch kw o = TQ.toksOptE3 d ch kw o := by
  cases o with
  | none => exact ⟨by simp [FragO4], by simp [toksOptE4, TQ.toksOptE3]⟩
  | some e =>
    simp only [TQ.FragO3] at h; simp only [TQ.szO3] at hs
    obtain ⟨x1, x2, _⟩ := ihe e hs h
    exact ⟨by simp [FragO4, x1], by simp only [toksOptE4, TQ.toksOptE3, x2]⟩
include ihe in
theorem incOrd (o : OrderItem) (hs : TQ.szOrdItem o ≤ n) (h : TQ.ordItemOK3 d o = true) : ordItemOK4 d o = true ∧ toksOrdItem4 d ch o = TQ.toksOrdItem3 d ch o := by
  obtain ⟨e, desc, nf, nl⟩ := o
  simp only [TQ.ordItemOK3, Bool.and_eq_true, Bool.not_eq_true'] at h; simp only [TQ.szOrdItem] at hs
  obtain ⟨x1, x2, _⟩ := ihe e hs h.1.1
  obtain ⟨⟨_, rfl⟩, rfl⟩ := h
  exact ⟨by simp [ordItemOK4, x1], by simp [toksOrdItem4, TQ.toksOrdItem3, x2]⟩
include ihe in
theorem incOrdTail : ∀ os, TQ.szOrdL os ≤ n → TQ.ordTailOK3 d os = true → ordTailOK4 d os = true ∧ toksOrdTail4 d ch os = TQ.toksOrdTail3 d ch os := by
  intro os
  induction os with
  | nil => intro _ _; exact ⟨by simp [ordTailOK4], by simp [toksOrdTail4, TQ.toksOrdTail3]⟩
  | cons o os ih =>
    intro hs h
    simp only [TQ.szOrdL] at hs
    simp only [TQ.ordTailOK3, Bool.and_eq_true] at h
    obtain ⟨i1, i2⟩ := ih (by omega) h.2
    obtain ⟨e1, e2⟩ := incOrd n ihe o (by omega) h.1
    exact ⟨by simp [ordTailOK4, e1, i1], by simp only [toksOrdTail4, TQ.toksOrdTail3, e2, i2]⟩
include ihe in
theorem incOrder (ob : Option (List OrderItem)) (hs : TQ.szOrder ob ≤ n) (h : TQ.orderOK3 d ob = true) : orderOK4 d ob = true ∧ toksOrder4 d ch ob = TQ.toksOrder3 d ch ob := by
  cases ob with
  | none => exact ⟨by simp [orderOK4], by simp [toksOrder4, TQ.toksOrder3]⟩
  | some l =>
    cases l with
    | nil => simp [TQ.orderOK3] at h
    | cons o os =>
      simp only [TQ.orderOK3, Bool.and_eq_true] at h
      simp only [TQ.szOrder, TQ.szOrdL] at hs
      obtain ⟨i1, i2⟩ := incOrdTail n ihe os (by omega) h.2
      obtain ⟨e1, e2⟩ := incOrd n ihe o (by omega) h.1
      exact ⟨by simp [orderOK4, e1, i1], by simp only [toksOrder4, TQ.toksOrder3, e2, i2]⟩
end step

/-- the GROUP BY clause: the fragment condition is stated on the rendering without redundant brackets, so the inclusion needs both choices -/
theorem incGroup (n : Nat) (ihe : ∀ e, TQ.szE3 e ≤ n → TQ.FragE3 d e = true → Inc d ch e) (ihx : ∀ e, TQ.szE3 e ≤ n → TQ.FragE3 d e = true → Inc d noX e)
    (gb : Option GroupBy) (hs : TQ.szGroup gb ≤ n) (h : TQ.groupOK3 d gb = true) : groupOK4 d gb = true ∧ toksGroup4 d ch gb = TQ.toksGroup3 d ch gb := by
  cases gb with
  | none => exact ⟨by simp [groupOK4], by simp [toksGroup4, TQ.toksGroup3]⟩
  | some g =>
    obtain ⟨cols, sets, cube, rollup⟩ := g
    cases cols with
    | nil => simp [TQ.groupOK3] at h
    | cons e es =>
      cases sets with
      | some l => simp [TQ.groupOK3] at h
      | none =>
        cases cube with
        | true => simp [TQ.groupOK3] at h
        | false =>
          cases rollup with
          | true => simp [TQ.groupOK3] at h
          | false =>
            simp only [TQ.groupOK3, Bool.and_eq_true, Bool.not_eq_true'] at h
            simp only [TQ.szGroup, TQ.szL3] at hs
            obtain ⟨e1, e2, _⟩ := ihe e (by omega) h.1.1
            obtain ⟨_, x2, _⟩ := ihx e (by omega) h.1.1
            obtain ⟨i1, i2, _, _⟩ := incL (ch := ch) es (fun a ha => by obtain ⟨p, q⟩ := TQ.frag2L_mem es h.1.2 a ha; exact ihe a (by omega) p)
            have hg := h.2
            simp only [TQ.W3] at hg
            refine ⟨by simp [groupOK4, e1, i1, x2, hg], ?_⟩
            simp [toksGroup4, TQ.toksGroup3, toksArgs4, toksSetsOpt4, e2, i2 8]

theorem incSelect (n : Nat) (ihe : ∀ e, TQ.szE3 e ≤ n → TQ.FragE3 d e = true → Inc d ch e) (ihx : ∀ e, TQ.szE3 e ≤ n → TQ.FragE3 d e = true → Inc d noX e)
    (ihq : ∀ q, TQ.szQ q ≤ n → TQ.FragQ d q = true → IncQ d ch q) (s : Select) (hs : TQ.szS3 s ≤ n + 1) (hf : TQ.FragS3 d s = true) :
    FragS4 d s = true ∧ toksS4 d ch s = TQ.toksS3 d ch s := by
  obtain ⟨ws, dist, cols, fr, lats, js, wh, gb, hv, ob, sb, db, cb, lm⟩ := s
  cases ws with
  | none => simp [TQ.FragS3] at hf
  | some w =>
  cases w with
  | cons x y => simp [TQ.FragS3] at hf
  | nil =>
  cases lats with
  | cons x y => simp [TQ.FragS3] at hf
  | nil =>
  cases sb with
  | some x => simp [TQ.FragS3] at hf
  | none =>
  cases db with
  | some x => simp [TQ.FragS3] at hf
  | none =>
  cases cb with
  | some x => simp [TQ.FragS3] at hf
  | none =>
    simp only [TQ.FragS3, Bool.and_eq_true, Bool.or_eq_true, Bool.not_eq_true'] at hf
    simp only [TQ.szS3] at hs
    obtain ⟨⟨⟨⟨⟨⟨⟨⟨⟨hc, hne⟩, hfr⟩, hjs⟩, hwh⟩, hgb⟩, hhv⟩, hob⟩, hlm⟩, hdist⟩ := hf
    obtain ⟨c1, c2, _⟩ := incCols (ch := ch) n ihe cols (by omega) hc
    obtain ⟨_, x2, _⟩ := incCols (ch := noX) n ihx cols (by omega) hc
    obtain ⟨f1, f2⟩ := incFrom n ihq fr (by omega) hfr
    obtain ⟨j1, j2⟩ := incJoins n ihe ihq js (by omega) hjs
    obtain ⟨w1, w2⟩ := incOpt n ihe "WHERE" wh (by omega) hwh
    obtain ⟨g1, g2⟩ := incGroup n ihe ihx gb (by omega) hgb
    obtain ⟨v1, v2⟩ := incOpt n ihe "HAVING" hv (by omega) hhv
    obtain ⟨o1, o2⟩ := incOrder n ihe ob (by omega) hob
    refine ⟨?_, ?_⟩
    · simp only [FragS4, c1, hne, f1, latsOK4, j1, w1, g1, v1, o1, orderOK4, byOK4, hlm, x2, Bool.and_self, Bool.true_and, Bool.and_true,
        Bool.or_eq_true, Bool.not_eq_true']
      simpa using hdist
    · simp [toksS4, TQ.toksS3, c2, f2, toksLats4, j2, w2, g2, v2, o2, toksSort4, toksBy4]

theorem incUn (n : Nat) (ihe : ∀ e, TQ.szE3 e ≤ n → TQ.FragE3 d e = true → Inc d ch e) (ihx : ∀ e, TQ.szE3 e ≤ n → TQ.FragE3 d e = true → Inc d noX e)
    (ihq : ∀ q, TQ.szQ q ≤ n → TQ.FragQ d q = true → IncQ d ch q) : ∀ us, TQ.szUn us ≤ n + 1 → TQ.FragUn d us = true →
    FragUn2 d us = true ∧ toksUn2 d ch us = TQ.toksUn d ch us := by
  intro us
  induction us with
  | nil => intro _ _; exact ⟨by simp [FragUn2], by simp [toksUn2, TQ.toksUn]⟩
  | cons p r ih =>
    obtain ⟨t, s⟩ := p
    intro hs hf
    simp only [TQ.szUn] at hs
    simp only [TQ.FragUn, Bool.and_eq_true] at hf
    obtain ⟨i1, i2⟩ := ih (by omega) hf.2
    obtain ⟨s1, s2⟩ := incSelect n ihe ihx ihq s (by omega) hf.1.2
    exact ⟨by simp [FragUn2, unionTy_inc hf.1.1, s1, i1], by simp only [toksUn2, TQ.toksUn, s2, i2]⟩
theorem inc_query_step (n : Nat) (ihe : ∀ e, TQ.szE3 e ≤ n → TQ.FragE3 d e = true → Inc d ch e) (ihx : ∀ e, TQ.szE3 e ≤ n → TQ.FragE3 d e = true → Inc d noX e)
    (ihq : ∀ q, TQ.szQ q ≤ n → TQ.FragQ d q = true → IncQ d ch q) : ∀ q, TQ.szQ q ≤ n + 1 → TQ.FragQ d q = true → IncQ d ch q := by
  intro q hs hf
  cases q with
  | single s =>
    simp only [TQ.FragQ] at hf; simp only [TQ.szQ] at hs
    obtain ⟨s1, s2⟩ := incSelect n ihe ihx ihq s (by omega) hf
    exact ⟨by simp [FragQ2, s1], by simp only [toksQ2, TQ.toksQ, s2]⟩
  | union ws s us =>
    simp only [TQ.szQ] at hs
    cases ws with
    | none => simp [TQ.FragQ] at hf
    | some l =>
      cases l with
      | cons _ _ => simp [TQ.FragQ] at hf
      | nil =>
        simp only [TQ.FragQ, Bool.and_eq_true, Bool.not_eq_true', Bool.true_and] at hf
        obtain ⟨s1, s2⟩ := incSelect n ihe ihx ihq s (by omega) hf.1.1
        obtain ⟨u1, u2⟩ := incUn n ihe ihx ihq us (by omega) hf.1.2
        exact ⟨by simp [FragQ2, s1, u1, hf.2], by simp only [toksQ2, TQ.toksQ, s2, u2]⟩

/-- **the mutual induction**: for both the given choice of redundant brackets and the printer's (none) -/
theorem inc_all (d : Gen.D) (ch : Expr → Bool) : ∀ n, (∀ e, TQ.szE3 e ≤ n → TQ.FragE3 d e = true → Inc d ch e ∧ Inc d noX e) ∧
    (∀ q, TQ.szQ q ≤ n → TQ.FragQ d q = true → IncQ d ch q ∧ IncQ d noX q) := by
  intro n
  induction n with
  | zero =>
    refine ⟨fun e he => ?_, fun q hq => ?_⟩
    · have := TQ.szE3_pos e; omega
    · cases q <;> simp [TQ.szQ] at hq
  | succ n ih =>
    have a1 : ∀ e, TQ.szE3 e ≤ n → TQ.FragE3 d e = true → Inc d ch e := fun e h1 h2 => (ih.1 e h1 h2).1
    have a2 : ∀ e, TQ.szE3 e ≤ n → TQ.FragE3 d e = true → Inc d noX e := fun e h1 h2 => (ih.1 e h1 h2).2
    have b1 : ∀ q, TQ.szQ q ≤ n → TQ.FragQ d q = true → IncQ d ch q := fun q h1 h2 => (ih.2 q h1 h2).1
    have b2 : ∀ q, TQ.szQ q ≤ n → TQ.FragQ d q = true → IncQ d noX q := fun q h1 h2 => (ih.2 q h1 h2).2
    exact ⟨fun e h1 h2 => ⟨inc_expr_step n a1 b1 e h1 h2, inc_expr_step n a2 b2 e h1 h2⟩,
      fun q h1 h2 => ⟨inc_query_step n a1 a2 b1 q h1 h2, inc_query_step n a2 a2 b2 q h1 h2⟩⟩
end TQ2

namespace C03
open TQ2
/-- **`FragQ ⊆ FragQ2`**: every query of the fragment of `C03.tquery` (Props/C03Q.lean) is in the larger fragment, with the same rendering
(for every choice of redundant brackets) -/
theorem fragQ_sub_fragQ2 (d : Gen.D) (ch : Expr → Bool) (q : Query) (hq : TQ.FragQ d q = true) :
    FragQ2 d q = true ∧ toksQ2 d ch q = TQ.toksQ d ch q :=
  ((inc_all d ch (TQ.szQ q)).2 q (Nat.le_refl _) hq).1
/-- `C03.tquery` as an instance of `C03.tquery2` -/
theorem tquery_instance (d : Gen.D) (q : Query) (hq : TQ.FragQ d q = true) (rest : List Tok) (hr : TQ.stopsQ d rest = true)
    (fuel : Nat) (hfuel : 20 * sizeL (TQ.toksQ d noX q) + 9 ≤ fuel) : pSelectStmt d fuel none (TQ.toksQ d noX q ++ rest) = .ok (q, rest) := by
  obtain ⟨h1, h2⟩ := fragQ_sub_fragQ2 d noX q hq
  rw [← h2] at hfuel ⊢
  exact tquery2_stopsQ d q h1 rest hr fuel hfuel
end C03
namespace C02
open TQ2
/-- **`FragE3 ⊆ FragE4`** with equal renderings -/
theorem fragE3_sub_fragE4 (d : Gen.D) (ch : Expr → Bool) (e : Expr) (he : TQ.FragE3 d e = true) :
    FragE4 d e = true ∧ toksE4 d ch e = TQ.toksE3 d ch e :=
  let r := ((inc_all d ch (TQ.szE3 e)).1 e (Nat.le_refl _) he).1
  ⟨r.1, r.2.1⟩
/-- `C02.tparse3` as an instance of `C02.tparse4` -/
theorem tparse3_instance (d : Gen.D) (e : Expr) (hf : TQ.FragE3 d e = true) (rest : List Tok) (hr : TP2.stops2 d rest = true)
    (fuel : Nat) (hfuel : 20 * sizeL (TQ.toksE3 d noX e) + 15 ≤ fuel) : pOr d fuel (TQ.toksE3 d noX e ++ rest) = .ok (e, rest) := by
  obtain ⟨h1, h2⟩ := fragE3_sub_fragE4 d noX e hf
  rw [← h2] at hfuel ⊢
  exact tparse4 d e h1 rest hr fuel hfuel
end C02
