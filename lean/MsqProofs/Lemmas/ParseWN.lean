import MsqProofs.Lemmas.ParseWNE3
/-!
# C02 — `parse_derives`: induction on the fuel
-/
open Lex
namespace WNG
open PM Ast
variable (d : Gen.D)

/-- every function of the expression block returns a tree that the documented grammar derives from the tokens it consumed -/
theorem wf_all : ∀ n, WF d n := by
  intro n
  induction n with
  | zero =>
    constructor <;> (intros; simp [RE, pElement, pParen, pNamed, pQualified, pIndex, pFuncIdx, pFunc, pIfCall, pFirstArg, pCall, pArgs, pCase,
      pElseEnd, pWhens, pUnary, pCompute, pComputeLoop, pKeyword, pKwFirst, pKwRest, pKwBody, pBetween, pInBody, pSplit, pCompare,
      pCompareLoop, pNot, pAnd, pAndLoop, pXor, pXorLoop, pOr, pOrLoop, pSubQuery, pCast, pExtract, pExtractTail, pWindow] at *)
  | succ n ih =>
    exact ⟨wf_pElement ih, wf_pParen ih, wf_pNamed ih, wf_pQualified ih, wf_pIndex ih, wf_pFuncIdx ih, wf_pFunc ih, wf_pIfCall ih,
      wf_pFirstArg ih, wf_pCall ih, wf_pArgs ih, wf_pCase ih, wf_pElseEnd ih, wf_pWhens ih, wf_pUnary ih, wf_pCompute ih,
      wf_pComputeLoop ih, wf_pKeyword ih, wf_pKwFirst ih, wf_pKwRest ih, wf_pKwBody ih, wf_pBetween ih, wf_pInBody ih, wf_pSplit ih,
      wf_pCompare ih, wf_pCompareLoop ih, wf_pNot ih, wf_pAnd ih, wf_pAndLoop ih, wf_pXor ih, wf_pXorLoop ih, wf_pOr ih, wf_pOrLoop ih,
      wf_pSubQuery ih, wf_pCast ih, wf_pExtract ih, wf_pExtractTail ih, wf_pWindow ih⟩

end WNG
