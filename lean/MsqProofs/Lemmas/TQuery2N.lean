import MsqProofs.Lemmas.TQuery2S
/-!
# T-parse on the larger nested fragment: the new expression nodes (C02 / C01)

Node lemmas (record `RT4` of the node from the records of its children) for
* `IF(a, …)` — `rt_if` (the parser has its own branch `pIfCall`; the tree stores the name `IF`);
* `CAST(e AS [SIGNED] type [(p, …)])` — `rt_cast` (`castTail_ok`: the pure tail after `AS`, over the regenerated type table);
* `EXTRACT(n FROM e)` — `rt_extract`;
* `fn OVER ([PARTITION BY …] [ORDER BY …] [ROWS BETWEEN a AND b])` with `fn` a plain call or an aggregate call — `rt_window`
  (`windowRow_ok`: frame bounds CURRENT ROW / UNBOUNDED PRECEDING|FOLLOWING / n PRECEDING|FOLLOWING, `n ≥ 0`);
* `a[i]` with `a` a column, a qualified column or a plain call — `rt_index`.
-/
set_option linter.unusedVariables false
set_option linter.unusedSimpArgs false
set_option maxHeartbeats 1000000
set_option autoImplicit false
open Lex PM Ast TP TP2
open TS (intTok isOkInt)
open TQ (tblTok unionWords lvlH isExists lvlH_eq lvlH_ge lvlH_of_le8 isOkPair tblOK)
namespace TQ2
variable {d : Gen.D} {ch : Expr → Bool}

/-! ### `IF(…)` -/
theorem if_words : (up "IF" == "CAST") = false ∧ (up "IF" == "EXTRACT") = false ∧ (up "IF" == "IF") = true := by decide
theorem full2_if (ps : List Expr) (hnm : nmOK d (qTok "IF") "IF" = true) (hsp : isOkNoneS (splitName (qTok "IF").src) "IF" = true)
    (hps : ∀ a ∈ ps, RT4 d ch a) : Full2 d (P2 d) 2 0 [qTok "IF", grp (toksArgs4 d ch 14 ps)] (.func none "IF" ps) := by
  obtain ⟨u, _, _, hN, l, p, cs, st, un, _, _⟩ := nmOK_parts hnm
  obtain ⟨acc, r2, h1, h2⟩ := args_ok ps hps
  obtain ⟨w1, w2, w3⟩ := if_words
  intro rest hr f hf
  simp only [sizeL, qTok_size, size_grp] at hf
  obtain ⟨g, rfl⟩ : ∃ g, f = g + 6 := ⟨f - 6, by omega⟩
  have a1 := h1 g (by omega)
  have a2 := h2 g (by omega)
  simp only at a1 a2
  have hname := pFuncName_plain (qTok "IF") "IF" (toksArgs4 d ch 14 ps) rest hN (isOkNoneS_eq hsp)
  show pUnary d (g + 6) (qTok "IF" :: grp (toksArgs4 d ch 14 ps) :: rest) = _
  unfold pUnary
  simp only [u, Bool.false_eq_true, if_false]
  unfold pElement
  simp only [l, p, cs, st, Bool.false_eq_true, if_false]
  unfold pNamed
  simp only [grp_paren, if_true, so hr, Bool.false_eq_true, if_false]
  unfold pFuncIdx pFunc
  simp only [hname, Option.isNone_none, Bool.true_and, w1, w2, w3, Bool.false_eq_true, if_false, if_true]
  unfold pIfCall
  simp only [children_grp, a1, a2, closed, pIndex_stop _ rest hr]
theorem rt_if (s : Option String) (n : String) (ps : List Expr) (hif : ifOK d s n = true) (hps : ∀ a ∈ ps, RT4 d ch a) :
    RT4 d ch (.func s n ps) := by
  simp only [ifOK, Bool.and_eq_true, beq_iff_eq, Option.isNone_iff_eq_none] at hif
  obtain ⟨⟨⟨rfl, rfl⟩, hnm⟩, hsp⟩ := hif
  obtain ⟨_, ho, hd1, _, _, _, _, _, _, c1, _⟩ := nmOK_parts hnm
  exact RT4.mk2 [qTok "IF", grp (toksArgs4 d ch 14 ps)] (by simp only [toksE4, List.nil_append])
    ((Tower2.of2 (full2_if ps hnm hsp hps) (headOK_tok _ _ ho)).relevel _ (by simp [PR.lvl])) (head_tok _ _ hd1 ho)
    (NoComma.cons c1 (grp_nocomma _)) (by simp [tl4])

/-! ### `CAST(e AS [SIGNED] type [(p, …)])` -/
theorem special_names : nmOK d (opTok "CAST") "CAST" = true ∧ isOkNoneS (splitName (opTok "CAST").src) "CAST" = true ∧
    nmOK d (opTok "EXTRACT") "EXTRACT" = true ∧ isOkNoneS (splitName (opTok "EXTRACT").src) "EXTRACT" = true := by cases d <;> decide
theorem special_words : (up "CAST" == "CAST") = true ∧ (up "EXTRACT" == "CAST") = false ∧ (up "EXTRACT" == "EXTRACT") = true ∧
    (opTok "AS").equalsStr "AS" = true ∧ (opTok "FROM").equalsStr "FROM" = true ∧ (opTok "SIGNED").srcEqUp "SIGNED" = true ∧
    (opTok "AS").size = 1 ∧ (opTok "FROM").size = 1 := by decide
theorem intOK_pop {n : Int} (h : intOK n = true) (x : List Tok) : popInt (intTok n :: x) = .ok (n, x) := by
  simp only [intOK, Bool.and_eq_true] at h
  simp [popInt, TS.isOkInt_eq h.2]
theorem castLoop_ok : ∀ (l : List Int), l.all intOK = true → ∀ (acc : List Int) (f : Nat), l.length + 1 ≤ f →
    castParamsLoop f acc (intsTail l) = .ok (acc ++ l) := by
  intro l
  induction l with
  | nil =>
    intro _ acc f hf
    obtain ⟨g, rfl⟩ : ∃ g, f = g + 1 := ⟨f - 1, by omega⟩
    simp [intsTail, castParamsLoop, searchStr]
  | cons n r ih =>
    intro h acc f hf
    simp only [List.all_cons, Bool.and_eq_true] at h
    simp only [List.length_cons] at hf
    obtain ⟨g, rfl⟩ : ∃ g, f = g + 1 := ⟨f - 1, by omega⟩
    have hc : TP2.commaTok.srcEq "," = true := by decide
    have h2 := ih h.2 (acc ++ [n]) g (by omega)
    unfold castParamsLoop
    simp only [intsTail, s0cons, hc, if_true, List.drop_succ_cons, List.drop_zero, intOK_pop h.1, h2, List.append_assoc, List.singleton_append]
theorem intsTail_len (l : List Int) : (intsTail l).length = 2 * l.length := by
  induction l with
  | nil => rfl
  | cons a r ih => simp only [intsTail, List.length_cons, ih]; omega
theorem castParams_ok (l : List Int) (h : l.all intOK = true) : castParams (grp (intsToks l)) = .ok l := by
  cases l with
  | nil => simp [castParams, children_grp, intsToks]
  | cons n r =>
    simp only [List.all_cons, Bool.and_eq_true] at h
    have h2 := castLoop_ok r h.2 [n] ((intTok n :: intsTail r).length + 1) (by simp only [List.length_cons, intsTail_len]; omega)
    simp only [castParams, children_grp, intsToks, intOK_pop h.1, h2, List.singleton_append]
theorem castTy_parts {ty : String} (h : castTyOK ty = true) :
    (∃ x, Gen.castTypes.find? (fun k => (opTok (castVal ty)).equalsStr k.2) = some (ty, x)) ∧ (opTok (castVal ty)).srcEqUp "SIGNED" = false := by
  simp only [castTyOK, Bool.and_eq_true, Bool.not_eq_true'] at h
  refine ⟨?_, h.1.2⟩
  have h1 := h.1.1
  split at h1
  · rename_i t x heq
    simp only [beq_iff_eq] at h1
    exact ⟨x, by rw [heq, h1]⟩
  · cases h1
/-- the tail of a CAST after `AS`: `[SIGNED] type [(p, …)]` -/
theorem castTail_ok (e : Expr) (sg : Bool) (ty : String) (ps : Option (List Int)) (hty : castTyOK ty = true) (hps : castParamsOK ps = true) :
    castTail e ((if sg then [opTok "SIGNED"] else []) ++ opTok (castVal ty) :: castParamToks ps) = .ok (.cast e sg ty ps) := by
  obtain ⟨⟨x, hfind⟩, hns⟩ := castTy_parts hty
  obtain ⟨_, _, _, _, _, kS, _⟩ := special_words
  have hm : moveStrUp ((if sg then [opTok "SIGNED"] else []) ++ opTok (castVal ty) :: castParamToks ps) "SIGNED" =
      (sg, opTok (castVal ty) :: castParamToks ps) := by
    cases sg <;> simp [moveStrUp, s1cons, kS, hns]
  unfold castTail
  simp only [hm, hfind]
  cases ps with
  | none => simp [castParamToks]
  | some l =>
    simp only [castParamsOK] at hps
    simp [castParamToks, grp_paren, castParams_ok l hps]
theorem as_stop8 (x : List Tok) : stopLE2 d 8 (opTok "AS" :: x) = true ∧ stopLE2 d 8 (opTok "FROM" :: x) = true := by
  have h : stopTok d 8 (opTok "AS") = true ∧ stopTok d 8 (opTok "FROM") = true := by cases d <;> decide
  exact ⟨TP2.stop2_of x h.1 (by decide), TP2.stop2_of x h.2 (by decide)⟩
theorem full2_cast (e : Expr) (sg : Bool) (ty : String) (ps : Option (List Int)) (he : RT4 d ch e) (hty : castTyOK ty = true)
    (hps : castParamsOK ps = true) :
    Full2 d (P2 d) 2 0 [opTok "CAST", grp (W4 d ch e 8 ++ opTok "AS" :: ((if sg then [opTok "SIGNED"] else []) ++ opTok (castVal ty) :: castParamToks ps))]
      (.cast e sg ty ps) := by
  obtain ⟨hnm, hsp, _, _⟩ := @special_names d
  obtain ⟨u, _, _, hN, l, p, cs, st, un, _, _⟩ := nmOK_parts hnm
  obtain ⟨w1, _, _, kA, _, _, zA, _⟩ := special_words
  intro rest hr f hf
  simp only [sizeL, size_opTok, size_grp, sizeL_append, sizeL_cons, zA] at hf
  obtain ⟨g, rfl⟩ : ∃ g, f = g + 6 := ⟨f - 6, by omega⟩
  have h1 := key8 e he (opTok "AS" :: ((if sg then [opTok "SIGNED"] else []) ++ opTok (castVal ty) :: castParamToks ps)) (as_stop8 _).1 g (by omega)
  simp only at h1
  have hname := pFuncName_plain (opTok "CAST") "CAST"
    (W4 d ch e 8 ++ opTok "AS" :: ((if sg then [opTok "SIGNED"] else []) ++ opTok (castVal ty) :: castParamToks ps)) rest hN (isOkNoneS_eq hsp)
  show pUnary d (g + 6) (opTok "CAST" :: grp _ :: rest) = _
  unfold pUnary
  simp only [u, Bool.false_eq_true, if_false]
  unfold pElement
  simp only [l, p, cs, st, Bool.false_eq_true, if_false]
  unfold pNamed
  simp only [grp_paren, if_true, so hr, Bool.false_eq_true, if_false]
  unfold pFuncIdx pFunc
  simp only [hname, Option.isNone_none, Bool.true_and, w1, if_true]
  unfold pCast
  simp only [children_grp, h1, matchSeq, kA, if_true, castTail_ok e sg ty ps hty hps, pIndex_stop _ rest hr]
theorem rt_cast (e : Expr) (sg : Bool) (ty : String) (ps : Option (List Int)) (he : RT4 d ch e) (hty : castTyOK ty = true)
    (hps : castParamsOK ps = true) : RT4 d ch (.cast e sg ty ps) := by
  obtain ⟨hnm, _⟩ := @special_names d
  obtain ⟨_, ho, hd1, _, _, _, _, _, _, c1, _⟩ := nmOK_parts hnm
  exact RT4.mk2 _ (by simp only [toksE4, W4])
    ((Tower2.of2 (full2_cast e sg ty ps he hty hps) (headOK_tok _ _ ho)).relevel _ (by simp [PR.lvl])) (head_tok _ _ hd1 ho)
    (NoComma.cons c1 (grp_nocomma _)) (by simp [tl4])

/-! ### `EXTRACT(n FROM e)` -/
theorem full2_extract (n e : Expr) (hn : RT4 d ch n) (he : RT4 d ch e) :
    Full2 d (P2 d) 2 0 [opTok "EXTRACT", grp (W4 d ch n 8 ++ opTok "FROM" :: W4 d ch e 8)] (.extract n e) := by
  obtain ⟨_, _, hnm, hsp⟩ := @special_names d
  obtain ⟨u, _, _, hN, l, p, cs, st, un, _, _⟩ := nmOK_parts hnm
  obtain ⟨_, w2, w3, _, kF, _, _, zF⟩ := special_words
  intro rest hr f hf
  simp only [sizeL, size_opTok, size_grp, sizeL_append, sizeL_cons, zF] at hf
  obtain ⟨g, rfl⟩ : ∃ g, f = g + 7 := ⟨f - 7, by omega⟩
  have h1 := key8 n hn (opTok "FROM" :: W4 d ch e 8) (as_stop8 _).2 (g + 1) (by omega)
  have h2 := key8_closed e he g (by omega)
  simp only at h1 h2
  have hname := pFuncName_plain (opTok "EXTRACT") "EXTRACT" (W4 d ch n 8 ++ opTok "FROM" :: W4 d ch e 8) rest hN (isOkNoneS_eq hsp)
  show pUnary d (g + 7) (opTok "EXTRACT" :: grp _ :: rest) = _
  unfold pUnary
  simp only [u, Bool.false_eq_true, if_false]
  unfold pElement
  simp only [l, p, cs, st, Bool.false_eq_true, if_false]
  unfold pNamed
  simp only [grp_paren, if_true, so hr, Bool.false_eq_true, if_false]
  unfold pFuncIdx pFunc
  simp only [hname, Option.isNone_none, Bool.true_and, w2, w3, Bool.false_eq_true, if_false, if_true]
  unfold pExtract
  simp only [children_grp, h1]
  unfold pExtractTail
  simp only [matchSeq, kF, if_true, h2, pIndex_stop _ rest hr]
theorem rt_extract (n e : Expr) (hn : RT4 d ch n) (he : RT4 d ch e) : RT4 d ch (.extract n e) := by
  obtain ⟨_, _, hnm, _⟩ := @special_names d
  obtain ⟨_, ho, hd1, _, _, _, _, _, _, c1, _⟩ := nmOK_parts hnm
  exact RT4.mk2 _ (by simp only [toksE4, W4])
    ((Tower2.of2 (full2_extract n e hn he) (headOK_tok _ _ ho)).relevel _ (by simp [PR.lvl])) (head_tok _ _ hd1 ho)
    (NoComma.cons c1 (grp_nocomma _)) (by simp [tl4])

/-! ### window functions -/
/-- no array index follows -/
def NoArr (rest : List Tok) : Prop := ∀ (b : Expr) (g : Nat), pIndex d (g + 1) b rest = .ok (b, rest)
theorem noArr_over (x : List Tok) : NoArr (d := d) (opTok "OVER" :: x) := by
  intro b g
  have : (opTok "OVER").has ARRAY = false := by decide
  unfold pIndex
  simp [this]
/-- `funcIdx_ok` in front of a continuation that is not an array index (it may be `OVER`) -/
theorem funcIdx_ok2 (ts : List Tok) (schema : Option String) (name : String) (A rest : List Tok) (isAgg dist : Bool) (A' : List Tok) (ps : List Expr)
    (hname : pFuncName ts = .ok ((schema, name), grp A :: rest))
    (hsp : (schema.isNone && up name == "CAST") = false ∧ (schema.isNone && up name == "EXTRACT") = false ∧ (schema.isNone && up name == "IF") = false)
    (hprep : callPrep name (grp A) = (isAgg, dist, A'))
    (B : Nat) (acc : List Expr) (r2 : List Tok) (h1 : OkAt (fun f => pFirstArg d f A') B (acc, r2)) (h2 : OkAt (fun f => pArgs d f acc r2) B (ps, []))
    (hr : NoArr (d := d) rest) :
    OkAt (fun f => pFuncIdx d f ts) (B + 3) (callNode schema name isAgg dist ps, rest) := by
  intro f hf
  obtain ⟨g, rfl⟩ : ∃ g, f = g + 3 := ⟨f - 3, by omega⟩
  have a1 := h1 g (by omega)
  have a2 := h2 g (by omega)
  simp only at a1 a2
  unfold pFuncIdx pFunc
  simp only [hname, hsp.1, hsp.2.1, hsp.2.2, Bool.false_eq_true, if_false]
  unfold pCall
  simp only [hprep, a1, a2, closed, hr _ (g + 1)]
/-- the function of a window expression: its name token, its bracket group, and how `pFuncIdx` reads it -/
structure WinFn (d : Gen.D) (ch : Expr → Bool) (fn : Expr) : Prop where
  shape : ∃ nm A n, toksE4 d ch fn = [nm, grp A] ∧ nmOK d nm n = true ∧
    ∀ rest, NoArr (d := d) rest → OkAt (fun f => pFuncIdx d f (nm :: grp A :: rest)) (20 * sizeL A + 21) (fn, rest)
  tl : 2 ≤ tl4 fn
theorem winFn_func (n : String) (ps : List Expr) (hn : fnOK d none n = true) (hps : ∀ a ∈ ps, RT4 d ch a) : WinFn d ch (.func none n ps) := by
  have hn' := hn
  simp only [fnOK, Bool.and_eq_true] at hn
  obtain ⟨hfn, hnm, hsp⟩ := hn
  obtain ⟨u, _, _, hN, l, p, cs, st, un, _, _⟩ := nmOK_parts hnm
  obtain ⟨c1, c2, c3, _, _⟩ := fnName_parts hfn
  obtain ⟨acc, r2, h1, h2⟩ := args_ok ps hps
  refine ⟨⟨qTok n, toksArgs4 d ch 14 ps, n, by simp only [toksE4, List.nil_append], hnm, fun rest hr => ?_⟩, by simp [tl4]⟩
  have key := funcIdx_ok2 (d := d) (qTok n :: grp (toksArgs4 d ch 14 ps) :: rest) none n _ rest false false _ ps
    (pFuncName_plain _ n _ rest hN (isOkNoneS_eq hsp)) ⟨by simp [c1], by simp [c2], by simp [c3]⟩ (callPrep_func n _ hfn) _ acc r2 h1 h2 hr
  simp only [callNode, Option.isNone_none, Bool.true_and, Bool.false_eq_true, if_false] at key
  exact key.mono (by omega)
theorem winFn_agg (n : String) (ps : List Expr) (dist : Bool) (hn : aggOK d n = true) (hps : ∀ a ∈ ps, RT4 d ch a) : WinFn d ch (.agg n ps dist) := by
  simp only [aggOK, Bool.and_eq_true] at hn
  obtain ⟨⟨hagg, hnm⟩, hsp⟩ := hn
  obtain ⟨u, _, _, hN, l, p, cs, st, un, _, _⟩ := nmOK_parts hnm
  obtain ⟨c1, c2, c3, c4⟩ := agg_parts hagg
  obtain ⟨acc, r2, h1, h2⟩ := args_ok ps hps
  have hprep : callPrep n (grp ((if dist then [opTok "DISTINCT"] else []) ++ toksArgs4 d ch 14 ps)) = (true, dist, toksArgs4 d ch 14 ps) := by
    have hD : (opTok "DISTINCT").srcEqUp "DISTINCT" = true := by decide
    have hagg' : up n ∈ Gen.aggNames := by simpa using hagg
    cases dist with
    | true => simp [callPrep, hagg', substringRewrite, c4, children_grp, moveStrUp, searchStrUp, hD]
    | false => simp [callPrep, hagg', substringRewrite, c4, children_grp, moveStrUp, args_noDistinct ps hps]
  refine ⟨⟨opTok n, (if dist then [opTok "DISTINCT"] else []) ++ toksArgs4 d ch 14 ps, n, by simp only [toksE4], hnm, fun rest hr => ?_⟩, by simp [tl4]⟩
  have key := funcIdx_ok2 (d := d) (opTok n :: grp ((if dist then [opTok "DISTINCT"] else []) ++ toksArgs4 d ch 14 ps) :: rest) none n _ rest true dist _ ps
    (pFuncName_plain _ n _ rest hN (isOkNoneS_eq hsp)) ⟨by simp [c1], by simp [c2], by simp [c3]⟩ hprep _ acc r2 h1 h2 hr
  simp only [callNode, Option.isNone_none, Bool.true_and, if_true] at key
  refine key.mono ?_
  simp only [sizeL_append]; omega

/-- frame bounds -/
theorem row_words : (opTok "CURRENT").srcEqUp "CURRENT" = true ∧ (opTok "ROW").srcEqUp "ROW" = true ∧ (opTok "UNBOUNDED").srcEqUp "CURRENT" = false ∧
    (opTok "UNBOUNDED").srcEqUp "UNBOUNDED" = true ∧ (opTok "PRECEDING").srcEqUp "PRECEDING" = true ∧ (opTok "FOLLOWING").srcEqUp "PRECEDING" = false ∧
    (opTok "FOLLOWING").srcEqUp "FOLLOWING" = true ∧ (opTok "ROWS").equalsStr "ROWS" = true ∧ (opTok "BETWEEN").equalsStr "BETWEEN" = true ∧
    (opTok "AND").equalsStr "AND" = true ∧ (opTok "ROWS").srcEqUp "ROWS" = true ∧ (opTok "BETWEEN").srcEqUp "BETWEEN" = true := by decide
theorem rowItem_ok (a : RowItem) (ha : rowOK a = true) (x : List Tok) : pRowItem (rowToks a ++ x) = .ok (a, x) := by
  obtain ⟨k1, k2, k3, k4, k5, k6, k7, _⟩ := row_words
  cases a with
  | current => simp [rowToks, pRowItem, s2cons, k1, k2]
  | unbounded p => cases p <;> simp [rowToks, pRowItem, s2cons, s1cons, k3, k4, k5, k6, k7]
  | num n p =>
    simp only [rowOK, Bool.and_eq_true, Bool.not_eq_true'] at ha
    obtain ⟨⟨hi, hc⟩, hu⟩ := ha
    cases p <;> simp [rowToks, pRowItem, s2cons, s1cons, hc, hu, intOK_pop hi, k5, k6, k7]
theorem windowRow_ok (a b : RowItem) (ha : rowOK a = true) (hb : rowOK b = true) :
    closed (pWindowRow (opTok "ROWS" :: opTok "BETWEEN" :: (rowToks a ++ opTok "AND" :: rowToks b))) = .ok (a, b) := by
  obtain ⟨_, _, _, _, _, _, _, k8, k9, k10, _⟩ := row_words
  have h2 := rowItem_ok b hb []
  simp only [List.append_nil] at h2
  simp [pWindowRow, matchSeq, k8, k9, k10, rowItem_ok a ha, h2, closed]

theorem over_words : (opTok "OVER").equalsStr "OVER" = true ∧ (opTok "OVER").srcEqUp "OVER" = true ∧ (opTok "OVER").size = 1 ∧
    (opTok "PARTITION").srcEqUp "PARTITION" = true ∧ (opTok "BY").srcEqUp "BY" = true ∧ (opTok "ORDER").srcEqUp "PARTITION" = false ∧
    (opTok "ROWS").srcEqUp "PARTITION" = false ∧ (opTok "ROWS").srcEqUp "ORDER" = false ∧ (opTok "ORDER").srcEq "," = false ∧
    (opTok "ROWS").srcEq "," = false ∧ (opTok "ROWS").srcEqUp "DESC" = false ∧ (opTok "ROWS").srcEqUp "ASC" = false ∧
    (opTok "ROWS").srcEqUp "NULLS" = false ∧ (opTok "OVER").equalsStr "," = false := by decide
theorem win_stop8 (x : List Tok) : stopLE2 d 8 (opTok "ORDER" :: x) = true ∧ stopLE2 d 8 (opTok "ROWS" :: x) = true := by
  have h : stopTok d 8 (opTok "ORDER") = true ∧ stopTok d 8 (opTok "ROWS") = true := by cases d <;> decide
  exact ⟨TP2.stop2_of x h.1 (by decide), TP2.stop2_of x h.2 (by decide)⟩
/-- the rendering of the ORDER BY part of a window is that of the ORDER BY clause -/
def ordOpt (ord : List OrderItem) : Option (List OrderItem) := if ord.isEmpty then none else some ord
theorem ordT_eq (ord : List OrderItem) :
    (if ord.isEmpty then [] else [opTok "ORDER", opTok "BY"]) ++ toksOrdList4 d ch ord = toksOrder4 d ch (ordOpt ord) := by
  cases ord with
  | nil => simp [ordOpt, toksOrdList4, toksOrder4]
  | cons o os => simp [ordOpt, toksOrdList4, toksOrder4]
theorem ordOpt_getD (ord : List OrderItem) : (ordOpt ord).getD [] = ord := by cases ord <;> simp [ordOpt]
theorem rows_fol (rows : Option (RowItem × RowItem)) : OFol d (toksRows rows) ∧ searchStr (toksRows rows) "," = false ∧
    searchTwoUp (toksRows rows) "ORDER" "BY" = false ∧ searchTwoUp (toksRows rows) "PARTITION" "BY" = false ∧ stopLE2 d 8 (toksRows rows) = true := by
  obtain ⟨_, _, _, _, _, _, o7, o8, _, o10, o11, o12, o13, _⟩ := over_words
  cases rows with
  | none => exact ⟨⟨rfl, rfl, rfl, rfl, rfl⟩, rfl, rfl, rfl, rfl⟩
  | some p =>
    obtain ⟨a, b⟩ := p
    refine ⟨⟨?_, ?_, ?_, ?_, (win_stop8 _).2⟩, ?_, ?_, ?_, (win_stop8 _).2⟩ <;> simp [toksRows, s0cons, s1cons, s2cons, o7, o8, o10, o11, o12, o13]
theorem full2_window (fn : Expr) (part : List Expr) (ord : List OrderItem) (rows : Option (RowItem × RowItem))
    (hfn : WinFn d ch fn) (hpart : ∀ a ∈ part, RT4 d ch a) (hord : ∀ o ∈ ord, OrdRec d ch o) (hrows : rowsOK rows = true) :
    Full2 d (P2 d) 2 0 (toksE4 d ch (.window fn part ord rows)) (.window fn part ord rows) := by
  obtain ⟨nm, A, n, hT, hnm, hcall⟩ := hfn.shape
  obtain ⟨u, _, _, hN, l, p, cs, st, un, _, _⟩ := nmOK_parts hnm
  obtain ⟨o1, o2, o3, o4, o5, o6, o7, o8, o9, o10, _⟩ := over_words
  obtain ⟨rO, rC, rN, rP, r8⟩ := rows_fol (d := d) rows
  -- the body of the bracket after OVER
  have hbody : OkAt (fun f => pWindowBody d f fn (((if part.isEmpty then [] else [opTok "PARTITION", opTok "BY"]) ++ toksArgs4 d ch 8 part) ++
      (((if ord.isEmpty then [] else [opTok "ORDER", opTok "BY"]) ++ toksOrdList4 d ch ord) ++ toksRows rows)))
      (20 * sizeL (((if part.isEmpty then [] else [opTok "PARTITION", opTok "BY"]) ++ toksArgs4 d ch 8 part) ++
        (((if ord.isEmpty then [] else [opTok "ORDER", opTok "BY"]) ++ toksOrdList4 d ch ord) ++ toksRows rows)) + 10)
      (.window fn part ord rows) := by
    rw [ordT_eq]
    have hOrdRec : OrderRec d ch (ordOpt ord) := by
      cases ord with
      | nil => simp [ordOpt, OrderRec]
      | cons o os => simp only [ordOpt, List.isEmpty_cons, Bool.false_eq_true, if_false, OrderRec]; exact ⟨hord o (by simp), fun x hx => hord x (by simp [hx])⟩
    -- what follows the PARTITION BY list
    have fol8 : stopLE2 d 8 (toksOrder4 d ch (ordOpt ord) ++ toksRows rows) = true ∧ searchStr (toksOrder4 d ch (ordOpt ord) ++ toksRows rows) "," = false ∧
        searchTwoUp (toksOrder4 d ch (ordOpt ord) ++ toksRows rows) "PARTITION" "BY" = false := by
      cases ord with
      | nil => simpa [ordOpt, toksOrder4] using ⟨r8, rC, rP⟩
      | cons o os => simp [ordOpt, toksOrder4, (win_stop8 (d := d) _).1, s0cons, s2cons, o6, o9]
    intro f hf
    simp only [sizeL_append] at hf
    obtain ⟨g, rfl⟩ : ∃ g, f = g + 3 := ⟨f - 3, by omega⟩
    have hP : pPartitionBy d (g + 2) (((if part.isEmpty then [] else [opTok "PARTITION", opTok "BY"]) ++ toksArgs4 d ch 8 part) ++
        (toksOrder4 d ch (ordOpt ord) ++ toksRows rows)) = .ok (part, toksOrder4 d ch (ordOpt ord) ++ toksRows rows) := by
      cases part with
      | nil =>
        unfold pPartitionBy
        simp [toksArgs4, fol8.2.2]
      | cons e es =>
        have h1 := key8 e (hpart e (by simp)) (toksArgsTail4 d ch 8 es ++ (toksOrder4 d ch (ordOpt ord) ++ toksRows rows))
          (stop8_tail (keysTail_shape es) fol8.1) (g + 1)
          (by simp only [toksArgs4, sizeL_append, W4, List.isEmpty_cons, Bool.false_eq_true, if_false] at hf ⊢; omega)
        have h2 := computeList (toksOrder4 d ch (ordOpt ord) ++ toksRows rows) fol8.1 fol8.2.1 es (fun x hx => hpart x (by simp [hx])) [e] (g + 1)
          (by simp only [toksArgs4, sizeL_append, List.isEmpty_cons, Bool.false_eq_true, if_false] at hf ⊢; omega)
        simp only at h1 h2
        unfold pPartitionBy
        simp only [List.isEmpty_cons, Bool.false_eq_true, if_false, toksArgs4, List.cons_append, List.nil_append, List.append_assoc, s2cons, o4, o5,
          Bool.and_self, if_true, List.drop_succ_cons, List.drop_zero]
        simp only [W4, List.append_assoc] at h1 h2
        simp only [h1]
        simpa using h2
    have hO := orderBy (ordOpt ord) hOrdRec (toksRows rows) rO rC rN (g + 2) (by omega)
    simp only at hO
    unfold pWindowBody
    simp only [hP, hO, ordOpt_getD]
    cases rows with
    | none => simp [toksRows, searchTwoUp]
    | some pr =>
      obtain ⟨a, b⟩ := pr
      simp only [rowsOK, Bool.and_eq_true] at hrows
      obtain ⟨_, _, _, _, _, _, _, _, _, _, k11, k12⟩ := row_words
      simp [toksRows, s2cons, k11, k12, windowRow_ok a b hrows.1 hrows.2]
  intro rest hr f hf
  have e1 : toksE4 d ch (.window fn part ord rows) = nm :: grp A :: opTok "OVER" :: [grp (((if part.isEmpty then [] else [opTok "PARTITION", opTok "BY"]) ++ toksArgs4 d ch 8 part) ++
      (((if ord.isEmpty then [] else [opTok "ORDER", opTok "BY"]) ++ toksOrdList4 d ch ord) ++ toksRows rows))] := by
    simp only [toksE4, hT, List.cons_append, List.nil_append]
  rw [e1] at hf ⊢
  have hnsz : 1 ≤ nm.size := by cases nm <;> simp [Tok.size] <;> omega
  simp only [sizeL_cons, size_grp, o3, sizeL] at hf
  obtain ⟨g, rfl⟩ : ∃ g, f = g + 4 := ⟨f - 4, by omega⟩
  have h1 := hcall (opTok "OVER" :: grp (((if part.isEmpty then [] else [opTok "PARTITION", opTok "BY"]) ++ toksArgs4 d ch 8 part) ++
      (((if ord.isEmpty then [] else [opTok "ORDER", opTok "BY"]) ++ toksOrdList4 d ch ord) ++ toksRows rows)) :: rest) (noArr_over _) g (by omega)
  have h2 := hbody g (by omega)
  simp only at h1 h2
  show pUnary d (g + 4) (nm :: grp A :: opTok "OVER" :: [grp _] ++ rest) = _
  unfold pUnary
  simp only [List.cons_append, List.nil_append, u, Bool.false_eq_true, if_false]
  unfold pElement
  simp only [l, p, cs, st, Bool.false_eq_true, if_false]
  unfold pNamed
  simp only [grp_paren, if_true, headIsOver, o2]
  unfold pWindow
  simp only [h1, matchSeq, o1, if_true, children_grp, h2]
theorem rt_window (fn : Expr) (part : List Expr) (ord : List OrderItem) (rows : Option (RowItem × RowItem))
    (hfn : WinFn d ch fn) (hpart : ∀ a ∈ part, RT4 d ch a) (hord : ∀ o ∈ ord, OrdRec d ch o) (hrows : rowsOK rows = true) :
    RT4 d ch (.window fn part ord rows) := by
  obtain ⟨nm, A, n, hT, hnm, hcall⟩ := hfn.shape
  obtain ⟨_, ho, hd1, _, _, _, _, _, _, c1, _⟩ := nmOK_parts hnm
  have o14 := over_words.2.2.2.2.2.2.2.2.2.2.2.2.2
  have e1 : toksE4 d ch (.window fn part ord rows) = nm :: grp A :: opTok "OVER" :: [grp (((if part.isEmpty then [] else [opTok "PARTITION", opTok "BY"]) ++ toksArgs4 d ch 8 part) ++
      (((if ord.isEmpty then [] else [opTok "ORDER", opTok "BY"]) ++ toksOrdList4 d ch ord) ++ toksRows rows))] := by
    simp only [toksE4, hT, List.cons_append, List.nil_append]
  have hfull := full2_window fn part ord rows hfn hpart hord hrows
  have hlen := hfn.tl
  rw [e1] at hfull
  exact RT4.mk2 _ e1 ((Tower2.of2 hfull (headOK_tok _ _ ho)).relevel _ (by simp [PR.lvl])) (head_tok _ _ hd1 ho)
    (NoComma.cons c1 (NoComma.cons rfl (NoComma.cons o14 (grp_nocomma _))))
    (by simp only [tl4, List.length_cons, List.length_nil]; omega)

/-! ### array index `a[i]` -/
theorem toList_src_arr (cs : List Tok) : (arr cs).src.toList = '(' :: (sourceL cs ++ [')']) := by
  simp [arr, Tok.src, Tok.source, String.toList_ofList]
theorem arr_facts (cs : List Tok) : (arr cs).has PAREN = false ∧ (arr cs).has ARRAY = true ∧ (arr cs).children = cs ∧
    (arr cs).equalsStr "," = false ∧ (arr cs).size = 1 + sizeL cs ∧ (arr cs).srcEq "." = false ∧ (arr cs).srcEqUp "OVER" = false := by
  have h1 : (arr cs).src.toList.head? = some '(' := by simp [toList_src_arr]
  have h2 : (up (arr cs).src).toList.head? = some '(' := by
    simp [up, Gen.pyUpperS, String.toList_ofList, toList_src_arr, pyUpper_paren]
  refine ⟨by simp [arr, Tok.has, Tok.marks]; decide, by simp [arr, Tok.has, Tok.marks]; decide, rfl, rfl, by simp [arr, Tok.size], ?_, ?_⟩
  · simp only [Tok.srcEq, beq_eq_false_iff_ne, ne_eq]; exact ne_of_head h1 (by decide)
  · simp only [Tok.srcEqUp, beq_eq_false_iff_ne, ne_eq]; exact ne_of_head h2 (by decide)
/-- `pIndex` on an array index group holding the rendering of `i` at the compute level -/
theorem pIndex_arr (b i : Expr) (hi : RT4 d ch i) (rest : List Tok) :
    OkAt (fun f => pIndex d f b (arr (W4 d ch i 8) :: rest)) (20 * sizeL (W4 d ch i 8) + 3) (.index b i, rest) := by
  obtain ⟨_, a2, a3, _⟩ := arr_facts (W4 d ch i 8)
  intro f hf
  obtain ⟨g, rfl⟩ : ∃ g, f = g + 1 := ⟨f - 1, by omega⟩
  have h1 := key8 i hi [] (stopLE2_nil d 8) g (by omega)
  simp only [List.append_nil] at h1
  unfold pIndex
  simp only [a2, if_true, a3, h1]
theorem full2_idx_col (c : String) (i : Expr) (hc : colOK d c = true) (hi : RT4 d ch i) :
    Full2 d (P2 d) 2 0 [nameTok c, arr (W4 d ch i 8)] (.index (.column none c) i) := by
  obtain ⟨a1, _, _, _, a5, a6, _⟩ := arr_facts (W4 d ch i 8)
  intro rest hr f hf
  simp only [sizeL, a5] at hf
  obtain ⟨g, rfl⟩ : ∃ g, f = g + 3 := ⟨f - 3, by omega⟩
  simp only [colOK, elemTok, Bool.and_eq_true, Bool.not_eq_true', beq_iff_eq] at hc
  obtain ⟨⟨⟨⟨_, hu⟩, hcase⟩, hstar⟩, hname⟩ := hc
  have hl : (nameTok c).has LITERAL = false := by simp [nameTok, Tok.has, Tok.marks]; decide
  have hp : (nameTok c).has PAREN = false := by simp [nameTok, Tok.has, Tok.marks]; decide
  have h1 := pIndex_arr (.column none c) i hi rest g (by omega)
  simp only at h1
  show pUnary d (g + 3) (nameTok c :: arr (W4 d ch i 8) :: rest) = _
  unfold pUnary
  simp only [hu, Bool.false_eq_true, if_false]
  unfold pElement
  simp only [hl, hp, hcase, hstar, Bool.false_eq_true, if_false]
  unfold pNamed
  simp only [a1, a6, Bool.false_eq_true, if_false, hname, h1]
theorem full2_idx_qcol (t c : String) (i : Expr) (h : qcolOK d t c = true) (hi : RT4 d ch i) :
    Full2 d (P2 d) 2 0 [nameTok t, dotTok, nameTok c, arr (W4 d ch i 8)] (.index (.column (some t) c) i) := by
  obtain ⟨a1, _, _, _, a5, a6, _⟩ := arr_facts (W4 d ch i 8)
  simp only [qcolOK, nm2OK, Bool.and_eq_true, Bool.not_eq_true', beq_iff_eq] at h
  obtain ⟨h1, ⟨h2n, h2u⟩, _⟩ := h
  obtain ⟨u, _, _, _, l, p, cs, st, un, _, _⟩ := nmOK_parts h1
  obtain ⟨dp, ds, _⟩ := dot_facts
  intro rest hr f hf
  simp only [sizeL, Tok.size, nameTok, dotTok, opTok, a5] at hf
  obtain ⟨g, rfl⟩ : ∃ g, f = g + 5 := ⟨f - 5, by omega⟩
  have hx := pIndex_arr (.column (some t) c) i hi rest (g + 1) (by omega)
  simp only at hx
  show pUnary d (g + 5) (nameTok t :: dotTok :: nameTok c :: arr (W4 d ch i 8) :: rest) = _
  unfold pUnary
  simp only [u, Bool.false_eq_true, if_false]
  unfold pElement
  simp only [l, p, cs, st, Bool.false_eq_true, if_false]
  unfold pNamed
  simp only [dp, ds, Bool.false_eq_true, if_false, if_true]
  unfold pQualified
  simp only [h2n, if_true, searchMark, a1, Bool.false_eq_true, if_false, un, h2u, hx]
theorem full2_idx_func (n : String) (ps : List Expr) (i : Expr) (hn : fnOK d none n = true) (hps : ∀ a ∈ ps, RT4 d ch a) (hi : RT4 d ch i) :
    Full2 d (P2 d) 2 0 [qTok n, grp (toksArgs4 d ch 14 ps), arr (W4 d ch i 8)] (.index (.func none n ps) i) := by
  obtain ⟨a1, _, _, _, a5, _, a7⟩ := arr_facts (W4 d ch i 8)
  have hn' := hn
  simp only [fnOK, Bool.and_eq_true] at hn
  obtain ⟨hfn, hnm, hsp⟩ := hn
  obtain ⟨u, _, _, hN, l, p, cs, st, un, _, _⟩ := nmOK_parts hnm
  intro rest hr f hf
  simp only [sizeL, qTok_size, size_grp, a5] at hf
  obtain ⟨g, rfl⟩ : ∃ g, f = g + 4 := ⟨f - 4, by omega⟩
  have h1 := plainFunc_ok n ps hn' hps (arr (W4 d ch i 8) :: rest) g (by omega)
  have h2 := pIndex_arr (.func none n ps) i hi rest g (by omega)
  simp only at h1 h2
  show pUnary d (g + 4) (qTok n :: grp (toksArgs4 d ch 14 ps) :: arr (W4 d ch i 8) :: rest) = _
  unfold pUnary
  simp only [u, Bool.false_eq_true, if_false]
  unfold pElement
  simp only [l, p, cs, st, Bool.false_eq_true, if_false]
  unfold pNamed
  simp only [grp_paren, if_true, headIsOver, a7, Bool.false_eq_true, if_false]
  unfold pFuncIdx
  simp only [h1, h2]
/-- what an array index may be applied to, with the records of its parts -/
def IdxBase (d : Gen.D) (ch : Expr → Bool) : Expr → Prop
  | .column none c => colOK d c = true
  | .column (some t) c => qcolOK d t c = true
  | .func none n ps => fnOK d none n = true ∧ ∀ a ∈ ps, RT4 d ch a
  | _ => False
theorem rt_index (a i : Expr) (ha : IdxBase d ch a) (hi : RT4 d ch i) : RT4 d ch (.index a i) := by
  have k := @kw_nocomma
  have ac := (arr_facts (W4 d ch i 8)).2.2.2.1
  cases a with
  | column t c =>
    cases t with
    | none =>
      simp only [IdxBase] at ha
      have hh : operandTok d (nameTok c) = true := by
        have := ha; simp only [colOK, elemTok, Bool.and_eq_true] at this; exact this.1.1.1.1
      obtain ⟨n1, n2, _⟩ := name_facts c
      exact RT4.mk2 [nameTok c, arr (W4 d ch i 8)] (by simp only [toksE4, W4, List.cons_append, List.nil_append])
        ((Tower2.of2 (full2_idx_col c i ha hi) (headOK_tok _ _ hh)).relevel _ (by simp [PR.lvl])) (head_tok _ _ n1 hh)
        (NoComma.cons n2 (nc_single ac)) (by simp [tl4])
    | some t =>
      simp only [IdxBase] at ha
      have hq := ha
      simp only [qcolOK, nm2OK, Bool.and_eq_true, Bool.not_eq_true'] at hq
      obtain ⟨_, ho, hd1, _, _, _, _, _, _, c1, _⟩ := nmOK_parts hq.1
      exact RT4.mk2 [nameTok t, dotTok, nameTok c, arr (W4 d ch i 8)] (by simp only [toksE4, W4, List.cons_append, List.nil_append])
        ((Tower2.of2 (full2_idx_qcol t c i ha hi) (headOK_tok _ _ ho)).relevel _ (by simp [PR.lvl])) (head_tok _ _ hd1 ho)
        (NoComma.cons c1 (NoComma.cons k.2.2.2.2.2.2.2.2.2.2.2.2.2.2.2.1 (NoComma.cons hq.2.2 (nc_single ac)))) (by simp [tl4])
  | func s n ps =>
    cases s with
    | some s => exact absurd ha (by simp [IdxBase])
    | none =>
      simp only [IdxBase] at ha
      have hq := ha.1
      simp only [fnOK, Bool.and_eq_true] at hq
      obtain ⟨_, ho, hd1, _, _, _, _, _, _, c1, _⟩ := nmOK_parts hq.2.1
      exact RT4.mk2 [qTok n, grp (toksArgs4 d ch 14 ps), arr (W4 d ch i 8)] (by simp only [toksE4, W4, List.cons_append, List.nil_append])
        ((Tower2.of2 (full2_idx_func n ps i ha.1 ha.2 hi) (headOK_tok _ _ ho)).relevel _ (by simp [PR.lvl])) (head_tok _ _ hd1 ho)
        (NoComma.cons c1 (NoComma.cons rfl (nc_single ac))) (by simp [tl4])
  | _ => exact absurd ha (by simp [IdxBase])

/-! ### the records of the parts of the new nodes, from the induction hypothesis -/
section recs
variable {n : Nat} (ih : ∀ e, szE4 e ≤ n → FragE4 d e = true → RT4 d ch e)
include ih
theorem ordl_rec : ∀ os, szOrdL os ≤ n → ordTailOK4 d os = true → ∀ o ∈ os, OrdRec d ch o := by
  intro os
  induction os with
  | nil => intro _ _ c hc; simp at hc
  | cons o os iho =>
    intro hs hf c hc
    simp only [szOrdL] at hs
    simp only [ordTailOK4, Bool.and_eq_true] at hf
    rcases List.mem_cons.1 hc with rfl | hc
    · obtain ⟨e, desc, nf, nl⟩ := c
      have h1 := hf.1
      simp only [ordItemOK4, Bool.and_eq_true, Bool.not_eq_true'] at h1
      simp only [szOrdItem] at hs
      exact ⟨ih e (by omega) h1.1, h1.2⟩
    · exact iho (by omega) hf.2 c hc
theorem winfn_rec (fn : Expr) (hs : szE4 fn ≤ n + 1) (hf : winFnOK4 d fn = true) : WinFn d ch fn := by
  cases fn with
  | func s nm ps =>
    cases s with
    | some s => simp [winFnOK4] at hf
    | none =>
      simp only [winFnOK4, Bool.and_eq_true] at hf
      simp only [szE4] at hs
      exact winFn_func nm ps hf.1 (fun a ha => by obtain ⟨x, y⟩ := frag2L_mem ps hf.2 a ha; exact ih a (by omega) x)
  | agg nm ps dist =>
    simp only [winFnOK4, Bool.and_eq_true] at hf
    simp only [szE4] at hs
    exact winFn_agg nm ps dist hf.1 (fun a ha => by obtain ⟨x, y⟩ := frag2L_mem ps hf.2 a ha; exact ih a (by omega) x)
  | _ => simp [winFnOK4] at hf
theorem idxbase_rec (a : Expr) (hs : szE4 a ≤ n + 1) (hf : idxBaseOK4 d a = true) : IdxBase d ch a := by
  cases a with
  | column t c => cases t <;> simpa [idxBaseOK4, IdxBase] using hf
  | func s nm ps =>
    cases s with
    | some s => simp [idxBaseOK4] at hf
    | none =>
      simp only [idxBaseOK4, Bool.and_eq_true] at hf
      simp only [szE4] at hs
      exact ⟨hf.1, fun a ha => by obtain ⟨x, y⟩ := frag2L_mem ps hf.2 a ha; exact ih a (by omega) x⟩
  | _ => simp [idxBaseOK4] at hf
end recs

end TQ2
