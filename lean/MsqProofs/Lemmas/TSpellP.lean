import MsqProofs.Lemmas.TSpell0
/-!
# Spelling-generalised T-parse: with the printer's own spellings the spelled printers ARE the printers of the nested development (C09)

`TSP.toksQ d (plainCh ch) q = TQ.toksQ d ch q` and the same for each of the 22 mutually recursive printer functions — one mutual block of
structurally recursive theorems mirroring the mutual block of the printers.  Consequence (Props/C09S.lean): `C03.tquery_ch` is the instance
`sp = plainCh ch` of `C09.tquery_spellings`, and every admissible spelling parses like the printer's own output.
-/
set_option linter.unusedVariables false
set_option linter.unusedSimpArgs false
open Lex PM Ast TP TS TQ
namespace TSP
theorem plain_tokens (ch : Expr → Bool) : (∀ o, cmpTok false o = opTok (cmpVal o)) ∧ (∀ o, cvalSp false o = cval o) ∧ andTok false = opTok "AND" ∧
    orTok false = opTok "OR" ∧ notTok false = opTok "NOT" ∧ (∀ a, aliasToksB false a = aliasToks a) ∧
    (∀ desc, ascToks false desc = if desc then [opTok "DESC"] else []) ∧ (∀ lm, toksLimitS (plainCh ch) lm = toksLimit lm) := by
  refine ⟨fun o => by simp [cmpTok], fun o => by simp [cvalSp], rfl, rfl, rfl, fun a => by cases a <;> rfl, fun desc => by cases desc <;> rfl, fun lm => ?_⟩
  cases lm with
  | none => rfl
  | some p => obtain ⟨n, o⟩ := p; cases o <;> simp [toksLimitS, toksLimit, plainCh]
theorem plainCh_proj (ch : Expr → Bool) : (∀ x, (plainCh ch).ch x = ch x) ∧ (∀ x, (plainCh ch).ne x = false) ∧ (∀ x, (plainCh ch).amp x = false) ∧
    (∀ x, (plainCh ch).bar x = false) ∧ (∀ x, (plainCh ch).bang x = false) ∧ (∀ x, (plainCh ch).word x = false) ∧
    (∀ x, (plainCh ch).bareC x = false) ∧ (∀ x, (plainCh ch).bareT x = false) ∧ (∀ x, (plainCh ch).asc x = false) :=
  ⟨fun _ => rfl, fun _ => rfl, fun _ => rfl, fun _ => rfl, fun _ => rfl, fun _ => rfl, fun _ => rfl, fun _ => rfl, fun _ => rfl⟩
variable (d : Gen.D) (ch : Expr → Bool)
mutual
theorem plainE : ∀ e : Expr, toksE3 d (plainCh ch) e = TQ.toksE3 d ch e
  | .column t c => by cases t <;> simp only [toksE3, TQ.toksE3]
  | .literal v => by simp only [toksE3, TQ.toksE3]
  | .wildcard t => by cases t <;> simp only [toksE3, TQ.toksE3]
  | .func s n ps => by cases s <;> simp only [toksE3, TQ.toksE3, plainArgs 14 ps]
  | .agg n ps dist => by simp only [toksE3, TQ.toksE3, plainArgs 14 ps]
  | .caseCond cs els => by simp only [toksE3, TQ.toksE3, plainArms cs, plainElse els]
  | .caseVal v cs els => by simp only [toksE3, TQ.toksE3, plainE v, plainArms cs, plainElse els, (plainCh_proj ch).1, (plainCh_proj ch).2.1, (plainCh_proj ch).2.2.1, (plainCh_proj ch).2.2.2.1, (plainCh_proj ch).2.2.2.2.1, (plainCh_proj ch).2.2.2.2.2.1, (plainCh_proj ch).2.2.2.2.2.2.1, (plainCh_proj ch).2.2.2.2.2.2.2.1, (plainCh_proj ch).2.2.2.2.2.2.2.2]
  | .subValue vs => by simp only [toksE3, TQ.toksE3, plainArgs 8 vs]
  | .subQuery q => by simp only [toksE3, TQ.toksE3, plainQ q]
  | .exists_ v => by simp only [toksE3, TQ.toksE3, plainE v]
  | .unary o e => by simp only [toksE3, TQ.toksE3, plainE e, (plainCh_proj ch).1, (plainCh_proj ch).2.1, (plainCh_proj ch).2.2.1, (plainCh_proj ch).2.2.2.1, (plainCh_proj ch).2.2.2.2.1, (plainCh_proj ch).2.2.2.2.2.1, (plainCh_proj ch).2.2.2.2.2.2.1, (plainCh_proj ch).2.2.2.2.2.2.2.1, (plainCh_proj ch).2.2.2.2.2.2.2.2]
  | .compute l o r => by simp only [toksE3, TQ.toksE3, plainE l, plainE r, (plainCh_proj ch).1, (plainCh_proj ch).2.1, (plainCh_proj ch).2.2.1, (plainCh_proj ch).2.2.2.1, (plainCh_proj ch).2.2.2.2.1, (plainCh_proj ch).2.2.2.2.2.1, (plainCh_proj ch).2.2.2.2.2.2.1, (plainCh_proj ch).2.2.2.2.2.2.2.1, (plainCh_proj ch).2.2.2.2.2.2.2.2, (plain_tokens ch).2.1]
  | .kw kk n l r => by simp only [toksE3, TQ.toksE3, plainE l, plainE r, (plainCh_proj ch).1, (plainCh_proj ch).2.1, (plainCh_proj ch).2.2.1, (plainCh_proj ch).2.2.2.1, (plainCh_proj ch).2.2.2.2.1, (plainCh_proj ch).2.2.2.2.2.1, (plainCh_proj ch).2.2.2.2.2.2.1, (plainCh_proj ch).2.2.2.2.2.2.2.1, (plainCh_proj ch).2.2.2.2.2.2.2.2]
  | .between n b f t => by simp only [toksE3, TQ.toksE3, plainE b, plainE f, plainE t, (plainCh_proj ch).1, (plainCh_proj ch).2.1, (plainCh_proj ch).2.2.1, (plainCh_proj ch).2.2.2.1, (plainCh_proj ch).2.2.2.2.1, (plainCh_proj ch).2.2.2.2.2.1, (plainCh_proj ch).2.2.2.2.2.2.1, (plainCh_proj ch).2.2.2.2.2.2.2.1, (plainCh_proj ch).2.2.2.2.2.2.2.2]
  | .compare o l r => by simp only [toksE3, TQ.toksE3, plainE l, plainE r, (plainCh_proj ch).1, (plainCh_proj ch).2.1, (plainCh_proj ch).2.2.1, (plainCh_proj ch).2.2.2.1, (plainCh_proj ch).2.2.2.2.1, (plainCh_proj ch).2.2.2.2.2.1, (plainCh_proj ch).2.2.2.2.2.2.1, (plainCh_proj ch).2.2.2.2.2.2.2.1, (plainCh_proj ch).2.2.2.2.2.2.2.2, (plain_tokens ch).1]
  | .not_ e => by simp only [toksE3, TQ.toksE3, plainE e, (plainCh_proj ch).1, (plainCh_proj ch).2.1, (plainCh_proj ch).2.2.1, (plainCh_proj ch).2.2.2.1, (plainCh_proj ch).2.2.2.2.1, (plainCh_proj ch).2.2.2.2.2.1, (plainCh_proj ch).2.2.2.2.2.2.1, (plainCh_proj ch).2.2.2.2.2.2.2.1, (plainCh_proj ch).2.2.2.2.2.2.2.2, (plain_tokens ch).2.2.2.2.1]
  | .and_ l r => by simp only [toksE3, TQ.toksE3, plainE l, plainE r, (plainCh_proj ch).1, (plainCh_proj ch).2.1, (plainCh_proj ch).2.2.1, (plainCh_proj ch).2.2.2.1, (plainCh_proj ch).2.2.2.2.1, (plainCh_proj ch).2.2.2.2.2.1, (plainCh_proj ch).2.2.2.2.2.2.1, (plainCh_proj ch).2.2.2.2.2.2.2.1, (plainCh_proj ch).2.2.2.2.2.2.2.2, (plain_tokens ch).2.2.1]
  | .xor l r => by simp only [toksE3, TQ.toksE3, plainE l, plainE r, (plainCh_proj ch).1, (plainCh_proj ch).2.1, (plainCh_proj ch).2.2.1, (plainCh_proj ch).2.2.2.1, (plainCh_proj ch).2.2.2.2.1, (plainCh_proj ch).2.2.2.2.2.1, (plainCh_proj ch).2.2.2.2.2.2.1, (plainCh_proj ch).2.2.2.2.2.2.2.1, (plainCh_proj ch).2.2.2.2.2.2.2.2]
  | .or_ l r => by simp only [toksE3, TQ.toksE3, plainE l, plainE r, (plainCh_proj ch).1, (plainCh_proj ch).2.1, (plainCh_proj ch).2.2.1, (plainCh_proj ch).2.2.2.1, (plainCh_proj ch).2.2.2.2.1, (plainCh_proj ch).2.2.2.2.2.1, (plainCh_proj ch).2.2.2.2.2.2.1, (plainCh_proj ch).2.2.2.2.2.2.2.1, (plainCh_proj ch).2.2.2.2.2.2.2.2, (plain_tokens ch).2.2.2.1]
  | .cast .. => by simp only [toksE3, TQ.toksE3]
  | .extract .. => by simp only [toksE3, TQ.toksE3]
  | .window .. => by simp only [toksE3, TQ.toksE3]
  | .index .. => by simp only [toksE3, TQ.toksE3]
  | .mybatis .. => by simp only [toksE3, TQ.toksE3]
theorem plainArgs (k : Nat) : ∀ ps : List Expr, toksArgs3 d (plainCh ch) k ps = TQ.toksArgs3 d ch k ps
  | [] => by simp only [toksArgs3, TQ.toksArgs3]
  | a :: as => by simp only [toksArgs3, TQ.toksArgs3, plainE a, plainArgsTail k as, (plainCh_proj ch).1, (plainCh_proj ch).2.1, (plainCh_proj ch).2.2.1, (plainCh_proj ch).2.2.2.1, (plainCh_proj ch).2.2.2.2.1, (plainCh_proj ch).2.2.2.2.2.1, (plainCh_proj ch).2.2.2.2.2.2.1, (plainCh_proj ch).2.2.2.2.2.2.2.1, (plainCh_proj ch).2.2.2.2.2.2.2.2]
theorem plainArgsTail (k : Nat) : ∀ ps : List Expr, toksArgsTail3 d (plainCh ch) k ps = TQ.toksArgsTail3 d ch k ps
  | [] => by simp only [toksArgsTail3, TQ.toksArgsTail3]
  | a :: as => by simp only [toksArgsTail3, TQ.toksArgsTail3, plainE a, plainArgsTail k as, (plainCh_proj ch).1, (plainCh_proj ch).2.1, (plainCh_proj ch).2.2.1, (plainCh_proj ch).2.2.2.1, (plainCh_proj ch).2.2.2.2.1, (plainCh_proj ch).2.2.2.2.2.1, (plainCh_proj ch).2.2.2.2.2.2.1, (plainCh_proj ch).2.2.2.2.2.2.2.1, (plainCh_proj ch).2.2.2.2.2.2.2.2]
theorem plainArms : ∀ cs : List (Expr × Expr), toksArms3 d (plainCh ch) cs = TQ.toksArms3 d ch cs
  | [] => by simp only [toksArms3, TQ.toksArms3]
  | (w, t) :: r => by simp only [toksArms3, TQ.toksArms3, plainE w, plainE t, plainArms r, (plainCh_proj ch).1, (plainCh_proj ch).2.1, (plainCh_proj ch).2.2.1, (plainCh_proj ch).2.2.2.1, (plainCh_proj ch).2.2.2.2.1, (plainCh_proj ch).2.2.2.2.2.1, (plainCh_proj ch).2.2.2.2.2.2.1, (plainCh_proj ch).2.2.2.2.2.2.2.1, (plainCh_proj ch).2.2.2.2.2.2.2.2]
theorem plainElse : ∀ els : Option Expr, toksElse3 d (plainCh ch) els = TQ.toksElse3 d ch els
  | none => by simp only [toksElse3, TQ.toksElse3]
  | some y => by simp only [toksElse3, TQ.toksElse3, plainE y, (plainCh_proj ch).1, (plainCh_proj ch).2.1, (plainCh_proj ch).2.2.1, (plainCh_proj ch).2.2.2.1, (plainCh_proj ch).2.2.2.2.1, (plainCh_proj ch).2.2.2.2.2.1, (plainCh_proj ch).2.2.2.2.2.2.1, (plainCh_proj ch).2.2.2.2.2.2.2.1, (plainCh_proj ch).2.2.2.2.2.2.2.2]
theorem plainQ : ∀ q : Query, toksQ d (plainCh ch) q = TQ.toksQ d ch q
  | .single s => by simp only [toksQ, TQ.toksQ, plainS s]
  | .union w s us => by simp only [toksQ, TQ.toksQ, plainS s, plainUn us]
theorem plainUn : ∀ us : List (String × Select), toksUn d (plainCh ch) us = TQ.toksUn d ch us
  | [] => by simp only [toksUn, TQ.toksUn]
  | (t, s) :: r => by simp only [toksUn, TQ.toksUn, plainS s, plainUn r]
theorem plainS : ∀ s : Select, toksS3 d (plainCh ch) s = TQ.toksS3 d ch s
  | .mk w dist cols fr lats js wh gb hv ob sb db cb lm => by
      simp only [toksS3, TQ.toksS3, plainCols cols, plainFrom fr, plainJoins js, plainOptE "WHERE" wh, plainGroup gb, plainOptE "HAVING" hv,
        plainOrder ob, (plain_tokens ch).2.2.2.2.2.2.2 lm]
theorem plainCols : ∀ cs : List (Expr × Option String), toksCols3 d (plainCh ch) cs = TQ.toksCols3 d ch cs
  | [] => by simp only [toksCols3, TQ.toksCols3]
  | (e, a) :: cs => by simp only [toksCols3, TQ.toksCols3, plainE e, plainColsTail cs, (plainCh_proj ch).1, (plainCh_proj ch).2.1, (plainCh_proj ch).2.2.1, (plainCh_proj ch).2.2.2.1, (plainCh_proj ch).2.2.2.2.1, (plainCh_proj ch).2.2.2.2.2.1, (plainCh_proj ch).2.2.2.2.2.2.1, (plainCh_proj ch).2.2.2.2.2.2.2.1, (plainCh_proj ch).2.2.2.2.2.2.2.2, (plain_tokens ch).2.2.2.2.2.1]
theorem plainColsTail : ∀ cs : List (Expr × Option String), toksColsTail3 d (plainCh ch) cs = TQ.toksColsTail3 d ch cs
  | [] => by simp only [toksColsTail3, TQ.toksColsTail3]
  | (e, a) :: cs => by simp only [toksColsTail3, TQ.toksColsTail3, plainE e, plainColsTail cs, (plainCh_proj ch).1, (plainCh_proj ch).2.1, (plainCh_proj ch).2.2.1, (plainCh_proj ch).2.2.2.1, (plainCh_proj ch).2.2.2.2.1, (plainCh_proj ch).2.2.2.2.2.1, (plainCh_proj ch).2.2.2.2.2.2.1, (plainCh_proj ch).2.2.2.2.2.2.2.1, (plainCh_proj ch).2.2.2.2.2.2.2.2, (plain_tokens ch).2.2.2.2.2.1]
theorem plainRef : ∀ r : TableRef, toksRef3 d (plainCh ch) r = TQ.toksRef3 d ch r
  | .table s n => by simp only [toksRef3, TQ.toksRef3]
  | .sub q => by simp only [toksRef3, TQ.toksRef3, plainQ q]
theorem plainTable : ∀ t : FromTable, toksTable3 d (plainCh ch) t = TQ.toksTable3 d ch t
  | .mk r a => by simp only [toksTable3, TQ.toksTable3, plainRef r, (plainCh_proj ch).1, (plainCh_proj ch).2.1, (plainCh_proj ch).2.2.1, (plainCh_proj ch).2.2.2.1, (plainCh_proj ch).2.2.2.2.1, (plainCh_proj ch).2.2.2.2.2.1, (plainCh_proj ch).2.2.2.2.2.2.1, (plainCh_proj ch).2.2.2.2.2.2.2.1, (plainCh_proj ch).2.2.2.2.2.2.2.2, (plain_tokens ch).2.2.2.2.2.1]
theorem plainTablesTail : ∀ ts : List FromTable, toksTablesTail3 d (plainCh ch) ts = TQ.toksTablesTail3 d ch ts
  | [] => by simp only [toksTablesTail3, TQ.toksTablesTail3]
  | t :: ts => by simp only [toksTablesTail3, TQ.toksTablesTail3, plainTable t, plainTablesTail ts]
theorem plainFrom : ∀ fr : Option (List FromTable), toksFrom3 d (plainCh ch) fr = TQ.toksFrom3 d ch fr
  | none => by simp only [toksFrom3, TQ.toksFrom3]
  | some [] => by simp only [toksFrom3, TQ.toksFrom3]
  | some (t :: ts) => by simp only [toksFrom3, TQ.toksFrom3, plainTable t, plainTablesTail ts]
theorem plainRule : ∀ r : Option JoinRule, toksRule3 d (plainCh ch) r = TQ.toksRule3 d ch r
  | none => by simp only [toksRule3, TQ.toksRule3]
  | some (.on e) => by simp only [toksRule3, TQ.toksRule3, plainE e]
  | some (.using u) => by simp only [toksRule3, TQ.toksRule3]
theorem plainJoin : ∀ j : Join, toksJoin3 d (plainCh ch) j = TQ.toksJoin3 d ch j
  | .mk ty t rule => by simp only [toksJoin3, TQ.toksJoin3, plainTable t, plainRule rule]
theorem plainJoins : ∀ js : List Join, toksJoins3 d (plainCh ch) js = TQ.toksJoins3 d ch js
  | [] => by simp only [toksJoins3, TQ.toksJoins3]
  | j :: js => by simp only [toksJoins3, TQ.toksJoins3, plainJoin j, plainJoins js]
theorem plainOptE (kw : String) : ∀ o : Option Expr, toksOptE3 d (plainCh ch) kw o = TQ.toksOptE3 d ch kw o
  | none => by simp only [toksOptE3, TQ.toksOptE3]
  | some e => by simp only [toksOptE3, TQ.toksOptE3, plainE e]
theorem plainGroup : ∀ gb : Option GroupBy, toksGroup3 d (plainCh ch) gb = TQ.toksGroup3 d ch gb
  | none => by simp only [toksGroup3, TQ.toksGroup3]
  | some (.mk [] _ _ _) => by simp only [toksGroup3, TQ.toksGroup3]
  | some (.mk (e :: es) _ _ _) => by simp only [toksGroup3, TQ.toksGroup3, plainE e, plainArgsTail 8 es, (plainCh_proj ch).1, (plainCh_proj ch).2.1, (plainCh_proj ch).2.2.1, (plainCh_proj ch).2.2.2.1, (plainCh_proj ch).2.2.2.2.1, (plainCh_proj ch).2.2.2.2.2.1, (plainCh_proj ch).2.2.2.2.2.2.1, (plainCh_proj ch).2.2.2.2.2.2.2.1, (plainCh_proj ch).2.2.2.2.2.2.2.2]
theorem plainOrdItem : ∀ o : OrderItem, toksOrdItem3 d (plainCh ch) o = TQ.toksOrdItem3 d ch o
  | .mk e desc nf nl => by simp only [toksOrdItem3, TQ.toksOrdItem3, plainE e, (plainCh_proj ch).1, (plainCh_proj ch).2.1, (plainCh_proj ch).2.2.1, (plainCh_proj ch).2.2.2.1, (plainCh_proj ch).2.2.2.2.1, (plainCh_proj ch).2.2.2.2.2.1, (plainCh_proj ch).2.2.2.2.2.2.1, (plainCh_proj ch).2.2.2.2.2.2.2.1, (plainCh_proj ch).2.2.2.2.2.2.2.2, (plain_tokens ch).2.2.2.2.2.2.1]
theorem plainOrdTail : ∀ os : List OrderItem, toksOrdTail3 d (plainCh ch) os = TQ.toksOrdTail3 d ch os
  | [] => by simp only [toksOrdTail3, TQ.toksOrdTail3]
  | o :: os => by simp only [toksOrdTail3, TQ.toksOrdTail3, plainOrdItem o, plainOrdTail os]
theorem plainOrder : ∀ ob : Option (List OrderItem), toksOrder3 d (plainCh ch) ob = TQ.toksOrder3 d ch ob
  | none => by simp only [toksOrder3, TQ.toksOrder3]
  | some [] => by simp only [toksOrder3, TQ.toksOrder3]
  | some (o :: os) => by simp only [toksOrder3, TQ.toksOrder3, plainOrdItem o, plainOrdTail os]
end
end TSP
