import MsqProofs.Lemmas.LexRetain2
/-!
# Retention (C04 d): from the marked erased text back to the characters of the input

* `Scan.bracket_class_char`: the class `bracket e` is only ever given to a bracket CHARACTER, and the event says which:
  `opn` for `(` and `[` (kind-less, F-C04-1), `cls paren` for `)`, `cls slice` for `]`.
* `Scan.eraseA_split`: a bracket event of the marked erased text comes from one character of the text; what is before
  it / after it is the erasure of the text before / after that character.
-/
namespace Scan
open Lex Spec

/-- what a character code is when the scanner reports a bracket event -/
def evOK (n : Nat) (l : List Ev) : Prop :=
  l = [] ∨ ((n = '('.toNat ∨ n = '['.toNat) ∧ l = [.opn]) ∨ (n = ')'.toNat ∧ l = [.cls .paren]) ∨
    (n = ']'.toNat ∧ l = [.cls .slice])

theorem fresh_ev (n : Nat) : evOK n (fresh n).2 := by
  unfold fresh evOK
  split
  · rename_i h
    simp only [Bool.or_eq_true, isCh, Nat.beq_eq] at h
    exact .inr (.inl ⟨h, rfl⟩)
  · split
    · rename_i h
      simp only [isCh, Nat.beq_eq] at h
      exact .inr (.inr (.inl ⟨h, rfl⟩))
    · split
      · rename_i h
        simp only [isCh, Nat.beq_eq] at h
        exact .inr (.inr (.inr ⟨h, rfl⟩))
      · repeat' split
        all_goals exact .inl rfl

theorem step_ev (μ : Mode) (n : Nat) : evOK n (step μ n).2 := by
  cases μ <;> simp only [step] <;> repeat' split
  all_goals first | exact fresh_ev n | exact .inl rfl

theorem norm_eq_ascii {n k : Nat} (hk : k < 128) (h : norm n = k) : n = k := by
  unfold norm at h
  split at h
  · exact h
  · simp only [other] at h; omega

/-- the class `bracket e` is given to bracket characters only; the event says which -/
theorem bracket_class_char (μ : Mode) (c : Char) (nx : Option Nat) (e : Ev)
    (h : classOf μ (norm c.toNat) nx = .bracket e) :
    (e = .opn ∧ (c = '(' ∨ c = '[')) ∨ (e = .cls .paren ∧ c = ')') ∨ (e = .cls .slice ∧ c = ']') := by
  have hev := step_ev μ (norm c.toNat)
  unfold classOf at h
  simp only at h
  have hc : ∀ d : Char, d.toNat < 128 → norm c.toNat = d.toNat → c = d := fun d hd hn =>
    Char.toNat_inj.mp (norm_eq_ascii hd hn)
  rcases hev with h0 | ⟨hn, hl⟩ | ⟨hn, hl⟩ | ⟨hn, hl⟩
  · rw [h0] at h
    simp only at h
    repeat' split at h
    all_goals cases h
  · rw [hl] at h
    simp only [CC.bracket.injEq] at h
    subst h
    rcases hn with hn | hn
    · exact .inl ⟨rfl, .inl (hc '(' (by decide) hn)⟩
    · exact .inl ⟨rfl, .inr (hc '[' (by decide) hn)⟩
  · rw [hl] at h
    simp only [CC.bracket.injEq] at h
    subst h
    exact .inr (.inl ⟨rfl, hc ')' (by decide) hn⟩)
  · rw [hl] at h
    simp only [CC.bracket.injEq] at h
    subst h
    exact .inr (.inr ⟨rfl, hc ']' (by decide) hn⟩)

theorem outK_ev (ig : Ign) (k : CC) (e : Ev) (h : outK ig k = .ev e) : k = .bracket e := by
  cases k <;> simp only [outK] at h
  case bracket e' => cases h; rfl
  all_goals (split at h <;> cases h)

theorem nxtOf_append (a b : List Char) (fin : Option Nat) : nxtOf (a ++ b) fin = nxtOf a (nxtOf b fin) := by
  cases a <;> rfl

theorem eraseA_append (ig : Ign) (μ : Mode) (a b : List Char) (fin : Option Nat) :
    eraseA ig μ (a ++ b) fin = eraseA ig μ a (nxtOf b fin) ++ eraseA ig (scanAll μ a).1 b fin := by
  induction a generalizing μ with
  | nil => rfl
  | cons c cs ih => simp only [List.cons_append, eraseA, scanAll, ih, nxtOf_append, List.append_assoc]

/-- a bracket event of the marked erased text comes from ONE character of the text, classified as that bracket; the
events and characters before it are the erasure of the text before it, those after it the erasure of the text after -/
theorem eraseA_split (ig : Ign) (fin : Option Nat) (e : Ev) (y : List MC) :
    ∀ (t : List Char) (μ : Mode) (x : List MC), eraseA ig μ t fin = x ++ .ev e :: y →
    ∃ a c b, t = a ++ c :: b ∧ eraseA ig μ a (some (norm c.toNat)) = x ∧
      classOf (scanAll μ a).1 (norm c.toNat) (nxtOf b fin) = .bracket e ∧
      eraseA ig (step (scanAll μ a).1 (norm c.toNat)).1 b fin = y := by
  intro t
  induction t with
  | nil => intro μ x h; cases x <;> simp [eraseA] at h
  | cons c cs ih =>
    intro μ x h
    simp only [eraseA] at h
    -- the inductive step: the event is found in `cs`
    have hrec : ∀ x', eraseA ig (step μ (norm c.toNat)).1 cs fin = x' ++ .ev e :: y →
        x = (outK ig (classOf μ (norm c.toNat) (nxtOf cs fin))).out c ++ x' →
        ∃ a c' b, c :: cs = a ++ c' :: b ∧ eraseA ig μ a (some (norm c'.toNat)) = x ∧
          classOf (scanAll μ a).1 (norm c'.toNat) (nxtOf b fin) = .bracket e ∧
          eraseA ig (step (scanAll μ a).1 (norm c'.toNat)).1 b fin = y := by
      intro x' h' hx
      obtain ⟨a, c', b, e1, e2, e3, e4⟩ := ih _ x' h'
      refine ⟨c :: a, c', b, by rw [e1]; rfl, ?_, by simpa [scanAll] using e3, by simpa [scanAll] using e4⟩
      have : nxtOf cs fin = nxtOf a (some (norm c'.toNat)) := by rw [e1, nxtOf_append]; rfl
      simp only [eraseA, e2, hx, this]
    cases ho : outK ig (classOf μ (norm c.toNat) (nxtOf cs fin)) with
    | none =>
      rw [ho] at h hrec
      exact hrec x (by simpa [OutK.out] using h) (by simp [OutK.out])
    | keep =>
      rw [ho] at h hrec
      cases x with
      | nil => simp [OutK.out] at h
      | cons m x' =>
        simp only [OutK.out, List.cons_append, List.nil_append, List.cons.injEq] at h
        exact hrec x' h.2 (by simp [OutK.out, h.1])
    | ev e0 =>
      rw [ho] at h hrec
      cases x with
      | nil =>
        simp only [OutK.out, List.cons_append, List.nil_append, List.cons.injEq, MC.ev.injEq] at h
        obtain ⟨he, hy⟩ := h
        subst he
        exact ⟨[], c, cs, rfl, rfl, outK_ev ig _ _ ho, hy⟩
      | cons m x' =>
        simp only [OutK.out, List.cons_append, List.nil_append, List.cons.injEq] at h
        exact hrec x' h.2 (by simp [OutK.out, h.1])

/-- with nothing ignored, the erasure is `roundBrackets` (the expected text of `C04.retained_concat`), for EVERY text -/
theorem eraseA_none_round (μ : Mode) (t : List Char) (fin : Option Nat) :
    (eraseA ⟨false, false, false⟩ μ t fin).map MC.round = (rbAll μ t).2 := by
  induction t generalizing μ with
  | nil => rfl
  | cons c cs ih =>
    simp only [eraseA, rbAll, List.map_append, ih]
    congr 1
    cases hk : classOf μ (norm c.toNat) (nxtOf cs fin) with
    | bracket e =>
      have hne : ((step μ (norm c.toNat)).2 == []) = false := by
        unfold classOf at hk
        simp only at hk
        cases hs : (step μ (norm c.toNat)).2 with
        | nil => rw [hs] at hk; simp only at hk; repeat' split at hk
                 all_goals cases hk
        | cons a l => rfl
      rw [hne]
      rcases bracket_class_char μ c _ e hk with ⟨rfl, rfl | rfl⟩ | ⟨rfl, rfl⟩ | ⟨rfl, rfl⟩ <;> rfl
    | _ =>
      have he : ((step μ (norm c.toNat)).2 == []) = true := by
        unfold classOf at hk
        simp only at hk
        cases hs : (step μ (norm c.toNat)).2 with
        | nil => rfl
        | cons a l => rw [hs] at hk; cases hk
      rw [he]; rfl

theorem erase_none_roundBrackets (t : List Char) : erase ⟨false, false, false⟩ t = roundBrackets t :=
  eraseA_none_round .N t none
end Scan
