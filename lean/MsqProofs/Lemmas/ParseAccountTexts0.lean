import MsqProofs.Lemmas.ParseAccountClosed
import MsqModel.Val
/-!
# C08, accounting: every consumed token is stored in the tree or is a word of the grammar (hand-written base)

* `Val.texts v` — every string stored anywhere in a generic value: `str` fields, enum member names, integers as decimal text.
  `tE e = (Expr.toVal e).texts` is therefore EVERY string of the tree the canonical dump (and the check's accounting oracle) sees:
  column / table / function / alias names after `unifyName`, literal texts, operator member names.
* `KW` — the fixed finite set of grammar words of the expression grammar: the constants the model compares token sources with
  (`search*` / `match*` / `move*` / `==`), plus the keys of the generated operator tables (`Gen.computeHash`, `Gen.compareHash`,
  `Gen.notSet d` for every dialect `d`).
* `Acc T t` — the token `t` is accounted for by the set of texts `T`: its source is in `T`, or its source after `unifyName` is,
  or its (upper-cased) source is a grammar word, or it is a bracket group (`PARENTHESIS` / `ARRAY_INDEX` mark — what the parser
  tests) all of whose children are accounted for.  Token granularity: multiplicities are the check's oracle.
* `Acc3 T ts r` — `r` is a rest of the cursor `ts` and every token consumed in between is accounted for by `T`.
* `Plain e` — the tree is built from columns, literals, wildcards, array indexing, unary / binary compute operators, comparison,
  `IS` / `LIKE` / `RLIKE` / `REGEXP` / `BETWEEN`, `NOT` / `AND` / `XOR` / `OR` and both forms of `CASE`.  NOT plain: function calls
  (normal, aggregate, `CAST`, `EXTRACT`, `IF`), window expressions, `IN`, `EXISTS`, sub-queries — see `MsqProofs/Props/C08.lean`
  for why they need hypotheses on the token list that the plain fragment does not.
-/
set_option linter.unusedVariables false
set_option linter.unusedSectionVars false
set_option linter.unusedSimpArgs false
set_option maxHeartbeats 1000000
open Lex PM Ast

mutual
/-- every string stored anywhere in the value -/
def Val.texts : Val → List String
  | .none => [] | .bool _ => [] | .int n => [toString n] | .str s => [s] | .enum _ n => [n]
  | .tuple xs => Val.textsL xs | .list xs => Val.textsL xs | .node _ fs => Val.textsF fs
def Val.textsL : List Val → List String
  | [] => [] | v :: vs => v.texts ++ Val.textsL vs
def Val.textsF : List (String × Val) → List String
  | [] => [] | (_, v) :: fs => v.texts ++ Val.textsF fs
end

namespace PM

/-! ### texts of the results of the expression parsers -/
def tE (e : Expr) : List String := e.toVal.texts
def tEs (es : List Expr) : List String := Val.textsL (exprs es)
def tOpt (e : Option Expr) : List String := (optExpr e).texts
def tArms (cs : List (Expr × Expr)) : List String := Val.textsL (arms "" cs)
/-- the operand / operator stack of the compute loop -/
def tSt : List (Expr × String × Nat) → List String
  | [] => [] | (l, o, _) :: st => tE l ++ o :: tSt st

theorem textsL_arms (c : String) (cs : List (Expr × Expr)) : Val.textsL (arms c cs) = tArms cs := by
  induction cs with
  | nil => simp [tArms, arms, Val.textsL]
  | cons p cs ih => obtain ⟨w, t⟩ := p; simp_all [tArms, arms, Val.textsL, Val.texts, Val.textsF]

@[grind =] theorem tE_column (t : Option String) (n : String) : tE (.column t n) = (match t with | some a => [a, n] | none => [n]) := by
  cases t <;> simp [tE, Expr.toVal, Val.texts, Val.textsF, Val.optStr, Val.ofOpt]
@[grind =] theorem tE_column_none (n : String) : tE (.column none n) = [n] := by simp [tE_column]
@[grind =] theorem tE_column_some (a n : String) : tE (.column (some a) n) = [a, n] := by simp [tE_column]
@[grind =] theorem tE_literal (s : String) : tE (.literal s) = [s] := by simp [tE, Expr.toVal, Val.texts, Val.textsF]
@[grind =] theorem tE_wildcard_none : tE (.wildcard none) = [] := by simp [tE, Expr.toVal, Val.texts, Val.textsF, Val.optStr, Val.ofOpt]
@[grind =] theorem tE_wildcard_some (a : String) : tE (.wildcard (some a)) = [a] := by
  simp [tE, Expr.toVal, Val.texts, Val.textsF, Val.optStr, Val.ofOpt]
@[grind =] theorem tE_index (a i : Expr) : tE (.index a i) = tE a ++ tE i := by simp [tE, Expr.toVal, Val.texts, Val.textsF]
@[grind =] theorem tE_unary (o : String) (e : Expr) : tE (.unary o e) = o :: tE e := by simp [tE, Expr.toVal, Val.texts, Val.textsF]
@[grind =] theorem tE_compute (l r : Expr) (o : String) : tE (.compute l o r) = tE l ++ (tE r ++ [o]) := by
  simp [tE, Expr.toVal, Val.texts, Val.textsF]
@[grind =] theorem tE_kw (k : KwKind) (n : Bool) (l r : Expr) : tE (.kw k n l r) = tE l ++ tE r := by simp [tE, Expr.toVal, Val.texts, Val.textsF]
@[grind =] theorem tE_between (n : Bool) (b f t : Expr) : tE (.between n b f t) = tE b ++ (tE f ++ tE t) := by
  simp [tE, Expr.toVal, Val.texts, Val.textsF]
@[grind =] theorem tE_compare (o : String) (l r : Expr) : tE (.compare o l r) = tE l ++ (tE r ++ [o]) := by
  simp [tE, Expr.toVal, Val.texts, Val.textsF]
@[grind =] theorem tE_not (e : Expr) : tE (.not_ e) = tE e := by simp [tE, Expr.toVal, Val.texts, Val.textsF]
@[grind =] theorem tE_and (l r : Expr) : tE (.and_ l r) = tE l ++ tE r := by simp [tE, Expr.toVal, Val.texts, Val.textsF]
@[grind =] theorem tE_xor (l r : Expr) : tE (.xor l r) = tE l ++ tE r := by simp [tE, Expr.toVal, Val.texts, Val.textsF]
@[grind =] theorem tE_or (l r : Expr) : tE (.or_ l r) = tE l ++ tE r := by simp [tE, Expr.toVal, Val.texts, Val.textsF]
@[grind =] theorem tE_caseCond (cs : List (Expr × Expr)) (e : Option Expr) : tE (.caseCond cs e) = tArms cs ++ tOpt e := by
  simp [tE, tOpt, Expr.toVal, Val.texts, Val.textsF, textsL_arms]
@[grind =] theorem tE_caseVal (v : Expr) (cs : List (Expr × Expr)) (e : Option Expr) : tE (.caseVal v cs e) = tE v ++ (tArms cs ++ tOpt e) := by
  simp [tE, tOpt, Expr.toVal, Val.texts, Val.textsF, textsL_arms]
@[grind =] theorem tOpt_none : tOpt none = [] := by simp [tOpt, optExpr, Val.texts]
@[grind =] theorem tOpt_some (e : Expr) : tOpt (some e) = tE e := by simp [tOpt, tE, optExpr]
@[grind =] theorem tEs_nil : tEs [] = [] := by simp [tEs, exprs, Val.textsL]
@[grind =] theorem tEs_cons (e : Expr) (es : List Expr) : tEs (e :: es) = tE e ++ tEs es := by simp [tEs, tE, exprs, Val.textsL]
@[grind =] theorem tEs_append (as bs : List Expr) : tEs (as ++ bs) = tEs as ++ tEs bs := by
  induction as with
  | nil => simp [tEs_nil]
  | cons a as ih => simp [tEs_cons, ih]
@[grind =] theorem tArms_nil : tArms [] = [] := by simp [tArms, arms, Val.textsL]
@[grind =] theorem tArms_cons (w t : Expr) (cs : List (Expr × Expr)) : tArms ((w, t) :: cs) = tE w ++ (tE t ++ tArms cs) := by
  simp [tArms, tE, arms, Val.textsL, Val.texts, Val.textsF]
@[grind =] theorem tArms_append (as bs : List (Expr × Expr)) : tArms (as ++ bs) = tArms as ++ tArms bs := by
  induction as with
  | nil => simp [tArms_nil]
  | cons a as ih => obtain ⟨w, t⟩ := a; simp [tArms_cons, ih]
@[grind =] theorem tSt_nil : tSt [] = [] := rfl
@[grind =] theorem tSt_cons (l : Expr) (o : String) (k : Nat) (st) : tSt ((l, o, k) :: st) = tE l ++ o :: tSt st := rfl

/-! ### the plain fragment -/
mutual
def Plain : Expr → Bool
  | .column _ _ => true | .literal _ => true | .wildcard _ => true
  | .index a i => Plain a && Plain i
  | .unary _ e => Plain e
  | .compute l _ r => Plain l && Plain r
  | .kw k _ l r => k != .in_ && (Plain l && Plain r)
  | .between _ b f t => Plain b && (Plain f && Plain t)
  | .compare _ l r => Plain l && Plain r
  | .not_ e => Plain e
  | .and_ l r => Plain l && Plain r
  | .xor l r => Plain l && Plain r
  | .or_ l r => Plain l && Plain r
  | .caseCond cs e => PlainA cs && PlainO e
  | .caseVal v cs e => Plain v && (PlainA cs && PlainO e)
  | .func _ _ _ => false | .agg _ _ _ => false | .cast _ _ _ _ => false | .extract _ _ => false | .window _ _ _ _ => false
  | .subValue _ => false | .subQuery _ => false | .exists_ _ => false | .mybatis _ => false
def PlainA : List (Expr × Expr) → Bool
  | [] => true | (w, t) :: r => Plain w && (Plain t && PlainA r)
def PlainO : Option Expr → Bool
  | none => true | some e => Plain e
end
def PlainL : List Expr → Bool
  | [] => true | e :: r => Plain e && PlainL r
def PlainSt : List (Expr × String × Nat) → Bool
  | [] => true | (l, _, _) :: st => Plain l && PlainSt st

attribute [grind =] Plain PlainA PlainO PlainL PlainSt
@[grind =] theorem PlainL_append (as bs : List Expr) : PlainL (as ++ bs) = (PlainL as && PlainL bs) := by
  induction as with
  | nil => simp [PlainL]
  | cons a as ih => simp [PlainL, ih, Bool.and_assoc]
@[grind =] theorem PlainA_append (as bs : List (Expr × Expr)) : PlainA (as ++ bs) = (PlainA as && PlainA bs) := by
  induction as with
  | nil => simp [PlainA]
  | cons a as ih => obtain ⟨w, t⟩ := a; simp [PlainA, ih, Bool.and_assoc]
@[grind =] theorem Plain_callNode (s : Option String) (n : String) (a dd : Bool) (ps : List Expr) : Plain (callNode s n a dd ps) = false := by
  unfold callNode; split <;> simp [Plain]

/-! ### inclusion of text sets -/
def Sub (A B : List String) : Prop := ∀ x, x ∈ A → x ∈ B
@[grind =] theorem sub_self (A : List String) : Sub A A = True := by simp [Sub]
@[grind =] theorem sub_nil (A : List String) : Sub [] A = True := by simp [Sub]
@[grind =] theorem sub_append (A B C : List String) : Sub (A ++ B) C = (Sub A C ∧ Sub B C) := by
  simp only [Sub, List.mem_append, eq_iff_iff]
  exact ⟨fun h => ⟨fun x hx => h x (Or.inl hx), fun x hx => h x (Or.inr hx)⟩, fun h x hx => hx.elim (h.1 x) (h.2 x)⟩
@[grind =] theorem sub_cons (a : String) (A C : List String) : Sub (a :: A) C = (a ∈ C ∧ Sub A C) := by
  simp only [Sub, List.mem_cons, eq_iff_iff]
  exact ⟨fun h => ⟨h a (Or.inl rfl), fun x hx => h x (Or.inr hx)⟩, fun h x hx => hx.elim (fun e => e ▸ h.1) (h.2 x)⟩

/-! ### grammar words -/
/-- the words and operator spellings the expression grammar compares token sources with -/
def KW : List String :=
  ["*", ".", ",", "CASE", "WHEN", "THEN", "ELSE", "END", "AND", "&&", "OR", "||", "XOR", "NOT", "BETWEEN", "IS", "IN", "LIKE", "RLIKE",
   "REGEXP", "EXISTS"] ++ Gen.computeHash.map (·.1) ++ Gen.compareHash.map (·.1) ++ Gen.allD.flatMap Gen.notSet
def isKW (s : String) : Bool := KW.contains s
/-- a constant of the model that is compared with upper-cased sources (`equals`, `*_use_upper`) or with raw sources -/
def kwOk (k : String) : Bool := isKW k && isKW (up k)
/-- the token is a word of the grammar -/
def KwTok (t : Tok) : Bool := isKW (up t.src) || isKW t.src
@[grind =] theorem kwTok_def (t : Tok) : KwTok t = (isKW (up t.src) || isKW t.src) := rfl

theorem computeOp_kw (s : String) (x : String × Nat) (h : computeOp? s = some x) : isKW s = true := by
  unfold computeOp? at h
  split at h
  · simp at h
  · rename_i k nm hf
    have := List.mem_of_find?_eq_some hf
    have hk : k = s := by simpa using List.find?_some hf
    subst hk
    simp only [isKW, KW, List.contains_eq_mem, List.mem_append, List.mem_map, decide_eq_true_eq]
    exact Or.inl (Or.inl (Or.inr ⟨_, this, rfl⟩))
grind_pattern computeOp_kw => computeOp? s, some x
theorem compareOp_kw (s : String) (o : String) (h : compareOp? s = some o) : isKW s = true := by
  unfold compareOp? at h
  simp only [Option.map_eq_some_iff] at h
  obtain ⟨p, hf, _⟩ := h
  have := List.mem_of_find?_eq_some hf
  have hk : p.1 = s := by simpa using List.find?_some hf
  subst hk
  simp only [isKW, KW, List.contains_eq_mem, List.mem_append, List.mem_map, decide_eq_true_eq]
  exact Or.inl (Or.inr ⟨_, this, rfl⟩)
grind_pattern compareOp_kw => compareOp? s, some o
theorem notSet_kw (d : Gen.D) (s : String) (h : (Gen.notSet d).contains s = true) : isKW s = true := by
  simp only [isKW, KW, List.contains_eq_mem, List.mem_append, List.mem_flatMap, decide_eq_true_eq] at h ⊢
  exact Or.inr ⟨d, by cases d <;> simp [Gen.allD], h⟩
grind_pattern notSet_kw => (Gen.notSet d).contains s

/-! ### accounted tokens -/
def IsBracket (t : Tok) : Bool := t.has PAREN || t.has ARRAY
@[grind =] theorem isBracket_def (t : Tok) : IsBracket t = (t.has PAREN || t.has ARRAY) := rfl

/-- the token is accounted for by the texts `T` -/
inductive Acc (T : List String) : Tok → Prop
  | text {t : Tok} : t.src ∈ T → Acc T t
  | name {t : Tok} : unifyName t.src ∈ T → Acc T t
  | kw {t : Tok} : KwTok t = true → Acc T t
  | group {t : Tok} : IsBracket t = true → (∀ c, c ∈ t.children → Acc T c) → Acc T t

/-- `r` is a rest of `ts` and every token consumed in between is accounted for by `T` -/
def Acc3 (T : List String) (ts r : List Tok) : Prop := ∃ used, ts = used ++ r ∧ ∀ t, t ∈ used → Acc T t
/-- `r` is a rest of `ts` and every token consumed in between is a word of the grammar -/
def KwSeg (ts r : List Tok) : Prop := ∃ used, ts = used ++ r ∧ ∀ t, t ∈ used → KwTok t = true

theorem Acc3.sfx {T ts r} (h : Acc3 T ts r) : Sfx r ts := by obtain ⟨u, hu, _⟩ := h; exact ⟨u, hu⟩
theorem Acc3.refl (T : List String) (ts : List Tok) : Acc3 T ts ts := ⟨[], rfl, by simp⟩
@[grind =] theorem acc3_self (T : List String) (ts : List Tok) : Acc3 T ts ts = True := by simp [Acc3.refl]
theorem Acc3.trans {T a b c} (h1 : Acc3 T a b) (h2 : Acc3 T b c) : Acc3 T a c := by
  obtain ⟨u, rfl, hu⟩ := h1; obtain ⟨w, rfl, hw⟩ := h2
  exact ⟨u ++ w, by simp, fun t ht => (List.mem_append.1 ht).elim (hu t) (hw t)⟩
grind_pattern Acc3.trans => Acc3 T a b, Acc3 T b c
theorem acc3_cons {T : List String} {t : Tok} {r r' : List Tok} (ht : Acc T t) (h : Acc3 T r r') : Acc3 T (t :: r) r' := by
  obtain ⟨u, rfl, hu⟩ := h
  exact ⟨t :: u, rfl, fun x hx => (List.mem_cons.1 hx).elim (fun e => e ▸ ht) (hu x)⟩
grind_pattern acc3_cons => Acc3 T (t :: r) r'
theorem acc3_all {T : List String} {cs : List Tok} (h : Acc3 T cs []) : ∀ c, c ∈ cs → Acc T c := by
  obtain ⟨u, hu, h⟩ := h; simp at hu; subst hu; exact h
theorem acc_group {T : List String} {t : Tok} (hb : IsBracket t = true) (h : Acc3 T t.children []) : Acc T t := .group hb (acc3_all h)
grind_pattern acc_group => Acc3 T t.children []
theorem acc_text {T : List String} {t : Tok} (h : t.src ∈ T) : Acc T t := .text h
grind_pattern acc_text => t.src ∈ T
theorem acc_name {T : List String} {t : Tok} (h : unifyName t.src ∈ T) : Acc T t := .name h
grind_pattern acc_name => unifyName t.src ∈ T
theorem acc_kw {T : List String} {t : Tok} (h : KwTok t = true) : Acc T t := .kw h
grind_pattern acc_kw => Acc T t, KwTok t

theorem KwSeg.refl (ts : List Tok) : KwSeg ts ts := ⟨[], rfl, by simp⟩
@[grind =] theorem kwSeg_self (ts : List Tok) : KwSeg ts ts = True := by simp [KwSeg.refl]
theorem KwSeg.acc3 {ts r} (h : KwSeg ts r) (T : List String) : Acc3 T ts r := by
  obtain ⟨u, hu, h⟩ := h; exact ⟨u, hu, fun t ht => .kw (h t ht)⟩
grind_pattern KwSeg.acc3 => KwSeg ts r, Acc3 T ts r
theorem KwSeg.trans {a b c} (h1 : KwSeg a b) (h2 : KwSeg b c) : KwSeg a c := by
  obtain ⟨u, rfl, hu⟩ := h1; obtain ⟨w, rfl, hw⟩ := h2
  exact ⟨u ++ w, by simp, fun t ht => (List.mem_append.1 ht).elim (hu t) (hw t)⟩
grind_pattern KwSeg.trans => KwSeg a b, KwSeg b c
theorem kwSeg_acc3_trans {T a b c} (h1 : KwSeg a b) (h2 : Acc3 T b c) : Acc3 T a c := (h1.acc3 T).trans h2
grind_pattern kwSeg_acc3_trans => KwSeg a b, Acc3 T b c
theorem acc3_kwSeg_trans {T a b c} (h1 : Acc3 T a b) (h2 : KwSeg b c) : Acc3 T a c := h1.trans (h2.acc3 T)
grind_pattern acc3_kwSeg_trans => Acc3 T a b, KwSeg b c
theorem kwSeg_cons {t : Tok} {r : List Tok} (h : KwTok t = true) : KwSeg (t :: r) r := ⟨[t], rfl, by simpa using h⟩
grind_pattern kwSeg_cons => t :: r
theorem kwSeg_cons2 {a b : Tok} {r : List Tok} (ha : KwTok a = true) (hb : KwTok b = true) : KwSeg (a :: b :: r) r :=
  ⟨[a, b], rfl, by simp [ha, hb]⟩

/-! ### the cursor primitives consume grammar words only -/
theorem srcEqUp_kw {t : Tok} {k : String} (h : t.srcEqUp k = true) (hk : kwOk k = true) : KwTok t = true := by
  simp only [Tok.srcEqUp, beq_iff_eq] at h
  simp only [kwOk, Bool.and_eq_true] at hk
  simp [KwTok, h, hk.1]
grind_pattern srcEqUp_kw => t.srcEqUp k
theorem srcEq_kw {t : Tok} {k : String} (h : t.srcEq k = true) (hk : kwOk k = true) : KwTok t = true := by
  simp only [Tok.srcEq, beq_iff_eq] at h
  simp only [kwOk, Bool.and_eq_true] at hk
  simp [KwTok, h, hk.1]
grind_pattern srcEq_kw => t.srcEq k
theorem equalsStr_kw {t : Tok} {k : String} (h : t.equalsStr k = true) (hk : kwOk k = true) : KwTok t = true := by
  simp only [kwOk, Bool.and_eq_true] at hk
  cases t with
  | single s m =>
    simp only [Tok.equalsStr, beq_iff_eq] at h
    have : Tok.src (.single s m) = String.ofList s := rfl
    simp [KwTok, this, h, hk.2]
  | group k cs m => simp [Tok.equalsStr] at h
grind_pattern equalsStr_kw => t.equalsStr k

def KwRel {α : Type} (ts : List Tok) (a : R α) : Prop := ∀ v r, a = .ok (v, r) → KwSeg ts r
@[grind =] theorem kwRel_ok {α : Type} (ts : List Tok) (v : α) (r : List Tok) : KwRel ts (.ok (v, r) : R α) = KwSeg ts r := by simp [KwRel]
@[grind =] theorem kwRel_error {α : Type} (ts : List Tok) (e : Err) : KwRel ts (.error e : R α) = True := by simp [KwRel]

theorem matchKw_kw (ts : List Tok) (k : String) (hk : kwOk k = true) : KwRel ts (matchKw ts k) := by
  intro v r h
  cases ts with
  | nil => simp [matchKw] at h
  | cons t ts =>
    simp only [matchKw] at h
    split at h <;> simp at h
    rename_i he; subst h; exact kwSeg_cons (equalsStr_kw he hk)
grind_pattern matchKw_kw => matchKw ts k
theorem searchStrUp_kw (ts : List Tok) (k : String) (h : searchStrUp ts k = true) (hk : kwOk k = true) : KwSeg ts (ts.drop 1) := by
  cases ts with
  | nil => simp [searchStrUp] at h
  | cons t r => exact kwSeg_cons (srcEqUp_kw (by simpa [searchStrUp] using h) hk)
grind_pattern searchStrUp_kw => searchStrUp ts k, List.drop 1 ts
theorem searchStr_kw (ts : List Tok) (k : String) (h : searchStr ts k = true) (hk : kwOk k = true) : KwSeg ts (ts.drop 1) := by
  cases ts with
  | nil => simp [searchStr] at h
  | cons t r => exact kwSeg_cons (srcEq_kw (by simpa [searchStr] using h) hk)
grind_pattern searchStr_kw => searchStr ts k, List.drop 1 ts
theorem moveStrUp_kw (ts : List Tok) (k : String) (hk : kwOk k = true) : KwSeg ts (moveStrUp ts k).2 := by
  unfold moveStrUp; split
  · rename_i h; exact searchStrUp_kw ts k h hk
  · exact KwSeg.refl _
grind_pattern moveStrUp_kw => moveStrUp ts k
theorem moveStr_kw (ts : List Tok) (k : String) (hk : kwOk k = true) : KwSeg ts (moveStr ts k).2 := by
  unfold moveStr; split
  · rename_i h; exact searchStr_kw ts k h hk
  · exact KwSeg.refl _
grind_pattern moveStr_kw => moveStr ts k
theorem skipNot_kw (d : Gen.D) (ts : List Tok) : KwSeg ts (skipNot d ts).2 := by
  unfold skipNot; split
  · split
    · rename_i h; exact kwSeg_cons (by simp [KwTok, notSet_kw d _ h])
    · exact KwSeg.refl _
  · exact KwSeg.refl _
grind_pattern skipNot_kw => skipNot d ts

/-! ### the operand stack of the compute loop -/
theorem sub_collapse (T : List String) : ∀ st top, Sub (tE (collapse st top)) T = (Sub (tSt st) T ∧ Sub (tE top) T) := by
  intro st
  induction st with
  | nil => intro top; simp [collapse, tSt_nil, sub_nil]
  | cons p st ih =>
    intro top; obtain ⟨l, o, k⟩ := p
    simp only [collapse, ih, tSt_cons, tE_compute, sub_append, sub_cons, sub_nil, eq_iff_iff]
    constructor <;> (intro h; simp_all)
grind_pattern sub_collapse => Sub (tE (collapse st top)) T
theorem plain_collapse : ∀ st top, Plain (collapse st top) = (PlainSt st && Plain top) := by
  intro st
  induction st with
  | nil => intro top; simp [collapse, PlainSt]
  | cons p st ih =>
    intro top; obtain ⟨l, o, k⟩ := p
    simp only [collapse, ih, PlainSt, Plain]
    cases Plain l <;> cases PlainSt st <;> cases Plain top <;> rfl
grind_pattern plain_collapse => Plain (collapse st top)
theorem sub_reduceWhile (T : List String) (lvl : Nat) : ∀ st top,
    (Sub (tSt (reduceWhile lvl st top).1) T ∧ Sub (tE (reduceWhile lvl st top).2) T) = (Sub (tSt st) T ∧ Sub (tE top) T) := by
  intro st
  induction st with
  | nil => intro top; simp [reduceWhile, tSt_nil, sub_nil]
  | cons p st ih =>
    intro top; obtain ⟨l, o, k⟩ := p
    simp only [reduceWhile]
    split
    · rw [ih]; simp only [tSt_cons, tE_compute, sub_append, sub_cons, sub_nil, eq_iff_iff]; constructor <;> (intro h; simp_all)
    · rfl
theorem sub_reduceWhile' (T : List String) (lvl : Nat) (st top st' top') (h : reduceWhile lvl st top = (st', top')) :
    (Sub (tSt st') T ∧ Sub (tE top') T) = (Sub (tSt st) T ∧ Sub (tE top) T) := by
  have := sub_reduceWhile T lvl st top; rw [h] at this; exact this
grind_pattern sub_reduceWhile' => reduceWhile lvl st top, Sub (tSt st') T, (st', top')
theorem plain_reduceWhile (lvl : Nat) : ∀ st top,
    (PlainSt (reduceWhile lvl st top).1 && Plain (reduceWhile lvl st top).2) = (PlainSt st && Plain top) := by
  intro st
  induction st with
  | nil => intro top; simp [reduceWhile]
  | cons p st ih =>
    intro top; obtain ⟨l, o, k⟩ := p
    simp only [reduceWhile]
    split
    · rw [ih]; simp only [PlainSt, Plain]; cases Plain l <;> cases PlainSt st <;> cases Plain top <;> rfl
    · rfl
theorem plain_reduceWhile' (lvl : Nat) (st top st' top') (h : reduceWhile lvl st top = (st', top')) :
    (PlainSt st' && Plain top') = (PlainSt st && Plain top) := by
  have := plain_reduceWhile lvl st top; rw [h] at this; exact this
grind_pattern plain_reduceWhile' => reduceWhile lvl st top, (st', top')

/-! ### the relations the accounting lemmas are stated with

`AccRel tx pl ts pre prePl a`: if the run `a` on the cursor `ts` succeeds with `(v, r)` and `v` is plain, then the values the
function was handed (accumulators; their texts `pre`, their plainness `prePl`) are plain, and for EVERY set of texts `T` that
contains the texts of `v`: the consumed tokens are accounted for by `T`, and `T` contains the texts of what was handed in.
(Stated for every `T ⊇ texts v` so that `grind` finds the instance it needs from the inclusion it is given.) -/
def AccRel {α : Type} (tx : α → List String) (pl : α → Bool) (ts : List Tok) (pre : List String) (prePl : Bool) (a : R α) : Prop :=
  ∀ v r, a = .ok (v, r) → pl v = true → prePl = true ∧ ∀ T, Sub (tx v) T → Acc3 T ts r ∧ Sub pre T
@[grind =] theorem accRel_ok {α : Type} (tx : α → List String) (pl : α → Bool) (ts pre prePl) (v : α) (r : List Tok) :
    AccRel tx pl ts pre prePl (.ok (v, r)) = (pl v = true → prePl = true ∧ ∀ T, Sub (tx v) T → Acc3 T ts r ∧ Sub pre T) := by
  simp [AccRel]
@[grind =] theorem accRel_error {α : Type} (tx : α → List String) (pl : α → Bool) (ts pre prePl) (e : Err) :
    AccRel tx pl ts pre prePl (.error e : R α) = True := by simp [AccRel]
/-- the same with the head token `n0` of the cursor handed in separately (`pNamed`, `pQualified`) -/
def AccRelH (n0 : Tok) (ts : List Tok) (a : R Expr) : Prop :=
  ∀ v r, a = .ok (v, r) → Plain v = true → ∀ T, Sub (tE v) T → Acc3 T ts r ∧ Acc T n0
@[grind =] theorem accRelH_ok (n0 ts) (v : Expr) (r : List Tok) :
    AccRelH n0 ts (.ok (v, r)) = (Plain v = true → ∀ T, Sub (tE v) T → Acc3 T ts r ∧ Acc T n0) := by simp [AccRelH]
@[grind =] theorem accRelH_error (n0 ts) (e : Err) : AccRelH n0 ts (.error e) = True := by simp [AccRelH]
/-- the same for the functions that return `Option (value × cursor)`; `kw`: the keyword the caller has consumed is a grammar word -/
def AccRelO (ts : List Tok) (bv : Expr) (kw : Bool) (a : Except Err (Option (Expr × List Tok))) : Prop :=
  ∀ v r, a = .ok (some (v, r)) → Plain v = true → Plain bv = true ∧ kw = true ∧ ∀ T, Sub (tE v) T → Acc3 T ts r ∧ Sub (tE bv) T
@[grind =] theorem accRelO_some (ts bv kw) (v : Expr) (r : List Tok) :
    AccRelO ts bv kw (.ok (some (v, r))) = (Plain v = true → Plain bv = true ∧ kw = true ∧ ∀ T, Sub (tE v) T → Acc3 T ts r ∧ Sub (tE bv) T) := by
  simp [AccRelO]
@[grind =] theorem accRelO_none (ts bv kw) : AccRelO ts bv kw (.ok none) = True := by simp [AccRelO]
@[grind =] theorem accRelO_error (ts bv kw) (e : Err) : AccRelO ts bv kw (.error e) = True := by simp [AccRelO]
/-- the result is never plain (function calls, windows, `IN`, sub-queries) -/
def NotPlain (a : R Expr) : Prop := ∀ v r, a = .ok (v, r) → Plain v = false
@[grind =] theorem notPlain_ok (v : Expr) (r : List Tok) : NotPlain (.ok (v, r)) = (Plain v = false) := by simp [NotPlain]
@[grind =] theorem notPlain_error (e : Err) : NotPlain (.error e) = True := by simp [NotPlain]
def NotPlainV (a : Except Err Expr) : Prop := ∀ v, a = .ok v → Plain v = false
@[grind =] theorem notPlainV_ok (v : Expr) : NotPlainV (.ok v) = (Plain v = false) := by simp [NotPlainV]
@[grind =] theorem notPlainV_error (e : Err) : NotPlainV (.error e) = True := by simp [NotPlainV]
def NotPlainO (a : Except Err (Option (Expr × List Tok))) : Prop := ∀ v r, a = .ok (some (v, r)) → Plain v = false
@[grind =] theorem notPlainO_some (v : Expr) (r : List Tok) : NotPlainO (.ok (some (v, r))) = (Plain v = false) := by simp [NotPlainO]
@[grind =] theorem notPlainO_none : NotPlainO (.ok none) = True := by simp [NotPlainO]
@[grind =] theorem notPlainO_error (e : Err) : NotPlainO (.error e) = True := by simp [NotPlainO]

theorem castTail_notPlain (e : Expr) (ts : List Tok) : NotPlainV (castTail e ts) := by
  intro v h
  unfold castTail at h
  simp only at h
  split_run <;> grind

end PM
