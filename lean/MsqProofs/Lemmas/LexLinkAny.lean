import MsqProofs.Lemmas.LexLinkAnyR3
/-!
# The lexer link for the union of all statement fragments (`TR.FragAny`)

* `anyL d s` — the `List Char` mirror of `PR.prStmt d s` on the union: `stmtL` (queries, DELETE / UPDATE / INSERT, WITH — over `FragQ2`),
  `LD.createL` (CREATE TABLE), the mirrors of `LexLinkAnyR0-3.lean` for the remaining classes;
* `LeafAny d s` — the payload hypotheses, class by class (none assumes the link);
* `printableAny d s` — what the PRINTER needs beyond the token-level fragment (a `Bool`): `INSERT OVERWRITE` for HIVE / DEFAULT only,
  CREATE TABLE for MYSQL / HIVE (the printer raises for the other dialects), ANALYZE TABLE for HIVE / MYSQL;
* `good_any` — fragment + printable + payloads ⇒ the text lexes (in context) to `TR.toksAny d s`, has no pre-pass character, and is what the
  printer prints.
-/
set_option linter.unusedVariables false
set_option linter.unusedSimpArgs false
namespace LL2.Any
open Lex Spec C05 C06 C09 Ast TP TS LexLink TQ2
open LLD (printableStmt dw_plain)

/-- **the mirror of `PR.prStmt`** on the union fragment -/
def anyL (d : Gen.D) : Stmt → List Char
  | .createTable c => LD.createL d c
  | .dropTable b t => dropL b t
  | .truncate t => truncateL t
  | .msck t => msckL t
  | .use s => useL s
  | .set c => setStmtL c
  | .analyze t p fc cm ns => analyzeL d t p fc cm ns
  | .alter t ops => alterL d t ops
  | .showDatabases => showDbL
  | .showTables => showTblL
  | .showColumns fr wh => showColsL d fr wh
  | .createTableAs t ine q => ctasL d t ine q
  | s => stmtL d s

/-- **the payload hypotheses**, class by class -/
def LeafAny (d : Gen.D) : Stmt → Prop
  | .createTable c => LD.LeafC d c
  | .dropTable _ t => tblLeaf t
  | .truncate t => tblLeaf t
  | .msck t => tblLeaf t
  | .use s => LD.srcLex s
  | .set c => cfgLex c.name ∧ cfgLex c.value
  | .analyze t p _ _ _ => tblLeaf t ∧ On2 (leafOK2 d) (leavesPart p)
  | .alter t ops => tblLeaf t ∧ ∀ o ∈ ops, opLeaf d o
  | .showDatabases => True
  | .showTables => True
  | .showColumns fr wh => On2 (leafOK2 d) (leavesTables4 fr ++ leavesO4 wh)
  | .createTableAs t _ q => tblLeaf t ∧ On2 (leafOK2 d) (leavesStmt (.select q))
  | s => On2 (leafOK2 d) (leavesStmt s)

/-- what the PRINTER needs beyond the token-level fragment -/
def printableAny (d : Gen.D) : Stmt → Bool
  | .createTable _ => d == .MYSQL || d == .HIVE
  | .analyze _ _ _ _ _ => d == .HIVE || d == .MYSQL
  | s => printableStmt d s

/-- the record of a statement text -/
structure GA (d : Gen.D) (s : Stmt) : Prop where
  lx : Lx (anyL d s) (TR.toksAny d s)
  pr : PR.prStmt d s = .ok (String.ofList (anyL d s))
  q : allP (anyL d s) = true

theorem ga_of {d : Gen.D} {s : Stmt} {u : List Char} {ts : List Tok} (h : Pc u ts ∧ PR.prStmt d s = .ok (String.ofList u))
    (e1 : anyL d s = u) (e2 : TR.toksAny d s = ts) : GA d s := by
  subst e1; subst e2; exact ⟨h.1.lx, h.2, h.1.q⟩

theorem ga_dml {d : Gen.D} (s : Stmt) (hs : TDM2.FragStmt d s = true) (hp : printableStmt d s = true) (hl : On2 (leafOK2 d) (leavesStmt s))
    (e1 : anyL d s = stmtL d s) (e2 : TR.toksAny d s = TDM2.toksStmt d s) : GA d s := by
  have g := good_stmt (K := plainKit) dw_plain s hs hp (lv2_plain hl)
  exact ⟨by rw [e1, e2]; exact g.lx, by rw [e1]; exact g.pr, by rw [e1]; exact g.q⟩

/-- **fragment + printable + payloads ⇒ the record** -/
theorem good_any (d : Gen.D) (s : Stmt) (hs : TR.FragAny d s = true) (hp : printableAny d s = true) (hl : LeafAny d s) : GA d s := by
  cases s with
  | select q =>
    have h : TR.selOK d q = true := by
      simp only [TR.FragAny, TR.FragRest, Bool.or_false, Bool.or_eq_true] at hs
      simp only [TR.selOK, Bool.or_eq_true]
      exact hs.symm
    have g := select_good q h hl
    exact ⟨g.1.lx, g.2, g.1.q⟩
  | insertValues h vs => exact ga_dml _ (by simpa [TR.FragAny, TR.FragRest] using hs) hp hl rfl rfl
  | insertSelect h q => exact ga_dml _ (by simpa [TR.FragAny, TR.FragRest] using hs) hp hl rfl rfl
  | update ws t sets wh ob lm => exact ga_dml _ (by simpa [TR.FragAny, TR.FragRest] using hs) hp hl rfl rfl
  | delete t wh ob lm => exact ga_dml _ (by simpa [TR.FragAny, TR.FragRest] using hs) hp hl rfl rfl
  | createTable c =>
    have hc : TD.FragCreate d c = true := by simpa [TR.FragAny, TDM2.FragStmt, TR.FragRest] using hs
    have hl : LD.LeafC d c := hl
    have hd : d = .MYSQL ∨ d = .HIVE := by simpa [printableAny] using hp
    rcases hd with rfl | rfl
    · exact ⟨LD.lx_createMy c hc hl, LD.prCreateMysql_eq c hc hl, LD.allP_createMy c hc hl⟩
    · exact ⟨LD.lx_createHive c hc hl, LD.prCreateHive_eq c hc hl, LD.allP_createHive c hc hl⟩
  | dropTable b t =>
    have hf : TDM2.tblOKD t = true := by simpa [TR.FragAny, TDM2.FragStmt, TR.FragRest] using hs
    exact ga_of ⟨pc_drop b t hl, pr_drop d b t hl⟩ rfl rfl
  | truncate t => exact ga_of ⟨pc_truncate t hl, pr_truncate d t hl⟩ rfl rfl
  | msck t => exact ga_of ⟨pc_msck t hl, pr_msck d t hl⟩ rfl rfl
  | use s => exact ga_of ⟨pc_use s hl, pr_use d s⟩ rfl rfl
  | set c =>
    have hf : TR.cfgOK c.name = true ∧ TR.cfgOK c.value = true := by simpa [TR.FragAny, TDM2.FragStmt, TR.FragRest] using hs
    exact ga_of (set_good d c hf.1 hf.2 hl.1 hl.2) rfl rfl
  | analyze t p fc cm ns =>
    have hf : TDM2.tblOKD t = true ∧ (if d == .HIVE then TDM2.partOK d p = true else (p.isNone && !fc && !cm && !ns) = true) := by
      have : TR.FragRest d (.analyze t p fc cm ns) = true := by simpa [TR.FragAny, TDM2.FragStmt] using hs
      simp only [TR.FragRest, Bool.and_eq_true] at this
      refine ⟨this.1, ?_⟩
      have h2 := this.2
      split at h2 <;> rename_i hd <;> simp only [hd, if_true, Bool.false_eq_true, if_false] <;> exact h2
    have hf2 : if d == .HIVE then TDM2.partOK d p = true else True := by
      have := hf.2
      split at this <;> rename_i hd <;> simp only [hd, if_true, Bool.false_eq_true, if_false]
      exact this
    exact ga_of ⟨pc_analyze t p fc cm ns hl.1 hf2 hl.2, pr_analyze t p fc cm ns hl.1 hp hf2 hl.2⟩ rfl rfl
  | alter t ops =>
    have hf : TR.FragRest d (.alter t ops) = true := by simpa [TR.FragAny, TDM2.FragStmt] using hs
    simp only [TR.FragRest, Bool.and_eq_true, Bool.not_eq_true', List.isEmpty_eq_false_iff] at hf
    exact ga_of (alter_good t ops hl.1 hf.1.2 hf.2 hl.2) rfl rfl
  | showDatabases => exact ga_of ⟨pc_showDb, pr_showDb d⟩ rfl rfl
  | showTables => exact ga_of ⟨pc_showTbl, pr_showTbl d⟩ rfl rfl
  | showColumns fr wh =>
    have hf : TR.FragRest d (.showColumns fr wh) = true := by simpa [TR.FragAny, TDM2.FragStmt] using hs
    simp only [TR.FragRest, Bool.and_eq_true] at hf
    exact ga_of (show_good fr wh hf.1 hf.2 hl) rfl rfl
  | createTableAs t ine q =>
    have hf : TR.FragRest d (.createTableAs t ine q) = true := by simpa [TR.FragAny, TDM2.FragStmt] using hs
    simp only [TR.FragRest, Bool.and_eq_true] at hf
    exact ga_of (ctas_good t ine q hl.1 hf.2 hl.2) rfl rfl

end LL2.Any
