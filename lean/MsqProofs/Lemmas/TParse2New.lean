import MsqProofs.Lemmas.TParse2
/-!
# T-parse, larger fragment: the new productions (C02 / C01)

Token facts (what the head of a rendering is, that no top-level token is a comma), then one lemma per new production: qualified
columns and wildcards, function / aggregate calls with their argument lists, both forms of `CASE`.
-/
set_option linter.unusedVariables false
set_option linter.unusedSimpArgs false
set_option maxHeartbeats 1000000
open Lex PM Ast TP
namespace TP2
variable {d : Gen.D} {ch : Expr → Bool}

/-! ### token facts -/
theorem pyUpper_ascii (c : Char) (r : List Char) (h : c.toNat < 128) : Gen.pyUpper (c :: r) = Py.upperAsciiChar c :: Gen.pyUpper r := by
  simp only [Gen.pyUpper, Py.upperWith, List.flatMap_cons, h, if_true, List.singleton_append]
theorem up_head (v : String) (c : Char) (r : List Char) (hv : v.toList = c :: r) (h : c.toNat < 128) :
    (up v).toList.head? = some (Py.upperAsciiChar c) := by
  simp [up, Gen.pyUpperS, String.toList_ofList, hv, pyUpper_ascii c r h]
theorem digit_ascii (c : Char) (h : c.isDigit = true) : c.toNat < 128 ∧ Py.upperAsciiChar c = c ∧ c.isDigit = true := by
  have h' := h
  simp only [Char.isDigit, Bool.and_eq_true, decide_eq_true_eq] at h
  have h1 : c.val.toNat ≤ 57 := UInt32.le_iff_toNat_le.1 h.2
  refine ⟨by simp only [Char.toNat]; omega, ?_, h'⟩
  unfold Py.upperAsciiChar
  have : ¬('a' ≤ c ∧ c ≤ 'z') := by
    rintro ⟨ha, _⟩
    have h2 : (97 : UInt32) ≤ c.val := ha
    have h3 := UInt32.le_iff_toNat_le.1 h2
    have h4 : (97 : UInt32).toNat = 97 := by decide
    omega
  simp [this]
/-- a literal token is none of the words a LITERAL-free word token can be -/
theorem lit_up_ne (v w : String) (hv : litOK d v = true) (hw1 : Gen.wordMarks.find? (·.1 == w) = none)
    (hw2 : w.toList.head?.all (fun c => !c.isDigit && c != '\'' && c != '"') = true) : up v ≠ w := by
  intro he
  simp only [litOK, Bool.and_eq_true] at hv
  have hl := hv.1
  simp only [litTok, Tok.has, Tok.marks, litMark] at hl
  by_cases hd : isDigits v = true
  · simp only [isDigits, Bool.and_eq_true, Bool.not_eq_true', List.all_eq_true] at hd
    cases hc : v.toList with
    | nil => rw [hc] at hd; simp at hd
    | cons c r =>
      rw [hc] at hd
      obtain ⟨a1, a2, a3⟩ := digit_ascii c (hd.2 c (by simp))
      have := up_head v c r hc a1
      rw [he, a2] at this
      rw [this] at hw2
      simp [a3] at hw2
  · simp only [hd, Bool.false_eq_true, if_false] at hl
    by_cases hq : (v.toList.head? == some '\'' || v.toList.head? == some '"') = true
    · cases hc : v.toList with
      | nil => rw [hc] at hq; simp at hq
      | cons c r =>
        rw [hc] at hq
        simp only [List.head?_cons, Bool.or_eq_true, beq_iff_eq, Option.some.injEq] at hq
        rcases hq with rfl | rfl
        · have := up_head v '\'' r hc (by decide)
          rw [he, show Py.upperAsciiChar '\'' = '\'' by decide] at this
          rw [this] at hw2; simp at hw2
        · have := up_head v '"' r hc (by decide)
          rw [he, show Py.upperAsciiChar '"' = '"' by decide] at this
          rw [this] at hw2; simp at hw2
    · simp only [hq, Bool.false_eq_true, if_false, wordMark, he, hw1] at hl
      split at hl <;> exact absurd hl (by decide)
theorem litTok_equals (v k : String) : (litTok v).equalsStr k = (up v == up k) := by
  simp [litTok, Tok.equalsStr, String.ofList_toList]
theorem lit_facts (v : String) (hv : litOK d v = true) : hdTok (litTok v) = true ∧ (litTok v).equalsStr "," = false := by
  have h1 := lit_up_ne v "WHEN" hv (by decide) (by decide)
  have h2 := lit_up_ne v "DISTINCT" hv (by decide) (by decide)
  have h3 := lit_up_ne v "," hv (by decide) (by decide)
  have hs : startTok (litTok v) = true := by
    simp only [litOK, elemTok, operandTok, Bool.and_eq_true] at hv; exact hv.2.1.1.1
  refine ⟨?_, ?_⟩
  · simp only [hdTok, hs, src_litTok, Bool.true_and, List.contains_cons, List.contains_nil, Bool.or_false, Bool.not_eq_true',
      Bool.or_eq_false_iff, beq_eq_false_iff_ne, ne_eq]
    exact ⟨h1, h2⟩
  · rw [litTok_equals, beq_eq_false_iff_ne]
    have : up "," = "," := by decide
    rw [this]; exact h3
theorem up_nameTok_head (n : String) : (up (nameTok n).src).toList.head? = some '`' := by
  simp [up, Gen.pyUpperS, String.toList_ofList, toList_src_nameTok, pyUpper_bq]
theorem nameTok_equals (n k : String) : (nameTok n).equalsStr k = (up (nameTok n).src == up k) := rfl
theorem name_facts (n : String) : hdTok (nameTok n) = true ∧ (nameTok n).equalsStr "," = false ∧ (nameTok n).equalsStr "." = false := by
  have h2 := up_nameTok_head n
  have a : ["SELECT", "WITH"].contains (up (nameTok n).src) = false := not_contains_of_head h2 (by decide)
  have b : ["WHEN", "DISTINCT"].contains (up (nameTok n).src) = false := not_contains_of_head h2 (by decide)
  refine ⟨by simp only [hdTok, startTok, a, b]; rfl, ?_, ?_⟩
  · rw [nameTok_equals, beq_eq_false_iff_ne]; exact ne_of_head h2 (by decide)
  · rw [nameTok_equals, beq_eq_false_iff_ne]; exact ne_of_head h2 (by decide)
theorem opTok_equals (s k : String) : (opTok s).equalsStr k = (up s == up k) := by
  simp [opTok, Tok.equalsStr, String.ofList_toList]
theorem unary_facts (o : String) (ho : unOK d o = true) :
    hdTok (opTok (cval o)) = true ∧ (opTok (cval o)).equalsStr "," = false := by
  simp only [unOK, Bool.and_eq_true] at ho
  have hu := ho.1.1.1
  have hall : (Gen.unarySet d).all (fun k => hdTok (opTok k) && !(opTok k).equalsStr ",") = true := by cases d <;> decide
  have hm : cval o ∈ Gen.unarySet d := by simpa using hu
  have := List.all_eq_true.1 hall _ hm
  simpa using this
theorem bin_nocomma (o : String) (ho : binOK d o = true) : (opTok (cval o)).equalsStr "," = false := by
  obtain ⟨_, _, hop⟩ := binOK_parts d ho
  have h1 := hop.1
  rw [opTok_equals, beq_eq_false_iff_ne]
  intro he
  have hc : up "," = "," := by decide
  simp only [src_opTok] at h1
  rw [he, hc] at h1
  have hn : computeOp? "," = none := by decide
  rw [hn] at h1; cases h1
theorem cmp_nocomma (o : String) (ho : cmpOK d o = true) : (opTok (cmpVal o)).equalsStr "," = false := by
  simp only [cmpOK, Bool.and_eq_true, beq_iff_eq] at ho
  have h := ho.1.1
  have hall : Gen.compareHash.all (fun e => up e.1 != ",") = true := by decide
  unfold compareOp? at h
  simp only [Option.map_eq_some_iff] at h
  obtain ⟨p, hf, _⟩ := h
  have hm := List.mem_of_find?_eq_some hf
  have hk : p.1 = (opTok (cmpVal o)).src := by simpa using List.find?_some hf
  have := List.all_eq_true.1 hall p hm
  rw [opTok_equals, beq_eq_false_iff_ne]
  have hc : up "," = "," := by decide
  simp only [src_opTok] at hk
  rw [hc, ← hk]
  simpa using this
theorem kw_nocomma : (opTok "NOT").equalsStr "," = false ∧ (opTok "AND").equalsStr "," = false ∧ (opTok "OR").equalsStr "," = false ∧
    (opTok "XOR").equalsStr "," = false ∧ (opTok "BETWEEN").equalsStr "," = false ∧ (opTok "IS").equalsStr "," = false ∧
    (opTok "IN").equalsStr "," = false ∧ (opTok "LIKE").equalsStr "," = false ∧ (opTok "RLIKE").equalsStr "," = false ∧
    (opTok "REGEXP").equalsStr "," = false ∧ (opTok "CASE").equalsStr "," = false ∧ (opTok "WHEN").equalsStr "," = false ∧
    (opTok "THEN").equalsStr "," = false ∧ (opTok "ELSE").equalsStr "," = false ∧ (opTok "END").equalsStr "," = false ∧
    dotTok.equalsStr "," = false ∧ starTok.equalsStr "," = false := by decide
theorem kwToks_nocomma (k : KwKind) (n : Bool) : NoComma (kwToks k n) := by
  intro t ht
  cases k <;> cases n <;> simp [kwToks] at ht <;> (try rcases ht with rfl | rfl) <;> (try subst ht) <;> decide


/-! ### element level helpers -/
theorem pIndex_stop (b : Expr) (rest : List Tok) {L : Nat} (h : stopLE2 d L rest = true) (g : Nat) : pIndex d (g + 1) b rest = .ok (b, rest) := by
  unfold pIndex
  cases rest with
  | nil => rfl
  | cons t r =>
    have hs := (stop_parts d (sl h)).1
    simp only [stopsE, Bool.and_eq_true, Bool.not_eq_true'] at hs
    simp [hs.1.2]
theorem searchMark_stop (rest : List Tok) {L : Nat} (h : stopLE2 d L rest = true) : searchMark rest PAREN = false := by
  cases rest with
  | nil => rfl
  | cons t r =>
    have hs := (stop_parts d (sl h)).1
    simp only [stopsE, Bool.and_eq_true, Bool.not_eq_true'] at hs
    simpa [searchMark] using hs.1.1
theorem nmOK_parts {t : Tok} {n : String} (h : nmOK d t n = true) :
    (Gen.unarySet d).contains t.src = false ∧ operandTok d t = true ∧ hdTok t = true ∧ t.has NAME = true ∧ t.has LITERAL = false ∧
      t.has PAREN = false ∧ t.srcEqUp "CASE" = false ∧ t.srcEq "*" = false ∧ unifyName t.src = n ∧ t.equalsStr "," = false ∧
      t.equalsStr "." = false := by
  simp only [nmOK, elemTok, Bool.and_eq_true, Bool.not_eq_true', beq_iff_eq] at h
  obtain ⟨⟨⟨⟨⟨⟨⟨⟨⟨⟨a0, a1⟩, a2⟩, a3⟩, a4⟩, a5⟩, a6⟩, a7⟩, a8⟩, a9⟩, a10⟩ := h
  exact ⟨a1, a0, a2, a3, a4, a5, a6, a7, a8, a9, a10⟩
theorem dot_facts : dotTok.has PAREN = false ∧ dotTok.srcEq "." = true ∧ dotTok.equalsStr "." = true ∧ dotTok.size = 1 ∧
    starTok.has NAME = false ∧ starTok.srcEq "*" = true ∧ starTok.has LITERAL = false ∧ starTok.has PAREN = false ∧
    starTok.srcEqUp "CASE" = false ∧ starTok.size = 1 ∧ commaTok.size = 1 := by decide

/-! ### qualified columns and wildcards -/
theorem full2_qcol (t c : String) (h : qcolOK d t c = true) :
    Full2 d (P2 d) 2 0 [nameTok t, dotTok, nameTok c] (.column (some t) c) := by
  simp only [qcolOK, nm2OK, Bool.and_eq_true, Bool.not_eq_true', beq_iff_eq] at h
  obtain ⟨h1, ⟨h2n, h2u⟩, _⟩ := h
  obtain ⟨u, _, _, _, l, p, cs, st, un, _, _⟩ := nmOK_parts h1
  obtain ⟨dp, ds, _⟩ := dot_facts
  intro rest hr f hf
  simp only [sizeL, Tok.size, nameTok, dotTok, opTok] at hf
  obtain ⟨g, rfl⟩ : ∃ g, f = g + 6 := ⟨f - 6, by omega⟩
  show pUnary d (g + 6) (nameTok t :: dotTok :: nameTok c :: rest) = _
  unfold pUnary
  simp only [u, Bool.false_eq_true, if_false]
  unfold pElement
  simp only [l, p, cs, st, Bool.false_eq_true, if_false]
  unfold pNamed
  simp only [dp, ds, Bool.false_eq_true, if_false, if_true]
  unfold pQualified
  simp only [h2n, if_true, searchMark_stop rest hr, Bool.false_eq_true, if_false, un, h2u, pIndex_stop _ rest hr]

theorem star_unary : (Gen.unarySet d).contains starTok.src = false := by cases d <;> decide
theorem full2_star : Full2 d (P2 d) 2 0 [starTok] (.wildcard none) := by
  obtain ⟨_, _, _, _, _, s2, s3, s4, s5, _⟩ := dot_facts
  intro rest hr f hf
  simp only [sizeL, Tok.size, starTok, opTok] at hf
  obtain ⟨g, rfl⟩ : ∃ g, f = g + 2 := ⟨f - 2, by omega⟩
  show pUnary d (g + 2) (starTok :: rest) = _
  unfold pUnary
  simp only [star_unary, Bool.false_eq_true, if_false]
  unfold pElement
  simp only [s3, s4, s5, s2, Bool.false_eq_true, if_false, if_true]
theorem full2_qstar (t : String) (h : wildOK d t = true) : Full2 d (P2 d) 2 0 [qTok t, dotTok, starTok] (.wildcard (some t)) := by
  obtain ⟨u, _, _, _, l, p, cs, st, un, _, _⟩ := nmOK_parts h
  obtain ⟨dp, ds, _, _, s1, s2, _⟩ := dot_facts
  intro rest hr f hf
  have hsz : (qTok t).size = 1 := by unfold qTok; split <;> simp [opTok, nameTok, Tok.size]
  simp only [sizeL, hsz, Tok.size, dotTok, starTok, opTok] at hf
  obtain ⟨g, rfl⟩ : ∃ g, f = g + 5 := ⟨f - 5, by omega⟩
  show pUnary d (g + 5) (qTok t :: dotTok :: starTok :: rest) = _
  unfold pUnary
  simp only [u, Bool.false_eq_true, if_false]
  unfold pElement
  simp only [l, p, cs, st, Bool.false_eq_true, if_false]
  unfold pNamed
  simp only [dp, ds, Bool.false_eq_true, if_false, if_true]
  unfold pQualified
  simp only [s1, s2, Bool.false_eq_true, if_false, if_true, un]

/-! ### argument lists -/
theorem comma_stop2 (x : List Tok) : stopLE2 d 14 (commaTok :: x) = true := by
  have h : stopTok d 14 commaTok = true := by cases d <;> decide
  exact stop2_of x h (by decide)
theorem comma_move (x : List Tok) : moveStr (commaTok :: x) "," = (true, x) := by
  have : commaTok.srcEq "," = true := by decide
  simp [moveStr, searchStr, this]
theorem argsTail_shape (k : Nat) (as : List Expr) : toksArgsTail d ch k as = [] ∨ ∃ x, toksArgsTail d ch k as = commaTok :: x := by
  cases as with
  | nil => left; simp [toksArgsTail]
  | cons a as => right; exact ⟨wrapT (ch a) a k (toksE2 d ch a) ++ toksArgsTail d ch k as, by simp only [toksArgsTail]⟩
theorem stop2_tail14 {tl : List Tok} (h : tl = [] ∨ ∃ x, tl = commaTok :: x) : stopLE2 d 14 tl = true := by
  rcases h with rfl | ⟨x, rfl⟩
  · rfl
  · exact comma_stop2 x
theorem argsTail_ok : ∀ (as : List Expr), (∀ a ∈ as, RT2 d ch a) → ∀ acc,
    OkAt (fun f => pArgs d f acc (toksArgsTail d ch 14 as)) (20 * sizeL (toksArgsTail d ch 14 as) + 17) (acc ++ as, []) := by
  intro as
  induction as with
  | nil =>
    intro _ acc f hf
    obtain ⟨g, rfl⟩ : ∃ g, f = g + 1 := ⟨f - 1, by omega⟩
    simp [toksArgsTail, pArgs, moveStr, searchStr]
  | cons a as ih =>
    intro has acc f hf
    have hsz := dot_facts.2.2.2.2.2.2.2.2.2.2
    simp only [toksArgsTail, sizeL_cons, sizeL_append, hsz] at hf
    obtain ⟨g, rfl⟩ : ∃ g, f = g + 1 := ⟨f - 1, by omega⟩
    have h1 : pOr d g (W2 d ch a 14 ++ toksArgsTail d ch 14 as) = .ok (a, toksArgsTail d ch 14 as) :=
      ((has a (by simp)).at 14 (by omega)).s14 _ (stop2_tail14 (argsTail_shape 14 as)) g (by simp only [W2] at hf ⊢; omega)
    have h2 := ih (fun a' ha' => has a' (by simp [ha'])) (acc ++ [a]) g (by omega)
    show pArgs d (g + 1) acc (toksArgsTail d ch 14 (a :: as)) = _
    unfold pArgs
    simp only [toksArgsTail, comma_move, if_true]
    simp only [W2] at h1
    simp only [h1]
    simpa using h2
/-- the two steps of a call's argument list: the first argument (if any), then `, argument` to the end of the group -/
theorem args_ok (ps : List Expr) (h : ∀ a ∈ ps, RT2 d ch a) :
    ∃ acc r2, OkAt (fun f => pFirstArg d f (toksArgs d ch 14 ps)) (20 * sizeL (toksArgs d ch 14 ps) + 18) (acc, r2) ∧
      OkAt (fun f => pArgs d f acc r2) (20 * sizeL (toksArgs d ch 14 ps) + 18) (ps, []) := by
  cases ps with
  | nil =>
    refine ⟨[], [], ?_, ?_⟩
    · intro f hf
      obtain ⟨g, rfl⟩ : ∃ g, f = g + 1 := ⟨f - 1, by omega⟩
      simp [toksArgs, pFirstArg]
    · intro f hf
      obtain ⟨g, rfl⟩ : ∃ g, f = g + 1 := ⟨f - 1, by omega⟩
      simp [pArgs, moveStr, searchStr]
  | cons a as =>
    refine ⟨[a], toksArgsTail d ch 14 as, ?_, ?_⟩
    · intro f hf
      simp only [toksArgs, sizeL_append] at hf
      obtain ⟨g, rfl⟩ : ∃ g, f = g + 1 := ⟨f - 1, by omega⟩
      obtain ⟨t, ts', hw, _⟩ := (h a (by simp)).headW 14
      have h1 : pOr d g (W2 d ch a 14 ++ toksArgsTail d ch 14 as) = .ok (a, toksArgsTail d ch 14 as) :=
        ((h a (by simp)).at 14 (by omega)).s14 _ (stop2_tail14 (argsTail_shape 14 as)) g (by simp only [W2] at hf ⊢; omega)
      have hne : (W2 d ch a 14 ++ toksArgsTail d ch 14 as).isEmpty = false := by rw [hw]; rfl
      show pFirstArg d (g + 1) (toksArgs d ch 14 (a :: as)) = _
      unfold pFirstArg
      simp only [toksArgs]
      simp only [W2] at h1 hne
      simp only [hne, Bool.false_eq_true, if_false, h1]
    · intro f hf
      simp only [toksArgs, sizeL_append] at hf
      have := argsTail_ok as (fun a' ha' => h a' (by simp [ha'])) [a] f (by omega)
      simpa using this
/-- the head of an argument list is not `DISTINCT` -/
theorem args_noDistinct (ps : List Expr) (h : ∀ a ∈ ps, RT2 d ch a) : searchStrUp (toksArgs d ch 14 ps) "DISTINCT" = false := by
  cases ps with
  | nil => simp [toksArgs, searchStrUp]
  | cons a as =>
    obtain ⟨t, ts', hw, hh, _⟩ := (h a (by simp)).headW 14
    simp only [toksArgs]
    simp only [W2] at hw
    rw [hw]
    simp only [hdTok, Bool.and_eq_true, Bool.not_eq_true', List.contains_cons, List.contains_nil, Bool.or_false, Bool.or_eq_false_iff,
      beq_eq_false_iff_ne, ne_eq] at hh
    simpa [searchStrUp, Tok.srcEqUp] using hh.2.2

/-! ### calls -/
/-- from the (already recognised) name to the node: `pFuncIdx` on `… name ( args ) rest` -/
theorem funcIdx_ok (ts : List Tok) (schema : Option String) (name : String) (A rest : List Tok) (isAgg dist : Bool) (A' : List Tok) (ps : List Expr)
    (hname : pFuncName ts = .ok ((schema, name), grp A :: rest))
    (hsp : (schema.isNone && up name == "CAST") = false ∧ (schema.isNone && up name == "EXTRACT") = false ∧ (schema.isNone && up name == "IF") = false)
    (hprep : callPrep name (grp A) = (isAgg, dist, A'))
    (B : Nat) (acc : List Expr) (r2 : List Tok) (h1 : OkAt (fun f => pFirstArg d f A') B (acc, r2)) (h2 : OkAt (fun f => pArgs d f acc r2) B (ps, []))
    {L : Nat} (hr : stopLE2 d L rest = true) :
    OkAt (fun f => pFuncIdx d f ts) (B + 3) (callNode schema name isAgg dist ps, rest) := by
  intro f hf
  obtain ⟨g, rfl⟩ : ∃ g, f = g + 3 := ⟨f - 3, by omega⟩
  have a1 := h1 g (by omega)
  have a2 := h2 g (by omega)
  simp only at a1 a2
  unfold pFuncIdx pFunc
  simp only [hname, hsp.1, hsp.2.1, hsp.2.2, Bool.false_eq_true, if_false]
  unfold pCall
  simp only [hprep, a1, a2, closed, pIndex_stop _ rest hr]

theorem pFuncName_plain (nm : Tok) (n : String) (A rest : List Tok) (hn : nm.has NAME = true) (hs : splitName nm.src = .ok (none, n)) :
    pFuncName (nm :: grp A :: rest) = .ok ((none, n), grp A :: rest) := by
  have hg : (grp A).equalsStr "." = false := rfl
  cases rest with
  | nil => simp [pFuncName, hn, hs]
  | cons c r => simp [pFuncName, hn, hs, hg]
theorem pFuncName_qual (a nm : Tok) (s n : String) (A rest : List Tok) (ha : a.has NAME = true) (hau : unifyName a.src = s)
    (hn : nm.has NAME = true) (hnu : unifyName nm.src = n) :
    pFuncName (a :: dotTok :: nm :: grp A :: rest) = .ok ((some s, n), grp A :: rest) := by
  have hd : dotTok.equalsStr "." = true := by decide
  simp [pFuncName, ha, hd, hn, hau, hnu]

theorem isOkNoneS_eq {r : Except Err (Option String × String)} {n : String} (h : isOkNoneS r n = true) : r = .ok (none, n) := by
  unfold isOkNoneS at h
  split at h
  · simp only [beq_iff_eq] at h; subst h; rfl
  · cases h
theorem fnName_parts {n : String} (h : fnNameOK n = true) :
    (up n == "CAST") = false ∧ (up n == "EXTRACT") = false ∧ (up n == "IF") = false ∧ (up n == "SUBSTRING") = false ∧
      Gen.aggNames.contains (up n) = false := by
  simp only [fnNameOK, Bool.and_eq_true, Bool.not_eq_true', List.contains_cons, List.contains_nil, Bool.or_false, Bool.or_eq_false_iff,
    bne_iff_ne, ne_eq] at h
  obtain ⟨⟨⟨a, b, c⟩, e⟩, f⟩ := h
  exact ⟨a, b, c, by simpa using e, f⟩
theorem callPrep_func (n : String) (A : List Tok) (h : fnNameOK n = true) : callPrep n (grp A) = (false, false, A) := by
  obtain ⟨_, _, _, hs, ha⟩ := fnName_parts h
  have ha' : ¬ up n ∈ Gen.aggNames := by simpa using ha
  simp [callPrep, ha', substringRewrite, hs, children_grp]
theorem qTok_size (n : String) : (qTok n).size = 1 := by unfold qTok; split <;> simp [opTok, nameTok, Tok.size]

/-- `f(a₁, …, aₙ)` -/
theorem full2_func (n : String) (ps : List Expr) (hn : fnOK d none n = true) (hps : ∀ a ∈ ps, RT2 d ch a) :
    Full2 d (P2 d) 2 0 [qTok n, grp (toksArgs d ch 14 ps)] (.func none n ps) := by
  simp only [fnOK, Bool.and_eq_true] at hn
  obtain ⟨hfn, hnm, hsp⟩ := hn
  obtain ⟨u, _, _, hN, l, p, cs, st, un, _, _⟩ := nmOK_parts hnm
  obtain ⟨c1, c2, c3, _, _⟩ := fnName_parts hfn
  obtain ⟨acc, r2, h1, h2⟩ := args_ok ps hps
  intro rest hr f hf
  simp only [sizeL, qTok_size, size_grp] at hf
  obtain ⟨g, rfl⟩ : ∃ g, f = g + 3 := ⟨f - 3, by omega⟩
  have key := funcIdx_ok (d := d) (qTok n :: grp (toksArgs d ch 14 ps) :: rest) none n _ rest false false _ ps
    (pFuncName_plain _ n _ rest hN (isOkNoneS_eq hsp)) ⟨by simp [c1], by simp [c2], by simp [c3]⟩ (callPrep_func n _ hfn) _ acc r2 h1 h2 hr g
    (by omega)
  simp only [callNode, Option.isNone_none, Bool.true_and, Bool.false_eq_true, if_false] at key
  show pUnary d (g + 3) (qTok n :: grp (toksArgs d ch 14 ps) :: rest) = _
  unfold pUnary
  simp only [u, Bool.false_eq_true, if_false]
  unfold pElement
  simp only [l, p, cs, st, Bool.false_eq_true, if_false]
  unfold pNamed
  simp only [grp_paren, if_true, so hr, Bool.false_eq_true, if_false, key]

/-- `s.f(a₁, …, aₙ)` -/
theorem full2_qfunc (s n : String) (ps : List Expr) (hn : fnOK d (some s) n = true) (hps : ∀ a ∈ ps, RT2 d ch a) :
    Full2 d (P2 d) 2 0 [nameTok s, dotTok, qTok n, grp (toksArgs d ch 14 ps)] (.func (some s) n ps) := by
  simp only [fnOK, nm2OK, Bool.and_eq_true, Bool.not_eq_true', beq_iff_eq] at hn
  obtain ⟨hfn, hnm, ⟨h2n, h2u⟩, _⟩ := hn
  obtain ⟨u, _, _, hN, l, p, cs, st, un, _, _⟩ := nmOK_parts hnm
  obtain ⟨dp, ds, _⟩ := dot_facts
  obtain ⟨acc, r2, h1, h2⟩ := args_ok ps hps
  intro rest hr f hf
  simp only [sizeL, qTok_size, size_grp, Tok.size, nameTok, dotTok, opTok] at hf
  obtain ⟨g, rfl⟩ : ∃ g, f = g + 4 := ⟨f - 4, by omega⟩
  have key := funcIdx_ok (d := d) (nameTok s :: dotTok :: qTok n :: grp (toksArgs d ch 14 ps) :: rest) (some s) n _ rest false false _ ps
    (pFuncName_qual _ _ s n _ rest hN un h2n h2u) ⟨by simp, by simp, by simp⟩ (callPrep_func n _ hfn) _ acc r2 h1 h2 hr g
    (by omega)
  simp only [callNode, Option.isNone_some, Bool.false_and, Bool.false_eq_true, if_false] at key
  show pUnary d (g + 4) (nameTok s :: dotTok :: qTok n :: grp (toksArgs d ch 14 ps) :: rest) = _
  unfold pUnary
  simp only [u, Bool.false_eq_true, if_false]
  unfold pElement
  simp only [l, p, cs, st, Bool.false_eq_true, if_false]
  unfold pNamed
  simp only [dp, ds, Bool.false_eq_true, if_false, if_true]
  unfold pQualified
  simp only [h2n, if_true, searchMark, grp_paren, key]

theorem agg_parts {n : String} (h : Gen.aggNames.contains (up n) = true) :
    (up n == "CAST") = false ∧ (up n == "EXTRACT") = false ∧ (up n == "IF") = false ∧ (up n == "SUBSTRING") = false := by
  have hall : Gen.aggNames.all (fun k => !(k == "CAST") && !(k == "EXTRACT") && !(k == "IF") && !(k == "SUBSTRING")) = true := by decide
  have hm : up n ∈ Gen.aggNames := by simpa using h
  have := List.all_eq_true.1 hall _ hm
  simp only [Bool.and_eq_true, Bool.not_eq_true'] at this
  exact ⟨this.1.1.1, this.1.1.2, this.1.2, this.2⟩
/-- `AGG([DISTINCT] a₁, …, aₙ)` -/
theorem full2_agg (n : String) (ps : List Expr) (dist : Bool) (hn : aggOK d n = true) (hps : ∀ a ∈ ps, RT2 d ch a) :
    Full2 d (P2 d) 2 0 [opTok n, grp ((if dist then [opTok "DISTINCT"] else []) ++ toksArgs d ch 14 ps)] (.agg n ps dist) := by
  simp only [aggOK, Bool.and_eq_true] at hn
  obtain ⟨⟨hagg, hnm⟩, hsp⟩ := hn
  obtain ⟨u, _, _, hN, l, p, cs, st, un, _, _⟩ := nmOK_parts hnm
  obtain ⟨c1, c2, c3, c4⟩ := agg_parts hagg
  obtain ⟨acc, r2, h1, h2⟩ := args_ok ps hps
  have hprep : callPrep n (grp ((if dist then [opTok "DISTINCT"] else []) ++ toksArgs d ch 14 ps)) = (true, dist, toksArgs d ch 14 ps) := by
    have hD : (opTok "DISTINCT").srcEqUp "DISTINCT" = true := by decide
    have hagg' : up n ∈ Gen.aggNames := by simpa using hagg
    cases dist with
    | true => simp [callPrep, hagg', substringRewrite, c4, children_grp, moveStrUp, searchStrUp, hD]
    | false => simp [callPrep, hagg', substringRewrite, c4, children_grp, moveStrUp, args_noDistinct ps hps]
  intro rest hr f hf
  simp only [sizeL, size_grp, size_opTok, sizeL_append] at hf
  obtain ⟨g, rfl⟩ : ∃ g, f = g + 3 := ⟨f - 3, by omega⟩
  have key := funcIdx_ok (d := d) (opTok n :: grp ((if dist then [opTok "DISTINCT"] else []) ++ toksArgs d ch 14 ps) :: rest) none n _ rest true dist _ ps
    (pFuncName_plain _ n _ rest hN (isOkNoneS_eq hsp)) ⟨by simp [c1], by simp [c2], by simp [c3]⟩ hprep _ acc r2 h1 h2 hr g
    (by omega)
  simp only [callNode, Option.isNone_none, Bool.true_and, if_true] at key
  show pUnary d (g + 3) (opTok n :: grp _ :: rest) = _
  unfold pUnary
  simp only [u, Bool.false_eq_true, if_false]
  unfold pElement
  simp only [l, p, cs, st, Bool.false_eq_true, if_false]
  unfold pNamed
  simp only [grp_paren, if_true, so hr, Bool.false_eq_true, if_false, key]


/-! ### CASE -/
theorem case_stops (x : List Tok) : stopLE2 d 14 (opTok "WHEN" :: x) = true ∧ stopLE2 d 14 (opTok "THEN" :: x) = true ∧
    stopLE2 d 14 (opTok "ELSE" :: x) = true ∧ stopLE2 d 14 (opTok "END" :: x) = true := by
  have h : stopTok d 14 (opTok "WHEN") = true ∧ stopTok d 14 (opTok "THEN") = true ∧ stopTok d 14 (opTok "ELSE") = true ∧
      stopTok d 14 (opTok "END") = true := by cases d <;> decide
  exact ⟨stop2_of x h.1 (by decide), stop2_of x h.2.1 (by decide), stop2_of x h.2.2.1 (by decide), stop2_of x h.2.2.2 (by decide)⟩
theorem case_words : (opTok "CASE").equalsStr "CASE" = true ∧ (opTok "THEN").equalsStr "THEN" = true ∧ (opTok "END").equalsStr "END" = true ∧
    (opTok "WHEN").srcEqUp "WHEN" = true ∧ (opTok "ELSE").srcEqUp "ELSE" = true ∧ (opTok "ELSE").srcEqUp "WHEN" = false ∧
    (opTok "END").srcEqUp "WHEN" = false ∧ (opTok "END").srcEqUp "ELSE" = false ∧ (opTok "CASE").has LITERAL = false ∧
    (opTok "CASE").has PAREN = false ∧ (opTok "CASE").srcEqUp "CASE" = true := by decide
theorem case_unary : (Gen.unarySet d).contains (opTok "CASE").src = false := by cases d <;> decide

/-- what follows the arms: `ELSE …` or `END` -/
structure ArmsFol (d : Gen.D) (fol : List Tok) : Prop where
  noWhen : searchStrUp fol "WHEN" = false
  stop : stopLE2 d 14 fol = true
theorem arms_stop (cs : List (Expr × Expr)) (fol : List Tok) (hf : ArmsFol d fol) : stopLE2 d 14 (toksArms d ch cs ++ fol) = true := by
  cases cs with
  | nil => simpa [toksArms] using hf.stop
  | cons p r => obtain ⟨w, t⟩ := p; simp only [toksArms, List.cons_append]; exact (case_stops _).1
theorem whens_ok (fol : List Tok) (hf : ArmsFol d fol) : ∀ (cs : List (Expr × Expr)), (∀ p ∈ cs, RT2 d ch p.1 ∧ RT2 d ch p.2) → ∀ acc,
    OkAt (fun f => pWhens d f acc (toksArms d ch cs ++ fol)) (20 * sizeL (toksArms d ch cs) + 17) (acc ++ cs, fol) := by
  obtain ⟨_, kT, _, kW, _⟩ := case_words
  intro cs
  induction cs with
  | nil =>
    intro _ acc f hf'
    obtain ⟨g, rfl⟩ : ∃ g, f = g + 1 := ⟨f - 1, by omega⟩
    simp [toksArms, pWhens, moveStrUp, hf.noWhen]
  | cons p r ih =>
    obtain ⟨w, t⟩ := p
    intro hcs acc f hf'
    simp only [toksArms, sizeL_cons, sizeL_append, size_opTok] at hf'
    obtain ⟨g, rfl⟩ : ∃ g, f = g + 1 := ⟨f - 1, by omega⟩
    obtain ⟨hw, ht⟩ := hcs (w, t) (by simp)
    have h1 : pOr d g (W2 d ch w 14 ++ opTok "THEN" :: (W2 d ch t 14 ++ (toksArms d ch r ++ fol))) =
        .ok (w, opTok "THEN" :: (W2 d ch t 14 ++ (toksArms d ch r ++ fol))) :=
      (hw.at 14 (by omega)).s14 _ (case_stops _).2.1 g (by simp only [W2] at hf' ⊢; omega)
    have h2 : pOr d g (W2 d ch t 14 ++ (toksArms d ch r ++ fol)) = .ok (t, toksArms d ch r ++ fol) :=
      (ht.at 14 (by omega)).s14 _ (arms_stop r fol hf) g (by simp only [W2] at hf' ⊢; omega)
    have h3 := ih (fun p' hp' => hcs p' (by simp [hp'])) (acc ++ [(w, t)]) g (by omega)
    have hm : moveStrUp (opTok "WHEN" :: (W2 d ch w 14 ++ opTok "THEN" :: (W2 d ch t 14 ++ (toksArms d ch r ++ fol)))) "WHEN" =
        (true, W2 d ch w 14 ++ opTok "THEN" :: (W2 d ch t 14 ++ (toksArms d ch r ++ fol))) := by
      simp [moveStrUp, searchStrUp, kW]
    show pWhens d (g + 1) acc (toksArms d ch ((w, t) :: r) ++ fol) = _
    unfold pWhens
    simp only [toksArms, List.cons_append, List.append_assoc]
    simp only [W2] at hm h1 h2
    simp only [hm, if_true, h1, matchKw, kT, h2]
    simpa using h3

theorem elseEnd_ok (els : Option Expr) (hels : ∀ y, els = some y → RT2 d ch y) (rest : List Tok) :
    OkAt (fun f => pElseEnd d f (toksElse d ch els ++ opTok "END" :: rest)) (20 * sizeL (toksElse d ch els) + 17) (els, rest) := by
  obtain ⟨_, _, kE, _, kL, _, _, kEL, _⟩ := case_words
  intro f hf
  obtain ⟨g, rfl⟩ : ∃ g, f = g + 1 := ⟨f - 1, by omega⟩
  cases els with
  | none =>
    have : searchStrUp (opTok "END" :: rest) "ELSE" = false := by simpa [searchStrUp] using kEL
    simp [toksElse, pElseEnd, this, matchKw, kE]
  | some y =>
    simp only [toksElse, sizeL_cons, size_opTok] at hf
    have hs : searchStrUp (opTok "ELSE" :: (W2 d ch y 14 ++ opTok "END" :: rest)) "ELSE" = true := by simpa [searchStrUp] using kL
    have h1 : pOr d g (W2 d ch y 14 ++ opTok "END" :: rest) = .ok (y, opTok "END" :: rest) :=
      ((hels y rfl).at 14 (by omega)).s14 _ (case_stops _).2.2.2 g (by simp only [W2] at hf ⊢; omega)
    show pElseEnd d (g + 1) (toksElse d ch (some y) ++ opTok "END" :: rest) = _
    unfold pElseEnd
    simp only [toksElse, List.cons_append, List.append_assoc]
    simp only [W2] at hs h1
    simp [hs, h1, matchKw, kE]

theorem else_fol (els : Option Expr) (rest : List Tok) : ArmsFol d (toksElse d ch els ++ opTok "END" :: rest) := by
  obtain ⟨_, _, _, _, _, kLW, kEW, _⟩ := case_words
  cases els with
  | none => exact ⟨by simpa [toksElse, searchStrUp] using kEW, by simpa [toksElse] using (case_stops _).2.2.2⟩
  | some y => exact ⟨by simpa [toksElse, searchStrUp] using kLW, by simpa [toksElse] using (case_stops _).2.2.1⟩

/-- `CASE WHEN c THEN v … [ELSE w] END` -/
theorem full2_caseCond (cs : List (Expr × Expr)) (els : Option Expr) (hne : cs ≠ []) (hcs : ∀ p ∈ cs, RT2 d ch p.1 ∧ RT2 d ch p.2)
    (hels : ∀ y, els = some y → RT2 d ch y) :
    Full2 d (P2 d) 2 0 (opTok "CASE" :: (toksArms d ch cs ++ (toksElse d ch els ++ [opTok "END"]))) (.caseCond cs els) := by
  obtain ⟨kC, _, _, kW, _, _, _, _, cL, cP, cC⟩ := case_words
  intro rest hr f hf
  simp only [sizeL_cons, sizeL_append, size_opTok, sizeL] at hf
  obtain ⟨g, rfl⟩ : ∃ g, f = g + 3 := ⟨f - 3, by omega⟩
  have h1 := whens_ok (ch := ch) _ (else_fol (ch := ch) els rest) cs hcs [] g (by omega)
  have h2 := elseEnd_ok els hels rest g (by omega)
  simp only [List.nil_append] at h1 h2
  have hW : searchStrUp (toksArms d ch cs ++ (toksElse d ch els ++ opTok "END" :: rest)) "WHEN" = true := by
    cases cs with
    | nil => exact absurd rfl hne
    | cons p r => obtain ⟨w, t⟩ := p; simp [toksArms, searchStrUp, kW]
  show pUnary d (g + 3) (opTok "CASE" :: (toksArms d ch cs ++ (toksElse d ch els ++ [opTok "END"])) ++ rest) = _
  unfold pUnary
  simp only [List.cons_append, List.append_assoc, List.singleton_append, List.nil_append, case_unary, Bool.false_eq_true, if_false]
  unfold pElement
  simp only [cL, cP, cC, Bool.false_eq_true, if_false, if_true]
  unfold pCase
  simp only [matchKw, kC, if_true, hW, h1, h2]

/-- `CASE x WHEN a THEN v … [ELSE w] END` -/
theorem full2_caseVal (v : Expr) (cs : List (Expr × Expr)) (els : Option Expr) (hne : cs ≠ []) (hv : RT2 d ch v)
    (hcs : ∀ p ∈ cs, RT2 d ch p.1 ∧ RT2 d ch p.2) (hels : ∀ y, els = some y → RT2 d ch y) :
    Full2 d (P2 d) 2 0 (opTok "CASE" :: (W2 d ch v 14 ++ (toksArms d ch cs ++ (toksElse d ch els ++ [opTok "END"])))) (.caseVal v cs els) := by
  obtain ⟨kC, _, _, kW, _, _, _, _, cL, cP, cC⟩ := case_words
  intro rest hr f hf
  simp only [sizeL_cons, sizeL_append, size_opTok, sizeL] at hf
  obtain ⟨g, rfl⟩ : ∃ g, f = g + 3 := ⟨f - 3, by omega⟩
  have h0 : pOr d g (W2 d ch v 14 ++ (toksArms d ch cs ++ (toksElse d ch els ++ opTok "END" :: rest))) =
      .ok (v, toksArms d ch cs ++ (toksElse d ch els ++ opTok "END" :: rest)) :=
    (hv.at 14 (by omega)).s14 _ (arms_stop cs _ (else_fol (ch := ch) els rest)) g (by omega)
  have h1 := whens_ok (ch := ch) _ (else_fol (ch := ch) els rest) cs hcs [] g (by omega)
  have h2 := elseEnd_ok els hels rest g (by omega)
  simp only [List.nil_append] at h1 h2
  have hW : searchStrUp (W2 d ch v 14 ++ (toksArms d ch cs ++ (toksElse d ch els ++ opTok "END" :: rest))) "WHEN" = false := by
    obtain ⟨t, ts', hw, hh, _⟩ := hv.headW 14
    rw [hw]
    simp only [hdTok, Bool.and_eq_true, Bool.not_eq_true', List.contains_cons, List.contains_nil, Bool.or_false, Bool.or_eq_false_iff,
      beq_eq_false_iff_ne, ne_eq] at hh
    simpa [searchStrUp, Tok.srcEqUp] using hh.2.1
  show pUnary d (g + 3) (opTok "CASE" :: (W2 d ch v 14 ++ (toksArms d ch cs ++ (toksElse d ch els ++ [opTok "END"]))) ++ rest) = _
  unfold pUnary
  simp only [List.cons_append, List.append_assoc, List.singleton_append, List.nil_append, case_unary, Bool.false_eq_true, if_false]
  unfold pElement
  simp only [cL, cP, cC, Bool.false_eq_true, if_false, if_true]
  unfold pCase
  simp only [matchKw, kC, if_true, hW, Bool.false_eq_true, if_false, h0, h1, h2]

end TP2
