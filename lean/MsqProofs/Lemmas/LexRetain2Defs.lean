import MsqProofs.Lemmas.LexRetain
/-!
# Retention under every option setting (C04 d) — definitions

## Scanner side (independent of the lexer)

`Scan.classOf μ c nxt` — the CLASS of one character occurrence, from the structural scanner of `LexScan.lean` (modes:
quotes with their escapes, the three comment forms, bare tokens) and ONE character of look-ahead (a `-` directly
followed by `-`, a `/` directly followed by `*` open a comment):

* `bracket e` — a bracket character read as a bracket (event `e`: `opn` for `(` and `[`, `cls paren` for `)`,
  `cls slice` for `]`);
* `comment` — a character of a `# …`, `-- …` or `/* … */` comment (the line break that ends a line comment is NOT part
  of it);
* `blank`, `lbreak` — a blank / a line break between tokens (outside quotes and comments);
* `tok` — everything else.

`Scan.eraseM ig text` — the text with the characters of the classes ignored by `ig` REMOVED, every other character kept
in order, as a list of *marked* characters: `ch c` for a character kept as written, `ev e` for a bracket read as a
bracket.  `Scan.erase ig text` is its rendering with round brackets (`MC.round`: F-C04-2).

## Lexer side

`Lex.msrcL` — the rendering of a token list in the same marked alphabet (`AMTBase.source` with the brackets of a group
as events: `opn … cls k`).  `Lex.retCheck` — the finite table obligation of the simulation (see `LexRetain2.lean`).
-/
namespace Scan
open Lex Spec

/-- which classes of characters an option setting ignores -/
structure Ign where
  sp : Bool
  lb : Bool
  cm : Bool
  deriving DecidableEq, Repr

/-- `i = 4·IGNORE_SPACE + 2·IGNORE_LINEBREAK + IGNORE_COMMENT` -/
def Ign.ofBits (i : Nat) : Ign := ⟨ignoreSpace i, ignoreLinebreak i, ignoreComment i⟩

/-- the class of a character occurrence -/
inductive CC | blank | lbreak | comment | bracket (e : Ev) | tok
  deriving DecidableEq, Repr

/-- the scanner is inside a comment -/
def inCm : Mode → Bool
  | .LC | .BC | .BCS => true
  | _ => false

/-- the scanner has just read a lone `-` (`/`) and the next character is `-` (`*`): a comment opens -/
def opensCm (μ : Mode) (nxt : Option Nat) : Bool :=
  (μ == .D && nxt == some '-'.toNat) || (μ == .SL && nxt == some '*'.toNat)

/-- class of the character with (normalised) code `c` read in mode `μ`, the next character being `nxt` -/
def classOf (μ : Mode) (c : Nat) (nxt : Option Nat) : CC :=
  let r := step μ c
  match r.2 with
  | e :: _ => .bracket e
  | [] =>
    if inCm r.1 || (μ == .BCS && c =ᶜ '/') || opensCm r.1 nxt then .comment
    else if c =ᶜ ' ' && r.1 == .N then .blank
    else if c =ᶜ '\n' && r.1 == .N then .lbreak
    else .tok

/-- a marked character: kept as written, or a bracket that was read as a bracket -/
inductive MC | ch (c : Char) | ev (e : Ev)
  deriving DecidableEq, Repr

/-- rendering of a marked character: brackets in ROUND form whatever their kind (F-C04-2) -/
def MC.round : MC → Char
  | .ch c => c
  | .ev .opn => '('
  | .ev (.cls _) => ')'

def MC.ev? : MC → Option Ev
  | .ev e => some e
  | .ch _ => none

def MC.ch? : MC → Option Char
  | .ch c => some c
  | .ev _ => none

/-- the setting ignores the class -/
def Ign.drops (ig : Ign) : CC → Bool
  | .blank => ig.sp
  | .lbreak => ig.lb
  | .comment => ig.cm
  | _ => false

/-- what becomes of a character of a class: removed, kept as written, or kept as a bracket event -/
inductive OutK | none | keep | ev (e : Ev)
  deriving DecidableEq, Repr

def outK (ig : Ign) : CC → OutK
  | .bracket e => .ev e
  | k => if ig.drops k then .none else .keep

def OutK.out (c : Char) : OutK → List MC
  | .none => []
  | .keep => [.ch c]
  | .ev e => [.ev e]

/-- the (normalised) code of the character that follows: the head of `cs`, or `fin` at its end -/
def nxtOf (cs : List Char) (fin : Option Nat) : Option Nat :=
  match cs with
  | [] => fin
  | d :: _ => some (norm d.toNat)

/-- classes of the characters of a text read from mode `μ` (`fin`: what follows the text) -/
def classesA : Mode → List Char → Option Nat → List CC
  | _, [], _ => []
  | μ, c :: cs, fin => classOf μ (norm c.toNat) (nxtOf cs fin) :: classesA (step μ (norm c.toNat)).1 cs fin

/-- **the classes of the characters of a text** -/
def classes (text : List Char) : List CC := classesA .N text none

/-- erasure from mode `μ` (`fin`: what follows the text) -/
def eraseA (ig : Ign) : Mode → List Char → Option Nat → List MC
  | _, [], _ => []
  | μ, c :: cs, fin =>
    (outK ig (classOf μ (norm c.toNat) (nxtOf cs fin))).out c ++ eraseA ig (step μ (norm c.toNat)).1 cs fin

/-- **the text with the ignored classes removed**, marked -/
def eraseM (ig : Ign) (text : List Char) : List MC := eraseA ig .N text none

/-- … rendered: brackets that were read as brackets in round form -/
def erase (ig : Ign) (text : List Char) : List Char := (eraseM ig text).map MC.round

/-- `eraseM` is a filter on the classified text: a character is removed iff its class is ignored -/
theorem eraseA_eq_classes (ig : Ign) (μ : Mode) (t : List Char) (fin : Option Nat) :
    eraseA ig μ t fin = ((t.zip (classesA μ t fin)).map fun p => (outK ig p.2).out p.1).flatten := by
  induction t generalizing μ with
  | nil => rfl
  | cons c cs ih => simp [eraseA, classesA, ih]

theorem classesA_length (μ : Mode) (t : List Char) (fin : Option Nat) : (classesA μ t fin).length = t.length := by
  induction t generalizing μ with
  | nil => rfl
  | cons c cs ih => simp [classesA, ih]

/-- the look-ahead only matters through "is `-`" / "is `*`" -/
def canonNx : Option Nat → Option Nat
  | some n => if n = 45 then some 45 else if n = 42 then some 42 else some 97
  | none => some 97

def lookaheads : List (Option Nat) := [some 45, some 42, some 97]

theorem canonNx_mem (nx : Option Nat) : canonNx nx ∈ lookaheads := by
  cases nx with
  | none => simp [canonNx, lookaheads]
  | some n =>
    simp only [canonNx, lookaheads]
    by_cases h1 : n = 45
    · simp [h1]
    · by_cases h2 : n = 42
      · simp [h2]
      · simp [h1, h2]

theorem opensCm_canon (μ : Mode) (nx : Option Nat) : opensCm μ nx = opensCm μ (canonNx nx) := by
  have e45 : '-'.toNat = 45 := rfl
  have e42 : '*'.toNat = 42 := rfl
  cases nx with
  | none => simp [opensCm, canonNx]
  | some n =>
    simp only [opensCm, canonNx, e45, e42]
    by_cases h1 : n = 45
    · simp [h1]
    · by_cases h2 : n = 42
      · simp [h2]
      · simp [h1, h2]

theorem classOf_canon (μ : Mode) (c : Nat) (nx : Option Nat) : classOf μ c nx = classOf μ c (canonNx nx) := by
  simp only [classOf, ← opensCm_canon]

/-- `classOf` with the scanner's step passed in (the table obligation evaluates the step once per cell) -/
def classOfR (r : Mode × List Ev) (μ : Mode) (c : Nat) (nxt : Option Nat) : CC :=
  match r.2 with
  | e :: _ => .bracket e
  | [] =>
    if inCm r.1 || (μ == .BCS && c =ᶜ '/') || opensCm r.1 nxt then .comment
    else if c =ᶜ ' ' && r.1 == .N then .blank
    else if c =ᶜ '\n' && r.1 == .N then .lbreak
    else .tok

theorem classOf_eq (μ : Mode) (c : Nat) (nxt : Option Nat) : classOf μ c nxt = classOfR (step μ c) μ c nxt := rfl

/-- the pending window is (going to be) erased: comments are ignored, and the scanner is inside a comment or has just
read its first character -/
def pd (ig : Ign) (μ : Mode) (nxt : Option Nat) : Bool := ig.cm && (inCm μ || opensCm μ nxt)

theorem pd_canon (ig : Ign) (μ : Mode) (nx : Option Nat) : pd ig μ nx = pd ig μ (canonNx nx) := by
  simp only [pd, ← opensCm_canon]

end Scan

namespace Lex
open Scan Spec

mutual
/-- `AMTBase.source` in the marked alphabet: the brackets of a group are the events `opn … cls k` -/
def Tok.msrc : Tok → List MC
  | .single s _ => s.map .ch
  | .group k cs _ => .ev .opn :: (msrcL cs ++ [.ev (.cls k)])
def msrcL : List Tok → List MC
  | [] => []
  | t :: ts => Tok.msrc t ++ msrcL ts
end

/-- marked rendering of a frame stack (innermost frame first): one `opn` per open frame -/
def mrendS : List (List Tok) → List MC
  | [] => []
  | [f] => msrcL f
  | f :: g :: rest => mrendS (g :: rest) ++ .ev .opn :: msrcL f

/-- what an operation does to window and rendering -/
inductive Act | keep | emit | drop | br (e : Ev) | bad
  deriving DecidableEq, Repr

def actOf (sm : Summary) : Act :=
  match sm.body, sm.grp with
  | .keep, .none => .keep
  | .emit _, .none => .emit
  | .drop, .none => .drop
  | .drop, .push => .br .opn
  | .drop, .pop k _ => .br (.cls k)
  | _, _ => .bad

/-- next status, retry flag, advance flag and action of an operation (`none`: no cell, or the cell raises) -/
def hInfoOp (cfg : Cfg Gen.Cls) (s : S) : Option (OpRef Gen.Cls) → Option (S × Bool × Bool × Act)
  | none => none
  | some o =>
    match summarize (cfg.code o.cls) with
    | none => none
    | some sm => if sm.raises then none else some (sm.st.resolve o.status s, sm.ret, sm.adv, actOf sm)

/-- `lookupN`, written with the recursor of lists: the kernel evaluates it several times faster than the compiled
structural recursion of `List.find?` (the obligation does some 200 000 row steps) -/
noncomputable def lookupF (cfg : Cfg Gen.Cls) (s : S) (c : Nat) : Option Op :=
  @List.rec (Nat × Op) (fun _ => Option Op) (cfg.dflt s) (fun e _ ih => cond (Nat.beq e.1 c) (some e.2) ih) (cfg.rows s)

theorem lookupF_eq (cfg : Cfg Gen.Cls) (s : S) (c : Nat) : lookupF cfg s c = lookupN cfg s c := by
  unfold lookupF lookupN
  induction cfg.rows s with
  | nil => rfl
  | cons e es ih =>
    simp only [List.find?_cons]
    cases h : Nat.beq e.1 c with
    | true => simp
    | false => simpa using ih

noncomputable def hInfo (cfg : Cfg Gen.Cls) (s : S) (n : Nat) : Option (S × Bool × Bool × Act) :=
  hInfoOp cfg s (lookupF cfg s n)

/-- an advancing operation on a character whose fate is `o`; `d` / `d'`: the pending window is erased before / after;
`empty`: the window is known to be empty -/
def stepOK (empty : Bool) (a : Act) (d d' : Bool) (o : OutK) : Bool :=
  match a with
  | .keep => (d == d' || empty) && o == (if d' then .none else .keep)
  | .emit => (!d || empty) && o == .keep
  | .drop => (d || empty) && o == .none
  | .br e => empty && o == .ev e
  | .bad => false

/-- a first, non-advancing operation; the result says whether the window is known to be empty afterwards -/
def firstOK (empty : Bool) (a : Act) (d : Bool) : Option Bool :=
  match a with
  | .keep => some empty
  | .emit => if !d || empty then some true else none
  | .drop => if d || empty then some true else none
  | _ => none

/-- one character (code `n`) in state `s`, scanner mode `μ`, with the driver's retry, for every look-ahead -/
noncomputable def cellOK (ig : Ign) (cfg : Cfg Gen.Cls) (s : S) (μ : Mode) (n : Nat) : Bool :=
  match hInfo cfg s n with
  | none => true
  | some (s1, ret1, adv1, a1) =>
    let d := pd ig μ (some n)
    let μ' := (step μ n).1
    if ret1 then
      adv1 && lookaheads.all fun nx => stepOK (isEmptySt cfg s) a1 d (pd ig μ' nx) (outK ig (classOf μ n nx))
    else
      !adv1 &&
      match firstOK (isEmptySt cfg s) a1 d with
      | none => false
      | some e1 =>
        match hInfo cfg s1 n with
        | none => true
        | some (_, _, adv2, a2) =>
          adv2 && lookaheads.all fun nx =>
            stepOK (e1 || isEmptySt cfg s1) a2 d (pd ig μ' nx) (outK ig (classOf μ n nx))

/-- the end of the text in state `s`, scanner mode `μ` -/
def eofOK2 (ig : Ign) (cfg : Cfg Gen.Cls) (s : S) (μ : Mode) : Bool :=
  match hInfoOp cfg s (cfg.atEnd s) with
  | none => true
  | some (_, _, adv, a) =>
    !adv &&
    match a with
    | .keep | .emit => !pd ig μ none || isEmptySt cfg s
    | .drop => pd ig μ none || isEmptySt cfg s
    | _ => false

/-- **the finite table obligation**: on every cell that does not raise, what the operation(s) do to the window —
extend it, emit it as a token, drop it, open / close a group — is what the classification of the structural scanner
prescribes for setting `ig`: characters of ignored classes are dropped, every other character ends up in a token (or
is a bracket that opens / closes a group), in order. -/
noncomputable def retCheck (ig : Ign) (cfg : Cfg Gen.Cls) : Bool :=
  allS.all fun s => (rho s).all fun μ =>
    ((other :: ascii).all fun n => cellOK ig cfg s μ n) && eofOK2 ig cfg s μ

/-! ## the same obligation, arranged for the kernel: the scanner's step is evaluated once per cell -/

noncomputable def cellOKF (ig : Ign) (cfg : Cfg Gen.Cls) (s : S) (μ : Mode) (n : Nat) : Bool :=
  match hInfo cfg s n with
  | none => true
  | some (s1, ret1, adv1, a1) =>
    match step μ n with
    | (μ', evs) =>
      let d := pd ig μ (some n)
      if ret1 then
        adv1 && lookaheads.all fun nx =>
          stepOK (isEmptySt cfg s) a1 d (pd ig μ' nx) (outK ig (classOfR (μ', evs) μ n nx))
      else
        !adv1 &&
        match firstOK (isEmptySt cfg s) a1 d with
        | none => false
        | some e1 =>
          match hInfo cfg s1 n with
          | none => true
          | some (_, _, adv2, a2) =>
            adv2 && lookaheads.all fun nx =>
              stepOK (e1 || isEmptySt cfg s1) a2 d (pd ig μ' nx) (outK ig (classOfR (μ', evs) μ n nx))

theorem cellOKF_eq (ig : Ign) (cfg : Cfg Gen.Cls) (s : S) (μ : Mode) (n : Nat) :
    cellOKF ig cfg s μ n = cellOK ig cfg s μ n := by
  unfold cellOKF cellOK
  cases hInfo cfg s n with
  | none => rfl
  | some x => rfl

noncomputable def retCheckF (ig : Ign) (cfg : Cfg Gen.Cls) : Bool :=
  allS.all fun s => (rho s).all fun μ =>
    ((other :: ascii).all fun n => cellOKF ig cfg s μ n) && eofOK2 ig cfg s μ

theorem retCheckF_eq (ig : Ign) (cfg : Cfg Gen.Cls) : retCheckF ig cfg = retCheck ig cfg := by
  simp only [retCheckF, retCheck, cellOKF_eq]

end Lex
