import MsqProofs.Lemmas.ParseKCase5
import MsqProofs.Lemmas.ParseKCase4
/-! DERIVED by tools/gen_kcase.py from ParseCase6.lean (identifier substitution `CE`→`KE`, `CER`→`KER`, `upAll`→`kmAll`) — C09, parser half, sharp form for reserved words -/

/-!
# C09, parser half — hand-written part 8: facts for the statement level
A word popped by `popSrc` is used by the DDL / DML parsers in three ways: stored as it is, stored after `unifyName` (back-quotes stripped),
or looked up in the compare-operator table: `ksrcRel` says that two popped words agree in all three.
-/
set_option linter.unusedSimpArgs false
set_option linter.unusedVariables false
open Lex Ast
namespace PM

/-- what two popped sources have in common -/
def ksrcRel (s s' : String) : Prop :=
  km s = km s' ∧ up s = up s' ∧ km (unifyName s) = km (unifyName s') ∧ up (unifyName s) = up (unifyName s') ∧ compareOp? s = compareOp? s'
@[simp, grind =] theorem ksrcRel_def (s s' : String) :
    ksrcRel s s' = (km s = km s' ∧ up s = up s' ∧ km (unifyName s) = km (unifyName s') ∧ up (unifyName s) = up (unifyName s') ∧ compareOp? s = compareOp? s') := rfl
theorem popSrc_ke2 : ∀ x0 y0, KEL x0 y0 → KER ksrcRel (popSrc x0) (popSrc y0) := by
  intro x0 y0 h
  cases x0 <;> cases y0 <;> simp_all [popSrc]
  exact ⟨ke_km_src h.1, ke_up_src h.1, ke_unifyName h.1, ke_up_unifyName h.1, ke_compareOp h.1⟩
grind_pattern popSrc_ke2 => popSrc x0, popSrc y0

@[grind =] theorem up_appendK (a b : String) : up (a ++ b) = up a ++ up b := up_append a b
/-- the look-up of the saving mode of a generated column, as a function of the upper-cased word alone -/
def genModeOfK (u : String) : Option (String × String) := Gen.genColSaveModes.find? (fun x => x.1 == u)
theorem genModes_findK (s : String) : Gen.genColSaveModes.find? (fun x => x.1 == up s) = genModeOfK (up s) := rfl

theorem emptyCreate_ke (t t' : TableName) (b : Bool) (h : kmTN t = kmTN t') : kmCR (emptyCreate t b) = kmCR (emptyCreate t' b) := by
  simp [emptyCreate, kmCR, h]
grind_pattern emptyCreate_ke => emptyCreate t b, emptyCreate t' b

/-- partition items `(expression, is non-dynamic)`: the flags are the same, the expressions related -/
theorem items_anyK {l l' : List (Expr × Bool)} (h : l.map (Prod.map kmE id) = l'.map (Prod.map kmE id)) (p : Bool → Bool) :
    (l.any fun i => p i.2) = (l'.any fun i => p i.2) := by
  induction l generalizing l' with
  | nil => cases l' <;> simp_all
  | cons a l ih =>
    cases l' with
    | nil => simp at h
    | cons a' l' =>
      obtain ⟨e, b⟩ := a; obtain ⟨e', b'⟩ := a'
      simp [Prod.map] at h
      simp only [List.any_cons, ih h.2, h.1.2]
theorem items_any_sndK {l l' : List (Expr × Bool)} (h : ceq (List.map (Prod.map kmE id)) l l') :
    (l.any (·.2)) = (l'.any (·.2)) ∧ (l.any fun i => !i.2) = (l'.any fun i => !i.2) :=
  ⟨items_anyK h id, items_anyK h (!·)⟩
grind_pattern items_any_sndK => ceq (List.map (Prod.map kmE id)) l l'
theorem items_fstK {l l' : List (Expr × Bool)} (h : ceq (List.map (Prod.map kmE id)) l l') :
    (l.map (·.1)).map kmE = (l'.map (·.1)).map kmE := by
  have := congrArg (List.map Prod.fst) h
  simpa [List.map_map, Function.comp_def, Prod.map] using this
grind_pattern items_fstK => ceq (List.map (Prod.map kmE id)) l l'

end PM
