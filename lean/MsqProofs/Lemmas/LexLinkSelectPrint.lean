import MsqProofs.Lemmas.LexLinkSelect
/-!
# The lexer link for the single SELECT, printer side

`clauses d s` lists the lines the SELECT printer writes for a fragment SELECT — as character lists — each paired with
the tokens `TS.toksS` renders it to; `prSL d s` joins the lines with line breaks.  `lx_prS`: each line lexes to its
tokens (`Lx`), hence the whole text lexes to `toksS d s`.  `LeafS d s` collects the leaf hypotheses: `LexLink.Leaf` on
every expression, plain non-keyword aliases, back-quote-free table names.
-/
set_option linter.unusedVariables false
set_option linter.unusedSimpArgs false
namespace LexLink
open Lex Spec C05 C06 C09 Ast TP TS

/-! ## leaf hypotheses -/

/-- an alias the printer prints bare: a plain name that is no word of the keyword table (exactly the hypothesis of
`TS.aliasOK_of_plain`) -/
def aliasLex (a : String) : Prop := PR.isPlainName a = true ∧ Gen.wordMarks.any (·.1 == Gen.pyUpperS a) = false
def optAliasLex : Option String → Prop
  | none => True
  | some a => aliasLex a
/-- a table name without back-quote and without a character the lexer's pre-pass rewrites (true of every plain name) -/
def nameLex (n : String) : Prop := ∀ x ∈ n.toList, x ≠ '`' ∧ plain x = true
def tableLex : FromTable → Prop
  | .mk t a => nameLex (tblName t) ∧ optAliasLex a
def ruleLeaf (d : Gen.D) : Option JoinRule → Prop
  | some (.on e) => Leaf d e
  | _ => True
def joinLex (d : Gen.D) : Join → Prop
  | .mk _ t rule => tableLex t ∧ ruleLeaf d rule
def optLeaf (d : Gen.D) : Option Expr → Prop
  | some e => Leaf d e
  | none => True
def groupLeaf (d : Gen.D) : Option GroupBy → Prop
  | some (.mk cols _ _ _) => ∀ e ∈ cols, Leaf d e
  | none => True
def ordLeaf (d : Gen.D) : OrderItem → Prop
  | .mk e _ _ _ => Leaf d e
def orderLeaf (d : Gen.D) : Option (List OrderItem) → Prop
  | some l => ∀ o ∈ l, ordLeaf d o
  | none => True
def LeafS (d : Gen.D) : Select → Prop
  | .mk _ _ cols fr _ js wh gb hv ob _ _ _ _ =>
    (∀ c ∈ cols, Leaf d c.1 ∧ optAliasLex c.2) ∧ (∀ l, fr = some l → ∀ t ∈ l, tableLex t) ∧ (∀ j ∈ js, joinLex d j) ∧
      optLeaf d wh ∧ groupLeaf d gb ∧ optLeaf d hv ∧ orderLeaf d ob

/-! ## text pieces -/

/-- `sep.join(parts)` on character lists -/
def joinLL (sep : List Char) : List (List Char) → List Char
  | [] => []
  | [a] => a
  | a :: b :: r => a ++ sep ++ joinLL sep (b :: r)

def aliasL : Option String → List Char
  | none => []
  | some a => " AS ".toList ++ a.toList
def colL (d : Gen.D) (c : Expr × Option String) : List Char := prEL d c.1 ++ aliasL c.2
def tableL : FromTable → List Char
  | .mk t a => '`' :: ((tblName t).toList ++ ['`']) ++ aliasL a
def ruleL (d : Gen.D) : Option JoinRule → List Char
  | some (.on e) => " ON ".toList ++ prEL d e
  | _ => []
def joinWordsL (ty : String) : List Char :=
  match Gen.joinTypes.find? (·.1 == ty) with | some e => joinLL [' '] (e.2.map String.toList) | none => []
def keyL (d : Gen.D) (e : Expr) : List Char := wrapL e 8 (prEL d e)
def ordItemL (d : Gen.D) : OrderItem → List Char
  | .mk e desc _ _ => keyL d e ++ (if desc then " DESC".toList else [])

abbrev Clause := List Char × List Tok

def selC (d : Gen.D) (dist : Bool) (c : Expr × Option String) (cs : List (Expr × Option String)) : Clause :=
  ("SELECT".toList ++ ' ' :: ((if dist then "DISTINCT ".toList else []) ++ joinLL [',', ' '] ((c :: cs).map (colL d))),
   opTok "SELECT" :: ((if dist then [opTok "DISTINCT"] else []) ++ (toksCol d c ++ toksColsTail d cs)))
def fromC : Option (List FromTable) → List Clause
  | some (t :: ts) => [("FROM".toList ++ ' ' :: joinLL [',', ' '] ((t :: ts).map tableL), opTok "FROM" :: (toksTable t ++ toksTablesTail ts))]
  | _ => []
def joinC (d : Gen.D) : Join → Clause
  | .mk ty t rule => (joinWordsL ty ++ ' ' :: (tableL t ++ ruleL d rule), joinWords ty ++ (toksTable t ++ toksRule d rule))
def optC (d : Gen.D) (kw : String) : Option Expr → List Clause
  | some e => [(kw.toList ++ ' ' :: prEL d e, opTok kw :: toksE d noX e)]
  | none => []
def groupC (d : Gen.D) : Option GroupBy → List Clause
  | some (.mk (e :: es) _ _ _) =>
    [("GROUP BY".toList ++ ' ' :: joinLL [',', ' '] ((e :: es).map (keyL d)), opTok "GROUP" :: opTok "BY" :: (W d noX e 8 ++ toksKeysTail d es))]
  | _ => []
def orderC (d : Gen.D) : Option (List OrderItem) → List Clause
  | some (o :: os) =>
    [("ORDER BY".toList ++ ' ' :: joinLL [',', ' '] ((o :: os).map (ordItemL d)), opTok "ORDER" :: opTok "BY" :: (toksOrdItem d o ++ toksOrdTail d os))]
  | _ => []
def limitC : Option (Int × Option Int) → List Clause
  | some (n, none) => [("LIMIT".toList ++ ' ' :: (toString n).toList, [opTok "LIMIT", intTok n])]
  | some (n, some m) =>
    [("LIMIT".toList ++ ' ' :: ((toString m).toList ++ ',' :: ' ' :: (toString n).toList), [opTok "LIMIT", intTok m, commaTok, intTok n])]
  | none => []

/-- the lines of the printed SELECT with their token renderings -/
def clauses (d : Gen.D) : Select → List Clause
  | .mk _ dist (c :: cs) fr _ js wh gb hv ob _ _ _ lm =>
    selC d dist c cs :: (fromC fr ++ (js.map (joinC d) ++ (optC d "WHERE" wh ++ (groupC d gb ++ (optC d "HAVING" hv ++ (orderC d ob ++ limitC lm))))))
  | _ => []

/-- **the text of a fragment SELECT** as the printer writes it -/
def prSL (d : Gen.D) (s : Select) : List Char := joinLL ['\n'] ((clauses d s).map (·.1))

theorem toksJoins_flat (d : Gen.D) (js : List Join) : toksJoins d js = ((js.map (joinC d)).map (·.2)).flatten := by
  induction js with
  | nil => rfl
  | cons j js ih => cases j; simp [toksJoins, toksJoin, joinC, ih]

/-- the token rendering is the concatenation of the clause renderings -/
theorem toksS_clauses (d : Gen.D) (s : Select) : toksS d s = ((clauses d s).map (·.2)).flatten := by
  obtain ⟨ws, dist, cols, fr, lats, js, wh, gb, hv, ob, sb, db, cb, lm⟩ := s
  cases cols with
  | nil => rfl
  | cons c cs =>
    have hf : toksFrom fr = ((fromC fr).map (·.2)).flatten := by
      cases fr with
      | none => rfl
      | some l => cases l <;> simp [toksFrom, fromC]
    have hw : ∀ kw o, toksOpt d kw o = ((optC d kw o).map (·.2)).flatten := by
      intro kw o; cases o <;> simp [toksOpt, optC]
    have hg : toksGroup d gb = ((groupC d gb).map (·.2)).flatten := by
      cases gb with
      | none => rfl
      | some g => obtain ⟨gc, a, b, c0⟩ := g; cases gc <;> simp [toksGroup, groupC]
    have ho : toksOrder d ob = ((orderC d ob).map (·.2)).flatten := by
      cases ob with
      | none => rfl
      | some l => cases l <;> simp [toksOrder, orderC]
    have hl : toksLimit lm = ((limitC lm).map (·.2)).flatten := by
      cases lm with
      | none => rfl
      | some p => obtain ⟨n, m⟩ := p; cases m <;> simp [toksLimit, limitC]
    simp only [toksS, clauses, toksRest, selC, List.map_cons, List.map_append, List.flatten_cons, List.flatten_append,
      ← hf, ← toksJoins_flat, ← hw, ← hg, ← ho, ← hl, List.cons_append, List.append_assoc]

/-! ## generic list lemmas -/

theorem lx_commaList {α : Type} (txt : α → List Char) (tk : α → List Tok) (tail : List α → List Tok)
    (h0 : tail [] = []) (h1 : ∀ x xs, tail (x :: xs) = commaTok :: (tk x ++ tail xs)) :
    ∀ (xs : List α) (x : α), Lx (txt x) (tk x) → (∀ y ∈ xs, Lx (txt y) (tk y)) →
      Lx (joinLL [',', ' '] ((x :: xs).map txt)) (tk x ++ tail xs) := by
  intro xs
  induction xs with
  | nil => intro x hx _; simpa [joinLL, h0] using hx
  | cons y ys ih =>
    intro x hx hall
    have := Lx.comma hx (ih y (hall y (by simp)) fun z hz => hall z (by simp [hz]))
    exact Lx.congr this (by simp [joinLL]) (by rw [h1])

theorem lx_lines : ∀ (ls : List Clause) (l : Clause), Lx l.1 l.2 → (∀ y ∈ ls, Lx y.1 y.2) →
    Lx (joinLL ['\n'] ((l :: ls).map (·.1))) (l.2 ++ ((ls.map (·.2)).flatten)) := by
  intro ls
  induction ls with
  | nil => intro l hl _; simpa [joinLL] using hl
  | cons y ys ih =>
    intro l hl hall
    have := Lx.line hl (ih y (hall y (by simp)) fun z hz => hall z (by simp [hz]))
    exact Lx.congr this (by simp [joinLL]) (by simp)

theorem lx_wordList : ∀ (ws : List String) (w : String), (∀ v ∈ w :: ws, Lx v.toList [opTok v]) →
    Lx (joinLL [' '] ((w :: ws).map String.toList)) ((w :: ws).map opTok) := by
  intro ws
  induction ws with
  | nil => intro w h; simpa [joinLL] using h w (by simp)
  | cons y ys ih =>
    intro w h
    have := Lx.sep (h w (by simp)) (ih y fun v hv => h v (by simp [hv]))
    exact Lx.congr this (by simp [joinLL]) (by simp)

/-! ## the pieces lex to their tokens -/

theorem isPlainName_plainL (a : String) : PR.isPlainName a = plainL a.toList := by
  unfold PR.isPlainName plainL
  cases a.toList <;> rfl

theorem lx_alias (a : String) (h : aliasLex a) : Lx a.toList [opTok a] := by
  rw [opTok_eq]; exact lx_plain a.toList (by rw [← isPlainName_plainL]; exact h.1)

theorem lx_withAlias {x : List Char} {tx : List Tok} (hx : Lx x tx) (a : Option String) (ha : optAliasLex a) :
    Lx (x ++ aliasL a) (tx ++ aliasToks a) := by
  cases a with
  | none => simpa [aliasL, aliasToks] using hx
  | some a =>
    have := Lx.sep hx (Lx.sep (lx_cw "AS" (by simp [clauseWords])) (lx_alias a ha))
    have e : (" AS " : String).toList = ' ' :: ("AS".toList ++ [' ']) := rfl
    exact Lx.congr this (by simp [aliasL, e]) (by simp [aliasToks])

theorem lx_table (t : FromTable) (h : tableLex t) : Lx (tableL t) (toksTable t) := by
  obtain ⟨r, a⟩ := t
  have := lx_withAlias (lx_name (tblName r).toList fun x hx => (h.1 x hx).1) a h.2
  exact Lx.congr this (by simp [tableL]) (by simp [toksTable, nameTok, Lex.NAME])

/-- a clause keyword followed by a text -/
theorem lx_kwThen (k : String) (hk : k ∈ clauseWords) {x : List Char} {tx : List Tok} (hx : Lx x tx) :
    Lx (k.toList ++ ' ' :: x) (opTok k :: tx) :=
  Lx.congr (Lx.sep (lx_cw k hk) hx) rfl (by simp)

theorem lx_selCol (d : Gen.D) (c : Expr × Option String) (hf : colOKS d c = true) (hl : Leaf d c.1 ∧ optAliasLex c.2) :
    Lx (colL d c) (toksCol d c) := by
  simp only [colOKS, Bool.and_eq_true] at hf
  exact lx_withAlias (lx_prE d (sz c.1) c.1 (Nat.le_refl _) hf.1 hl.1) c.2 hl.2

theorem lx_key (d : Gen.D) (e : Expr) (hf : Frag d e = true) (hl : Leaf d e) : Lx (keyL d e) (W d noX e 8) :=
  lx_wrap (lx_prE d (sz e) e (Nat.le_refl _) hf hl)

theorem lx_ordItem (d : Gen.D) (o : OrderItem) (hf : ordOK d o = true) (hl : ordLeaf d o) : Lx (ordItemL d o) (toksOrdItem d o) := by
  obtain ⟨e, desc, nf, nl⟩ := o
  simp only [ordOK, Bool.and_eq_true] at hf
  have hk := lx_key d e hf.1.1 hl
  cases desc with
  | false => simpa [ordItemL, toksOrdItem] using hk
  | true =>
    have := Lx.sep hk (lx_cw "DESC" (by simp [clauseWords]))
    have e1 : (" DESC" : String).toList = ' ' :: "DESC".toList := rfl
    exact Lx.congr this (by simp [ordItemL, e1]) (by simp [toksOrdItem])

theorem lx_joinWords (d : Gen.D) (ty : String) (h : joinTyOK d ty = true) : Lx (joinWordsL ty) (joinWords ty) := by
  cases hf : Gen.joinTypes.find? (·.1 == ty) with
  | none =>
    simp only [joinTyOK, joinWords, hf, Bool.and_eq_true] at h
    exact absurd h.2 (by simp)
  | some e =>
    have hm := List.mem_of_find?_eq_some hf
    have hw := (List.all_eq_true.mp join_words_lex) e hm
    simp only [List.all_eq_true] at hw
    simp only [joinWordsL, joinWords, hf]
    cases he : e.2 with
    | nil =>
      simp only [joinTyOK, joinWords, hf, he, List.map_nil, Bool.and_eq_true] at h
      exact absurd h.2 (by simp)
    | cons w ws =>
      refine lx_wordList ws w fun v hv => ?_
      rw [opTok_eq]; exact lx_of_is (hw v (by rw [he]; exact hv))

theorem lx_join (d : Gen.D) (j : Join) (hf : joinOK d j = true) (hl : joinLex d j) : Lx (joinC d j).1 (joinC d j).2 := by
  obtain ⟨ty, t, rule⟩ := j
  simp only [joinOK, Bool.and_eq_true] at hf
  have hw := lx_joinWords d ty hf.1.1
  have ht := lx_table t hl.1
  have htr : Lx (tableL t ++ ruleL d rule) (toksTable t ++ toksRule d rule) := by
    cases rule with
    | none => simpa [ruleL, toksRule] using ht
    | some r =>
      cases r with
      | on e =>
        have he := lx_prE d (sz e) e (Nat.le_refl _) hf.2 hl.2
        have := Lx.sep ht (lx_kwThen "ON" (by simp [clauseWords]) he)
        have e1 : (" ON " : String).toList = ' ' :: ("ON".toList ++ [' ']) := rfl
        exact Lx.congr this (by simp [ruleL, e1]) (by simp [toksRule])
      | «using» u => simp [ruleOK] at hf
  exact Lx.congr (Lx.sep hw htr) (by simp [joinC]) (by simp [joinC])

/-- **the link for the single SELECT, in context** -/
theorem lx_prS (d : Gen.D) (s : Select) (hs : FragS d s = true) (hl : LeafS d s) : Lx (prSL d s) (toksS d s) := by
  rw [toksS_clauses]
  obtain ⟨ws, dist, cols, fr, lats, js, wh, gb, hv, ob, sb, db, cb, lm⟩ := s
  cases ws with
  | none => simp [FragS] at hs
  | some w =>
  cases w with
  | cons a b => simp [FragS] at hs
  | nil =>
  cases cols with
  | nil => simp [FragS] at hs
  | cons c cs =>
  cases lats with
  | cons a b => simp [FragS] at hs
  | nil =>
  cases sb with
  | some a => simp [FragS] at hs
  | none =>
  cases db with
  | some a => simp [FragS] at hs
  | none =>
  cases cb with
  | some a => simp [FragS] at hs
  | none =>
  simp only [FragS, Bool.and_eq_true] at hs
  obtain ⟨⟨⟨⟨⟨⟨⟨⟨⟨hc, hcs⟩, _⟩, hfr⟩, hjs⟩, hwh⟩, hgb⟩, hhv⟩, hob⟩, hlm⟩ := hs
  obtain ⟨lc, lfr, ljs, lwh, lgb, lhv, lob⟩ := hl
  -- SELECT line
  have hcols : Lx (joinLL [',', ' '] ((c :: cs).map (colL d))) (toksCol d c ++ toksColsTail d cs) :=
    lx_commaList (colL d) (toksCol d) (toksColsTail d) rfl (fun _ _ => rfl) cs c (lx_selCol d c hc (lc c (by simp)))
      (fun y hy => lx_selCol d y ((List.all_eq_true.mp hcs) y hy) (lc y (by simp [hy])))
  have hsel : Lx (selC d dist c cs).1 (selC d dist c cs).2 := by
    cases dist with
    | false =>
      exact Lx.congr (lx_kwThen "SELECT" (by simp [clauseWords]) hcols) (by simp [selC]) (by simp [selC])
    | true =>
      have e1 : ("DISTINCT " : String).toList = "DISTINCT".toList ++ [' '] := rfl
      exact Lx.congr (lx_kwThen "SELECT" (by simp [clauseWords]) (lx_kwThen "DISTINCT" (by simp [clauseWords]) hcols))
        (by simp [selC, e1]) (by simp [selC])
  -- the other lines
  have hfrom : ∀ p ∈ fromC fr, Lx p.1 p.2 := by
    cases fr with
    | none => intro p hp; cases hp
    | some l =>
      cases l with
      | nil => intro p hp; cases hp
      | cons t ts =>
        simp only [fromOK, Bool.and_eq_true] at hfr
        intro p hp
        simp only [fromC, List.mem_singleton] at hp
        subst hp
        have := lx_commaList tableL toksTable toksTablesTail rfl (fun _ _ => rfl) ts t
          (lx_table t (lfr _ rfl t (by simp))) (fun y hy => lx_table y (lfr _ rfl y (by simp [hy])))
        exact lx_kwThen "FROM" (by simp [clauseWords]) this
  have hjoin : ∀ p ∈ js.map (joinC d), Lx p.1 p.2 := by
    intro p hp
    obtain ⟨j, hj, rfl⟩ := List.mem_map.mp hp
    exact lx_join d j ((List.all_eq_true.mp hjs) j hj) (ljs j hj)
  have hopt : ∀ (kw : String), kw ∈ clauseWords → ∀ (o : Option Expr), optFrag d o = true → optLeaf d o →
      ∀ p ∈ optC d kw o, Lx p.1 p.2 := by
    intro kw hkw o hf hlf p hp
    cases o with
    | none => cases hp
    | some e =>
      simp only [optC, List.mem_singleton] at hp
      subst hp
      exact lx_kwThen kw hkw (lx_prE d (sz e) e (Nat.le_refl _) hf hlf)
  have hgroup : ∀ p ∈ groupC d gb, Lx p.1 p.2 := by
    cases gb with
    | none => intro p hp; cases hp
    | some g =>
      obtain ⟨gc, sets, cube, rollup⟩ := g
      cases gc with
      | nil => intro p hp; cases hp
      | cons e es =>
        cases sets with
        | some x => simp [groupOK] at hgb
        | none =>
        cases cube with
        | true => simp [groupOK] at hgb
        | false =>
        cases rollup with
        | true => simp [groupOK] at hgb
        | false =>
        simp only [groupOK, Bool.and_eq_true] at hgb
        intro p hp
        simp only [groupC, List.mem_singleton] at hp
        subst hp
        have := lx_commaList (keyL d) (fun e => W d noX e 8) (toksKeysTail d) rfl (fun _ _ => rfl) es e
          (lx_key d e hgb.1.1 (lgb e (by simp)))
          (fun y hy => lx_key d y ((List.all_eq_true.mp hgb.1.2) y hy) (lgb y (by simp [hy])))
        have e1 : ("GROUP BY" : String).toList = "GROUP".toList ++ ' ' :: "BY".toList := rfl
        exact Lx.congr (lx_kwThen "GROUP" (by simp [clauseWords]) (lx_kwThen "BY" (by simp [clauseWords]) this))
          (by simp [e1]) rfl
  have horder : ∀ p ∈ orderC d ob, Lx p.1 p.2 := by
    cases ob with
    | none => intro p hp; cases hp
    | some l =>
      cases l with
      | nil => intro p hp; cases hp
      | cons o os =>
        simp only [orderOK, Bool.and_eq_true] at hob
        intro p hp
        simp only [orderC, List.mem_singleton] at hp
        subst hp
        have := lx_commaList (ordItemL d) (toksOrdItem d) (toksOrdTail d) rfl (fun _ _ => rfl) os o
          (lx_ordItem d o hob.1 (lob o (by simp)))
          (fun y hy => lx_ordItem d y ((List.all_eq_true.mp hob.2) y hy) (lob y (by simp [hy])))
        have e1 : ("ORDER BY" : String).toList = "ORDER".toList ++ ' ' :: "BY".toList := rfl
        exact Lx.congr (lx_kwThen "ORDER" (by simp [clauseWords]) (lx_kwThen "BY" (by simp [clauseWords]) this))
          (by simp [e1]) rfl
  have hlimit : ∀ p ∈ limitC lm, Lx p.1 p.2 := by
    cases lm with
    | none => intro p hp; cases hp
    | some pr =>
      obtain ⟨n, m⟩ := pr
      cases m with
      | none =>
        simp only [limitOK, limOK, Bool.and_eq_true, decide_eq_true_eq] at hlm
        intro p hp
        simp only [limitC, List.mem_singleton] at hp
        subst hp
        exact lx_kwThen "LIMIT" (by simp [clauseWords]) (lx_intTok n hlm.1)
      | some m =>
        simp only [limitOK, limOK, Bool.and_eq_true, decide_eq_true_eq] at hlm
        intro p hp
        simp only [limitC, List.mem_singleton] at hp
        subst hp
        exact lx_kwThen "LIMIT" (by simp [clauseWords]) (Lx.comma (lx_intTok m hlm.2.1) (lx_intTok n hlm.1.1))
  have hall : ∀ y ∈ fromC fr ++ (js.map (joinC d) ++ (optC d "WHERE" wh ++ (groupC d gb ++ (optC d "HAVING" hv ++
      (orderC d ob ++ limitC lm))))), Lx y.1 y.2 := by
    intro y hy
    simp only [List.mem_append] at hy
    rcases hy with h | h | h | h | h | h | h
    · exact hfrom y h
    · exact hjoin y h
    · exact hopt "WHERE" (by simp [clauseWords]) wh hwh lwh y h
    · exact hgroup y h
    · exact hopt "HAVING" (by simp [clauseWords]) hv hhv lhv y h
    · exact horder y h
    · exact hlimit y h
  exact Lx.congr (lx_lines _ (selC d dist c cs) hsel hall) (by simp [prSL, clauses]) (by simp [clauses])

/-! ## the printed text is left alone by the lexer's pre-pass -/

abbrev allP (l : List Char) : Bool := l.all plain

theorem allP_joinLL (sep : List Char) (hs : allP sep = true) : ∀ (l : List (List Char)), (∀ x ∈ l, allP x = true) →
    allP (joinLL sep l) = true
  | [], _ => rfl
  | [a], h => h a (by simp)
  | a :: b :: r, h => by
    have := allP_joinLL sep hs (b :: r) fun x hx => h x (by simp [hx])
    simp only [joinLL, allP, List.all_append, Bool.and_eq_true] at this ⊢
    exact ⟨⟨h a (by simp), hs⟩, this⟩

theorem alnum_plain (c : Char) (h : alnumU c = true) : plain c = true := by
  have hc := alnumU_code c h
  have hne : ∀ k : Char, 127 < k.toNat ∨ k.toNat < 32 → k ≠ c := by
    intro k hk e; subst e
    have := hc.1
    simp only [alnumN, Bool.or_eq_true, Bool.and_eq_true, Nat.ble_eq, Nat.beq_eq] at this
    omega
  simp only [plain, Plain, Gen.preChain, List.all_cons, List.all_nil, Bool.and_true, Bool.and_eq_true, bne_iff_ne, ne_eq]
  exact ⟨hne _ (by decide), hne _ (by decide), hne _ (by decide)⟩

theorem plainL_allP (a : List Char) (h : plainL a = true) : allP a = true := by
  cases a with
  | nil => rfl
  | cons c r =>
    simp only [plainL, Bool.and_eq_true, List.all_eq_true] at h
    simp only [allP, List.all_cons, Bool.and_eq_true, List.all_eq_true]
    exact ⟨alnum_plain c (plainL_head c h.1), fun x hx => alnum_plain x (h.2 x hx)⟩

theorem clause_words_plain : clauseWords.all (fun k => allP k.toList) = true := by decide +kernel
theorem join_words_plain : Gen.joinTypes.all (fun e => e.2.all fun w => allP w.toList) = true := by decide +kernel

theorem allP_alias (a : Option String) (h : optAliasLex a) : allP (aliasL a) = true := by
  cases a with
  | none => rfl
  | some a =>
    have h1 : allP " AS ".toList = true := by decide +kernel
    have h2 := plainL_allP a.toList (by rw [← isPlainName_plainL]; exact h.1)
    simp only [aliasL, allP, List.all_append, Bool.and_eq_true] at h1 h2 ⊢
    exact ⟨h1, h2⟩

theorem allP_prEL (d : Gen.D) (e : Expr) (hf : Frag d e = true) (hl : Leaf d e) : allP (prEL d e) = true :=
  plain_prEL d (sz e) e (Nat.le_refl _) hf hl

theorem allP_key (d : Gen.D) (e : Expr) (hf : Frag d e = true) (hl : Leaf d e) : allP (keyL d e) = true := by
  have := allP_prEL d e hf hl
  have hp : plain '(' = true ∧ plain ')' = true := by decide
  unfold keyL wrapL
  split <;> simp_all [allP]

theorem allP_table (t : FromTable) (h : tableLex t) : allP (tableL t) = true := by
  obtain ⟨r, a⟩ := t
  have hq : plain '`' = true := by decide
  have ha := allP_alias a h.2
  have hn : allP (tblName r).toList = true := List.all_eq_true.mpr fun x hx => (h.1 x hx).2
  simp only [tableL, allP, List.all_cons, List.all_append, List.all_nil, Bool.and_true, Bool.and_eq_true] at ha hn ⊢
  exact ⟨⟨hq, hn, hq⟩, ha⟩

theorem allP_numeral (n : Int) (h : 0 ≤ n) : allP (toString n).toList = true :=
  List.all_eq_true.mpr fun x hx => digit_plain x ((toString_nonneg n h).2 x hx)

/-- every character of the printed SELECT is left alone by the lexer's pre-pass -/
theorem plain_prSL (d : Gen.D) (s : Select) (hs : FragS d s = true) (hl : LeafS d s) : allP (prSL d s) = true := by
  obtain ⟨ws, dist, cols, fr, lats, js, wh, gb, hv, ob, sb, db, cb, lm⟩ := s
  cases ws with
  | none => simp [FragS] at hs
  | some w =>
  cases w with
  | cons a b => simp [FragS] at hs
  | nil =>
  cases cols with
  | nil => simp [FragS] at hs
  | cons c cs =>
  cases lats with
  | cons a b => simp [FragS] at hs
  | nil =>
  cases sb with
  | some a => simp [FragS] at hs
  | none =>
  cases db with
  | some a => simp [FragS] at hs
  | none =>
  cases cb with
  | some a => simp [FragS] at hs
  | none =>
  simp only [FragS, Bool.and_eq_true] at hs
  obtain ⟨⟨⟨⟨⟨⟨⟨⟨⟨hc, hcs⟩, _⟩, hfr⟩, hjs⟩, hwh⟩, hgb⟩, hhv⟩, hob⟩, hlm⟩ := hs
  obtain ⟨lc, lfr, ljs, lwh, lgb, lhv, lob⟩ := hl
  have hcs2 : allP [',', ' '] = true := by decide
  have hb : plain ' ' = true := by decide
  have kw : ∀ k : String, k ∈ clauseWords → allP k.toList = true := fun k hk => (List.all_eq_true.mp clause_words_plain) k hk
  have kwThen : ∀ (k : String) (x : List Char), k ∈ clauseWords → allP x = true → allP (k.toList ++ ' ' :: x) = true := by
    intro k x hk hx
    have := kw k hk
    simp only [allP, List.all_append, List.all_cons, Bool.and_eq_true] at this hx ⊢
    exact ⟨this, hb, hx⟩
  have hcol : ∀ y ∈ c :: cs, allP (colL d y) = true := by
    intro y hy
    have hfy : colOKS d y = true := by
      rcases List.mem_cons.mp hy with rfl | h
      · exact hc
      · exact (List.all_eq_true.mp hcs) y h
    simp only [colOKS, Bool.and_eq_true] at hfy
    have h1 := allP_prEL d y.1 hfy.1 (lc y hy).1
    have h2 := allP_alias y.2 (lc y hy).2
    simp only [colL, allP, List.all_append, Bool.and_eq_true] at h1 h2 ⊢
    exact ⟨h1, h2⟩
  have hsel : allP (selC d dist c cs).1 = true := by
    have hcols := allP_joinLL [',', ' '] hcs2 ((c :: cs).map (colL d)) (by
      intro x hx; obtain ⟨y, hy, rfl⟩ := List.mem_map.mp hx; exact hcol y hy)
    cases dist with
    | false => exact kwThen "SELECT" _ (by simp [clauseWords]) (by simpa using hcols)
    | true =>
      have e1 : ("DISTINCT " : String).toList = "DISTINCT".toList ++ [' '] := rfl
      have := kwThen "SELECT" _ (by simp [clauseWords]) (kwThen "DISTINCT" _ (by simp [clauseWords]) hcols)
      simpa [selC, e1] using this
  have hlines : ∀ x ∈ (clauses d (.mk (some []) dist (c :: cs) fr [] js wh gb hv ob none none none lm)).map (·.1), allP x = true := by
    intro x hx
    simp only [clauses, List.map_cons, List.map_append, List.mem_cons, List.mem_append] at hx
    rcases hx with rfl | h | h | h | h | h | h | h
    · exact hsel
    · -- FROM
      cases fr with
      | none => simp [fromC] at h
      | some l =>
        cases l with
        | nil => simp [fromC] at h
        | cons t ts =>
          simp only [fromC, List.map_cons, List.map_nil, List.mem_singleton] at h
          subst h
          exact kwThen "FROM" _ (by simp [clauseWords]) (allP_joinLL _ hcs2 ((t :: ts).map tableL) (by
            intro x hx; obtain ⟨y, hy, rfl⟩ := List.mem_map.mp hx; exact allP_table y (lfr _ rfl y hy)))
    · -- JOINs
      simp only [List.map_map] at h
      obtain ⟨j, hj, rfl⟩ := List.mem_map.mp h
      obtain ⟨ty, t, rule⟩ := j
      have hjo := (List.all_eq_true.mp hjs) _ hj
      have hjl := ljs _ hj
      simp only [joinOK, Bool.and_eq_true] at hjo
      have hwds : allP (joinWordsL ty) = true := by
        unfold joinWordsL
        cases hf : Gen.joinTypes.find? (·.1 == ty) with
        | none => rfl
        | some e =>
          have hm := List.mem_of_find?_eq_some hf
          have hw := List.all_eq_true.mp ((List.all_eq_true.mp join_words_plain) e hm)
          exact allP_joinLL [' '] (by decide) _ (by
            intro x hx; obtain ⟨y, hy, rfl⟩ := List.mem_map.mp hx; exact hw y hy)
      have htb := allP_table t hjl.1
      have hru : allP (ruleL d rule) = true := by
        cases rule with
        | none => rfl
        | some r =>
          cases r with
          | on e =>
            have h1 : allP " ON ".toList = true := by decide +kernel
            have h2 := allP_prEL d e hjo.2 hjl.2
            simp only [ruleL, allP, List.all_append, Bool.and_eq_true] at h1 h2 ⊢
            exact ⟨h1, h2⟩
          | «using» u => simp [ruleOK] at hjo
      simp only [Function.comp, joinC, allP, List.all_append, List.all_cons, Bool.and_eq_true] at hwds htb hru ⊢
      exact ⟨hwds, hb, htb, hru⟩
    · cases wh with
      | none => simp [optC] at h
      | some e =>
        simp only [optC, List.map_cons, List.map_nil, List.mem_singleton] at h
        subst h
        exact kwThen "WHERE" _ (by simp [clauseWords]) (allP_prEL d e hwh lwh)
    · cases gb with
      | none => simp [groupC] at h
      | some g =>
        obtain ⟨gc, sets, cube, rollup⟩ := g
        cases gc with
        | nil => simp [groupC] at h
        | cons e es =>
          cases sets with
          | some x => simp [groupOK] at hgb
          | none =>
          cases cube with
          | true => simp [groupOK] at hgb
          | false =>
          cases rollup with
          | true => simp [groupOK] at hgb
          | false =>
          simp only [groupOK, Bool.and_eq_true] at hgb
          simp only [groupC, List.map_cons, List.map_nil, List.mem_singleton] at h
          subst h
          have e1 : ("GROUP BY" : String).toList = "GROUP".toList ++ ' ' :: "BY".toList := rfl
          have := kwThen "GROUP" _ (by simp [clauseWords]) (kwThen "BY" _ (by simp [clauseWords])
            (allP_joinLL _ hcs2 ((e :: es).map (keyL d)) (by
              intro x hx; obtain ⟨y, hy, rfl⟩ := List.mem_map.mp hx
              rcases List.mem_cons.mp hy with rfl | hy'
              · exact allP_key d _ hgb.1.1 (lgb _ (by simp))
              · exact allP_key d y ((List.all_eq_true.mp hgb.1.2) y hy') (lgb y (by simp [hy'])))))
          simpa [e1] using this
    · cases hv with
      | none => simp [optC] at h
      | some e =>
        simp only [optC, List.map_cons, List.map_nil, List.mem_singleton] at h
        subst h
        exact kwThen "HAVING" _ (by simp [clauseWords]) (allP_prEL d e hhv lhv)
    · cases ob with
      | none => simp [orderC] at h
      | some l =>
        cases l with
        | nil => simp [orderC] at h
        | cons o os =>
          simp only [orderOK, Bool.and_eq_true] at hob
          simp only [orderC, List.map_cons, List.map_nil, List.mem_singleton] at h
          subst h
          have hitem : ∀ y ∈ o :: os, allP (ordItemL d y) = true := by
            intro y hy
            have hfy : ordOK d y = true := by
              rcases List.mem_cons.mp hy with rfl | h'
              · exact hob.1
              · exact (List.all_eq_true.mp hob.2) y h'
            obtain ⟨e, desc, nf, nl⟩ := y
            simp only [ordOK, Bool.and_eq_true] at hfy
            have hk := allP_key d e hfy.1.1 (lob _ hy)
            have hd : allP " DESC".toList = true := by decide +kernel
            cases desc <;> simp_all [ordItemL, allP]
          have e1 : ("ORDER BY" : String).toList = "ORDER".toList ++ ' ' :: "BY".toList := rfl
          have := kwThen "ORDER" _ (by simp [clauseWords]) (kwThen "BY" _ (by simp [clauseWords])
            (allP_joinLL _ hcs2 ((o :: os).map (ordItemL d)) (by
              intro x hx; obtain ⟨y, hy, rfl⟩ := List.mem_map.mp hx; exact hitem y hy)))
          simpa [e1] using this
    · cases lm with
      | none => simp [limitC] at h
      | some pr =>
        obtain ⟨n, m⟩ := pr
        cases m with
        | none =>
          simp only [limitOK, limOK, Bool.and_eq_true, decide_eq_true_eq] at hlm
          simp only [limitC, List.map_cons, List.map_nil, List.mem_singleton] at h
          subst h
          exact kwThen "LIMIT" _ (by simp [clauseWords]) (allP_numeral n hlm.1)
        | some m =>
          simp only [limitOK, limOK, Bool.and_eq_true, decide_eq_true_eq] at hlm
          simp only [limitC, List.map_cons, List.map_nil, List.mem_singleton] at h
          subst h
          have h1 := allP_numeral m hlm.2.1
          have h2 := allP_numeral n hlm.1.1
          have hcm : plain ',' = true := by decide
          refine kwThen "LIMIT" _ (by simp [clauseWords]) ?_
          simp only [allP, List.all_append, List.all_cons, Bool.and_eq_true] at h1 h2 ⊢
          exact ⟨h1, hcm, hb, h2⟩
  exact allP_joinLL ['\n'] (by decide) _ hlines

end LexLink
