import MsqProofs.Lemmas.AnalyzeText
/-!
# The table tokens of a fragment rendering are the printed names of the specified table list (C14 on texts)

One `mutual` block of structurally recursive theorems, one per function of the token-level printer (`TQ.toksE3` … `TQ.toksOrder3`):
each piece of a rendering is walked over by the scanner `AT.tabL` and yields exactly the tokens of the tables the specification
(`Spec.tablesE` … `Spec.tablesS`) lists for that piece.
-/
set_option linter.unusedVariables false
set_option linter.unusedSimpArgs false
open Lex PM Ast TP TP2 TS TQ Spec
namespace AT
variable {d : Gen.D} (ch : Expr → Bool)

/-! ### table positions -/
/-- a piece at a table position (after `FROM`, `JOIN` or a comma of the FROM list) -/
structure RefOK (ts : List Tok) (l : List Tbl) : Prop where
  scan : ∀ fl rest, tabL (.expect fl) (ts ++ rest) = l.map tk ++ tabL (.after fl) rest
  ok : AllOK l
/-- the rest of a FROM list: `, ref [AS a]` repeated -/
structure TailOK (ts : List Tok) (l : List Tbl) : Prop where
  scan : ∀ rest, tabL (.after true) (ts ++ rest) = l.map tk ++ tabL (.after true) rest
  ok : AllOK l

theorem refT_tbl (s : Option String) (n : String) : refT (tblTok s n) = [tblTok s n] := by cases s <;> rfl
theorem idle_from (r : List Tok) : tabL .idle (opTok "FROM" :: r) = tabL (.expect true) r := by
  have : (opTok "FROM").equalsStr "FROM" = true := by decide
  simp [tabL, this]
theorem after_comma (r : List Tok) : tabL (.after true) (TS.commaTok :: r) = tabL (.expect true) r := by
  have h1 : TS.commaTok.equalsStr "AS" = false := by decide
  have h2 : TS.commaTok.equalsStr "," = true := by decide
  simp [tabL, h1, h2]
theorem hd_ON (r : List Tok) : hdOK (opTok "ON" :: r) = true := by
  have h1 : (opTok "ON").equalsStr "AS" = false := by decide
  have h2 : (opTok "ON").equalsStr "," = false := by decide
  simp [hdOK, h1, h2]

theorem TabOKH.pre {p b : List Tok} {y : List Tbl} (hp : ∀ rest, tabL .idle (p ++ rest) = tabL .idle rest) (hb : TabOKH b y) :
    TabOKH (p ++ b) y :=
  ⟨fun rest hr => by rw [List.append_assoc, hp, hb.scan rest hr], hb.ok⟩

/-! ### what a clause starts with -/
theorem hdp_joins (js : List Join) (h : joinsOK3 d js = true) : HdP (toksJoins3 d ch js) := by
  cases js with
  | nil => simp only [toksJoins3]; exact HdP.nil
  | cons j js =>
    cases j with
    | mk ty t rule =>
      simp only [joinsOK3, joinOK3, Bool.and_eq_true] at h
      simp only [toksJoins3, toksJoin3]
      intro rest _
      rw [List.append_assoc, List.append_assoc]
      exact (joinWords_facts h.1.1.1).2 _
theorem hdp_optE (kw : String) (h1 : (opTok kw).equalsStr "AS" = false) (h2 : (opTok kw).equalsStr "," = false) (e : Option Expr) :
    HdP (toksOptE3 d ch kw e) := by
  cases e with
  | none => simp only [toksOptE3]; exact HdP.nil
  | some e => simp only [toksOptE3]; exact HdP.cons h1 h2 _
theorem hdp_group (gb : Option GroupBy) : HdP (toksGroup3 d ch gb) := by
  cases gb with
  | none => simp only [toksGroup3]; exact HdP.nil
  | some g =>
    cases g with
    | mk cols sets cube rollup =>
      cases cols with
      | nil => simp only [toksGroup3]; exact HdP.nil
      | cons e es => simp only [toksGroup3]; exact HdP.cons (by decide) (by decide) _
theorem hdp_order (ob : Option (List OrderItem)) : HdP (toksOrder3 d ch ob) := by
  cases ob with
  | none => simp only [toksOrder3]; exact HdP.nil
  | some l =>
    cases l with
    | nil => simp only [toksOrder3]; exact HdP.nil
    | cons o os => simp only [toksOrder3]; exact HdP.cons (by decide) (by decide) _
theorem hdp_un (us : List (String × Select)) (h : FragUn d us = true) : HdP (toksUn d ch us) := by
  cases us with
  | nil => simp only [toksUn]; exact HdP.nil
  | cons p r =>
    obtain ⟨t, s⟩ := p
    simp only [FragUn, Bool.and_eq_true] at h
    simp only [toksUn]
    intro rest _
    rw [List.append_assoc]
    exact (unionWords_facts h.1.1).2 _

/-- the shape the fragment requires of a SELECT -/
theorem fragS3_shape {ws : Option (List WithTable)} {dist : Bool} {cols : List (Expr × Option String)} {fr : Option (List FromTable)}
    {lats : List Lateral} {js : List Join} {wh : Option Expr} {gb : Option GroupBy} {hv : Option Expr} {ob sb : Option (List OrderItem)}
    {db cb : Option (List Expr)} {lm : Option (Int × Option Int)}
    (h : FragS3 d (.mk ws dist cols fr lats js wh gb hv ob sb db cb lm) = true) :
    ws = some [] ∧ lats = [] ∧ sb = none ∧ db = none ∧ cb = none := by
  rcases ws with _ | _ | _ <;> rcases lats with _ | _ <;> rcases sb with _ | _ <;> rcases db with _ | _ <;> rcases cb with _ | _ <;>
    first | (simp [FragS3] at h; done) | exact ⟨rfl, rfl, rfl, rfl, rfl⟩

/-! ### the mutual induction -/
mutual
theorem tE : ∀ (e : Expr), FragE3 d e = true → TabOK (toksE3 d ch e) (tablesE e)
  | e, h => by
    cases e with
    | column t c =>
      cases t with
      | none => simp only [toksE3, tablesE]; exact TabOK.one (skip_name c)
      | some t => simp only [toksE3, tablesE]; exact TabOK.cons (skip_name t) (TabOK.cons sk_dot (TabOK.one (skip_name c)))
    | literal v => simp only [FragE3] at h; simp only [toksE3, tablesE]; exact TabOK.one (skip_lit v h)
    | wildcard t =>
      cases t with
      | none => simp only [toksE3, tablesE]; exact TabOK.one sk_star
      | some t =>
        simp only [FragE3, wildOK] at h
        simp only [toksE3, tablesE]
        exact TabOK.cons (skip_q t (nm_has h)) (TabOK.cons sk_dot (TabOK.one sk_star))
    | func s n ps =>
      simp only [FragE3, Bool.and_eq_true] at h
      have ha := (tArgs 14 ps h.2).grp
      have hq : Skip (qTok n) := by
        have h1 := h.1
        cases s with
        | none => simp only [fnOK, Bool.and_eq_true] at h1; exact skip_q n (nm_has h1.2.1)
        | some s => simp only [fnOK, Bool.and_eq_true] at h1; exact skip_q n (nm2_has h1.2.2)
      simp only [toksE3, tablesE]
      cases s with
      | none => exact (TabOK.cons hq ha).cast (by simp) rfl
      | some s => exact (TabOK.cons (skip_name s) (TabOK.cons sk_dot (TabOK.cons hq ha))).cast (by simp) rfl
    | agg n ps dist =>
      simp only [FragE3, aggOK, Bool.and_eq_true] at h
      simp only [toksE3, tablesE]
      exact (TabOK.cons (skip_agg n h.1.1.1) ((TabOK.ite dist (TabOK.one sk_DISTINCT)).app (tArgs 14 ps h.2)).grp).cast rfl (by simp)
    | caseCond cs els =>
      simp only [FragE3, Bool.and_eq_true] at h
      simp only [toksE3, tablesE]
      exact (TabOK.cons sk_CASE ((tArms cs h.1.1).app ((tElse els h.1.2).app (TabOK.one sk_END)))).cast rfl (by simp)
    | caseVal v cs els =>
      simp only [FragE3, Bool.and_eq_true] at h
      simp only [toksE3, tablesE]
      exact (TabOK.cons sk_CASE (((tE v h.1.1.1).wrap _ _ _).app ((tArms cs h.1.1.2).app ((tElse els h.1.2).app (TabOK.one sk_END))))).cast rfl
        (by simp)
    | subQuery q => simp only [FragE3] at h; simp only [toksE3, tablesE]; exact (tQ q h).grp
    | exists_ v => simp only [FragE3] at h; simp only [toksE3, tablesE]; exact TabOK.cons sk_EXISTS (tSub v h)
    | unary o e =>
      simp only [FragE3, Bool.and_eq_true] at h
      simp only [toksE3, tablesE]
      exact TabOK.cons (skip_cval o) ((tE e h.2).wrap _ _ _)
    | compute l o r =>
      simp only [FragE3, Bool.and_eq_true] at h
      simp only [toksE3, tablesE]
      exact ((tE l h.1.2).wrap _ _ _).app (TabOK.cons (skip_cval o) ((tE r h.2).wrap _ _ _))
    | kw k n l r =>
      simp only [FragE3, Bool.and_eq_true] at h
      have hr : TabOK (toksE3 d ch r) (tablesE r) := by
        have h2 := h.1.2
        by_cases hk : (k == KwKind.in_) = true
        · simp only [hk, if_true] at h2; exact tIn r h2
        · simp only [hk, if_false] at h2; exact tE r h2
      simp only [toksE3, tablesE]
      exact (((tE l h.1.1).wrap _ _ _).app ((tab_kwToks k n).app (hr.wrap _ _ _))).cast rfl (by simp)
    | between n b f t =>
      simp only [FragE3, Bool.and_eq_true] at h
      simp only [toksE3, tablesE]
      exact (((tE b h.1.1.1).wrap _ _ _).app ((TabOK.ite n (TabOK.one sk_NOT)).app (TabOK.cons sk_BETWEEN
        (((tE f h.1.1.2).wrap _ _ _).app (TabOK.cons sk_AND ((tE t h.1.2).wrap _ _ _)))))).cast rfl (by simp)
    | compare o l r =>
      simp only [FragE3, Bool.and_eq_true] at h
      simp only [toksE3, tablesE]
      exact ((tE l h.1.1.2).wrap _ _ _).app (TabOK.cons (skip_cmpVal o) ((tE r h.1.2).wrap _ _ _))
    | not_ e => simp only [FragE3] at h; simp only [toksE3, tablesE]; exact TabOK.cons sk_NOT ((tE e h).wrap _ _ _)
    | and_ l r =>
      simp only [FragE3, Bool.and_eq_true] at h
      simp only [toksE3, tablesE]
      exact ((tE l h.1).wrap _ _ _).app (TabOK.cons sk_AND ((tE r h.2).wrap _ _ _))
    | xor l r =>
      simp only [FragE3, Bool.and_eq_true] at h
      simp only [toksE3, tablesE]
      exact ((tE l h.1).wrap _ _ _).app (TabOK.cons sk_XOR ((tE r h.2).wrap _ _ _))
    | or_ l r =>
      simp only [FragE3, Bool.and_eq_true] at h
      simp only [toksE3, tablesE]
      exact ((tE l h.1).wrap _ _ _).app (TabOK.cons sk_OR ((tE r h.2).wrap _ _ _))
    | _ => simp [FragE3] at h
theorem tSub : ∀ (v : Expr), isSubQ d v = true → TabOK (toksE3 d ch v) (tablesE v)
  | v, h => by
    cases v with
    | subQuery q => simp only [isSubQ] at h; simp only [toksE3, tablesE]; exact (tQ q h).grp
    | _ => simp [isSubQ] at h
theorem tIn : ∀ (r : Expr), inRhs3 d r = true → TabOK (toksE3 d ch r) (tablesE r)
  | r, h => by
    cases r with
    | subQuery q => simp only [inRhs3] at h; simp only [toksE3, tablesE]; exact (tQ q h).grp
    | subValue vs =>
      simp only [inRhs3, Bool.and_eq_true] at h
      simp only [toksE3, tablesE]
      exact (tArgs 8 vs h.1.1).grp
    | _ => simp [inRhs3] at h
theorem tArgs (k : Nat) : ∀ (ps : List Expr), FragL3 d ps = true → TabOK (toksArgs3 d ch k ps) (tablesEs ps)
  | [], _ => by simp only [toksArgs3, tablesEs]; exact TabOK.nil
  | a :: as, h => by
    simp only [FragL3, Bool.and_eq_true] at h
    simp only [toksArgs3, tablesEs]
    exact ((tE a h.1).wrap _ _ _).app (tArgsTail k as h.2)
theorem tArgsTail (k : Nat) : ∀ (ps : List Expr), FragL3 d ps = true → TabOK (toksArgsTail3 d ch k ps) (tablesEs ps)
  | [], _ => by simp only [toksArgsTail3, tablesEs]; exact TabOK.nil
  | a :: as, h => by
    simp only [FragL3, Bool.and_eq_true] at h
    simp only [toksArgsTail3, tablesEs]
    exact TabOK.cons sk_comma2 (((tE a h.1).wrap _ _ _).app (tArgsTail k as h.2))
theorem tArms : ∀ (cs : List (Expr × Expr)), FragA3 d cs = true → TabOK (toksArms3 d ch cs) (tablesArms cs)
  | [], _ => by simp only [toksArms3, tablesArms]; exact TabOK.nil
  | (w, t) :: r, h => by
    simp only [FragA3, Bool.and_eq_true] at h
    simp only [toksArms3, tablesArms]
    exact (TabOK.cons sk_WHEN (((tE w h.1.1).wrap _ _ _).app (TabOK.cons sk_THEN (((tE t h.1.2).wrap _ _ _).app (tArms r h.2))))).cast rfl
      (by simp)
theorem tElse : ∀ (y : Option Expr), FragO3 d y = true → TabOK (toksElse3 d ch y) (tablesOE y)
  | none, _ => by simp only [toksElse3, tablesOE]; exact TabOK.nil
  | some y, h => by
    simp only [FragO3] at h
    simp only [toksElse3, tablesOE]
    exact TabOK.cons sk_ELSE ((tE y h).wrap _ _ _)
theorem tQ : ∀ (q : Query), FragQ d q = true → TabOKH (toksQ d ch q) (tablesQ q)
  | .single s, h => by simp only [FragQ] at h; simp only [toksQ, tablesQ]; exact tS s h
  | .union ws s us, h => by
    simp only [FragQ, Bool.and_eq_true] at h
    have hw : ws = some [] := by
      rcases ws with _ | _ | _ <;> first | rfl | (have := h.1.1.1; simp at this)
    subst hw
    simp only [toksQ, tablesQ, tablesWiths, tablesWs, List.nil_append]
    exact (tS s h.1.1.2).app (tUn us h.1.2) (hdp_un ch us h.1.2)
theorem tUn : ∀ (us : List (String × Select)), FragUn d us = true → TabOKH (toksUn d ch us) (tablesU us)
  | [], _ => by simp only [toksUn, tablesU]; exact TabOK.nil.toH
  | (t, s) :: r, h => by
    simp only [FragUn, Bool.and_eq_true] at h
    simp only [toksUn, tablesU]
    exact TabOKH.pre (unionWords_facts h.1.1).1 ((tS s h.1.2).app (tUn r h.2) (hdp_un ch r h.2))
theorem tS : ∀ (s : Select), FragS3 d s = true → TabOKH (toksS3 d ch s) (tablesS s)
  | s, h => by
    cases s with
    | mk ws dist cols fr lats js wh gb hv ob sb db cb lm =>
      obtain ⟨rfl, rfl, rfl, rfl, rfl⟩ := fragS3_shape h
      simp only [FragS3, Bool.and_eq_true] at h
      obtain ⟨⟨⟨⟨⟨⟨⟨⟨⟨hc, _⟩, hfr⟩, hjs⟩, hwh⟩, hgb⟩, hhv⟩, hob⟩, hlm⟩, _⟩ := h
      simp only [toksS3, tablesS, tablesWiths, tablesWs, tablesLats, tablesOOs, tablesOEs, List.nil_append, List.append_nil]
      have tail : TabOK (toksOptE3 d ch "WHERE" wh ++ (toksGroup3 d ch gb ++ (toksOptE3 d ch "HAVING" hv ++ (toksOrder3 d ch ob ++ toksLimit lm))))
          (tablesOE wh ++ (tablesOG gb ++ (tablesOE hv ++ (tablesOOs ob ++ [])))) :=
        (tOptE "WHERE" sk_WHERE wh hwh).app ((tGroup gb hgb).app ((tOptE "HAVING" sk_HAVING hv hhv).app ((tOrder ob hob).app (tab_limit lm hlm))))
      have hp1 : HdP (toksOptE3 d ch "WHERE" wh ++ (toksGroup3 d ch gb ++ (toksOptE3 d ch "HAVING" hv ++ (toksOrder3 d ch ob ++ toksLimit lm)))) :=
        (hdp_optE ch "WHERE" (by decide) (by decide) wh).app ((hdp_group ch gb).app ((hdp_optE ch "HAVING" (by decide) (by decide) hv).app
          ((hdp_order ch ob).app (hdp_limit lm))))
      exact (TabOK.consH sk_SELECT ((TabOK.ite dist (TabOK.one sk_DISTINCT)).appH ((tCols cols hc).appH
        ((tFrom fr hfr).app ((tJoins js hjs).app tail.toH hp1) ((hdp_joins ch js hjs).app hp1))))).cast rfl (by simp)
theorem tCols : ∀ (cs : List (Expr × Option String)), colsOK3 d cs = true → TabOK (toksCols3 d ch cs) (tablesCols cs)
  | [], _ => by simp only [toksCols3, tablesCols]; exact TabOK.nil
  | (e, a) :: cs, h => by
    simp only [colsOK3, Bool.and_eq_true] at h
    simp only [toksCols3, tablesCols]
    exact (((tE e h.1.1).app (tab_alias a h.1.2)).app (tColsTail cs h.2)).cast rfl (by simp)
theorem tColsTail : ∀ (cs : List (Expr × Option String)), colsOK3 d cs = true → TabOK (toksColsTail3 d ch cs) (tablesCols cs)
  | [], _ => by simp only [toksColsTail3, tablesCols]; exact TabOK.nil
  | (e, a) :: cs, h => by
    simp only [colsOK3, Bool.and_eq_true] at h
    simp only [toksColsTail3, tablesCols]
    exact (TabOK.cons sk_comma (((tE e h.1.1).app (tab_alias a h.1.2)).app (tColsTail cs h.2))).cast rfl (by simp)
theorem tRef : ∀ (r : TableRef), refOK3 d r = true → RefOK (toksRef3 d ch r) (tablesRef r)
  | .table s n, h => by
    simp only [refOK3] at h
    simp only [toksRef3, tablesRef]
    exact ⟨fun fl rest => by simp [tabL, refT_tbl, tk], fun t ht => by simp only [List.mem_singleton] at ht; subst ht; exact h⟩
  | .sub q, h => by
    simp only [refOK3] at h
    simp only [toksRef3, tablesRef]
    have := (tQ q h).scan [] rfl
    simp only [List.append_nil, tabL] at this
    exact ⟨fun fl rest => by simp [tabL, grp, refT, this], (tQ q h).ok⟩
theorem tTable : ∀ (t : FromTable), tableOK3 d t = true → RefOK (toksTable3 d ch t) (tablesFT t)
  | .mk r a, h => by
    simp only [tableOK3, Bool.and_eq_true] at h
    simp only [toksTable3, tablesFT]
    exact ⟨fun fl rest => by rw [List.append_assoc, (tRef r h.1).scan, after_alias], (tRef r h.1).ok⟩
theorem tTablesTail : ∀ (ts : List FromTable), tablesOK3 d ts = true → TailOK (toksTablesTail3 d ch ts) (tablesFTs ts)
  | [], _ => by simp only [toksTablesTail3, tablesFTs]; exact ⟨fun rest => rfl, allOK_nil⟩
  | t :: ts, h => by
    simp only [tablesOK3, Bool.and_eq_true] at h
    simp only [toksTablesTail3, tablesFTs]
    exact ⟨fun rest => by
      rw [List.cons_append, after_comma, List.append_assoc, (tTable t h.1).scan, (tTablesTail ts h.2).scan, List.map_append,
        List.append_assoc], allOK_app (tTable t h.1).ok (tTablesTail ts h.2).ok⟩
theorem tFrom : ∀ (fr : Option (List FromTable)), fromOK3 d fr = true → TabOKH (toksFrom3 d ch fr) (tablesOFTs fr)
  | none, _ => by simp only [toksFrom3, tablesOFTs]; exact TabOK.nil.toH
  | some [], h => by simp [fromOK3] at h
  | some (t :: ts), h => by
    simp only [fromOK3, Bool.and_eq_true] at h
    simp only [toksFrom3, tablesOFTs, tablesFTs]
    exact ⟨fun rest hr => by
      rw [List.cons_append, idle_from, List.append_assoc, (tTable t h.1).scan, (tTablesTail ts h.2).scan, after_idle true hr,
        List.map_append, List.append_assoc], allOK_app (tTable t h.1).ok (tTablesTail ts h.2).ok⟩
theorem tJoin : ∀ (j : Join), joinOK3 d j = true → TabOKH (toksJoin3 d ch j) (tablesJ j)
  | .mk ty t none, h => by
    simp only [joinOK3, Bool.and_eq_true] at h
    simp only [toksJoin3, toksRule3, tablesJ, List.append_nil]
    exact ⟨fun rest hr => by rw [List.append_assoc, (joinWords_facts h.1.1).1, (tTable t h.1.2).scan, after_idle false hr],
      (tTable t h.1.2).ok⟩
  | .mk ty t (some (.on e)), h => by
    simp only [joinOK3, ruleOK3, Bool.and_eq_true] at h
    simp only [toksJoin3, toksRule3, tablesJ, tablesRule]
    exact ⟨fun rest hr => by
      rw [List.append_assoc, (joinWords_facts h.1.1).1, List.append_assoc, (tTable t h.1.2).scan, List.cons_append,
        after_idle false (hd_ON _), idle_skip sk_ON, (tE e h.2).scan, List.map_append, List.append_assoc],
      allOK_app (tTable t h.1.2).ok (tE e h.2).ok⟩
  | .mk ty t (some (.using f)), h => by simp [joinOK3, ruleOK3] at h
theorem tJoins : ∀ (js : List Join), joinsOK3 d js = true → TabOKH (toksJoins3 d ch js) (tablesJs js)
  | [], _ => by simp only [toksJoins3, tablesJs]; exact TabOK.nil.toH
  | j :: js, h => by
    simp only [joinsOK3, Bool.and_eq_true] at h
    simp only [toksJoins3, tablesJs]
    exact (tJoin j h.1).app (tJoins js h.2) (hdp_joins ch js h.2)
theorem tOptE (kw : String) (hk : Skip (opTok kw)) : ∀ (e : Option Expr), FragO3 d e = true → TabOK (toksOptE3 d ch kw e) (tablesOE e)
  | none, _ => by simp only [toksOptE3, tablesOE]; exact TabOK.nil
  | some e, h => by
    simp only [FragO3] at h
    simp only [toksOptE3, tablesOE]
    exact TabOK.cons hk (tE e h)
theorem tGroup : ∀ (gb : Option GroupBy), groupOK3 d gb = true → TabOK (toksGroup3 d ch gb) (tablesOG gb)
  | none, _ => by simp only [toksGroup3, tablesOG]; exact TabOK.nil
  | some (.mk [] sets cube rollup), h => by simp [groupOK3] at h
  | some (.mk (e :: es) (some l) cube rollup), h => by simp [groupOK3] at h
  | some (.mk (e :: es) none cube rollup), h => by
    cases cube <;> cases rollup <;> try (simp [groupOK3] at h; done)
    simp only [groupOK3, Bool.and_eq_true] at h
    simp only [toksGroup3, tablesOG, tablesG, tablesEs, List.append_nil]
    exact TabOK.cons sk_GROUP (TabOK.cons sk_BY (((tE e h.1.1).wrap _ _ _).app (tArgsTail 8 es h.1.2)))
theorem tOrdItem : ∀ (o : OrderItem), ordItemOK3 d o = true → TabOK (toksOrdItem3 d ch o) (tablesO o)
  | .mk e desc nf nl, h => by
    simp only [ordItemOK3, Bool.and_eq_true] at h
    simp only [toksOrdItem3, tablesO]
    exact (((tE e h.1.1).wrap _ _ _).app (TabOK.ite desc (TabOK.one sk_DESC))).cast rfl (by simp)
theorem tOrdTail : ∀ (os : List OrderItem), ordTailOK3 d os = true → TabOK (toksOrdTail3 d ch os) (tablesOs os)
  | [], _ => by simp only [toksOrdTail3, tablesOs]; exact TabOK.nil
  | o :: os, h => by
    simp only [ordTailOK3, Bool.and_eq_true] at h
    simp only [toksOrdTail3, tablesOs]
    exact TabOK.cons sk_comma ((tOrdItem o h.1).app (tOrdTail os h.2))
theorem tOrder : ∀ (ob : Option (List OrderItem)), orderOK3 d ob = true → TabOK (toksOrder3 d ch ob) (tablesOOs ob)
  | none, _ => by simp only [toksOrder3, tablesOOs]; exact TabOK.nil
  | some [], h => by simp [orderOK3] at h
  | some (o :: os), h => by
    simp only [orderOK3, Bool.and_eq_true] at h
    simp only [toksOrder3, tablesOOs, tablesOs]
    exact TabOK.cons sk_ORDER (TabOK.cons sk_BY ((tOrdItem o h.1).app (tOrdTail os h.2)))
end

/-! ### the statements -/
theorem tokTbl_tk (t : Tbl) (h : tblOK t.schema t.name = true) : tokTbl (tk t) = some t := by
  simp only [tblOK, Bool.and_eq_true] at h
  have h2 := h.1.2
  unfold tokTbl tk
  cases hs : splitName (tblTok t.schema t.name).src with
  | error e => rw [hs] at h2; simp [isOkPair] at h2
  | ok p =>
    obtain ⟨a, b⟩ := p
    rw [hs] at h2
    simp only [isOkPair, Bool.and_eq_true, beq_iff_eq] at h2
    obtain ⟨rfl, rfl⟩ := h2
    rfl
theorem names_of_toks : ∀ (l : List Tbl), AllOK l → (l.map tk).filterMap tokTbl = l
  | [], _ => rfl
  | t :: r, h => by
    have h1 := tokTbl_tk t (h t (by simp))
    have h2 := names_of_toks r (fun x hx => h x (by simp [hx]))
    simp [List.filterMap_cons, h1, h2]

/-- **the table tokens of a fragment rendering**: for every query of the nested fragment, whatever redundant brackets the rendering
carries, the scanner finds exactly the printed names of the specified table list, in order … -/
theorem tableToks_toksQ (q : Query) (h : FragQ d q = true) : tableToks (toksQ d ch q) = (tablesOf q).map tk := by
  have := (tQ ch q h).scan [] rfl
  simpa [tableToks, tabL, tablesOf] using this
/-- … and each of them reads back as its (schema, name) pair: the specified table list is a function of the TOKENS -/
theorem tableNames_toksQ (q : Query) (h : FragQ d q = true) : tableNames (toksQ d ch q) = tablesOf q := by
  unfold tableNames
  rw [tableToks_toksQ ch q h]
  exact names_of_toks _ (tQ ch q h).ok

/-- the FROM-only variant: the table tokens of the FROM segment of a branch's rendering -/
theorem tableNames_from (fr : Option (List FromTable)) (h : fromOK3 d fr = true) : tableNames (toksFrom3 d ch fr) = tablesOFTs fr := by
  have := (tFrom ch fr h).scan [] rfl
  simp only [List.append_nil, tabL] at this
  unfold tableNames tableToks
  rw [this]
  exact names_of_toks _ (tFrom ch fr h).ok
/-- the JOIN-only variant: the table tokens of the JOIN segment of a branch's rendering -/
theorem tableNames_joins (js : List Join) (h : joinsOK3 d js = true) : tableNames (toksJoins3 d ch js) = tablesJs js := by
  have := (tJoins ch js h).scan [] rfl
  simp only [List.append_nil, tabL] at this
  unfold tableNames tableToks
  rw [this]
  exact names_of_toks _ (tJoins ch js h).ok

end AT
