import MsqProofs.Lemmas.TSelect
/-!
# T-parse for the SELECT skeleton: the clauses in sequence (C03 / C01)

`Bd` is propagated from the end of the statement to the front (what follows clause `k` is the first word of a later clause, or what
follows the statement); `selectTail`, `selectRest`, `selectBody`, `single` compose the clause lemmas of TSelect.lean in the order of
`_parse_single_select_statement`.
-/
set_option linter.unusedVariables false
set_option linter.unusedSimpArgs false
set_option maxHeartbeats 1000000
open Lex PM Ast TP
namespace TS
variable {d : Gen.D}

theorem bd_keywords : bdTok d 0 (opTok "FROM") = true ∧ bdTok d 2 (opTok "WHERE") = true ∧ bdTok d 3 (opTok "GROUP") = true ∧
    bdTok d 4 (opTok "HAVING") = true ∧ bdTok d 5 (opTok "ORDER") = true ∧ bdTok d 6 (opTok "LIMIT") = true := by cases d <;> decide

theorem bd_limit (lm : Option (Int × Option Int)) (rest : List Tok) (h : Bd d 7 rest = true) : Bd d 6 (toksLimit lm ++ rest) = true := by
  obtain ⟨_, _, _, _, _, hl⟩ := @bd_keywords d
  cases lm with
  | none => exact bd_mono h (by omega)
  | some p => obtain ⟨n, o⟩ := p; cases o <;> exact hl
theorem bd_order (ob : Option (List OrderItem)) (x : List Tok) (h : Bd d 6 x = true) : Bd d 5 (toksOrder d ob ++ x) = true := by
  obtain ⟨_, _, _, _, ho, _⟩ := @bd_keywords d
  cases ob with
  | none => exact bd_mono h (by omega)
  | some l => cases l with
    | nil => exact bd_mono h (by omega)
    | cons o os => exact ho
theorem bd_having (hv : Option Expr) (x : List Tok) (h : Bd d 5 x = true) : Bd d 4 (toksOpt d "HAVING" hv ++ x) = true := by
  obtain ⟨_, _, _, hh, _, _⟩ := @bd_keywords d
  cases hv with
  | none => exact bd_mono h (by omega)
  | some e => exact hh
theorem bd_group (gb : Option GroupBy) (x : List Tok) (h : Bd d 4 x = true) : Bd d 3 (toksGroup d gb ++ x) = true := by
  obtain ⟨_, _, hg, _, _, _⟩ := @bd_keywords d
  cases gb with
  | none => exact bd_mono h (by omega)
  | some g =>
    obtain ⟨cols, s, c, r⟩ := g
    cases cols with
    | nil => exact bd_mono h (by omega)
    | cons e es => exact hg
theorem bd_where (wh : Option Expr) (x : List Tok) (h : Bd d 3 x = true) : Bd d 2 (toksOpt d "WHERE" wh ++ x) = true := by
  obtain ⟨_, hw, _, _, _, _⟩ := @bd_keywords d
  cases wh with
  | none => exact bd_mono h (by omega)
  | some e => exact hw
theorem bd_from (fr : Option (List FromTable)) (x : List Tok) (h : Bd d 1 x = true) : Bd d 0 (toksFrom fr ++ x) = true := by
  obtain ⟨hf, _, _, _, _, _⟩ := @bd_keywords d
  cases fr with
  | none => exact bd_mono h (by omega)
  | some l => cases l with
    | nil => exact bd_mono h (by omega)
    | cons t ts => exact hf

theorem len_tablesTail (ts : List FromTable) : ts.length ≤ sizeL (toksTablesTail ts) := by
  induction ts with
  | nil => simp [toksTablesTail, sizeL]
  | cons t ts ih =>
    have hc : commaTok.size = 1 := by decide
    simp only [toksTablesTail, sizeL_cons, sizeL_append, List.length_cons, hc]
    omega
theorem len_from (fr : Option (List FromTable)) : (fr.getD []).length ≤ sizeL (toksFrom fr) := by
  cases fr with
  | none => simp
  | some l => cases l with
    | nil => simp
    | cons t ts =>
      have := len_tablesTail ts
      obtain ⟨tr, a⟩ := t
      simp only [Option.getD_some, List.length_cons, toksFrom, toksTable, sizeL_cons, sizeL_append, size_opTok, nameTok, Tok.size]; omega

/-- WHERE … LIMIT -/
theorem selectTail (dist : Bool) (cols : List (Expr × Option String)) (fr : Option (List FromTable)) (js : List Join)
    (wh : Option Expr) (gb : Option GroupBy) (hv : Option Expr) (ob : Option (List OrderItem)) (lm : Option (Int × Option Int))
    (hwh : optFrag d wh = true) (hgb : groupOK d gb = true) (hhv : optFrag d hv = true) (hob : orderOK d ob = true) (hlm : limitOK lm = true)
    (rest : List Tok) (hr : Bd d 7 rest = true) :
    OkAt (fun f => pSelectTail d f [] dist cols fr [] js
        (toksOpt d "WHERE" wh ++ (toksGroup d gb ++ (toksOpt d "HAVING" hv ++ (toksOrder d ob ++ (toksLimit lm ++ rest))))))
      (20 * sizeL (toksOpt d "WHERE" wh ++ (toksGroup d gb ++ (toksOpt d "HAVING" hv ++ (toksOrder d ob ++ toksLimit lm)))) + 20)
      (.mk (some []) dist cols fr [] js wh gb hv ob none none none lm, rest) := by
  have b6 := bd_limit lm rest hr
  have b5 := bd_order ob _ b6
  have b4 := bd_having hv _ b5
  have b3 := bd_group gb _ b4
  have rW : rank "WHERE" = 3 := by decide
  have rH : rank "HAVING" = 5 := by decide
  intro f hf'
  simp only [sizeL_append] at hf'
  obtain ⟨g, rfl⟩ : ∃ g, f = g + 2 := ⟨f - 2, by omega⟩
  have h1 := optOr "WHERE" (by decide) 3 (by omega) wh hwh _ b3 g (by omega)
  have h2 := groupBy gb hgb _ b4 g (by omega)
  have h3 := optOr "HAVING" (by decide) 5 (by omega) hv hhv _ b5 g (by omega)
  have h4 := orderBy ob hob _ b6 g (by omega)
  have h5 := hiveClauses _ b6 (g + 1) (by omega)
  have h6 := limit lm hlm rest hr
  simp only at h1 h2 h3 h4 h5
  unfold pSelectTail pWhereGroup pHavingOrder
  simp only [h1, h2, h3, h4, h5, h6]

theorem selectRest (dist : Bool) (cols : List (Expr × Option String)) (fr : Option (List FromTable)) (js : List Join)
    (wh : Option Expr) (gb : Option GroupBy) (hv : Option Expr) (ob : Option (List OrderItem)) (lm : Option (Int × Option Int))
    (hfr : fromOK fr = true) (hjs : ∀ j ∈ js, joinOK d j = true)
    (hwh : optFrag d wh = true) (hgb : groupOK d gb = true) (hhv : optFrag d hv = true) (hob : orderOK d ob = true) (hlm : limitOK lm = true)
    (rest : List Tok) (hr : Bd d 7 rest = true) :
    OkAt (fun f => pSelectRest d f [] dist cols true [] (toksRest d fr js wh gb hv ob lm ++ rest))
      (20 * sizeL (toksRest d fr js wh gb hv ob lm) + 24)
      (.mk (some []) dist cols fr [] js wh gb hv ob none none none lm, rest) ∧
    Bd d 0 (toksRest d fr js wh gb hv ob lm ++ rest) = true := by
  have b6 := bd_limit lm rest hr
  have b5 := bd_order ob _ b6
  have b4 := bd_having hv _ b5
  have b3 := bd_group gb _ b4
  have b2 := bd_where wh _ b3
  have b1 := (joins_bd js hjs _ b2).1
  have b0 := bd_from fr _ b1
  have hassoc : toksRest d fr js wh gb hv ob lm ++ rest =
      toksFrom fr ++ (toksJoins d js ++ (toksOpt d "WHERE" wh ++ (toksGroup d gb ++ (toksOpt d "HAVING" hv ++ (toksOrder d ob ++ (toksLimit lm ++ rest)))))) := by
    simp only [toksRest, List.append_assoc]
  refine ⟨?_, by rw [hassoc]; exact b0⟩
  have rL : rank "LATERAL" = 0 := by decide
  intro f hf'
  simp only [toksRest, sizeL_append] at hf'
  obtain ⟨g, rfl⟩ : ∃ g, f = g + 1 := ⟨f - 1, by omega⟩
  have hlen := len_from fr
  have h1 := fromOpt fr hfr _ b1 g (by omega)
  have h2 := joins _ b2 js hjs [] g (by omega)
  have h3 := selectTail dist cols fr js wh gb hv ob lm hwh hgb hhv hob hlm rest hr g (by simp only [sizeL_append]; omega)
  have hl : pLaterals d g true [] []
      (toksJoins d js ++ (toksOpt d "WHERE" wh ++ (toksGroup d gb ++ (toksOpt d "HAVING" hv ++ (toksOrder d ob ++ (toksLimit lm ++ rest)))))) =
      .ok ([], toksJoins d js ++ (toksOpt d "WHERE" wh ++ (toksGroup d gb ++ (toksOpt d "HAVING" hv ++ (toksOrder d ob ++ (toksLimit lm ++ rest)))))) := by
    obtain ⟨g', rfl⟩ : ∃ g', g = g' + 1 := ⟨g - 1, by omega⟩
    unfold pLaterals
    simp [bd_search2 b1 "LATERAL" "VIEW" (by omega)]
  simp only at h1 h2 h3
  rw [hassoc]
  unfold pSelectRest
  simp only [h1, hl, h2, List.nil_append, h3]

theorem select_kw : (opTok "SELECT").equalsStr "SELECT" = true ∧ (opTok "SELECT").has PAREN = false ∧
    (opTok "DISTINCT").srcEqUp "DISTINCT" = true := by decide

/-- the whole single SELECT -/
theorem single (dist : Bool) (c : Expr × Option String) (cs : List (Expr × Option String)) (fr : Option (List FromTable)) (js : List Join)
    (wh : Option Expr) (gb : Option GroupBy) (hv : Option Expr) (ob : Option (List OrderItem)) (lm : Option (Int × Option Int))
    (hc : colOKS d c = true) (hcs : ∀ c' ∈ cs, colOKS d c' = true) (hdist : (dist || !searchStrUp (toksE d noX c.1) "DISTINCT") = true)
    (hfr : fromOK fr = true) (hjs : ∀ j ∈ js, joinOK d j = true)
    (hwh : optFrag d wh = true) (hgb : groupOK d gb = true) (hhv : optFrag d hv = true) (hob : orderOK d ob = true) (hlm : limitOK lm = true)
    (rest : List Tok) (hr : Bd d 7 rest = true) :
    OkAt (fun f => pSingle d f [] (toksS d (.mk (some []) dist (c :: cs) fr [] js wh gb hv ob none none none lm) ++ rest))
      (20 * sizeL (toksS d (.mk (some []) dist (c :: cs) fr [] js wh gb hv ob none none none lm)) + 30)
      (.mk (some []) dist (c :: cs) fr [] js wh gb hv ob none none none lm, rest) := by
  obtain ⟨hrest, b0⟩ := selectRest dist (c :: cs) fr js wh gb hv ob lm hfr hjs hwh hgb hhv hob hlm rest hr
  obtain ⟨k1, k2, k3⟩ := select_kw
  have folR : Fol d (toksRest d fr js wh gb hv ob lm ++ rest) := Fol.ofBd b0
  have folC : Fol d (toksColsTail d cs ++ (toksRest d fr js wh gb hv ob lm ++ rest)) := Fol.tail (colsTail_shape cs) folR
  intro f hf'
  simp only [toksS, sizeL_cons, sizeL_append, size_opTok] at hf'
  obtain ⟨g, rfl⟩ : ∃ g, f = g + 2 := ⟨f - 2, by omega⟩
  have h1 : pSelectCol d g (toksCol d c ++ (toksColsTail d cs ++ (toksRest d fr js wh gb hv ob lm ++ rest))) =
      .ok (c, toksColsTail d cs ++ (toksRest d fr js wh gb hv ob lm ++ rest)) := selectCol c hc _ folC g (by omega)
  have h2 := selectCols _ folR (bd_comma b0) cs hcs [c] g (by omega)
  have h3 := hrest g (by omega)
  simp only at h2 h3
  have hmove : moveStrUp ((if dist then [opTok "DISTINCT"] else []) ++
        (toksCol d c ++ (toksColsTail d cs ++ (toksRest d fr js wh gb hv ob lm ++ rest)))) "DISTINCT" =
      (dist, toksCol d c ++ (toksColsTail d cs ++ (toksRest d fr js wh gb hv ob lm ++ rest))) := by
    cases dist with
    | true => simp [moveStrUp, searchStrUp, k3]
    | false =>
      simp only [Bool.false_or, Bool.not_eq_true'] at hdist
      obtain ⟨t, ts', hh, _⟩ := (C02.rt d noX c.1 (by simp only [colOKS, Bool.and_eq_true] at hc; exact hc.1)).head
      have : t.srcEqUp "DISTINCT" = false := by rw [hh] at hdist; simpa [searchStrUp] using hdist
      simp [moveStrUp, searchStrUp, toksCol, hh, this]
  show pSingle d (g + 2) [] (toksS d _ ++ rest) = _
  unfold pSingle
  simp only [toksS, List.cons_append, searchMark, k2, Bool.not_false, if_true]
  unfold pSelectBody
  simp only [matchSeq, k1, if_true, List.append_assoc, hmove, h1, h2, List.singleton_append, h3]

end TS
