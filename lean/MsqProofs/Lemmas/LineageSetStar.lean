import MsqProofs.Lemmas.LineageLevel
/-!
# Lineage: wildcards in the select list (`*`, `x.*`) against the specification
-/
namespace LineageL
open Ast AN LN Spec Flow

/-- consecutive positions from `i` -/
def Seq : List SCol → Nat → Prop
  | [], _ => True
  | c :: r, i => c.idx = Int.ofNat i ∧ Seq r (i + 1)

theorem seq_append : ∀ (a b : List SCol) (i : Nat), Seq a i → Seq b (i + a.length) → Seq (a ++ b) i
  | [], b, i, _, hb => by simpa using hb
  | c :: a, b, i, ha, hb => ⟨ha.1, seq_append a b (i + 1) ha.2 (by simpa [Nat.add_assoc, Nat.add_comm 1] using hb)⟩

theorem zipIdx_names {α : Type} (g : String → Nat → α) : ∀ (cols : List SCol) (R : Rel) (idx : Nat), cols.map (·.name) = R.map (·.1) →
    (cols.zipIdx idx).map (fun (x : SCol × Nat) => g x.1.name x.2) = (R.zipIdx idx).map (fun (x : (String × List SrcCol) × Nat) => g x.1.1 x.2)
  | [], [], _, _ => rfl
  | [], _ :: _, _, h => by simp at h
  | _ :: _, [], _, h => by simp at h
  | c :: cs, p :: r, idx, h => by
    simp only [List.map_cons, List.cons.injEq] at h
    simp [List.zipIdx_cons, h.1, zipIdx_names g cs r (idx + 1) h.2]

theorem expandRel_length (k : String) (R : Rel) (i : Nat) : (expandRel k R i).length = R.length := by simp [expandRel]

theorem seq_expandRel (k : String) : ∀ (R : Rel) (i : Nat), Seq ((expandRel k R i).map (·.1)) i
  | [], _ => trivial
  | p :: r, i => by
    have := seq_expandRel k r (i + 1)
    simp only [expandRel, List.zipIdx_cons, List.map_cons] at this ⊢
    exact ⟨rfl, this⟩

/-- `x.*` for a table referred to by its own name: the analysis' expansion is the specification's -/
theorem expandTable_spec {cat : Cat} {st : St} (std : StdTable) (key : String) (R : Rel) (L : Lineage)
    (hl : lookup cat st.subq st.withT std = some L) (hd : Denotes L R) (hk : std.2 = key) (idx : Nat) (st1 : St) (hs : Same st st1) :
    ∃ st2, expandTable cat std idx st1 = .ok (expandRel key R idx, st2) ∧ Same st st2 := by
  have hg := getTableLineage_lookup cat std st1
  rw [hs.1, hs.2, hl] at hg
  obtain ⟨st2, hg1, hg2⟩ := hg
  obtain ⟨cols, e, hm⟩ := hd.std
  refine ⟨st2, ?_, hs.trans hg2⟩
  simp only [expandTable, hg1, e, bind, Except.bind, pure, Except.pure, expandRel, hk]
  have := zipIdx_names (fun n i => ((⟨Int.ofNat i, n⟩ : SCol), [(⟨some key, some n, none⟩ : QCol)])) cols R idx hm
  rw [this]

theorem expandTables_spec {cat : Cat} {st : St} : ∀ (tn : List (String × StdTable)) (scope : Scope), Resolves cat st tn scope →
    (∀ p ∈ tn, p.2.2 = p.1) → ∀ (idx : Nat) (st1 : St), Same st st1 →
    ∃ st2, expandTables cat (tn.map (·.2)) idx st1 = .ok (expandAll scope idx, st2) ∧ Same st st2
  | [], [], _, _, idx, st1, hs => ⟨st1, by simp [expandTables, expandAll], hs⟩
  | [], _ :: _, h, _, _, _, _ => nomatch h
  | _ :: _, [], h, _, _, _, _ => nomatch h
  | kt :: tn, kr :: scope, h, hp, idx, st1, hs => by
    cases h with
    | cons hd tl =>
      obtain ⟨hk, L, hl, hden⟩ := hd
      obtain ⟨st2, e2, s2⟩ := expandTable_spec kt.2 kr.1 kr.2 L hl hden (by rw [hp kt (by simp), hk]) idx st1 hs
      obtain ⟨st3, e3, s3⟩ := expandTables_spec tn scope tl (fun p hp' => hp p (by simp [hp'])) (idx + kr.2.length) st2 s2
      refine ⟨st3, ?_, s3⟩
      obtain ⟨k, R⟩ := kr
      simp only [List.map_cons, expandTables, e2, bind, Except.bind, expandRel_length, e3, pure, Except.pure, expandAll]

theorem expandAll_length : ∀ (scope : Scope) (i : Nat), (expandAll scope i).length = (scope.map (·.2.length)).sum
  | [], _ => rfl
  | (k, R) :: r, i => by simp [expandAll, expandRel_length, expandAll_length r]

theorem seq_expandAll : ∀ (scope : Scope) (i : Nat), Seq ((expandAll scope i).map (·.1)) i
  | [], _ => trivial
  | (k, R) :: r, i => by
    simp only [expandAll, List.map_append]
    exact seq_append _ _ i (seq_expandRel k R i) (by simpa [expandRel_length] using seq_expandAll r (i + R.length))

/-- the output columns of a SELECT with wildcards -/
theorem currentLevelSingle_star {cat : Cat} {st : St} {tn : List (String × StdTable)} {scope : Scope} (hres : Resolves cat st tn scope)
    (hp : ∀ p ∈ tn, p.2.2 = p.1) :
    ∀ (its : List (Expr × Option String)) (idx : Nat) (st1 : St), Same st st1 →
      Agrees st (curOfW scope its idx) (currentLevelSingle cat tn its idx st1)
  | [], idx, st1, hs => by simp [Agrees, curOfW, currentLevelSingle, hs]
  | (e, some a) :: r, idx, st1, hs => by
    have ih := currentLevelSingle_star hres hp r (idx + 1) st1 hs
    have hcur : curOfW scope ((e, some a) :: r) idx = (do let rest ← curOfW scope r (idx + 1); pure ((⟨Int.ofNat idx, a⟩, colsE e) :: rest)) := by
      cases e <;> simp [curOfW, itemName]
    rw [hcur]
    simp only [Agrees, bind, Except.bind, pure, Except.pure] at ih ⊢
    cases hr : curOfW scope r (idx + 1) with
    | error err =>
      rw [hr] at ih
      cases err with
      | analysis => simp only at ih ⊢; simp [currentLevelSingle, C15.expr_ok e, ih, bind, Except.bind, pure, Except.pure]
      | outside => trivial
    | ok rest =>
      rw [hr] at ih
      obtain ⟨st2, e2, s2⟩ := ih
      exact ⟨st2, by simp [currentLevelSingle, C15.expr_ok e, e2, bind, Except.bind, pure, Except.pure], s2⟩
  | (.wildcard (some t), none) :: r, idx, st1, hs => by
    simp only [curOfW]
    rcases resolves_get hres t with ⟨h1, h2⟩ | ⟨std, R, L, h1, h2, hl, hden⟩
    · simp [h2, Agrees, currentLevelSingle, h1, bind, Except.bind]
    · simp only [h2]
      have hkey : std.2 = t := by
        have hm := dictGet_mem' tn t std h1
        exact hp (t, std) hm
      obtain ⟨st2, e2, s2⟩ := expandTable_spec std t R L hl hden hkey idx st1 hs
      have ih := currentLevelSingle_star hres hp r (idx + R.length) st2 s2
      simp only [Agrees, bind, Except.bind, pure, Except.pure] at ih ⊢
      cases hr : curOfW scope r (idx + R.length) with
      | error err =>
        rw [hr] at ih
        cases err with
        | analysis => simp only at ih ⊢; simp [currentLevelSingle, h1, e2, expandRel_length, ih, bind, Except.bind]
        | outside => trivial
      | ok rest =>
        rw [hr] at ih
        obtain ⟨st3, e3, s3⟩ := ih
        exact ⟨st3, by simp [currentLevelSingle, h1, e2, expandRel_length, e3, bind, Except.bind, pure, Except.pure], s3⟩
  | (.wildcard none, none) :: r, idx, st1, hs => by
    simp only [curOfW]
    obtain ⟨st2, e2, s2⟩ := expandTables_spec tn scope hres hp idx st1 hs
    have ih := currentLevelSingle_star hres hp r (idx + (expandAll scope idx).length) st2 s2
    simp only [Agrees, bind, Except.bind, pure, Except.pure] at ih ⊢
    cases hr : curOfW scope r (idx + (expandAll scope idx).length) with
    | error err =>
      rw [hr] at ih
      cases err with
      | analysis => simp only at ih ⊢; simp [currentLevelSingle, e2, ih, bind, Except.bind]
      | outside => trivial
    | ok rest =>
      rw [hr] at ih
      obtain ⟨st3, e3, s3⟩ := ih
      exact ⟨st3, by simp [currentLevelSingle, e2, e3, bind, Except.bind, pure, Except.pure], s3⟩
  | (.column t n, none) :: r, idx, st1, hs => by
    have ih := currentLevelSingle_star hres hp r (idx + 1) st1 hs
    simp only [curOfW, itemName]
    simp only [Agrees, bind, Except.bind, pure, Except.pure] at ih ⊢
    cases hr : curOfW scope r (idx + 1) with
    | error err =>
      rw [hr] at ih
      cases err with
      | analysis => simp only at ih ⊢; simp [currentLevelSingle, C15.expr_ok (.column t n), ih, bind, Except.bind, pure, Except.pure]
      | outside => trivial
    | ok rest =>
      rw [hr] at ih
      obtain ⟨st2, e2, s2⟩ := ih
      exact ⟨st2, by simp [currentLevelSingle, C15.expr_ok (.column t n), e2, bind, Except.bind, pure, Except.pure], s2⟩
  | (.literal _, none) :: r, idx, st1, hs => by simp [curOfW, itemName, Agrees]
  | (.func _ _ _, none) :: r, idx, st1, hs => by simp [curOfW, itemName, Agrees]
  | (.agg _ _ _, none) :: r, idx, st1, hs => by simp [curOfW, itemName, Agrees]
  | (.cast _ _ _ _, none) :: r, idx, st1, hs => by simp [curOfW, itemName, Agrees]
  | (.extract _ _, none) :: r, idx, st1, hs => by simp [curOfW, itemName, Agrees]
  | (.window _ _ _ _, none) :: r, idx, st1, hs => by simp [curOfW, itemName, Agrees]
  | (.caseCond _ _, none) :: r, idx, st1, hs => by simp [curOfW, itemName, Agrees]
  | (.caseVal _ _ _, none) :: r, idx, st1, hs => by simp [curOfW, itemName, Agrees]
  | (.subValue _, none) :: r, idx, st1, hs => by simp [curOfW, itemName, Agrees]
  | (.subQuery _, none) :: r, idx, st1, hs => by simp [curOfW, itemName, Agrees]
  | (.exists_ _, none) :: r, idx, st1, hs => by simp [curOfW, itemName, Agrees]
  | (.index _ _, none) :: r, idx, st1, hs => by simp [curOfW, itemName, Agrees]
  | (.unary _ _, none) :: r, idx, st1, hs => by simp [curOfW, itemName, Agrees]
  | (.compute _ _ _, none) :: r, idx, st1, hs => by simp [curOfW, itemName, Agrees]
  | (.kw _ _ _ _, none) :: r, idx, st1, hs => by simp [curOfW, itemName, Agrees]
  | (.between _ _ _ _, none) :: r, idx, st1, hs => by simp [curOfW, itemName, Agrees]
  | (.compare _ _ _, none) :: r, idx, st1, hs => by simp [curOfW, itemName, Agrees]
  | (.not_ _, none) :: r, idx, st1, hs => by simp [curOfW, itemName, Agrees]
  | (.and_ _ _, none) :: r, idx, st1, hs => by simp [curOfW, itemName, Agrees]
  | (.xor _ _, none) :: r, idx, st1, hs => by simp [curOfW, itemName, Agrees]
  | (.or_ _ _, none) :: r, idx, st1, hs => by simp [curOfW, itemName, Agrees]
  | (.mybatis _, none) :: r, idx, st1, hs => by simp [curOfW, itemName, Agrees]

theorem curOf_eq : ∀ (its : List (Expr × Option String)) (i : Nat), Flow.curOf its i = C16.curOf its i
  | [], _ => rfl
  | it :: r, i => by simp [Flow.curOf, C16.curOf, curOf_eq r]

theorem curFlow_eq (scope : Scope) : ∀ cur : List (SCol × List QCol), Flow.curFlow scope cur = curSpec scope cur
  | [] => rfl
  | (c, qs) :: r => by simp [Flow.curFlow, curSpec, curFlow_eq scope r]


/-! ### positions -/

theorem seq_curOf : ∀ (its : List (Expr × Option String)) (i : Nat), Seq ((C16.curOf its i).map (·.1)) i
  | [], _ => trivial
  | it :: r, i => ⟨rfl, seq_curOf r (i + 1)⟩

theorem number_of_seq : ∀ (data : List (SCol × List SrcCol)) (i : Nat), Seq (data.map (·.1)) i →
    C16.number (data.map fun p => (p.1.name, p.2)) i = data
  | [], _, _ => rfl
  | (c, s) :: r, i, h => by
    obtain ⟨h1, h2⟩ := h
    simp only [List.map_cons, C16.number, number_of_seq r (i + 1) h2]
    congr 1
    cases c; simp_all

theorem curSpec_fst (scope : Scope) : ∀ (cur : List (SCol × List QCol)) (data : List (SCol × List SrcCol)),
    curSpec scope cur = .ok data → data.map (·.1) = cur.map (·.1)
  | [], data, h => by simp [curSpec] at h; subst h; rfl
  | (c, qs) :: r, data, h => by
    simp only [curSpec, bind, Except.bind] at h
    cases h1 : refs scope qs with
    | error e => simp [h1] at h
    | ok a =>
      simp only [h1] at h
      cases h2 : curSpec scope r with
      | error e => simp [h2] at h
      | ok b =>
        simp [h2, pure, Except.pure] at h
        subst h
        simp [curSpec_fst scope r b h2]


theorem seq_curOfW (scope : Scope) : ∀ (its : List (Expr × Option String)) (i : Nat) (cur : List (SCol × List QCol)),
    curOfW scope its i = .ok cur → Seq (cur.map (·.1)) i
  | [], i, cur, h => by simp [curOfW] at h; subst h; trivial
  | (e, some a) :: r, i, cur, h => by
    have hcur : curOfW scope ((e, some a) :: r) i = (do let rest ← curOfW scope r (i + 1); pure ((⟨Int.ofNat i, a⟩, colsE e) :: rest)) := by
      cases e <;> simp [curOfW, itemName]
    rw [hcur] at h
    simp only [bind, Except.bind, pure, Except.pure] at h
    cases hr : curOfW scope r (i + 1) with
    | error err => simp [hr] at h
    | ok rest => simp [hr] at h; subst h; exact ⟨rfl, seq_curOfW scope r (i + 1) rest hr⟩
  | (.wildcard (some t), none) :: r, i, cur, h => by
    simp only [curOfW, bind, Except.bind, pure, Except.pure] at h
    cases h2 : dictGet? scope t with
    | none => simp [h2] at h
    | some R =>
      simp only [h2] at h
      cases hr : curOfW scope r (i + R.length) with
      | error err => simp [hr] at h
      | ok rest =>
        simp [hr] at h; subst h
        rw [List.map_append]
        exact seq_append _ _ i (seq_expandRel t R i) (by simpa [expandRel_length] using seq_curOfW scope r (i + R.length) rest hr)
  | (.wildcard none, none) :: r, i, cur, h => by
    simp only [curOfW, bind, Except.bind, pure, Except.pure] at h
    cases hr : curOfW scope r (i + (expandAll scope i).length) with
    | error err => simp [hr] at h
    | ok rest =>
      simp [hr] at h; subst h
      rw [List.map_append]
      exact seq_append _ _ i (seq_expandAll scope i) (by simpa using seq_curOfW scope r _ rest hr)
  | (.column t n, none) :: r, i, cur, h => by
    simp only [curOfW, itemName, bind, Except.bind, pure, Except.pure] at h
    cases hr : curOfW scope r (i + 1) with
    | error err => simp [hr] at h
    | ok rest => simp [hr] at h; subst h; exact ⟨rfl, seq_curOfW scope r (i + 1) rest hr⟩
  | (.literal _, none) :: r, i, cur, h => by simp [curOfW, itemName] at h
  | (.func _ _ _, none) :: r, i, cur, h => by simp [curOfW, itemName] at h
  | (.agg _ _ _, none) :: r, i, cur, h => by simp [curOfW, itemName] at h
  | (.cast _ _ _ _, none) :: r, i, cur, h => by simp [curOfW, itemName] at h
  | (.extract _ _, none) :: r, i, cur, h => by simp [curOfW, itemName] at h
  | (.window _ _ _ _, none) :: r, i, cur, h => by simp [curOfW, itemName] at h
  | (.caseCond _ _, none) :: r, i, cur, h => by simp [curOfW, itemName] at h
  | (.caseVal _ _ _, none) :: r, i, cur, h => by simp [curOfW, itemName] at h
  | (.subValue _, none) :: r, i, cur, h => by simp [curOfW, itemName] at h
  | (.subQuery _, none) :: r, i, cur, h => by simp [curOfW, itemName] at h
  | (.exists_ _, none) :: r, i, cur, h => by simp [curOfW, itemName] at h
  | (.index _ _, none) :: r, i, cur, h => by simp [curOfW, itemName] at h
  | (.unary _ _, none) :: r, i, cur, h => by simp [curOfW, itemName] at h
  | (.compute _ _ _, none) :: r, i, cur, h => by simp [curOfW, itemName] at h
  | (.kw _ _ _ _, none) :: r, i, cur, h => by simp [curOfW, itemName] at h
  | (.between _ _ _ _, none) :: r, i, cur, h => by simp [curOfW, itemName] at h
  | (.compare _ _ _, none) :: r, i, cur, h => by simp [curOfW, itemName] at h
  | (.not_ _, none) :: r, i, cur, h => by simp [curOfW, itemName] at h
  | (.and_ _ _, none) :: r, i, cur, h => by simp [curOfW, itemName] at h
  | (.xor _ _, none) :: r, i, cur, h => by simp [curOfW, itemName] at h
  | (.or_ _ _, none) :: r, i, cur, h => by simp [curOfW, itemName] at h
  | (.mybatis _, none) :: r, i, cur, h => by simp [curOfW, itemName] at h

/-- **a SELECT with wildcards, against the specification** -/
theorem level_star {cat : Cat} {st : St} {tn : List (String × StdTable)} {scope : Scope} (hres : Resolves cat st tn scope)
    (fts : List FromTable) (hpk : fts.all plainKey = true → ∀ p ∈ tn, p.2.2 = p.1)
    (its : List (Expr × Option String)) (st1 : St) (hs : Same st st1) :
    Agrees st ((starFlow fts scope its).map (fun R => C16.number R 1))
      (do let (cur, st2) ← currentLevelSingle cat tn its 1 st1; sourcesLoop cat tn [] cur st2) := by
  unfold starFlow
  by_cases hall : fts.all plainKey = true
  · simp only [hall, Bool.not_true, Bool.false_eq_true, if_false, bind, Except.bind]
    have h1 := currentLevelSingle_star hres (hpk hall) its 1 st1 hs
    cases hc : curOfW scope its 1 with
    | error e =>
      rw [hc] at h1
      cases e with
      | analysis => simp only [Agrees] at h1; simp [Except.map, Agrees, h1]
      | outside => simp [Except.map, Agrees]
    | ok cur =>
      rw [hc] at h1
      obtain ⟨st2, e2, s2⟩ := h1
      simp only [e2]
      have h2 := sourcesLoop_spec hres cur st2 s2
      rw [curFlow_eq]
      cases hd : curSpec scope cur with
      | error e =>
        rw [hd] at h2
        cases e with
        | analysis => simpa [Except.map, Agrees] using h2
        | outside => simp [Except.map, Agrees]
      | ok data =>
        rw [hd] at h2
        obtain ⟨st3, e3, s3⟩ := h2
        simp only [Except.map, Agrees, pure, Except.pure]
        have hseq : Seq (data.map (·.1)) 1 := by
          rw [curSpec_fst scope cur data hd]
          exact seq_curOfW scope its 1 cur hc
        rw [number_of_seq data 1 hseq]
        exact ⟨st3, e3, s3⟩
  · simp [hall, Except.map, Agrees]

end LineageL
