import MsqProofs.Lemmas.TDml3
/-!
# T-parse for data-change statements: the statement level (C03 / C01)

`stmt_ok`: one iteration of the loop of `parse_statements` (`pStatement`) on the rendering of a fragment statement returns that statement,
in front of every continuation with `stopsStmt`, at every fuel above `20 * tokens + 16`.
-/
set_option linter.unusedVariables false
set_option linter.unusedSimpArgs false
set_option maxHeartbeats 1000000
open Lex PM Ast TP TP2 TS TQ
namespace TDM
variable {d : Gen.D} {ch : Expr → Bool}

theorem stops_bd {rest : List Tok} (h : stopsStmt d rest = true) : Bd3 d 7 rest = true := by
  simp only [stopsStmt, stopsQ, Bool.and_eq_true] at h; exact h.1

/-- the three words a statement proper may start with after a WITH clause -/
theorem kw_body : ∀ w ∈ ["SELECT", "INSERT", "UPDATE"], up (opTok w).src = w ∧ (opTok w).srcEq "," = false ∧ (opTok w).srcEqUp "WITH" = false ∧
    ["SET", "DELETE", "DROP", "CREATE", "ANALYZE", "ALTER", "MSCK", "USE", "TRUNCATE", "SHOW"].contains w = false := by decide
theorem kw_withword : up (opTok "WITH").src = "WITH" ∧
    ["SET", "DELETE", "DROP", "CREATE", "ANALYZE", "ALTER", "MSCK", "USE", "TRUNCATE", "SHOW"].contains "WITH" = false := by decide
/-- the dispatch of `pStatement` on `[WITH …] SELECT / INSERT / UPDATE …`: the clause is parsed, the body parser gets the rest -/
theorem with_stmt (hch : ChOK d ch) (ws : List WithTable) (hws : withsOK d (some ws) = true) (w : String) (hw : w ∈ ["SELECT", "INSERT", "UPDATE"])
    (y : List Tok) (f : Nat) (hf : 20 * sizeL (toksWiths d ch (some ws)) + 1 ≤ f) :
    pStatement d f (toksWiths d ch (some ws) ++ opTok w :: y) = stmtBody d f ws (opTok w :: y) := by
  obtain ⟨k1, k2, k3, k4⟩ := kw_body w hw
  have hp := with_ok hch ws hws (opTok w :: y) (by simpa [searchStr] using k2) (by simpa [searchStrUp] using k3) f hf
  simp only at hp
  have hd : pStatement d f (toksWiths d ch (some ws) ++ opTok w :: y) = stmtTail d f (toksWiths d ch (some ws) ++ opTok w :: y) := by
    cases ws with
    | nil => simpa [toksWiths] using stmt_dispatch (d := d) (opTok w) w k1 k4 y f
    | cons a r =>
      simp only [toksWiths, List.cons_append]
      exact stmt_dispatch (opTok "WITH") "WITH" kw_withword.1 kw_withword.2 _ f
  rw [hd]
  unfold stmtTail
  simp only [hp]

theorem kw_heads : (opTok "SELECT").srcEqUp "SELECT" = true ∧ (opTok "INSERT").srcEqUp "SELECT" = false ∧ (opTok "INSERT").srcEqUp "INSERT" = true ∧
    (opTok "UPDATE").srcEqUp "SELECT" = false ∧ (opTok "UPDATE").srcEqUp "INSERT" = false ∧ (opTok "UPDATE").srcEqUp "UPDATE" = true := by decide
theorem headRec (hch : ChOK d ch) (h : InsertHead) (hh : headOK d h = true) : (∃ ws, h.withs = some ws ∧ withsOK d (some ws) = true) ∧ HeadRec d ch h := by
  simp only [headOK, Bool.and_eq_true] at hh
  obtain ⟨⟨⟨⟨h1, h2⟩, h3⟩, h4⟩, h5⟩ := hh
  refine ⟨?_, ⟨h2, h3, partRec hch _ h4, h5⟩⟩
  cases hw : h.withs with
  | none => rw [hw] at h1; simp [withsOK] at h1
  | some ws => exact ⟨ws, rfl, by rw [hw] at h1; exact h1⟩
theorem rows_rec (hch : ChOK d ch) (vs : List (List Expr)) (h : vs.all (FragL3 d) = true) : ∀ r ∈ vs, ∀ e ∈ r, RT3 d ch e := by
  intro r hr e he
  have h1 := List.all_eq_true.1 h r hr
  exact rt3 hch e (frag2L_mem r h1 e he).1

/-- **the statement level** -/
theorem stmt_ok (hch : ChOK d ch) (tb : Bool) (s : Stmt) (hs : FragStmt d s = true) (rest : List Tok) (hr : stopsStmt d rest = true) :
    OkAt (fun f => pStatement d f (toksStmtG d ch tb s ++ rest)) (20 * sizeL (toksStmtG d ch tb s) + 16) (s, rest) := by
  have hb := stops_bd hr
  obtain ⟨kS, kI1, kI2, kU1, kU2, kU3⟩ := kw_heads
  cases s with
  | delete t wh ob lm =>
    simp only [FragStmt, Bool.and_eq_true] at hs
    obtain ⟨⟨⟨h1, h2⟩, h3⟩, h4⟩ := hs
    intro f hf'
    simp only [toksStmtG, sizeL_cons, size_opTok] at hf'
    have := delete_stmt t wh ob lm h1 (optRec hch wh h2) (orderRec hch ob h3) h4 rest hb f (by omega)
    simpa [toksStmtG] using this
  | update w t sets wh ob lm =>
    simp only [FragStmt, Bool.and_eq_true, Bool.not_eq_true'] at hs
    obtain ⟨⟨⟨⟨⟨⟨h0, h1⟩, hne⟩, hsets⟩, h2⟩, h3⟩, h4⟩ := hs
    cases w with
    | none => simp [withsOK] at h0
    | some ws =>
      cases sets with
      | nil => simp at hne
      | cons p ss =>
        have hsets' := List.all_eq_true.1 hsets
        intro f hf'
        simp only [toksStmtG, sizeL_append, sizeL_cons, size_opTok] at hf'
        have hd := with_stmt hch ws h0 "UPDATE" (by simp)
          (tblTok t.schema t.name :: opTok "SET" :: (toksSets d ch (p :: ss) ++ (toksTail d ch wh ob lm ++ rest))) f (by omega)
        have hu := update_ok (some ws) t p ss wh ob lm h1 (setRec hch p (hsets' p (by simp))) (fun q hq => setRec hch q (hsets' q (by simp [hq])))
          (optRec hch wh h2) (orderRec hch ob h3) h4 rest hb f (by simp only [sizeL_append]; omega)
        simp only at hu
        show pStatement d f (toksStmtG d ch tb (.update (some ws) t (p :: ss) wh ob lm) ++ rest) = _
        simp only [toksStmtG, List.append_assoc, List.cons_append]
        rw [hd]
        unfold stmtBody
        simp only [searchStrUp, kU1, kU2, kU3, Bool.false_eq_true, if_false, if_true, hu]
  | insertValues h vs =>
    simp only [FragStmt, Bool.and_eq_true] at hs
    obtain ⟨⟨ws, hw, hws⟩, hh⟩ := headRec hch h hs.1
    obtain ⟨y, hy⟩ := insertWords_head h.type hh.ty
    intro f hf'
    simp only [toksStmtG, hw, sizeL_append] at hf'
    have hd := with_stmt hch ws hws "INSERT" (by simp)
      (y ++ ((if tb then [opTok "TABLE"] else []) ++ (tblTok h.table.schema h.table.name :: (toksPart d ch h.partition ++ toksColNames h.columns))) ++
        opTok "VALUES" :: (toksRows d ch vs ++ rest)) f (by omega)
    have hi := insert_values_ok tb h ws hw hh vs (rows_rec hch vs hs.2) rest hb f (by simp only [sizeL_append]; omega)
    simp only at hi
    show pStatement d f (toksStmtG d ch tb (.insertValues h vs) ++ rest) = _
    simp only [toksStmtG, hw, List.append_assoc, List.cons_append]
    simp only [toksTarget, hy, List.append_assoc, List.cons_append] at hd hi ⊢
    rw [hd]
    unfold stmtBody
    simp only [searchStrUp, kI1, kI2, Bool.false_eq_true, if_false, if_true, hi]
  | insertSelect h q =>
    simp only [FragStmt, Bool.and_eq_true] at hs
    obtain ⟨⟨ws, hw, hws⟩, hh⟩ := headRec hch h hs.1
    obtain ⟨y, hy⟩ := insertWords_head h.type hh.ty
    intro f hf'
    simp only [toksStmtG, hw, sizeL_append] at hf'
    have hd := with_stmt hch ws hws "INSERT" (by simp)
      (y ++ ((if tb then [opTok "TABLE"] else []) ++ (tblTok h.table.schema h.table.name :: (toksPart d ch h.partition ++ toksColNames h.columns))) ++
        (toksQ d ch q ++ rest)) f (by omega)
    have hi := insert_query_ok hch tb h ws hw hh q hs.2 rest hr f (by simp only [sizeL_append]; omega)
    simp only at hi
    show pStatement d f (toksStmtG d ch tb (.insertSelect h q) ++ rest) = _
    simp only [toksStmtG, hw, List.append_assoc, List.cons_append]
    simp only [toksTarget, hy, List.append_assoc, List.cons_append] at hd hi ⊢
    rw [hd]
    unfold stmtBody
    simp only [searchStrUp, kI1, kI2, Bool.false_eq_true, if_false, if_true, hi]
  | select q =>
    simp only [FragStmt, Bool.and_eq_true] at hs
    obtain ⟨h0, hq⟩ := hs
    cases hw : withsOf q with
    | none => rw [hw] at h0; simp [withsOK] at h0
    | some ws =>
      rw [hw] at h0
      obtain ⟨x, hx⟩ := toksQ_head hch (stripW q) hq
      rw [toksQ_stripW] at hx
      intro f hf'
      simp only [toksStmtG, hw, sizeL_append] at hf'
      have hd := with_stmt hch ws h0 "SELECT" (by simp) (x ++ rest) f (by omega)
      have hp := query_ws hch ws (stripW q) hq rest hr f (by rw [toksQ_stripW]; omega)
      simp only [toksQ_stripW, setQW_stripW q ws hw] at hp
      show pStatement d f (toksStmtG d ch tb (.select q) ++ rest) = _
      simp only [toksStmtG, hw, List.append_assoc]
      simp only [hx, List.cons_append] at hd hp ⊢
      rw [hd]
      unfold stmtBody
      simp only [searchStrUp, kS, if_true, hp]
  | _ => simp [FragStmt] at hs

end TDM
