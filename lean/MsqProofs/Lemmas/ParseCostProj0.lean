import MsqModel.Parse.CostStmt
/-!
# C19, parser half: the cost model is a model OF the parser model — hand-written part

`(pX_k … κ).2 = pX …` for every function: the cost companion computes the same result as the function it counts, whatever the
accumulator.  The generated proofs (`tools/gen_cost.py`) unfold both definitions — the same term, the companion with its accumulator —
and walk them in lockstep (`proj_run`): a `split` of one side gives the equation that reduces the other side.
-/
set_option linter.unusedSimpArgs false
set_option linter.unusedVariables false
open Lex
namespace PM

theorem closed_k_snd {α : Type} (x : Nat × R α) : (closed_k x).2 = closed x.2 := rfl
theorem closed_k_fst {α : Type} (x : Nat × R α) : (closed_k x).1 = x.1 + cClosed x.2 := rfl
/-- one lockstep step through an `if` (the long `if` chains of the statement level defeat `split`) -/
theorem snd_ite {α β : Type} (c : Prop) [Decidable c] (a b : α × β) (a' b' : β) (h1 : c → a.2 = a') (h2 : ¬ c → b.2 = b') :
    (if c then a else b).2 = if c then a' else b' := by
  by_cases hc : c <;> simp [hc, h1, h2]
/-- lockstep case analysis of `(companion).2 = original` -/
macro "proj_run" : tactic =>
  `(tactic| ((try simp only [closed_k_snd, *]); (try dsimp only); repeat' (first | (with_reducible rfl) | (split <;> (try simp only [closed_k_snd, *, ↓reduceIte, if_true, if_false])) | (refine snd_ite _ _ _ _ _ (fun hc => ?_) (fun hc => ?_)) | (simp only [closed_k_snd, *]; done))))

theorem popSrc_proj (ts : List Tok) (κ : Nat) : (popSrc_k ts κ).2 = popSrc ts := rfl

theorem eachClosed_k_snd {α : Type} (pk : List Tok → Nat → Nat × R α) (p : List Tok → R α) (hp : ∀ s κ, (pk s κ).2 = p s) :
    ∀ segs κ, (eachClosed_k pk segs κ).2 = eachClosed p segs := by
  intro segs
  induction segs with
  | nil => intro κ; rfl
  | cons sg rest ih =>
    intro κ
    unfold eachClosed_k eachClosed
    simp only [closed_k_snd, hp]
    proj_run

end PM
