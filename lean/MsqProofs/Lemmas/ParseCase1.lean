import MsqProofs.Lemmas.ParseCase0
/-!
# C09, parser half — hand-written part 2: case-equivalent tokens; what the token-level tests of the parser see

See `ParseCase0.lean` for the definitions in words.  This file: `CE`, `CEL`, `CELL`; the result relations `CER`, `CEX`; and, for
`CE t t'`, every fact about a token the parser model ever uses:
same marks; same `up src` (hence the same answer to every case-INSENSITIVE comparison: `equalsStr`, `srcEqUp`, membership of
`up src` in a word set); the same answer to every case-SENSITIVE comparison with a literal that starts with an operator character
(`,` `.` `;` `*` `=` `-`, the compare / unary operator sets) because a case word is none of them; related children; the same `int()`;
stored names (`unifyName`) equal up to case; `splitName` related for NAME tokens.
-/
set_option linter.unusedSimpArgs false
set_option linter.unusedVariables false
open Lex Ast
namespace PM

/-! ### characters and words -/
def plainCh (c : Char) : Bool := c.isAlphanum || c == '_'
/-- a word whose letter case can vary: ASCII letters, digits, `_` only, and at least one letter -/
def caseWord (s : List Char) : Bool := s.all plainCh && s.any Char.isAlpha

theorem plainCh_lt (c : Char) (h : plainCh c = true) : c.toNat < 128 := by
  simp [plainCh, Char.isAlphanum, Char.isAlpha, Char.isUpper, Char.isLower, Char.isDigit, UInt32.le_iff_toNat_le] at h
  rcases h with ((h | h) | h) | h
  · omega
  · omega
  · omega
  · subst h; decide
theorem plainCh_ne (c x : Char) (h : plainCh c = true) (hx : plainCh x = false) : c ≠ x := by
  rintro rfl; rw [h] at hx; cases hx
theorem alpha_not_digit (c : Char) (h : c.isAlpha = true) : (c.isDigit || c == '_') = false := by
  simp [Char.isAlpha, Char.isUpper, Char.isLower, Char.isDigit, UInt32.le_iff_toNat_le] at h ⊢
  constructor
  · rcases h with h | h <;> (intro h1; omega)
  · rintro rfl; revert h; decide

theorem caseWord_ne_nil {s : List Char} (h : caseWord s = true) : s ≠ [] := by
  rintro rfl; simp [caseWord] at h
theorem caseWord_all {s : List Char} (h : caseWord s = true) : ∀ c ∈ s, plainCh c = true := by
  simp [caseWord] at h; exact h.1
theorem caseWord_head {s : List Char} (h : caseWord s = true) : ∃ c r, s = c :: r ∧ plainCh c = true := by
  cases s with
  | nil => exact absurd rfl (caseWord_ne_nil h)
  | cons c r => exact ⟨c, r, rfl, caseWord_all h c (by simp)⟩
theorem caseWord_no {s : List Char} (h : caseWord s = true) (x : Char) (hx : plainCh x = false) : x ∉ s := by
  intro hm; exact plainCh_ne _ _ (caseWord_all h x hm) hx rfl
theorem caseWord_not_digits {s : List Char} (h : caseWord s = true) : s.all (fun c => c.isDigit || c == '_') = false ∧ s.all Char.isDigit = false := by
  simp [caseWord] at h
  obtain ⟨c, hc, ha⟩ := h.2
  have := alpha_not_digit c ha
  simp at this
  constructor
  · simp; exact ⟨c, hc, this.1, this.2⟩
  · simp; exact ⟨c, hc, this.1⟩

/-! ### the relation on tokens -/
mutual
/-- the two tokens differ at most in the letter case of words -/
def CE : Tok → Tok → Prop
  | .single s m, .single s' m' => m = m' ∧ (s = s' ∨ (caseWord s = true ∧ caseWord s' = true ∧ Gen.pyUpper s = Gen.pyUpper s'))
  | .group k cs m, .group k' cs' m' => k = k' ∧ m = m' ∧ CEL cs cs' ∧ (m &&& NAME = 0 ∨ cs = cs')
  | .single _ _, .group _ _ _ => False
  | .group _ _ _, .single _ _ => False
def CEL : List Tok → List Tok → Prop
  | [], [] => True
  | t :: ts, t' :: ts' => CE t t' ∧ CEL ts ts'
  | [], _ :: _ => False
  | _ :: _, [] => False
end
/-- lists of segments -/
def CELL : List (List Tok) → List (List Tok) → Prop
  | [], [] => True
  | a :: as, b :: bs => CEL a b ∧ CELL as bs
  | [], _ :: _ => False
  | _ :: _, [] => False

@[simp, grind =] theorem cel_nil_nil : CEL [] [] = True := by simp [CEL]
@[simp, grind =] theorem cel_cons_cons (t t' : Tok) (ts ts' : List Tok) : CEL (t :: ts) (t' :: ts') = (CE t t' ∧ CEL ts ts') := by simp [CEL]
@[simp, grind =] theorem cel_nil_cons (t : Tok) (ts : List Tok) : CEL [] (t :: ts) = False := by simp [CEL]
@[simp, grind =] theorem cel_cons_nil (t : Tok) (ts : List Tok) : CEL (t :: ts) [] = False := by simp [CEL]
@[simp, grind =] theorem cell_nil_nil : CELL [] [] = True := by simp [CELL]
@[simp, grind =] theorem cell_cons_cons (a b : List Tok) (as bs : List (List Tok)) : CELL (a :: as) (b :: bs) = (CEL a b ∧ CELL as bs) := by simp [CELL]
@[simp, grind =] theorem cell_nil_cons (a : List Tok) (as : List (List Tok)) : CELL [] (a :: as) = False := by simp [CELL]
@[simp, grind =] theorem cell_cons_nil (a : List Tok) (as : List (List Tok)) : CELL (a :: as) [] = False := by simp [CELL]

mutual
theorem CE.refl : ∀ t : Tok, CE t t
  | .single s m => by simp [CE]
  | .group k cs m => by simp [CE]; exact CEL.refl cs
theorem CEL.refl : ∀ ts : List Tok, CEL ts ts
  | [] => by simp
  | t :: ts => by simp; exact ⟨CE.refl t, CEL.refl ts⟩
end
theorem cel_nil_left {ts : List Tok} (h : CEL [] ts) : ts = [] := by cases ts <;> simp_all
theorem cel_nil_right {ts : List Tok} (h : CEL ts []) : ts = [] := by cases ts <;> simp_all
theorem cel_cons_left {t : Tok} {ts r : List Tok} (h : CEL (t :: ts) r) : ∃ t' ts', r = t' :: ts' ∧ CE t t' ∧ CEL ts ts' := by
  cases r with | nil => simp at h | cons t' ts' => simp at h; exact ⟨t', ts', rfl, h⟩
theorem cel_cons_right {t : Tok} {ts r : List Tok} (h : CEL r (t :: ts)) : ∃ t' ts', r = t' :: ts' ∧ CE t' t ∧ CEL ts' ts := by
  cases r with | nil => simp at h | cons t' ts' => simp at h; exact ⟨t', ts', rfl, h⟩
grind_pattern cel_nil_left => CEL [] ts
grind_pattern cel_nil_right => CEL ts []
theorem cel_length {ts ts' : List Tok} (h : CEL ts ts') : ts.length = ts'.length := by
  induction ts generalizing ts' with
  | nil => rw [cel_nil_left h]
  | cons t ts ih => cases ts' with | nil => simp at h | cons t' ts' => simp at h; simp [ih h.2]
grind_pattern cel_length => CEL ts ts', ts.length
theorem cel_isEmpty {ts ts' : List Tok} (h : CEL ts ts') : ts.isEmpty = ts'.isEmpty := by
  cases ts <;> cases ts' <;> simp_all
grind_pattern cel_isEmpty => CEL ts ts', ts.isEmpty
theorem cel_drop {ts ts' : List Tok} (h : CEL ts ts') (n : Nat) : CEL (ts.drop n) (ts'.drop n) := by
  induction n generalizing ts ts' with
  | zero => simpa using h
  | succ n ih =>
    cases ts <;> cases ts' <;> simp_all
grind_pattern cel_drop => CEL ts ts', ts.drop n
theorem cel_append {a a' b b' : List Tok} (h1 : CEL a a') (h2 : CEL b b') : CEL (a ++ b) (a' ++ b') := by
  induction a generalizing a' with
  | nil => rw [cel_nil_left h1]; simpa using h2
  | cons t a ih => cases a' with | nil => simp at h1 | cons t' a' => simp at h1 ⊢; exact ⟨h1.1, ih h1.2⟩
grind_pattern cel_append => CEL a a', CEL b b', a ++ b
theorem cell_append {a a' b b' : List (List Tok)} (h1 : CELL a a') (h2 : CELL b b') : CELL (a ++ b) (a' ++ b') := by
  induction a generalizing a' with
  | nil => cases a' <;> simp_all
  | cons t a ih => cases a' with | nil => simp at h1 | cons t' a' => simp at h1 ⊢; exact ⟨h1.1, ih h1.2⟩

/-! ### the relation on runs -/
/-- both runs fail with the same error, or both succeed with related values and related remaining cursors -/
def CER {α : Type} (rv : α → α → Prop) (a b : R α) : Prop :=
  match a, b with
  | .ok (v, r), .ok (v', r') => rv v v' ∧ CEL r r'
  | .error e, .error e' => e = e'
  | _, _ => False
@[simp, grind =] theorem cer_ok_ok {α : Type} (rv : α → α → Prop) (v v' : α) (r r' : List Tok) :
    CER rv (.ok (v, r)) (.ok (v', r')) = (rv v v' ∧ CEL r r') := by simp [CER]
@[simp, grind =] theorem cer_err_err {α : Type} (rv : α → α → Prop) (e e' : Err) : CER rv (.error e) (.error e') = (e = e') := by simp [CER]
@[simp, grind =] theorem cer_ok_err {α : Type} (rv : α → α → Prop) (p : α × List Tok) (e : Err) : CER rv (.ok p) (.error e) = False := by
  obtain ⟨v, r⟩ := p; simp [CER]
@[simp, grind =] theorem cer_err_ok {α : Type} (rv : α → α → Prop) (p : α × List Tok) (e : Err) : CER rv (.error e) (.ok p) = False := by
  obtain ⟨v, r⟩ := p; simp [CER]
/-- the same for results without a cursor -/
def CEX {α : Type} (rv : α → α → Prop) (a b : Except Err α) : Prop :=
  match a, b with
  | .ok v, .ok v' => rv v v'
  | .error e, .error e' => e = e'
  | _, _ => False
@[simp, grind =] theorem cex_ok_ok {α : Type} (rv : α → α → Prop) (v v' : α) : CEX rv (.ok v) (.ok v') = rv v v' := by simp [CEX]
@[simp, grind =] theorem cex_err_err {α : Type} (rv : α → α → Prop) (e e' : Err) : CEX rv (.error e) (.error e') = (e = e') := by simp [CEX]
@[simp, grind =] theorem cex_ok_err {α : Type} (rv : α → α → Prop) (v : α) (e : Err) : CEX rv (.ok v) (.error e) = False := by simp [CEX]
@[simp, grind =] theorem cex_err_ok {α : Type} (rv : α → α → Prop) (v : α) (e : Err) : CEX rv (.error e) (.ok v) = False := by simp [CEX]
/-- related optional (value, cursor) pairs: `pKwBody`, `pBetween`, `pInBody` -/
def ceOpt {α : Type} (rv : α → α → Prop) (a b : Option (α × List Tok)) : Prop :=
  match a, b with
  | some (v, r), some (v', r') => rv v v' ∧ CEL r r'
  | none, none => True
  | _, _ => False
@[simp, grind =] theorem ceOpt_some_some {α : Type} (rv : α → α → Prop) (v v' : α) (r r' : List Tok) :
    ceOpt rv (some (v, r)) (some (v', r')) = (rv v v' ∧ CEL r r') := by simp [ceOpt]
@[simp, grind =] theorem ceOpt_none_none {α : Type} (rv : α → α → Prop) : ceOpt rv none none = True := by simp [ceOpt]
@[simp, grind =] theorem ceOpt_some_none {α : Type} (rv : α → α → Prop) (p : α × List Tok) : ceOpt rv (some p) none = False := by
  obtain ⟨v, r⟩ := p; simp [ceOpt]
@[simp, grind =] theorem ceOpt_none_some {α : Type} (rv : α → α → Prop) (p : α × List Tok) : ceOpt rv none (some p) = False := by
  obtain ⟨v, r⟩ := p; simp [ceOpt]

/-! ### `str.upper()` on strings built from character lists -/
theorem up_ofList (s : List Char) : up (String.ofList s) = String.ofList (Gen.pyUpper s) := by
  simp [up, Gen.pyUpperS]
theorem pyUpper_append (a b : List Char) : Gen.pyUpper (a ++ b) = Gen.pyUpper a ++ Gen.pyUpper b := by
  simp [Gen.pyUpper, Py.upperWith]
theorem up_append (a b : String) : up (a ++ b) = up a ++ up b := by
  simp [up, Gen.pyUpperS, pyUpper_append, String.ofList_append]

end PM
