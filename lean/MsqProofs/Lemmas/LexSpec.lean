import MsqModel.Lex.Spec
/-!
# Lemmas for C05: table = specification automaton, and what one step / one run of the lexer does

1. `Spec.agree_of_fin`: the finite check `Spec.agreeFin` (kernel-decided per generated table) implies agreement on
   EVERY state and EVERY character code; `Spec.lex_eq`: hence the two lexers are the same function.
2. class lemmas (`Spec.cellD_cofinite`): a fact "on every character of class P the cell is `o`" from a finite check.
3. step lemmas: what `handle` does for each operation of the vocabulary; run lemmas for loops.
-/
namespace Spec
open Lex

/-! ## 1. agreement on all of Unicode from the finite check -/

theorem isAscii_iff (c : Nat) : isAscii c = true ↔ c ∈ ascii := by
  simp only [isAscii, ascii, Bool.or_eq_true, Bool.and_eq_true, Nat.beq_eq, Nat.ble_eq, List.mem_cons,
    List.mem_range'_1]
  omega

theorem norm_of_not_ascii {c : Nat} (h : c ∉ ascii) : norm c = other := by
  have : isAscii c = false := by
    cases hc : isAscii c with
    | false => rfl
    | true => exact absurd ((isAscii_iff c).mp hc) h
  simp [norm, this]

theorem norm_other : norm other = other := by decide

theorem cellD_of_not_ascii (bits : Nat) (s : S) {c : Nat} (h : c ∉ ascii) : cellD bits s c = cellD bits s other := by
  simp only [cellD, cell, norm_of_not_ascii h, norm_other]

theorem lookupN_of_not_key (cfg : Cfg Gen.Cls) (s : S) (c : Nat) (h : c ∉ (cfg.rows s).map (·.1)) :
    lookupN cfg s c = cfg.dflt s := by
  have : (cfg.rows s).find? (fun e => Nat.beq e.1 c) = none := by
    rw [List.find?_eq_none]
    intro e he hec
    exact h (List.mem_map.mpr ⟨e, he, by simpa using hec⟩)
  simp [lookupN, this]

/-- the generated table and the specification agree on every state, every character code and at the end of the text -/
theorem agree_of_fin (cfg : Cfg Gen.Cls) (bits : Nat) (h : agreeFin cfg bits = true) (s : S) :
    (∀ c : Nat, lookupN cfg s c = cellD bits s c) ∧ cfg.atEnd s = atEndD bits s := by
  have hs := (List.all_eq_true.mp h) s (mem_allS s)
  simp only [Bool.and_eq_true, beq_iff_eq] at hs
  obtain ⟨⟨hp, hd⟩, he⟩ := hs
  refine ⟨fun c => ?_, he⟩
  have hp' := List.all_eq_true.mp hp
  by_cases ha : c ∈ ascii
  · simpa using hp' c (by simp [probe, ha])
  · by_cases hk : c ∈ (cfg.rows s).map (·.1)
    · have : c ∈ probe cfg s := by
        simp only [probe, List.mem_append, List.mem_filter]
        refine Or.inr ⟨hk, ?_⟩
        cases hc : isAscii c with
        | false => rfl
        | true => exact absurd ((isAscii_iff c).mp hc) ha
      simpa using hp' c this
    · rw [lookupN_of_not_key cfg s c hk, cellD_of_not_ascii bits s ha, hd]

/-- `Cfg.lookup` on a character is `lookupN` on its code (any table) -/
theorem lookup_ch (cfg : Cfg Gen.Cls) (s : S) (c : Char) : cfg.lookup s (.ch c) = lookupN cfg s c.toNat := by
  have hf : (fun e : Nat × Op => e.1 == c.toNat) = (fun e => Nat.beq e.1 c.toNat) := by
    funext e
    cases hb : Nat.beq e.1 c.toNat with
    | true => simpa using Nat.eq_of_beq_eq_true hb
    | false => simpa using Nat.ne_of_beq_eq_false hb
  simp only [Cfg.lookup, lookupN, hf]
  cases List.find? (fun e : Nat × Op => Nat.beq e.fst c.toNat) (cfg.rows s) <;> rfl

/-- with agreement, the table does not distinguish the characters the grammar does not distinguish -/
theorem lookupN_norm (cfg : Cfg Gen.Cls) (bits : Nat) (h : agreeFin cfg bits = true) (s : S) (n : Nat) :
    lookupN cfg s n = lookupN cfg s (norm n) := by
  rw [(agree_of_fin cfg bits h s).1 n, (agree_of_fin cfg bits h s).1 (norm n)]
  by_cases ha : n ∈ ascii
  · have : norm n = n := by simp [norm, (isAscii_iff n).mpr ha]
    rw [this]
  · rw [norm_of_not_ascii ha, cellD_of_not_ascii bits s ha]

theorem lookup_eq (cfg : Cfg Gen.Cls) (bits : Nat) (h : agreeFin cfg bits = true) (s : S) (sym : Sym) :
    cfg.lookup s sym = lookupD bits s sym := by
  cases sym with
  | eof => exact (agree_of_fin cfg bits h s).2
  | ch c =>
    have := (agree_of_fin cfg bits h s).1 c.toNat
    revert this
    have hf : (fun e : Nat × Op => e.1 == c.toNat) = (fun e => Nat.beq e.1 c.toNat) := by
      funext e
      cases hb : Nat.beq e.1 c.toNat with
      | true => simpa using Nat.eq_of_beq_eq_true hb
      | false => simpa using Nat.ne_of_beq_eq_false hb
    simp only [Cfg.lookup, lookupD, lookupN, hf]
    cases List.find? (fun e : Nat × Op => Nat.beq e.fst c.toNat) (cfg.rows s) <;> exact id

theorem handle_eq (cfg : Cfg Gen.Cls) (bits : Nat) (h : agreeFin cfg bits = true) :
    Lex.handle cfg = Spec.handle cfg bits := by
  funext text m sym
  simp only [Lex.handle, Spec.handle, lookup_eq cfg bits h]
  cases lookupD bits m.status sym <;> rfl

/-- congruence: with agreement on all cells the table-driven lexer and the specification lexer are the same function -/
theorem lex_eq (cfg : Cfg Gen.Cls) (bits : Nat) (h : agreeFin cfg bits = true) (raw : List Char) :
    Lex.lex cfg raw = Spec.lex cfg bits raw := by
  simp only [Lex.lex, Spec.lex, handle_eq cfg bits h]

/-! ## 2. class lemmas -/

/-- "on every character code of class `P` the cell of state `s` is `o`", for a class that contains every code outside
`ascii` (or none of them, when the second conjunct is replaced by `P other = false`…: see `cellD_class`) -/
theorem cellD_class (bits : Nat) (s : S) (P : Nat → Bool) (o : Option Op)
    (h : (ascii.all fun n => !P n || cellD bits s n == o) = true)
    (h' : (cellD bits s other == o) = true ∨ ∀ n, n ∉ ascii → P n = false) :
    ∀ n, P n = true → cellD bits s n = o := by
  intro n hn
  by_cases ha : n ∈ ascii
  · have := (List.all_eq_true.mp h) n ha
    simpa [hn] using this
  · rcases h' with h' | h'
    · rw [cellD_of_not_ascii bits s ha]; simpa using h'
    · rw [h' n ha] at hn; cases hn

/-- a property of the cell of state `s` for EVERY character code, from a finite check -/
theorem cellD_all (bits : Nat) (s : S) (Q : Option Op → Bool)
    (h : ((ascii.all fun n => Q (cellD bits s n)) && Q (cellD bits s other)) = true) : ∀ n, Q (cellD bits s n) = true := by
  intro n
  simp only [Bool.and_eq_true] at h
  by_cases ha : n ∈ ascii
  · exact (List.all_eq_true.mp h.1) n ha
  · rw [cellD_of_not_ascii bits s ha]; exact h.2

end Spec

namespace Lex

/-! ## 3a. the driver -/

theorem feedAllWith_append (h : Mem → Sym → Except Err (Mem × Bool)) (a b : List Char) (m : Mem) :
    feedAllWith h (a ++ b) m = (match feedAllWith h a m with | .ok m' => feedAllWith h b m' | .error e => .error e) := by
  induction a generalizing m with
  | nil => simp [feedAllWith]
  | cons c cs ih =>
    simp only [List.cons_append, feedAllWith]
    cases feedWith h m c with
    | error e => rfl
    | ok m' => exact ih m'

theorem feedAllWith_append_ok {h : Mem → Sym → Except Err (Mem × Bool)} {a : List Char} {m m' : Mem}
    (ha : feedAllWith h a m = .ok m') (b : List Char) : feedAllWith h (a ++ b) m = feedAllWith h b m' := by
  rw [feedAllWith_append, ha]

theorem feedAllWith_append_err {h : Mem → Sym → Except Err (Mem × Bool)} {a : List Char} {m : Mem} {e : Err}
    (ha : feedAllWith h a m = .error e) (b : List Char) : feedAllWith h (a ++ b) m = .error e := by
  rw [feedAllWith_append, ha]

theorem feedAllWith_one (h : Mem → Sym → Except Err (Mem × Bool)) (c : Char) (m : Mem) :
    feedAllWith h [c] m = feedWith h m c := by
  simp only [feedAllWith]
  cases feedWith h m c <;> rfl

theorem feedWith_adv {h : Mem → Sym → Except Err (Mem × Bool)} {m m1 : Mem} {c : Char}
    (h1 : h m (.ch c) = .ok (m1, true)) : feedWith h m c = .ok m1 := by
  simp [feedWith, h1]

theorem feedAllWith_cons_adv {h : Mem → Sym → Except Err (Mem × Bool)} {m m1 : Mem} {c : Char}
    (h1 : h m (.ch c) = .ok (m1, true)) (cs : List Char) : feedAllWith h (c :: cs) m = feedAllWith h cs m1 := by
  simp [feedAllWith, feedWith_adv h1]

theorem feedWith_retry {h : Mem → Sym → Except Err (Mem × Bool)} {m m1 : Mem} {c : Char}
    (h1 : h m (.ch c) = .ok (m1, false)) : feedWith h m c =
      (match h m1 (.ch c) with | .error e => .error e | .ok (m2, _) => .ok m2) := by
  simp only [feedWith, h1]
  rfl

theorem feedWith_err {h : Mem → Sym → Except Err (Mem × Bool)} {m : Mem} {c : Char} {e : Err}
    (h1 : h m (.ch c) = .error e) : feedWith h m c = .error e := by
  simp [feedWith, h1]

/-- the part of `lex` after the pre-pass -/
def lexText (cfg : Cfg Gen.Cls) (text : List Char) : Except Err (List Tok) :=
  match feedAllWith (handle cfg text) text {} with
  | .error e => .error e
  | .ok m =>
    match handle cfg text m .eof with
    | .error e => .error e
    | .ok (m', _) => finish cfg m'

theorem lex_eq_lexText (cfg : Cfg Gen.Cls) (raw : List Char) : lex cfg raw = lexText cfg (cfg.pre raw) := rfl

/-! ## 3b. the pre-pass leaves a text without TAB, CR, U+3000 alone -/

theorem replaceGo_noop (p0 : Char) (ps rep : List Char) (f : Nat) (t : List Char) (h : p0 ∉ t) :
    Py.replaceGo (p0 :: ps) rep f t = t := by
  induction f generalizing t with
  | zero => rfl
  | succ f ih =>
    cases t with
    | nil => rfl
    | cons c r =>
      have hc : p0 ≠ c := fun e => h (by simp [e])
      have hr : p0 ∉ r := fun e => h (by simp [e])
      simp [Py.replaceGo, List.isPrefixOf, hc, ih r hr]

/-- no pattern of the replacement chain can match in `t`: the first character of each pattern does not occur -/
def Untouched (chain : List (List Char × List Char)) (t : List Char) : Prop :=
  ∀ pr ∈ chain, match pr.1 with | [] => True | p0 :: _ => p0 ∉ t

theorem preWith_noop (chain : List (List Char × List Char)) (t : List Char) (h : Untouched chain t) :
    preWith chain t = t := by
  induction chain with
  | nil => rfl
  | cons pr rest ih =>
    have h1 := h pr (by simp)
    have hrest : Untouched rest t := fun q hq => h q (by simp [hq])
    have : Py.replace pr.1 pr.2 t = t := by
      cases hp : pr.1 with
      | nil => simp [Py.replace]
      | cons p0 ps =>
        rw [hp] at h1
        simp [Py.replace, replaceGo_noop p0 ps pr.2 _ t h1]
    simp only [preWith, List.foldl_cons, this]
    exact ih hrest

/-! ## 3c. what `handle` does for each operation of the vocabulary (for any table with the generated micro-code) -/

section steps
variable {cfg : Cfg Gen.Cls} (hc : cfg.code = Gen.Cls.code) {text : List Char} {m : Mem} {sym : Sym}
include hc

/-- the window of pending characters -/
abbrev win (text : List Char) (m : Mem) (now : Nat) : List Char := (text.drop m.start).take (now - m.start)

theorem handle_addTo {q : S} (hl : cfg.lookup m.status sym = some (Spec.addTo q)) :
    handle cfg text m sym = .ok ({ m with now := m.now + 1, status := q }, true) := by
  simp [handle, hl, Spec.addTo, hc, Gen.Cls.code, exec]

theorem handle_reject (hl : cfg.lookup m.status sym = some Spec.reject) :
    handle cfg text m sym = .error .lexical := by
  cases sym <;> simp [handle, hl, Spec.reject, hc, Gen.Cls.code, exec]

theorem handle_emitBefore {k : Nat} {f : List Tok} {fs : List (List Tok)}
    (hl : cfg.lookup m.status sym = some (Spec.emitBefore k)) (hs : m.stack = f :: fs) :
    handle cfg text m sym =
      .ok (⟨m.now, m.now, .WAIT, (f ++ [.single (win text m m.now) k]) :: fs⟩, false) := by
  simp [handle, hl, Spec.emitBefore, hc, Gen.Cls.code, exec, hs, appendTop, resolveMarks, Cfg.env]

theorem handle_emitWordBefore {f : List Tok} {fs : List (List Tok)}
    (hl : cfg.lookup m.status sym = some Spec.emitWordBefore) (hs : m.stack = f :: fs) :
    handle cfg text m sym =
      .ok (⟨m.now, m.now, .WAIT,
        (f ++ [.single (win text m m.now) (resolveMarks cfg.upper cfg.wordMarks 0 (win text m m.now) (.word 2))]) :: fs⟩,
        false) := by
  simp [handle, hl, Spec.emitWordBefore, hc, Gen.Cls.code, exec, hs, appendTop, Cfg.env]

theorem handle_emitWith {k : Nat} {f : List Tok} {fs : List (List Tok)}
    (hl : cfg.lookup m.status sym = some (Spec.emitWith k)) (hs : m.stack = f :: fs) :
    handle cfg text m sym =
      .ok (⟨m.now + 1, m.now + 1, .WAIT, (f ++ [.single (win text m (m.now + 1)) k]) :: fs⟩, true) := by
  simp [handle, hl, Spec.emitWith, hc, Gen.Cls.code, exec, hs, appendTop, resolveMarks, Cfg.env]

theorem handle_emitStay {k : Nat} {f : List Tok} {fs : List (List Tok)}
    (hl : cfg.lookup m.status sym = some (Spec.emitStay k)) (hs : m.stack = f :: fs) :
    handle cfg text m sym =
      .ok (⟨m.now + 1, m.now + 1, m.status, (f ++ [.single (win text m (m.now + 1)) k]) :: fs⟩, true) := by
  simp [handle, hl, Spec.emitStay, hc, Gen.Cls.code, exec, hs, appendTop, resolveMarks, Cfg.env]

theorem handle_emitAtEnd {k : Nat} {f : List Tok} {fs : List (List Tok)}
    (hl : cfg.lookup m.status sym = some (Spec.emitAtEnd k)) (hs : m.stack = f :: fs) :
    handle cfg text m sym =
      .ok (⟨m.now, m.now, .END, (f ++ [.single (win text m m.now) k]) :: fs⟩, true) := by
  simp [handle, hl, Spec.emitAtEnd, hc, Gen.Cls.code, exec, hs, appendTop, resolveMarks, Cfg.env]

theorem handle_emitWordAtEnd {f : List Tok} {fs : List (List Tok)}
    (hl : cfg.lookup m.status sym = some Spec.emitWordAtEnd) (hs : m.stack = f :: fs) :
    handle cfg text m sym =
      .ok (⟨m.now, m.now, .END,
        (f ++ [.single (win text m m.now) (resolveMarks cfg.upper cfg.wordMarks 0 (win text m m.now) (.word 2))]) :: fs⟩,
        true) := by
  simp [handle, hl, Spec.emitWordAtEnd, hc, Gen.Cls.code, exec, hs, appendTop, Cfg.env]

theorem handle_skip (hl : cfg.lookup m.status sym = some Spec.skip) :
    handle cfg text m sym = .ok (⟨m.now + 1, m.now + 1, m.status, m.stack⟩, true) := by
  simp [handle, hl, Spec.skip, hc, Gen.Cls.code, exec]

theorem handle_skipWith (hl : cfg.lookup m.status sym = some Spec.skipWith) :
    handle cfg text m sym = .ok (⟨m.now + 1, m.now + 1, .WAIT, m.stack⟩, true) := by
  simp [handle, hl, Spec.skipWith, hc, Gen.Cls.code, exec]

theorem handle_dropBefore (hl : cfg.lookup m.status sym = some Spec.dropBefore) :
    handle cfg text m sym = .ok (⟨m.now, m.now, .WAIT, m.stack⟩, false) := by
  simp [handle, hl, Spec.dropBefore, hc, Gen.Cls.code, exec]

theorem handle_dropAtEnd (hl : cfg.lookup m.status sym = some Spec.dropAtEnd) :
    handle cfg text m sym = .ok (⟨m.now, m.now, .END, m.stack⟩, true) := by
  simp [handle, hl, Spec.dropAtEnd, hc, Gen.Cls.code, exec]

theorem handle_finish (hl : cfg.lookup m.status sym = some Spec.finish) :
    handle cfg text m sym = .ok ({ m with status := .END }, true) := by
  simp [handle, hl, Spec.finish, hc, Gen.Cls.code, exec]

theorem handle_openParen (hl : cfg.lookup m.status sym = some Spec.openParen) :
    handle cfg text m sym = .ok (⟨m.now + 1, m.now + 1, m.status, [] :: m.stack⟩, true) := by
  simp [handle, hl, Spec.openParen, hc, Gen.Cls.code, exec]

theorem handle_closeParen_top {f : List Tok} (hl : cfg.lookup m.status sym = some Spec.closeParen)
    (hs : m.stack = [f]) : handle cfg text m sym = .error .lexical := by
  simp [handle, hl, Spec.closeParen, hc, Gen.Cls.code, exec, hs]

/-- a loop: in state `q` every character of class `P` is taken into the window and `q` is kept -/
theorem feedAll_loop {q : S} (P : Char → Prop) (hstep : ∀ c, P c → cfg.lookup q (.ch c) = some (Spec.addTo q))
    (p : List Char) (hp : ∀ c ∈ p, P c) (st nw : Nat) (stk : List (List Tok)) :
    feedAllWith (handle cfg text) p ⟨st, nw, q, stk⟩ = .ok ⟨st, nw + p.length, q, stk⟩ := by
  induction p generalizing nw with
  | nil => rfl
  | cons c cs ih =>
    have h1 : handle cfg text ⟨st, nw, q, stk⟩ (.ch c) = .ok (⟨st, nw + 1, q, stk⟩, true) :=
      handle_addTo hc (m := ⟨st, nw, q, stk⟩) (hstep c (hp c (by simp)))
    simp only [feedAllWith, feedWith_adv h1]
    rw [ih (fun d hd => hp d (by simp [hd])) (nw + 1)]
    simp only [List.length_cons]
    congr 2
    omega

end steps

/-- the result of a run: `finish` on a memory in the END state with one closed frame -/
theorem finish_end (cfg : Cfg Gen.Cls) (hd : cfg.depthLimit = 1) (he : cfg.endStatus = .END) (st nw : Nat)
    (f : List Tok) : finish cfg ⟨st, nw, .END, [f]⟩ = .ok f := by
  simp [finish, hd, he]

theorem finish_open (cfg : Cfg Gen.Cls) (hd : cfg.depthLimit = 1) (he : cfg.endStatus = .END) (st nw : Nat)
    (f g : List Tok) (fs : List (List Tok)) : finish cfg ⟨st, nw, .END, f :: g :: fs⟩ = .error .lexical := by
  simp [finish, hd, he]

theorem lexText_ok {cfg : Cfg Gen.Cls} {text : List Char} {m m' : Mem} {b : Bool}
    (h1 : feedAllWith (handle cfg text) text {} = .ok m) (h2 : handle cfg text m .eof = .ok (m', b)) :
    lexText cfg text = finish cfg m' := by
  simp [lexText, h1, h2]

theorem lexText_err_eof {cfg : Cfg Gen.Cls} {text : List Char} {m : Mem} {e : Err}
    (h1 : feedAllWith (handle cfg text) text {} = .ok m) (h2 : handle cfg text m .eof = .error e) :
    lexText cfg text = .error e := by
  simp [lexText, h1, h2]

theorem lexText_err_feed {cfg : Cfg Gen.Cls} {text : List Char} {e : Err}
    (h1 : feedAllWith (handle cfg text) text {} = .error e) : lexText cfg text = .error e := by
  simp [lexText, h1]

/-! ## 3d. characters and codes; plain texts; windows -/

theorem isCh_toNat (c ch : Char) : Spec.isCh c.toNat ch = decide (c = ch) := by
  simp only [Spec.isCh]
  by_cases h : c = ch
  · subst h; simp
  · have : c.toNat ≠ ch.toNat := fun e => h (Char.toNat_inj.mp e)
    cases hb : Nat.beq c.toNat ch.toNat with
    | true => exact absurd (Nat.eq_of_beq_eq_true hb) this
    | false => simp [h]

/-- `c` is not the first character of any pattern of the pre-pass replacement chain -/
def Plain (chain : List (List Char × List Char)) (c : Char) : Bool :=
  chain.all fun pr => match pr.1 with | [] => true | p0 :: _ => p0 != c

theorem untouched_of_plain (chain : List (List Char × List Char)) (t : List Char)
    (h : ∀ c ∈ t, Plain chain c = true) : Untouched chain t := by
  intro pr hpr
  cases hp : pr.1 with
  | nil => trivial
  | cons p0 ps =>
    show p0 ∉ t
    intro hm
    have := List.all_eq_true.mp (h p0 hm) pr hpr
    simp [hp] at this

theorem lex_plain (cfg : Cfg Gen.Cls) (raw : List Char) (h : ∀ c ∈ raw, Plain cfg.preChain c = true) :
    lex cfg raw = lexText cfg raw := by
  rw [lex_eq_lexText, Cfg.pre, preWith_noop _ _ (untouched_of_plain _ _ h)]

theorem win_mid (pfx w rest : List Char) (now : Nat) (q : S) (stk : List (List Tok)) :
    win (pfx ++ w ++ rest) ⟨pfx.length, now, q, stk⟩ (pfx.length + w.length) = w := by
  simp [win]

theorem win_all (w : List Char) (now : Nat) (q : S) (stk : List (List Tok)) :
    win w ⟨0, now, q, stk⟩ w.length = w := by
  simp [win]

theorem win_init (w rest : List Char) (now : Nat) (q : S) (stk : List (List Tok)) :
    win (w ++ rest) ⟨0, now, q, stk⟩ w.length = w := by
  simp [win]

end Lex
