import MsqProofs.Lemmas.LexLinkQ2S
import MsqProofs.Lemmas.LexLinkDml1
/-!
# The lexer link for the larger fragment: the NEW clauses of a SELECT (hand-written) and the SELECT record

JOIN … USING (the rule is a call), LATERAL VIEW, GROUP BY with GROUPING SETS / WITH CUBE / WITH ROLLUP, ORDER BY / SORT BY with all item
suffixes, DISTRIBUTE BY / CLUSTER BY; `gs_select` assembles the thirteen clauses.
-/
set_option linter.unusedVariables false
set_option linter.unusedSimpArgs false
namespace LL2
open Lex Spec C05 C06 C09 Ast TP TS LexLink TQ2
open TQ (tblTok unionWords isExists)
open LLD (ps pc lx_pc q_pc seg_sp sp pc_cons pc_nil pc_append pc_join lx_qname)

section
variable {d : Gen.D} {K : QKit}

/-! ## JOINs -/

structure GJ4 (d : Gen.D) (K : QKit) (j : Join) : Prop where
  lx : Lx (join4L d j) (toksJoin4 d noX j)
  pr : PR.prJoin d j = .ok (String.ofList (join4L d j))
  q : K.Q (join4L d j)

theorem joins4LL_eq (js : List Join) : joins4LL d js = js.map (join4L d) := by
  induction js with
  | nil => simp [joins4LL]
  | cons j r ih => simp [joins4LL, ih]
theorem toksJoins4_eq (js : List Join) : toksJoins4 d noX js = (js.map (toksJoin4 d noX)).flatten := by
  induction js with
  | nil => simp [toksJoins4]
  | cons j r ih => simp [toksJoins4, ih]

theorem lx_joinWords4 (ty : String) (h : joinTyOK4 d ty = true) : Lx (joinWordsL ty) (joinWords ty) := by
  cases hf : Gen.joinTypes.find? (·.1 == ty) with
  | none =>
    simp only [joinTyOK4, joinWords, hf, Bool.and_eq_true] at h
    exact absurd h.2 (by simp)
  | some e =>
    have hm := List.mem_of_find?_eq_some hf
    have hw := (List.all_eq_true.mp join_words_lex) e hm
    simp only [List.all_eq_true] at hw
    simp only [joinWordsL, joinWords, hf]
    cases he : e.2 with
    | nil =>
      simp only [joinTyOK4, joinWords, hf, he, List.map_nil, Bool.and_eq_true] at h
      exact absurd h.2 (by simp)
    | cons w ws =>
      refine lx_wordList ws w fun v hv => ?_
      rw [opTok_eq]; exact lx_of_is (hw v (by rw [he]; exact hv))

theorem wordsSrc_join4 (ty : String) (h : joinTyOK4 d ty = true) :
    ∃ s, PR.wordsSrc Gen.joinTypes ty = .ok s ∧ s.toList = joinWordsL ty := by
  cases hf : Gen.joinTypes.find? (·.1 == ty) with
  | none =>
    simp only [joinTyOK4, joinWords, hf, Bool.and_eq_true] at h
    exact absurd h.2 (by simp)
  | some e =>
    refine ⟨PR.joinS " " e.2, by simp [PR.wordsSrc, hf], ?_⟩
    rw [toList_joinS]
    simp only [joinWordsL, hf]
    rfl

theorem gj_join (ty : String) (t : FromTable) (rule : Option JoinRule) (hty : joinTyOK4 d ty = true) (ht : GT4 d K t)
    (hr : rule = none ∨ (∃ e, rule = some (.on e) ∧ GE4 d K e) ∨ (∃ u, rule = some (.using u) ∧ GE4 d K u)) : GJ4 d K (.mk ty t rule) where
  lx := by
    have hw := lx_joinWords4 (d := d) ty hty
    have htr : Lx (table4L d t ++ rule4L d rule) (toksTable4 d noX t ++ toksRule4 d noX rule) := by
      rcases hr with rfl | ⟨e, rfl, he⟩ | ⟨u, rfl, hu⟩
      · simpa [rule4L, toksRule4] using ht.lx
      · exact Lx.congr (Lx.sep ht.lx (lx_kwThen "ON" (by simp [clauseWords]) he.lx)) (by simp [rule4L]) (by simp [toksRule4])
      · exact Lx.congr (Lx.sep ht.lx hu.lx) (by simp [rule4L]) (by simp [toksRule4])
    exact Lx.congr (Lx.sep hw htr) (by simp [join4L]) (by simp [toksJoin4])
  pr := by
    obtain ⟨tys, h1, h1l⟩ := wordsSrc_join4 (d := d) ty hty
    rcases hr with rfl | ⟨e, rfl, he⟩ | ⟨u, rfl, hu⟩
    · simp only [PR.prJoin, h1, ht.pr, bind, Except.bind, pure, Except.pure]
      refine ok_ofList ?_
      simp [toString, String.toList_append, String.toList_ofList, h1l, join4L, rule4L]
    · simp only [PR.prJoin, h1, ht.pr, he.pr, bind, Except.bind, pure, Except.pure]
      refine ok_ofList ?_
      simp [toString, String.toList_append, String.toList_ofList, h1l, join4L, rule4L]
    · simp only [PR.prJoin, h1, ht.pr, hu.pr, bind, Except.bind, pure, Except.pure]
      refine ok_ofList ?_
      simp [toString, String.toList_append, String.toList_ofList, h1l, join4L, rule4L]
  q := by
    have hall : K.Q (table4L d t ++ rule4L d rule) := by
      rcases hr with rfl | ⟨e, rfl, he⟩ | ⟨u, rfl, hu⟩
      · simpa [rule4L] using ht.q
      · exact K.sp ht.q (K.sp (K.word "ON" (mem_cw (by simp [clauseWords]))) he.q)
      · exact K.sp ht.q hu.q
    exact K.sp (q_joinWords K ty) hall

theorem pr_joinList (js : List Join) : (∀ j ∈ js, GJ4 d K j) → PR.prJoinList d js = .ok ((js.map (join4L d)).map String.ofList) := by
  induction js with
  | nil => intro _; rfl
  | cons j r ih =>
    intro h
    have h1 := (h j (by simp)).pr
    have h2 := ih fun y hy => h y (by simp [hy])
    simp only [PR.prJoinList, h1, h2, bind, Except.bind, pure, Except.pure, List.map_cons]

theorem cl_joins (js : List Join) (h : ∀ j ∈ js, GJ4 d K j) : CL K (PR.prJoinList d js) (joins4LL d js) (toksJoins4 d noX js) := by
  refine ⟨?_, ?_, ?_⟩
  · rw [joins4LL_eq, toksJoins4_eq]
    exact Seg.map nl _ _ js fun j hj => (h j hj).lx
  · rw [joins4LL_eq]; exact pr_joinList js h
  · intro x hx
    rw [joins4LL_eq] at hx
    obtain ⟨j, hj, rfl⟩ := List.mem_map.mp hx
    exact (h j hj).q

/-! ## LATERAL VIEW -/

structure GL4 (d : Gen.D) (K : QKit) (l : Lateral) : Prop where
  lx : Lx (lat4L d l) (toksLat4 d noX l)
  pr : PR.prLateral d l = .ok (String.ofList (lat4L d l))
  q : K.Q (lat4L d l)

theorem aliasTail_eq : ∀ (x : String) (xs : List String), aliasTail (x :: xs) = TS.commaTok :: ([TP2.qTok x] ++ aliasTail xs) := by
  intro x xs; simp [aliasTail, TS.commaTok, TP2.commaTok]

theorem gl_lat (hK : QW2 K) (o : Bool) (fn : Expr) (v : String) (as : List String) (hfn : GE4 d K fn) (hv : PR.isPlainName v = true)
    (hqv : K.Q v.toList) (has : ∀ a ∈ as, nameLex a ∧ K.Q a.toList) (hne : as ≠ []) : GL4 d K (.mk o fn v as) := by
  have hAs : Lx (joinLL [',', ' '] (as.map qnameL)) (aliasList as) ∧ K.Q (joinLL [',', ' '] (as.map qnameL)) := by
    cases as with
    | nil => exact absurd rfl hne
    | cons a r =>
      refine ⟨?_, K.joinLL2 _ fun y hy => ?_⟩
      · have := lx_commaList qnameL (fun a => [TP2.qTok a]) aliasTail (by simp [aliasTail]) aliasTail_eq r a (lx_qname a (has a (by simp)).1)
          (fun y hy => lx_qname y (has y (by simp [hy])).1)
        exact Lx.congr this rfl (by simp [aliasList])
      · obtain ⟨a', ha', rfl⟩ := List.mem_map.mp hy
        exact q_qname a' (has a' ha').2
  have hV : Lx v.toList [opTok v] := by
    rw [opTok_eq]; exact lx_plain v.toList (by rw [← isPlainName_plainL]; exact hv)
  have hrest : Lx (prE4L d fn ++ ' ' :: (v.toList ++ ' ' :: ("AS".toList ++ ' ' :: joinLL [',', ' '] (as.map qnameL))))
      (toksE4 d noX fn ++ opTok v :: opTok "AS" :: aliasList as) :=
    Lx.congr (Lx.sep hfn.lx (Lx.sep hV (lx_kwThen "AS" (by simp [clauseWords]) hAs.1))) rfl (by simp)
  have qrest : K.Q (prE4L d fn ++ ' ' :: (v.toList ++ ' ' :: ("AS".toList ++ ' ' :: joinLL [',', ' '] (as.map qnameL)))) :=
    K.sp hfn.q (K.sp hqv (K.sp (K.word "AS" (mem_cw (by simp [clauseWords]))) hAs.2))
  have hL := lx_w2 "LATERAL" (by simp [q2Words])
  have hVw := lx_w2 "VIEW" (by simp [q2Words])
  refine ⟨?_, ?_, ?_⟩
  · cases o with
    | false =>
      exact Lx.congr (Lx.sep hL (Lx.sep hVw hrest)) (by simp [lat4L, latL]) (by simp [toksLat4])
    | true =>
      exact Lx.congr (Lx.sep hL (Lx.sep hVw (Lx.sep (lx_w2 "OUTER" (by simp [q2Words])) hrest))) (by simp [lat4L, latL]) (by simp [toksLat4])
  · simp only [PR.prLateral, hfn.pr, Except.map]
    refine ok_ofList ?_
    have e3 : (", " : String).toList = [',', ' '] := rfl
    have hq : (as.map PR.quoteName).map String.toList = as.map qnameL := by
      rw [List.map_map]; exact List.map_congr_left fun a _ => quoteName_toList a
    cases o <;> simp [toString, String.toList_append, String.toList_ofList, toList_joinS, hq, e3, lat4L, latL]
  · cases o with
    | false =>
      have := K.sp (hK.ws "LATERAL" (by simp [q2Words])) (K.sp (hK.ws "VIEW" (by simp [q2Words])) qrest)
      simpa [lat4L, latL] using this
    | true =>
      have := K.sp (hK.ws "LATERAL" (by simp [q2Words])) (K.sp (hK.ws "VIEW" (by simp [q2Words])) (K.sp (hK.ws "OUTER" (by simp [q2Words])) qrest))
      simpa [lat4L, latL] using this

theorem lats4LL_eq (ls : List Lateral) : lats4LL d ls = ls.map (lat4L d) := by
  induction ls with
  | nil => simp [lats4LL]
  | cons l r ih => simp [lats4LL, ih]
theorem toksLats4_eq (ls : List Lateral) : toksLats4 d noX ls = (ls.map (toksLat4 d noX)).flatten := by
  induction ls with
  | nil => simp [toksLats4]
  | cons l r ih => simp [toksLats4, ih]
theorem pr_latList (ls : List Lateral) : (∀ l ∈ ls, GL4 d K l) → PR.prLateralList d ls = .ok ((ls.map (lat4L d)).map String.ofList) := by
  induction ls with
  | nil => intro _; rfl
  | cons l r ih =>
    intro h
    have h1 := (h l (by simp)).pr
    have h2 := ih fun y hy => h y (by simp [hy])
    simp only [PR.prLateralList, h1, h2, bind, Except.bind, pure, Except.pure, List.map_cons]
theorem cl_lats (ls : List Lateral) (h : ∀ l ∈ ls, GL4 d K l) : CL K (PR.prLateralList d ls) (lats4LL d ls) (toksLats4 d noX ls) := by
  refine ⟨?_, ?_, ?_⟩
  · rw [lats4LL_eq, toksLats4_eq]
    exact Seg.map nl _ _ ls fun l hl => (h l hl).lx
  · rw [lats4LL_eq]; exact pr_latList ls h
  · intro x hx
    rw [lats4LL_eq] at hx
    obtain ⟨l, hl, rfl⟩ := List.mem_map.mp hx
    exact (h l hl).q

/-! ## ORDER BY / SORT BY, DISTRIBUTE BY / CLUSTER BY -/

theorem cl_orderK (kw : String) (hkw : Lx kw.toList [opTok kw]) (hqk : K.Q kw.toList) (ob : Option (List OrderItem)) (hne : ob ≠ some [])
    (h : ∀ l, ob = some l → ∀ o ∈ l, GO4 d K o) (p : Option (List OrderItem) → Except Err (List String)) (hnone : p none = pure [])
    (hsome : ∀ l, p (some l) = (PR.prOrdList d l).map fun x => [kw ++ " BY " ++ PR.joinS ", " x])
    (tk : Option (List OrderItem) → List Tok) (htn : tk none = [])
    (hts : ∀ o os, tk (some (o :: os)) = opTok kw :: opTok "BY" :: (toksOrdItem4 d noX o ++ toksOrdTail4 d noX os)) :
    CL K (p ob) (order4LL d kw ob) (tk ob) := by
  cases ob with
  | none => exact ⟨by rw [htn]; exact Seg.nil _, by rw [hnone]; rfl, fun x hx => by simp [order4LL] at hx⟩
  | some l =>
    cases l with
    | nil => exact absurd rfl hne
    | cons o os =>
      have hall := h _ rfl
      have hlx := lx_ordList o os hall
      refine ⟨?_, ?_, ?_⟩
      · have := Lx.sep hkw (lx_kwThen "BY" (by simp [clauseWords]) hlx)
        rw [hts]
        exact Seg.one _ (Lx.congr this (by simp [order4LL, byL, ord4LL_eq]) (by simp))
      · rw [hsome, pr_ordList (o :: os) hall]
        simp only [Except.map, order4LL, List.map_cons, List.map_nil]
        refine congrArg Except.ok ?_
        congr 1
        apply ofList_eq
        have e1 : (" BY " : String).toList = ' ' :: ("BY".toList ++ [' ']) := rfl
        have e3 : (", " : String).toList = [',', ' '] := rfl
        rw [String.toList_append, String.toList_append, toList_joinS, e1, e3, ← List.map_cons, ← List.map_cons, map_map_ofList]
        simp [byL, ord4LL_eq]
      · intro x hx
        simp only [order4LL, List.mem_singleton] at hx
        subst hx
        have := q_ordList (K := K) (o :: os) hall
        have h2 := K.sp hqk (K.sp (K.word "BY" (mem_cw (by simp [clauseWords]))) this)
        simpa [byL, ord4LL_eq] using h2

theorem cl_order (ob : Option (List OrderItem)) (hne : ob ≠ some []) (h : ∀ l, ob = some l → ∀ o ∈ l, GO4 d K o) :
    CL K (PR.prOptOrder d ob) (order4LL d "ORDER" ob) (toksOrder4 d noX ob) :=
  cl_orderK "ORDER" (lx_cw "ORDER" (by simp [clauseWords])) (K.word "ORDER" (mem_cw (by simp [clauseWords]))) ob hne h (PR.prOptOrder d) rfl
    (fun l => by
      simp only [PR.prOptOrder]
      have : ∀ x : List String, "ORDER BY " ++ PR.joinS ", " x = "ORDER" ++ " BY " ++ PR.joinS ", " x := by
        intro x; apply String.toList_inj.mp; simp [String.toList_append]
      simp only [this])
    (toksOrder4 d noX) (by simp [toksOrder4]) (fun o os => by simp [toksOrder4])
theorem cl_sort (hK : QW2 K) (ob : Option (List OrderItem)) (hne : ob ≠ some []) (h : ∀ l, ob = some l → ∀ o ∈ l, GO4 d K o) :
    CL K (PR.prOptSort d ob) (order4LL d "SORT" ob) (toksSort4 d noX ob) :=
  cl_orderK "SORT" (lx_w2 "SORT" (by simp [q2Words])) (hK.ws "SORT" (by simp [q2Words])) ob hne h (PR.prOptSort d) rfl
    (fun l => by
      simp only [PR.prOptSort]
      have : ∀ x : List String, "SORT BY " ++ PR.joinS ", " x = "SORT" ++ " BY " ++ PR.joinS ", " x := by
        intro x; apply String.toList_inj.mp; simp [String.toList_append]
      simp only [this])
    (toksSort4 d noX) (by simp [toksSort4]) (fun o os => by simp [toksSort4])

theorem cl_byK (kw : String) (hkw : Lx kw.toList [opTok kw]) (hqk : K.Q kw.toList) (ob : Option (List Expr)) (hne : ob ≠ some [])
    (h : ∀ l, ob = some l → ∀ e ∈ l, GE4 d K e) (p : Option (List Expr) → Except Err (List String)) (hnone : p none = pure [])
    (hsome : ∀ l, p (some l) = (PR.prList8 d l).map fun x => [kw ++ " BY " ++ PR.joinS ", " x]) :
    CL K (p ob) (by4LL d kw ob) (toksBy4 d noX kw ob) := by
  cases ob with
  | none => exact ⟨by simpa [toksBy4, by4LL] using Seg.nil '\n', by rw [hnone]; rfl, fun x hx => by simp [by4LL] at hx⟩
  | some l =>
    cases l with
    | nil => exact absurd rfl hne
    | cons e es =>
      have hall := h _ rfl
      refine ⟨?_, ?_, ?_⟩
      · have := Lx.sep hkw (lx_kwThen "BY" (by simp [clauseWords]) (lx_args8 (e :: es) hall))
        exact Seg.one _ (Lx.congr this (by simp [by4LL, byL, prList84LL]) (by simp [toksBy4, toksArgs4]))
      · rw [hsome, pr_list8 (e :: es) hall]
        simp only [Except.map, by4LL, List.map_cons, List.map_nil]
        refine congrArg Except.ok ?_
        congr 1
        apply ofList_eq
        have e1 : (" BY " : String).toList = ' ' :: ("BY".toList ++ [' ']) := rfl
        have e3 : (", " : String).toList = [',', ' '] := rfl
        rw [String.toList_append, String.toList_append, toList_joinS, e1, e3, map_map_ofList]
        simp [byL, prList84LL]
      · intro x hx
        simp only [by4LL, List.mem_singleton] at hx
        subst hx
        have := q_list8 (K := K) (e :: es) hall
        have h2 := K.sp hqk (K.sp (K.word "BY" (mem_cw (by simp [clauseWords]))) this)
        simpa [byL, prList84LL] using h2

theorem cl_distribute (hK : QW2 K) (ob : Option (List Expr)) (hne : ob ≠ some []) (h : ∀ l, ob = some l → ∀ e ∈ l, GE4 d K e) :
    CL K (PR.prOptDistribute d ob) (by4LL d "DISTRIBUTE" ob) (toksBy4 d noX "DISTRIBUTE" ob) :=
  cl_byK "DISTRIBUTE" (lx_w2 "DISTRIBUTE" (by simp [q2Words])) (hK.ws "DISTRIBUTE" (by simp [q2Words])) ob hne h (PR.prOptDistribute d) rfl
    (fun l => by
      simp only [PR.prOptDistribute]
      have : ∀ x : List String, "DISTRIBUTE BY " ++ PR.joinS ", " x = "DISTRIBUTE" ++ " BY " ++ PR.joinS ", " x := by
        intro x; apply String.toList_inj.mp; simp [String.toList_append]
      simp only [this])
theorem cl_cluster (hK : QW2 K) (ob : Option (List Expr)) (hne : ob ≠ some []) (h : ∀ l, ob = some l → ∀ e ∈ l, GE4 d K e) :
    CL K (PR.prOptCluster d ob) (by4LL d "CLUSTER" ob) (toksBy4 d noX "CLUSTER" ob) :=
  cl_byK "CLUSTER" (lx_w2 "CLUSTER" (by simp [q2Words])) (hK.ws "CLUSTER" (by simp [q2Words])) ob hne h (PR.prOptCluster d) rfl
    (fun l => by
      simp only [PR.prOptCluster]
      have : ∀ x : List String, "CLUSTER BY " ++ PR.joinS ", " x = "CLUSTER" ++ " BY " ++ PR.joinS ", " x := by
        intro x; apply String.toList_inj.mp; simp [String.toList_append]
      simp only [this])

end
end LL2
