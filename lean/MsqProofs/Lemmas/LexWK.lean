import MsqModel.Lex.TableOK
/-! soundness of the abstract window domain -/
namespace Lex

theorem isPrefixOf_append_right {p w : List Char} (x : List Char) (h : p.isPrefixOf w = true) :
    p.isPrefixOf (w ++ x) = true := by
  rw [List.isPrefixOf_iff_prefix] at h ⊢
  exact List.IsPrefix.trans h (List.prefix_append w x)

theorem isPrefixOf_trans {p q w : List Char} (h1 : p.isPrefixOf q = true) (h2 : q.isPrefixOf w = true) :
    p.isPrefixOf w = true := by
  rw [List.isPrefixOf_iff_prefix] at *
  exact List.IsPrefix.trans h1 h2

theorem WK.snoc_sound (a : WK) (w : List Char) (c : Char) (co : Option Char) (hc : co = some c ∨ co = none)
    (h : a.claims w = true) : (a.snoc co).claims (w ++ [c]) = true := by
  cases a with
  | unreach => simp [WK.claims] at h
  | exact e =>
    simp [WK.claims] at h; subst h
    rcases hc with rfl | rfl
    · simp [WK.snoc, WK.claims]
    · simp only [WK.snoc, WK.claims, List.any_cons, List.any_nil, Bool.or_false]
      exact isPrefixOf_append_right _ (by rw [List.isPrefixOf_iff_prefix]; exact List.prefix_refl _)
  | pref ps =>
    simp only [WK.claims, List.any_eq_true] at h
    obtain ⟨p, hp, hpw⟩ := h
    cases co <;> simp only [WK.snoc, WK.claims, List.any_eq_true] <;> exact ⟨p, hp, isPrefixOf_append_right _ hpw⟩
  | any => cases co <;> simp [WK.snoc, WK.claims]

theorem WK.le_sound (a b : WK) (w : List Char) (hle : a.le b = true) (h : a.claims w = true) : b.claims w = true := by
  cases b with
  | unreach => cases a <;> simp_all [WK.le, WK.claims]
  | any => simp [WK.claims]
  | exact e' =>
    cases a with
    | unreach => simp [WK.claims] at h
    | exact e => simp [WK.le] at hle; subst hle; exact h
    | pref ps => simp [WK.le] at hle
    | any => simp [WK.le] at hle
  | pref qs =>
    cases a with
    | unreach => simp [WK.claims] at h
    | exact e =>
      simp [WK.claims] at h; subst h
      simpa [WK.le, WK.claims] using hle
    | pref ps =>
      simp only [WK.claims, List.any_eq_true] at h
      obtain ⟨p, hp, hpw⟩ := h
      simp only [WK.le, List.all_eq_true, List.any_eq_true] at hle
      obtain ⟨q, hq, hqp⟩ := hle p hp
      simp only [WK.claims, List.any_eq_true]
      exact ⟨q, hq, isPrefixOf_trans hqp hpw⟩
    | any => simp [WK.le] at hle

theorem startsWithOpener_of_prefix {p w : List Char} (hp : startsWithOpener p = true) (hpw : p.isPrefixOf w = true) :
    startsWithOpener w = true := by
  simp only [startsWithOpener, List.any_eq_true] at hp ⊢
  obtain ⟨o, ho, hop⟩ := hp
  exact ⟨o, ho, isPrefixOf_trans hop hpw⟩

theorem WK.allGap_sound (a : WK) (w : List Char) (hg : a.allGap = true) (h : a.claims w = true) : gapOKb w = true := by
  cases a with
  | unreach => simp [WK.claims] at h
  | exact e => simp [WK.claims] at h; subst h; exact hg
  | pref ps =>
    simp only [WK.claims, List.any_eq_true] at h
    obtain ⟨p, hp, hpw⟩ := h
    simp only [WK.allGap, List.all_eq_true] at hg
    have := startsWithOpener_of_prefix (hg p hp) hpw
    simp [gapOKb, this]
  | any => simp [WK.allGap] at hg

end Lex
