import MsqProofs.Lemmas.TDdl0
/-!
# T-parse for CREATE TABLE: splitting a bracket group, column types, column definitions (C18 / C03)

* `splitBy_sepAll` — `pop_as_children_scanner_list_split_by(",")` gives back the segments of a comma-separated rendering;
* `pColType_ok` — `_parse_column_type_expression` on `toksType d t ++ r`;
* `defColLoop`: one continuation-style lemma per attribute (`DL` = the attribute loop succeeds with this result at every fuel from a
  bound on): `H : DL … ⟨…, x, …⟩ r N res → DL … ⟨…, default, …⟩ (tokens of x ++ r) (N + number of tokens) res`, chained from the end of the
  segment to the front in `pDefCol_ok`.
-/
set_option linter.unusedVariables false
set_option linter.unusedSimpArgs false
set_option maxHeartbeats 1000000
open Lex PM Ast TP TS
namespace TD

/-! ### heads -/
theorem searchTwoUp_cons (x : Tok) (r : List Tok) (a b : String) : searchTwoUp (x :: r) a b = (x.srcEqUp a && searchStrUp r b) := by
  cases r <;> simp [searchTwoUp, searchStrUp]
theorem searchThreeUp_cons (x : Tok) (r : List Tok) (a b c : String) :
    searchThreeUp (x :: r) a b c = (x.srcEqUp a && searchTwoUp r b c) := by
  rcases r with _ | ⟨y, _ | ⟨z, r⟩⟩ <;> simp [searchThreeUp, searchTwoUp, Bool.and_assoc]
theorem searchStrUp_cons (x : Tok) (r : List Tok) (a : String) : searchStrUp (x :: r) a = x.srcEqUp a := rfl
theorem searchStr_cons (x : Tok) (r : List Tok) (a : String) : searchStr (x :: r) a = x.srcEq a := rfl
theorem searchMark_cons (x : Tok) (r : List Tok) (m : Nat) : searchMark (x :: r) m = x.has m := rfl
theorem searchSeq_cons (x : Tok) (r : List Tok) (k : String) (ks : List String) :
    searchSeq (x :: r) (k :: ks) = (x.equalsStr k && searchSeq r ks) := rfl
theorem searchSeq_nil (r : List Tok) : searchSeq r [] = true := by cases r <;> rfl
theorem matchSeq_cons (x : Tok) (r : List Tok) (k : String) (ks : List String) :
    matchSeq (x :: r) (k :: ks) = if x.equalsStr k then matchSeq r ks else .error .parse := rfl
theorem matchSeq_nil (r : List Tok) : matchSeq r [] = .ok ((), r) := by cases r <;> rfl
theorem srcEqUp_opTok (a b : String) : (opTok a).srcEqUp b = (up a == b) := by simp [Tok.srcEqUp, src_opTok]
theorem srcEq_opTok (a b : String) : (opTok a).srcEq b = (a == b) := by simp [Tok.srcEq, src_opTok]
theorem equalsStr_opTok (a b : String) : (opTok a).equalsStr b = (up a == up b) := by
  simp [Tok.equalsStr, opTok, String.ofList_toList]
theorem equalsStr_grp (cs : List Tok) (b : String) : (grp cs).equalsStr b = false := rfl
theorem src_srcTok (s : String) : (srcTok s).src = s := src_single s _

theorem up_nameTok_head (n : String) : (up (nameTok n).src).toList.head? = some '`' := by
  simp [up, Gen.pyUpperS, String.toList_ofList, toList_src_nameTok, pyUpper_bq]
theorem nameTok_head (n : String) : (nameTok n).src.toList.head? = some '`' := by simp [toList_src_nameTok]
theorem srcEqUp_nameTok (n k : String) (hk : (k.toList.head? != some '`') = true) : (nameTok n).srcEqUp k = false := by
  simp only [Tok.srcEqUp, beq_eq_false_iff_ne, ne_eq]; exact ne_of_head (up_nameTok_head n) hk
theorem srcEq_nameTok (n k : String) (hk : (k.toList.head? != some '`') = true) : (nameTok n).srcEq k = false := by
  simp only [Tok.srcEq, beq_eq_false_iff_ne, ne_eq]; exact ne_of_head (nameTok_head n) hk
theorem equalsStr_nameTok (n k : String) (hk : ((up k).toList.head? != some '`') = true) : (nameTok n).equalsStr k = false := by
  have : up (String.ofList ('`' :: n.toList ++ ['`'])) = up (nameTok n).src := by simp [nameTok, Tok.src, Tok.source]
  simp only [Tok.equalsStr, nameTok, beq_eq_false_iff_ne, ne_eq]
  rw [this]; exact ne_of_head (up_nameTok_head n) hk
theorem srcEqUp_grp (cs : List Tok) (k : String) (hk : (k.toList.head? != some '(') = true) : (grp cs).srcEqUp k = false := by
  have h2 : (up (grp cs).src).toList.head? = some '(' := by simp [toList_up_grp]
  simp only [Tok.srcEqUp, beq_eq_false_iff_ne, ne_eq]; exact ne_of_head h2 hk
theorem srcEq_grp (cs : List Tok) (k : String) (hk : (k.toList.head? != some '(') = true) : (grp cs).srcEq k = false := by
  have h1 : (grp cs).src.toList.head? = some '(' := by simp [toList_src_grp]
  simp only [Tok.srcEq, beq_eq_false_iff_ne, ne_eq]; exact ne_of_head h1 hk
theorem nameTok_has_name (n : String) : (nameTok n).has NAME = true := by simp [nameTok, Tok.has, Tok.marks]; decide
theorem nameTok_has_paren (n : String) : (nameTok n).has PAREN = false := by simp [nameTok, Tok.has, Tok.marks]; decide

/-- evaluate the keyword tests of a parser on a rendering whose head tokens are known -/
macro "kw_simp" : tactic =>
  `(tactic| simp (config := { decide := true }) only [searchTwoUp_cons, searchThreeUp_cons, searchStrUp_cons, searchStr_cons,
      searchMark_cons, searchSeq_cons, searchSeq_nil, matchSeq_cons, matchSeq_nil,
      srcEqUp_opTok, srcEq_opTok, equalsStr_opTok, equalsStr_grp, srcEqUp_nameTok, srcEq_nameTok, equalsStr_nameTok, srcEqUp_grp, srcEq_grp,
      nameTok_has_name, nameTok_has_paren, grp_paren,
      List.isEmpty_cons, List.isEmpty_nil, Bool.and_eq_true, Bool.or_eq_true, false_and, true_and, and_true, and_false, or_false, false_or,
      or_true, true_or, not_false_eq_true, not_true_eq_false, Bool.false_eq_true, Bool.true_and, Bool.false_and, Bool.and_true, Bool.and_false, Bool.not_true, Bool.not_false,
      if_false, if_true, List.drop_succ_cons, List.drop_zero, List.cons_append, List.nil_append, List.append_assoc, List.length_cons,
      moveStr, moveStrUp, moveThreeUp, moveTwoUp, matchKw, popSrc, src_opTok, src_srcTok, src_litTok, children_grp, popSplit])
macro "kw_simp" "at" h:ident : tactic =>
  `(tactic| simp (config := { decide := true }) only [searchTwoUp_cons, searchThreeUp_cons, searchStrUp_cons, searchStr_cons,
      searchMark_cons, searchSeq_cons, searchSeq_nil, matchSeq_cons, matchSeq_nil,
      srcEqUp_opTok, srcEq_opTok, equalsStr_opTok, equalsStr_grp, srcEqUp_nameTok, srcEq_nameTok, equalsStr_nameTok, srcEqUp_grp, srcEq_grp,
      nameTok_has_name, nameTok_has_paren, grp_paren,
      List.isEmpty_cons, List.isEmpty_nil, Bool.and_eq_true, Bool.or_eq_true, false_and, true_and, and_true, and_false, or_false, false_or,
      or_true, true_or, not_false_eq_true, not_true_eq_false, Bool.false_eq_true, Bool.true_and, Bool.false_and, Bool.and_true, Bool.and_false, Bool.not_true, Bool.not_false,
      if_false, if_true, List.drop_succ_cons, List.drop_zero, List.cons_append, List.nil_append, List.append_assoc, List.length_cons,
      moveStr, moveStrUp, moveThreeUp, moveTwoUp, matchKw, popSrc, src_opTok, src_srcTok, src_litTok, children_grp, popSplit] at $h:ident)

/-! ### renderings that start with one of a set of key words -/
/-- empty, or the head is the leaf of one of the words `ks` -/
def HeadIn (ks : List String) (ts : List Tok) : Prop := ts = [] ∨ ∃ k r, k ∈ ks ∧ ts = opTok k :: r
theorem HeadIn.nil (ks : List String) : HeadIn ks [] := Or.inl rfl
theorem HeadIn.cons {ks : List String} (k : String) (r : List Tok) (hk : k ∈ ks) : HeadIn ks (opTok k :: r) := Or.inr ⟨k, r, hk, rfl⟩
theorem HeadIn.flag {ks : List String} {tail : List Tok} (b : Bool) (k : String) (more : List Tok) (hk : k ∈ ks) (h : HeadIn ks tail) :
    HeadIn ks (flag b (opTok k :: more) ++ tail) := by
  cases b
  · exact h
  · exact HeadIn.cons k _ hk
theorem HeadIn.prop {ks : List String} {ts : List Tok} (h : HeadIn ks ts) (P : Tok → Bool) (hP : ks.all (fun k => P (opTok k)) = true) :
    ts = [] ∨ ∃ t r, ts = t :: r ∧ P t = true := by
  rcases h with h | ⟨k, r, hk, rfl⟩
  · exact Or.inl h
  · exact Or.inr ⟨_, _, rfl, List.all_eq_true.1 hP k hk⟩
theorem HeadIn.stop8 {ks : List String} {ts : List Tok} (d : Gen.D) (h : HeadIn ks ts) (hP : ks.all (fun k => stopTok d 8 (opTok k)) = true) :
    stopLE d 8 ts = true := by
  rcases h.prop (fun t => stopTok d 8 t) hP with h | ⟨t, r, rfl, ht⟩
  · subst h; rfl
  · exact ht
theorem HeadIn.noParen {ks : List String} {ts : List Tok} (h : HeadIn ks ts) (hP : ks.all (fun k => !(opTok k).has PAREN) = true) :
    searchMark ts PAREN = false := by
  rcases h.prop (fun t => !t.has PAREN) hP with h | ⟨t, r, rfl, ht⟩
  · subst h; rfl
  · simpa [searchMark] using ht

/-! ### splitting a bracket group at its commas -/
theorem splitBy_seg (seg : List Tok) (hs : noComma seg = true) : ∀ (rest cur : List Tok) (acc : List (List Tok)),
    splitBy "," (seg ++ rest) cur acc = splitBy "," rest (cur ++ seg) acc := by
  induction seg with
  | nil => intro rest cur acc; simp
  | cons t seg ih =>
    intro rest cur acc
    simp only [noComma, List.all_cons, Bool.and_eq_true, Bool.not_eq_true'] at hs
    simp only [List.cons_append, splitBy, hs.1, Bool.false_eq_true, if_false]
    rw [ih (by simpa [noComma] using hs.2)]
    simp
theorem comma_equalsStr : commaTok.equalsStr "," = true := by decide
theorem splitBy_sepTail : ∀ (segs : List (List Tok)) (hs : segsOK segs = true) (cur : List Tok) (hc : cur.isEmpty = false)
    (acc : List (List Tok)), splitBy "," (sepTail segs) cur acc = acc ++ cur :: segs := by
  intro segs
  induction segs with
  | nil => intro hs cur hc acc; simp [sepTail, splitBy, hc]
  | cons s r ih =>
    intro hs cur hc acc
    simp only [segsOK, List.all_cons, Bool.and_eq_true, Bool.not_eq_true'] at hs
    simp only [sepTail, splitBy, comma_equalsStr, if_true, hc, Bool.false_eq_true, if_false]
    rw [splitBy_seg s hs.1.2, List.nil_append, ih (by simpa [segsOK] using hs.2) s hs.1.1]
    simp
/-- `split_by(",")` inverts the comma-separated rendering -/
theorem splitBy_sepAll (segs : List (List Tok)) (hs : segsOK segs = true) : splitBy "," (sepAll segs) [] [] = segs := by
  cases segs with
  | nil => rfl
  | cons s r =>
    simp only [segsOK, List.all_cons, Bool.and_eq_true, Bool.not_eq_true'] at hs
    simp only [sepAll]
    rw [splitBy_seg s hs.1.2, List.nil_append, splitBy_sepTail r (by simpa [segsOK] using hs.2) s hs.1.1]
    simp

/-- every segment parser succeeds and closes its sub-cursor -/
theorem eachClosed_map {α β : Type} (p : List Tok → R β) (tk : α → List Tok) : ∀ (xs : List α) (v : α → β)
    (h : ∀ x ∈ xs, p (tk x) = .ok (v x, [])), eachClosed p (xs.map tk) = .ok (xs.map v) := by
  intro xs
  induction xs with
  | nil => intro v h; rfl
  | cons x r ih =>
    intro v h
    simp only [List.map_cons, eachClosed, h x (by simp), closed, ih v (fun y hy => h y (by simp [hy]))]
theorem eachClosed_id {α : Type} (p : List Tok → R α) (tk : α → List Tok) (xs : List α)
    (h : ∀ x ∈ xs, p (tk x) = .ok (x, [])) : eachClosed p (xs.map tk) = .ok xs := by
  have := eachClosed_map p tk xs id h
  simpa using this

/-! ### sizes -/
theorem sizeL_sepTail_le (segs : List (List Tok)) (s : List Tok) (h : s ∈ segs) : sizeL s ≤ sizeL (sepTail segs) := by
  induction segs with
  | nil => simp at h
  | cons a r ih =>
    simp only [sepTail, sizeL_cons, sizeL_append]
    rcases List.mem_cons.1 h with rfl | h
    · omega
    · have := ih h; omega
theorem sizeL_sepAll_le (segs : List (List Tok)) (s : List Tok) (h : s ∈ segs) : sizeL s ≤ sizeL (sepAll segs) := by
  cases segs with
  | nil => simp at h
  | cons a r =>
    simp only [sepAll, sizeL_append]
    rcases List.mem_cons.1 h with rfl | h
    · omega
    · have := sizeL_sepTail_le r s h; omega

variable {d : Gen.D}

/-! ### column types -/
theorem pColType_ok (t : ColType) (ht : typeOK d t = true) (r : List Tok) (hr : searchMark r PAREN = false) (f : Nat)
    (hf : 20 * sizeL (toksType d t) + 2 ≤ f) : pColType d f (toksType d t ++ r) = .ok (t, r) := by
  obtain ⟨name, params⟩ := t
  cases params with
  | none =>
    simp only [toksType, toksParams, pColType]
    kw_simp
    simp [hr]
  | some ps =>
    simp only [typeOK, Bool.and_eq_true, Bool.not_eq_true'] at ht
    obtain ⟨⟨hd, hp⟩, hsg⟩ := ht
    simp only [toksType, toksParams, hd, Bool.false_eq_true, if_false, pColType]
    kw_simp
    rw [splitBy_sepAll _ hsg]
    have hall : ∀ e ∈ ps, pCompute d f ((fun e => W d noX e 8) e) = .ok (e, []) := by
      intro e he
      have hpe := List.all_eq_true.1 hp e he
      simp only [paramOK] at hpe
      have hsz : sizeL (W d noX e 8) ≤ sizeL (toksType d ⟨name, some ps⟩) := by
        simp only [toksType, toksParams, hd, Bool.false_eq_true, if_false, sizeL_cons, size_grp, sizeL]
        have := sizeL_sepAll_le (ps.map fun e => W d noX e 8) (W d noX e 8) (List.mem_map.2 ⟨e, he, rfl⟩)
        omega
      have := key8 e hpe [] rfl f (by omega)
      simpa using this
    rw [eachClosed_id (pCompute d f) (fun e => W d noX e 8) ps hall]

/-! ### the attribute loop -/
/-- the attribute loop succeeds with `res` at every fuel from `N` on -/
abbrev DL (d : Gen.D) (f : Nat) (c : DefCol) (ts : List Tok) (N : Nat) (res : DefCol × List Tok) : Prop :=
  OkAt (fun g => defColLoop d f g c ts) N res

theorem dl_end (f : Nat) (c : DefCol) : DL d f c [] 1 (c, []) := by
  intro g hg
  obtain ⟨g, rfl⟩ : ∃ k, g = k + 1 := ⟨g - 1, by omega⟩
  simp [defColLoop]

section steps
variable (f : Nat) (n : String) (ty : ColType) (us zf : Bool) (cs co : Option String) (gen : Option GenCol) (an nn ai : Bool)
  (df ou : Option Expr) (cm : Option String) (r : List Tok) (N : Nat) (res : DefCol × List Tok)

theorem dl_comment (H : DL d f ⟨n, ty, us, zf, cs, co, gen, an, nn, ai, df, ou, cm⟩ r N res) :
    DL d f ⟨n, ty, us, zf, cs, co, gen, an, nn, ai, df, ou, none⟩ (toksComment cm ++ r) (N + (toksComment cm).length) res := by
  cases cm with
  | none => simpa [toksComment] using H
  | some s =>
    intro g hg
    simp only [toksComment, List.length_cons, List.length_nil] at hg
    obtain ⟨g, rfl⟩ : ∃ k, g = k + 1 := ⟨g - 1, by omega⟩
    simp only [toksComment]
    rw [defColLoop]
    kw_simp
    exact H g (by omega)

theorem dl_onUpdate (hs : stopLE d 8 r = true) (he : optFragE d ou = true)
    (hf : ∀ e, ou = some e → 20 * sizeL (W d noX e 8) + 2 ≤ f)
    (H : DL d f ⟨n, ty, us, zf, cs, co, gen, an, nn, ai, df, ou, cm⟩ r N res) :
    DL d f ⟨n, ty, us, zf, cs, co, gen, an, nn, ai, df, none, cm⟩ (toksOnUpdate d ou ++ r) (N + (toksOnUpdate d ou).length) res := by
  cases ou with
  | none => simpa [toksOnUpdate] using H
  | some e =>
    intro g hg
    simp only [toksOnUpdate, List.length_cons] at hg
    obtain ⟨g, rfl⟩ : ∃ k, g = k + 1 := ⟨g - 1, by omega⟩
    simp only [toksOnUpdate]
    rw [defColLoop]
    kw_simp
    have h1 : pCompute d f (W d noX e 8 ++ r) = .ok (e, r) := key8 e he r hs f (hf e rfl)
    rw [h1]
    exact H g (by omega)

theorem dl_default (hs : stopLE d 8 r = true) (he : optFragE d df = true)
    (hf : ∀ e, df = some e → 20 * sizeL (W d noX e 8) + 2 ≤ f)
    (H : DL d f ⟨n, ty, us, zf, cs, co, gen, an, nn, ai, df, ou, cm⟩ r N res) :
    DL d f ⟨n, ty, us, zf, cs, co, gen, an, nn, ai, none, ou, cm⟩ (toksDefault d df ++ r) (N + (toksDefault d df).length) res := by
  cases df with
  | none => simpa [toksDefault] using H
  | some e =>
    intro g hg
    simp only [toksDefault, List.length_cons] at hg
    obtain ⟨g, rfl⟩ : ∃ k, g = k + 1 := ⟨g - 1, by omega⟩
    simp only [toksDefault]
    rw [defColLoop]
    kw_simp
    have h1 : pCompute d f (W d noX e 8 ++ r) = .ok (e, r) := key8 e he r hs f (hf e rfl)
    rw [h1]
    exact H g (by omega)

theorem dl_autoInc (H : DL d f ⟨n, ty, us, zf, cs, co, gen, an, nn, ai, df, ou, cm⟩ r N res) :
    DL d f ⟨n, ty, us, zf, cs, co, gen, an, nn, false, df, ou, cm⟩ (flag ai [opTok "AUTO_INCREMENT"] ++ r)
      (N + (flag ai [opTok "AUTO_INCREMENT"]).length) res := by
  cases ai with
  | false => simpa [flag] using H
  | true =>
    intro g hg
    simp only [flag, if_true, List.length_cons, List.length_nil] at hg
    obtain ⟨g, rfl⟩ : ∃ k, g = k + 1 := ⟨g - 1, by omega⟩
    simp only [flag, if_true]
    rw [defColLoop]
    kw_simp
    exact H g (by omega)

theorem dl_notNull (H : DL d f ⟨n, ty, us, zf, cs, co, gen, an, nn, ai, df, ou, cm⟩ r N res) :
    DL d f ⟨n, ty, us, zf, cs, co, gen, an, false, ai, df, ou, cm⟩ (flag nn [opTok "NOT", opTok "NULL"] ++ r)
      (N + (flag nn [opTok "NOT", opTok "NULL"]).length) res := by
  cases nn with
  | false => simpa [flag] using H
  | true =>
    intro g hg
    simp only [flag, if_true, List.length_cons, List.length_nil] at hg
    obtain ⟨g, rfl⟩ : ∃ k, g = k + 1 := ⟨g - 1, by omega⟩
    simp only [flag, if_true]
    rw [defColLoop]
    kw_simp
    exact H g (by omega)

theorem dl_allowNull (H : DL d f ⟨n, ty, us, zf, cs, co, gen, an, nn, ai, df, ou, cm⟩ r N res) :
    DL d f ⟨n, ty, us, zf, cs, co, gen, false, nn, ai, df, ou, cm⟩ (flag an [opTok "NULL"] ++ r)
      (N + (flag an [opTok "NULL"]).length) res := by
  cases an with
  | false => simpa [flag] using H
  | true =>
    intro g hg
    simp only [flag, if_true, List.length_cons, List.length_nil] at hg
    obtain ⟨g, rfl⟩ : ∃ k, g = k + 1 := ⟨g - 1, by omega⟩
    simp only [flag, if_true]
    rw [defColLoop]
    kw_simp
    exact H g (by omega)

theorem dl_generated (hg : genOK d gen = true) (hf : ∀ e m, gen = some ⟨e, some m⟩ → 20 * sizeL (W d noX e 8) + 2 ≤ f)
    (H : DL d f ⟨n, ty, us, zf, cs, co, gen, an, nn, ai, df, ou, cm⟩ r N res) :
    DL d f ⟨n, ty, us, zf, cs, co, none, an, nn, ai, df, ou, cm⟩ (toksGenerated d gen ++ r) (N + (toksGenerated d gen).length) res := by
  rcases gen with _ | ⟨e, _ | m⟩
  · simpa [toksGenerated] using H
  · simp [genOK] at hg
  · intro g hg'
    simp only [toksGenerated, List.length_cons, List.length_nil] at hg'
    obtain ⟨g, rfl⟩ : ∃ k, g = k + 1 := ⟨g - 1, by omega⟩
    simp only [genOK, Bool.and_eq_true, modeOK] at hg
    have h1 : pCompute d f (W d noX e 8) = .ok (e, []) := by
      have := key8 e hg.1 [] rfl f (hf e m rfl)
      simpa using this
    simp only [toksGenerated]
    rw [defColLoop]
    kw_simp
    simp only [pGenerated]
    kw_simp
    simp only [h1, closed]
    cases hfind : Gen.genColSaveModes.find? (·.1 == up m) with
    | none => rw [hfind] at hg; simp at hg
    | some sm =>
      rw [hfind] at hg
      have : sm.2 = m := by simpa using hg.2
      simp only [this]
      exact H g (by omega)

theorem dl_collate (H : DL d f ⟨n, ty, us, zf, cs, co, gen, an, nn, ai, df, ou, cm⟩ r N res) :
    DL d f ⟨n, ty, us, zf, cs, none, gen, an, nn, ai, df, ou, cm⟩ (toksCollate co ++ r) (N + (toksCollate co).length) res := by
  cases co with
  | none => simpa [toksCollate] using H
  | some s =>
    intro g hg
    simp only [toksCollate, List.length_cons, List.length_nil] at hg
    obtain ⟨g, rfl⟩ : ∃ k, g = k + 1 := ⟨g - 1, by omega⟩
    simp only [toksCollate]
    rw [defColLoop]
    kw_simp
    exact H g (by omega)

theorem dl_charset (H : DL d f ⟨n, ty, us, zf, cs, co, gen, an, nn, ai, df, ou, cm⟩ r N res) :
    DL d f ⟨n, ty, us, zf, none, co, gen, an, nn, ai, df, ou, cm⟩ (toksCharset cs ++ r) (N + (toksCharset cs).length) res := by
  cases cs with
  | none => simpa [toksCharset] using H
  | some s =>
    intro g hg
    simp only [toksCharset, List.length_cons, List.length_nil] at hg
    obtain ⟨g, rfl⟩ : ∃ k, g = k + 1 := ⟨g - 1, by omega⟩
    simp only [toksCharset]
    rw [defColLoop]
    kw_simp
    exact H g (by omega)

theorem dl_zerofill (H : DL d f ⟨n, ty, us, zf, cs, co, gen, an, nn, ai, df, ou, cm⟩ r N res) :
    DL d f ⟨n, ty, us, false, cs, co, gen, an, nn, ai, df, ou, cm⟩ (flag zf [opTok "ZEROFILL"] ++ r)
      (N + (flag zf [opTok "ZEROFILL"]).length) res := by
  cases zf with
  | false => simpa [flag] using H
  | true =>
    intro g hg
    simp only [flag, if_true, List.length_cons, List.length_nil] at hg
    obtain ⟨g, rfl⟩ : ∃ k, g = k + 1 := ⟨g - 1, by omega⟩
    simp only [flag, if_true]
    rw [defColLoop]
    kw_simp
    exact H g (by omega)

theorem dl_unsigned (H : DL d f ⟨n, ty, us, zf, cs, co, gen, an, nn, ai, df, ou, cm⟩ r N res) :
    DL d f ⟨n, ty, false, zf, cs, co, gen, an, nn, ai, df, ou, cm⟩ (flag us [opTok "UNSIGNED"] ++ r)
      (N + (flag us [opTok "UNSIGNED"]).length) res := by
  cases us with
  | false => simpa [flag] using H
  | true =>
    intro g hg
    simp only [flag, if_true, List.length_cons, List.length_nil] at hg
    obtain ⟨g, rfl⟩ : ∃ k, g = k + 1 := ⟨g - 1, by omega⟩
    simp only [flag, if_true]
    rw [defColLoop]
    kw_simp
    exact H g (by omega)
end steps

end TD
