import MsqProofs.Lemmas.LexLinkQueryMain
import MsqProofs.Lemmas.TQuery2_0
/-!
# The lexer link for the LARGER nested fragment `TQ2.FragQ2`: the `List Char` mirror of the printer, the payloads

Built NEXT to `LexLinkQuery*.lean` (namespace `LexLink`, unchanged).  The node lemmas of the old productions are re-derived from those
files by `tools/dev/gen_lexlink_q2.py` (identifier map), the new productions are written by hand (`LexLinkQ2New*.lean`).

* `prE4L d e` / `prS4L d s` / `prQ2L d q` — what `PR.prE` / `PR.prS` / `PR.prQ` write on `TQ2.FragE4` / `FragS4` / `FragQ2`, as character
  lists, ONE mutually recursive block shaped like the token-level printer `TQ2.toksE4` …;
* `leavesE4` / `leavesS4` / `leavesQ2` — the payloads as a list of `Leaf2` items: `.old x` a payload of the old kinds (`LexLink.LeafItem`),
  `.guard p` a condition on the DIALECT or on the shape of a member that the link needs and the token-level fragment does not have:
  the printer prints `a[i]`, `SORT BY` / `DISTRIBUTE BY` / `CLUSTER BY` for HIVE only and `LATERAL VIEW` for HIVE and DEFAULT only
  (`C13.printable_iff`); an index expression must be followed by `]` directly (`idxInnerOK`); a grouping set with ONE element is printed
  bare or bracketed according to the first CHARACTER of its text (`setElemOK`);
* `QW2 K` — the kit's property holds of the words the new productions use, `[` and `]` are safe separators.
-/
set_option linter.unusedVariables false
set_option linter.unusedSimpArgs false
namespace LL2
open Lex Spec C05 C06 C09 Ast TP TS LexLink TQ2

/-! ## text pieces -/

/-- a keyword as characters; not reducible, so that `simp` does not evaluate the literal when it matches list lemmas -/
def kwL (s : String) : List Char := s.toList
@[simp] theorem kwL_eq (s : String) : kwL s = s.toList := rfl

/-- `[SIGNED] type [(p, …)]` of a CAST, joined by blanks by the printer -/
def castParamPieces : Option (List Int) → List (List Char)
  | some l => ['(' :: (joinLL [',', ' '] (l.map fun n => (toString n).toList) ++ [')'])]
  | none => []
def castPartsL (sg : Bool) (ty : String) (ps : Option (List Int)) : List (List Char) :=
  (if sg then [kwL "SIGNED"] else []) ++ ((castVal ty).toList :: castParamPieces ps)
def rowL : RowItem → List Char
  | .current => kwL "CURRENT" ++ ' ' :: kwL "ROW"
  | .unbounded true => kwL "UNBOUNDED" ++ ' ' :: kwL "PRECEDING"
  | .unbounded false => kwL "UNBOUNDED" ++ ' ' :: kwL "FOLLOWING"
  | .num n true => (toString n).toList ++ ' ' :: kwL "PRECEDING"
  | .num n false => (toString n).toList ++ ' ' :: kwL "FOLLOWING"
def rowsPieces : Option (RowItem × RowItem) → List (List Char)
  | none => []
  | some (a, b) => [kwL "ROWS" ++ ' ' :: (kwL "BETWEEN" ++ ' ' :: (rowL a ++ ' ' :: (kwL "AND" ++ ' ' :: rowL b)))]
/-- the suffixes of an order item -/
def ordSufL (desc nf nl : Bool) : List Char :=
  (if desc then ' ' :: kwL "DESC" else []) ++ ((if nf then ' ' :: (kwL "NULLS" ++ ' ' :: kwL "FIRST") else []) ++ (if nl then ' ' :: (kwL "NULLS" ++ ' ' :: kwL "LAST") else []))
/-- one grouping set from the printed elements -/
def setOfL (p : List (List Char)) : List Char :=
  match p with
  | [s] => if s.head? = some '(' then '(' :: (s ++ [')']) else s
  | _ => '(' :: (joinLL [',', ' '] p ++ [')'])

/-- `CAST(x AS …)` from the printed operand -/
def castL (x : List Char) (sg : Bool) (ty : String) (ps : Option (List Int)) : List Char :=
  kwL "CAST" ++ '(' :: (x ++ ' ' :: (kwL "AS" ++ ' ' :: (joinLL [' '] (castPartsL sg ty ps) ++ [')'])))
def extractL (a b : List Char) : List Char := kwL "EXTRACT" ++ '(' :: (a ++ ' ' :: (kwL "FROM" ++ ' ' :: (b ++ [')'])))
/-- the pieces inside `OVER (…)` from the printed members -/
def winPieces (pe : Bool) (ps : List (List Char)) (oe : Bool) (os : List (List Char)) (rows : Option (RowItem × RowItem)) : List (List Char) :=
  (if pe then [] else [kwL "PARTITION" ++ ' ' :: (kwL "BY" ++ ' ' :: joinLL [',', ' '] ps)]) ++
    ((if oe then [] else [kwL "ORDER" ++ ' ' :: (kwL "BY" ++ ' ' :: joinLL [',', ' '] os)]) ++ rowsPieces rows)
def windowL (f : List Char) (pieces : List (List Char)) : List Char :=
  f ++ ' ' :: (kwL "OVER" ++ ' ' :: '(' :: (joinLL [' '] pieces ++ [')']))
def indexL (a i : List Char) : List Char := a ++ '[' :: (i ++ [']'])
def latL (o : Bool) (f v : List Char) (as : List (List Char)) : List Char :=
  kwL "LATERAL" ++ ' ' :: (kwL "VIEW" ++ ' ' :: ((if o then kwL "OUTER" ++ [' '] else []) ++ (f ++ ' ' :: (v ++ ' ' ::
    (kwL "AS" ++ ' ' :: joinLL [',', ' '] as)))))
def setsOptL (l : List (List Char)) : List Char :=
  ' ' :: (kwL "GROUPING" ++ ' ' :: (kwL "SETS" ++ ' ' :: '(' :: (joinLL [',', ' '] l ++ [')'])))
def groupL (keys : List (List Char)) (sets : List Char) (cube rollup : Bool) : List Char :=
  kwL "GROUP" ++ ' ' :: (kwL "BY" ++ ' ' :: (joinLL [',', ' '] keys ++ (sets ++
    ((if cube then ' ' :: (kwL "WITH" ++ ' ' :: kwL "CUBE") else []) ++ (if rollup then ' ' :: (kwL "WITH" ++ ' ' :: kwL "ROLLUP") else [])))))
def byL (kw : String) (items : List (List Char)) : List Char := kwL kw ++ ' ' :: (kwL "BY" ++ ' ' :: joinLL [',', ' '] items)

mutual
def prE4L (d : Gen.D) : Expr → List Char
  | .column none c => '`' :: (c.toList ++ ['`'])
  | .column (some t) c => '`' :: (t.toList ++ '`' :: '.' :: '`' :: (c.toList ++ ['`']))
  | .literal v => v.toList
  | .wildcard none => ['*']
  | .wildcard (some t) => qnameL t ++ ['.', '*']
  | .func s n ps => fnameL s n ++ '(' :: (joinLL [',', ' '] (prList4LL d ps) ++ [')'])
  | .agg n ps dist => n.toList ++ '(' :: ((if dist then "DISTINCT ".toList else []) ++ (joinLL [',', ' '] (prList4LL d ps) ++ [')']))
  | .cast e sg ty ps => castL (wrapL e 8 (prE4L d e)) sg ty ps
  | .extract n e => extractL (wrapL n 8 (prE4L d n)) (wrapL e 8 (prE4L d e))
  | .window fn part ord rows => windowL (prE4L d fn) (winPieces part.isEmpty (prList84LL d part) ord.isEmpty (ord4LL d ord) rows)
  | .caseCond cs els => joinLL [' '] ("CASE".toList :: (prArms4LL d cs ++ (prElse4LL d els ++ ["END".toList])))
  | .caseVal v cs els =>
      joinLL ['\n'] ("CASE".toList :: prE4L d v :: ((prArms4LL d cs).map ind4 ++ ((prElse4LL d els).map ind4 ++ ["END".toList])))
  | .subValue vs => '(' :: (joinLL [',', ' '] (prList84LL d vs) ++ [')'])
  | .subQuery q => '(' :: (prQ2L d q ++ [')'])
  | .exists_ v => "EXISTS".toList ++ ' ' :: prE4L d v
  | .index a i => indexL (prE4L d a) (wrapL i 8 (prE4L d i))
  | .unary o e =>
      if (cval o).toList = ['-'] ∧ (wrapL e 2 (prE4L d e)).head? = some '-' then (cval o).toList ++ ' ' :: wrapL e 2 (prE4L d e)
      else (cval o).toList ++ wrapL e 2 (prE4L d e)
  | .compute l o r =>
      wrapL l (PR.lvl (.compute l o r)) (prE4L d l) ++ ' ' :: ((cval o).toList ++ ' ' :: wrapL r (PR.lvl (.compute l o r) - 1) (prE4L d r))
  | .kw k n l r => wrapL l 9 (prE4L d l) ++ ' ' :: ((PR.kwSrc k n).toList ++ ' ' :: wrapL r 8 (prE4L d r))
  | .between n b f t =>
      wrapL b 9 (prE4L d b) ++ ' ' :: ((if n then "NOT ".toList else []) ++ ("BETWEEN".toList ++ ' ' ::
        (wrapL f 8 (prE4L d f) ++ ' ' :: ("AND".toList ++ ' ' :: wrapL t 8 (prE4L d t)))))
  | .compare o l r => wrapL l 10 (prE4L d l) ++ ' ' :: ((cmpVal o).toList ++ ' ' :: wrapL r 9 (prE4L d r))
  | .not_ e => "NOT".toList ++ ' ' :: wrapL e 11 (prE4L d e)
  | .and_ l r => wrapL l 12 (prE4L d l) ++ ' ' :: ("AND".toList ++ ' ' :: wrapL r 11 (prE4L d r))
  | .xor l r => wrapL l 13 (prE4L d l) ++ ' ' :: ("XOR".toList ++ ' ' :: wrapL r 12 (prE4L d r))
  | .or_ l r => wrapL l 14 (prE4L d l) ++ ' ' :: ("OR".toList ++ ' ' :: wrapL r 13 (prE4L d r))
  | _ => []
def prList4LL (d : Gen.D) : List Expr → List (List Char)
  | [] => []
  | a :: as => prE4L d a :: prList4LL d as
def prList84LL (d : Gen.D) : List Expr → List (List Char)
  | [] => []
  | a :: as => wrapL a 8 (prE4L d a) :: prList84LL d as
def prArms4LL (d : Gen.D) : List (Expr × Expr) → List (List Char)
  | [] => []
  | (w, t) :: r => ("WHEN".toList ++ ' ' :: (prE4L d w ++ ' ' :: ("THEN".toList ++ ' ' :: prE4L d t))) :: prArms4LL d r
def prElse4LL (d : Gen.D) : Option Expr → List (List Char)
  | none => []
  | some y => ["ELSE".toList ++ ' ' :: prE4L d y]
def prQ2L (d : Gen.D) : Query → List Char
  | .single s => prS4L d s
  | .union _ s us => joinLL ['\n'] (prS4L d s :: prUn2LL d us)
def prUn2LL (d : Gen.D) : List (String × Select) → List (List Char)
  | [] => []
  | (t, s) :: r => unionWordsL t :: prS4L d s :: prUn2LL d r
def prS4L (d : Gen.D) : Select → List Char
  | .mk _ dist cols fr lats js wh gb hv ob sb db cb lm =>
      joinLL ['\n'] (("SELECT".toList ++ ' ' :: ((if dist then "DISTINCT ".toList else []) ++ joinLL [',', ' '] (prCols4LL d cols))) ::
        (from4LL d fr ++ (lats4LL d lats ++ (joins4LL d js ++ (opt4LL d "WHERE" wh ++ (group4LL d gb ++ (opt4LL d "HAVING" hv ++
          (order4LL d "ORDER" ob ++ (order4LL d "SORT" sb ++ (by4LL d "DISTRIBUTE" db ++ (by4LL d "CLUSTER" cb ++
            (limitC lm).map (·.1))))))))))))
def prCols4LL (d : Gen.D) : List (Expr × Option String) → List (List Char)
  | [] => []
  | (e, a) :: cs => (prE4L d e ++ aliasL a) :: prCols4LL d cs
def ref4L (d : Gen.D) : TableRef → List Char
  | .table s n => tblL s n
  | .sub q => '(' :: (prQ2L d q ++ [')'])
def table4L (d : Gen.D) : FromTable → List Char
  | .mk t a => ref4L d t ++ aliasL a
def tables4LL (d : Gen.D) : List FromTable → List (List Char)
  | [] => []
  | t :: ts => table4L d t :: tables4LL d ts
def from4LL (d : Gen.D) : Option (List FromTable) → List (List Char)
  | some (t :: ts) => ["FROM".toList ++ ' ' :: joinLL [',', ' '] (table4L d t :: tables4LL d ts)]
  | _ => []
def lat4L (d : Gen.D) : Lateral → List Char
  | .mk o fn v as => latL o (prE4L d fn) v.toList (as.map qnameL)
def lats4LL (d : Gen.D) : List Lateral → List (List Char)
  | [] => []
  | l :: ls => lat4L d l :: lats4LL d ls
def rule4L (d : Gen.D) : Option JoinRule → List Char
  | some (.on e) => ' ' :: ("ON".toList ++ ' ' :: prE4L d e)
  | some (.using u) => ' ' :: prE4L d u
  | none => []
def join4L (d : Gen.D) : Join → List Char
  | .mk ty t rule => joinWordsL ty ++ ' ' :: (table4L d t ++ rule4L d rule)
def joins4LL (d : Gen.D) : List Join → List (List Char)
  | [] => []
  | j :: js => join4L d j :: joins4LL d js
def opt4LL (d : Gen.D) (kw : String) : Option Expr → List (List Char)
  | some e => [kw.toList ++ ' ' :: prE4L d e]
  | none => []
def sets4LL (d : Gen.D) : List (List Expr) → List (List Char)
  | [] => []
  | g :: gs => setOfL (prList84LL d g) :: sets4LL d gs
def setsOpt4L (d : Gen.D) : Option (List (List Expr)) → List Char
  | none => []
  | some l => setsOptL (sets4LL d l)
def group4LL (d : Gen.D) : Option GroupBy → List (List Char)
  | some (.mk cols sets cube rollup) => [groupL (prList84LL d cols) (setsOpt4L d sets) cube rollup]
  | none => []
def ordItem4L (d : Gen.D) : OrderItem → List Char
  | .mk e desc nf nl => wrapL e 8 (prE4L d e) ++ ordSufL desc nf nl
def ord4LL (d : Gen.D) : List OrderItem → List (List Char)
  | [] => []
  | o :: os => ordItem4L d o :: ord4LL d os
def order4LL (d : Gen.D) (kw : String) : Option (List OrderItem) → List (List Char)
  | some (o :: os) => [byL kw (ordItem4L d o :: ord4LL d os)]
  | _ => []
def by4LL (d : Gen.D) (kw : String) : Option (List Expr) → List (List Char)
  | some (e :: es) => [byL kw (wrapL e 8 (prE4L d e) :: prList84LL d es)]
  | _ => []
end

/-! ## the payloads and the guards -/

inductive Leaf2
  | old (x : LeafItem)
  | guard (p : Gen.D → Bool)

def hiveG : Leaf2 := .guard fun d => d == .HIVE
def hiveDefG : Leaf2 := .guard fun d => d == .HIVE || d == .DEFAULT
/-- a decimal numeral -/
def numeralB (v : String) : Bool := !v.toList.isEmpty && v.toList.all fun c => isDigit c.toNat
/-- a literal that begins with a quote -/
def quotedB (v : String) : Bool := v.toList.head? == some '\'' || v.toList.head? == some '"'
/-- an index expression whose text is complete in front of `]`: a column, a numeral, a quoted string, or anything printed in brackets -/
def idxInnerOK (i : Expr) : Bool :=
  decide (PR.lvl i > 8) || (match i with | .column _ _ => true | .literal v => numeralB v || quotedB v | _ => false)
/-- the single element of a grouping set: a column, a bracketed list / sub-query, or anything printed in brackets (the printer decides by the
first CHARACTER of the element's text whether it adds brackets, the token-level printer by the first TOKEN) -/
def setElemOK (e : Expr) : Bool :=
  decide (PR.lvl e > 8) || (match e with | .column _ _ => true | .subValue _ => true | .subQuery _ => true | _ => false)
def setG (g : List Expr) : List Leaf2 :=
  match g with
  | [e] => [.guard fun _ => setElemOK e]
  | _ => []
def leavesAlias2 (a : Option String) : List Leaf2 := (leavesAlias a).map .old

mutual
def leavesE4 : Expr → List Leaf2
  | .column t c => [.old (.col t c)]
  | .literal v => [.old (.lit v)]
  | .wildcard none => []
  | .wildcard (some t) => [.old (.wild t)]
  | .func s n ps => .old (.fn s n) :: leavesL4 ps
  | .agg n ps _ => .old (.agg n) :: leavesL4 ps
  | .cast e _ _ _ => leavesE4 e
  | .extract n e => leavesE4 n ++ leavesE4 e
  | .window fn part ord _ => leavesE4 fn ++ (leavesL4 part ++ leavesOrdL4 ord)
  | .caseCond cs els => leavesA4 cs ++ leavesO4 els
  | .caseVal v cs els => leavesE4 v ++ (leavesA4 cs ++ leavesO4 els)
  | .subValue vs => leavesL4 vs
  | .subQuery q => leavesQ2 q
  | .exists_ v => leavesE4 v
  | .index a i => hiveG :: .guard (fun _ => idxInnerOK i) :: (leavesE4 a ++ leavesE4 i)
  | .unary _ e => leavesE4 e
  | .compute l _ r => leavesE4 l ++ leavesE4 r
  | .kw _ _ l r => leavesE4 l ++ leavesE4 r
  | .between _ b f t => leavesE4 b ++ (leavesE4 f ++ leavesE4 t)
  | .compare _ l r => leavesE4 l ++ leavesE4 r
  | .not_ e => leavesE4 e
  | .and_ l r => leavesE4 l ++ leavesE4 r
  | .xor l r => leavesE4 l ++ leavesE4 r
  | .or_ l r => leavesE4 l ++ leavesE4 r
  | _ => []
def leavesL4 : List Expr → List Leaf2
  | [] => []
  | a :: as => leavesE4 a ++ leavesL4 as
def leavesA4 : List (Expr × Expr) → List Leaf2
  | [] => []
  | (w, t) :: r => leavesE4 w ++ (leavesE4 t ++ leavesA4 r)
def leavesO4 : Option Expr → List Leaf2
  | none => []
  | some y => leavesE4 y
def leavesQ2 : Query → List Leaf2
  | .single s => leavesS4 s
  | .union _ s us => leavesS4 s ++ leavesUn2 us
def leavesUn2 : List (String × Select) → List Leaf2
  | [] => []
  | (_, s) :: r => leavesS4 s ++ leavesUn2 r
def leavesS4 : Select → List Leaf2
  | .mk _ _ cols fr lats js wh gb hv ob sb db cb _ =>
      leavesCols4 cols ++ (leavesFrom4 fr ++ (leavesLats4 lats ++ (leavesJoins4 js ++ (leavesO4 wh ++ (leavesGroup4 gb ++ (leavesO4 hv ++
        (leavesOrder4 ob ++ ((if sb.isSome || db.isSome || cb.isSome then [hiveG] else []) ++
          (leavesOrder4 sb ++ (leavesBy4 db ++ leavesBy4 cb))))))))))
def leavesCols4 : List (Expr × Option String) → List Leaf2
  | [] => []
  | (e, a) :: cs => leavesE4 e ++ (leavesAlias2 a ++ leavesCols4 cs)
def leavesRef4 : TableRef → List Leaf2
  | .table s n => [.old (.tbl s n)]
  | .sub q => leavesQ2 q
def leavesTable4 : FromTable → List Leaf2
  | .mk t a => leavesRef4 t ++ leavesAlias2 a
def leavesTables4 : List FromTable → List Leaf2
  | [] => []
  | t :: ts => leavesTable4 t ++ leavesTables4 ts
def leavesFrom4 : Option (List FromTable) → List Leaf2
  | none => []
  | some ts => leavesTables4 ts
def leavesLat4 : Lateral → List Leaf2
  | .mk _ fn v as => hiveDefG :: (leavesE4 fn ++ (.old (.agg v) :: as.map fun a => .old (.wild a)))
def leavesLats4 : List Lateral → List Leaf2
  | [] => []
  | l :: ls => leavesLat4 l ++ leavesLats4 ls
def leavesRule4 : Option JoinRule → List Leaf2
  | some (.on e) => leavesE4 e
  | some (.using u) => leavesE4 u
  | none => []
def leavesJoin4 : Join → List Leaf2
  | .mk _ t rule => leavesTable4 t ++ leavesRule4 rule
def leavesJoins4 : List Join → List Leaf2
  | [] => []
  | j :: js => leavesJoin4 j ++ leavesJoins4 js
def leavesSets4 : List (List Expr) → List Leaf2
  | [] => []
  | g :: gs => setG g ++ (leavesL4 g ++ leavesSets4 gs)
def leavesSetsOpt4 : Option (List (List Expr)) → List Leaf2
  | none => []
  | some l => leavesSets4 l
def leavesGroup4 : Option GroupBy → List Leaf2
  | some (.mk es sets _ _) => leavesL4 es ++ leavesSetsOpt4 sets
  | none => []
def leavesOrdItem4 : OrderItem → List Leaf2
  | .mk e _ _ _ => leavesE4 e
def leavesOrdL4 : List OrderItem → List Leaf2
  | [] => []
  | o :: os => leavesOrdItem4 o ++ leavesOrdL4 os
def leavesOrder4 : Option (List OrderItem) → List Leaf2
  | none => []
  | some os => leavesOrdL4 os
def leavesBy4 : Option (List Expr) → List Leaf2
  | none => []
  | some es => leavesL4 es
end

/-- every member of the list satisfies `P` -/
def On2 (P : Leaf2 → Prop) (l : List Leaf2) : Prop := ∀ x ∈ l, P x
@[simp] theorem on2_nil (P : Leaf2 → Prop) : On2 P [] ↔ True := by simp [On2]
@[simp] theorem on2_cons (P : Leaf2 → Prop) (a : Leaf2) (l : List Leaf2) : On2 P (a :: l) ↔ P a ∧ On2 P l := by simp [On2]
@[simp] theorem on2_append (P : Leaf2 → Prop) (l1 l2 : List Leaf2) : On2 P (l1 ++ l2) ↔ On2 P l1 ∧ On2 P l2 := by
  simp only [On2, List.mem_append]
  exact ⟨fun h => ⟨fun x hx => h x (Or.inl hx), fun x hx => h x (Or.inr hx)⟩, fun h x hx => hx.elim (h.1 x) (h.2 x)⟩

/-- **the leaf hypotheses** of the larger fragment: those of `LexLink.leafOK` for payloads, the guard itself for a guard -/
def leafOK2 (d : Gen.D) : Leaf2 → Prop
  | .old x => leafOK d x
  | .guard p => p d = true
/-- the kit's property on the payload strings -/
def item2 (K : QKit) : Leaf2 → Prop
  | .old x => K.item x
  | .guard _ => True
/-- the hypotheses on the payloads of a tree -/
def Lv2 (d : Gen.D) (K : QKit) (l : List Leaf2) : Prop := On2 (fun x => leafOK2 d x ∧ item2 K x) l

@[simp] theorem lv2_nil (d : Gen.D) (K : QKit) : Lv2 d K [] ↔ True := by simp [Lv2]
@[simp] theorem lv2_cons (d : Gen.D) (K : QKit) (a : Leaf2) (l : List Leaf2) :
    Lv2 d K (a :: l) ↔ (leafOK2 d a ∧ item2 K a) ∧ Lv2 d K l := by simp [Lv2]
@[simp] theorem lv2_append (d : Gen.D) (K : QKit) (l1 l2 : List Leaf2) : Lv2 d K (l1 ++ l2) ↔ Lv2 d K l1 ∧ Lv2 d K l2 := by simp [Lv2]
@[simp] theorem lv2_cons_old (d : Gen.D) (K : QKit) (x : LeafItem) (l : List Leaf2) :
    Lv2 d K (.old x :: l) ↔ (leafOK d x ∧ K.item x) ∧ Lv2 d K l := by simp [Lv2, leafOK2, item2]
theorem lv2_old (d : Gen.D) (K : QKit) (x : LeafItem) : (leafOK2 d (.old x) ∧ item2 K (.old x)) ↔ (leafOK d x ∧ K.item x) := Iff.rfl

/-! ## the words of the new productions -/

def q2Words : List String :=
  ["CAST", "SIGNED", "EXTRACT", "OVER", "PARTITION", "ROWS", "CURRENT", "ROW", "UNBOUNDED", "PRECEDING", "FOLLOWING", "NULLS", "FIRST", "LAST",
   "LATERAL", "VIEW", "OUTER", "GROUPING", "SETS", "WITH", "CUBE", "ROLLUP", "SORT", "DISTRIBUTE", "CLUSTER"]
theorem q2_words_lex : q2Words.all (fun k => lxIs k.toList (ctok k.toList)) = true := by decide +kernel
theorem cast_words_lex : Gen.castTypes.all (fun e => lxIs e.2.toList (ctok e.2.toList)) = true := by decide +kernel
theorem lx_w2 (k : String) (hk : k ∈ q2Words) : Lx k.toList [opTok k] := by
  rw [opTok_eq]; exact lx_of_is ((List.all_eq_true.mp q2_words_lex) k hk)

structure QW2 (K : QKit) : Prop where
  ws : ∀ k ∈ q2Words, K.Q k.toList
  cts : ∀ e ∈ Gen.castTypes, K.Q e.2.toList
  s_lb : K.safe '['
  s_rb : K.safe ']'

end LL2
