import MsqProofs.Lemmas.ParseAccountDdl0
/-!
# C08, general accounting for the DDL classes — part 1: texts and the `Full` fragment of the DDL values

`tX v = Val.texts (toVal v)` for column types, generated columns, column definitions, index columns, indexes, foreign keys,
column-or-index, CREATE TABLE; one equation each.  `Full…` (Bool on the RESULT) excludes the degenerate results of class F-C08-6
at the sites where the result shows it: an index has at least one column (`PRIMARY KEY x`), a foreign key at least one column on
each side (`FOREIGN KEY x REFERENCES t y`), a CREATE TABLE at least one element (`CREATE TABLE t x`).
-/
set_option linter.unusedVariables false
set_option linter.unusedSectionVars false
set_option linter.unusedSimpArgs false
set_option maxHeartbeats 1000000
open Lex PM Ast

namespace PA
namespace Ddl

def tCT (t : ColType) : List String := t.toVal.texts
def tGC (g : GenCol) : List String := g.toVal.texts
def tOGC : Option GenCol → List String | none => [] | some g => tGC g
def tDC (c : DefCol) : List String := c.toVal.texts
def tDCs (l : List DefCol) : List String := Val.textsL (l.map DefCol.toVal)
def tIC (c : IndexCol) : List String := c.toVal.texts
def tICs (l : List IndexCol) : List String := Val.textsL (l.map IndexCol.toVal)
def tIdx (i : Index) : List String := i.toVal.texts
def tOIdx : Option Index → List String | none => [] | some i => tIdx i
def tIdxs (l : List Index) : List String := Val.textsL (l.map Index.toVal)
def tFK (f : ForeignKey) : List String := f.toVal.texts
def tFKs (l : List ForeignKey) : List String := Val.textsL (l.map ForeignKey.toVal)
def tCOI (x : ColOrIdx) : List String := x.toVal.texts
def tCSs (l : List ConfigStr) : List String := Val.textsL (l.map ConfigStr.toVal)
def tCTb (c : CreateTable) : List String := c.toVal.texts

macro "dx_simp" : tactic =>
  `(tactic| simp [tCT, tGC, tOGC, tDC, tDCs, tIC, tICs, tIdx, tOIdx, tIdxs, tFK, tFKs, tCOI, tCSs, tCTb, tCS, tTN, tOS, tOI, tE, tEs, tOpt, tStrs,
      ColType.toVal, GenCol.toVal, DefCol.toVal, IndexCol.toVal, Index.toVal, ForeignKey.toVal, ColOrIdx.toVal, ConfigStr.toVal,
      CreateTable.toVal, TableName.toVal, exprs, optExpr, Val.texts, Val.textsL, Val.textsF, Val.optStr, Val.optInt, Val.ofOpt, Val.strs,
      textsL_append])

theorem tCT_mk (n : String) (ps : Option (List Expr)) : tCT ⟨n, ps⟩ = n :: tOL ps := by cases ps <;> dx_simp <;> rfl
@[grind =] theorem tCT_none (n : String) : tCT ⟨n, none⟩ = [n] := by simp [tCT_mk, tOL]
@[grind =] theorem tCT_some (n : String) (ps : List Expr) : tCT ⟨n, some ps⟩ = n :: tEs ps := by simp [tCT_mk, tOL]
@[grind =] theorem tGC_mk (e : Expr) (m : Option String) : tGC ⟨e, m⟩ = tE e ++ tOS m := by cases m <;> dx_simp
@[grind =] theorem tOGC_none : tOGC none = [] := rfl
@[grind =] theorem tOGC_some (g) : tOGC (some g) = tGC g := rfl
theorem tDC_mk (n ty us zf cs co ge an nn ai df ou cm) :
    tDC ⟨n, ty, us, zf, cs, co, ge, an, nn, ai, df, ou, cm⟩ =
      n :: (tCT ty ++ (tOS cs ++ (tOS co ++ (tOGC ge ++ (tOpt df ++ (tOpt ou ++ tOS cm)))))) := by
  cases cs <;> cases co <;> cases ge <;> cases df <;> cases ou <;> cases cm <;> dx_simp
theorem tDC_eq (c : DefCol) :
    tDC c = c.name :: (tCT c.type ++ (tOS c.charset ++ (tOS c.collate ++ (tOGC c.generated ++ (tOpt c.default ++ (tOpt c.onUpdate ++ tOS c.comment)))))) := by
  cases c; exact tDC_mk ..
@[grind =] theorem tDCs_nil : tDCs [] = [] := by dx_simp
@[grind =] theorem tDCs_append (a b : List DefCol) : tDCs (a ++ b) = tDCs a ++ tDCs b := by dx_simp
@[grind =] theorem tDCs_one (c : DefCol) : tDCs [c] = tDC c := by dx_simp
theorem tDCs_cons (c : DefCol) (l) : tDCs (c :: l) = tDC c ++ tDCs l := by dx_simp
@[grind =] theorem tIC_mk (n : String) (m : Option Int) : tIC ⟨n, m⟩ = n :: tOI m := by cases m <;> dx_simp
@[grind =] theorem tICs_nil : tICs [] = [] := by dx_simp
theorem tICs_cons (c : IndexCol) (l) : tICs (c :: l) = tIC c ++ tICs l := by dx_simp
theorem tICs_flatMap (cs : List IndexCol) : cs.flatMap tIC = tICs cs := by
  induction cs with
  | nil => simp [tICs_nil]
  | cons c cs ih => simp [tICs_cons, ih]
@[grind =] theorem tIdx_mk (k : IndexKind) (n : Option String) (cols : List IndexCol) (us cm : Option String) (kb : Option Int) :
    tIdx ⟨k, n, cols, us, cm, kb⟩ = tOS n ++ (tICs cols ++ (tOS us ++ (tOS cm ++ tOI kb))) := by
  cases n <;> cases us <;> cases cm <;> cases kb <;> dx_simp
@[grind =] theorem tOIdx_none : tOIdx none = [] := rfl
@[grind =] theorem tOIdx_some (i) : tOIdx (some i) = tIdx i := rfl
@[grind =] theorem tIdxs_nil : tIdxs [] = [] := by dx_simp
@[grind =] theorem tIdxs_append (a b : List Index) : tIdxs (a ++ b) = tIdxs a ++ tIdxs b := by dx_simp
@[grind =] theorem tIdxs_one (c : Index) : tIdxs [c] = tIdx c := by dx_simp
theorem strs_texts (l : List String) : (Val.strs l).texts = l := by
  have := tStrs_eq l
  simpa [tStrs, Val.strs, Val.texts] using this
@[grind =] theorem tFK_mk (cn : String) (sl : List String) (mt : String) (mc : List String) (od ou : Option String) :
    tFK ⟨cn, sl, mt, mc, od, ou⟩ = cn :: (sl ++ (mt :: (mc ++ (tOS od ++ tOS ou)))) := by
  have h1 := strs_texts sl
  have h2 := strs_texts mc
  cases od <;> cases ou <;> simp [tFK, ForeignKey.toVal, Val.texts, Val.textsF, Val.optStr, Val.ofOpt, tOS, h1, h2]
@[grind =] theorem tFKs_nil : tFKs [] = [] := by dx_simp
@[grind =] theorem tFKs_append (a b : List ForeignKey) : tFKs (a ++ b) = tFKs a ++ tFKs b := by dx_simp
@[grind =] theorem tFKs_one (c : ForeignKey) : tFKs [c] = tFK c := by dx_simp
@[grind =] theorem tCOI_col (c) : tCOI (.col c) = tDC c := rfl
@[grind =] theorem tCOI_idx (c) : tCOI (.idx c) = tIdx c := rfl
@[grind =] theorem tCOI_fk (c) : tCOI (.fk c) = tFK c := rfl
@[grind =] theorem tCSs_nil : tCSs [] = [] := by dx_simp
@[grind =] theorem tCSs_append (a b : List ConfigStr) : tCSs (a ++ b) = tCSs a ++ tCSs b := by dx_simp
theorem tCSs_cons (c : ConfigStr) (l) : tCSs (c :: l) = tCS c ++ tCSs l := by dx_simp
theorem tCSs_flatMap (cs : List ConfigStr) : cs.flatMap tCS = tCSs cs := by
  induction cs with
  | nil => simp [tCSs_nil]
  | cons c cs ih => simp [tCSs_cons, ih]
theorem tDCs_flatMap (cs : List DefCol) : cs.flatMap tDC = tDCs cs := by
  induction cs with
  | nil => simp [tDCs_nil]
  | cons c cs ih => simp [tDCs_cons, ih]
theorem tCTb_eq (c : CreateTable) :
    tCTb c = tTN c.table ++ (tDCs c.columns ++ (tOIdx c.primaryKey ++ (tIdxs c.uniqueKey ++ (tIdxs c.key ++ (tIdxs c.fulltextKey ++
      (tFKs c.foreignKey ++ (tDCs c.partitionedBy ++ (tOS c.comment ++ (tOS c.engine ++ (tOI c.autoIncrement ++ (tOS c.defaultCharset ++
      (tOS c.collate ++ (tOS c.rowFormat ++ (tOS c.statesPersistent ++ (tOS c.rowFormatSerde ++ (tOS c.rowFormatDelimited ++
      (tOS c.storedAsInputformat ++ (tOS c.outputformat ++ (tOS c.location ++ tCSs c.tblproperties))))))))))))))))))) := by
  obtain ⟨tb, ine, cols, pk, uk, k, fk, fo, pb, cm, en, ai, dc, co, rf, sp, rs, rd, si, st, ou, lo, tp⟩ := c
  cases pk <;>
    simp [tCTb, CreateTable.toVal, Val.texts, Val.textsF, Val.ofOpt, tTN, tDCs, tOIdx, tIdx, tIdxs, tFKs, tOS, tOI, tCSs, List.append_assoc]

/-! ### the `Full` fragment -/
def NE {α : Type} (l : List α) : Bool := !l.isEmpty
@[grind =] theorem NE_def {α : Type} (l : List α) : NE l = !l.isEmpty := rfl
def FullCTy (t : ColType) : Bool := FullOL t.params
@[grind =] theorem FullCTy_mk (n ps) : FullCTy ⟨n, ps⟩ = FullOL ps := rfl
def FullGC (g : GenCol) : Bool := FullE g.e
@[grind =] theorem FullGC_mk (e m) : FullGC ⟨e, m⟩ = FullE e := rfl
def FullOGC : Option GenCol → Bool | none => true | some g => FullGC g
attribute [grind =] FullOGC
def FullDC (c : DefCol) : Bool := FullCTy c.type && (FullOGC c.generated && (FullO c.default && FullO c.onUpdate))
def FullDCs : List DefCol → Bool | [] => true | c :: l => FullDC c && FullDCs l
theorem FullDCs_append (a b : List DefCol) : FullDCs (a ++ b) = (FullDCs a && FullDCs b) := by
  induction a with
  | nil => simp [FullDCs]
  | cons x a ih => simp [FullDCs, ih, Bool.and_assoc]
theorem fullDCs_all (vs : List DefCol) : FullDCs vs = true → ∀ v ∈ vs, FullDC v = true := by
  induction vs with
  | nil => simp
  | cons v vs ih => simp only [FullDCs, Bool.and_eq_true, List.mem_cons]; rintro ⟨h1, h2⟩ x (rfl | hx); exact h1; exact ih h2 x hx
/-- an index has at least one column (F-C08-6: `PRIMARY KEY x`) -/
def FullIdx (i : Index) : Bool := !i.cols.isEmpty
@[grind =] theorem FullIdx_mk (k n cols us cm kb) : FullIdx ⟨k, n, cols, us, cm, kb⟩ = !cols.isEmpty := rfl
def FullOIdx : Option Index → Bool | none => true | some i => FullIdx i
def FullIdxs : List Index → Bool | [] => true | c :: l => FullIdx c && FullIdxs l
theorem FullIdxs_append (a b : List Index) : FullIdxs (a ++ b) = (FullIdxs a && FullIdxs b) := by
  induction a with
  | nil => simp [FullIdxs]
  | cons x a ih => simp [FullIdxs, ih, Bool.and_assoc]
/-- a foreign key has at least one column on each side (F-C08-6: `FOREIGN KEY x REFERENCES t y`) -/
def FullFK (f : ForeignKey) : Bool := !f.slave.isEmpty && !f.masterCols.isEmpty
@[grind =] theorem FullFK_mk (cn sl mt mc od ou) : FullFK ⟨cn, sl, mt, mc, od, ou⟩ = (!sl.isEmpty && !mc.isEmpty) := rfl
def FullFKs : List ForeignKey → Bool | [] => true | c :: l => FullFK c && FullFKs l
theorem FullFKs_append (a b : List ForeignKey) : FullFKs (a ++ b) = (FullFKs a && FullFKs b) := by
  induction a with
  | nil => simp [FullFKs]
  | cons x a ih => simp [FullFKs, ih, Bool.and_assoc]
def FullCOI : ColOrIdx → Bool | .col c => FullDC c | .idx i => FullIdx i | .fk f => FullFK f
attribute [grind =] FullCOI

end Ddl
end PA
